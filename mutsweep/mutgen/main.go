// mutgen lists first-order mutants of the non-test Go files of a package directory, one JSON object per line:
// {"id", "file", "line", "start", "end", "new", "op", "old"}; a mutant is the source with bytes [start,end) replaced by "new".
// Developer tool for measuring what the checks of /verif detect (see DESIGN.md, Appendix F); not part of any registered check.
package main

import (
	"encoding/json"
	"fmt"
	"go/ast"
	"go/parser"
	"go/token"
	"os"
	"path/filepath"
	"sort"
	"strconv"
	"strings"
)

type mutant struct {
	ID    int    `json:"id"`
	File  string `json:"file"`
	Line  int    `json:"line"`
	Start int    `json:"start"`
	End   int    `json:"end"`
	New   string `json:"new"`
	Op    string `json:"op"`
	Old   string `json:"old"`
	Func  string `json:"func"`
}

var swaps = map[token.Token][]string{
	token.LSS: {"<=", ">"}, token.LEQ: {"<"}, token.GTR: {">=", "<"}, token.GEQ: {">"},
	token.EQL: {"!="}, token.NEQ: {"=="},
	token.ADD: {"-"}, token.SUB: {"+"}, token.MUL: {"/"}, token.QUO: {"*"}, token.REM: {"/"},
	token.LAND: {"||"}, token.LOR: {"&&"},
	token.SHL: {">>"}, token.SHR: {"<<"},
	token.AND: {"|"}, token.OR: {"&"}, token.XOR: {"&"},
}

func main() {
	dir := os.Args[1]
	skip := map[string]bool{"verif_hooks.go": true, "crc32_table.go": true}
	files, _ := filepath.Glob(filepath.Join(dir, "*.go"))
	sort.Strings(files)
	var out []mutant
	for _, f := range files {
		base := filepath.Base(f)
		if strings.HasSuffix(base, "_test.go") || skip[base] {
			continue
		}
		src, err := os.ReadFile(f)
		if err != nil {
			panic(err)
		}
		fset := token.NewFileSet()
		af, err := parser.ParseFile(fset, f, src, 0)
		if err != nil {
			panic(err)
		}
		off := func(p token.Pos) int { return fset.Position(p).Offset }
		add := func(fn string, p token.Pos, start, end int, nw, op string) {
			out = append(out, mutant{File: base, Line: fset.Position(p).Line, Start: start, End: end, New: nw, Op: op, Old: string(src[start:end]), Func: fn})
		}
		for _, d := range af.Decls {
			fd, ok := d.(*ast.FuncDecl)
			if !ok || fd.Body == nil {
				continue
			}
			fn := fd.Name.Name
			if strings.HasPrefix(fn, "String") {
				continue
			}
			ast.Inspect(fd.Body, func(n ast.Node) bool {
				switch x := n.(type) {
				case *ast.BinaryExpr:
					// string concatenations (error texts) are of no interest
					if x.Op == token.ADD {
						if bl, ok := x.X.(*ast.BasicLit); ok && bl.Kind == token.STRING {
							return true
						}
						if bl, ok := x.Y.(*ast.BasicLit); ok && bl.Kind == token.STRING {
							return true
						}
					}
					for _, nw := range swaps[x.Op] {
						s := off(x.OpPos)
						add(fn, x.OpPos, s, s+len(x.Op.String()), nw, "binop")
					}
				case *ast.UnaryExpr:
					if x.Op == token.NOT {
						s := off(x.OpPos)
						add(fn, x.OpPos, s, s+1, "", "unnot")
					}
				case *ast.BasicLit:
					if x.Kind == token.INT {
						v, err := strconv.ParseInt(x.Value, 0, 64)
						if err == nil {
							s := off(x.Pos())
							add(fn, x.Pos(), s, s+len(x.Value), strconv.FormatInt(v+1, 10), "const+1")
							if v > 0 {
								add(fn, x.Pos(), s, s+len(x.Value), strconv.FormatInt(v-1, 10), "const-1")
							}
						}
					}
				case *ast.IfStmt:
					s, e := off(x.Cond.Pos()), off(x.Cond.End())
					add(fn, x.Cond.Pos(), s, e, "false && ("+string(src[s:e])+")", "if-false")
					add(fn, x.Cond.Pos(), s, e, "true || ("+string(src[s:e])+")", "if-true")
				case *ast.BlockStmt:
					for _, st := range x.List {
						switch y := st.(type) {
						case *ast.ExprStmt:
							add(fn, y.Pos(), off(y.Pos()), off(y.End()), "", "del-stmt")
						case *ast.IncDecStmt:
							add(fn, y.Pos(), off(y.Pos()), off(y.End()), "", "del-stmt")
						case *ast.AssignStmt:
							if y.Tok != token.DEFINE {
								add(fn, y.Pos(), off(y.Pos()), off(y.End()), "", "del-stmt")
							}
						case *ast.BranchStmt:
							if y.Tok == token.CONTINUE || y.Tok == token.BREAK {
								add(fn, y.Pos(), off(y.Pos()), off(y.End()), "", "del-branch")
							}
						}
					}
				case *ast.CaseClause:
					for _, st := range x.Body {
						switch y := st.(type) {
						case *ast.ExprStmt:
							add(fn, y.Pos(), off(y.Pos()), off(y.End()), "", "del-stmt")
						case *ast.AssignStmt:
							if y.Tok != token.DEFINE {
								add(fn, y.Pos(), off(y.Pos()), off(y.End()), "", "del-stmt")
							}
						}
					}
				}
				return true
			})
		}
	}
	enc := json.NewEncoder(os.Stdout)
	for i := range out {
		out[i].ID = i
		enc.Encode(out[i])
	}
	fmt.Fprintf(os.Stderr, "%d mutants\n", len(out))
}
