module mutgen

go 1.21
