#!/usr/bin/env python3
"""Mechanical mutation sweep (developer tool, not a registered check; DESIGN.md Appendix F).

phase1: every first-order mutant of mutgen -> scratch copy of /repo under /tmp/mut -> go build, then the repository's own
        test suite; survivors (compile + suite passes) are what the checks of /verif have to catch.
phase2: every survivor -> extract (are the regenerated Lean files different from the clean tree's?) and the correspondence
        harness built against the mutant, run over the case files the Lean driver generates for the clean tree
        (quick tier, seed 1, all twenty properties). A mutant is DETECTED when a judge fails (replay), a correspondence
        fails or a regenerated file differs (tie; the generated_* theorems compare those files with the model).
usage: sweep.py phase1 [N-sample]      first-order mutants -> go build + the library's own suite (survivors = work list)
       sweep.py cases                  case files of all properties (driver seed MUT_SEED, default 1) + clean generated files
       sweep.py phase2 | phase2b | phase2c   survivors through the fast path | undetected ones again | detected ones again (other seed)
       sweep.py retest <G1..G9> <props>   classified OBSERVABLE mutants of a group against freshly generated cases
       sweep.py seeds                  every seeded/*/patch.diff through the fast path: is its own property silent?
       sweep.py refactor <dirs>        behaviour-preserving patches (harmless/*): suite, judges, correspondence, generated files
       sweep.py tiebuild <dirs>        the same patches: regenerate INTO lean/Astits/Generated and build (sequential; restores)
       sweep.py report
"""
import json, os, random, shutil, subprocess, sys, time, multiprocessing as mp

ROOT = "/verif"
MS = os.path.join(ROOT, "mutsweep")
RES = os.path.join(MS, "results")
TMP = "/tmp/mut"
CASES = "/tmp/mutcases"   # case files and the clean tree's regenerated files
GOENV = dict(os.environ, GOFLAGS="-mod=mod", GOPROXY="off", GOSUMDB="off", GOTOOLCHAIN="local", GOMEMLIMIT="4GiB")
PROPS = ["C%02d" % i for i in range(1, 21)]


def sh(cmd, cwd=None, timeout=None, env=None, inp=None):
    try:
        p = subprocess.run(cmd, cwd=cwd, env=env or GOENV, timeout=timeout, input=inp, stdout=subprocess.PIPE, stderr=subprocess.STDOUT, text=True)
        return p.returncode, p.stdout
    except subprocess.TimeoutExpired as e:
        return 124, (e.stdout or b"").decode("utf8", "replace") if isinstance(e.stdout, bytes) else (e.stdout or "")


def mutants():
    sh(["go", "build", "-o", "mutgen", "."], cwd=os.path.join(MS, "mutgen"))
    rc, out = sh([os.path.join(MS, "mutgen", "mutgen"), "/repo"])
    return [json.loads(l) for l in out.splitlines() if l.startswith("{")]


def slot():
    return mp.current_process()._identity[0] if mp.current_process()._identity else 0


def make_copy(m, wd):
    sh(["rsync", "-a", "--delete", "--exclude", ".git", "/repo/", wd + "/"])
    p = os.path.join(wd, m["file"])
    src = open(p, "rb").read()
    st, en = m["start"], m["end"]
    if src[st:en].decode("utf8", "replace") != m["old"]:
        # the file changed since the mutant was generated (a fix commit): nearest occurrence of the same text
        o = m["old"].encode(); cands = []; k = src.find(o)
        while k >= 0:
            cands.append(k); k = src.find(o, k + 1)
        if not cands:
            raise LookupError("mutated text no longer in %s" % m["file"])
        st = min(cands, key=lambda c: abs(c - m["start"])); en = st + len(o)
    open(p, "wb").write(src[:st] + m["new"].encode() + src[en:])


def phase1_one(m):
    wd = "%s/w%d" % (TMP, slot())
    make_copy(m, wd)
    rc, out = sh(["go", "build", "./..."], cwd=wd, timeout=300)
    if rc != 0:
        return dict(m, status="nocompile")
    rc, out = sh(["go", "test", "-vet=off", "-count=1", "-timeout", "120s", "./..."], cwd=wd, timeout=400)
    return dict(m, status="survived" if rc == 0 else "killed")


def phase1(n):
    ms = mutants()
    done = {}
    p1 = os.path.join(RES, "phase1.jsonl")
    if os.path.exists(p1):
        for l in open(p1):
            r = json.loads(l)
            done[(r["file"], r["start"], r["end"], r["new"])] = r
    todo = [m for m in ms if (m["file"], m["start"], m["end"], m["new"]) not in done]
    if n:
        random.Random(1).shuffle(todo)
        todo = todo[:n]
    os.makedirs(TMP, exist_ok=True)
    with mp.Pool(int(os.environ.get("MUT_WORKERS", "8"))) as pool, open(p1, "a") as f:
        for i, r in enumerate(pool.imap_unordered(phase1_one, todo)):
            f.write(json.dumps(r) + "\n"); f.flush()
            if i % 50 == 0:
                print(i, len(todo), r["status"], flush=True)
    shutil.rmtree(TMP, ignore_errors=True)


def gen_cases():
    os.makedirs(os.path.join(CASES, "cases"), exist_ok=True)
    drv = os.path.join(ROOT, "lean/.lake/build/bin/driver")
    for p in PROPS:
        with open(os.path.join(CASES, "cases", p + ".jsonl"), "w") as f:
            subprocess.run([drv, "gen", p, "quick", os.environ.get("MUT_SEED", "1")], stdout=f, check=True)
    # the clean tree's regenerated files
    g = os.path.join(CASES, "gen-clean"); os.makedirs(g, exist_ok=True)
    sh([os.path.join(ROOT, "extract", "extract"), "/repo", g])


def open_classes():
    fs = json.load(open(os.path.join(ROOT, "known_findings.json")))
    fs = fs["findings"] if isinstance(fs, dict) else fs
    return {(f["property"], f["class"]) for f in fs if f.get("status") == "open"}


def phase2_one(m):
    s = slot()
    wd = "%s/w%d" % (TMP, s)
    hz = "%s/h%d" % (TMP, s)
    res = dict(m, tie=[], props={})
    try:
        make_copy(m, wd)
    except LookupError as e:
        res["gone"] = str(e)
        return res
    # tie: regenerated files
    g = "%s/g%d" % (TMP, s)
    shutil.rmtree(g, ignore_errors=True); os.makedirs(g)
    rc, out = sh([os.path.join(ROOT, "extract", "extract"), wd, g], timeout=120)
    if rc != 0:
        res["tie"].append("extract-fails-closed")
    else:
        for fn in sorted(os.listdir(os.path.join(CASES, "gen-clean"))):
            a = open(os.path.join(CASES, "gen-clean", fn)).read()
            b = open(os.path.join(g, fn)).read() if os.path.exists(os.path.join(g, fn)) else ""
            if a != b:
                res["tie"].append(fn)
    # harness against the mutant
    shutil.rmtree(hz, ignore_errors=True); os.makedirs(hz)
    for fn in os.listdir(os.path.join(ROOT, "harness")):
        if fn.endswith(".go") or fn in ("go.mod", "go.sum"):
            shutil.copy(os.path.join(ROOT, "harness", fn), hz)
    gm = open(os.path.join(hz, "go.mod")).read()
    import re
    gm = re.sub(r"(replace github.com/asticode/go-astits => ).*", r"\g<1>" + wd, gm)
    open(os.path.join(hz, "go.mod"), "w").write(gm)
    rc, out = sh(["go", "build", "-tags", "verif", "-o", "harness", "."], cwd=hz, timeout=600)
    if rc != 0:
        res["harness_build"] = out[-500:]
        return res
    oc = OPEN
    only = os.environ.get("MUT_PROPS")
    for p in (only.split(",") if only else PROPS):
        t0 = time.time()
        with open(os.path.join(CASES, "cases", p + ".jsonl")) as f:
            try:
                pr = subprocess.run([os.path.join(hz, "harness"), "-max-mismatches", os.environ.get("MUT_MAX", "1000")], stdin=f, stdout=subprocess.PIPE, stderr=subprocess.DEVNULL,
                                    env=dict(GOENV, GOMAXPROCS="2"), timeout=150, text=True)
                last = pr.stdout.strip().splitlines()[-1] if pr.stdout.strip() else ""
                sm = json.loads(last)
            except subprocess.TimeoutExpired:
                res["props"][p] = {"verdict": "timeout"}; break
            except Exception as e:
                res["props"][p] = {"verdict": "crash"}; continue
        judge = corr = known = 0
        for mm in sm.get("mismatches") or []:
            if mm["kind"] == "judge":
                if (p, mm["cls"]) in oc and mm["impl"] == mm["model"]:
                    known += 1
                else:
                    judge += 1
            else:
                corr += 1
        v = "replay" if judge else ("corr" if corr else "ok")
        res["props"][p] = {"verdict": v, "judge": judge, "corr": corr, "t": round(time.time() - t0, 1)}
    return res


def phase2(only=None):
    global OPEN
    OPEN = open_classes()
    os.makedirs(TMP, exist_ok=True)
    surv = [json.loads(l) for l in open(os.path.join(RES, "phase1.jsonl"))]
    surv = [m for m in surv if m["status"] == "survived" and (not only or m["file"] == only)]
    p2 = os.path.join(RES, "phase2.jsonl")
    done = set()
    if os.path.exists(p2):
        for l in open(p2):
            r = json.loads(l); done.add((r["file"], r["start"], r["end"], r["new"]))
    todo = [m for m in surv if (m["file"], m["start"], m["end"], m["new"]) not in done]
    with mp.Pool(int(os.environ.get("MUT_WORKERS", "7"))) as pool, open(p2, "a") as f:
        for i, r in enumerate(pool.imap_unordered(phase2_one, todo)):
            f.write(json.dumps(r) + "\n"); f.flush()
            if i % 10 == 0:
                print(i, len(todo), flush=True)


def phase2b():
    global OPEN
    OPEN = open_classes()
    os.makedirs(TMP, exist_ok=True)
    p2 = [json.loads(l) for l in open(os.path.join(RES, "phase2.jsonl"))]
    todo = [{k: v for k, v in r.items() if k not in ("tie", "props")} for r in p2 if verdict(r) in ("SURVIVED", "tie")]
    with mp.Pool(int(os.environ.get("MUT_WORKERS", "7"))) as pool, open(os.path.join(RES, "phase2b.jsonl"), "a") as f:
        for i, r in enumerate(pool.imap_unordered(phase2_one, todo)):
            f.write(json.dumps(r) + "\n"); f.flush()
            if i % 50 == 0:
                print(i, len(todo), flush=True)


def phase2c():
    """re-run the mutants that were DETECTED (replay / corr) against the case files currently in CASES (generate them with
    another MUT_SEED first): which detections depend on the driver seed?"""
    global OPEN
    OPEN = open_classes()
    os.makedirs(TMP, exist_ok=True)
    p2 = load_p2()
    todo = [{k: v for k, v in r.items() if k not in ("tie", "props")} for r in p2 if verdict(r) in ("replay", "corr")]
    out = os.path.join(RES, "phase2c_seed%s.jsonl" % os.environ.get("MUT_SEED", "x"))
    lost = []
    with mp.Pool(int(os.environ.get("MUT_WORKERS", "10"))) as pool, open(out, "w") as f:
        for i, r in enumerate(pool.imap_unordered(phase2_one, todo)):
            f.write(json.dumps(r) + "\n"); f.flush()
            if "gone" in r:
                continue
            if verdict(r) == "SURVIVED":
                lost.append(r)
            if i % 100 == 0:
                print(i, len(todo), len(lost), flush=True)
    print("detected with seed 1:", len(todo), "not detected with this seed:", len(lost))
    for r in sorted(lost, key=lambda r: (r["file"], r["line"])):
        print("LOST %s:%d %s [%s] %r -> %r" % (r["file"], r["line"], r["func"], r["op"], r["old"][:50], r["new"][:30]))


def load_p2():
    p2 = [json.loads(l) for l in open(os.path.join(RES, "phase2.jsonl"))]
    pb = os.path.join(RES, "phase2b.jsonl")
    if os.path.exists(pb):
        upd = {}
        for l in open(pb):
            r = json.loads(l); upd[(r["file"], r["start"], r["end"], r["new"])] = r
        for r in p2:
            u = upd.get((r["file"], r["start"], r["end"], r["new"]))
            if u:
                r["props"].update(u["props"])
    return p2


def retest(group, props):
    """re-run the OBSERVABLE mutants of a classified group against freshly generated cases of the given properties"""
    global OPEN
    OPEN = open_classes()
    os.makedirs(TMP, exist_ok=True)
    drv = os.path.join(ROOT, "lean/.lake/build/bin/driver")
    for p in props:
        with open(os.path.join(CASES, "cases", p + ".jsonl"), "w") as f:
            subprocess.run([drv, "gen", p, "quick", os.environ.get("MUT_SEED", "1")], stdout=f, check=True)
    td = os.path.join(RES, "tests")
    ms = json.load(open(os.path.join(td, group + "_mutants.json")))
    cl = {c["idx"]: c for c in json.load(open(os.path.join(td, group + "_classification.json")))}
    todo = [m for m in ms if cl.get(m["idx"], {}).get("verdict") == "OBSERVABLE"]
    os.environ["MUT_PROPS"] = ",".join(props)
    with mp.Pool(8) as pool:
        for r in sorted(pool.imap_unordered(phase2_one, todo), key=lambda r: r["idx"]):
            print(group, r["idx"], "%s:%d" % (r["file"], r["line"]), r["op"], repr(r["old"][:30]), "->", repr(r["new"][:20]),
                  {k: v["verdict"] for k, v in r["props"].items()}, r["tie"], "|", cl[r["idx"]]["reason"][:90])


def patch_one(args):
    """a patch file (git diff) instead of a point mutation: same run as phase2_one"""
    name, patch = args
    s_ = slot()
    wd = "%s/w%d" % (TMP, s_)
    sh(["rsync", "-a", "--delete", "--exclude", ".git", "/repo/", wd + "/"])
    rc, out = sh(["patch", "-p1", "-s", "-i", patch], cwd=wd)
    res = {"name": name, "tie": [], "props": {}}
    if rc != 0:
        res["patch_failed"] = out[-300:]
        return res
    rc, out = sh(["go", "test", "-vet=off", "-count=1", "./..."], cwd=wd, timeout=600)
    res["suite_ok"] = rc == 0
    m = {"file": "", "start": 0, "end": 0, "new": "", "old": ""}
    global make_copy
    return dict(res, **_run_against(wd, s_))


def _run_against(wd, s_):
    res = {"tie": [], "props": {}}
    hz = "%s/h%d" % (TMP, s_)
    g = "%s/g%d" % (TMP, s_)
    shutil.rmtree(g, ignore_errors=True); os.makedirs(g)
    rc, out = sh([os.path.join(ROOT, "extract", "extract"), wd, g], timeout=120)
    if rc not in (0, 3):
        res["tie"].append("extract-fails-closed: " + out.strip()[-200:])
    else:
        if rc == 3:
            res["tie"].append("extract-partial: " + out.strip()[-200:])
        for fn in sorted(os.listdir(os.path.join(CASES, "gen-clean"))):
            a = open(os.path.join(CASES, "gen-clean", fn)).read()
            b = open(os.path.join(g, fn)).read() if os.path.exists(os.path.join(g, fn)) else ""
            if a != b:
                res["tie"].append(fn)
    shutil.rmtree(hz, ignore_errors=True); os.makedirs(hz)
    for fn in os.listdir(os.path.join(ROOT, "harness")):
        if fn.endswith(".go") or fn in ("go.mod", "go.sum"):
            shutil.copy(os.path.join(ROOT, "harness", fn), hz)
    import re
    gm = open(os.path.join(hz, "go.mod")).read()
    gm = re.sub(r"(replace github.com/asticode/go-astits => ).*", r"\g<1>" + wd, gm)
    open(os.path.join(hz, "go.mod"), "w").write(gm)
    rc, out = sh(["go", "build", "-tags", "verif", "-o", "harness", "."], cwd=hz, timeout=600)
    if rc != 0:
        res["harness_build"] = out[-500:]
        return res
    for p in PROPS:
        with open(os.path.join(CASES, "cases", p + ".jsonl")) as f:
            try:
                pr = subprocess.run([os.path.join(hz, "harness"), "-max-mismatches", "1000"], stdin=f, stdout=subprocess.PIPE, stderr=subprocess.DEVNULL,
                                    env=dict(GOENV, GOMAXPROCS="2"), timeout=300, text=True)
                sm = json.loads(pr.stdout.strip().splitlines()[-1])
            except Exception as e:
                res["props"][p] = {"verdict": "crash"}; continue
        judge = corr = 0
        for mm in sm.get("mismatches") or []:
            if mm["kind"] == "judge":
                if not ((p, mm["cls"]) in OPEN and mm["impl"] == mm["model"]):
                    judge += 1
            else:
                corr += 1
        res["props"][p] = {"verdict": "replay" if judge else ("corr" if corr else "ok"), "judge": judge, "corr": corr}
    return res


def refactor(dirs):
    """harmless-refactoring round: every patchK.diff under the given directories"""
    global OPEN
    OPEN = open_classes()
    os.makedirs(TMP, exist_ok=True)
    todo = []
    for d in dirs:
        for k in (1, 2, 3):
            pth = os.path.join(d, "patch%d.diff" % k)
            if os.path.exists(pth):
                todo.append((os.path.basename(d) + "-%d" % k, pth))
        if os.path.exists(os.path.join(d, "patch.diff")):
            todo.append((os.path.basename(d.rstrip("/")), os.path.join(d, "patch.diff")))
    with mp.Pool(8) as pool, open(os.path.join(RES, "refactor.jsonl"), "a") as f:
        for r in pool.imap_unordered(patch_one, todo):
            f.write(json.dumps(r) + "\n"); f.flush()
            bad = {k: v["verdict"] for k, v in r["props"].items() if v["verdict"] != "ok"}
            print(r["name"], "suite_ok=%s" % r.get("suite_ok"), "tie=%s" % r["tie"], "props=%s" % bad, r.get("patch_failed", ""), r.get("harness_build", "")[:200], flush=True)


def seeds():
    """all seeded changes of /verif/seeded through the fast path; reports those whose own property stays silent"""
    global OPEN
    OPEN = open_classes()
    os.makedirs(TMP, exist_ok=True)
    todo = []
    meta = {}
    for d in sorted(os.listdir(os.path.join(ROOT, "seeded"))):
        pth = os.path.join(ROOT, "seeded", d, "patch.diff")
        if os.path.exists(pth):
            todo.append((d, pth))
            try:
                meta[d] = json.load(open(os.path.join(ROOT, "seeded", d, "meta.json")))
            except Exception:
                meta[d] = {}
    out = open(os.path.join(RES, "seeds.jsonl"), "w")
    silent = []
    with mp.Pool(int(os.environ.get("MUT_WORKERS", "10"))) as pool:
        for r in pool.imap_unordered(patch_one, todo):
            out.write(json.dumps(r) + "\n"); out.flush()
            own = meta[r["name"]].get("property")
            named = meta[r["name"]].get("properties_named_by_author") or [own]
            flagged = [k for k, v in r["props"].items() if v["verdict"] != "ok"]
            ok = own in flagged or any(p in flagged for p in named)
            if not ok:
                silent.append((r["name"], own, flagged, r["tie"], r.get("patch_failed", ""), r.get("harness_build", "")[:100]))
    print("seeds:", len(todo), "own property silent on the fast path:", len(silent))
    for x in sorted(silent):
        print("  ", x)


def tiebuild(dirs):
    """for every patch (patchK.diff or patch.diff) under the given directories: regenerate the Lean files from the patched
    copy INTO /verif/lean and build the whole project; restores the clean tree's files at the end. Sequential."""
    os.makedirs(TMP, exist_ok=True)
    gen = os.path.join(ROOT, "lean/Astits/Generated")
    todo = []
    for d in dirs:
        for nm in ("patch.diff", "patch1.diff", "patch2.diff", "patch3.diff"):
            pth = os.path.join(d, nm)
            if os.path.exists(pth):
                todo.append((os.path.basename(d.rstrip("/")) + ("" if nm == "patch.diff" else "-" + nm[5]), pth))
    bad = 0
    try:
        for name, patch in todo:
            wd = TMP + "/tie"
            sh(["rsync", "-a", "--delete", "--exclude", ".git", "/repo/", wd + "/"])
            rc, out = sh(["patch", "-p1", "-s", "-i", patch], cwd=wd)
            if rc != 0:
                print(name, "PATCH-FAILED"); bad += 1; continue
            rc, out = sh([os.path.join(ROOT, "extract", "extract"), wd, gen], timeout=120)
            if rc not in (0, 3):
                print(name, "EXTRACT-FAILS-CLOSED", out.strip()[-200:]); bad += 1; continue
            rc, out = sh(["lake", "build"], cwd=os.path.join(ROOT, "lean"), timeout=3600, env=dict(os.environ))
            errs = [l for l in out.splitlines() if l.startswith("error")]
            if errs:
                bad += 1
            print(name, "green" if not errs else "THEOREM-BROKEN " + " | ".join(errs[:3])[:400], flush=True)
    finally:
        sh([os.path.join(ROOT, "extract", "extract"), "/repo", gen], timeout=120)
        sh(["lake", "build"], cwd=os.path.join(ROOT, "lean"), timeout=3600, env=dict(os.environ))
    print("tie alarms:", bad, "of", len(todo))


def verdict(r):
    vs = [v["verdict"] for v in r["props"].values()]
    if "replay" in vs: return "replay"
    if "timeout" in vs or "crash" in vs: return "crash/timeout"
    if "corr" in vs: return "corr"
    if r["tie"]: return "tie"
    return "SURVIVED"


def report():
    import collections
    p1 = [json.loads(l) for l in open(os.path.join(RES, "phase1.jsonl"))]
    print("phase1:", collections.Counter(r["status"] for r in p1))
    p2f = os.path.join(RES, "phase2.jsonl")
    if not os.path.exists(p2f): return
    p2 = load_p2()
    print("phase2:", collections.Counter(verdict(r) for r in p2))
    byfile = collections.defaultdict(collections.Counter)
    for r in p2: byfile[r["file"]][verdict(r)] += 1
    for f, c in sorted(byfile.items()): print("  ", f, dict(c))
    for r in p2:
        if verdict(r) == "SURVIVED":
            print("SURV %s:%d %s [%s] %r -> %r" % (r["file"], r["line"], r["func"], r["op"], r["old"][:60], r["new"][:60]))


if __name__ == "__main__":
    c = sys.argv[1]
    if c == "phase1": phase1(int(sys.argv[2]) if len(sys.argv) > 2 else 0)
    elif c == "cases": gen_cases()
    elif c == "phase2": phase2(sys.argv[3] if len(sys.argv) > 3 and sys.argv[2] == "--only" else None)
    elif c == "phase2b": phase2b()
    elif c == "retest": retest(sys.argv[2], sys.argv[3].split(","))
    elif c == "refactor": refactor(sys.argv[2:])
    elif c == "seeds": seeds()
    elif c == "tiebuild": tiebuild(sys.argv[2:])
    elif c == "phase2c": phase2c()
    elif c == "report": report()
