#!/usr/bin/env python3
"""writes MANIFEST.json from props.py (kept in one place so the manifest is always valid)"""
import json, os, sys
ROOT = os.path.dirname(os.path.abspath(__file__))
sys.path.insert(0, ROOT)
from props import PROPS, NOT_APPLICABLE, HOOK_COMMITS

checks = []
for pid in sorted(PROPS):
    c = PROPS[pid]
    checks.append({
        "property_id": pid,
        "quick_cmd": "./check %s --tier quick" % pid,
        "thorough_cmd": "./check %s --tier thorough" % pid,
        "evidence_file": "evidence/%s.json" % pid,
        "replay_cmd_template": "./check %s --replay {path}" % pid,
        "engine": "lean4-proof+correspondence",
        "level_claimed": {"category": "proof", "text": c["level_text"], "design_ref": c.get("design_ref", "DESIGN.md section 5")},
        "level_note": c["level_note"],
        "technique": c["technique"],
    })
m = {
    "version": 1,
    "setup_cmd": "./setup.sh",
    "hooks": {
        "guard": "verif",
        "enable": "go build -tags verif (the harness module replaces github.com/asticode/go-astits by /repo); hooks live in /repo/verif_hooks.go (//go:build verif)",
        "baseline_off_cmd": "cd /repo && GOFLAGS=-mod=mod GOPROXY=off GOSUMDB=off GOTOOLCHAIN=local go test -vet=off -count=1 ./...",
        "source_commits": HOOK_COMMITS,
        "add_only": True,
    },
    "engines": [{"name": "lean4-proof+correspondence", "path": "lean/ extract/ harness/ check",
                 "serves_properties": sorted(PROPS),
                 "kind_free_text": "Lean 4 theorems about an executable model of the code; the model is tied to /repo on every run by (a) a translator regenerating tables, constants and pure expressions from the Go source with proved expectation theorems and (b) a differential correspondence run of model and implementation on generated cases"}],
    "checks": checks,
    "not_applicable": NOT_APPLICABLE,
    "notes": "See DESIGN.md. known_findings.json lists open findings and fixed defects.",
}
json.dump(m, open(os.path.join(ROOT, "MANIFEST.json"), "w"), indent=1)
print("MANIFEST.json: %d checks, %d not_applicable" % (len(checks), len(NOT_APPLICABLE)))
