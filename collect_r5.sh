#!/bin/bash
# developer helper: collect the deliverables of a round-3 seeding agent (/tmp/r5-Cxx) into /verif/seeded/R5-Cxx-K and test them
# usage: collect_r3.sh Cxx
P=$1
for K in 1 2 3; do
  src=/tmp/r5-$P
  [ -f $src/patch$K.diff ] || { echo "R5-$P-$K: no patch"; continue; }
  d=/verif/seeded/R5-$P-$K
  mkdir -p $d
  cp $src/patch$K.diff $d/patch.diff
  cp $src/seed_demo${K}_test.go.txt $d/seed_demo_test.go 2>/dev/null || cp $src/seed_demo${K}_test.go $d/seed_demo_test.go
  out=$(/verif/seedtest.sh $d $P 2>&1)
  suite=$(echo "$out" | sed -n '/--- suite with change/,/--- demo with change/p' | grep -c "^ok")
  demoW=$(echo "$out" | sed -n '/--- demo with change/,/--- check/p' | grep -c "FAIL")
  demoWO=$(echo "$out" | sed -n '/--- demo without change/,$p' | grep -c "^ok")
  res=$(echo "$out" | grep -E "^$P quick" | sed 's/.*cases/cases/')
  vio=$(echo "$out" | grep -E "^VIOLATION" | head -1 | sed 's/.*replay=//')
  echo "R5-$P-$K suite_ok=$suite demo_fails_with=$demoW demo_ok_without=$demoWO | $res | $vio"
done
