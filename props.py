# per-property configuration of ./check
PROPS = {
    "C10": {
        "modules": ["Astits.Props.C10"],
        "rule": "cases = the 256 table entries, all messages of length 0..1 (length 2: all 65536 in the thorough tier, 2000 sampled in quick), "
                "random messages up to 4 KiB with random split points, one message with every split point, stratified (state, byte) single steps "
                "(every byte value x 32 single-bit states, 0, all-ones, random states); a case is non-trivial when the message is non-empty; "
                "distinct = distinct operation arguments",
        "exhaustive": {"quick": False, "thorough": False},
        "assumptions": ["bytes are values < 256 (hypothesis of crc_eq_spec)", "Go uint32 arithmetic = BitVec 32"],
        "technique": "Lean 4 proof (GF(2)-linearity of the LFSR step, kernel evaluation of the whole regenerated table) + differential correspondence",
        "level_text": "Theorems: the Go table (regenerated from source) equals 8 bit-serial steps for all 256 entries; the table-driven step equals the textbook bit-serial CRC-32/MPEG-2 for every state and byte; hence computeCRC32 = spec for every byte string, piecewise = one pass, residue 0. The loop structure of the Go code is tied by running model and code on the same inputs.",
        "level_note": "Trusted: Lean kernel (+propext, Classical.choice, Quot.sound), the extractor for crc32.go/crc32_table.go, the model of the range loop as List.foldl, Go uint32 semantics = BitVec 32.",
        "trusted": ["model of crc32.go: lean/Astits/Model/CRC.lean (loop = List.foldl); table, loop body and init constant are regenerated from the Go source and proved equal to the model (table_eq, generated_step, generated_init)"],
    },
}

HOOK_COMMITS = ["0f2c4ce"]

_ALL = ["C%02d" % i for i in range(1, 21)]
NOT_APPLICABLE = [{"property_id": p, "reason": "machinery under construction: not yet claimed (no property is considered out of reach of the technique)"} for p in _ALL if p not in PROPS]
