#!/bin/bash
# developer helper: round 15 (refactorings with a slip): collect /tmp/r15-Fxx deliverables into /verif/seeded/R15-Fxx-K and test against the
# properties the author named (propsK.txt) 
G=$1
for K in 1 2; do
  src=/tmp/r15-$G
  [ -f $src/patch$K.diff ] || { echo "R15-$G-$K: no patch"; continue; }
  d=/verif/seeded/R15-$G-$K
  mkdir -p $d
  cp $src/patch$K.diff $d/patch.diff
  cp $src/seed_demo${K}_test.go.txt $d/seed_demo_test.go; cp $src/desc$K.txt $d/desc.txt 2>/dev/null
  props=$(cat $src/props$K.txt 2>/dev/null | tr -c 'C0-9\n ' ' ' | tr -s ' ')
  echo "$props" > $d/props.txt
  out=$(/verif/seedtest.sh $d $props 2>&1)
  suite=$(echo "$out" | sed -n '/--- suite with change/,/--- demo with change/p' | grep -c "^ok")
  demoW=$(echo "$out" | sed -n '/--- demo with change/,/--- check/p' | grep -c "FAIL")
  res=$(echo "$out" | grep -E "^C[0-9]+ quick" | sed 's/ quick.*-> /:/' | tr '\n' ' ')
  echo "R15-$G-$K suite_ok=$suite demo_fails=$demoW props=[$props] | $res"
done
