#!/bin/bash
# developer helper: apply a seeded change to /repo, confirm (suite passes, demo fails), run checks, undo.
# usage: seedtest.sh <dir with patch.diff and seed_demo_test.go> <prop> [more props...]
set -u
D=$1; shift
export GOFLAGS=-mod=mod GOPROXY=off GOSUMDB=off GOTOOLCHAIN=local VERIF_NO_EVIDENCE=1
cd /repo
if [ -n "$(git status --porcelain)" ]; then echo "repo not clean"; exit 2; fi
git apply "$D/patch.diff" || { echo "patch does not apply"; exit 2; }
echo "--- suite with change:"; go test -vet=off -count=1 ./... 2>&1 | grep -v "no test files" | tail -2
cp "$D/seed_demo_test.go" /repo/seed_demo_test.go
echo "--- demo with change:"; go test -vet=off -count=1 -run 'TestSeedDemo$' . 2>&1 | tail -3
rm -f /repo/seed_demo_test.go
cd /verif
for p in "$@"; do echo "--- check $p:"; ./check $p 2>&1 | grep -v "^KNOWN-FINDING" | tail -3 | cut -c1-300; done
cd /repo && git checkout -- . && git status --porcelain
cp "$D/seed_demo_test.go" /repo/seed_demo_test.go
echo "--- demo without change:"; go test -vet=off -count=1 -run 'TestSeedDemo$' . 2>&1 | tail -1
rm -f /repo/seed_demo_test.go
