-- This module serves as the root of the `Astits` library.
-- Import modules here that should be built as part of the library.
import Astits.Basic
