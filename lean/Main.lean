import Astits.Driver.C02
import Astits.Driver.C06
import Astits.Driver.DemuxProps
import Astits.Driver.MuxProps
import Astits.Driver.C09
import Astits.Driver.C10
import Astits.Driver.C11
import Astits.Driver.C12
import Astits.Driver.C13
import Astits.Driver.C14
import Astits.Driver.C15
open Astits

def usage : String := "usage: driver gen <property> <quick|thorough> <seed>"

def main (args : List String) : IO UInt32 := do
  match args with
  | ["gen", prop, tier, seed] =>
    let t := Tier.ofString tier
    let s : UInt64 := UInt64.ofNat (seed.toNat?.getD 0) * 0x9E3779B97F4A7C15 + 0x1234567
    let act : Option (Emit Unit) := match prop with
      | "C02" => some (DriverC02.run t)
      | "C06" => some (DriverC06.run t)
      | "C03" => some (DriverDemux.runC03 t)
      | "C07" => some (DriverDemux.runC07 t)
      | "C08" => some (DriverDemux.runC08 t)
      | "C16" => some (do DriverDemux.runC16 t; DriverMux.runC16mux t)
      | "C18" => some (do DriverDemux.runC18r t; DriverMux.runC18w t)
      | "C19" => some (DriverDemux.runC19 t)
      | "C20" => some (do DriverDemux.runC20sizes t; DriverDemux.runC20 t; DriverDemux.runC20long t)
      | "C01" => some (DriverMux.runC01 t)
      | "C04" => some (DriverMux.runC04 t)
      | "C05" => some (DriverMux.runC05 t)
      | "C17" => some (DriverMux.runC17 t)
      | "C09" => some (DriverC09.run t)
      | "C10" => some (DriverC10.run t)
      | "C11" => some (DriverC11.run t)
      | "C12" => some (DriverC12.run t)
      | "C13" => some (DriverC13.run t)
      | "C14" => some (DriverC14.run t)
      | "C15" => some (DriverC15.run t)
      | _ => none
    match act with
    | some a => let _ ← a.run (s, 0); return 0
    | none => IO.eprintln s!"driver: no generator for {prop}"; return 2
  | _ => IO.eprintln usage; return 2
