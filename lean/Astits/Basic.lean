/-
M0 — common infrastructure of the model: result type with a `panic` outcome, the model of
`astikit.BytesIterator`, the model of `astikit.BitsWriter` at field-group level, hex / canonical
text helpers.  Core Lean only (no Mathlib) so that the driver links as a `lean_exe`.
-/
namespace Astits

abbrev Bytes := List Nat

/-- Error classes a caller can observe (strings are never compared). -/
inductive Err where
  | other    -- any error that is not one of the classes below
  | eof      -- ErrNoMorePackets
  | sync     -- ErrPacketMustStartWithASyncByte (also class "other" for callers; kept for precision)
  | io       -- an error wrapping the injected reader/writer cause
  | skipped  -- errSkippedPacket (internal)
  | pidNotFound | pidExists | pcrInvalid
  | parser   -- an error wrapping the failing custom PacketsParser's error
  deriving DecidableEq, Repr, Inhabited

def Err.show : Err → String
  | .other => "other" | .eof => "eof" | .sync => "sync" | .io => "io" | .skipped => "skipped"
  | .pidNotFound => "pidNotFound" | .pidExists => "pidExists" | .pcrInvalid => "pcrInvalid"
  | .parser => "parser"

/-- Outcome of a Go call: a value, a returned error, or a run-time panic. -/
inductive Res (α : Type) where
  | ok    : α → Res α
  | err   : Err → Res α
  | panic : Res α
  deriving Repr

instance [Inhabited α] : Inhabited (Res α) := ⟨.panic⟩

@[inline] def Res.bind {α β} (x : Res α) (f : α → Res β) : Res β :=
  match x with
  | .ok a => f a
  | .err e => .err e
  | .panic => .panic

instance : Monad Res where
  pure := .ok
  bind := Res.bind

@[simp] theorem Res.bind_ok {α β} (a : α) (f : α → Res β) : (Res.ok a >>= f) = f a := rfl
@[simp] theorem Res.bind_err {α β} (e : Err) (f : α → Res β) : ((Res.err e : Res α) >>= f) = .err e := rfl
@[simp] theorem Res.bind_panic {α β} (f : α → Res β) : ((Res.panic : Res α) >>= f) = .panic := rfl
@[simp] theorem Res.pure_eq {α} (a : α) : (pure a : Res α) = .ok a := rfl

def Res.isOk {α} : Res α → Bool | .ok _ => true | _ => false
def Res.isPanic {α} : Res α → Bool | .panic => true | _ => false
def Res.mapErr {α} (f : Err → Err) : Res α → Res α
  | .ok a => .ok a | .err e => .err (f e) | .panic => .panic

/-! ### Model of `astikit.BytesIterator` -/

structure It where
  bs  : Bytes
  off : Int
  deriving Repr

/-- Parser over an iterator: Go functions taking `*astikit.BytesIterator`. -/
def P (α : Type) := It → Res (α × It)

instance : Monad P where
  pure a := fun i => .ok (a, i)
  bind x f := fun i => match x i with
    | .ok (a, i') => f a i'
    | .err e => .err e
    | .panic => .panic

@[simp] theorem P.pure_run {α} (a : α) (i : It) : (pure a : P α) i = .ok (a, i) := rfl
theorem P.bind_run {α β} (x : P α) (f : α → P β) (i : It) :
    (x >>= f) i = match x i with
      | .ok (a, i') => f a i'
      | .err e => .err e
      | .panic => .panic := rfl

def P.fail {α} (e : Err := .other) : P α := fun _ => .err e
def P.run {α} (p : P α) (bs : Bytes) (off : Int := 0) : Res (α × It) := p ⟨bs, off⟩
def P.val {α} (p : P α) (bs : Bytes) (off : Int := 0) : Res α :=
  match p ⟨bs, off⟩ with | .ok (a, _) => .ok a | .err e => .err e | .panic => .panic

namespace It
/-- `NextByte`: error when `len < off+1`, Go index panic when the offset is negative. -/
def nextByte : P Nat := fun i =>
  if (i.bs.length : Int) < i.off + 1 then .err .other
  else if i.off < 0 then .panic
  else .ok (i.bs.getD i.off.toNat 0, { i with off := i.off + 1 })

/-- `NextBytes` / `NextBytesNoCopy` (same value semantics; aliasing is treated in C16):
error when `len < off+n`; Go panics (`make` / slice bounds) when `n` or the offset is negative. -/
def nextBytes (n : Int) : P Bytes := fun i =>
  if (i.bs.length : Int) < i.off + n then .err .other
  else if n < 0 ∨ i.off < 0 then .panic
  else .ok ((i.bs.drop i.off.toNat).take n.toNat, { i with off := i.off + n })

def seek (n : Int) : P Unit := fun i => .ok ((), { i with off := n })
def skip (n : Int) : P Unit := fun i => .ok ((), { i with off := i.off + n })
def offset : P Int := fun i => .ok (i.off, i)
def len : P Int := fun i => .ok (i.bs.length, i)
def hasBytesLeft : P Bool := fun i => .ok (decide (i.off < i.bs.length), i)

/-- `Dump`: nil when no bytes are left; otherwise the rest (Go slice panic on a negative offset). -/
def dump : P Bytes := fun i =>
  if ¬ (i.off < i.bs.length) then .ok ([], i)
  else if i.off < 0 then .panic
  else .ok (i.bs.drop i.off.toNat, { i with off := i.bs.length })
end It

/-- run `p` only when the flag is set (Go: `if flag { x, err = parse… }`) -/
def optP {α} (c : Bool) (p : P α) : P (Option α) :=
  if c then do let a ← p; pure (some a) else pure none

/-! ### Model of `astikit.BitsWriter` at field-group level

A run of `Write(bool)`, `WriteN(v, n)`, `Write(uintN)` calls whose widths add up to a whole number of
bytes is a list of `(value, width)` fields; `WriteN` masks the value to `n` bits. `packFields` is the
big-endian, MSB-first packing BitsWriter performs. -/

def fieldsValue : List (Nat × Nat) → Nat → Nat
  | [], acc => acc
  | (v, w) :: r, acc => fieldsValue r (acc * 2 ^ w + v % 2 ^ w)

def fieldsWidth : List (Nat × Nat) → Nat
  | [] => 0
  | (_, w) :: r => w + fieldsWidth r

/-- big-endian bytes of `v` on `n` bytes -/
def beBytes : Nat → Nat → Bytes
  | 0, _ => []
  | n + 1, v => (v / 256 ^ n % 256) :: beBytes n v

def packFields (fs : List (Nat × Nat)) : Bytes :=
  beBytes (fieldsWidth fs / 8) (fieldsValue fs 0)

@[inline] def b2n (b : Bool) : Nat := if b then 1 else 0

theorem b2n_le (b : Bool) : b2n b ≤ 1 := by cases b <;> decide

/-- big-endian number from bytes -/
def beNat : Bytes → Nat
  | bs => bs.foldl (fun acc b => acc * 256 + b) 0

/-! ### Text helpers (canonical output compared with the Go harness) -/

def hexDigit (n : Nat) : Char :=
  if n < 10 then Char.ofNat (48 + n) else Char.ofNat (87 + n)

def hexByte (b : Nat) : String :=
  String.ofList [hexDigit (b / 16 % 16), hexDigit (b % 16)]

def hex (bs : Bytes) : String :=
  String.ofList (bs.foldr (fun b acc => hexDigit (b / 16 % 16) :: hexDigit (b % 16) :: acc) [])

def showB (b : Bool) : String := if b then "1" else "0"

def showList {α} (f : α → String) (l : List α) : String :=
  "[" ++ ",".intercalate (l.map f) ++ "]"

def showOpt {α} (f : α → String) : Option α → String
  | none => "-"
  | some a => f a

def Res.show {α} (f : α → String) : Res α → String
  | .ok a => "ok:" ++ f a
  | .err e => "err:" ++ e.show
  | .panic => "panic"

/-- errors seen through the public API: only the classes callers can tell apart -/
def Err.pub : Err → String
  | .eof => "eof" | .io => "io" | .pidNotFound => "pidNotFound" | .pidExists => "pidExists"
  | .pcrInvalid => "pcrInvalid" | .parser => "parser" | _ => "other"

def Res.showPub {α} (f : α → String) : Res α → String
  | .ok a => "ok:" ++ f a
  | .err e => "err:" ++ e.pub
  | .panic => "panic"

/-! ### JSON output (we only ever emit hex, digits and identifiers, so no escaping is needed) -/

def jstr (s : String) : String := "\"" ++ s ++ "\""
def jobj (kvs : List (String × String)) : String :=
  "{" ++ ",".intercalate (kvs.map fun (k, v) => jstr k ++ ":" ++ v) ++ "}"
def jarr (xs : List String) : String := "[" ++ ",".intercalate xs ++ "]"
def jnat (n : Nat) : String := toString n
def jint (n : Int) : String := toString n
def jbool (b : Bool) : String := if b then "true" else "false"
def jhex (bs : Bytes) : String := jstr (hex bs)
def jopt {α} (f : α → String) : Option α → String
  | none => "null"
  | some a => f a

/-! ### PRNG: splitmix64, one state threaded through every generator -/

abbrev Gen := StateM UInt64

def nextU64 : Gen UInt64 := do
  let s ← get
  let s := s + 0x9E3779B97F4A7C15
  set s
  let z := s
  let z := (z ^^^ (z >>> 30)) * 0xBF58476D1CE4E5B9
  let z := (z ^^^ (z >>> 27)) * 0x94D049BB133111EB
  return z ^^^ (z >>> 31)

/-- uniform-ish in `[0, n)`; `n = 0` gives 0 -/
def randBelow (n : Nat) : Gen Nat := do
  let z ← nextU64
  return if n = 0 then 0 else z.toNat % n

def randRange (lo hi : Nat) : Gen Nat := do
  let r ← randBelow (hi + 1 - lo)
  return lo + r

def randBool : Gen Bool := do return (← randBelow 2) = 1

/-- true with probability num/den -/
def chance (num den : Nat) : Gen Bool := do return (← randBelow den) < num

def randBytes (n : Nat) : Gen Bytes := do
  let mut out : Array Nat := Array.mkEmpty n
  let mut i := 0
  while i < n do
    let z ← nextU64
    let mut z' := z.toNat
    for _ in [0:8] do
      if i < n then
        out := out.push (z' % 256)
        z' := z' / 256
        i := i + 1
  return out.toList

def pick {α} [Inhabited α] (xs : List α) : Gen α := do
  let i ← randBelow xs.length
  return xs.getD i default

def genList {α} (n : Nat) (g : Gen α) : Gen (List α) := do
  let mut out : Array α := #[]
  for _ in [0:n] do
    out := out.push (← g)
  return out.toList

/-- value biased to boundaries of an `n`-bit field: 0, max, single bits, random -/
def randField (bits : Nat) : Gen Nat := do
  let k ← randBelow 8
  match k with
  | 0 => return 0
  | 1 => return 2 ^ bits - 1
  | 2 => do let b ← randBelow bits; return 2 ^ b
  | 3 => do let b ← randBelow bits; return 2 ^ bits - 1 - 2 ^ b
  | _ => do let z ← nextU64; return z.toNat % 2 ^ bits

end Astits
