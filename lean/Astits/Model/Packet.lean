/-
M2 — model of packet.go: TS packet header, adaptation field (+ extension), PCR, payload offset,
parsePacket (incl. oversize packets and the PacketSkipper hook point), writePacket.

Conventions (used by every model file):
* structures mirror the Go structs field for field, in Go declaration order; `toJson` emits the Go
  field names in that order (bytes as hex, nil pointers as null) — the Go harness renders the real
  structs with a reflection walker in the same format, so equal strings = equal values;
* Go `uintN` arithmetic is modelled in `Nat` with an explicit `% 2^n` wherever Go truncates;
* parsers are `P` (iterator state, three outcomes ok / err / panic);
* writers return the emitted bytes; the sequence of `io.Writer.Write` calls is modelled separately
  (`chunks`) where a property needs it (C18).
-/
import Astits.Basic
namespace Astits

structure ClockReference where
  base : Int
  extension : Int
  deriving Repr, DecidableEq, Inhabited

def ClockReference.toJson (c : ClockReference) : String :=
  jobj [("Base", jint c.base), ("Extension", jint c.extension)]

structure PacketHeader where
  continuityCounter : Nat
  hasAdaptationField : Bool
  hasPayload : Bool
  payloadUnitStartIndicator : Bool
  pid : Nat
  transportErrorIndicator : Bool
  transportPriority : Bool
  transportScramblingControl : Nat
  deriving Repr, DecidableEq, Inhabited

def PacketHeader.toJson (h : PacketHeader) : String :=
  jobj [("ContinuityCounter", jnat h.continuityCounter), ("HasAdaptationField", jbool h.hasAdaptationField),
    ("HasPayload", jbool h.hasPayload), ("PayloadUnitStartIndicator", jbool h.payloadUnitStartIndicator),
    ("PID", jnat h.pid), ("TransportErrorIndicator", jbool h.transportErrorIndicator),
    ("TransportPriority", jbool h.transportPriority), ("TransportScramblingControl", jnat h.transportScramblingControl)]

structure PacketAdaptationExtensionField where
  dtsNextAccessUnit : Option ClockReference := none
  hasLegalTimeWindow : Bool := false
  hasPiecewiseRate : Bool := false
  hasSeamlessSplice : Bool := false
  legalTimeWindowIsValid : Bool := false
  legalTimeWindowOffset : Nat := 0
  length : Int := 0
  piecewiseRate : Nat := 0
  spliceType : Nat := 0
  deriving Repr, DecidableEq, Inhabited

def PacketAdaptationExtensionField.toJson (e : PacketAdaptationExtensionField) : String :=
  jobj [("DTSNextAccessUnit", jopt ClockReference.toJson e.dtsNextAccessUnit),
    ("HasLegalTimeWindow", jbool e.hasLegalTimeWindow), ("HasPiecewiseRate", jbool e.hasPiecewiseRate),
    ("HasSeamlessSplice", jbool e.hasSeamlessSplice), ("LegalTimeWindowIsValid", jbool e.legalTimeWindowIsValid),
    ("LegalTimeWindowOffset", jnat e.legalTimeWindowOffset), ("Length", jint e.length),
    ("PiecewiseRate", jnat e.piecewiseRate), ("SpliceType", jnat e.spliceType)]

structure PacketAdaptationField where
  adaptationExtensionField : Option PacketAdaptationExtensionField := none
  opcr : Option ClockReference := none
  pcr : Option ClockReference := none
  transportPrivateData : Bytes := []
  transportPrivateDataLength : Int := 0
  length : Int := 0
  stuffingLength : Int := 0
  spliceCountdown : Int := 0
  isOneByteStuffing : Bool := false
  randomAccessIndicator : Bool := false
  discontinuityIndicator : Bool := false
  elementaryStreamPriorityIndicator : Bool := false
  hasAdaptationExtensionField : Bool := false
  hasOPCR : Bool := false
  hasPCR : Bool := false
  hasTransportPrivateData : Bool := false
  hasSplicingCountdown : Bool := false
  deriving Repr, DecidableEq, Inhabited

def PacketAdaptationField.toJson (a : PacketAdaptationField) : String :=
  jobj [("AdaptationExtensionField", jopt PacketAdaptationExtensionField.toJson a.adaptationExtensionField),
    ("OPCR", jopt ClockReference.toJson a.opcr), ("PCR", jopt ClockReference.toJson a.pcr),
    ("TransportPrivateData", jhex a.transportPrivateData),
    ("TransportPrivateDataLength", jint a.transportPrivateDataLength), ("Length", jint a.length),
    ("StuffingLength", jint a.stuffingLength), ("SpliceCountdown", jint a.spliceCountdown),
    ("IsOneByteStuffing", jbool a.isOneByteStuffing), ("RandomAccessIndicator", jbool a.randomAccessIndicator),
    ("DiscontinuityIndicator", jbool a.discontinuityIndicator),
    ("ElementaryStreamPriorityIndicator", jbool a.elementaryStreamPriorityIndicator),
    ("HasAdaptationExtensionField", jbool a.hasAdaptationExtensionField), ("HasOPCR", jbool a.hasOPCR),
    ("HasPCR", jbool a.hasPCR), ("HasTransportPrivateData", jbool a.hasTransportPrivateData),
    ("HasSplicingCountdown", jbool a.hasSplicingCountdown)]

structure Packet where
  adaptationField : Option PacketAdaptationField := none
  header : PacketHeader
  payload : Bytes := []
  deriving Repr, DecidableEq, Inhabited

def Packet.toJson (p : Packet) : String :=
  jobj [("AdaptationField", jopt PacketAdaptationField.toJson p.adaptationField),
    ("Header", p.header.toJson), ("Payload", jhex p.payload)]

/-! ### constants (tied to /repo by `Generated.Consts`, see Proofs/Tie.lean) -/

def syncByte : Nat := 0x47
def mpegTsPacketSize : Nat := 188
def mpegTsPacketHeaderSize : Nat := 3
def pcrBytesSize : Nat := 6
def ptsOrDTSByteLength : Nat := 5

/-! ### parsing -/

/-- `parsePacketHeader`: three bytes after the sync byte -/
def headerOfBytes (b0 b1 b2 : Nat) : PacketHeader :=
  { continuityCounter := b2 % 16
    hasAdaptationField := b2 / 32 % 2 = 1
    hasPayload := b2 / 16 % 2 = 1
    payloadUnitStartIndicator := b0 / 64 % 2 = 1
    pid := (b0 % 32) * 256 + b1
    transportErrorIndicator := b0 / 128 % 2 = 1
    transportPriority := b0 / 32 % 2 = 1
    transportScramblingControl := b2 / 64 % 4 }

def parsePacketHeader : P PacketHeader := do
  let bs ← It.nextBytes 3
  return headerOfBytes (bs.getD 0 0) (bs.getD 1 0) (bs.getD 2 0)

/-- `parsePCR`: 33-bit base, 6 reserved bits, 9-bit extension in six bytes -/
def pcrOfBytes (bs : Bytes) : ClockReference :=
  let v := beNat bs
  { base := (v / 32768 : Nat), extension := (v % 512 : Nat) }

def parsePCR : P ClockReference := do
  let bs ← It.nextBytes 6
  return pcrOfBytes bs

/-- 33-bit timestamp of `parsePTSOrDTS` from five bytes (3/15/15 bits with marker bits) -/
def ptsOfBytes (bs : Bytes) : ClockReference :=
  let b0 := bs.getD 0 0; let b1 := bs.getD 1 0; let b2 := bs.getD 2 0; let b3 := bs.getD 3 0; let b4 := bs.getD 4 0
  { base := ((b0 / 2 % 8) * 1073741824 + b1 * 4194304 + (b2 / 2 % 128) * 32768 + b3 * 128 + (b4 / 2 % 128) : Nat)
    extension := 0 }

def parsePTSOrDTS : P ClockReference := do
  let bs ← It.nextBytes 5
  return ptsOfBytes bs

def parseAFExtension : P PacketAdaptationExtensionField := do
  let b ← It.nextByte
  let len := b
  if len > 0 then
    let b ← It.nextByte
    let hasLTW := b / 128 % 2 = 1
    let hasPR := b / 64 % 2 = 1
    let hasSS := b / 32 % 2 = 1
    let (ltwValid, ltwOff) ← (if hasLTW then do
        let bs ← It.nextBytes 2
        pure (decide (bs.getD 0 0 / 128 % 2 = 1), (bs.getD 0 0 % 128) * 256 + bs.getD 1 0)
      else pure (false, 0) : P (Bool × Nat))
    let pr ← (if hasPR then do
        let bs ← It.nextBytes 3
        pure ((bs.getD 0 0 % 64) * 65536 + bs.getD 1 0 * 256 + bs.getD 2 0)
      else pure 0 : P Nat)
    let (st, dts) ← (if hasSS then do
        let b ← It.nextByte
        -- the byte is shared with the DTS: rewind
        It.skip (-1)
        let d ← parsePTSOrDTS
        pure (b / 16 % 16, some d)
      else pure (0, none) : P (Nat × Option ClockReference))
    return { dtsNextAccessUnit := dts, hasLegalTimeWindow := hasLTW, hasPiecewiseRate := hasPR,
             hasSeamlessSplice := hasSS, legalTimeWindowIsValid := ltwValid, legalTimeWindowOffset := ltwOff,
             length := len, piecewiseRate := pr, spliceType := st }
  else
    return { length := len }

/-- `parsePacketAdaptationField` -/
def parsePacketAdaptationField : P PacketAdaptationField := do
  let b ← It.nextByte
  let len : Int := b
  let afStart ← It.offset
  if b > 0 then
    let f ← It.nextByte
    let hasPCR := f / 16 % 2 = 1
    let hasOPCR := f / 8 % 2 = 1
    let hasSplice := f / 4 % 2 = 1
    let hasPriv := f / 2 % 2 = 1
    let hasExt := f % 2 = 1
    let pcr ← (if hasPCR then do let c ← parsePCR; pure (some c) else pure none : P (Option ClockReference))
    let opcr ← (if hasOPCR then do let c ← parsePCR; pure (some c) else pure none : P (Option ClockReference))
    let sc ← (if hasSplice then do let b ← It.nextByte; pure (b : Int) else pure 0 : P Int)
    let (pl, pd) ← (if hasPriv then do
        let l ← It.nextByte
        if l > 0 then do
          let d ← It.nextBytes l
          pure ((l : Int), d)
        else pure ((l : Int), [])
      else pure (0, []) : P (Int × Bytes))
    let ext ← (if hasExt then do let e ← parseAFExtension; pure (some e)
      else pure none : P (Option PacketAdaptationExtensionField))
    let off ← It.offset
    return { adaptationExtensionField := ext, opcr := opcr, pcr := pcr, transportPrivateData := pd,
             transportPrivateDataLength := pl, length := len, stuffingLength := len - (off - afStart),
             spliceCountdown := sc, isOneByteStuffing := false,
             randomAccessIndicator := f / 64 % 2 = 1, discontinuityIndicator := f / 128 % 2 = 1,
             elementaryStreamPriorityIndicator := f / 32 % 2 = 1, hasAdaptationExtensionField := hasExt,
             hasOPCR := hasOPCR, hasPCR := hasPCR, hasTransportPrivateData := hasPriv,
             hasSplicingCountdown := hasSplice }
  else
    let off ← It.offset
    -- adaptation_field_length = 0: the one-byte adaptation field
    return { length := len, stuffingLength := len - (off - afStart), isOneByteStuffing := true }

/-- `payloadOffset` -/
def payloadOffset (offsetStart : Int) (h : PacketHeader) (a : Option PacketAdaptationField) : Int :=
  let o := offsetStart + 3
  if h.hasAdaptationField then o + 1 + (match a with | some a => a.length | none => 0) else o

/-- `parsePacket`; `skip` is the PacketSkipper (none = nil) -/
def parsePacket (skip : Option (Packet → Bool)) : P Packet := do
  let b ← It.nextByte
  if b ≠ syncByte then P.fail .sync
  else
    -- oversize packets: the extra bytes directly follow the sync byte
    let l ← It.len
    It.seek (l - mpegTsPacketSize + 1)
    let offsetStart ← It.offset
    let h ← parsePacketHeader
    let af ← (if h.hasAdaptationField then do let a ← parsePacketAdaptationField; pure (some a)
      else pure none : P (Option PacketAdaptationField))
    let p : Packet := { adaptationField := af, header := h, payload := [] }
    if (match skip with | some s => s p | none => false) then P.fail .skipped
    else if h.hasPayload then
      It.seek (payloadOffset offsetStart h af)
      let pl ← It.dump
      return { p with payload := pl }
    else return p

/-! ### writing -/

def hdrBytes (h : PacketHeader) : Bytes :=
  packFields [(b2n h.transportErrorIndicator, 1), (b2n h.payloadUnitStartIndicator, 1), (b2n h.transportPriority, 1),
    (h.pid, 13), (h.transportScramblingControl, 2), (b2n h.hasAdaptationField, 1), (b2n h.hasPayload, 1),
    (h.continuityCounter, 4)]

/-- Go `uint64(x)` of an `int64` followed by `WriteN(…, n)`: the low `n` bits of the two's complement -/
def lowBits (x : Int) (n : Nat) : Nat := (x % (2 ^ n : Nat)).toNat

def pcrBytes (c : ClockReference) : Bytes :=
  packFields [(lowBits c.base 33, 33), (0x3f, 6), (lowBits c.extension 9, 9)]

/-- `writePTSOrDTS(w, flag, cr)` -/
def ptsBytes (flag : Nat) (c : ClockReference) : Bytes :=
  packFields [(flag, 4), (lowBits (c.base / 1073741824) 3, 3), (1, 1), (lowBits (c.base / 32768) 15, 15), (1, 1),
    (lowBits c.base 15, 15), (1, 1)]

def afExtSize (e : PacketAdaptationExtensionField) : Nat :=
  1 + (if e.hasLegalTimeWindow then 2 else 0) + (if e.hasPiecewiseRate then 3 else 0)
    + (if e.hasSeamlessSplice then ptsOrDTSByteLength else 0)

/-- `calcPacketAdaptationFieldExtensionLength` (uint8) -/
def calcAFExtLength (e : PacketAdaptationExtensionField) : Nat := afExtSize e % 256

def afExtBytes (e : PacketAdaptationExtensionField) : Bytes :=
  [calcAFExtLength e]
  ++ packFields [(b2n e.hasLegalTimeWindow, 1), (b2n e.hasPiecewiseRate, 1), (b2n e.hasSeamlessSplice, 1), (0x1f, 5)]
  ++ (if e.hasLegalTimeWindow then packFields [(b2n e.legalTimeWindowIsValid, 1), (e.legalTimeWindowOffset, 15)] else [])
  ++ (if e.hasPiecewiseRate then packFields [(3, 2), (e.piecewiseRate, 22)] else [])
  ++ (if e.hasSeamlessSplice then ptsBytes e.spliceType (e.dtsNextAccessUnit.getD default) else [])

def defaultExt : PacketAdaptationExtensionField := {}

/-- size in bytes of the adaptation field after its length byte, as `int` (the fixed `writePacket`
checks sizes before writing; see fix F4) -/
def afSize (a : PacketAdaptationField) : Int :=
  1 + (if a.hasPCR then 6 else 0) + (if a.hasOPCR then 6 else 0) + (if a.hasSplicingCountdown then 1 else 0)
    + (if a.hasTransportPrivateData then 1 + (a.transportPrivateData.length : Int) else 0)
    + (if a.hasAdaptationExtensionField then 1 + (afExtSize (a.adaptationExtensionField.getD defaultExt) : Int) else 0)
    + (if a.stuffingLength > 0 then a.stuffingLength else 0)

/-- `calcPacketAdaptationFieldLength` (uint8) -/
def calcAFLength (a : PacketAdaptationField) : Nat := (afSize a % 256).toNat

/-- bytes of `writePacketAdaptationField` -/
def afBytes (a : PacketAdaptationField) : Bytes :=
  if a.isOneByteStuffing then [0]
  else
    [calcAFLength a]
    ++ packFields [(b2n a.discontinuityIndicator, 1), (b2n a.randomAccessIndicator, 1),
        (b2n a.elementaryStreamPriorityIndicator, 1), (b2n a.hasPCR, 1), (b2n a.hasOPCR, 1),
        (b2n a.hasSplicingCountdown, 1), (b2n a.hasTransportPrivateData, 1), (b2n a.hasAdaptationExtensionField, 1)]
    ++ (if a.hasPCR then pcrBytes (a.pcr.getD default) else [])
    ++ (if a.hasOPCR then pcrBytes (a.opcr.getD default) else [])
    ++ (if a.hasSplicingCountdown then [lowBits a.spliceCountdown 8] else [])
    ++ (if a.hasTransportPrivateData then
          [lowBits a.transportPrivateData.length 8] ++ a.transportPrivateData
        else [])
    ++ (if a.hasAdaptationExtensionField then afExtBytes (a.adaptationExtensionField.getD defaultExt) else [])
    ++ List.replicate a.stuffingLength.toNat 0xff

/-- total bytes of header + adaptation field as computed before anything is written -/
def packetHeadSize (p : Packet) : Int :=
  4 + (if p.header.hasAdaptationField then
        (match p.adaptationField with
         | some a => if a.isOneByteStuffing then 1 else 1 + afSize a
         | none => 0)
       else 0)

/-- `writePacket(w, p, target)`: the emitted bytes (nothing on a rejected packet).
A packet flagged `HasAdaptationField` with a nil adaptation field makes Go dereference nil: panic. -/
def afNilDeref (a : PacketAdaptationField) : Bool :=
  !a.isOneByteStuffing &&
  ((a.hasPCR && a.pcr.isNone) || (a.hasOPCR && a.opcr.isNone)
    || (a.hasAdaptationExtensionField && (match a.adaptationExtensionField with
          | none => true
          | some e => e.hasSeamlessSplice && e.dtsNextAccessUnit.isNone)))

def writePacket (p : Packet) (target : Nat := 188) : Res Bytes :=
  if p.header.hasAdaptationField ∧ p.adaptationField.isNone then .panic
  else if p.header.hasAdaptationField ∧ (p.adaptationField.map afNilDeref).getD false then .panic
  else if (target : Int) - packetHeadSize p < p.payload.length then .err .other
  else
    let head := [syncByte] ++ hdrBytes p.header
      ++ (if p.header.hasAdaptationField then afBytes (p.adaptationField.getD default) else [])
    let body := if p.header.hasPayload then p.payload else []
    let n := head.length + body.length
    .ok (head ++ body ++ List.replicate (target - n) 0xff)

/-- `newStuffingAdaptationField` -/
def newStuffingAF (bytesToStuff : Int) : PacketAdaptationField :=
  if bytesToStuff = 1 then { isOneByteStuffing := true }
  else { stuffingLength := bytesToStuff - 2 }

end Astits
