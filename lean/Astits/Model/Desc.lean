/- TEMPORARY STUB (replaced by the full descriptor model) -/
import Astits.Basic
import Astits.Model.DVB
namespace Astits
structure Descriptor where
  length : Nat := 0
  tag : Nat := 0
  deriving Repr, Inhabited
def Descriptor.toJson (d : Descriptor) : String := jobj [("Length", jnat d.length), ("Tag", jnat d.tag)]
def parseDescriptors : P (List Descriptor) := do
  let bs ← It.nextBytes 2
  let l := (bs.getD 0 0 % 16) * 256 + bs.getD 1 0
  It.skip l
  return []
def calcDescriptorsLength (ds : List Descriptor) : Nat := 0
def writeDescriptorsWithLength (ds : List Descriptor) : Bytes := [0xf0, 0]
end Astits
