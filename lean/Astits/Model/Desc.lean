/-
M7 — model of descriptor.go: the 23 typed DVB/MPEG descriptors, the unknown and the user-defined
descriptor; `parseDescriptors` and every `newDescriptorXxx`, the length calculators
`calcDescriptorXxxLength`, the writers `writeDescriptorXxx`, `writeDescriptor`,
`calcDescriptorsLength`, `writeDescriptors`, `writeDescriptorsWithLength`.

Conventions as in Model/Packet.lean (structures mirror the Go structs field for field in Go
declaration order, `toJson` prints the Go field names in that order, `uintN` arithmetic is `Nat` with
an explicit `% 2^n` where Go truncates, parsers are `P`, writers return the emitted bytes).

Loops (`for i.Offset() < offsetEnd { … }`) are structural recursions on a fuel argument. Every
iteration that does not fail reads at least one byte with `NextByte`/`NextBytes`, which succeed only
while `offset + n ≤ len`; so at most `len` iterations succeed and `len + 1` fuel is always enough
(`loopFuel`). Running out of fuel yields `.err .other` and is unreachable.

TWO deliberate deviations from the Go source as it stands (the model describes the repaired code):
 (a) `writeDescriptor` skips the body when the *computed* length is 0 (Go tests the redundant struct
     field `d.Length`);
 (b) `calcDescriptorVBIDataLength` counts, per service, 2 bytes plus `len(Descriptors)` for the six
     known data service ids and plus 1 for any other id (Go returns `3 * len(Services)`).
-/
import Astits.Basic
import Astits.Model.DVB
namespace Astits

/-! ### structures -/

structure DescriptorAC3 where
  additionalInfo : Bytes := []
  asvc : Nat := 0
  bsid : Nat := 0
  componentType : Nat := 0
  hasASVC : Bool := false
  hasBSID : Bool := false
  hasComponentType : Bool := false
  hasMainID : Bool := false
  mainID : Nat := 0
  deriving Repr, DecidableEq, Inhabited

structure DescriptorAVCVideo where
  avc24HourPictureFlag : Bool := false
  avcStillPresent : Bool := false
  compatibleFlags : Nat := 0
  constraintSet0Flag : Bool := false
  constraintSet1Flag : Bool := false
  constraintSet2Flag : Bool := false
  levelIDC : Nat := 0
  profileIDC : Nat := 0
  deriving Repr, DecidableEq, Inhabited

structure DescriptorComponent where
  componentTag : Nat := 0
  componentType : Nat := 0
  iso639LanguageCode : Bytes := []
  streamContent : Nat := 0
  streamContentExt : Nat := 0
  text : Bytes := []
  deriving Repr, DecidableEq, Inhabited

structure DescriptorContentItem where
  contentNibbleLevel1 : Nat := 0
  contentNibbleLevel2 : Nat := 0
  userByte : Nat := 0
  deriving Repr, DecidableEq, Inhabited

structure DescriptorContent where
  items : List DescriptorContentItem := []
  deriving Repr, DecidableEq, Inhabited

structure DescriptorDataStreamAlignment where
  type : Nat := 0
  deriving Repr, DecidableEq, Inhabited

structure DescriptorEnhancedAC3 where
  additionalInfo : Bytes := []
  asvc : Nat := 0
  bsid : Nat := 0
  componentType : Nat := 0
  hasASVC : Bool := false
  hasBSID : Bool := false
  hasComponentType : Bool := false
  hasMainID : Bool := false
  hasSubStream1 : Bool := false
  hasSubStream2 : Bool := false
  hasSubStream3 : Bool := false
  mainID : Nat := 0
  mixInfoExists : Bool := false
  subStream1 : Nat := 0
  subStream2 : Nat := 0
  subStream3 : Nat := 0
  deriving Repr, DecidableEq, Inhabited

structure DescriptorExtendedEventItem where
  content : Bytes := []
  description : Bytes := []
  deriving Repr, DecidableEq, Inhabited

structure DescriptorExtendedEvent where
  iso639LanguageCode : Bytes := []
  items : List DescriptorExtendedEventItem := []
  lastDescriptorNumber : Nat := 0
  number : Nat := 0
  text : Bytes := []
  deriving Repr, DecidableEq, Inhabited

structure DescriptorExtensionSupplementaryAudio where
  editorialClassification : Nat := 0
  hasLanguageCode : Bool := false
  languageCode : Bytes := []
  mixType : Bool := false
  privateData : Bytes := []
  deriving Repr, DecidableEq, Inhabited

/-- `Unknown` is `*[]byte` in Go: `none` = nil pointer, `some bs` = pointer to a slice -/
structure DescriptorExtension where
  supplementaryAudio : Option DescriptorExtensionSupplementaryAudio := none
  tag : Nat := 0
  unknown : Option Bytes := none
  deriving Repr, DecidableEq, Inhabited

structure DescriptorISO639LanguageAndAudioType where
  language : Bytes := []
  type : Nat := 0
  deriving Repr, DecidableEq, Inhabited

/-- `time.Duration` = nanoseconds, `time.Time` = Unix seconds (see Model/DVB.lean) -/
structure DescriptorLocalTimeOffsetItem where
  countryCode : Bytes := []
  countryRegionID : Nat := 0
  localTimeOffset : Int := 0
  localTimeOffsetPolarity : Bool := false
  nextTimeOffset : Int := 0
  timeOfChange : Int := 0
  deriving Repr, DecidableEq, Inhabited

structure DescriptorLocalTimeOffset where
  items : List DescriptorLocalTimeOffsetItem := []
  deriving Repr, DecidableEq, Inhabited

structure DescriptorMaximumBitrate where
  bitrate : Nat := 0
  deriving Repr, DecidableEq, Inhabited

structure DescriptorNetworkName where
  name : Bytes := []
  deriving Repr, DecidableEq, Inhabited

structure DescriptorParentalRatingItem where
  countryCode : Bytes := []
  rating : Nat := 0
  deriving Repr, DecidableEq, Inhabited

structure DescriptorParentalRating where
  items : List DescriptorParentalRatingItem := []
  deriving Repr, DecidableEq, Inhabited

structure DescriptorPrivateDataIndicator where
  indicator : Nat := 0
  deriving Repr, DecidableEq, Inhabited

structure DescriptorPrivateDataSpecifier where
  specifier : Nat := 0
  deriving Repr, DecidableEq, Inhabited

structure DescriptorRegistration where
  additionalIdentificationInfo : Bytes := []
  formatIdentifier : Nat := 0
  deriving Repr, DecidableEq, Inhabited

structure DescriptorService where
  name : Bytes := []
  provider : Bytes := []
  type : Nat := 0
  deriving Repr, DecidableEq, Inhabited

structure DescriptorShortEvent where
  eventName : Bytes := []
  language : Bytes := []
  text : Bytes := []
  deriving Repr, DecidableEq, Inhabited

structure DescriptorStreamIdentifier where
  componentTag : Nat := 0
  deriving Repr, DecidableEq, Inhabited

structure DescriptorSubtitlingItem where
  ancillaryPageID : Nat := 0
  compositionPageID : Nat := 0
  language : Bytes := []
  type : Nat := 0
  deriving Repr, DecidableEq, Inhabited

structure DescriptorSubtitling where
  items : List DescriptorSubtitlingItem := []
  deriving Repr, DecidableEq, Inhabited

structure DescriptorTeletextItem where
  language : Bytes := []
  magazine : Nat := 0
  page : Nat := 0
  type : Nat := 0
  deriving Repr, DecidableEq, Inhabited

structure DescriptorTeletext where
  items : List DescriptorTeletextItem := []
  deriving Repr, DecidableEq, Inhabited

structure DescriptorUnknown where
  content : Bytes := []
  tag : Nat := 0
  deriving Repr, DecidableEq, Inhabited

structure DescriptorVBIDataDescriptor where
  fieldParity : Bool := false
  lineOffset : Nat := 0
  deriving Repr, DecidableEq, Inhabited

structure DescriptorVBIDataService where
  dataServiceID : Nat := 0
  descriptors : List DescriptorVBIDataDescriptor := []
  deriving Repr, DecidableEq, Inhabited

structure DescriptorVBIData where
  services : List DescriptorVBIDataService := []
  deriving Repr, DecidableEq, Inhabited

structure Descriptor where
  ac3 : Option DescriptorAC3 := none
  avcVideo : Option DescriptorAVCVideo := none
  component : Option DescriptorComponent := none
  content : Option DescriptorContent := none
  dataStreamAlignment : Option DescriptorDataStreamAlignment := none
  enhancedAC3 : Option DescriptorEnhancedAC3 := none
  extendedEvent : Option DescriptorExtendedEvent := none
  extension : Option DescriptorExtension := none
  iso639LanguageAndAudioType : Option DescriptorISO639LanguageAndAudioType := none
  length : Nat := 0
  localTimeOffset : Option DescriptorLocalTimeOffset := none
  maximumBitrate : Option DescriptorMaximumBitrate := none
  networkName : Option DescriptorNetworkName := none
  parentalRating : Option DescriptorParentalRating := none
  privateDataIndicator : Option DescriptorPrivateDataIndicator := none
  privateDataSpecifier : Option DescriptorPrivateDataSpecifier := none
  registration : Option DescriptorRegistration := none
  service : Option DescriptorService := none
  shortEvent : Option DescriptorShortEvent := none
  streamIdentifier : Option DescriptorStreamIdentifier := none
  subtitling : Option DescriptorSubtitling := none
  tag : Nat := 0
  teletext : Option DescriptorTeletext := none
  unknown : Option DescriptorUnknown := none
  userDefined : Bytes := []
  vbiData : Option DescriptorVBIData := none
  vbiTeletext : Option DescriptorTeletext := none
  deriving Repr, DecidableEq, Inhabited

/-! ### canonical JSON -/

/-- a Go pointer: `null` or the value (same as `jopt` of Model/Packet.lean, which is not imported here) -/
def jptr {α} (f : α → String) : Option α → String
  | none => "null"
  | some a => f a

/-- a Go slice of pointers to structs -/
def jlist {α} (f : α → String) (xs : List α) : String := jarr (xs.map f)

def DescriptorAC3.toJson (d : DescriptorAC3) : String :=
  jobj [("AdditionalInfo", jhex d.additionalInfo), ("ASVC", jnat d.asvc), ("BSID", jnat d.bsid),
    ("ComponentType", jnat d.componentType), ("HasASVC", jbool d.hasASVC), ("HasBSID", jbool d.hasBSID),
    ("HasComponentType", jbool d.hasComponentType), ("HasMainID", jbool d.hasMainID), ("MainID", jnat d.mainID)]

def DescriptorAVCVideo.toJson (d : DescriptorAVCVideo) : String :=
  jobj [("AVC24HourPictureFlag", jbool d.avc24HourPictureFlag), ("AVCStillPresent", jbool d.avcStillPresent),
    ("CompatibleFlags", jnat d.compatibleFlags), ("ConstraintSet0Flag", jbool d.constraintSet0Flag),
    ("ConstraintSet1Flag", jbool d.constraintSet1Flag), ("ConstraintSet2Flag", jbool d.constraintSet2Flag),
    ("LevelIDC", jnat d.levelIDC), ("ProfileIDC", jnat d.profileIDC)]

def DescriptorComponent.toJson (d : DescriptorComponent) : String :=
  jobj [("ComponentTag", jnat d.componentTag), ("ComponentType", jnat d.componentType),
    ("ISO639LanguageCode", jhex d.iso639LanguageCode), ("StreamContent", jnat d.streamContent),
    ("StreamContentExt", jnat d.streamContentExt), ("Text", jhex d.text)]

def DescriptorContentItem.toJson (d : DescriptorContentItem) : String :=
  jobj [("ContentNibbleLevel1", jnat d.contentNibbleLevel1), ("ContentNibbleLevel2", jnat d.contentNibbleLevel2),
    ("UserByte", jnat d.userByte)]

def DescriptorContent.toJson (d : DescriptorContent) : String :=
  jobj [("Items", jlist DescriptorContentItem.toJson d.items)]

def DescriptorDataStreamAlignment.toJson (d : DescriptorDataStreamAlignment) : String :=
  jobj [("Type", jnat d.type)]

def DescriptorEnhancedAC3.toJson (d : DescriptorEnhancedAC3) : String :=
  jobj [("AdditionalInfo", jhex d.additionalInfo), ("ASVC", jnat d.asvc), ("BSID", jnat d.bsid),
    ("ComponentType", jnat d.componentType), ("HasASVC", jbool d.hasASVC), ("HasBSID", jbool d.hasBSID),
    ("HasComponentType", jbool d.hasComponentType), ("HasMainID", jbool d.hasMainID),
    ("HasSubStream1", jbool d.hasSubStream1), ("HasSubStream2", jbool d.hasSubStream2),
    ("HasSubStream3", jbool d.hasSubStream3), ("MainID", jnat d.mainID), ("MixInfoExists", jbool d.mixInfoExists),
    ("SubStream1", jnat d.subStream1), ("SubStream2", jnat d.subStream2), ("SubStream3", jnat d.subStream3)]

def DescriptorExtendedEventItem.toJson (d : DescriptorExtendedEventItem) : String :=
  jobj [("Content", jhex d.content), ("Description", jhex d.description)]

def DescriptorExtendedEvent.toJson (d : DescriptorExtendedEvent) : String :=
  jobj [("ISO639LanguageCode", jhex d.iso639LanguageCode), ("Items", jlist DescriptorExtendedEventItem.toJson d.items),
    ("LastDescriptorNumber", jnat d.lastDescriptorNumber), ("Number", jnat d.number), ("Text", jhex d.text)]

def DescriptorExtensionSupplementaryAudio.toJson (d : DescriptorExtensionSupplementaryAudio) : String :=
  jobj [("EditorialClassification", jnat d.editorialClassification), ("HasLanguageCode", jbool d.hasLanguageCode),
    ("LanguageCode", jhex d.languageCode), ("MixType", jbool d.mixType), ("PrivateData", jhex d.privateData)]

def DescriptorExtension.toJson (d : DescriptorExtension) : String :=
  jobj [("SupplementaryAudio", jptr DescriptorExtensionSupplementaryAudio.toJson d.supplementaryAudio),
    ("Tag", jnat d.tag), ("Unknown", jptr jhex d.unknown)]

def DescriptorISO639LanguageAndAudioType.toJson (d : DescriptorISO639LanguageAndAudioType) : String :=
  jobj [("Language", jhex d.language), ("Type", jnat d.type)]

def DescriptorLocalTimeOffsetItem.toJson (d : DescriptorLocalTimeOffsetItem) : String :=
  jobj [("CountryCode", jhex d.countryCode), ("CountryRegionID", jnat d.countryRegionID),
    ("LocalTimeOffset", jint d.localTimeOffset), ("LocalTimeOffsetPolarity", jbool d.localTimeOffsetPolarity),
    ("NextTimeOffset", jint d.nextTimeOffset), ("TimeOfChange", jint d.timeOfChange)]

def DescriptorLocalTimeOffset.toJson (d : DescriptorLocalTimeOffset) : String :=
  jobj [("Items", jlist DescriptorLocalTimeOffsetItem.toJson d.items)]

def DescriptorMaximumBitrate.toJson (d : DescriptorMaximumBitrate) : String :=
  jobj [("Bitrate", jnat d.bitrate)]

def DescriptorNetworkName.toJson (d : DescriptorNetworkName) : String :=
  jobj [("Name", jhex d.name)]

def DescriptorParentalRatingItem.toJson (d : DescriptorParentalRatingItem) : String :=
  jobj [("CountryCode", jhex d.countryCode), ("Rating", jnat d.rating)]

def DescriptorParentalRating.toJson (d : DescriptorParentalRating) : String :=
  jobj [("Items", jlist DescriptorParentalRatingItem.toJson d.items)]

def DescriptorPrivateDataIndicator.toJson (d : DescriptorPrivateDataIndicator) : String :=
  jobj [("Indicator", jnat d.indicator)]

def DescriptorPrivateDataSpecifier.toJson (d : DescriptorPrivateDataSpecifier) : String :=
  jobj [("Specifier", jnat d.specifier)]

def DescriptorRegistration.toJson (d : DescriptorRegistration) : String :=
  jobj [("AdditionalIdentificationInfo", jhex d.additionalIdentificationInfo),
    ("FormatIdentifier", jnat d.formatIdentifier)]

def DescriptorService.toJson (d : DescriptorService) : String :=
  jobj [("Name", jhex d.name), ("Provider", jhex d.provider), ("Type", jnat d.type)]

def DescriptorShortEvent.toJson (d : DescriptorShortEvent) : String :=
  jobj [("EventName", jhex d.eventName), ("Language", jhex d.language), ("Text", jhex d.text)]

def DescriptorStreamIdentifier.toJson (d : DescriptorStreamIdentifier) : String :=
  jobj [("ComponentTag", jnat d.componentTag)]

def DescriptorSubtitlingItem.toJson (d : DescriptorSubtitlingItem) : String :=
  jobj [("AncillaryPageID", jnat d.ancillaryPageID), ("CompositionPageID", jnat d.compositionPageID),
    ("Language", jhex d.language), ("Type", jnat d.type)]

def DescriptorSubtitling.toJson (d : DescriptorSubtitling) : String :=
  jobj [("Items", jlist DescriptorSubtitlingItem.toJson d.items)]

def DescriptorTeletextItem.toJson (d : DescriptorTeletextItem) : String :=
  jobj [("Language", jhex d.language), ("Magazine", jnat d.magazine), ("Page", jnat d.page), ("Type", jnat d.type)]

def DescriptorTeletext.toJson (d : DescriptorTeletext) : String :=
  jobj [("Items", jlist DescriptorTeletextItem.toJson d.items)]

def DescriptorUnknown.toJson (d : DescriptorUnknown) : String :=
  jobj [("Content", jhex d.content), ("Tag", jnat d.tag)]

def DescriptorVBIDataDescriptor.toJson (d : DescriptorVBIDataDescriptor) : String :=
  jobj [("FieldParity", jbool d.fieldParity), ("LineOffset", jnat d.lineOffset)]

def DescriptorVBIDataService.toJson (d : DescriptorVBIDataService) : String :=
  jobj [("DataServiceID", jnat d.dataServiceID), ("Descriptors", jlist DescriptorVBIDataDescriptor.toJson d.descriptors)]

def DescriptorVBIData.toJson (d : DescriptorVBIData) : String :=
  jobj [("Services", jlist DescriptorVBIDataService.toJson d.services)]

def Descriptor.toJson (d : Descriptor) : String :=
  jobj [("AC3", jptr DescriptorAC3.toJson d.ac3), ("AVCVideo", jptr DescriptorAVCVideo.toJson d.avcVideo),
    ("Component", jptr DescriptorComponent.toJson d.component), ("Content", jptr DescriptorContent.toJson d.content),
    ("DataStreamAlignment", jptr DescriptorDataStreamAlignment.toJson d.dataStreamAlignment),
    ("EnhancedAC3", jptr DescriptorEnhancedAC3.toJson d.enhancedAC3),
    ("ExtendedEvent", jptr DescriptorExtendedEvent.toJson d.extendedEvent),
    ("Extension", jptr DescriptorExtension.toJson d.extension),
    ("ISO639LanguageAndAudioType", jptr DescriptorISO639LanguageAndAudioType.toJson d.iso639LanguageAndAudioType),
    ("Length", jnat d.length),
    ("LocalTimeOffset", jptr DescriptorLocalTimeOffset.toJson d.localTimeOffset),
    ("MaximumBitrate", jptr DescriptorMaximumBitrate.toJson d.maximumBitrate),
    ("NetworkName", jptr DescriptorNetworkName.toJson d.networkName),
    ("ParentalRating", jptr DescriptorParentalRating.toJson d.parentalRating),
    ("PrivateDataIndicator", jptr DescriptorPrivateDataIndicator.toJson d.privateDataIndicator),
    ("PrivateDataSpecifier", jptr DescriptorPrivateDataSpecifier.toJson d.privateDataSpecifier),
    ("Registration", jptr DescriptorRegistration.toJson d.registration),
    ("Service", jptr DescriptorService.toJson d.service),
    ("ShortEvent", jptr DescriptorShortEvent.toJson d.shortEvent),
    ("StreamIdentifier", jptr DescriptorStreamIdentifier.toJson d.streamIdentifier),
    ("Subtitling", jptr DescriptorSubtitling.toJson d.subtitling),
    ("Tag", jnat d.tag),
    ("Teletext", jptr DescriptorTeletext.toJson d.teletext),
    ("Unknown", jptr DescriptorUnknown.toJson d.unknown),
    ("UserDefined", jhex d.userDefined),
    ("VBIData", jptr DescriptorVBIData.toJson d.vbiData),
    ("VBITeletext", jptr DescriptorTeletext.toJson d.vbiTeletext)]

def descriptorsToJson (ds : List Descriptor) : String := jlist Descriptor.toJson ds

/-! ### constants (tied to /repo by `Generated.Consts`) -/

def descriptorTagAC3 : Nat := 0x6a
def descriptorTagAVCVideo : Nat := 0x28
def descriptorTagComponent : Nat := 0x50
def descriptorTagContent : Nat := 0x54
def descriptorTagDataStreamAlignment : Nat := 0x6
def descriptorTagEnhancedAC3 : Nat := 0x7a
def descriptorTagExtendedEvent : Nat := 0x4e
def descriptorTagExtension : Nat := 0x7f
def descriptorTagISO639LanguageAndAudioType : Nat := 0xa
def descriptorTagLocalTimeOffset : Nat := 0x58
def descriptorTagMaximumBitrate : Nat := 0xe
def descriptorTagNetworkName : Nat := 0x40
def descriptorTagParentalRating : Nat := 0x55
def descriptorTagPrivateDataIndicator : Nat := 0xf
def descriptorTagPrivateDataSpecifier : Nat := 0x5f
def descriptorTagRegistration : Nat := 0x5
def descriptorTagService : Nat := 0x48
def descriptorTagShortEvent : Nat := 0x4d
def descriptorTagStreamIdentifier : Nat := 0x52
def descriptorTagSubtitling : Nat := 0x59
def descriptorTagTeletext : Nat := 0x56
def descriptorTagVBIData : Nat := 0x45
def descriptorTagVBITeletext : Nat := 0x46

def descriptorTagExtensionSupplementaryAudio : Nat := 0x6

/-- the 23 tags of the `switch` in `parseDescriptors` / `calcDescriptorLength` / `writeDescriptor` -/
def knownDescriptorTags : List Nat :=
  [descriptorTagAC3, descriptorTagAVCVideo, descriptorTagComponent, descriptorTagContent,
   descriptorTagDataStreamAlignment, descriptorTagEnhancedAC3, descriptorTagExtendedEvent, descriptorTagExtension,
   descriptorTagISO639LanguageAndAudioType, descriptorTagLocalTimeOffset, descriptorTagMaximumBitrate,
   descriptorTagNetworkName, descriptorTagParentalRating, descriptorTagPrivateDataIndicator,
   descriptorTagPrivateDataSpecifier, descriptorTagRegistration, descriptorTagService, descriptorTagShortEvent,
   descriptorTagStreamIdentifier, descriptorTagSubtitling, descriptorTagTeletext, descriptorTagVBIData,
   descriptorTagVBITeletext]

/-- `d.Tag >= 0x80 && d.Tag <= 0xfe` -/
def isUserDefinedTag (tag : Nat) : Bool := 0x80 ≤ tag && tag ≤ 0xfe

/-- the six `VBIDataServiceID…` constants (the `||` chain of `newDescriptorVBIData` / `writeDescriptorVBIData`) -/
def isKnownVBIDataServiceID (id : Nat) : Bool :=
  id = 0x6 || id = 0x1 || id = 0x2 || id = 0x7 || id = 0x4 || id = 0x5

/-! ### parsing -/

/-- a Go run-time panic inside a parser (index / slice bounds) -/
def P.panic {α} : P α := fun _ => .panic

/-- fuel for a `for i.Offset() < offsetEnd` loop: slice length + 1 (see the header comment) -/
def loopFuel : P Nat := fun i => .ok (i.bs.length + 1, i)

/-- `if i.Offset() < offsetEnd { x, err = i.NextBytes(offsetEnd - i.Offset()) }` (x stays nil otherwise) -/
def restIfAny (offsetEnd : Int) : P Bytes := do
  let off ← It.offset
  if off < offsetEnd then It.nextBytes (offsetEnd - off) else pure []

/-- `i.NextBytes(offsetEnd - i.Offset())` without a guard -/
def restTo (offsetEnd : Int) : P Bytes := do
  let off ← It.offset
  It.nextBytes (offsetEnd - off)

/-- `if flag { b, err = i.NextByte(); field = b }` (the field keeps its zero value otherwise) -/
def byteIf (flag : Bool) : P Nat :=
  if flag then It.nextByte else pure 0

def newDescriptorAC3 (offsetEnd : Int) : P DescriptorAC3 := do
  let b ← It.nextByte
  let hasASVC : Bool := b / 16 % 2 = 1
  let hasBSID : Bool := b / 64 % 2 = 1
  let hasComponentType : Bool := b / 128 % 2 = 1
  let hasMainID : Bool := b / 32 % 2 = 1
  let componentType ← byteIf hasComponentType
  let bsid ← byteIf hasBSID
  let mainID ← byteIf hasMainID
  let asvc ← byteIf hasASVC
  let additionalInfo ← restIfAny offsetEnd
  return { additionalInfo := additionalInfo, asvc := asvc, bsid := bsid, componentType := componentType,
           hasASVC := hasASVC, hasBSID := hasBSID, hasComponentType := hasComponentType, hasMainID := hasMainID,
           mainID := mainID }

def newDescriptorAVCVideo : P DescriptorAVCVideo := do
  let b0 ← It.nextByte
  let b1 ← It.nextByte
  let b2 ← It.nextByte
  let b3 ← It.nextByte
  return { avc24HourPictureFlag := b3 / 64 % 2 = 1, avcStillPresent := b3 / 128 % 2 = 1,
           compatibleFlags := b1 % 32, constraintSet0Flag := b1 / 128 % 2 = 1,
           constraintSet1Flag := b1 / 64 % 2 = 1, constraintSet2Flag := b1 / 32 % 2 = 1,
           levelIDC := b2, profileIDC := b0 }

def newDescriptorComponent (offsetEnd : Int) : P DescriptorComponent := do
  let b ← It.nextByte
  let componentType ← It.nextByte
  let componentTag ← It.nextByte
  let lang ← It.nextBytes 3
  let text ← restIfAny offsetEnd
  return { componentTag := componentTag, componentType := componentType, iso639LanguageCode := lang,
           streamContent := b % 16, streamContentExt := b / 16 % 16, text := text }

def newDescriptorContentLoop (offsetEnd : Int) : Nat → P (List DescriptorContentItem)
  | 0 => P.fail
  | fuel + 1 => do
    let off ← It.offset
    if off < offsetEnd then
      let bs ← It.nextBytes 2
      let item : DescriptorContentItem :=
        { contentNibbleLevel1 := bs.getD 0 0 / 16 % 16, contentNibbleLevel2 := bs.getD 0 0 % 16,
          userByte := bs.getD 1 0 }
      let rest ← newDescriptorContentLoop offsetEnd fuel
      return item :: rest
    else return []

def newDescriptorContent (offsetEnd : Int) : P DescriptorContent := do
  let fuel ← loopFuel
  let items ← newDescriptorContentLoop offsetEnd fuel
  return { items := items }

def newDescriptorDataStreamAlignment : P DescriptorDataStreamAlignment := do
  let b ← It.nextByte
  return { type := b }

def newDescriptorEnhancedAC3 (offsetEnd : Int) : P DescriptorEnhancedAC3 := do
  let b ← It.nextByte
  let hasASVC : Bool := b / 16 % 2 = 1
  let hasBSID : Bool := b / 64 % 2 = 1
  let hasComponentType : Bool := b / 128 % 2 = 1
  let hasMainID : Bool := b / 32 % 2 = 1
  let hasSubStream1 : Bool := b / 4 % 2 = 1
  let hasSubStream2 : Bool := b / 2 % 2 = 1
  let hasSubStream3 : Bool := b % 2 = 1
  let mixInfoExists : Bool := b / 8 % 2 = 1
  let componentType ← byteIf hasComponentType
  let bsid ← byteIf hasBSID
  let mainID ← byteIf hasMainID
  let asvc ← byteIf hasASVC
  let subStream1 ← byteIf hasSubStream1
  let subStream2 ← byteIf hasSubStream2
  let subStream3 ← byteIf hasSubStream3
  let additionalInfo ← restIfAny offsetEnd
  return { additionalInfo := additionalInfo, asvc := asvc, bsid := bsid, componentType := componentType,
           hasASVC := hasASVC, hasBSID := hasBSID, hasComponentType := hasComponentType, hasMainID := hasMainID,
           hasSubStream1 := hasSubStream1, hasSubStream2 := hasSubStream2, hasSubStream3 := hasSubStream3,
           mainID := mainID, mixInfoExists := mixInfoExists, subStream1 := subStream1, subStream2 := subStream2,
           subStream3 := subStream3 }

def newDescriptorExtendedEventItem : P DescriptorExtendedEventItem := do
  let descriptionLength ← It.nextByte
  let description ← It.nextBytes descriptionLength
  let contentLength ← It.nextByte
  let content ← It.nextBytes contentLength
  return { content := content, description := description }

def newDescriptorExtendedEventLoop (offsetEnd : Int) : Nat → P (List DescriptorExtendedEventItem)
  | 0 => P.fail
  | fuel + 1 => do
    let off ← It.offset
    if off < offsetEnd then
      let item ← newDescriptorExtendedEventItem
      let rest ← newDescriptorExtendedEventLoop offsetEnd fuel
      return item :: rest
    else return []

/-- the items loop ends at the offset given by `length_of_items`, NOT at the descriptor end: items and
text may run past the descriptor (`parseDescriptors` seeks back afterwards) -/
def newDescriptorExtendedEvent : P DescriptorExtendedEvent := do
  let b ← It.nextByte
  let lang ← It.nextBytes 3
  let itemsLength ← It.nextByte
  let off ← It.offset
  let fuel ← loopFuel
  let items ← newDescriptorExtendedEventLoop (off + itemsLength) fuel
  let textLength ← It.nextByte
  let text ← It.nextBytes textLength
  return { iso639LanguageCode := lang, items := items, lastDescriptorNumber := b % 16, number := b / 16 % 16,
           text := text }

def newDescriptorExtensionSupplementaryAudio (offsetEnd : Int) : P DescriptorExtensionSupplementaryAudio := do
  let b ← It.nextByte
  let hasLanguageCode : Bool := b % 2 = 1
  let languageCode ← (if hasLanguageCode then It.nextBytes 3 else pure [] : P Bytes)
  let privateData ← restIfAny offsetEnd
  return { editorialClassification := b / 4 % 32, hasLanguageCode := hasLanguageCode,
           languageCode := languageCode, mixType := b / 128 % 2 = 1, privateData := privateData }

def newDescriptorExtension (offsetEnd : Int) : P DescriptorExtension := do
  let tag ← It.nextByte
  if tag = descriptorTagExtensionSupplementaryAudio then
    let s ← newDescriptorExtensionSupplementaryAudio offsetEnd
    return { supplementaryAudio := some s, tag := tag }
  else
    let b ← restTo offsetEnd
    return { tag := tag, unknown := some b }

/-- `Language: bs[0:len(bs)-1], Type: bs[len(bs)-1]`: an empty `bs` is a Go slice-bounds panic
(unreachable from `parseDescriptors`, where `offsetEnd - offset = d.Length > 0`) -/
def newDescriptorISO639LanguageAndAudioType (offsetEnd : Int) : P DescriptorISO639LanguageAndAudioType := do
  let bs ← restTo offsetEnd
  if bs.length = 0 then P.panic
  else return { language := bs.take (bs.length - 1), type := bs.getD (bs.length - 1) 0 }

def newDescriptorLocalTimeOffsetLoop (offsetEnd : Int) : Nat → P (List DescriptorLocalTimeOffsetItem)
  | 0 => P.fail
  | fuel + 1 => do
    let off ← It.offset
    if off < offsetEnd then
      let countryCode ← It.nextBytes 3
      let b ← It.nextByte
      let localTimeOffset ← parseDVBDurationMinutes
      let timeOfChange ← parseDVBTime
      let nextTimeOffset ← parseDVBDurationMinutes
      let item : DescriptorLocalTimeOffsetItem :=
        { countryCode := countryCode, countryRegionID := b / 4 % 64, localTimeOffset := localTimeOffset,
          localTimeOffsetPolarity := b % 2 = 1, nextTimeOffset := nextTimeOffset, timeOfChange := timeOfChange }
      let rest ← newDescriptorLocalTimeOffsetLoop offsetEnd fuel
      return item :: rest
    else return []

def newDescriptorLocalTimeOffset (offsetEnd : Int) : P DescriptorLocalTimeOffset := do
  let fuel ← loopFuel
  let items ← newDescriptorLocalTimeOffsetLoop offsetEnd fuel
  return { items := items }

/-- `(uint32(bs[0]&0x3f)<<16 | uint32(bs[1])<<8 | uint32(bs[2])) * 50` (< 2^32, no wrap) -/
def newDescriptorMaximumBitrate : P DescriptorMaximumBitrate := do
  let bs ← It.nextBytes 3
  return { bitrate := ((bs.getD 0 0 % 64) * 65536 + bs.getD 1 0 * 256 + bs.getD 2 0) * 50 }

def newDescriptorNetworkName (offsetEnd : Int) : P DescriptorNetworkName := do
  let name ← restTo offsetEnd
  return { name := name }

def newDescriptorParentalRatingLoop (offsetEnd : Int) : Nat → P (List DescriptorParentalRatingItem)
  | 0 => P.fail
  | fuel + 1 => do
    let off ← It.offset
    if off < offsetEnd then
      let bs ← It.nextBytes 4
      let item : DescriptorParentalRatingItem := { countryCode := bs.take 3, rating := bs.getD 3 0 }
      let rest ← newDescriptorParentalRatingLoop offsetEnd fuel
      return item :: rest
    else return []

def newDescriptorParentalRating (offsetEnd : Int) : P DescriptorParentalRating := do
  let fuel ← loopFuel
  let items ← newDescriptorParentalRatingLoop offsetEnd fuel
  return { items := items }

/-- `uint32(bs[0])<<24 | uint32(bs[1])<<16 | uint32(bs[2])<<8 | uint32(bs[3])` -/
def rdBE32 (bs : Bytes) : Nat :=
  bs.getD 0 0 * 16777216 + bs.getD 1 0 * 65536 + bs.getD 2 0 * 256 + bs.getD 3 0

def newDescriptorPrivateDataIndicator : P DescriptorPrivateDataIndicator := do
  let bs ← It.nextBytes 4
  return { indicator := rdBE32 bs }

def newDescriptorPrivateDataSpecifier : P DescriptorPrivateDataSpecifier := do
  let bs ← It.nextBytes 4
  return { specifier := rdBE32 bs }

def newDescriptorRegistration (offsetEnd : Int) : P DescriptorRegistration := do
  let bs ← It.nextBytes 4
  let info ← restIfAny offsetEnd
  return { additionalIdentificationInfo := info, formatIdentifier := rdBE32 bs }

def newDescriptorService : P DescriptorService := do
  let type ← It.nextByte
  let providerLength ← It.nextByte
  let provider ← It.nextBytes providerLength
  let nameLength ← It.nextByte
  let name ← It.nextBytes nameLength
  return { name := name, provider := provider, type := type }

def newDescriptorShortEvent : P DescriptorShortEvent := do
  let language ← It.nextBytes 3
  let eventLength ← It.nextByte
  let eventName ← It.nextBytes eventLength
  let textLength ← It.nextByte
  let text ← It.nextBytes textLength
  return { eventName := eventName, language := language, text := text }

def newDescriptorStreamIdentifier : P DescriptorStreamIdentifier := do
  let b ← It.nextByte
  return { componentTag := b }

def newDescriptorSubtitlingLoop (offsetEnd : Int) : Nat → P (List DescriptorSubtitlingItem)
  | 0 => P.fail
  | fuel + 1 => do
    let off ← It.offset
    if off < offsetEnd then
      let language ← It.nextBytes 3
      let type ← It.nextByte
      let c ← It.nextBytes 2
      let a ← It.nextBytes 2
      let item : DescriptorSubtitlingItem :=
        { ancillaryPageID := a.getD 0 0 * 256 + a.getD 1 0, compositionPageID := c.getD 0 0 * 256 + c.getD 1 0,
          language := language, type := type }
      let rest ← newDescriptorSubtitlingLoop offsetEnd fuel
      return item :: rest
    else return []

def newDescriptorSubtitling (offsetEnd : Int) : P DescriptorSubtitling := do
  let fuel ← loopFuel
  let items ← newDescriptorSubtitlingLoop offsetEnd fuel
  return { items := items }

/-- `Page = uint8(b)>>4*10 + uint8(b&0xf)` (at most 165: no uint8 wrap) -/
def newDescriptorTeletextLoop (offsetEnd : Int) : Nat → P (List DescriptorTeletextItem)
  | 0 => P.fail
  | fuel + 1 => do
    let off ← It.offset
    if off < offsetEnd then
      let language ← It.nextBytes 3
      let b ← It.nextByte
      let p ← It.nextByte
      let item : DescriptorTeletextItem :=
        { language := language, magazine := b % 8, page := (p / 16 % 16) * 10 + p % 16, type := b / 8 % 32 }
      let rest ← newDescriptorTeletextLoop offsetEnd fuel
      return item :: rest
    else return []

def newDescriptorTeletext (offsetEnd : Int) : P DescriptorTeletext := do
  let fuel ← loopFuel
  let items ← newDescriptorTeletextLoop offsetEnd fuel
  return { items := items }

def newDescriptorUnknown (tag length : Nat) : P DescriptorUnknown := do
  let content ← It.nextBytes length
  return { content := content, tag := tag }

/-- inner loop of `newDescriptorVBIData`: one byte per iteration; the byte is kept only for a known id -/
def newDescriptorVBIDataDescLoop (id : Nat) (offsetDataEnd : Int) : Nat → P (List DescriptorVBIDataDescriptor)
  | 0 => P.fail
  | fuel + 1 => do
    let off ← It.offset
    if off < offsetDataEnd then
      let b ← It.nextByte
      let rest ← newDescriptorVBIDataDescLoop id offsetDataEnd fuel
      if isKnownVBIDataServiceID id then
        return { fieldParity := b / 32 % 2 = 1, lineOffset := b % 32 } :: rest
      else return rest
    else return []

def newDescriptorVBIDataLoop (offsetEnd : Int) : Nat → P (List DescriptorVBIDataService)
  | 0 => P.fail
  | fuel + 1 => do
    let off ← It.offset
    if off < offsetEnd then
      let id ← It.nextByte
      let dataServiceDescriptorLength ← It.nextByte
      let off ← It.offset
      let fuel' ← loopFuel
      let descs ← newDescriptorVBIDataDescLoop id (off + dataServiceDescriptorLength) fuel'
      let srv : DescriptorVBIDataService := { dataServiceID := id, descriptors := descs }
      let rest ← newDescriptorVBIDataLoop offsetEnd fuel
      return srv :: rest
    else return []

def newDescriptorVBIData (offsetEnd : Int) : P DescriptorVBIData := do
  let fuel ← loopFuel
  let services ← newDescriptorVBIDataLoop offsetEnd fuel
  return { services := services }

/-- the `switch d.Tag` of `parseDescriptors` (tag outside the user-defined range, `d.Length > 0`) -/
def parseDescriptorSwitch (d : Descriptor) (offsetDescriptorEnd : Int) : P Descriptor :=
  if d.tag = descriptorTagAC3 then do
    let x ← newDescriptorAC3 offsetDescriptorEnd; return { d with ac3 := some x }
  else if d.tag = descriptorTagAVCVideo then do
    let x ← newDescriptorAVCVideo; return { d with avcVideo := some x }
  else if d.tag = descriptorTagComponent then do
    let x ← newDescriptorComponent offsetDescriptorEnd; return { d with component := some x }
  else if d.tag = descriptorTagContent then do
    let x ← newDescriptorContent offsetDescriptorEnd; return { d with content := some x }
  else if d.tag = descriptorTagDataStreamAlignment then do
    let x ← newDescriptorDataStreamAlignment; return { d with dataStreamAlignment := some x }
  else if d.tag = descriptorTagEnhancedAC3 then do
    let x ← newDescriptorEnhancedAC3 offsetDescriptorEnd; return { d with enhancedAC3 := some x }
  else if d.tag = descriptorTagExtendedEvent then do
    let x ← newDescriptorExtendedEvent; return { d with extendedEvent := some x }
  else if d.tag = descriptorTagExtension then do
    let x ← newDescriptorExtension offsetDescriptorEnd; return { d with extension := some x }
  else if d.tag = descriptorTagISO639LanguageAndAudioType then do
    let x ← newDescriptorISO639LanguageAndAudioType offsetDescriptorEnd
    return { d with iso639LanguageAndAudioType := some x }
  else if d.tag = descriptorTagLocalTimeOffset then do
    let x ← newDescriptorLocalTimeOffset offsetDescriptorEnd; return { d with localTimeOffset := some x }
  else if d.tag = descriptorTagMaximumBitrate then do
    let x ← newDescriptorMaximumBitrate; return { d with maximumBitrate := some x }
  else if d.tag = descriptorTagNetworkName then do
    let x ← newDescriptorNetworkName offsetDescriptorEnd; return { d with networkName := some x }
  else if d.tag = descriptorTagParentalRating then do
    let x ← newDescriptorParentalRating offsetDescriptorEnd; return { d with parentalRating := some x }
  else if d.tag = descriptorTagPrivateDataIndicator then do
    let x ← newDescriptorPrivateDataIndicator; return { d with privateDataIndicator := some x }
  else if d.tag = descriptorTagPrivateDataSpecifier then do
    let x ← newDescriptorPrivateDataSpecifier; return { d with privateDataSpecifier := some x }
  else if d.tag = descriptorTagRegistration then do
    let x ← newDescriptorRegistration offsetDescriptorEnd; return { d with registration := some x }
  else if d.tag = descriptorTagService then do
    let x ← newDescriptorService; return { d with service := some x }
  else if d.tag = descriptorTagShortEvent then do
    let x ← newDescriptorShortEvent; return { d with shortEvent := some x }
  else if d.tag = descriptorTagStreamIdentifier then do
    let x ← newDescriptorStreamIdentifier; return { d with streamIdentifier := some x }
  else if d.tag = descriptorTagSubtitling then do
    let x ← newDescriptorSubtitling offsetDescriptorEnd; return { d with subtitling := some x }
  else if d.tag = descriptorTagTeletext then do
    let x ← newDescriptorTeletext offsetDescriptorEnd; return { d with teletext := some x }
  else if d.tag = descriptorTagVBIData then do
    let x ← newDescriptorVBIData offsetDescriptorEnd; return { d with vbiData := some x }
  else if d.tag = descriptorTagVBITeletext then do
    let x ← newDescriptorTeletext offsetDescriptorEnd; return { d with vbiTeletext := some x }
  else do
    let x ← newDescriptorUnknown d.tag d.length; return { d with unknown := some x }

/-- one iteration of the loop of `parseDescriptors`: tag, length, data, and the final
`i.Seek(offsetDescriptorEnd)` (which may move the offset backwards or past the end of the slice) -/
def parseDescriptor : P Descriptor := do
  let bs ← It.nextBytes 2
  let d : Descriptor := { length := bs.getD 1 0, tag := bs.getD 0 0 }
  if d.length > 0 then
    let off ← It.offset
    let offsetDescriptorEnd : Int := off + d.length
    let d ← (if isUserDefinedTag d.tag then do
        let u ← It.nextBytes d.length
        pure { d with userDefined := u }
      else parseDescriptorSwitch d offsetDescriptorEnd : P Descriptor)
    It.seek offsetDescriptorEnd
    return d
  else return d

/-- every iteration that does not fail leaves the offset at least 2 further (`offsetDescriptorEnd ≥
offset + 2`) and needs `offset + 2 ≤ len` to start, so `len + 1` fuel is enough -/
def parseDescriptorsLoop (offsetEnd : Int) : Nat → P (List Descriptor)
  | 0 => P.fail
  | fuel + 1 => do
    let off ← It.offset
    if off < offsetEnd then
      let d ← parseDescriptor
      let rest ← parseDescriptorsLoop offsetEnd fuel
      return d :: rest
    else return []

/-- `parseDescriptors`: 12-bit loop length, then the loop -/
def parseDescriptors : P (List Descriptor) := do
  let bs ← It.nextBytes 2
  let length : Nat := (bs.getD 0 0 % 16) * 256 + bs.getD 1 0
  if length > 0 then
    let off ← It.offset
    let fuel ← loopFuel
    parseDescriptorsLoop (off + length) fuel
  else return []

/-! ### length calculators (`uint8`: the `int` sum is truncated by the final `uint8(ret)`) -/

/-- `calcXxxLength(d.Xxx)` on a possibly nil pointer: `if d == nil { return 0 }` -/
def nilOr {α} (f : α → Nat) : Option α → Nat
  | none => 0
  | some x => f x

def calcDescriptorUserDefinedLength (d : Bytes) : Nat := d.length % 256

def calcDescriptorAC3Length (d : DescriptorAC3) : Nat :=
  (1 + b2n d.hasComponentType + b2n d.hasBSID + b2n d.hasMainID + b2n d.hasASVC + d.additionalInfo.length) % 256

def calcDescriptorAVCVideoLength (_ : DescriptorAVCVideo) : Nat := 4

def calcDescriptorComponentLength (d : DescriptorComponent) : Nat := (6 + d.text.length) % 256

def calcDescriptorContentLength (d : DescriptorContent) : Nat := (2 * d.items.length) % 256

def calcDescriptorDataStreamAlignmentLength (_ : DescriptorDataStreamAlignment) : Nat := 1

def calcDescriptorEnhancedAC3Length (d : DescriptorEnhancedAC3) : Nat :=
  (1 + b2n d.hasComponentType + b2n d.hasBSID + b2n d.hasMainID + b2n d.hasASVC + b2n d.hasSubStream1
    + b2n d.hasSubStream2 + b2n d.hasSubStream3 + d.additionalInfo.length) % 256

/-- `itemsRet` of `calcDescriptorExtendedEventLength` as `int` -/
def extendedEventItemsSize : List DescriptorExtendedEventItem → Nat
  | [] => 0
  | item :: r => 1 + item.description.length + 1 + item.content.length + extendedEventItemsSize r

/-- `calcDescriptorExtendedEventLength`: (descriptorLength, lengthOfItems), both `uint8` -/
def calcDescriptorExtendedEventLength (d : DescriptorExtendedEvent) : Nat × Nat :=
  let itemsRet := extendedEventItemsSize d.items
  ((1 + 3 + 1 + itemsRet + 1 + d.text.length) % 256, itemsRet % 256)

/-- returns `int` in Go -/
def calcDescriptorExtensionSupplementaryAudioLength (d : DescriptorExtensionSupplementaryAudio) : Nat :=
  1 + (if d.hasLanguageCode then 3 else 0) + d.privateData.length

def calcDescriptorExtensionLength (d : DescriptorExtension) : Nat :=
  (1 + (if d.tag = descriptorTagExtensionSupplementaryAudio then
          nilOr calcDescriptorExtensionSupplementaryAudioLength d.supplementaryAudio
        else nilOr List.length d.unknown)) % 256

def calcDescriptorISO639LanguageAndAudioTypeLength (_ : DescriptorISO639LanguageAndAudioType) : Nat := 4

def calcDescriptorLocalTimeOffsetLength (d : DescriptorLocalTimeOffset) : Nat := (13 * d.items.length) % 256

def calcDescriptorMaximumBitrateLength (_ : DescriptorMaximumBitrate) : Nat := 3

def calcDescriptorNetworkNameLength (d : DescriptorNetworkName) : Nat := d.name.length % 256

def calcDescriptorParentalRatingLength (d : DescriptorParentalRating) : Nat := (4 * d.items.length) % 256

def calcDescriptorPrivateDataIndicatorLength (_ : DescriptorPrivateDataIndicator) : Nat := 4

def calcDescriptorPrivateDataSpecifierLength (_ : DescriptorPrivateDataSpecifier) : Nat := 4

def calcDescriptorRegistrationLength (d : DescriptorRegistration) : Nat :=
  (4 + d.additionalIdentificationInfo.length) % 256

def calcDescriptorServiceLength (d : DescriptorService) : Nat := (3 + d.name.length + d.provider.length) % 256

def calcDescriptorShortEventLength (d : DescriptorShortEvent) : Nat :=
  (3 + 1 + 1 + d.eventName.length + d.text.length) % 256

def calcDescriptorStreamIdentifierLength (_ : DescriptorStreamIdentifier) : Nat := 1

def calcDescriptorSubtitlingLength (d : DescriptorSubtitling) : Nat := (8 * d.items.length) % 256

def calcDescriptorTeletextLength (d : DescriptorTeletext) : Nat := (5 * d.items.length) % 256

/-- bytes `writeDescriptorVBIData` emits for the services (deviation (b): the REPAIRED calculator) -/
def vbiDataServicesSize : List DescriptorVBIDataService → Nat
  | [] => 0
  | s :: r => 2 + (if isKnownVBIDataServiceID s.dataServiceID then s.descriptors.length else 1)
              + vbiDataServicesSize r

/-- REPAIRED (deviation (b)); the Go source has `uint8(3 * len(d.Services))` -/
def calcDescriptorVBIDataLength (d : DescriptorVBIData) : Nat := vbiDataServicesSize d.services % 256

def calcDescriptorUnknownLength (d : DescriptorUnknown) : Nat := d.content.length % 256

def calcDescriptorLength (d : Descriptor) : Nat :=
  if isUserDefinedTag d.tag then calcDescriptorUserDefinedLength d.userDefined
  else if d.tag = descriptorTagAC3 then nilOr calcDescriptorAC3Length d.ac3
  else if d.tag = descriptorTagAVCVideo then nilOr calcDescriptorAVCVideoLength d.avcVideo
  else if d.tag = descriptorTagComponent then nilOr calcDescriptorComponentLength d.component
  else if d.tag = descriptorTagContent then nilOr calcDescriptorContentLength d.content
  else if d.tag = descriptorTagDataStreamAlignment then
    nilOr calcDescriptorDataStreamAlignmentLength d.dataStreamAlignment
  else if d.tag = descriptorTagEnhancedAC3 then nilOr calcDescriptorEnhancedAC3Length d.enhancedAC3
  else if d.tag = descriptorTagExtendedEvent then nilOr (fun x => (calcDescriptorExtendedEventLength x).1) d.extendedEvent
  else if d.tag = descriptorTagExtension then nilOr calcDescriptorExtensionLength d.extension
  else if d.tag = descriptorTagISO639LanguageAndAudioType then
    nilOr calcDescriptorISO639LanguageAndAudioTypeLength d.iso639LanguageAndAudioType
  else if d.tag = descriptorTagLocalTimeOffset then nilOr calcDescriptorLocalTimeOffsetLength d.localTimeOffset
  else if d.tag = descriptorTagMaximumBitrate then nilOr calcDescriptorMaximumBitrateLength d.maximumBitrate
  else if d.tag = descriptorTagNetworkName then nilOr calcDescriptorNetworkNameLength d.networkName
  else if d.tag = descriptorTagParentalRating then nilOr calcDescriptorParentalRatingLength d.parentalRating
  else if d.tag = descriptorTagPrivateDataIndicator then
    nilOr calcDescriptorPrivateDataIndicatorLength d.privateDataIndicator
  else if d.tag = descriptorTagPrivateDataSpecifier then
    nilOr calcDescriptorPrivateDataSpecifierLength d.privateDataSpecifier
  else if d.tag = descriptorTagRegistration then nilOr calcDescriptorRegistrationLength d.registration
  else if d.tag = descriptorTagService then nilOr calcDescriptorServiceLength d.service
  else if d.tag = descriptorTagShortEvent then nilOr calcDescriptorShortEventLength d.shortEvent
  else if d.tag = descriptorTagStreamIdentifier then nilOr calcDescriptorStreamIdentifierLength d.streamIdentifier
  else if d.tag = descriptorTagSubtitling then nilOr calcDescriptorSubtitlingLength d.subtitling
  else if d.tag = descriptorTagTeletext then nilOr calcDescriptorTeletextLength d.teletext
  else if d.tag = descriptorTagVBIData then nilOr calcDescriptorVBIDataLength d.vbiData
  else if d.tag = descriptorTagVBITeletext then nilOr calcDescriptorTeletextLength d.vbiTeletext
  else nilOr calcDescriptorUnknownLength d.unknown

/-- `Σ (2 + calcDescriptorLength d)` as a plain number (the `int` returned by `writeDescriptors`) -/
def descriptorsSize : List Descriptor → Nat
  | [] => 0
  | d :: ds => 2 + calcDescriptorLength d + descriptorsSize ds

/-- `calcDescriptorsLength` (`uint16` accumulator: the sum modulo 65536) -/
def calcDescriptorsLength (ds : List Descriptor) : Nat := descriptorsSize ds % 65536

/-! ### writing -/

/-- `Write(uint8)`, `Write(uint16)`, `Write(uint32)` -/
def wU8 (x : Nat) : Bytes := [x % 256]
def wU16 (x : Nat) : Bytes := beBytes 2 (x % 65536)
def wU32 (x : Nat) : Bytes := beBytes 4 (x % 4294967296)

/-- `WriteBytesN(bs, n, pad)`: exactly `n` bytes — the first `n` of `bs`, padded at the end -/
def wBytesN (bs : Bytes) (n : Nat) (pad : Nat) : Bytes := bs.take n ++ List.replicate (n - bs.length) pad

def writeDescriptorUserDefined (d : Bytes) : Bytes := d

def writeDescriptorAC3 (d : DescriptorAC3) : Bytes :=
  packFields [(b2n d.hasComponentType, 1), (b2n d.hasBSID, 1), (b2n d.hasMainID, 1), (b2n d.hasASVC, 1), (0xff, 4)]
  ++ (if d.hasComponentType then wU8 d.componentType else [])
  ++ (if d.hasBSID then wU8 d.bsid else [])
  ++ (if d.hasMainID then wU8 d.mainID else [])
  ++ (if d.hasASVC then wU8 d.asvc else [])
  ++ d.additionalInfo

def writeDescriptorAVCVideo (d : DescriptorAVCVideo) : Bytes :=
  wU8 d.profileIDC
  ++ packFields [(b2n d.constraintSet0Flag, 1), (b2n d.constraintSet1Flag, 1), (b2n d.constraintSet2Flag, 1),
       (d.compatibleFlags, 5)]
  ++ wU8 d.levelIDC
  ++ packFields [(b2n d.avcStillPresent, 1), (b2n d.avc24HourPictureFlag, 1), (0xff, 6)]

def writeDescriptorComponent (d : DescriptorComponent) : Bytes :=
  packFields [(d.streamContentExt, 4), (d.streamContent, 4)]
  ++ wU8 d.componentType ++ wU8 d.componentTag
  ++ wBytesN d.iso639LanguageCode 3 0
  ++ d.text

def writeDescriptorContentItems : List DescriptorContentItem → Bytes
  | [] => []
  | item :: r =>
    packFields [(item.contentNibbleLevel1, 4), (item.contentNibbleLevel2, 4)] ++ wU8 item.userByte
    ++ writeDescriptorContentItems r

def writeDescriptorContent (d : DescriptorContent) : Bytes := writeDescriptorContentItems d.items

def writeDescriptorDataStreamAlignment (d : DescriptorDataStreamAlignment) : Bytes := wU8 d.type

def writeDescriptorEnhancedAC3 (d : DescriptorEnhancedAC3) : Bytes :=
  packFields [(b2n d.hasComponentType, 1), (b2n d.hasBSID, 1), (b2n d.hasMainID, 1), (b2n d.hasASVC, 1),
    (b2n d.mixInfoExists, 1), (b2n d.hasSubStream1, 1), (b2n d.hasSubStream2, 1), (b2n d.hasSubStream3, 1)]
  ++ (if d.hasComponentType then wU8 d.componentType else [])
  ++ (if d.hasBSID then wU8 d.bsid else [])
  ++ (if d.hasMainID then wU8 d.mainID else [])
  ++ (if d.hasASVC then wU8 d.asvc else [])
  ++ (if d.hasSubStream1 then wU8 d.subStream1 else [])
  ++ (if d.hasSubStream2 then wU8 d.subStream2 else [])
  ++ (if d.hasSubStream3 then wU8 d.subStream3 else [])
  ++ d.additionalInfo

/-- `Write(uint8(len(x))); Write(x)`: the length byte wraps, the bytes are written in full -/
def writeDescriptorExtendedEventItems : List DescriptorExtendedEventItem → Bytes
  | [] => []
  | item :: r =>
    wU8 item.description.length ++ item.description ++ wU8 item.content.length ++ item.content
    ++ writeDescriptorExtendedEventItems r

def writeDescriptorExtendedEvent (d : DescriptorExtendedEvent) : Bytes :=
  packFields [(d.number, 4), (d.lastDescriptorNumber, 4)]
  ++ wBytesN d.iso639LanguageCode 3 0
  ++ wU8 (calcDescriptorExtendedEventLength d).2
  ++ writeDescriptorExtendedEventItems d.items
  ++ wU8 d.text.length ++ d.text

def writeDescriptorExtensionSupplementaryAudio (d : DescriptorExtensionSupplementaryAudio) : Bytes :=
  packFields [(b2n d.mixType, 1), (d.editorialClassification, 5), (1, 1), (b2n d.hasLanguageCode, 1)]
  ++ (if d.hasLanguageCode then wBytesN d.languageCode 3 0 else [])
  ++ d.privateData

/-- with tag 6 and a nil `SupplementaryAudio` Go writes the tag byte and then panics (nil dereference);
the model returns just the tag byte, see `writeDescriptorPanics` -/
def writeDescriptorExtension (d : DescriptorExtension) : Bytes :=
  wU8 d.tag
  ++ (if d.tag = descriptorTagExtensionSupplementaryAudio then
        (match d.supplementaryAudio with
         | some s => writeDescriptorExtensionSupplementaryAudio s
         | none => [])
      else
        (match d.unknown with
         | some b => b
         | none => []))

def writeDescriptorISO639LanguageAndAudioType (d : DescriptorISO639LanguageAndAudioType) : Bytes :=
  wBytesN d.language 3 0 ++ wU8 d.type

def writeDescriptorLocalTimeOffsetItems : List DescriptorLocalTimeOffsetItem → Bytes
  | [] => []
  | item :: r =>
    wBytesN item.countryCode 3 0
    ++ packFields [(item.countryRegionID, 6), (0xff, 1), (b2n item.localTimeOffsetPolarity, 1)]
    ++ writeDVBDurationMinutes item.localTimeOffset
    ++ writeDVBTime item.timeOfChange
    ++ writeDVBDurationMinutes item.nextTimeOffset
    ++ writeDescriptorLocalTimeOffsetItems r

def writeDescriptorLocalTimeOffset (d : DescriptorLocalTimeOffset) : Bytes :=
  writeDescriptorLocalTimeOffsetItems d.items

/-- `WriteN(uint8(0xff), 2); WriteN(uint32(d.Bitrate/50), 22)` -/
def writeDescriptorMaximumBitrate (d : DescriptorMaximumBitrate) : Bytes :=
  packFields [(0xff, 2), (d.bitrate / 50, 22)]

def writeDescriptorNetworkName (d : DescriptorNetworkName) : Bytes := d.name

def writeDescriptorParentalRatingItems : List DescriptorParentalRatingItem → Bytes
  | [] => []
  | item :: r => wBytesN item.countryCode 3 0 ++ wU8 item.rating ++ writeDescriptorParentalRatingItems r

def writeDescriptorParentalRating (d : DescriptorParentalRating) : Bytes :=
  writeDescriptorParentalRatingItems d.items

def writeDescriptorPrivateDataIndicator (d : DescriptorPrivateDataIndicator) : Bytes := wU32 d.indicator

def writeDescriptorPrivateDataSpecifier (d : DescriptorPrivateDataSpecifier) : Bytes := wU32 d.specifier

def writeDescriptorRegistration (d : DescriptorRegistration) : Bytes :=
  wU32 d.formatIdentifier ++ d.additionalIdentificationInfo

def writeDescriptorService (d : DescriptorService) : Bytes :=
  wU8 d.type ++ wU8 d.provider.length ++ d.provider ++ wU8 d.name.length ++ d.name

def writeDescriptorShortEvent (d : DescriptorShortEvent) : Bytes :=
  wBytesN d.language 3 0 ++ wU8 d.eventName.length ++ d.eventName ++ wU8 d.text.length ++ d.text

def writeDescriptorStreamIdentifier (d : DescriptorStreamIdentifier) : Bytes := wU8 d.componentTag

def writeDescriptorSubtitlingItems : List DescriptorSubtitlingItem → Bytes
  | [] => []
  | item :: r =>
    wBytesN item.language 3 0 ++ wU8 item.type ++ wU16 item.compositionPageID ++ wU16 item.ancillaryPageID
    ++ writeDescriptorSubtitlingItems r

def writeDescriptorSubtitling (d : DescriptorSubtitling) : Bytes := writeDescriptorSubtitlingItems d.items

/-- `WriteN(item.Page/10, 4); WriteN(item.Page%10, 4)`: `Page/10` is cut to 4 bits (pages ≥ 160 lose it) -/
def writeDescriptorTeletextItems : List DescriptorTeletextItem → Bytes
  | [] => []
  | item :: r =>
    wBytesN item.language 3 0
    ++ packFields [(item.type, 5), (item.magazine, 3), (item.page / 10, 4), (item.page % 10, 4)]
    ++ writeDescriptorTeletextItems r

def writeDescriptorTeletext (d : DescriptorTeletext) : Bytes := writeDescriptorTeletextItems d.items

def writeDescriptorVBIDataDescriptors : List DescriptorVBIDataDescriptor → Bytes
  | [] => []
  | desc :: r =>
    packFields [(0xff, 2), (b2n desc.fieldParity, 1), (desc.lineOffset, 5)] ++ writeDescriptorVBIDataDescriptors r

/-- an unknown data service id gets one reserved byte: length 1, 0xff -/
def writeDescriptorVBIDataServices : List DescriptorVBIDataService → Bytes
  | [] => []
  | item :: r =>
    wU8 item.dataServiceID
    ++ (if isKnownVBIDataServiceID item.dataServiceID then
          wU8 item.descriptors.length ++ writeDescriptorVBIDataDescriptors item.descriptors
        else [1, 0xff])
    ++ writeDescriptorVBIDataServices r

def writeDescriptorVBIData (d : DescriptorVBIData) : Bytes := writeDescriptorVBIDataServices d.services

def writeDescriptorUnknown (d : DescriptorUnknown) : Bytes := d.content

/-- `writeXxx(w, d.Xxx)` on a possibly nil pointer. Go dereferences the pointer: nil is a run-time panic.
The model yields `[]` there. This is unreachable from `writeDescriptor`: a nil sub-struct makes
`calcDescriptorLength` 0 and (repaired) `writeDescriptor` then writes no body. Generators never produce it. -/
def nilBody {α} (f : α → Bytes) : Option α → Bytes
  | none => []
  | some x => f x

/-- what the per-kind writer selected by `writeDescriptor` emits -/
def descriptorBody (d : Descriptor) : Bytes :=
  if isUserDefinedTag d.tag then writeDescriptorUserDefined d.userDefined
  else if d.tag = descriptorTagAC3 then nilBody writeDescriptorAC3 d.ac3
  else if d.tag = descriptorTagAVCVideo then nilBody writeDescriptorAVCVideo d.avcVideo
  else if d.tag = descriptorTagComponent then nilBody writeDescriptorComponent d.component
  else if d.tag = descriptorTagContent then nilBody writeDescriptorContent d.content
  else if d.tag = descriptorTagDataStreamAlignment then
    nilBody writeDescriptorDataStreamAlignment d.dataStreamAlignment
  else if d.tag = descriptorTagEnhancedAC3 then nilBody writeDescriptorEnhancedAC3 d.enhancedAC3
  else if d.tag = descriptorTagExtendedEvent then nilBody writeDescriptorExtendedEvent d.extendedEvent
  else if d.tag = descriptorTagExtension then nilBody writeDescriptorExtension d.extension
  else if d.tag = descriptorTagISO639LanguageAndAudioType then
    nilBody writeDescriptorISO639LanguageAndAudioType d.iso639LanguageAndAudioType
  else if d.tag = descriptorTagLocalTimeOffset then nilBody writeDescriptorLocalTimeOffset d.localTimeOffset
  else if d.tag = descriptorTagMaximumBitrate then nilBody writeDescriptorMaximumBitrate d.maximumBitrate
  else if d.tag = descriptorTagNetworkName then nilBody writeDescriptorNetworkName d.networkName
  else if d.tag = descriptorTagParentalRating then nilBody writeDescriptorParentalRating d.parentalRating
  else if d.tag = descriptorTagPrivateDataIndicator then
    nilBody writeDescriptorPrivateDataIndicator d.privateDataIndicator
  else if d.tag = descriptorTagPrivateDataSpecifier then
    nilBody writeDescriptorPrivateDataSpecifier d.privateDataSpecifier
  else if d.tag = descriptorTagRegistration then nilBody writeDescriptorRegistration d.registration
  else if d.tag = descriptorTagService then nilBody writeDescriptorService d.service
  else if d.tag = descriptorTagShortEvent then nilBody writeDescriptorShortEvent d.shortEvent
  else if d.tag = descriptorTagStreamIdentifier then nilBody writeDescriptorStreamIdentifier d.streamIdentifier
  else if d.tag = descriptorTagSubtitling then nilBody writeDescriptorSubtitling d.subtitling
  else if d.tag = descriptorTagTeletext then nilBody writeDescriptorTeletext d.teletext
  else if d.tag = descriptorTagVBIData then nilBody writeDescriptorVBIData d.vbiData
  else if d.tag = descriptorTagVBITeletext then nilBody writeDescriptorTeletext d.vbiTeletext
  else nilBody writeDescriptorUnknown d.unknown

/-- `writeDescriptor`: tag, computed length, body. Deviation (a): the body is skipped when the COMPUTED
length is 0 (the Go source tests the struct field `d.Length`). -/
def writeDescriptor (d : Descriptor) : Bytes :=
  let length := calcDescriptorLength d
  wU8 d.tag ++ wU8 length ++ (if length = 0 then [] else descriptorBody d)

/-- the one nil dereference (repaired) `writeDescriptor` can still reach on model values: an extension
descriptor with tag 6 and no `SupplementaryAudio` (computed length 1, then `d.MixType` on nil). Go has
by then emitted tag, length and the extension tag byte — exactly the model's bytes. -/
def writeDescriptorPanics (d : Descriptor) : Bool :=
  !isUserDefinedTag d.tag && d.tag = descriptorTagExtension &&
  (match d.extension with
   | some e => e.tag = descriptorTagExtensionSupplementaryAudio && e.supplementaryAudio.isNone
   | none => false)

def writeDescriptors : List Descriptor → Bytes
  | [] => []
  | d :: ds => writeDescriptor d ++ writeDescriptors ds

/-- `writeDescriptorsWithLength`: 4 reserved bits, the 12 low bits of `calcDescriptorsLength`, the loop -/
def writeDescriptorsWithLength (ds : List Descriptor) : Bytes :=
  packFields [(0xff, 4), (calcDescriptorsLength ds, 12)] ++ writeDescriptors ds

/-- the `int` returned by `writeDescriptorsWithLength` (not wrapped) -/
def writeDescriptorsWithLengthCount (ds : List Descriptor) : Nat := descriptorsSize ds + 2

end Astits
