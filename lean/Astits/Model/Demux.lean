/-
M7 + M8 — model of packet_pool.go, data.go, packet_buffer.go, demuxer.go, program_map.go:
accumulator / pool, unit assembly (`parseData`, `isPSIComplete`, `toData`), packet buffer with
packet-size auto-detection, `NextPacket`, `NextData`, `Rewind`.
-/
import Astits.Model.Packet
import Astits.Model.PES
import Astits.Model.PSI
namespace Astits

/-! ### accumulator and pool (packet_pool.go) -/

def lastCC (q : List Packet) : Option Nat := q.getLast?.map (·.header.continuityCounter)

def pktDI (p : Packet) : Bool :=
  p.header.hasAdaptationField && (p.adaptationField.map (·.discontinuityIndicator)).getD false

/-- `hasDiscontinuity(ps, p)` -/
def hasDiscontinuity (q : List Packet) (p : Packet) : Bool :=
  pktDI p ||
  (match lastCC q with
   | none => false
   | some l => (p.header.hasPayload && p.header.continuityCounter != (l + 1) % 16)
               || (!p.header.hasPayload && p.header.continuityCounter != l))

/-- `isSameAsPrevious(ps, p)` -/
def isSameAsPrevious (q : List Packet) (p : Packet) : Bool :=
  match lastCC q with
  | none => false
  | some l => p.header.hasPayload && p.header.continuityCounter == l

/-- `isPSIComplete(ps)` on the concatenated payload -/
def psiCompleteLoop : Nat → P Bool
  | 0 => pure false
  | fuel + 1 => do
    let more ← It.hasBytesLeft
    if more then do
      let t ← It.nextByte
      if shouldStopPSIParsing t then (do let l ← It.len; let o ← It.offset; pure (decide (l ≥ o)))
      else do
        let bs ← It.nextBytes 2
        It.skip ((bs.getD 0 0 % 16) * 256 + bs.getD 1 0 : Nat)
        psiCompleteLoop fuel
    else (do let l ← It.len; let o ← It.offset; pure (decide (l ≥ o)))

def isPSICompleteBytes (payload : Bytes) : Bool :=
  let p : P Bool := do
    let b ← It.nextByte
    It.skip b
    let more ← It.hasBytesLeft
    -- no section has started yet: the unit cannot be complete
    if !more then pure false
    else psiCompleteLoop (payload.length + 1)
  match p.val payload with
  | .ok b => b
  | _ => false

def concatPayload (ps : List Packet) : Bytes := (ps.map (·.payload)).flatten

def isPSIComplete (ps : List Packet) : Bool := isPSICompleteBytes (concatPayload ps)

abbrev ProgramMap := List (Nat × Nat)   -- PMT PID ↦ program number (no duplicate keys)

def ProgramMap.has (pm : ProgramMap) (pid : Nat) : Bool := pm.any (·.1 == pid)
def ProgramMap.set (pm : ProgramMap) (pid num : Nat) : ProgramMap :=
  if pm.has pid then pm.map (fun e => if e.1 == pid then (pid, num) else e) else pm ++ [(pid, num)]

/-- `packetAccumulator.add`: flushed packets and the new queue. The duplicate test comes first
(a duplicate is not a discontinuity) unless the packet announces a discontinuity itself. -/
def accAdd (pm : ProgramMap) (pid : Nat) (q : List Packet) (p : Packet) : List Packet × List Packet :=
  if isSameAsPrevious q p && !pktDI p then ([], q)
  else
    -- a discontinuity announced by the first packet of a new unit does not concern what was accumulated: it is flushed below
    let q1 := if hasDiscontinuity q p && !(p.header.payloadUnitStartIndicator && pktDI p && !isSameAsPrevious q p) then [] else q
    let (ps, q2) := if p.header.payloadUnitStartIndicator then (q1, []) else ([], q1)
    let q3 := q2 ++ [p]
    if (pid == 0 || pm.has pid) && isPSIComplete q3 then (q3, []) else (ps, q3)

abbrev Pool := List (Nat × List Packet)   -- PID ↦ queue (no duplicate keys)

def Pool.get : Pool → Nat → List Packet
  | [], _ => []
  | (k, q) :: r, pid => if k = pid then q else Pool.get r pid

def Pool.put : Pool → Nat → List Packet → Pool
  | [], pid, q => [(pid, q)]
  | (k, v) :: r, pid, q => if k = pid then (pid, q) :: r else (k, v) :: Pool.put r pid q

/-- `packetPool.addUnlocked` -/
def poolAdd (pm : ProgramMap) (pool : Pool) (p : Packet) : List Packet × Pool :=
  if p.header.transportErrorIndicator then ([], pool)
  else if !p.header.hasPayload then ([], pool)
  else
    let pid := p.header.pid
    let (ps, q) := accAdd pm pid (pool.get pid) p
    (ps, pool.put pid q)

def insertSorted (e : Nat × List Packet) : Pool → Pool
  | [] => [e]
  | x :: r => if e.1 ≤ x.1 then e :: x :: r else x :: insertSorted e r

def Pool.sorted (pool : Pool) : Pool := pool.foldr insertSorted []

/-- `packetPool.dumpUnlocked`: PIDs in increasing order; empty accumulators are deleted on the way -/
def poolDump (pool : Pool) : List Packet × Pool :=
  let rec go : Pool → List Packet × Pool
    | [] => ([], [])
    | (_, q) :: r => if q.isEmpty then go r else (q, r)
  go pool.sorted

/-! ### data.go -/

structure DemuxerData where
  eit : Option EITData := none
  firstPacket : Option Packet := none
  nit : Option NITData := none
  pat : Option PATData := none
  pes : Option PESData := none
  pid : Nat := 0
  pmt : Option PMTData := none
  sdt : Option SDTData := none
  tot : Option TOTData := none
  deriving Repr, Inhabited

def DemuxerData.toJson (d : DemuxerData) : String :=
  jobj [("EIT", jopt EITData.toJson d.eit), ("FirstPacket", jopt Packet.toJson d.firstPacket),
    ("NIT", jopt NITData.toJson d.nit), ("PAT", jopt PATData.toJson d.pat), ("PES", jopt PESData.toJson d.pes),
    ("PID", jnat d.pid), ("PMT", jopt PMTData.toJson d.pmt), ("SDT", jopt SDTData.toJson d.sdt),
    ("TOT", jopt TOTData.toJson d.tot)]

/-- `isPSIPayload` -/
def isPSIPayload (pid : Nat) (pm : ProgramMap) : Bool :=
  pid == 0 || pm.has pid || (decide (0x10 ≤ pid ∧ pid ≤ 0x14) || decide (0x1e ≤ pid ∧ pid ≤ 0x1f))

/-- `PSIData.toData` -/
def psiToData (d : PSIData) (fp : Packet) (pid : Nat) : List DemuxerData :=
  (d.sections.map fun s =>
    match s.syn with
    | none => []
    | some syn => match syn.data, s.header with
      | some sd, some h =>
        let t := h.tableID
        let base : DemuxerData := { firstPacket := some fp, pid := pid }
        (if t = 0x40 ∨ t = 0x41 then [{ base with nit := sd.nit }]
         else if t = 0 then [{ base with pat := sd.pat }]
         else if t = 2 then [{ base with pmt := sd.pmt }]
         else if t = 0x42 ∨ t = 0x46 then [{ base with sdt := sd.sdt }]
         else if t = 0x73 then [{ base with tot := sd.tot }]
         else [])
        ++ (if isEIT t then [{ base with eit := sd.eit }] else [])
      | _, _ => []).flatten

/-- the custom PacketsParser kinds the harness can install -/
inductive ParserKind where
  | none | observer | replacer | failing
  /-- takes the unit over (skip = true) and returns no data at all -/
  | dropper
  deriving Repr, DecidableEq, Inhabited

def replacerData (ps : List Packet) : DemuxerData :=
  { pid := (ps.headD default).header.pid, pes := some { data := [ps.length % 256] } }

/-- `parseData(ps, prs, pm)` for a non-empty group -/
def parseData (ps : List Packet) (prs : ParserKind) (pm : ProgramMap) : Res (List DemuxerData) :=
  match prs with
  | .failing => .err .parser
  | .replacer => .ok [replacerData ps]
  | .dropper => .ok []
  | _ =>
    let payload := concatPayload ps
    let p0 := ps.headD default
    let pid := p0.header.pid
    let fp : Packet := { adaptationField := p0.adaptationField, header := p0.header, payload := [] }
    if pid == 1 then .ok []
    else if isPSIPayload pid pm then
      match parsePSIData.val payload with
      | .ok d => .ok (psiToData d fp pid)
      | .err _ => .err .other
      | .panic => .panic
    else if isPESPayload payload then
      match parsePESData.val payload with
      | .ok d => .ok [{ firstPacket := some fp, pes := some d, pid := pid }]
      | .err _ => .err .other
      | .panic => .panic
    else .ok []

/-! ### the reader (io.Reader contract) -/

inductive ReaderKind where
  | seek | bufio | plain
  /-- a bufio.Reader whose buffer is smaller than the 193 bytes auto-detection wants to peek: handled like a plain reader -/
  | bufioSmall
  deriving Repr, DecidableEq, Inhabited

structure Reader where
  data : Bytes
  pos : Nat := 0
  kind : ReaderKind := .seek
  /-- a `Read` issued when the position equals this offset fails with the injected cause -/
  faultAt : Option Nat := none
  faultOnce : Bool := true
  faultDone : Bool := false
  deriving Repr, Inhabited

inductive ReadErr where
  | eof | unexpectedEOF | injected
  deriving Repr, DecidableEq

def Reader.faultActive (r : Reader) : Option Nat :=
  if r.faultDone then none else r.faultAt

/-- `io.ReadFull(r, buf)` with `len(buf) = n`, `n > 0`: the bytes read, the error, the reader afterwards.
Independent of how the reader fragments the bytes (see Proofs/ReadFull.lean). -/
def Reader.readFull (r : Reader) (n : Nat) : Bytes × Option ReadErr × Reader :=
  let avail := r.data.length - r.pos
  match r.faultActive with
  | some f =>
    if r.pos ≤ f ∧ f < r.pos + n ∧ f ≤ r.data.length then
      -- the fault is hit before n bytes are available
      ((r.data.drop r.pos).take (f - r.pos), some .injected,
        { r with pos := f, faultDone := r.faultOnce })
    else if avail ≥ n then ((r.data.drop r.pos).take n, none, { r with pos := r.pos + n })
    else if avail = 0 then ([], some .eof, r)
    else (r.data.drop r.pos, some .unexpectedEOF, { r with pos := r.data.length })
  | none =>
    if avail ≥ n then ((r.data.drop r.pos).take n, none, { r with pos := r.pos + n })
    else if avail = 0 then ([], some .eof, r)
    else (r.data.drop r.pos, some .unexpectedEOF, { r with pos := r.data.length })

/-! ### packet buffer (packet_buffer.go) -/

def padTo (bs : Bytes) (n : Nat) : Bytes := bs ++ List.replicate (n - bs.length) 0

/-- first index ≥ 188 holding a sync byte among the first 193 bytes -/
def findSync (b : Bytes) : Option Nat :=
  ((List.range 193).filter fun idx => idx ≥ 188 && b.getD idx 0 == syncByte).head?

/-- `autoDetectPacketSize(r)`: the packet size or an error, and the reader afterwards -/
def autoDetectPacketSize (r : Reader) : Res Nat × Reader :=
  let l := 193
  -- peek
  let (b, perr, r1, shouldRewind) : Bytes × Option Err × Reader × Bool :=
    match r.kind with
    | .bufio =>
      -- bufio.Reader.Peek: nothing is consumed; a pending fault surfaces only if fewer than l bytes are available
      let avail := r.data.length - r.pos
      let bs := (r.data.drop r.pos).take l
      (match r.faultActive with
       | some f =>
         if r.pos ≤ f ∧ f < r.pos + l ∧ f ≤ r.data.length then
           ([], some Err.io, { r with faultDone := r.faultOnce }, false)
         else if avail = 0 then ([], some Err.eof, r, false) else (padTo bs l, none, r, false)
       | none => if avail = 0 then ([], some Err.eof, r, false) else (padTo bs l, none, r, false))
    | _ =>
      let (bs, e, r') := r.readFull l
      (match e with
       | some .injected => ([], some Err.io, r', true)
       | some .eof => ([], some Err.eof, r', true)
       | _ => (padTo bs l, none, r', true))
  match perr with
  | some e => (.err e, r1)
  | none =>
    -- a failed detection consumes what it examined (bufio: Discard), so the next attempt makes progress
    let consumed : Reader := if r.kind = .bufio then { r1 with pos := min r1.data.length (r1.pos + l) } else r1
    if b.getD 0 0 ≠ syncByte then (.err .sync, consumed)
    else match findSync b with
      | none => (.err .other, consumed)
      | some size =>
        if !shouldRewind then (.ok size, r1)
        else match r.kind with
          | .seek => (.ok size, { r1 with pos := 0 })
          | _ =>
            -- cannot rewind: read up to the next packet boundary (the first two packets are lost)
            let ls := size - (l - size)
            let (_, e, r2) := r1.readFull ls
            (match e with
             | none => (.ok size, r2)
             | some .injected => (.err .io, r2)
             | some _ => (.err .other, r2))

/-! ### demuxer (demuxer.go) -/

/-- PacketSkipper: none, a pure predicate on header/AF, or a script of decisions (one per consulted
packet, in stream order; exhausted script = keep) modelling any stateful predicate -/
inductive Skipper where
  | none
  | pred (f : Packet → Bool)
  | script (ds : List Bool)

instance : Inhabited Skipper := ⟨.none⟩

structure Demux where
  r : Reader
  optPacketSize : Nat := 0
  skipper : Skipper := .none
  parser : ParserKind := .none
  packetSize : Option Nat := none      -- packetBuffer (nil = not created yet)
  pool : Pool := []
  programMap : ProgramMap := []
  dataBuffer : List DemuxerData := []
  /-- log of the PacketSkipper consultations (the packets it was shown) -/
  skipLog : List Packet := []
  /-- log of the PacketsParser calls (PID, continuity counters of the group) -/
  parserLog : List (Nat × List Nat) := []
  skipIdx : Nat := 0
  deriving Inhabited

def Demux.consultSkipper (d : Demux) (p : Packet) : Bool × Demux :=
  match d.skipper with
  | .none => (false, d)
  | .pred f => (f p, { d with skipLog := d.skipLog ++ [p] })
  | .script ds => (ds.getD d.skipIdx false, { d with skipLog := d.skipLog ++ [p], skipIdx := d.skipIdx + 1 })

/-- `packetBuffer.next()`: loop over skipped packets; `fuel` bounds the iterations by the input length -/
def Demux.bufferNext (d : Demux) (size : Nat) : Nat → Res Packet × Demux
  | 0 => (.err .other, d)
  | fuel + 1 =>
    let (bs, e, r') := d.r.readFull size
    let d := { d with r := r' }
    match e with
    | some .injected => (.err .io, d)
    | some _ => (.err .eof, d)
    | none =>
      -- parse header and adaptation field first, consult the skipper, then extract the payload
      match (parsePacket none).val bs with
      | .ok p =>
        let shown : Packet := { p with payload := [] }
        let (skip, d) := d.consultSkipper shown
        if skip then d.bufferNext size fuel else (.ok p, d)
      | .err e => (.err (if e = .sync then .sync else .other), d)
      | .panic => (.panic, d)

/-- `Demuxer.NextPacket` -/
def Demux.nextPacket (d : Demux) : Res Packet × Demux :=
  let (sz, d) : Res Nat × Demux :=
    match d.packetSize with
    | some s => (.ok s, d)
    | none =>
      if d.optPacketSize ≠ 0 then (.ok d.optPacketSize, { d with packetSize := some d.optPacketSize })
      else
        let (res, r') := autoDetectPacketSize d.r
        match res with
        | .ok s => (.ok s, { d with r := r', packetSize := some s })
        | .err e => (.err e, { d with r := r' })
        | .panic => (.panic, { d with r := r' })
  match sz with
  | .ok s => d.bufferNext s (d.r.data.length + 2)
  | .err e => (.err e, d)
  | .panic => (.panic, d)

/-- `Demuxer.updateData` -/
def Demux.updateData (d : Demux) (ds : List DemuxerData) : Option DemuxerData × Demux :=
  match ds with
  | [] => (none, d)
  | x :: rest =>
    let pm := ds.foldl (fun pm v => match v.pat with
      | some pat => pat.programs.foldl (fun pm pg => if pg.programNumber > 0 then pm.set pg.programMapID pg.programNumber else pm) pm
      | none => pm) d.programMap
    (some x, { d with dataBuffer := d.dataBuffer ++ rest, programMap := pm })

def Demux.logParser (d : Demux) (ps : List Packet) : Demux :=
  if d.parser = .none then d
  else { d with parserLog := d.parserLog ++ [((ps.headD default).header.pid, ps.map (·.header.continuityCounter))] }

/-- the EOF drain of `NextData` -/
def Demux.drain (d : Demux) : Nat → Res DemuxerData × Demux
  | 0 => (.err .eof, d)
  | fuel + 1 =>
    let (ps, pool') := poolDump d.pool
    let d := { d with pool := pool' }
    if ps.isEmpty then (.err .eof, d)
    else
      let d := d.logParser ps
      match parseData ps d.parser d.programMap with
      | .ok ds =>
        let (x, d) := d.updateData ds
        (match x with
         | some x => (.ok x, d)
         | none => d.drain fuel)
      | .err _ => d.drain fuel      -- logged, not returned
      | .panic => (.panic, d)

/-- the packet loop of `NextData` -/
def Demux.dataLoop (d : Demux) : Nat → Res DemuxerData × Demux
  | 0 => (.err .other, d)
  | fuel + 1 =>
    let (rp, d) := d.nextPacket
    match rp with
    | .err .eof => d.drain (d.pool.length + 1)
    | .err e => (.err e, d)
    | .panic => (.panic, d)
    | .ok p =>
      let (ps, pool') := poolAdd d.programMap d.pool p
      let d := { d with pool := pool' }
      if ps.isEmpty then d.dataLoop fuel
      else
        let d := d.logParser ps
        match parseData ps d.parser d.programMap with
        | .err e => (.err e, d)
        | .panic => (.panic, d)
        | .ok ds =>
          let (x, d) := d.updateData ds
          match x with
          | some x => (.ok x, d)
          | none => d.dataLoop fuel

/-- `Demuxer.NextData` -/
def Demux.nextData (d : Demux) : Res DemuxerData × Demux :=
  match d.dataBuffer with
  | x :: rest => (.ok x, { d with dataBuffer := rest })
  | [] => d.dataLoop (d.r.data.length + 2)

/-- `Demuxer.Rewind`: returned offset (−1 when the reader cannot seek) -/
def Demux.rewind (d : Demux) : Int × Demux :=
  let d := { d with dataBuffer := [], packetSize := none, pool := [] }
  match d.r.kind with
  | .seek => (0, { d with r := { d.r with pos := 0 } })
  | _ => (-1, d)

end Astits
