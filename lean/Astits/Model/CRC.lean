/-
M1 — model of crc32.go: table-driven, MSB-first CRC over 32-bit words.  The table of the model is
*computed* from the bitwise definition, so the model does not depend on the Go table; the Go table
is regenerated into `Generated/CRCTable.lean` and tied by `Proofs/CRC.lean` (`table_correct`).
-/
import Astits.Basic
namespace Astits

/-- one LFSR step, MSB first, polynomial 0x04C11DB7 -/
def crcBit (c : BitVec 32) : BitVec 32 :=
  if c.msb then (c <<< 1) ^^^ 0x04C11DB7#32 else c <<< 1

def crcBits8 (c : BitVec 32) : BitVec 32 :=
  crcBit (crcBit (crcBit (crcBit (crcBit (crcBit (crcBit (crcBit c)))))))

/-- table entry `i` = eight LFSR steps applied to `i` placed in the top byte -/
def crcTableEntry (i : BitVec 32) : BitVec 32 := crcBits8 (i <<< 24)

/-- body of the loop in `updateCRC32`:
`crc32 = (crc32 << 8) ^ tableCRC32[((crc32>>24)^uint32(b))&0xff]` -/
def crcStep (c : BitVec 32) (b : Nat) : BitVec 32 :=
  (c <<< 8) ^^^ crcTableEntry (((c >>> 24) ^^^ BitVec.ofNat 32 b) &&& 0xff#32)

def updateCRC32 (c : BitVec 32) (bs : Bytes) : BitVec 32 := bs.foldl crcStep c

def crcInit : BitVec 32 := 0xffffffff#32

def computeCRC32 (bs : Bytes) : BitVec 32 := updateCRC32 crcInit bs

def be32 (c : BitVec 32) : Bytes := beBytes 4 c.toNat

end Astits
