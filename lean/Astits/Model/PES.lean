/-
M3 — model of data_pes.go and clock_reference.go: PES header / optional header parsing and writing,
PTS/DTS, ESCR, DSM trick mode, payload boundaries, length calculators, `ClockReference.Duration`.
-/
import Astits.Model.Packet
namespace Astits

structure DSMTrickMode where
  fieldID : Nat := 0
  frequencyTruncation : Nat := 0
  intraSliceRefresh : Nat := 0
  repeatControl : Nat := 0
  trickModeControl : Nat := 0
  deriving Repr, DecidableEq, Inhabited

def DSMTrickMode.toJson (m : DSMTrickMode) : String :=
  jobj [("FieldID", jnat m.fieldID), ("FrequencyTruncation", jnat m.frequencyTruncation),
    ("IntraSliceRefresh", jnat m.intraSliceRefresh), ("RepeatControl", jnat m.repeatControl),
    ("TrickModeControl", jnat m.trickModeControl)]

structure PESOptionalHeader where
  additionalCopyInfo : Nat := 0
  crc : Nat := 0
  dataAlignmentIndicator : Bool := false
  dsmTrickMode : Option DSMTrickMode := none
  dts : Option ClockReference := none
  escr : Option ClockReference := none
  esRate : Nat := 0
  extension2Data : Bytes := []
  extension2Length : Nat := 0
  hasAdditionalCopyInfo : Bool := false
  hasCRC : Bool := false
  hasDSMTrickMode : Bool := false
  hasESCR : Bool := false
  hasESRate : Bool := false
  hasExtension : Bool := false
  hasExtension2 : Bool := false
  hasOptionalFields : Bool := false
  hasPackHeaderField : Bool := false
  hasPrivateData : Bool := false
  hasProgramPacketSequenceCounter : Bool := false
  hasPSTDBuffer : Bool := false
  headerLength : Nat := 0
  isCopyrighted : Bool := false
  isOriginal : Bool := false
  markerBits : Nat := 0
  mpeg1OrMPEG2ID : Nat := 0
  originalStuffingLength : Nat := 0
  packetSequenceCounter : Nat := 0
  packField : Nat := 0
  priority : Bool := false
  privateData : Bytes := []
  pstdBufferScale : Nat := 0
  pstdBufferSize : Nat := 0
  pts : Option ClockReference := none
  ptsDTSIndicator : Nat := 0
  scramblingControl : Nat := 0
  deriving Repr, DecidableEq, Inhabited

def PESOptionalHeader.toJson (h : PESOptionalHeader) : String :=
  jobj [("AdditionalCopyInfo", jnat h.additionalCopyInfo), ("CRC", jnat h.crc),
    ("DataAlignmentIndicator", jbool h.dataAlignmentIndicator), ("DSMTrickMode", jopt DSMTrickMode.toJson h.dsmTrickMode),
    ("DTS", jopt ClockReference.toJson h.dts), ("ESCR", jopt ClockReference.toJson h.escr), ("ESRate", jnat h.esRate),
    ("Extension2Data", jhex h.extension2Data), ("Extension2Length", jnat h.extension2Length),
    ("HasAdditionalCopyInfo", jbool h.hasAdditionalCopyInfo), ("HasCRC", jbool h.hasCRC),
    ("HasDSMTrickMode", jbool h.hasDSMTrickMode), ("HasESCR", jbool h.hasESCR), ("HasESRate", jbool h.hasESRate),
    ("HasExtension", jbool h.hasExtension), ("HasExtension2", jbool h.hasExtension2),
    ("HasOptionalFields", jbool h.hasOptionalFields), ("HasPackHeaderField", jbool h.hasPackHeaderField),
    ("HasPrivateData", jbool h.hasPrivateData),
    ("HasProgramPacketSequenceCounter", jbool h.hasProgramPacketSequenceCounter),
    ("HasPSTDBuffer", jbool h.hasPSTDBuffer), ("HeaderLength", jnat h.headerLength),
    ("IsCopyrighted", jbool h.isCopyrighted), ("IsOriginal", jbool h.isOriginal), ("MarkerBits", jnat h.markerBits),
    ("MPEG1OrMPEG2ID", jnat h.mpeg1OrMPEG2ID), ("OriginalStuffingLength", jnat h.originalStuffingLength),
    ("PacketSequenceCounter", jnat h.packetSequenceCounter), ("PackField", jnat h.packField),
    ("Priority", jbool h.priority), ("PrivateData", jhex h.privateData), ("PSTDBufferScale", jnat h.pstdBufferScale),
    ("PSTDBufferSize", jnat h.pstdBufferSize), ("PTS", jopt ClockReference.toJson h.pts),
    ("PTSDTSIndicator", jnat h.ptsDTSIndicator), ("ScramblingControl", jnat h.scramblingControl)]

structure PESHeader where
  optionalHeader : Option PESOptionalHeader := none
  packetLength : Nat := 0
  streamID : Nat := 0
  deriving Repr, DecidableEq, Inhabited

def PESHeader.toJson (h : PESHeader) : String :=
  jobj [("OptionalHeader", jopt PESOptionalHeader.toJson h.optionalHeader), ("PacketLength", jnat h.packetLength),
    ("StreamID", jnat h.streamID)]

structure PESData where
  data : Bytes := []
  header : PESHeader := {}
  deriving Repr, DecidableEq, Inhabited

def PESData.toJson (d : PESData) : String :=
  jobj [("Data", jhex d.data), ("Header", d.header.toJson)]

def pesHeaderLength : Nat := 6
def escrLength : Nat := 6

def hasPESOptionalHeader (streamID : Nat) : Bool := streamID != 190 && streamID != 191
def isVideoStream (streamID : Nat) : Bool := streamID == 0xe0 || streamID == 0xfd

/-! ### parsing -/

/-- `parseDSMTrickMode` -/
def parseDSMTrickMode (i : Nat) : DSMTrickMode :=
  let tmc := i / 32 % 8
  if tmc = 0 ∨ tmc = 3 then
    { trickModeControl := tmc, fieldID := i / 8 % 4, intraSliceRefresh := i / 4 % 2, frequencyTruncation := i % 4 }
  else if tmc = 2 then { trickModeControl := tmc, fieldID := i / 8 % 4 }
  else if tmc = 1 ∨ tmc = 4 then { trickModeControl := tmc, repeatControl := i % 32 }
  else { trickModeControl := tmc }

/-- 42-bit ESCR value from six bytes (33-bit base and 9-bit extension interleaved with marker bits) -/
def escrOfBytes (bs : Bytes) : ClockReference :=
  let b0 := bs.getD 0 0; let b1 := bs.getD 1 0; let b2 := bs.getD 2 0
  let b3 := bs.getD 3 0; let b4 := bs.getD 4 0; let b5 := bs.getD 5 0
  let v := (b0 / 8 % 8) * 549755813888 + (b0 % 4) * 137438953472 + b1 * 536870912 + (b2 / 8) * 16777216
    + (b2 % 4) * 4194304 + b3 * 16384 + (b4 / 8) * 512 + (b4 % 4) * 128 + b5 / 2
  { base := (v / 512 : Nat), extension := (v % 512 : Nat) }

def parseESCR : P ClockReference := do
  let bs ← It.nextBytes 6
  return escrOfBytes bs

/-- `parsePESOptionalHeader`: the header and the offset where the payload starts -/
def parsePESOptionalHeader : P (PESOptionalHeader × Int) := do
  let b ← It.nextByte
  let f ← It.nextByte
  let hl ← It.nextByte
  let off ← It.offset
  let dataStart := off + hl
  let ind := f / 64 % 4
  let hasESCR := f / 32 % 2 = 1
  let hasESRate := f / 16 % 2 = 1
  let hasDSM := f / 8 % 2 = 1
  let hasACI := f / 4 % 2 = 1
  let hasCRC := f / 2 % 2 = 1
  let hasExt := f % 2 = 1
  let pts ← optP (ind = 2 ∨ ind = 3) parsePTSOrDTS
  let dts ← optP (ind = 3) parsePTSOrDTS
  let escr ← optP hasESCR parseESCR
  let esRate ← (if hasESRate then do
      let bs ← It.nextBytes 3
      pure ((bs.getD 0 0 % 128) * 32768 + bs.getD 1 0 * 128 + bs.getD 2 0 / 2)
    else pure 0 : P Nat)
  let dsm ← optP hasDSM (do let b ← It.nextByte; pure (parseDSMTrickMode b))
  let aci ← (if hasACI then do let b ← It.nextByte; pure (b % 128) else pure 0 : P Nat)
  let crc ← (if hasCRC then do
      let bs ← It.nextBytes 2
      pure (bs.getD 0 0 * 256 + bs.getD 1 0)
    else pure 0 : P Nat)
  let h : PESOptionalHeader :=
    { additionalCopyInfo := aci, crc := crc, dataAlignmentIndicator := b / 4 % 2 = 1, dsmTrickMode := dsm,
      dts := dts, escr := escr, esRate := esRate, hasAdditionalCopyInfo := hasACI, hasCRC := hasCRC,
      hasDSMTrickMode := hasDSM, hasESCR := hasESCR, hasESRate := hasESRate, hasExtension := hasExt,
      headerLength := hl, isCopyrighted := b / 2 % 2 = 1, isOriginal := b % 2 = 1, markerBits := b / 64,
      priority := b / 8 % 2 = 1, pts := pts, ptsDTSIndicator := ind, scramblingControl := b / 16 % 4 }
  if hasExt then
    let e ← It.nextByte
    let hasPriv := e / 128 % 2 = 1
    let hasPack := e / 64 % 2 = 1
    let hasPSC := e / 32 % 2 = 1
    let hasPSTD := e / 16 % 2 = 1
    let hasExt2 := e % 2 = 1
    let priv ← (if hasPriv then It.nextBytes 16 else pure [] : P Bytes)
    let pack ← (if hasPack then It.nextByte else pure 0 : P Nat)
    let (psc, mid, osl) ← (if hasPSC then do
        let bs ← It.nextBytes 2
        pure (bs.getD 0 0 % 128, bs.getD 1 0 / 64 % 2, bs.getD 1 0 % 64)
      else pure (0, 0, 0) : P (Nat × Nat × Nat))
    let (scale, size) ← (if hasPSTD then do
        let bs ← It.nextBytes 2
        pure (bs.getD 0 0 / 32 % 2, (bs.getD 0 0 % 32) * 256 + bs.getD 1 0)
      else pure (0, 0) : P (Nat × Nat))
    let (e2l, e2d) ← (if hasExt2 then do
        let b ← It.nextByte
        let d ← It.nextBytes (b % 128 : Nat)
        pure (b % 128, d)
      else pure (0, []) : P (Nat × Bytes))
    return ({ h with hasPrivateData := hasPriv, hasPackHeaderField := hasPack,
                     hasProgramPacketSequenceCounter := hasPSC, hasPSTDBuffer := hasPSTD, hasExtension2 := hasExt2,
                     privateData := priv, packField := pack, packetSequenceCounter := psc, mpeg1OrMPEG2ID := mid,
                     originalStuffingLength := osl, pstdBufferScale := scale, pstdBufferSize := size,
                     extension2Length := e2l, extension2Data := e2d }, dataStart)
  else
    return (h, dataStart)

/-- `parsePESHeader`: header, dataStart, dataEnd -/
def parsePESHeader : P (PESHeader × Int × Int) := do
  let sid ← It.nextByte
  let bs ← It.nextBytes 2
  let pl := bs.getD 0 0 * 256 + bs.getD 1 0
  let off ← It.offset
  let l ← It.len
  let dataEnd : Int := if pl > 0 then off + pl else l
  if hasPESOptionalHeader sid then
    let (oh, ds) ← parsePESOptionalHeader
    return ({ optionalHeader := some oh, packetLength := pl, streamID := sid }, ds, dataEnd)
  else
    let ds ← It.offset
    return ({ optionalHeader := none, packetLength := pl, streamID := sid }, ds, dataEnd)

/-- `parsePESData` -/
def parsePESData : P PESData := do
  It.seek 3
  let (h, dataStart, dataEnd) ← parsePESHeader
  if dataEnd < dataStart then P.fail
  else
    It.seek dataStart
    let d ← It.nextBytes (dataEnd - dataStart)
    return { data := d, header := h }

/-- `isPESPayload` -/
def isPESPayload (bs : Bytes) : Bool :=
  decide (3 ≤ bs.length) && (bs.getD 0 0 * 65536 + bs.getD 1 0 * 256 + bs.getD 2 0 == 1)

/-! ### writing -/

/-- `calcPESOptionalHeaderDataLength` (uint8) -/
def calcPESOptionalHeaderDataLength (h : PESOptionalHeader) : Nat :=
  ((if h.ptsDTSIndicator = 2 then 5 else if h.ptsDTSIndicator = 3 then 10 else 0)
   + (if h.hasESCR then 6 else 0) + (if h.hasESRate then 3 else 0) + (if h.hasDSMTrickMode then 1 else 0)
   + (if h.hasAdditionalCopyInfo then 1 else 0)
   + (if h.hasExtension then
        1 + (if h.hasPrivateData then 16 else 0) + (if h.hasProgramPacketSequenceCounter then 2 else 0)
          + (if h.hasPSTDBuffer then 2 else 0) + (if h.hasExtension2 then 1 + h.extension2Data.length % 256 else 0)
      else 0)) % 256

/-- `calcPESOptionalHeaderLength` (uint8; 0 for nil) -/
def calcPESOptionalHeaderLength (h : Option PESOptionalHeader) : Nat :=
  match h with
  | none => 0
  | some h => (3 + calcPESOptionalHeaderDataLength h) % 256

def dsmBytes (m : DSMTrickMode) : Bytes :=
  let tmc := m.trickModeControl
  if tmc = 0 ∨ tmc = 3 then
    packFields [(tmc, 3), (m.fieldID, 2), (b2n (m.intraSliceRefresh == 1), 1), (m.frequencyTruncation, 2)]
  else if tmc = 2 then packFields [(tmc, 3), (m.fieldID, 2), (7, 3)]
  else if tmc = 1 ∨ tmc = 4 then packFields [(tmc, 3), (m.repeatControl, 5)]
  else packFields [(tmc, 3), (0x1f, 5)]

def escrBytes (c : ClockReference) : Bytes :=
  packFields [(3, 2), (lowBits (c.base / 1073741824) 3, 3), (1, 1), (lowBits (c.base / 32768) 15, 15), (1, 1),
    (lowBits c.base 15, 15), (1, 1), (lowBits c.extension 9, 9), (1, 1)]

/-- `WriteBytesN(bs, n, pad)` -/
def bytesN (bs : Bytes) (n : Nat) (pad : Nat) : Bytes :=
  if bs.length ≥ n then bs.take n else bs ++ List.replicate (n - bs.length) pad

/-- `writePESOptionalHeader` for a non-nil header -/
def pesOptionalHeaderBytes (h : PESOptionalHeader) : Bytes :=
  packFields [(2, 2), (h.scramblingControl, 2), (b2n h.priority, 1), (b2n h.dataAlignmentIndicator, 1),
      (b2n h.isCopyrighted, 1), (b2n h.isOriginal, 1)]
  ++ packFields [(h.ptsDTSIndicator, 2), (b2n h.hasESCR, 1), (b2n h.hasESRate, 1), (b2n h.hasDSMTrickMode, 1),
      (b2n h.hasAdditionalCopyInfo, 1), (0, 1), (b2n h.hasExtension, 1)]
  ++ [calcPESOptionalHeaderDataLength h]
  ++ (if h.ptsDTSIndicator = 2 then ptsBytes 2 (h.pts.getD default) else [])
  ++ (if h.ptsDTSIndicator = 3 then ptsBytes 3 (h.pts.getD default) ++ ptsBytes 1 (h.dts.getD default) else [])
  ++ (if h.hasESCR then escrBytes (h.escr.getD default) else [])
  ++ (if h.hasESRate then packFields [(1, 1), (h.esRate, 22), (1, 1)] else [])
  ++ (if h.hasDSMTrickMode then dsmBytes (h.dsmTrickMode.getD default) else [])
  ++ (if h.hasAdditionalCopyInfo then packFields [(1, 1), (h.additionalCopyInfo, 7)] else [])
  ++ (if h.hasExtension then
        packFields [(b2n h.hasPrivateData, 1), (0, 1), (b2n h.hasProgramPacketSequenceCounter, 1),
          (b2n h.hasPSTDBuffer, 1), (7, 3), (b2n h.hasExtension2, 1)]
        ++ (if h.hasPrivateData then bytesN h.privateData 16 0 else [])
        ++ (if h.hasProgramPacketSequenceCounter then
              packFields [(1, 1), (h.packetSequenceCounter, 7), (1, 1), (h.mpeg1OrMPEG2ID, 1), (h.originalStuffingLength, 6)]
            else [])
        ++ (if h.hasPSTDBuffer then packFields [(1, 2), (h.pstdBufferScale, 1), (h.pstdBufferSize, 13)] else [])
        ++ (if h.hasExtension2 then packFields [(1, 1), (h.extension2Data.length, 7)] ++ h.extension2Data else [])
      else [])

/-- nil dereferences Go would hit while writing this optional header -/
def pesOptNilDeref (h : PESOptionalHeader) : Bool :=
  ((h.ptsDTSIndicator = 2 ∨ h.ptsDTSIndicator = 3) && h.pts.isNone) || (h.ptsDTSIndicator = 3 && h.dts.isNone)
  || (h.hasESCR && h.escr.isNone) || (h.hasDSMTrickMode && h.dsmTrickMode.isNone)

/-- PES_packet_length as computed by `writePESHeader` -/
def pesPacketLengthFor (h : PESHeader) (payloadSize : Nat) : Nat :=
  if isVideoStream h.streamID then 0
  else
    let l := payloadSize + (if hasPESOptionalHeader h.streamID then calcPESOptionalHeaderLength h.optionalHeader else 0)
    if l > 0xffff then 0 else l

/-- `writePESHeader` -/
def pesHeaderBytes (h : PESHeader) (payloadSize : Nat) : Bytes :=
  [0, 0, 1, h.streamID % 256] ++ beBytes 2 (pesPacketLengthFor h payloadSize)
  ++ (if hasPESOptionalHeader h.streamID then
        (match h.optionalHeader with | some oh => pesOptionalHeaderBytes oh | none => [])
      else [])

/-- `writePESData(w, h, payloadLeft, isPayloadStart, bytesAvailable)`: bytes, total, payload bytes.
A negative payload slice bound is a Go panic. -/
def writePESData (h : PESHeader) (payloadLeft : Bytes) (isPayloadStart : Bool) (bytesAvailable : Int) :
    Res (Bytes × Nat × Nat) :=
  if isPayloadStart ∧ hasPESOptionalHeader h.streamID ∧ (h.optionalHeader.map pesOptNilDeref).getD false then .panic
  else
    let hdr := if isPayloadStart then pesHeaderBytes h payloadLeft.length else []
    let n : Int := bytesAvailable - hdr.length
    if n < 0 then .panic
    else
      let k := min n.toNat payloadLeft.length
      .ok (hdr ++ payloadLeft.take k, hdr.length + k, k)

/-- `ClockReference.Duration()` in nanoseconds (int64 arithmetic, truncated division) -/
def ClockReference.duration (c : ClockReference) : Int :=
  Int.tdiv (c.base * 1000000000) 90000 + Int.tdiv (c.extension * 1000000000) 27000000

end Astits
