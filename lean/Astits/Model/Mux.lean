/-
M9 — model of muxer.go and wrapping_counter.go: stream table, PCR PID, automatic PIDs, PAT/PMT
generation with version numbers and continuity counters, table retransmission, `WriteData`
packetisation, `WritePacket`.  Output = what is handed to the io.Writer.
-/
import Astits.Model.Packet
import Astits.Model.PES
import Astits.Model.PSI
namespace Astits

/-! ### wrapping_counter.go -/

structure WrappingCounter where
  value : Nat
  wrapAt : Nat
  deriving Repr, DecidableEq, Inhabited

def newWrappingCounter (wrapAt : Nat) : WrappingCounter := { value := wrapAt + 1, wrapAt := wrapAt }
def WrappingCounter.get (c : WrappingCounter) : Nat := c.value
def WrappingCounter.inc (c : WrappingCounter) : WrappingCounter :=
  if c.value + 1 > c.wrapAt then { c with value := 0 } else { c with value := c.value + 1 }

/-! ### the muxer -/

def startPID : Nat := 0x0100
def pmtStartPID : Nat := 0x1000
def programNumberStart : Nat := 1
def pidNull : Nat := 0x1fff

/-- `StreamType.ToPESStreamID` -/
def toPESStreamID (t : Nat) : Nat :=
  if t = 0x01 ∨ t = 0x02 ∨ t = 0x10 ∨ t = 0x1b ∨ t = 0x24 ∨ t = 0x42 ∨ t = 0xea then 0xe0
  else if t = 0xd1 then 0xfd
  else if t = 0x04 ∨ t = 0x0f ∨ t = 0x11 then 0xc0
  else if t = 0x81 ∨ t = 0x87 then 0xfd
  else if t = 0x05 ∨ t = 0x06 ∨ t = 0x15 then 0xfc
  else 0xbd

structure Mux where
  period : Nat := 40
  streams : List PMTElementaryStream := []
  pcrPID : Nat := 0
  pmUpdated : Bool := true
  pmtUpdated : Bool := false
  nextPID : Nat := startPID
  patVersion : WrappingCounter := newWrappingCounter 31
  pmtVersion : WrappingCounter := newWrappingCounter 31
  patCC : WrappingCounter := newWrappingCounter 15
  pmtCC : WrappingCounter := newWrappingCounter 15
  esCC : List (Nat × WrappingCounter) := []      -- esContexts: PID ↦ continuity counter
  retransmitCounter : Nat := 40
  /-- continuity counters of removed streams: a PID that is added again continues its counter -/
  removedCC : List (Nat × WrappingCounter) := []
  deriving Repr, Inhabited

def newMux (period : Nat := 40) : Mux := { period := period, retransmitCounter := period }

def Mux.ccOf (m : Mux) (pid : Nat) : Option WrappingCounter := (m.esCC.find? (·.1 == pid)).map (·.2)
def Mux.setCC (m : Mux) (pid : Nat) (c : WrappingCounter) : Mux :=
  { m with esCC := m.esCC.map fun e => if e.1 == pid then (pid, c) else e }

/-- `pidInUse`: PIDs that cannot be assigned automatically -/
def Mux.pidInUse (m : Mux) (pid : Nat) : Bool :=
  pid < startPID || pid == pmtStartPID || pid ≥ pidNull || m.esCC.any (·.1 == pid)

/-- next free PID at or after `pid` (uint16 wrap-around); `fuel` = size of the PID space -/
def Mux.nextFree (m : Mux) (pid : Nat) : Nat → Nat
  | 0 => pid
  | fuel + 1 => if m.pidInUse pid then m.nextFree ((pid + 1) % 65536) fuel else pid

/-- counter a (re-)added PID starts from: the one it had when it was removed, or a fresh one -/
def Mux.keptCC (m : Mux) (pid : Nat) : WrappingCounter :=
  ((m.removedCC.find? (·.1 == pid)).map (·.2)).getD (newWrappingCounter 15)

/-- `AddElementaryStream` -/
def Mux.addElementaryStream (m : Mux) (es : PMTElementaryStream) : Res Unit × Mux :=
  if es.elementaryPID ≠ 0 then
    if m.streams.any (·.elementaryPID == es.elementaryPID) then (.err .pidExists, m)
    else
      (.ok (), { m with streams := m.streams ++ [es], esCC := (m.esCC.filter (·.1 != es.elementaryPID)) ++ [(es.elementaryPID, m.keptCC es.elementaryPID)],
                        removedCC := m.removedCC.filter (·.1 != es.elementaryPID), pmtUpdated := true })
  else
    let pid := m.nextFree m.nextPID 65536
    let es := { es with elementaryPID := pid }
    (.ok (), { m with streams := m.streams ++ [es], esCC := m.esCC ++ [(pid, m.keptCC pid)],
                      removedCC := m.removedCC.filter (·.1 != pid), nextPID := (pid + 1) % 65536, pmtUpdated := true })

/-- `RemoveElementaryStream` -/
def Mux.removeElementaryStream (m : Mux) (pid : Nat) : Res Unit × Mux :=
  if m.streams.any (·.elementaryPID == pid) then
    (.ok (), { m with streams := m.streams.filter (·.elementaryPID != pid), esCC := m.esCC.filter (·.1 != pid),
                      removedCC := (m.removedCC.filter (·.1 != pid)) ++ (match m.ccOf pid with | some c => [(pid, c)] | none => []),
                      pmtUpdated := true })
  else (.err .pidNotFound, m)

/-- `SetPCRPID` -/
def Mux.setPCRPID (m : Mux) (pid : Nat) : Mux := { m with pcrPID := pid, pmtUpdated := true }

def Mux.pmtData (m : Mux) : PMTData :=
  { elementaryStreams := m.streams, pcrPID := m.pcrPID, programDescriptors := [], programNumber := programNumberStart }

def patData : PATData := { programs := [{ programMapID := pmtStartPID, programNumber := programNumberStart }], transportStreamID := 0 }

def tablePSI (tableID : Nat) (sectionLength : Nat) (ext version : Nat) (d : PSISectionSyntaxData) : PSIData :=
  { pointerField := 0,
    sections := [{ header := some { sectionLength := sectionLength, sectionSyntaxIndicator := true, tableID := tableID },
                   syn := some { data := some d,
                                 header := some { currentNextIndicator := true, tableIDExtension := ext, versionNumber := version } } }] }

def tablePacket (pid cc : Nat) (payload : Bytes) : Packet :=
  { header := { continuityCounter := cc, hasAdaptationField := false, hasPayload := true, payloadUnitStartIndicator := true,
                pid := pid, transportErrorIndicator := false, transportPriority := false, transportScramblingControl := 0 },
    payload := payload }

/-- `generatePAT`: the 188 PAT bytes and the state (version / counter / dirty flag) -/
def Mux.generatePAT (m : Mux) : Res Bytes × Mux :=
  let pv := if m.pmUpdated then m.patVersion.inc else m.patVersion
  let psi := tablePSI 0 (calcPATSectionLength patData) 0 (pv.get % 256) { pat := some patData }
  match writePSIData psi with
  | .ok payload =>
    let cc := m.patCC.inc
    let m := { m with patVersion := pv, patCC := cc }
    (match writePacket (tablePacket 0 cc.get payload) 188 with
     | .ok bs => (.ok bs, { m with pmUpdated := false })
     | .err e => (.err e, m)
     | .panic => (.panic, m))
  | .err e => (.err e, { m with patVersion := pv })
  | .panic => (.panic, m)

/-- `generatePMT` -/
def Mux.generatePMT (m : Mux) : Res Bytes × Mux :=
  if !(m.streams.any (·.elementaryPID == m.pcrPID)) then (.err .pcrInvalid, m)
  else
    let pv := if m.pmtUpdated then m.pmtVersion.inc else m.pmtVersion
    let pmt := m.pmtData
    let psi := tablePSI 2 (calcPMTSectionLength pmt) pmt.programNumber (pv.get % 256) { pmt := some pmt }
    match writePSIData psi with
    | .ok payload =>
      let cc := m.pmtCC.inc
      let m := { m with pmtVersion := pv, pmtCC := cc }
      (match writePacket (tablePacket pmtStartPID cc.get payload) 188 with
       | .ok bs => (.ok bs, { m with pmtUpdated := false })
       | .err e => (.err e, m)
       | .panic => (.panic, m))
    | .err e => (.err e, { m with pmtVersion := pv })
    | .panic => (.panic, m)

/-- `WriteTables`: chunks handed to the writer (one `Write` per table) and the new state; tables that
cannot be generated consume neither versions nor continuity counters (state rolled back) -/
def Mux.writeTables (m : Mux) : Res (List Bytes) × Mux :=
  match m.generatePAT with
  | (.ok pat, m1) =>
    (match m1.generatePMT with
     | (.ok pmt, m2) => (.ok [pat, pmt], m2)
     | (.err e, _) => (.err e, m)
     | (.panic, _) => (.panic, m))
  | (.err e, _) => (.err e, m)
  | (.panic, _) => (.panic, m)

/-- `retransmitTables(force)` -/
def Mux.retransmitTables (m : Mux) (force : Bool) : Res (List Bytes) × Mux :=
  let m := { m with retransmitCounter := m.retransmitCounter + 1 }
  if !force && m.retransmitCounter < m.period then (.ok [], m)
  else match m.writeTables with
    | (.ok cs, m') => (.ok cs, { m' with retransmitCounter := 0 })
    | (r, m') => (r, m')

structure MuxerData where
  pid : Nat := 0
  adaptationField : Option PacketAdaptationField := none
  pes : PESData := {}
  deriving Repr, Inhabited

def MuxerData.toJson (d : MuxerData) : String :=
  jobj [("PID", jnat d.pid), ("AdaptationField", jopt PacketAdaptationField.toJson d.adaptationField),
    ("PES", d.pes.toJson)]

/-- the packetisation loop of `WriteData`.  State: remaining payload, first-packet flags, the caller's
adaptation field (mutated by the muxer), the continuity counter.  Emits packets as byte strings. -/
def writeDataLoop (pid : Nat) (hdr : PESHeader) : Nat → (data : Bytes) → (payloadStart writeAf : Bool)
    → (af : Option PacketAdaptationField) → (cc : WrappingCounter) → (acc : List Bytes)
    → Res (List Bytes) × WrappingCounter × Option PacketAdaptationField × List Bytes
  | 0, _, _, _, af, cc, acc => (.err .other, cc, af, acc)
  | fuel + 1, data, payloadStart, writeAf, af, cc, acc =>
    if data.isEmpty then (.ok acc, cc, af, acc)
    else
      let pktAF : Option PacketAdaptationField := if writeAf then af else none
      let pktLen : Int := 4 + (if writeAf then 1 + afSize (af.getD default) else 0)
      let bytesAvailable : Int := 188 - pktLen
      let mkHeader (hasAF hasPayload pusi : Bool) (ccv : Nat) : PacketHeader :=
        { continuityCounter := ccv, hasAdaptationField := hasAF, hasPayload := hasPayload,
          payloadUnitStartIndicator := pusi, pid := pid, transportErrorIndicator := false, transportPriority := false,
          transportScramblingControl := 0 }
      let hdrLen : Int := 6 + (calcPESOptionalHeaderLength hdr.optionalHeader : Int)
      if payloadStart ∧ bytesAvailable < hdrLen then
        -- the PES header does not fit behind this adaptation field
        match pktAF with
        | none => (.err .other, cc, af, acc)       -- can never fit: rejected
        | some a =>
          -- adaptation-field-only packet; the continuity counter is not incremented
          let a' := { a with stuffingLength := bytesAvailable }
          let pkt : Packet := { adaptationField := some a', header := mkHeader true false false (cc.get % 16), payload := [] }
          (match writePacket pkt 188 with
           | .ok bs => writeDataLoop pid hdr fuel data payloadStart false (some { a' with stuffingLength := 0 }) cc (acc ++ [bs])
           | .err e => (.err e, cc, some a', acc)
           | .panic => (.panic, cc, some a', acc))
      else
        let cc' := cc.inc
        match writePESData hdr data payloadStart bytesAvailable with
        | .ok (payload, ntot, npayload) =>
          let left : Int := bytesAvailable - ntot
          let (pktAF', af') : Option PacketAdaptationField × Option PacketAdaptationField :=
            if left > 0 then
              (match pktAF with
               | none => (some (newStuffingAF left), af)
               | some a => (some { a with stuffingLength := left }, some { a with stuffingLength := left }))
            else (pktAF, af)
          let pkt : Packet := { adaptationField := pktAF', header := mkHeader (pktAF'.isSome) true payloadStart cc'.get,
                                payload := payload }
          (match writePacket pkt 188 with
           | .ok bs => writeDataLoop pid hdr fuel (data.drop npayload) false false af' cc' (acc ++ [bs])
           | .err e => (.err e, cc', af', acc)
           | .panic => (.panic, cc', af', acc))
        | .err e => (.err e, cc', af, acc)
        | .panic => (.panic, cc', af, acc)

/-- result of a muxer call: returned byte count, error (if any), the chunks handed to the writer -/
structure MuxOut where
  n : Int := 0
  err : Option Err := none
  panic : Bool := false
  chunks : List Bytes := []
  deriving Repr, Inhabited

def chunksLen (cs : List Bytes) : Nat := (cs.map List.length).sum

/-- `WriteData`; also returns the caller's MuxerData as the muxer leaves it (StreamID default,
StuffingLength reset) -/
def Mux.writeData (m : Mux) (d : MuxerData) : MuxOut × Mux × MuxerData :=
  match m.ccOf d.pid with
  | none => ({ err := some .pidNotFound }, m, d)
  | some cc =>
    -- a PES header that can never fit in one packet is rejected before anything is written
    if 6 + calcPESOptionalHeaderLength d.pes.header.optionalHeader > 184 then ({ err := some .other }, m, d) else
    let force := (d.adaptationField.map (·.randomAccessIndicator)).getD false && d.pid == m.pcrPID
    match m.retransmitTables force with
    | (.err e, m1) => ({ err := some e }, m1, d)
    | (.panic, m1) => ({ panic := true }, m1, d)
    | (.ok tcs, m1) =>
      let st := (m1.streams.find? (·.elementaryPID == d.pid)).map (·.streamType) |>.getD 0
      -- the stream id default is applied when the first payload packet is built
      let hdr : PESHeader := if d.pes.header.streamID = 0 then { d.pes.header with streamID := toPESStreamID st } else d.pes.header
      let (r, cc', af', acc) := writeDataLoop d.pid hdr (d.pes.data.length + 2) d.pes.data true d.adaptationField.isSome
        d.adaptationField cc []
      let m2 := m1.setCC d.pid cc'
      let emitted := tcs ++ acc
      -- the stream id is defaulted only if a payload packet was reached
      let reached := cc'.value ≠ cc.value ∨ r.isOk
      let d' : MuxerData := { d with pes := { d.pes with header := if reached ∧ !d.pes.data.isEmpty then hdr else d.pes.header } }
      match r with
      | .ok _ =>
        ({ n := chunksLen emitted, chunks := emitted }, m2,
          { d' with adaptationField := af'.map fun a => { a with stuffingLength := 0 } })
      | .err e => ({ n := chunksLen emitted, err := some e, chunks := emitted }, m2, { d' with adaptationField := af' })
      | .panic => ({ panic := true, chunks := emitted }, m2, d')

/-- `WritePacket` -/
def Mux.writePacketCall (m : Mux) (p : Packet) : MuxOut × Mux :=
  match Astits.writePacket p 188 with
  | .ok bs => ({ n := bs.length, chunks := [bs] }, m)
  | .err e => ({ n := 0, err := some e }, m)
  | .panic => ({ panic := true }, m)

/-- `WriteTables` as an API call -/
def Mux.writeTablesCall (m : Mux) : MuxOut × Mux :=
  match m.writeTables with
  | (.ok cs, m') => ({ n := chunksLen cs, chunks := cs }, m')
  | (.err e, m') => ({ n := 0, err := some e }, m')
  | (.panic, m') => ({ panic := true }, m')

end Astits
