/-
M5 — model of data_psi.go, data_pat.go, data_pmt.go, data_sdt.go, data_nit.go, data_eit.go,
data_tot.go: section header / syntax header, the six table parsers, CRC check, PAT/PMT writers and
length calculators.
-/
import Astits.Model.CRC
import Astits.Model.DVB
import Astits.Model.Desc
namespace Astits

structure PATProgram where
  programMapID : Nat := 0
  programNumber : Nat := 0
  deriving Repr, DecidableEq, Inhabited

structure PATData where
  programs : List PATProgram := []
  transportStreamID : Nat := 0
  deriving Repr, Inhabited

def PATProgram.toJson (p : PATProgram) : String :=
  jobj [("ProgramMapID", jnat p.programMapID), ("ProgramNumber", jnat p.programNumber)]
def PATData.toJson (d : PATData) : String :=
  jobj [("Programs", jarr (d.programs.map PATProgram.toJson)), ("TransportStreamID", jnat d.transportStreamID)]

structure PMTElementaryStream where
  elementaryPID : Nat := 0
  elementaryStreamDescriptors : List Descriptor := []
  streamType : Nat := 0
  deriving Repr, Inhabited

structure PMTData where
  elementaryStreams : List PMTElementaryStream := []
  pcrPID : Nat := 0
  programDescriptors : List Descriptor := []
  programNumber : Nat := 0
  deriving Repr, Inhabited

def PMTElementaryStream.toJson (e : PMTElementaryStream) : String :=
  jobj [("ElementaryPID", jnat e.elementaryPID),
    ("ElementaryStreamDescriptors", jarr (e.elementaryStreamDescriptors.map Descriptor.toJson)),
    ("StreamType", jnat e.streamType)]
def PMTData.toJson (d : PMTData) : String :=
  jobj [("ElementaryStreams", jarr (d.elementaryStreams.map PMTElementaryStream.toJson)), ("PCRPID", jnat d.pcrPID),
    ("ProgramDescriptors", jarr (d.programDescriptors.map Descriptor.toJson)), ("ProgramNumber", jnat d.programNumber)]

structure SDTDataService where
  descriptors : List Descriptor := []
  hasEITPresentFollowing : Bool := false
  hasEITSchedule : Bool := false
  hasFreeCSAMode : Bool := false
  runningStatus : Nat := 0
  serviceID : Nat := 0
  deriving Repr, Inhabited

structure SDTData where
  originalNetworkID : Nat := 0
  services : List SDTDataService := []
  transportStreamID : Nat := 0
  deriving Repr, Inhabited

def SDTDataService.toJson (s : SDTDataService) : String :=
  jobj [("Descriptors", jarr (s.descriptors.map Descriptor.toJson)),
    ("HasEITPresentFollowing", jbool s.hasEITPresentFollowing), ("HasEITSchedule", jbool s.hasEITSchedule),
    ("HasFreeCSAMode", jbool s.hasFreeCSAMode), ("RunningStatus", jnat s.runningStatus), ("ServiceID", jnat s.serviceID)]
def SDTData.toJson (d : SDTData) : String :=
  jobj [("OriginalNetworkID", jnat d.originalNetworkID), ("Services", jarr (d.services.map SDTDataService.toJson)),
    ("TransportStreamID", jnat d.transportStreamID)]

structure NITDataTransportStream where
  originalNetworkID : Nat := 0
  transportDescriptors : List Descriptor := []
  transportStreamID : Nat := 0
  deriving Repr, Inhabited

structure NITData where
  networkDescriptors : List Descriptor := []
  networkID : Nat := 0
  transportStreams : List NITDataTransportStream := []
  deriving Repr, Inhabited

def NITDataTransportStream.toJson (t : NITDataTransportStream) : String :=
  jobj [("OriginalNetworkID", jnat t.originalNetworkID),
    ("TransportDescriptors", jarr (t.transportDescriptors.map Descriptor.toJson)),
    ("TransportStreamID", jnat t.transportStreamID)]
def NITData.toJson (d : NITData) : String :=
  jobj [("NetworkDescriptors", jarr (d.networkDescriptors.map Descriptor.toJson)), ("NetworkID", jnat d.networkID),
    ("TransportStreams", jarr (d.transportStreams.map NITDataTransportStream.toJson))]

structure EITDataEvent where
  descriptors : List Descriptor := []
  duration : Int := 0       -- nanoseconds
  eventID : Nat := 0
  hasFreeCSAMode : Bool := false
  runningStatus : Nat := 0
  startTime : Int := 0      -- Unix seconds
  deriving Repr, Inhabited

structure EITData where
  events : List EITDataEvent := []
  lastTableID : Nat := 0
  originalNetworkID : Nat := 0
  segmentLastSectionNumber : Nat := 0
  serviceID : Nat := 0
  transportStreamID : Nat := 0
  deriving Repr, Inhabited

def EITDataEvent.toJson (e : EITDataEvent) : String :=
  jobj [("Descriptors", jarr (e.descriptors.map Descriptor.toJson)), ("Duration", jint e.duration),
    ("EventID", jnat e.eventID), ("HasFreeCSAMode", jbool e.hasFreeCSAMode), ("RunningStatus", jnat e.runningStatus),
    ("StartTime", jint e.startTime)]
def EITData.toJson (d : EITData) : String :=
  jobj [("Events", jarr (d.events.map EITDataEvent.toJson)), ("LastTableID", jnat d.lastTableID),
    ("OriginalNetworkID", jnat d.originalNetworkID), ("SegmentLastSectionNumber", jnat d.segmentLastSectionNumber),
    ("ServiceID", jnat d.serviceID), ("TransportStreamID", jnat d.transportStreamID)]

structure TOTData where
  descriptors : List Descriptor := []
  utcTime : Int := 0
  deriving Repr, Inhabited

def TOTData.toJson (d : TOTData) : String :=
  jobj [("Descriptors", jarr (d.descriptors.map Descriptor.toJson)), ("UTCTime", jint d.utcTime)]

structure PSISectionHeader where
  privateBit : Bool := false
  sectionLength : Nat := 0
  sectionSyntaxIndicator : Bool := false
  tableID : Nat := 0
  tableType : String := ""
  deriving Repr, Inhabited

def PSISectionHeader.toJson (h : PSISectionHeader) : String :=
  jobj [("PrivateBit", jbool h.privateBit), ("SectionLength", jnat h.sectionLength),
    ("SectionSyntaxIndicator", jbool h.sectionSyntaxIndicator), ("TableID", jnat h.tableID), ("TableType", jstr h.tableType)]

structure PSISectionSyntaxHeader where
  currentNextIndicator : Bool := false
  lastSectionNumber : Nat := 0
  sectionNumber : Nat := 0
  tableIDExtension : Nat := 0
  versionNumber : Nat := 0
  deriving Repr, DecidableEq, Inhabited

def PSISectionSyntaxHeader.toJson (h : PSISectionSyntaxHeader) : String :=
  jobj [("CurrentNextIndicator", jbool h.currentNextIndicator), ("LastSectionNumber", jnat h.lastSectionNumber),
    ("SectionNumber", jnat h.sectionNumber), ("TableIDExtension", jnat h.tableIDExtension),
    ("VersionNumber", jnat h.versionNumber)]

structure PSISectionSyntaxData where
  eit : Option EITData := none
  nit : Option NITData := none
  pat : Option PATData := none
  pmt : Option PMTData := none
  sdt : Option SDTData := none
  tot : Option TOTData := none
  deriving Repr, Inhabited

def PSISectionSyntaxData.toJson (d : PSISectionSyntaxData) : String :=
  jobj [("EIT", jopt EITData.toJson d.eit), ("NIT", jopt NITData.toJson d.nit), ("PAT", jopt PATData.toJson d.pat),
    ("PMT", jopt PMTData.toJson d.pmt), ("SDT", jopt SDTData.toJson d.sdt), ("TOT", jopt TOTData.toJson d.tot)]

structure PSISectionSyntax where
  data : Option PSISectionSyntaxData := none
  header : Option PSISectionSyntaxHeader := none
  deriving Repr, Inhabited

def PSISectionSyntax.toJson (s : PSISectionSyntax) : String :=
  jobj [("Data", jopt PSISectionSyntaxData.toJson s.data), ("Header", jopt PSISectionSyntaxHeader.toJson s.header)]

structure PSISection where
  crc32 : Nat := 0
  header : Option PSISectionHeader := none
  syn : Option PSISectionSyntax := none
  deriving Repr, Inhabited

def PSISection.toJson (s : PSISection) : String :=
  jobj [("CRC32", jnat s.crc32), ("Header", jopt PSISectionHeader.toJson s.header),
    ("Syntax", jopt PSISectionSyntax.toJson s.syn)]

structure PSIData where
  pointerField : Int := 0
  sections : List PSISection := []
  deriving Repr, Inhabited

def PSIData.toJson (d : PSIData) : String :=
  jobj [("PointerField", jint d.pointerField), ("Sections", jarr (d.sections.map PSISection.toJson))]

/-! ### table id predicates -/

def isEIT (t : Nat) : Bool := decide (0x4e ≤ t ∧ t ≤ 0x6f)

def tableType (t : Nat) : String :=
  if t = 0x4a then "BAT" else if isEIT t then "EIT" else if t = 0x7e then "DIT"
  else if t = 0x40 ∨ t = 0x41 then "NIT" else if t = 0xff then "Null" else if t = 0 then "PAT"
  else if t = 2 then "PMT" else if t = 0x71 then "RST" else if t = 0x42 ∨ t = 0x46 then "SDT"
  else if t = 0x7f then "SIT" else if t = 0x72 then "ST" else if t = 0x70 then "TDT"
  else if t = 0x73 then "TOT" else "Unknown"

def hasPSISyntaxHeader (t : Nat) : Bool :=
  t == 0 || t == 2 || t == 0x40 || t == 0x41 || t == 0x42 || t == 0x46 || isEIT t

def hasCRC32 (t : Nat) : Bool :=
  t == 0 || t == 2 || t == 0x73 || t == 0x40 || t == 0x41 || t == 0x42 || t == 0x46 || isEIT t

def isUnknownTable (t : Nat) : Bool :=
  !(t == 0x4a || t == 0x7e || t == 0x40 || t == 0x41 || t == 0xff || t == 0 || t == 2 || t == 0x71 || t == 0x42
    || t == 0x46 || t == 0x7f || t == 0x72 || t == 0x70 || t == 0x73 || isEIT t)

def shouldStopPSIParsing (t : Nat) : Bool := t == 0xff || isUnknownTable t

/-! ### parsing -/

/-- `for i.Offset() < end { body }` collecting results; `fuel` bounds the number of iterations
(every successful iteration consumes at least one byte, so `len + 1` is never exhausted) -/
def loopUntil {α} (fuel : Nat) (endOff : Int) (body : P α) : P (List α) :=
  match fuel with
  | 0 => P.fail
  | fuel + 1 => do
    let off ← It.offset
    if off < endOff then do
      let a ← body
      let r ← loopUntil fuel endOff body
      pure (a :: r)
    else pure []

def fuelOf : P Nat := fun i => .ok (i.bs.length + 1, i)

def u16 (bs : Bytes) : Nat := bs.getD 0 0 * 256 + bs.getD 1 0
def u13 (bs : Bytes) : Nat := (bs.getD 0 0 % 32) * 256 + bs.getD 1 0

def parsePATSection (offsetSectionsEnd : Int) (tableIDExtension : Nat) : P PATData := do
  let fuel ← fuelOf
  let ps ← loopUntil fuel offsetSectionsEnd (do
    let bs ← It.nextBytes 4
    pure ({ programMapID := (bs.getD 2 0 % 32) * 256 + bs.getD 3 0, programNumber := u16 bs } : PATProgram))
  return { programs := ps, transportStreamID := tableIDExtension }

def parsePMTSection (offsetSectionsEnd : Int) (tableIDExtension : Nat) : P PMTData := do
  let bs ← It.nextBytes 2
  let pcr := u13 bs
  let pd ← parseDescriptors
  let fuel ← fuelOf
  let es ← loopUntil fuel offsetSectionsEnd (do
    let st ← It.nextByte
    let bs ← It.nextBytes 2
    let ds ← parseDescriptors
    pure ({ elementaryPID := u13 bs, elementaryStreamDescriptors := ds, streamType := st } : PMTElementaryStream))
  return { elementaryStreams := es, pcrPID := pcr, programDescriptors := pd, programNumber := tableIDExtension }

def parseSDTSection (offsetSectionsEnd : Int) (tableIDExtension : Nat) : P SDTData := do
  let bs ← It.nextBytes 2
  let onid := u16 bs
  It.skip 1
  let fuel ← fuelOf
  let ss ← loopUntil fuel offsetSectionsEnd (do
    let bs ← It.nextBytes 2
    let b ← It.nextByte
    let c ← It.nextByte
    It.skip (-1)
    let ds ← parseDescriptors
    pure ({ descriptors := ds, hasEITPresentFollowing := b % 2 = 1, hasEITSchedule := b / 2 % 2 = 1,
            hasFreeCSAMode := c / 16 % 2 = 1, runningStatus := c / 32, serviceID := u16 bs } : SDTDataService))
  return { originalNetworkID := onid, services := ss, transportStreamID := tableIDExtension }

def parseNITSection (tableIDExtension : Nat) : P NITData := do
  let nd ← parseDescriptors
  let bs ← It.nextBytes 2
  let l := (bs.getD 0 0 % 16) * 256 + bs.getD 1 0
  let off ← It.offset
  let fuel ← fuelOf
  let ts ← loopUntil fuel (off + l) (do
    let a ← It.nextBytes 2
    let b ← It.nextBytes 2
    let ds ← parseDescriptors
    pure ({ originalNetworkID := u16 b, transportDescriptors := ds, transportStreamID := u16 a } : NITDataTransportStream))
  return { networkDescriptors := nd, networkID := tableIDExtension, transportStreams := ts }

def parseEITSection (offsetSectionsEnd : Int) (tableIDExtension : Nat) : P EITData := do
  let a ← It.nextBytes 2
  let b ← It.nextBytes 2
  let slsn ← It.nextByte
  let ltid ← It.nextByte
  let fuel ← fuelOf
  let es ← loopUntil fuel offsetSectionsEnd (do
    let bs ← It.nextBytes 2
    let st ← parseDVBTime
    let du ← parseDVBDurationSeconds
    let c ← It.nextByte
    It.skip (-1)
    let ds ← parseDescriptors
    pure ({ descriptors := ds, duration := du, eventID := u16 bs, hasFreeCSAMode := c / 16 % 2 = 1,
            runningStatus := c / 32, startTime := st } : EITDataEvent))
  return { events := es, lastTableID := ltid, originalNetworkID := u16 b, segmentLastSectionNumber := slsn,
           serviceID := tableIDExtension, transportStreamID := u16 a }

def parseTOTSection : P TOTData := do
  let t ← parseDVBTime
  let ds ← parseDescriptors
  return { descriptors := ds, utcTime := t }

/-- `parsePSISectionSyntaxHeader` -/
def parsePSISectionSyntaxHeader : P PSISectionSyntaxHeader := do
  let bs ← It.nextBytes 2
  let b ← It.nextByte
  let sn ← It.nextByte
  let lsn ← It.nextByte
  return { currentNextIndicator := b % 2 = 1, lastSectionNumber := lsn, sectionNumber := sn,
           tableIDExtension := u16 bs, versionNumber := b % 64 / 2 }

/-- `parsePSISectionSyntaxData`; a table id that needs the syntax header while none was parsed would
be a nil dereference in Go (cannot happen: exactly the ids with a syntax header use it) -/
def parsePSISectionSyntaxData (t : Nat) (sh : Option PSISectionSyntaxHeader) (offsetSectionsEnd : Int) :
    P PSISectionSyntaxData := do
  let ext := (sh.map (·.tableIDExtension)).getD 0
  let needsHeader := t == 0x40 || t == 0x41 || t == 0 || t == 2 || t == 0x42 || t == 0x46 || isEIT t
  if needsHeader && sh.isNone then (fun _ => .panic)
  else
    let d : PSISectionSyntaxData ←
      (if t = 0x40 ∨ t = 0x41 then do let x ← parseNITSection ext; pure { nit := some x }
       else if t = 0 then do let x ← parsePATSection offsetSectionsEnd ext; pure { pat := some x }
       else if t = 2 then do let x ← parsePMTSection offsetSectionsEnd ext; pure { pmt := some x }
       else if t = 0x42 ∨ t = 0x46 then do let x ← parseSDTSection offsetSectionsEnd ext; pure { sdt := some x }
       else if t = 0x73 then do let x ← parseTOTSection; pure { tot := some x }
       else pure {} : P PSISectionSyntaxData)
    if isEIT t then do
      let x ← parseEITSection offsetSectionsEnd ext
      pure { d with eit := some x }
    else pure d

/-- `parsePSISection`: the section and the `stop` flag -/
def parsePSISection : P (PSISection × Bool) := do
  let offsetStart ← It.offset
  let t ← It.nextByte
  if shouldStopPSIParsing t then
    return ({ header := some { tableID := t, tableType := tableType t } }, true)
  else
    let bs ← It.nextBytes 2
    let sl := (bs.getD 0 0 % 16) * 256 + bs.getD 1 0
    let h : PSISectionHeader :=
      { privateBit := bs.getD 0 0 / 64 % 2 = 1, sectionLength := sl, sectionSyntaxIndicator := bs.getD 0 0 / 128 % 2 = 1,
        tableID := t, tableType := tableType t }
    let offsetSectionsStart ← It.offset
    let offsetEnd : Int := offsetSectionsStart + sl
    let offsetSectionsEnd : Int := if hasCRC32 t then offsetEnd - 4 else offsetEnd
    if sl > 0 then
      let sh ← optP (hasPSISyntaxHeader t) parsePSISectionSyntaxHeader
      let d ← parsePSISectionSyntaxData t sh offsetSectionsEnd
      let syn : PSISectionSyntax := { data := some d, header := sh }
      if hasCRC32 t then
        It.seek offsetSectionsEnd
        let cb ← It.nextBytes 4
        let c := beNat cb
        It.seek offsetStart
        let data ← It.nextBytes (offsetSectionsEnd - offsetStart)
        if (computeCRC32 data).toNat ≠ c then P.fail
        else
          It.seek offsetEnd
          return ({ crc32 := c, header := some h, syn := some syn }, false)
      else
        It.seek offsetEnd
        return ({ header := some h, syn := some syn }, false)
    else
      It.seek offsetEnd
      return ({ header := some h }, false)

/-- the section loop of `parsePSIData` -/
def parsePSISections : Nat → P (List PSISection)
  | 0 => P.fail
  | fuel + 1 => do
    let more ← It.hasBytesLeft
    if more then do
      let (s, stop) ← parsePSISection
      if stop then pure [s]
      else do
        let r ← parsePSISections fuel
        pure (s :: r)
    else pure []

/-- `parsePSIData` -/
def parsePSIData : P PSIData := do
  let b ← It.nextByte
  It.skip b
  let fuel ← fuelOf
  let ss ← parsePSISections fuel
  return { pointerField := b, sections := ss }

/-! ### writing (PAT and PMT only) -/

def calcPATSectionLength (d : PATData) : Nat := (4 * d.programs.length) % 65536

def calcPMTSectionLength (d : PMTData) : Nat :=
  (4 + calcDescriptorsLength d.programDescriptors
    + (d.elementaryStreams.map fun es => 5 + calcDescriptorsLength es.elementaryStreamDescriptors).sum) % 65536

def patSectionBytes (d : PATData) : Bytes :=
  (d.programs.map fun p => packFields [(p.programNumber, 16), (7, 3), (p.programMapID, 13)]).flatten

def pmtSectionBytes (d : PMTData) : Bytes :=
  packFields [(7, 3), (d.pcrPID, 13)] ++ writeDescriptorsWithLength d.programDescriptors
  ++ (d.elementaryStreams.map fun es =>
        packFields [(es.streamType, 8), (7, 3), (es.elementaryPID, 13)]
        ++ writeDescriptorsWithLength es.elementaryStreamDescriptors).flatten

/-- `calcPSISectionLength` (uint16) -/
def calcPSISectionLength (t : Nat) (d : PSISectionSyntaxData) : Nat :=
  ((if hasPSISyntaxHeader t then 5 else 0)
   + (if t = 0 then calcPATSectionLength (d.pat.getD {}) else if t = 2 then calcPMTSectionLength (d.pmt.getD {}) else 0)
   + (if hasCRC32 t then 4 else 0)) % 65536

def syntaxHeaderBytes (h : PSISectionSyntaxHeader) : Bytes :=
  packFields [(h.tableIDExtension, 16), (3, 2), (h.versionNumber, 5), (b2n h.currentNextIndicator, 1),
    (h.sectionNumber, 8), (h.lastSectionNumber, 8)]

/-- `writePSISection`: only PAT and PMT are implemented; missing sub-structures are Go nil dereferences -/
def writePSISection (s : PSISection) : Res Bytes :=
  match s.header with
  | none => .panic
  | some h =>
    if h.tableID ≠ 0 ∧ h.tableID ≠ 2 then .err .other
    else match s.syn with
      | none => .panic
      | some syn => match syn.data, syn.header with
        | some d, some sh =>
          if (h.tableID = 0 ∧ d.pat.isNone) ∨ (h.tableID = 2 ∧ d.pmt.isNone) then .panic
          else
            let head := packFields [(h.tableID, 8), (b2n h.sectionSyntaxIndicator, 1), (b2n h.privateBit, 1), (3, 2),
              (calcPSISectionLength h.tableID d, 12)]
            if h.sectionLength > 0 then
              let body := syntaxHeaderBytes sh
                ++ (if h.tableID = 0 then patSectionBytes (d.pat.getD {}) else pmtSectionBytes (d.pmt.getD {}))
              let pre := head ++ body
              .ok (pre ++ be32 (computeCRC32 pre))
            else .ok head
        | _, _ => .panic

def writePSISections : List PSISection → Res Bytes
  | [] => .ok []
  | s :: r => do
    let a ← writePSISection s
    let b ← writePSISections r
    pure (a ++ b)

/-- `writePSIData` -/
def writePSIData (d : PSIData) : Res Bytes := do
  let body ← writePSISections d.sections
  pure ([(d.pointerField % 256).toNat] ++ List.replicate d.pointerField.toNat 0 ++ body)

end Astits
