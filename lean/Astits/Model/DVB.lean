/-
M6 — model of dvb.go: MJD ↔ Y/M/D (EN 300 468 Annex C, float64 formulas modelled in exact scaled
integer arithmetic with Go's truncation toward zero), BCD durations.
`time.Time` is modelled as Unix seconds (UTC), `time.Duration` as nanoseconds.
-/
import Astits.Basic
namespace Astits

/-- days since 1970-01-01 of the proleptic Gregorian date y-m-d (m in 1..12), any d
(Go's `time.Date` adds `day-1` linearly after normalising the month) -/
def daysFromCivil (y m d : Int) : Int :=
  let y' := if m ≤ 2 then y - 1 else y
  let era := (if y' ≥ 0 then y' else y' - 399) / 400
  let yoe := y' - era * 400
  let mp := (m + 9) % 12
  let doy := (153 * mp + 2) / 5 + d - 1
  let doe := yoe * 365 + yoe / 4 - yoe / 100 + doy
  era * 146097 + doe - 719468

/-- Go `time.Date(y, m, d, 0, 0, 0, 0, time.UTC).Unix()` with month/day normalisation -/
def unixOfDate (y m d : Int) : Int :=
  let m0 := m - 1
  let y' := y + m0 / 12          -- Int `/` and `%` are floor / Euclidean for a positive divisor
  let m' := m0 % 12 + 1
  86400 * daysFromCivil y' m' d

/-- the three Annex C quantities as computed by `parseDVBTime` (float64 → exact rationals; Go's
`int(x)` truncates toward zero, hence `Int.tdiv`) -/
def mjdYT (mjd : Int) : Int := Int.tdiv (20 * mjd - 301564) 7305
def mjdA (yt : Int) : Int := Int.tdiv (yt * 1461) 4              -- int(float64(yt)*365.25)
def mjdMT (mjd yt : Int) : Int := Int.tdiv ((10 * mjd - 149561 - 10 * mjdA yt) * 1000) 306001
def mjdB (mt : Int) : Int := Int.tdiv (mt * 306001) 10000         -- int(float64(mt)*30.6001)
def mjdD (mjd yt mt : Int) : Int := mjd - 14956 - mjdA yt - mjdB mt

/-- (year, month, day) handed to `time.Date` -/
def decodeYMD (mjd : Int) : Int × Int × Int :=
  let yt := mjdYT mjd
  let mt := mjdMT mjd yt
  let d := mjdD mjd yt mt
  let k : Int := if mt = 14 ∨ mt = 15 then 1 else 0
  (1900 + yt + k, mt - 1 - k * 12, d)

/-- `parseDVBDurationByte`: `uint8(i)>>4*10 + uint8(i)&0xf` -/
def parseDVBDurationByte (b : Nat) : Nat := b / 16 * 10 + b % 16

/-- seconds of `parseDVBDurationSeconds` on three bytes -/
def durationSecondsOfBytes (b0 b1 b2 : Nat) : Int :=
  (parseDVBDurationByte b0 : Int) * 3600 + (parseDVBDurationByte b1 : Int) * 60 + parseDVBDurationByte b2

def durationMinutesOfBytes (b0 b1 : Nat) : Int :=
  (parseDVBDurationByte b0 : Int) * 3600 + (parseDVBDurationByte b1 : Int) * 60

/-- `parseDVBDurationSeconds` in nanoseconds -/
def parseDVBDurationSeconds : P Int := do
  let bs ← It.nextBytes 3
  return durationSecondsOfBytes (bs.getD 0 0) (bs.getD 1 0) (bs.getD 2 0) * 1000000000

def parseDVBDurationMinutes : P Int := do
  let bs ← It.nextBytes 2
  return durationMinutesOfBytes (bs.getD 0 0) (bs.getD 1 0) * 1000000000

/-- `parseDVBTime` as Unix seconds -/
def parseDVBTime : P Int := do
  let bs ← It.nextBytes 2
  let mjd : Int := (bs.getD 0 0 * 256 + bs.getD 1 0 : Nat)
  let (y, m, d) := decodeYMD mjd
  let s ← parseDVBDurationSeconds
  return unixOfDate y m d + s / 1000000000

/-! ### writing -/

/-- `dvbDurationByteRepresentation`: `(n/10)<<4 | n%10` on uint8 -/
def dvbDurationByteRepresentation (n : Nat) : Nat := (n / 10 * 16) % 256 + n % 10

/-- civil date from days since 1970-01-01 (what Go's `Year/Month/Day` return for a UTC time) -/
def civilFromDays (z0 : Int) : Int × Int × Int :=
  let z := z0 + 719468
  let era := (if z ≥ 0 then z else z - 146096) / 146097
  let doe := z - era * 146097
  let yoe := (doe - doe / 1460 + doe / 36524 - doe / 146096) / 365
  let y := yoe + era * 400
  let doy := doe - (365 * yoe + yoe / 4 - yoe / 100)
  let mp := (5 * doy + 2) / 153
  let d := doy - (153 * mp + 2) / 5 + 1
  let m := if mp < 10 then mp + 3 else mp - 9
  (if m ≤ 2 then y + 1 else y, m, d)

/-- MJD computed by `writeDVBTime` from year-1900, month, day (before the `uint16` conversion) -/
def encodeMJD (y m d : Int) : Int :=
  let year := y - 1900
  let l : Int := if m ≤ 2 then 1 else 0
  14956 + d + Int.tdiv ((year - l) * 1461) 4 + Int.tdiv ((m + 1 + l * 12) * 306001) 10000

/-- `writeDVBDurationSeconds` for a duration given in nanoseconds (non-negative, < 256 h) -/
def writeDVBDurationSeconds (ns : Int) : Bytes :=
  let h := (ns / 3600000000000).toNat % 256
  let m := ((ns / 60000000000) % 60).toNat
  let s := ((ns / 1000000000) % 60).toNat
  [dvbDurationByteRepresentation h, dvbDurationByteRepresentation m, dvbDurationByteRepresentation s]

def writeDVBDurationMinutes (ns : Int) : Bytes :=
  let h := (ns / 3600000000000).toNat % 256
  let m := ((ns / 60000000000) % 60).toNat
  [dvbDurationByteRepresentation h, dvbDurationByteRepresentation m]

/-- `writeDVBTime` for a UTC time given as Unix seconds -/
def writeDVBTime (unix : Int) : Bytes :=
  let days := unix / 86400
  let secs := unix % 86400
  let (y, m, d) := civilFromDays days
  let mjd := (encodeMJD y m d % 65536).toNat
  beBytes 2 mjd ++ writeDVBDurationSeconds (secs * 1000000000)

end Astits
