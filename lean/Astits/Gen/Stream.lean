/-
Generators of stream models for the reference multiplexer.
-/
import Astits.Spec.RefMux
import Astits.Gen.PES
import Astits.Gen.PSI
namespace Astits
open Spec

/-- chunk sizes for `n` bytes; the first chunk is given, the others are 1..184 -/
def genRestChunks (n : Nat) : Gen (List Nat) := do
  let strat ← randBelow 4
  let mut left := n
  let mut out : Array Nat := #[]
  let mut fuel := n + 1
  while left > 0 && fuel > 0 do
    fuel := fuel - 1
    let s ← (match strat with
      | 0 => pure 184
      | 1 => randRange 1 184
      | 2 => (do if (← chance 1 3) then randRange 1 3 else pure 184)
      | _ => (do if left > 185 then pure 184 else if left > 1 then pure (left - 1) else pure 1))
    let s := min s left
    out := out.push s
    left := left - s
  return out.toList

/-- first chunk size and (optionally) an adaptation field with content for the first packet -/
def genFirst (n : Nat) (wantAF : Bool) : Gen (Nat × Option PacketAdaptationField) := do
  let k ← randBelow 5
  let s0 ← (match k with
    | 0 => pure (min n 184)
    | 1 => pure 1
    | 2 => pure (min n 183)
    | _ => randRange 1 (min n 184))
  if wantAF ∧ s0 ≤ 183 then
    let af ← genAF (183 - s0)
    -- a unit start may announce a discontinuity: the units before and after it are delivered all the same
    return (s0, some { af with discontinuityIndicator := (← chance 1 8) && !af.isOneByteStuffing })
  else return (s0, none)

def mkChunks (n : Nat) (wantAF : Bool) : Gen (List Nat × Option PacketAdaptationField) := do
  let (s0, af) ← genFirst n wantAF
  let rest ← genRestChunks (n - s0)
  return (s0 :: rest, af)

def genPESUnit (pid : Nat) (maxPayload : Nat := 600) : Gen TSUnit := do
  let sid ← genStreamID
  let stuffing ← (do if (← chance 2 3) then pure 0 else randBelow 10)
  let oh ← genPESOptionalHeader false stuffing
  let h0 : PESHeader := { optionalHeader := if hasPESOptionalHeader sid then some oh else none, streamID := sid }
  let n ← (do let k ← randBelow 6; if k = 0 then randRange 1 5 else if k = 1 then randRange 170 200 else randRange 1 maxPayload)
  let payload ← randBytes n
  let bounded ← randBool
  let optLen := if hasPESOptionalHeader sid then (pesOptionalEncode oh stuffing).length else 0
  let h := { h0 with packetLength := if bounded then optLen + n else 0 }
  let bytes := pesEncode h stuffing payload
  let wantAF ← chance 1 2
  let (chunks, af) ← mkChunks bytes.length wantAF
  return { pid := pid, payload := bytes, data := [{ pes := some { data := payload, header := h } }], psi := false,
           chunks := chunks, firstAF := af }

def dataOfSection (s : PSISection) : DemuxerData :=
  let d := ((s.syn.getD {}).data.getD {})
  { eit := d.eit, nit := d.nit, pat := d.pat, pmt := d.pmt, sdt := d.sdt, tot := d.tot }

/-- a PSI unit made of the given sections -/
def mkPSIUnit (pid : Nat) (secs : List (PSISection × Bytes)) : Gen TSUnit := do
  let ptr ← (do if (← chance 2 3) then pure 0 else randBelow 6)
  let stuff ← (do if (← chance 1 2) then pure 0 else randBelow 6)
  let bytes := unitEncode ptr (secs.map (·.2)) stuff
  let (chunks, af) ← mkChunks bytes.length (← chance 1 4)
  let pad ← randBool
  return { pid := pid, payload := bytes, data := secs.map fun (s, _) => dataOfSection s, psi := true, chunks := chunks,
           firstAF := af, padPayload := pad, sectionsEnd := 1 + ptr + ((secs.map (·.2.length)).sum) }

/-- payload offsets at which an inner section starts (a later section of the same unit) -/
def innerStarts (ptr : Nat) (secs : List Bytes) : List Nat :=
  let rec go (l : List Bytes) (acc : Nat) : List Nat :=
    match l with
    | [] => []
    | [_] => []
    | s :: r => (acc + s.length) :: go r (acc + s.length)
  go secs (1 + ptr)

def chunkEdges (cs : List Nat) : List Nat :=
  (cs.foldl (fun (acc : List Nat × Nat) c => (acc.1 ++ [acc.2 + c], acc.2 + c)) ([], 0)).1

/-- A PAT/PMT unit of several sections. ISO/IEC 13818-1 2.4.4.1: a packet in which a section begins carries
payload_unit_start_indicator = 1 and a pointer_field, so in a conformant stream no inner section starts on the first
payload byte of a continuation packet; cut points are redrawn until none does (`conformant`), or one is forced there
(`conformant = false`: the stratum outside the property's domain, compared with the model only). -/
def mkPSIUnitMulti (pid : Nat) (secs : List (PSISection × Bytes)) (conformant : Bool) : Gen TSUnit := do
  let ptr ← (do if (← chance 2 3) then pure 0 else randBelow 6)
  let stuff ← (do if (← chance 1 2) then pure 0 else randBelow 6)
  let bytes := unitEncode ptr (secs.map (·.2)) stuff
  let inner := innerStarts ptr (secs.map (·.2))
  let pad ← randBool
  let mk (chunks : List Nat) (af : Option PacketAdaptationField) : TSUnit :=
    { pid := pid, payload := bytes, data := secs.map fun (s, _) => dataOfSection s, psi := true, chunks := chunks,
      firstAF := af, padPayload := pad, sectionsEnd := 1 + ptr + ((secs.map (·.2.length)).sum) }
  if conformant then
    let mut fuel := 12
    while fuel > 0 do
      fuel := fuel - 1
      let (chunks, af) ← mkChunks bytes.length (← chance 1 4)
      if (chunkEdges chunks).all (fun e => !inner.contains e) then return mk chunks af
    -- one-byte first chunk, then full packets: edges at 1 + 184k; fall back to a single section if that collides too
    let (s1, _) := secs.headD default
    let c2 := 1 :: (List.replicate ((bytes.length - 1) / 184) 184 ++ (if (bytes.length - 1) % 184 = 0 then [] else [(bytes.length - 1) % 184]))
    if (chunkEdges c2).all (fun e => !inner.contains e) then return mk c2 none
    let b1 := unitEncode 0 [(secs.headD default).2] 0
    return { pid := pid, payload := b1, data := [dataOfSection s1], psi := true, chunks := [b1.length], padPayload := pad, sectionsEnd := b1.length }
  else
    -- force a packet edge on the first inner section start
    let e := inner.headD bytes.length
    let firstPart := if e ≤ 184 then [e] else (e % 184 + (if e % 184 = 0 then 184 else 0)) :: List.replicate ((e - 1) / 184) 184
    let rest ← genRestChunks (bytes.length - e)
    return mk (firstPart ++ rest) none

/-- re-cut a unit into chunks of 8..40 bytes (many packets, each stuffed by its adaptation field) -/
def manyChunks (u : TSUnit) : Gen TSUnit := do
  let mut left := u.payload.length
  let mut out : Array Nat := #[]
  let mut fuel := left + 1
  while left > 0 && fuel > 0 do
    fuel := fuel - 1
    let s ← randRange 8 40
    let s := min s left
    out := out.push s
    left := left - s
  return { u with chunks := out.toList, firstAF := none }

def patSection (pmtPIDs : List Nat) (network : Bool := false) : Gen (PSISection × Bytes) := do
  let tsid ← randField 16
  -- programme 0 is not a programme: its "PMT PID" is the network PID (NIT), which never becomes a PMT PID
  let progs := (if network then [({ programMapID := 0x10, programNumber := 0 } : PATProgram)] else [])
    ++ pmtPIDs.zipIdx.map fun (pid, i) => ({ programMapID := pid, programNumber := i + 1 } : PATProgram)
  let sh ← genSyntaxHeader tsid
  return mkSection 0 false (some sh) { pat := some { programs := progs, transportStreamID := tsid } }

structure StreamCfg where
  pesPIDs : List Nat := [0x100, 0x101]
  pmtPIDs : List Nat := [0x1000]
  dvb : Bool := true
  unitsPerPID : Nat := 2
  maxPayload : Nat := 600
  multiPMT : Nat := 1
  /-- further PAT units (same programme list) anywhere in the multiplex after the first one -/
  patRepeats : Nat := 0
  /-- cut single-section PMT units into many small packets (6 and more packets per unit) -/
  longPMT : Bool := false
  /-- send the PAT as two sections in one unit, each listing a part of the PMT PIDs (needs >= 2 PMT PIDs) -/
  splitPAT : Bool := false
  /-- the PAT also lists programme 0 -> network PID 0x10 -/
  networkPID : Bool := false

def shuffle {α} (xs : List α) : Gen (List α) := do
  let mut a := xs.toArray
  let n := a.size
  for i in [0:n] do
    let j ← randRange i (n - 1)
    if h : i < a.size ∧ j < a.size then
      let x := a[i]; let y := a[j]
      a := (a.set! i y).set! j x
  return a.toList

/-- a well-formed stream: PAT first, then everything else merged in a random order-preserving way -/
def genStream (cfg : StreamCfg) : Gen StreamModel := do
  let mut units : List TSUnit := []
  let mut firstPatN := 0
  -- PAT: one section; PMT units: 1..multiPMT sections (cut points conformant, see mkPSIUnitMulti)
  if !cfg.pmtPIDs.isEmpty then
    let ps ← patSection cfg.pmtPIDs cfg.networkPID
    let u ← (if cfg.splitPAT ∧ cfg.pmtPIDs.length ≥ 2 then do
        -- two sections of one PAT: programmes 1.. on the first PMT PID(s), the rest in the second section
        let k := cfg.pmtPIDs.length / 2
        let tsid ← randField 16
        let mk (pids : List Nat) (off sn : Nat) : Gen (PSISection × Bytes) := do
          let progs := pids.zipIdx.map fun (pid, i) => ({ programMapID := pid, programNumber := off + i + 1 } : PATProgram)
          let sh ← genSyntaxHeader tsid
          pure (mkSection 0 false (some { sh with sectionNumber := sn, lastSectionNumber := 1 }) { pat := some { programs := progs, transportStreamID := tsid } })
        let s1 ← mk (cfg.pmtPIDs.take k) 0 0
        let s2 ← mk (cfg.pmtPIDs.drop k) k 1
        mkPSIUnitMulti 0 [s1, s2] true
      else mkPSIUnit 0 [ps])
    units := units ++ [u]
    firstPatN := u.chunks.length
    for _ in [0:cfg.patRepeats] do
      let u' ← mkPSIUnit 0 [ps]
      units := units ++ [u']
    for pmtPID in cfg.pmtPIDs do
      for _ in [0:cfg.unitsPerPID] do
        let nsec ← (do if cfg.multiPMT > 1 ∧ (← chance 1 2) then randRange 2 cfg.multiPMT else pure 1)
        let ss ← genList nsec (genSectionOfKind 1 false)
        let u ← (if nsec = 1 then mkPSIUnit pmtPID ss else mkPSIUnitMulti pmtPID ss true)
        let u ← (if cfg.longPMT ∧ nsec = 1 then manyChunks u else pure u)
        units := units ++ [u]
  if cfg.dvb then
    for (pid, kind) in [(0x11, 2), (0x10, 3), (0x12, 4), (0x14, 5)] do
      if (← chance 2 3) then
        let nsec ← randRange 1 3
        let secs ← genList nsec (genSectionOfKind kind false)
        let u ← mkPSIUnit pid secs
        units := units ++ [u]
  for pid in cfg.pesPIDs do
    let n ← randRange 1 cfg.unitsPerPID
    for _ in [0:n] do
      let u ← genPESUnit pid cfg.maxPayload
      units := units ++ [u]
  -- schedule: the PAT's packets first, the rest shuffled
  let per := perPID units
  let patN := (per.find? (·.1 == 0)).map (fun e => e.2.1.length) |>.getD 0
  let rest := (per.filter (·.1 != 0)).map fun (pid, ps, _) => List.replicate ps.length pid
  let sh ← shuffle (rest.flatten ++ List.replicate (patN - firstPatN) 0)
  return { units := units, schedule := List.replicate firstPatN 0 ++ sh }

end Astits
