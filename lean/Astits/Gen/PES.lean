/-
Generators of PES header values in the form the demuxer delivers them (derived fields filled in).
-/
import Astits.Model.PES
import Astits.Gen.Packet
namespace Astits

def genDSM : Gen DSMTrickMode := do
  let b ← randBelow 256
  return parseDSMTrickMode b

/-- optional header; `writable` restricts to what the writer supports (no CRC, no pack header) -/
def genPESOptionalHeader (writable : Bool) (stuffing : Nat) : Gen PESOptionalHeader := do
  let ind ← pick [0, 2, 3, 2, 3]
  let pts ← genClock 0
  let dts ← genClock 0
  let hasESCR ← chance 1 3
  let escr ← genClock 9
  let hasESRate ← chance 1 3
  let esRate ← randField 22
  let hasDSM ← chance 1 3
  let dsm ← genDSM
  let hasACI ← chance 1 3
  let aci ← randField 7
  let hasCRC ← (do let c ← chance 1 3; pure (c && !writable))
  let crc ← randField 16
  let hasExt ← chance 1 2
  let hasPriv ← (do let c ← chance 1 2; pure (c && hasExt))
  let priv ← randBytes 16
  let hasPSC ← (do let c ← chance 1 2; pure (c && hasExt))
  let psc ← randField 7
  let mid ← randBelow 2
  let osl ← randField 6
  let hasPSTD ← (do let c ← chance 1 2; pure (c && hasExt))
  let scale ← randBelow 2
  let size ← randField 13
  let hasExt2 ← (do let c ← chance 1 2; pure (c && hasExt))
  let e2n ← (do let k ← randBelow 4; if k = 0 then pure 0 else if k = 1 then pure 127 else randBelow 40)
  let e2 ← randBytes (if hasExt2 then e2n else 0)
  let sc ← randBelow 4
  let prio ← randBool; let dai ← randBool; let cr ← randBool; let orig ← randBool
  let h : PESOptionalHeader :=
    { additionalCopyInfo := if hasACI then aci else 0, crc := if hasCRC then crc else 0, dataAlignmentIndicator := dai,
      dsmTrickMode := if hasDSM then some dsm else none, dts := if ind = 3 then some dts else none,
      escr := if hasESCR then some escr else none, esRate := if hasESRate then esRate else 0,
      extension2Data := e2, extension2Length := e2.length, hasAdditionalCopyInfo := hasACI, hasCRC := hasCRC,
      hasDSMTrickMode := hasDSM, hasESCR := hasESCR, hasESRate := hasESRate, hasExtension := hasExt,
      hasExtension2 := hasExt2, hasPrivateData := hasPriv, hasProgramPacketSequenceCounter := hasPSC,
      hasPSTDBuffer := hasPSTD, isCopyrighted := cr, isOriginal := orig, markerBits := 2,
      mpeg1OrMPEG2ID := if hasPSC then mid else 0, originalStuffingLength := if hasPSC then osl else 0,
      packetSequenceCounter := if hasPSC then psc else 0, priority := prio, privateData := if hasPriv then priv else [],
      pstdBufferScale := if hasPSTD then scale else 0, pstdBufferSize := if hasPSTD then size else 0,
      pts := if ind = 2 ∨ ind = 3 then some pts else none, ptsDTSIndicator := ind, scramblingControl := sc }
  return { h with headerLength := (calcPESOptionalHeaderDataLength h + (if h.hasCRC then 2 else 0) + stuffing) % 256 }

def genStreamID : Gen Nat := do
  let k ← randBelow 8
  match k with
  | 0 => pure 0xe0 | 1 => pure 0xc0 | 2 => pure 0xbd | 3 => pure 0xfd | 4 => pure 190 | 5 => pure 191
  | _ => randRange 0xbc 0xff

end Astits
