/-
Generators of TS packet values in the form the demuxer delivers them ("canonical": derived fields
Length, StuffingLength, TransportPrivateDataLength, extension Length, IsOneByteStuffing filled in),
well-formed per ISO 13818-1: adaptation field + payload fill the 188 bytes exactly.
-/
import Astits.Model.Packet
namespace Astits

def genClock (extBits : Nat) : Gen ClockReference := do
  let b ← randField 33
  let e ← (if extBits = 0 then pure 0 else randField extBits)
  return { base := b, extension := e }

def genAFExt (room : Nat) : Gen PacketAdaptationExtensionField := do
  -- room = bytes available for the extension after its length byte (≥ 1 for the flags byte)
  let ltw ← (do let c ← randBool; pure (c && room ≥ 3))
  let room := if ltw then room - 2 else room
  let pr ← (do let c ← randBool; pure (c && room ≥ 4))
  let room := if pr then room - 3 else room
  let ss ← (do let c ← randBool; pure (c && room ≥ 6))
  let ltwv ← randBool
  let ltwo ← randField 15
  let prv ← randField 22
  let st ← randField 4
  let dts ← genClock 0
  let e : PacketAdaptationExtensionField :=
    { dtsNextAccessUnit := if ss then some dts else none, hasLegalTimeWindow := ltw, hasPiecewiseRate := pr,
      hasSeamlessSplice := ss, legalTimeWindowIsValid := ltw && ltwv, legalTimeWindowOffset := if ltw then ltwo else 0,
      length := 0, piecewiseRate := if pr then prv else 0, spliceType := if ss then st else 0 }
  return { e with length := afExtSize e }

/-- adaptation field whose adaptation_field_length is exactly `l` (0 ≤ l ≤ 183) -/
def genAF (l : Nat) : Gen PacketAdaptationField := do
  if l = 0 then return { length := 0, isOneByteStuffing := true }
  let mut room := l - 1          -- after the flags byte
  let di ← chance 1 8
  let rai ← randBool
  let espi ← randBool
  let hasPCR ← (do let c ← randBool; pure (c && room ≥ 6))
  if hasPCR then room := room - 6
  let hasOPCR ← (do let c ← chance 1 3; pure (c && room ≥ 6))
  if hasOPCR then room := room - 6
  let hasSplice ← (do let c ← chance 1 3; pure (c && room ≥ 1))
  if hasSplice then room := room - 1
  let hasPriv ← (do let c ← chance 1 2; pure (c && room ≥ 1))
  let mut priv : Bytes := []
  if hasPriv then
    room := room - 1
    let k ← randBelow 4
    let n ← (match k with
      | 0 => pure 0
      | 1 => pure room           -- as much as fits
      | _ => randBelow (room + 1))
    let hasExtLater ← pure false
    let _ := hasExtLater
    priv ← randBytes n
    room := room - n
  let hasExt ← (do let c ← chance 1 2; pure (c && room ≥ 2))
  let mut ext : Option PacketAdaptationExtensionField := none
  if hasExt then
    let e ← genAFExt (room - 1)
    ext := some e
    room := room - 1 - afExtSize e
  let pcr ← genClock 9
  let opcr ← genClock 9
  let sc ← randField 8
  return { adaptationExtensionField := ext, opcr := if hasOPCR then some opcr else none,
           pcr := if hasPCR then some pcr else none, transportPrivateData := priv,
           transportPrivateDataLength := priv.length, length := l, stuffingLength := room,
           spliceCountdown := if hasSplice then sc else 0, isOneByteStuffing := false,
           randomAccessIndicator := rai, discontinuityIndicator := di, elementaryStreamPriorityIndicator := espi,
           hasAdaptationExtensionField := hasExt, hasOPCR := hasOPCR, hasPCR := hasPCR,
           hasTransportPrivateData := hasPriv, hasSplicingCountdown := hasSplice }

def genHeaderWith (hasAF hasPayload : Bool) : Gen PacketHeader := do
  let cc ← randBelow 16
  let pusi ← randBool
  let pid ← randField 13
  let tei ← chance 1 8
  let tp ← randBool
  let tsc ← randBelow 4
  return { continuityCounter := cc, hasAdaptationField := hasAF, hasPayload := hasPayload,
           payloadUnitStartIndicator := pusi, pid := pid, transportErrorIndicator := tei, transportPriority := tp,
           transportScramblingControl := tsc }

/-- AF length biased to the boundaries -/
def genAFLen (maxLen : Nat) : Gen Nat := do
  let k ← randBelow 6
  match k with
  | 0 => pure 0
  | 1 => pure 1
  | 2 => pure maxLen
  | 3 => pure (maxLen - 1)
  | _ => randBelow (maxLen + 1)

/-- a conformant 188-byte packet: adaptation_field_control ∈ {01, 10, 11} -/
def genPacket : Gen Packet := do
  let afc ← randBelow 3
  match afc with
  | 0 => do
    let h ← genHeaderWith false true
    let pl ← randBytes 184
    return { adaptationField := none, header := h, payload := pl }
  | 1 => do
    let h ← genHeaderWith true false
    let af ← genAF 183
    return { adaptationField := some af, header := h, payload := [] }
  | _ => do
    let h ← genHeaderWith true true
    let l ← genAFLen 182
    let af ← genAF l
    let pl ← randBytes (183 - l)
    return { adaptationField := some af, header := h, payload := pl }

end Astits
