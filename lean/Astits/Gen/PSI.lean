/-
Generators of table values in the form the demuxer delivers them.
-/
import Astits.Model.PSI
import Astits.Gen.Desc
import Astits.Spec.PSI
namespace Astits

def genSyntaxHeader (ext : Nat) : Gen PSISectionSyntaxHeader := do
  let v ← randField 5; let cni ← randBool; let sn ← randField 8; let lsn ← randField 8
  return { currentNextIndicator := cni, lastSectionNumber := lsn, sectionNumber := sn, tableIDExtension := ext, versionNumber := v }

/-- count biased towards 0, 1 and the maximum -/
def genCountUpTo (mx : Nat) : Gen Nat := do
  let k ← randBelow 6
  match k with
  | 0 => pure 0 | 1 => pure 1 | 2 => pure mx
  | _ => randBelow (mx + 1)

def descsP (ds : List Descriptor) : List Descriptor :=
  ds.map fun d => let l := calcDescriptorLength d; if l = 0 then { tag := d.tag, length := 0 } else { d with length := l }

def genDescs (mx : Nat) : Gen (List Descriptor) := do
  let k ← randBelow 3
  if k = 0 then return [] else do
    let ds ← genDescriptors mx
    return descsP ds

def genPAT (maxPrograms : Nat) : Gen PATData := do
  let n ← genCountUpTo maxPrograms
  let ps ← genList n (do let pid ← randField 13; let pn ← randField 16; pure ({ programMapID := pid, programNumber := pn } : PATProgram))
  let ts ← randField 16
  return { programs := ps, transportStreamID := ts }

def genPMT (maxStreams descBytes : Nat) : Gen PMTData := do
  let n ← genCountUpTo maxStreams
  let es ← genList n (do
    let pid ← randField 13; let st ← randField 8; let ds ← genDescs descBytes
    pure ({ elementaryPID := pid, elementaryStreamDescriptors := ds, streamType := st } : PMTElementaryStream))
  let pcr ← randField 13; let pd ← genDescs descBytes; let pn ← randField 16
  return { elementaryStreams := es, pcrPID := pcr, programDescriptors := pd, programNumber := pn }

def genSDT (maxServices descBytes : Nat) : Gen SDTData := do
  let n ← genCountUpTo maxServices
  let ss ← genList n (do
    let ds ← genDescs descBytes; let a ← randBool; let b ← randBool; let c ← randBool; let rs ← randField 3; let sid ← randField 16
    pure ({ descriptors := ds, hasEITPresentFollowing := a, hasEITSchedule := b, hasFreeCSAMode := c, runningStatus := rs, serviceID := sid } : SDTDataService))
  let onid ← randField 16; let ts ← randField 16
  return { originalNetworkID := onid, services := ss, transportStreamID := ts }

def genNIT (maxTS descBytes : Nat) : Gen NITData := do
  let n ← genCountUpTo maxTS
  let ts ← genList n (do
    let ds ← genDescs descBytes; let a ← randField 16; let b ← randField 16
    pure ({ originalNetworkID := a, transportDescriptors := ds, transportStreamID := b } : NITDataTransportStream))
  let nd ← genDescs descBytes; let nid ← randField 16
  return { networkDescriptors := nd, networkID := nid, transportStreams := ts }

/-- a UTC time within the MJD range of the property, as Unix seconds -/
def genUTC : Gen Int := do
  let k ← randBelow 5
  let mjd ← (match k with | 0 => pure 15079 | 1 => pure 65535 | 2 => pure 40587 | _ => randRange 15079 65535)
  let s ← randBelow 86400
  return ((mjd : Int) - 40587) * 86400 + s

def genDurationNs : Gen Int := do
  let h ← randBelow 100; let m ← randBelow 60; let s ← randBelow 60
  return ((h * 3600 + m * 60 + s : Nat) : Int) * 1000000000

def genEIT (maxEvents descBytes : Nat) : Gen EITData := do
  let n ← genCountUpTo maxEvents
  let es ← genList n (do
    let ds ← genDescs descBytes; let du ← genDurationNs; let eid ← randField 16; let c ← randBool; let rs ← randField 3; let st ← genUTC
    pure ({ descriptors := ds, duration := du, eventID := eid, hasFreeCSAMode := c, runningStatus := rs, startTime := st } : EITDataEvent))
  let ltid ← randField 8; let onid ← randField 16; let slsn ← randField 8; let sid ← randField 16; let ts ← randField 16
  return { events := es, lastTableID := ltid, originalNetworkID := onid, segmentLastSectionNumber := slsn, serviceID := sid, transportStreamID := ts }

def genTOT (descBytes : Nat) : Gen TOTData := do
  let ds ← genDescs descBytes; let t ← genUTC
  return { descriptors := ds, utcTime := t }

/-- a section value (as delivered) of the given table id with its reference bytes; section_length is
computed from the reference encoding -/
def mkSection (tid : Nat) (priv : Bool) (sh : Option PSISectionSyntaxHeader) (d : PSISectionSyntaxData) : PSISection × Bytes :=
  let s0 : PSISection := { header := some { privateBit := priv, sectionSyntaxIndicator := sh.isSome, tableID := tid, tableType := tableType tid },
                           syn := some { data := some d, header := sh } }
  let bs := Spec.sectionEncode s0
  let sl := bs.length - 3
  let crc := beNat (bs.drop (bs.length - 4))
  ({ s0 with crc32 := crc, header := some { privateBit := priv, sectionLength := sl, sectionSyntaxIndicator := sh.isSome, tableID := tid, tableType := tableType tid } }, bs)

/-- kind: 0 PAT, 1 PMT, 2 SDT, 3 NIT, 4 EIT, 5 TOT -/
def genSectionOfKind (kind : Nat) (big : Bool) : Gen (PSISection × Bytes) := do
  let priv ← randBool
  let db := if big then 200 else 40
  match kind with
  | 0 => do
    let d ← genPAT (if big then 250 else 6)
    let sh ← genSyntaxHeader d.transportStreamID
    return mkSection 0 priv (some sh) { pat := some d }
  | 1 => do
    let d ← genPMT (if big then 30 else 4) db
    let sh ← genSyntaxHeader d.programNumber
    return mkSection 2 priv (some sh) { pmt := some d }
  | 2 => do
    let d ← genSDT (if big then 12 else 3) db
    let sh ← genSyntaxHeader d.transportStreamID
    let tid ← pick [0x42, 0x46]
    return mkSection tid priv (some sh) { sdt := some d }
  | 3 => do
    let d ← genNIT (if big then 10 else 3) db
    let sh ← genSyntaxHeader d.networkID
    let tid ← pick [0x40, 0x41]
    return mkSection tid priv (some sh) { nit := some d }
  | 4 => do
    let d ← genEIT (if big then 12 else 3) db
    let sh ← genSyntaxHeader d.serviceID
    let tid ← (do let k ← randBelow 3; if k = 0 then pure 0x4e else if k = 1 then pure 0x6f else randRange 0x4e 0x6f)
    return mkSection tid priv (some sh) { eit := some d }
  | _ => do
    let d ← genTOT db
    return mkSection 0x73 priv none { tot := some d }

end Astits
