/-
Generator of descriptor values for the correspondence check of Model/Desc.lean.

`genDescriptor` yields well-formed descriptors of all 25 kinds (23 typed tags, unknown tag,
user-defined tag), roughly uniformly: every numeric field is inside its wire width, language / country
codes have exactly 3 bytes, fields behind a cleared `HasXxx` flag are zero, the body is at most 255
bytes, and the redundant `length` field equals `calcDescriptorLength`. Such values survive
write → parse unchanged, except that a descriptor whose body is empty comes back with a nil sub-struct
(`parseDescriptors` does not call the per-kind parser when the length byte is 0).
-/
import Astits.Model.Desc
namespace Astits

/-- byte string: usually 0..20 bytes, sometimes anything up to `maxLen`, sometimes exactly `maxLen` -/
def genBlob (maxLen : Nat) : Gen Bytes := do
  let k ← randBelow 20
  let n ← (if k = 0 then pure maxLen
           else if k ≤ 2 then randRange 0 maxLen
           else randRange 0 (min 20 maxLen) : Gen Nat)
  randBytes n

/-- item count of a loop: usually 0..4, sometimes anything up to `maxItems` -/
def genCount (maxItems : Nat) : Gen Nat := do
  let k ← randBelow 16
  if k = 0 then pure maxItems
  else if k = 1 then randRange 0 maxItems
  else randRange 0 (min 4 maxItems)

/-- three bytes (ISO 639 / ISO 3166 codes): lower-case letters most of the time -/
def genCode3 : Gen Bytes := do
  if (← chance 3 4) then
    genList 3 (do let c ← randBelow 26; pure (97 + c))
  else randBytes 3

/-- whole minutes below 100 h (two BCD digits each), in nanoseconds -/
def genDurationMinutes : Gen Int := do
  let h ← (do let k ← randBelow 6
              if k = 0 then pure 0 else if k = 1 then pure 99 else randRange 0 99 : Gen Nat)
  let m ← (do let k ← randBelow 6
              if k = 0 then pure 0 else if k = 1 then pure 59 else randRange 0 59 : Gen Nat)
  return ((h * 3600 + m * 60 : Nat) : Int) * 1000000000

/-- Unix seconds of a time whose Modified Julian Date is in 15079..65535 (1900-03-01 .. 2038-04-22),
the range in which the 16-bit MJD of `writeDVBTime` / `parseDVBTime` is faithful -/
def genDVBTime : Gen Int := do
  let k ← randBelow 8
  let mjd ← (if k = 0 then pure 15079 else if k = 1 then pure 65535 else if k = 2 then pure 40587
             else if k = 3 then randRange 15079 65535 else randRange 40587 65535 : Gen Nat)
  let j ← randBelow 6
  let s ← (if j = 0 then pure 0 else if j = 1 then pure 86399 else randBelow 86400 : Gen Nat)
  return ((mjd : Int) - 40587) * 86400 + s

def genAC3 : Gen DescriptorAC3 := do
  let hasASVC ← randBool
  let hasBSID ← randBool
  let hasComponentType ← randBool
  let hasMainID ← randBool
  let asvc ← randField 8
  let bsid ← randField 8
  let componentType ← randField 8
  let mainID ← randField 8
  let info ← genBlob 250
  return { additionalInfo := info, asvc := if hasASVC then asvc else 0, bsid := if hasBSID then bsid else 0,
           componentType := if hasComponentType then componentType else 0, hasASVC := hasASVC, hasBSID := hasBSID,
           hasComponentType := hasComponentType, hasMainID := hasMainID, mainID := if hasMainID then mainID else 0 }

def genAVCVideo : Gen DescriptorAVCVideo := do
  return { avc24HourPictureFlag := ← randBool, avcStillPresent := ← randBool, compatibleFlags := ← randField 5,
           constraintSet0Flag := ← randBool, constraintSet1Flag := ← randBool, constraintSet2Flag := ← randBool,
           levelIDC := ← randField 8, profileIDC := ← randField 8 }

def genComponent : Gen DescriptorComponent := do
  return { componentTag := ← randField 8, componentType := ← randField 8, iso639LanguageCode := ← genCode3,
           streamContent := ← randField 4, streamContentExt := ← randField 4, text := ← genBlob 249 }

def genContent : Gen DescriptorContent := do
  let n ← genCount 127
  let items ← genList n (do
    return ({ contentNibbleLevel1 := ← randField 4, contentNibbleLevel2 := ← randField 4,
              userByte := ← randField 8 } : DescriptorContentItem))
  return { items := items }

def genDataStreamAlignment : Gen DescriptorDataStreamAlignment := do
  return { type := ← randField 8 }

def genEnhancedAC3 : Gen DescriptorEnhancedAC3 := do
  let hasASVC ← randBool
  let hasBSID ← randBool
  let hasComponentType ← randBool
  let hasMainID ← randBool
  let has1 ← randBool
  let has2 ← randBool
  let has3 ← randBool
  let asvc ← randField 8
  let bsid ← randField 8
  let componentType ← randField 8
  let mainID ← randField 8
  let s1 ← randField 8
  let s2 ← randField 8
  let s3 ← randField 8
  let info ← genBlob 247
  return { additionalInfo := info, asvc := if hasASVC then asvc else 0, bsid := if hasBSID then bsid else 0,
           componentType := if hasComponentType then componentType else 0, hasASVC := hasASVC, hasBSID := hasBSID,
           hasComponentType := hasComponentType, hasMainID := hasMainID, hasSubStream1 := has1,
           hasSubStream2 := has2, hasSubStream3 := has3, mainID := if hasMainID then mainID else 0,
           mixInfoExists := ← randBool, subStream1 := if has1 then s1 else 0, subStream2 := if has2 then s2 else 0,
           subStream3 := if has3 then s3 else 0 }

def genExtendedEvent : Gen DescriptorExtendedEvent := do
  let n ← genCount 124
  -- 255 = 1 + 3 + 1 + items + 1 + text
  let mut budget := 249
  let mut items : Array DescriptorExtendedEventItem := #[]
  for _ in [0:n] do
    if budget ≥ 2 then
      let desc ← genBlob (budget - 2)
      let cont ← genBlob (budget - 2 - desc.length)
      budget := budget - 2 - desc.length - cont.length
      items := items.push { content := cont, description := desc }
  let text ← genBlob budget
  return { iso639LanguageCode := ← genCode3, items := items.toList, lastDescriptorNumber := ← randField 4,
           number := ← randField 4, text := text }

def genExtension : Gen DescriptorExtension := do
  if (← randBool) then
    let hasLang ← randBool
    let lang ← genCode3
    let pd ← genBlob (if hasLang then 250 else 253)
    let s : DescriptorExtensionSupplementaryAudio :=
      { editorialClassification := ← randField 5, hasLanguageCode := hasLang,
        languageCode := if hasLang then lang else [], mixType := ← randBool, privateData := pd }
    return { supplementaryAudio := some s, tag := descriptorTagExtensionSupplementaryAudio }
  else
    let t ← randField 8
    let t := if t = descriptorTagExtensionSupplementaryAudio then 7 else t
    let u ← genBlob 254
    return { tag := t, unknown := some u }

def genISO639 : Gen DescriptorISO639LanguageAndAudioType := do
  return { language := ← genCode3, type := ← randField 8 }

def genLocalTimeOffset : Gen DescriptorLocalTimeOffset := do
  let n ← genCount 19
  let items ← genList n (do
    return ({ countryCode := ← genCode3, countryRegionID := ← randField 6, localTimeOffset := ← genDurationMinutes,
              localTimeOffsetPolarity := ← randBool, nextTimeOffset := ← genDurationMinutes,
              timeOfChange := ← genDVBTime } : DescriptorLocalTimeOffsetItem))
  return { items := items }

def genMaximumBitrate : Gen DescriptorMaximumBitrate := do
  return { bitrate := (← randField 22) * 50 }

def genNetworkName : Gen DescriptorNetworkName := do
  return { name := ← genBlob 255 }

def genParentalRating : Gen DescriptorParentalRating := do
  let n ← genCount 63
  let items ← genList n (do
    return ({ countryCode := ← genCode3, rating := ← randField 8 } : DescriptorParentalRatingItem))
  return { items := items }

def genRegistration : Gen DescriptorRegistration := do
  return { additionalIdentificationInfo := ← genBlob 251, formatIdentifier := ← randField 32 }

def genService : Gen DescriptorService := do
  let provider ← genBlob 252
  let name ← genBlob (252 - provider.length)
  return { name := name, provider := provider, type := ← randField 8 }

def genShortEvent : Gen DescriptorShortEvent := do
  let eventName ← genBlob 250
  let text ← genBlob (250 - eventName.length)
  return { eventName := eventName, language := ← genCode3, text := text }

def genSubtitling : Gen DescriptorSubtitling := do
  let n ← genCount 31
  let items ← genList n (do
    return ({ ancillaryPageID := ← randField 16, compositionPageID := ← randField 16, language := ← genCode3,
              type := ← randField 8 } : DescriptorSubtitlingItem))
  return { items := items }

/-- `Page` is written as two 4-bit digits `Page/10`, `Page%10`: faithful for 0..159 -/
def genTeletext : Gen DescriptorTeletext := do
  let n ← genCount 51
  let items ← genList n (do
    let k ← randBelow 8
    let page ← (if k = 0 then pure 0 else if k = 1 then pure 159 else if k = 2 then pure 99
                else randRange 0 159 : Gen Nat)
    return ({ language := ← genCode3, magazine := ← randField 3, page := page,
              type := ← randField 5 } : DescriptorTeletextItem))
  return { items := items }

/-- a service with an unknown id is written with one reserved byte, which the parser drops again:
such a service has no descriptors -/
def genVBIData : Gen DescriptorVBIData := do
  let n ← genCount 85
  let mut budget := 255
  let mut services : Array DescriptorVBIDataService := #[]
  for _ in [0:n] do
    if budget ≥ 3 then
      if (← chance 2 3) then
        let id ← pick [1, 2, 4, 5, 6, 7]
        let m ← genCount (budget - 2)
        let descs ← genList m (do
          return ({ fieldParity := ← randBool, lineOffset := ← randField 5 } : DescriptorVBIDataDescriptor))
        budget := budget - 2 - m
        services := services.push { dataServiceID := id, descriptors := descs }
      else
        let id ← randField 8
        let id := if isKnownVBIDataServiceID id then 0 else id
        budget := budget - 3
        services := services.push { dataServiceID := id, descriptors := [] }
  return { services := services.toList }

/-- tags below 0x80 that the `switch` does not know, and 0xff -/
def unknownDescriptorTags : List Nat :=
  (List.range 128).filter (fun t => !knownDescriptorTags.contains t) ++ [0xff]

def genUnknownTag : Gen Nat := do
  if (← chance 1 6) then pure 0xff else pick unknownDescriptorTags

/-- a descriptor of kind `k` (0..22: the typed tags in Go `switch` order, 23: unknown tag,
24: user-defined tag); `length` is left 0 -/
def genDescriptorOfKind (k : Nat) : Gen Descriptor := do
  match k with
  | 0 => return { tag := descriptorTagAC3, ac3 := some (← genAC3) }
  | 1 => return { tag := descriptorTagAVCVideo, avcVideo := some (← genAVCVideo) }
  | 2 => return { tag := descriptorTagComponent, component := some (← genComponent) }
  | 3 => return { tag := descriptorTagContent, content := some (← genContent) }
  | 4 => return { tag := descriptorTagDataStreamAlignment, dataStreamAlignment := some (← genDataStreamAlignment) }
  | 5 => return { tag := descriptorTagEnhancedAC3, enhancedAC3 := some (← genEnhancedAC3) }
  | 6 => return { tag := descriptorTagExtendedEvent, extendedEvent := some (← genExtendedEvent) }
  | 7 => return { tag := descriptorTagExtension, extension := some (← genExtension) }
  | 8 => return { tag := descriptorTagISO639LanguageAndAudioType, iso639LanguageAndAudioType := some (← genISO639) }
  | 9 => return { tag := descriptorTagLocalTimeOffset, localTimeOffset := some (← genLocalTimeOffset) }
  | 10 => return { tag := descriptorTagMaximumBitrate, maximumBitrate := some (← genMaximumBitrate) }
  | 11 => return { tag := descriptorTagNetworkName, networkName := some (← genNetworkName) }
  | 12 => return { tag := descriptorTagParentalRating, parentalRating := some (← genParentalRating) }
  | 13 => return { tag := descriptorTagPrivateDataIndicator,
                   privateDataIndicator := some { indicator := ← randField 32 } }
  | 14 => return { tag := descriptorTagPrivateDataSpecifier,
                   privateDataSpecifier := some { specifier := ← randField 32 } }
  | 15 => return { tag := descriptorTagRegistration, registration := some (← genRegistration) }
  | 16 => return { tag := descriptorTagService, service := some (← genService) }
  | 17 => return { tag := descriptorTagShortEvent, shortEvent := some (← genShortEvent) }
  | 18 => return { tag := descriptorTagStreamIdentifier, streamIdentifier := some { componentTag := ← randField 8 } }
  | 19 => return { tag := descriptorTagSubtitling, subtitling := some (← genSubtitling) }
  | 20 => return { tag := descriptorTagTeletext, teletext := some (← genTeletext) }
  | 21 => return { tag := descriptorTagVBIData, vbiData := some (← genVBIData) }
  | 22 => return { tag := descriptorTagVBITeletext, vbiTeletext := some (← genTeletext) }
  | 23 =>
    let t ← genUnknownTag
    return { tag := t, unknown := some { content := ← genBlob 255, tag := t } }
  | _ =>
    let t ← randRange 0x80 0xfe
    return { tag := t, userDefined := ← genBlob 255 }

/-- well-formed descriptor, `length` = `calcDescriptorLength` -/
def genDescriptor : Gen Descriptor := do
  let k ← randBelow 25
  let d ← genDescriptorOfKind k
  return { d with length := calcDescriptorLength d }

/-- as `genDescriptor` but the redundant `length` field is 0 / correct / arbitrary -/
def genDescriptorLoose : Gen Descriptor := do
  let d ← genDescriptor
  let k ← randBelow 3
  if k = 0 then return { d with length := 0 }
  else if k = 1 then return d
  else return { d with length := ← randField 8 }

/-- a descriptor loop with `calcDescriptorsLength ≤ maxBytes` (descriptors that do not fit are dropped) -/
def genDescriptorsWith (g : Gen Descriptor) (maxBytes : Nat) : Gen (List Descriptor) := do
  let k ← randBelow 12
  let n ← (if k = 0 then pure 0 else if k = 1 then randRange 0 40 else randRange 0 6 : Gen Nat)
  let mut size := 0
  let mut out : Array Descriptor := #[]
  for _ in [0:n] do
    let d ← g
    let s := 2 + calcDescriptorLength d
    if size + s ≤ maxBytes then
      size := size + s
      out := out.push d
  return out.toList

def genDescriptors (maxBytes : Nat) : Gen (List Descriptor) := genDescriptorsWith genDescriptor maxBytes

def genDescriptorsLoose (maxBytes : Nat) : Gen (List Descriptor) := genDescriptorsWith genDescriptorLoose maxBytes

/-! ### ill-formed values (for testing that the writers' truncations are modelled; no round trip) -/

/-- byte string that may exceed what a descriptor can hold -/
def genBlobWild : Gen Bytes := do
  let k ← randBelow 10
  let n ← (if k = 0 then randRange 200 700 else if k = 1 then randRange 250 260 else randRange 0 20 : Gen Nat)
  randBytes n

/-- a "3-byte" code of 0..5 bytes -/
def genCodeWild : Gen Bytes := do
  let k ← randBelow 3
  let n ← (if k = 0 then randRange 0 5 else pure 3 : Gen Nat)
  randBytes n

def genCountWild (big : Nat) : Gen Nat := do
  let k ← randBelow 10
  if k = 0 then randRange 0 big else randRange 0 4

/-- any non-negative duration below 256 h, not necessarily whole minutes (ns) -/
def genDurationWild : Gen Int := do
  let k ← randBelow 3
  if k = 0 then genDurationMinutes
  else
    let s ← randBelow (256 * 3600)
    let ns ← randBelow 1000000000
    return ((s * 1000000000 + ns : Nat) : Int)

/-- any time from 1900-03-01 to 2100-02-28 (the 16-bit MJD wraps after 2038-04-22) -/
def genTimeWild : Gen Int := do
  let mjd ← randRange 15079 88127
  let s ← randBelow 86400
  return ((mjd : Int) - 40587) * 86400 + s

/-- every field anywhere in the range of its Go type, whatever the flags and widths say -/
def genWildOfKind (k : Nat) : Gen Descriptor := do
  match k with
  | 0 => return { tag := descriptorTagAC3, ac3 := some (
      { additionalInfo := ← genBlobWild, asvc := ← randField 8, bsid := ← randField 8, componentType := ← randField 8,
        hasASVC := ← randBool, hasBSID := ← randBool, hasComponentType := ← randBool, hasMainID := ← randBool,
        mainID := ← randField 8 }) }
  | 1 => return { tag := descriptorTagAVCVideo, avcVideo := some (
      { avc24HourPictureFlag := ← randBool, avcStillPresent := ← randBool, compatibleFlags := ← randField 8,
        constraintSet0Flag := ← randBool, constraintSet1Flag := ← randBool, constraintSet2Flag := ← randBool,
        levelIDC := ← randField 8, profileIDC := ← randField 8 }) }
  | 2 => return { tag := descriptorTagComponent, component := some (
      { componentTag := ← randField 8, componentType := ← randField 8, iso639LanguageCode := ← genCodeWild,
        streamContent := ← randField 8, streamContentExt := ← randField 8, text := ← genBlobWild }) }
  | 3 =>
    let n ← genCountWild 300
    let items ← genList n (do
      return ({ contentNibbleLevel1 := ← randField 8, contentNibbleLevel2 := ← randField 8,
                userByte := ← randField 8 } : DescriptorContentItem))
    return { tag := descriptorTagContent, content := some { items := items } }
  | 4 => return { tag := descriptorTagDataStreamAlignment, dataStreamAlignment := some { type := ← randField 8 } }
  | 5 => return { tag := descriptorTagEnhancedAC3, enhancedAC3 := some (
      { additionalInfo := ← genBlobWild, asvc := ← randField 8, bsid := ← randField 8, componentType := ← randField 8,
        hasASVC := ← randBool, hasBSID := ← randBool, hasComponentType := ← randBool, hasMainID := ← randBool,
        hasSubStream1 := ← randBool, hasSubStream2 := ← randBool, hasSubStream3 := ← randBool,
        mainID := ← randField 8, mixInfoExists := ← randBool, subStream1 := ← randField 8,
        subStream2 := ← randField 8, subStream3 := ← randField 8 }) }
  | 6 =>
    let n ← genCountWild 140
    let items ← genList n (do
      return ({ content := ← genBlobWild, description := ← genBlobWild } : DescriptorExtendedEventItem))
    return { tag := descriptorTagExtendedEvent, extendedEvent := some (
      { iso639LanguageCode := ← genCodeWild, items := items, lastDescriptorNumber := ← randField 8,
        number := ← randField 8, text := ← genBlobWild }) }
  | 7 =>
    let t ← (do if (← randBool) then pure descriptorTagExtensionSupplementaryAudio else randField 8 : Gen Nat)
    let s : DescriptorExtensionSupplementaryAudio :=
      { editorialClassification := ← randField 8, hasLanguageCode := ← randBool, languageCode := ← genCodeWild,
        mixType := ← randBool, privateData := ← genBlobWild }
    let u ← genBlobWild
    return { tag := descriptorTagExtension, extension := some (
      { supplementaryAudio := if (← chance 2 3) then some s else none, tag := t,
        unknown := if (← chance 2 3) then some u else none }) }
  | 8 => return { tag := descriptorTagISO639LanguageAndAudioType, iso639LanguageAndAudioType := some (
      { language := ← genCodeWild, type := ← randField 8 }) }
  | 9 =>
    let n ← genCountWild 25
    let items ← genList n (do
      return ({ countryCode := ← genCodeWild, countryRegionID := ← randField 8, localTimeOffset := ← genDurationWild,
                localTimeOffsetPolarity := ← randBool, nextTimeOffset := ← genDurationWild,
                timeOfChange := ← genTimeWild } : DescriptorLocalTimeOffsetItem))
    return { tag := descriptorTagLocalTimeOffset, localTimeOffset := some { items := items } }
  | 10 => return { tag := descriptorTagMaximumBitrate, maximumBitrate := some { bitrate := ← randField 32 } }
  | 11 => return { tag := descriptorTagNetworkName, networkName := some { name := ← genBlobWild } }
  | 12 =>
    let n ← genCountWild 70
    let items ← genList n (do
      return ({ countryCode := ← genCodeWild, rating := ← randField 8 } : DescriptorParentalRatingItem))
    return { tag := descriptorTagParentalRating, parentalRating := some { items := items } }
  | 13 => return { tag := descriptorTagPrivateDataIndicator,
                   privateDataIndicator := some { indicator := ← randField 32 } }
  | 14 => return { tag := descriptorTagPrivateDataSpecifier,
                   privateDataSpecifier := some { specifier := ← randField 32 } }
  | 15 => return { tag := descriptorTagRegistration, registration := some (
      { additionalIdentificationInfo := ← genBlobWild, formatIdentifier := ← randField 32 }) }
  | 16 => return { tag := descriptorTagService, service := some (
      { name := ← genBlobWild, provider := ← genBlobWild, type := ← randField 8 }) }
  | 17 => return { tag := descriptorTagShortEvent, shortEvent := some (
      { eventName := ← genBlobWild, language := ← genCodeWild, text := ← genBlobWild }) }
  | 18 => return { tag := descriptorTagStreamIdentifier, streamIdentifier := some { componentTag := ← randField 8 } }
  | 19 =>
    let n ← genCountWild 40
    let items ← genList n (do
      return ({ ancillaryPageID := ← randField 16, compositionPageID := ← randField 16, language := ← genCodeWild,
                type := ← randField 8 } : DescriptorSubtitlingItem))
    return { tag := descriptorTagSubtitling, subtitling := some { items := items } }
  | 20 | 22 =>
    let n ← genCountWild 60
    let items ← genList n (do
      return ({ language := ← genCodeWild, magazine := ← randField 8, page := ← randField 8,
                type := ← randField 8 } : DescriptorTeletextItem))
    if k = 20 then return { tag := descriptorTagTeletext, teletext := some { items := items } }
    else return { tag := descriptorTagVBITeletext, vbiTeletext := some { items := items } }
  | 21 =>
    let n ← genCountWild 100
    let services ← genList n (do
      let id ← (do if (← randBool) then pick [1, 2, 4, 5, 6, 7] else randField 8 : Gen Nat)
      let m ← genCountWild 300
      let descs ← genList m (do
        return ({ fieldParity := ← randBool, lineOffset := ← randField 8 } : DescriptorVBIDataDescriptor))
      return ({ dataServiceID := id, descriptors := descs } : DescriptorVBIDataService))
    return { tag := descriptorTagVBIData, vbiData := some { services := services } }
  | 23 =>
    let t ← genUnknownTag
    return { tag := t, unknown := some { content := ← genBlobWild, tag := ← randField 8 } }
  | _ =>
    let t ← randRange 0x80 0xfe
    return { tag := t, userDefined := ← genBlobWild }

/-- ill-formed descriptor: wild fields; sometimes a tag that does not match the sub-struct (the
sub-struct of the tag's kind is then nil), sometimes a second sub-struct; `length` arbitrary -/
def genDescriptorWild : Gen Descriptor := do
  let d ← genWildOfKind (← randBelow 25)
  let d ← (do
    if (← chance 1 6) then
      let t ← (do if (← randBool) then pick knownDescriptorTags else randField 8 : Gen Nat)
      pure { d with tag := t }
    else pure d : Gen Descriptor)
  let d ← (do
    if (← chance 1 6) then
      let e ← genWildOfKind (← randBelow 23)
      -- graft the sub-struct of `e` (whatever it is) onto `d`; keep what `d` already has
      pure { d with
        ac3 := d.ac3.orElse fun _ => e.ac3, avcVideo := d.avcVideo.orElse fun _ => e.avcVideo,
        component := d.component.orElse fun _ => e.component, content := d.content.orElse fun _ => e.content,
        dataStreamAlignment := d.dataStreamAlignment.orElse fun _ => e.dataStreamAlignment,
        enhancedAC3 := d.enhancedAC3.orElse fun _ => e.enhancedAC3,
        extendedEvent := d.extendedEvent.orElse fun _ => e.extendedEvent,
        extension := d.extension.orElse fun _ => e.extension,
        iso639LanguageAndAudioType := d.iso639LanguageAndAudioType.orElse fun _ => e.iso639LanguageAndAudioType,
        localTimeOffset := d.localTimeOffset.orElse fun _ => e.localTimeOffset,
        maximumBitrate := d.maximumBitrate.orElse fun _ => e.maximumBitrate,
        networkName := d.networkName.orElse fun _ => e.networkName,
        parentalRating := d.parentalRating.orElse fun _ => e.parentalRating,
        privateDataIndicator := d.privateDataIndicator.orElse fun _ => e.privateDataIndicator,
        privateDataSpecifier := d.privateDataSpecifier.orElse fun _ => e.privateDataSpecifier,
        registration := d.registration.orElse fun _ => e.registration,
        service := d.service.orElse fun _ => e.service, shortEvent := d.shortEvent.orElse fun _ => e.shortEvent,
        streamIdentifier := d.streamIdentifier.orElse fun _ => e.streamIdentifier,
        subtitling := d.subtitling.orElse fun _ => e.subtitling, teletext := d.teletext.orElse fun _ => e.teletext,
        vbiData := d.vbiData.orElse fun _ => e.vbiData, vbiTeletext := d.vbiTeletext.orElse fun _ => e.vbiTeletext }
    else pure d : Gen Descriptor)
  let k ← randBelow 3
  if k = 0 then return { d with length := 0 }
  else if k = 1 then return { d with length := calcDescriptorLength d }
  else return { d with length := ← randField 8 }

/-- a loop of ill-formed descriptors, no size limit (`calcDescriptorsLength` may exceed 12 bits) -/
def genDescriptorsWild : Gen (List Descriptor) := do
  let k ← randBelow 20
  let n ← (if k = 0 then randRange 20 60 else randRange 0 5 : Gen Nat)
  genList n genDescriptorWild

end Astits
