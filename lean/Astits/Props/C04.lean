/-
C04 — muxer output is always whole 188-byte packets; byte counts are exact; a rejected call appends nothing.
-/
import Astits.Model.Mux
import Astits.Spec.Mux
import Astits.Proofs.MuxWhole
import Astits.Proofs.MuxFuel
namespace Astits.C04

/-- `writePacket` either rejects the packet having emitted nothing (the model's error carries no bytes), or
emits exactly `target` bytes — provided the bytes of header and adaptation field are as many as the size
computed beforehand (since the writer takes the private-data length byte from the data, true for EVERY adaptation
field: see `afBytes_length_any`; `writePacket_length` below needs no such hypothesis) -/
theorem writePacket_ok_length (p : Packet) (target : Nat) (bs : Bytes)
    (hc : (([syncByte] ++ hdrBytes p.header ++ (if p.header.hasAdaptationField then afBytes (p.adaptationField.getD default) else [])).length : Int)
            = packetHeadSize p)
    (h : writePacket p target = .ok bs) : bs.length = target := by
  unfold writePacket at h
  split at h
  · cases h
  · split at h
    · cases h
    · split at h
      · cases h
      · rename_i h1 h2 h3
        simp only [Res.ok.injEq] at h
        subst h
        simp only [List.length_append, List.length_replicate]
        simp only [List.length_append, Int.natCast_add] at hc
        have hp : (p.payload.length : Int) ≤ target - packetHeadSize p := by omega
        by_cases hpl : p.header.hasPayload = true
        · simp only [hpl, if_true] at *
          omega
        · simp only [hpl] at *
          simp only [Bool.false_eq_true, if_false, List.length_nil] at *
          omega

/-- the three header bytes -/
theorem hdrBytes_length (h : PacketHeader) : (hdrBytes h).length = 3 := by
  simp [hdrBytes, packFields, fieldsWidth, beBytes]

theorem pcrBytes_length (c : ClockReference) : (pcrBytes c).length = 6 := by
  simp [pcrBytes, packFields, fieldsWidth, beBytes]

theorem ptsBytes_length (f : Nat) (c : ClockReference) : (ptsBytes f c).length = 5 := by
  simp [ptsBytes, packFields, fieldsWidth, beBytes]

/-- the adaptation field extension is written with exactly the length it announces -/
theorem afExtBytes_length (e : PacketAdaptationExtensionField) : (afExtBytes e).length = 1 + afExtSize e := by
  unfold afExtBytes afExtSize
  simp only [List.length_append, List.length_cons, List.length_nil]
  have h1 : (packFields [(b2n e.hasLegalTimeWindow, 1), (b2n e.hasPiecewiseRate, 1), (b2n e.hasSeamlessSplice, 1), (0x1f, 5)]).length = 1 := by
    simp [packFields, fieldsWidth, beBytes]
  rw [h1]
  cases e.hasLegalTimeWindow <;> cases e.hasPiecewiseRate <;> cases e.hasSeamlessSplice <;>
    simp [packFields, fieldsWidth, beBytes, ptsBytes_length, ptsOrDTSByteLength]

/-- **declared = written, for ANY adaptation field** (not the one-byte form): the bytes written after the length byte
are exactly `afSize` — the value of adaptation_field_length.  Nothing is assumed about TransportPrivateDataLength (the
writer derives the length byte from `len(TransportPrivateData)`) nor about StuffingLength (negative = 0 bytes). -/
theorem afBytes_length_any (a : PacketAdaptationField) (h1 : a.isOneByteStuffing = false) :
    ((afBytes a).length : Int) = 1 + afSize a := MuxWhole.afBytes_length a h1

/-- **declared = written** (earlier statement, kept: its two hypotheses — TransportPrivateDataLength matches the private
data, StuffingLength not negative — are no longer needed, see `afBytes_length_any`) -/
theorem afBytes_length (a : PacketAdaptationField) (h1 : a.isOneByteStuffing = false)
    (_hp : a.hasTransportPrivateData = true → a.transportPrivateDataLength = a.transportPrivateData.length)
    (_hs : 0 ≤ a.stuffingLength) :
    ((afBytes a).length : Int) = 1 + afSize a := afBytes_length_any a h1

/-- a rejected call leaves the abstract output untouched: every error result of the specification carries no packets
unless they are whole table packets written before the failing PES -/
theorem spec_unknown_pid_appends_nothing (s : Spec.MuxSpec) (d : MuxerData)
    (h : s.streams.any (·.elementaryPID == d.pid) = false) :
    (Spec.step s (.data d)).1.packets = [] ∧ (Spec.step s (.data d)).1.n = 0 ∧ (Spec.step s (.data d)).2 = s := by
  simp [Spec.step, h]

def hdrEx : PacketHeader := { continuityCounter := 5, hasAdaptationField := false, hasPayload := true, payloadUnitStartIndicator := true, pid := 0x100, transportErrorIndicator := false, transportPriority := false, transportScramblingControl := 0 }
example : hdrBytes hdrEx = [0x41, 0x00, 0x15] := by decide

/-! ## C04 on the muxer MODEL: every call, any state, any history (proofs: `Astits/Proofs/MuxWhole.lean`)

No invariant on the muxer state and no well-formedness of the caller's data is assumed anywhere below. -/

open MuxWhole (Whole AllWhole OutOK Call call hist written counted returned)

/-- `writePacket` at full strength (compare `writePacket_ok_length`, which needs the hypothesis `hc`): ANY packet a
caller can build — inconsistent TransportPrivateDataLength, negative StuffingLength, oversize fields — is either
rejected / panics having emitted nothing, or comes out as exactly `target` bytes.  (The adaptation field occupies
exactly the bytes `calcPacketAdaptationFieldSize` reserves, `afBytes_length_any`; 0xff padding fills up after a short
payload.) -/
theorem writePacket_length (p : Packet) (target : Nat) (bs : Bytes) (h : writePacket p target = .ok bs) :
    bs.length = target := MuxWhole.writePacket_length p target bs h

/-- … and starts with the sync byte -/
theorem writePacket_whole (p : Packet) (bs : Bytes) (h : writePacket p 188 = .ok bs) :
    bs.length = 188 ∧ bs.head? = some 0x47 := MuxWhole.writePacket_whole p bs h

/-- **`WriteData`, any state, any data**: every chunk handed to the writer is a whole packet; unless the call
panicked the returned count is the number of bytes handed over — error results included (the model's error results
of `WriteData` DO report the bytes written before the failure: tables and earlier packets); a panicking call is
modelled with `n = 0`, no error. -/
theorem writeData_whole (m : Mux) (d : MuxerData) :
    (∀ c ∈ (m.writeData d).1.chunks, c.length = 188 ∧ c.head? = some 0x47) ∧
    ((m.writeData d).1.panic = false → (m.writeData d).1.n = (chunksLen (m.writeData d).1.chunks : Int)) ∧
    ((m.writeData d).1.panic = true → (m.writeData d).1.n = 0 ∧ (m.writeData d).1.err = none) :=
  let h := MuxWhole.writeData_ok m d
  ⟨h.whole, h.count, h.panicked⟩

/-- **`WriteTables`** (a failing or panicking call hands nothing to the writer and returns 0) -/
theorem writeTablesCall_whole (m : Mux) :
    (∀ c ∈ m.writeTablesCall.1.chunks, c.length = 188 ∧ c.head? = some 0x47) ∧
    (m.writeTablesCall.1.panic = false → m.writeTablesCall.1.n = (chunksLen m.writeTablesCall.1.chunks : Int)) ∧
    (m.writeTablesCall.1.panic = true → m.writeTablesCall.1.n = 0 ∧ m.writeTablesCall.1.err = none ∧
      m.writeTablesCall.1.chunks = []) :=
  let h := MuxWhole.writeTablesCall_ok m
  ⟨h.whole, h.count, fun hp => ⟨(h.panicked hp).1, (h.panicked hp).2, MuxWhole.writeTablesCall_panic_chunks m hp⟩⟩

/-- **`WritePacket` with an arbitrary caller packet** -/
theorem writePacketCall_whole (m : Mux) (p : Packet) :
    (∀ c ∈ (m.writePacketCall p).1.chunks, c.length = 188 ∧ c.head? = some 0x47) ∧
    ((m.writePacketCall p).1.panic = false →
      (m.writePacketCall p).1.n = (chunksLen (m.writePacketCall p).1.chunks : Int)) ∧
    ((m.writePacketCall p).1.panic = true → (m.writePacketCall p).1.n = 0 ∧ (m.writePacketCall p).1.err = none ∧
      (m.writePacketCall p).1.chunks = []) :=
  let h := MuxWhole.writePacketCall_ok m p
  ⟨h.whole, h.count, fun hp => ⟨(h.panicked hp).1, (h.panicked hp).2, MuxWhole.writePacketCall_panic_chunks m p hp⟩⟩

/-- panics are caller misuse (1): `WritePacket` panics exactly on a packet flagged HasAdaptationField whose
adaptation field is nil, or has a set flag (PCR, OPCR, extension, DTSNextAccessUnit) with a nil pointer behind it -/
theorem writePacketCall_panic_iff (m : Mux) (p : Packet) :
    (m.writePacketCall p).1.panic = true ↔
      (p.header.hasAdaptationField = true ∧
        (p.adaptationField.isNone = true ∨ (p.adaptationField.map afNilDeref).getD false = true)) :=
  MuxWhole.writePacketCall_panic_iff m p

/-- panics are caller misuse (2): a panicking `WriteData` either panicked while generating the tables (a nil pointer
in a registered stream's descriptors; nothing was written), or its data is not `DataWF` (nil pointer behind a set
flag of the PES optional header / adaptation field, or PES header bytes longer than the announced length).  Only in
the second case can whole packets (the tables, an adaptation-field-only packet) already have reached the writer. -/
theorem writeData_panic_cases (m : Mux) (d : MuxerData) (h : (m.writeData d).1.panic = true) :
    ((m.retransmitTables (MuxCounters.dataForce m d)).1 = .panic ∧ (m.writeData d).1.chunks = []) ∨
      ¬ MuxCounters.DataWF d :=
  MuxWhole.writeData_panic_cases m d h

/-- **every call** (`Call` = AddElementaryStream | RemoveElementaryStream | SetPCRPID | WriteTables | WriteData |
WritePacket with any packet; `call m c` = result and new state) -/
theorem call_whole (m : Mux) (c : Call) :
    (∀ ch ∈ (call m c).1.chunks, ch.length = 188 ∧ ch.head? = some 0x47) ∧
    ((call m c).1.panic = false → (call m c).1.n = (chunksLen (call m c).1.chunks : Int)) ∧
    ((call m c).1.panic = true → (call m c).1.n = 0 ∧ (call m c).1.err = none) :=
  let h := MuxWhole.call_ok m c
  ⟨h.whole, h.count, h.panicked⟩

/-- **history form**, from ANY state `m` and for ANY list of calls, rejected and panicking ones included
(`hist m cs` = the results of the calls in order; `written` = all chunks handed to the writer, in order;
`counted` = sum of the returned counts; `returned` = the calls that did not panic):
1. every chunk is a whole packet beginning with 0x47;
2. the byte stream the writer received has length 188 × (number of chunks);
3. the sum of the returned counts equals the bytes written by the calls that returned;
4. if no call panicked, the sum of the returned counts equals the length of the byte stream. -/
theorem history_whole (m : Mux) (cs : List Call) :
    (∀ ch ∈ written (hist m cs).1, ch.length = 188 ∧ ch.head? = some 0x47) ∧
    (written (hist m cs).1).flatten.length = 188 * (written (hist m cs).1).length ∧
    counted (hist m cs).1 = ((written (returned (hist m cs).1)).flatten.length : Int) ∧
    ((∀ o ∈ (hist m cs).1, o.panic = false) →
      counted (hist m cs).1 = ((written (hist m cs).1).flatten.length : Int)) := by
  have hall := MuxWhole.hist_all_ok m cs
  have hw := MuxWhole.written_whole _ hall
  have hc := MuxWhole.counted_eq _ hall
  refine ⟨hw, ?_, ?_, ?_⟩
  · rw [← MuxWhole.chunksLen_flatten]; exact hw.chunksLen
  · rw [← MuxWhole.chunksLen_flatten]; exact hc
  · intro hp
    rw [← MuxWhole.chunksLen_flatten, hc, MuxWhole.returned_of_noPanic _ hp]

/-- the same for the histories of `MuxCounters.run` from `newMux period` (the operations of C05/C01: no
`WritePacket`): `run` collects exactly the chunks of `hist`, so its output is whole packets, 188 × count bytes -/
theorem run_whole (period : Nat) (ops : List MuxCounters.Op) :
    (∀ ch ∈ (MuxCounters.run (newMux period) ops).1, ch.length = 188 ∧ ch.head? = some 0x47) ∧
    (MuxCounters.run (newMux period) ops).1.flatten.length = 188 * (MuxCounters.run (newMux period) ops).1.length ∧
    (MuxCounters.run (newMux period) ops).1 = written (hist (newMux period) (ops.map .op)).1 := by
  have e : written (hist (newMux period) (ops.map .op)).1 = (MuxCounters.run (newMux period) ops).1 :=
    congrArg Prod.fst (MuxWhole.hist_ops (newMux period) ops)
  have h := history_whole (newMux period) (ops.map .op)
  rw [e] at h
  exact ⟨h.1, h.2.1, e.symm⟩

/-! ### non-vacuity: a history with every kind of call, including rejected calls, an inconsistent caller packet,
and a panicking call -/

/-- a caller packet whose adaptation field announces 200 private bytes it does not have, with a negative
StuffingLength: still comes out as exactly 188 bytes -/
def oddPkt : Packet :=
  { header := { hdrEx with hasAdaptationField := true },
    adaptationField := some { hasTransportPrivateData := true, transportPrivateDataLength := 200,
                              transportPrivateData := [1, 2, 3], stuffingLength := -5 },
    payload := [9, 9, 9] }
/-- misuse: HasAdaptationField with a nil adaptation field -/
def nilPkt : Packet := { header := { hdrEx with hasAdaptationField := true }, adaptationField := none }
/-- rejected: payload too long -/
def bigPkt : Packet := { header := hdrEx, payload := List.replicate 185 0 }

def exCalls : List Call :=
  [.op (.data { pid := 0x100, pes := { data := [1, 2, 3] } }),                 -- rejected: unknown PID
   .op (.add { elementaryPID := 0x100, streamType := 0x1b }),
   .op (.data { pid := 0x100, pes := { data := [1, 2, 3] } }),                 -- rejected: PCR PID invalid
   .op (.setPCR 0x100),
   .op (.data { pid := 0x100, pes := { data := List.replicate 400 7, header := { streamID := 0xe0 } } }),
   .packet oddPkt, .packet nilPkt, .packet bigPkt,
   .op .tables,
   .op (.add { elementaryPID := 0x100, streamType := 0x1b })]                  -- rejected: PID exists

example : ((hist (newMux 40) exCalls).1.map fun o => (o.n, o.err, o.panic, o.chunks.length)) =
    [(0, some .pidNotFound, false, 0), (0, none, false, 0), (0, some .pcrInvalid, false, 0), (0, none, false, 0),
     (940, none, false, 5), (188, none, false, 1), (0, none, true, 0), (0, some .other, false, 0),
     (376, none, false, 2), (0, some .pidExists, false, 0)] ∧
    counted (hist (newMux 40) exCalls).1 = 1504 ∧ (written (hist (newMux 40) exCalls).1).length = 8 ∧
    (written (hist (newMux 40) exCalls).1).flatten.length = 1504 := by decide +kernel

/-- the `panic = false` premise of the count clause is necessary: a `WriteData` whose adaptation field has HasPCR set
but a nil PCR panics in the first packet AFTER the two table packets have reached the writer (Go: the panic unwinds
`WriteData`, no count is returned; model: `n = 0`, 2 chunks) -/
def panicCalls : List Call :=
  [.op (.add { elementaryPID := 0x100, streamType := 0x1b }), .op (.setPCR 0x100),
   .op (.data { pid := 0x100, adaptationField := some { hasPCR := true, pcr := none },
                pes := { data := [1, 2, 3], header := { streamID := 0xe0 } } })]

example : ((hist (newMux 40) panicCalls).1.map fun o => (o.n, o.err, o.panic, o.chunks.length)) =
    [(0, none, false, 0), (0, none, false, 0), (0, none, true, 2)] := by decide +kernel

/-! ## C04-fuel — the fuel of the packetisation loop

`writeDataLoop` is fuel-recursive and `Mux.writeData` runs it with fuel `data.length + 2`; its fuel-exhausted branch
returns `Err.other`, an outcome the Go `for` loop does not have.  The theorems below show that the branch is
unreachable from `Mux.writeData` except in exactly one corner (1 payload byte, PES header written on exactly 184
bytes, caller adaptation field sent alone first), where the MODEL — not the Go code — reports a spurious error after
having emitted the same three packets the Go code emits.  `MuxFuel.Exhausted pid hdr fuel data ps waf af cc acc`
says that the run `writeDataLoop pid hdr fuel data ps waf af cc acc` ends in the `0` branch (defined through the
instrumented loop `MuxFuel.loopT`, which projects onto `writeDataLoop`: `MuxFuel.loopT_fst`). -/

open MuxFuel in
/-- **(F1) fuel monotonicity**: a run that does not end in the fuel-exhausted branch returns the same result,
and does not end in that branch either, with every larger fuel -/
theorem loop_fuel_mono (pid : Nat) (hdr : PESHeader) (fuel fuel' : Nat) (data : Bytes) (ps waf : Bool)
    (af : Option PacketAdaptationField) (cc : WrappingCounter) (acc : List Bytes)
    (h : ¬ Exhausted pid hdr fuel data ps waf af cc acc) (hle : fuel ≤ fuel') :
    writeDataLoop pid hdr fuel' data ps waf af cc acc = writeDataLoop pid hdr fuel data ps waf af cc acc ∧
    ¬ Exhausted pid hdr fuel' data ps waf af cc acc :=
  fuel_mono pid hdr fuel fuel' data ps waf af cc acc h hle

open MuxFuel in
/-- **(F2) sufficiency**: for a PES header announced with at most 183 bytes — every payload, adaptation field,
`writeAf` flag, counter and accumulator — the run with the fuel `Mux.writeData` provides does not reach the `0`
branch, and equals the run with any larger fuel (the fuel-free semantics) -/
theorem loop_fuel_suffices (pid : Nat) (hdr : PESHeader)
    (hC : 6 + calcPESOptionalHeaderLength hdr.optionalHeader ≤ 183)
    (data : Bytes) (waf : Bool) (af : Option PacketAdaptationField) (cc : WrappingCounter) (acc : List Bytes) :
    ¬ Exhausted pid hdr (data.length + 2) data true waf af cc acc ∧
    ∀ k, writeDataLoop pid hdr (data.length + 2 + k) data true waf af cc acc =
         writeDataLoop pid hdr (data.length + 2) data true waf af cc acc :=
  fuel_suffices pid hdr hC data waf af cc acc

open MuxFuel MuxCounters in
/-- **(F2) exact characterisation**, for EVERY header: the run `Mux.writeData` makes is exhausted iff there is
exactly 1 payload byte, the PES header is written (without nil dereference) on exactly 184 bytes, and the caller's
adaptation field is written first in a packet of its own.  One more unit of fuel always suffices. -/
theorem loop_fuel_exhausted_iff (pid : Nat) (hdr : PESHeader) (data : Bytes) (waf : Bool)
    (af : Option PacketAdaptationField) (cc : WrappingCounter) (acc : List Bytes) :
    (Exhausted pid hdr (data.length + 2) data true waf af cc acc ↔
      data.length = 1 ∧ (pesHeaderBytes hdr 1).length = 184 ∧ ¬ PesNil hdr ∧
      ∃ a bs, (if waf then af else none) = some a ∧
        writePacket (afOnlyPkt pid (cc.get % 16) { a with stuffingLength := bytesAvail waf af }) 188 = .ok bs) ∧
    (∀ fuel, data.length + 3 ≤ fuel → ¬ Exhausted pid hdr fuel data true waf af cc acc) :=
  ⟨start_exhausted_iff pid hdr data waf af cc acc, fun fuel hf => fuel_plus_one_suffices pid hdr data waf af cc acc fuel hf⟩

open MuxFuel in
/-- in the corner the model's run and every longer run emit the same three packets and end in the same counter
and adaptation field; the model reports `Err.other`, the longer runs (the Go loop) report success -/
theorem loop_fuel_corner (pid : Nat) (hdr : PESHeader) (data : Bytes) (waf : Bool)
    (af : Option PacketAdaptationField) (cc : WrappingCounter) (acc : List Bytes)
    (h : Exhausted pid hdr (data.length + 2) data true waf af cc acc) :
    ∃ bs0 bs1 bs2 cc' af',
      writeDataLoop pid hdr (data.length + 2) data true waf af cc acc =
        (.err .other, cc', af', acc ++ [bs0] ++ [bs1] ++ [bs2]) ∧
      ∀ k, writeDataLoop pid hdr (data.length + 3 + k) data true waf af cc acc =
        (.ok (acc ++ [bs0] ++ [bs1] ++ [bs2]), cc', af', acc ++ [bs0] ++ [bs1] ++ [bs2]) :=
  corner_runs pid hdr data waf af cc acc h

open MuxFuel in
/-- **(F3)**: for every muxer state, a `WriteData` whose data is not in the corner (`DataCorner d`: 1 payload byte,
an adaptation field, PES header announced with exactly 184 bytes) — in particular every `WriteData` with a PES
header announced with at most 183 bytes — returns exactly what the same definition returns with `k` more units
of fuel, for every `k`: result, muxer state, caller's data -/
theorem writeData_fuel_irrelevant (m : Mux) (d : MuxerData) (k : Nat) :
    (¬ DataCorner d → writeDataK k m d = m.writeData d) ∧
    (6 + calcPESOptionalHeaderLength d.pes.header.optionalHeader ≤ 183 → writeDataK k m d = m.writeData d) ∧
    writeDataK 0 m d = m.writeData d :=
  ⟨fun h => MuxFuel.writeData_fuel_irrelevant m d h k, fun h => writeData_fuel_irrelevant_183 m d h k, rfl⟩

open MuxFuel in
/-- **(F3) provenance of errors**: every error `Mux.writeData` returns has one of the reasons of
`MuxFuel.ErrReason` — unknown PID; PES header announced with more than 184 bytes; table generation failed; the
caller's adaptation field is sent alone and `writePacket` rejects it (too large); or, ONLY in the corner, the
model's fuel ran out.  With a header announced with at most 183 bytes only the reasons of the Go code remain. -/
theorem writeData_err_reason (m : Mux) (d : MuxerData) (e : Err) (h : (m.writeData d).1.err = some e) :
    ErrReason m d e ∧
    (6 + calcPESOptionalHeaderLength d.pes.header.optionalHeader ≤ 183 →
      (m.ccOf d.pid = none ∧ e = .pidNotFound) ∨
      (m.retransmitTables (MuxCounters.dataForce m d)).1 = .err e ∨
      (e = .other ∧ ∃ cc a, m.ccOf d.pid = some cc ∧ d.adaptationField = some a ∧
        MuxCounters.bytesAvail true (some a) < 6 + (calcPESOptionalHeaderLength d.pes.header.optionalHeader : Int) ∧
        writePacket (MuxCounters.afOnlyPkt d.pid (cc.get % 16)
          { a with stuffingLength := MuxCounters.bytesAvail true (some a) }) 188 = .err e)) :=
  ⟨MuxFuel.writeData_err_reason m d e h, fun hC => writeData_err_reason_183 m d e hC h⟩

open MuxFuel in
/-- the corner at the level of `WriteData`: `Err.other` from the model, success (same chunks, same count, same
muxer state) from the same definition with any additional fuel -/
theorem writeData_fuel_corner (m : Mux) (d : MuxerData) (cc : WrappingCounter) (hcc : m.ccOf d.pid = some cc)
    (hfit : ¬ 6 + calcPESOptionalHeaderLength d.pes.header.optionalHeader > 184)
    (tcs : List Bytes) (m1 : Mux) (hr : m.retransmitTables (MuxCounters.dataForce m d) = (.ok tcs, m1))
    (hx : Exhausted d.pid (MuxCounters.dataHdr m1 d) (d.pes.data.length + 2) d.pes.data true d.adaptationField.isSome
            d.adaptationField cc []) :
    ∃ bs0 bs1 bs2,
      (m.writeData d).1.err = some .other ∧ (m.writeData d).1.chunks = tcs ++ [bs0, bs1, bs2] ∧
      ∀ k, (writeDataK (k + 1) m d).1.err = none ∧ (writeDataK (k + 1) m d).1.panic = false ∧
        (writeDataK (k + 1) m d).1.chunks = (m.writeData d).1.chunks ∧
        (writeDataK (k + 1) m d).1.n = (m.writeData d).1.n ∧
        (writeDataK (k + 1) m d).2.1 = (m.writeData d).2.1 :=
  writeData_corner m d cc hcc hfit tcs m1 hr hx

/-! ### non-vacuity and the corner, evaluated -/

/-- an ordinary PES header (PTS only): announced with 14 bytes -/
def hdrPTS : PESHeader := { streamID := 0xe0, optionalHeader := some { ptsDTSIndicator := 2, pts := some { base := 90000, extension := 0 } } }
example : 6 + calcPESOptionalHeaderLength hdrPTS.optionalHeader ≤ 183 := by decide

/-- a PES header written on exactly 184 bytes: 173 bytes of extension-2 data -/
def hdr184 : PESHeader :=
  { streamID := 0xe0,
    optionalHeader := some { hasExtension := true, hasExtension2 := true, extension2Data := List.replicate 173 7 } }
def afRAI : PacketAdaptationField := { randomAccessIndicator := true }

example : 6 + calcPESOptionalHeaderLength hdr184.optionalHeader = 184 ∧ (pesHeaderBytes hdr184 1).length = 184 := by
  decide +kernel

/-- **the corner**: header of 184 bytes, caller adaptation field, 1 payload byte — fuel 3 is exhausted after three
packets; with fuel 4 the run succeeds with the same three packets -/
example :
    MuxFuel.Exhausted 256 hdr184 3 [9] true true (some afRAI) (newWrappingCounter 15) [] ∧
    (writeDataLoop 256 hdr184 3 [9] true true (some afRAI) (newWrappingCounter 15) []).2.2.2.length = 3 ∧
    (writeDataLoop 256 hdr184 4 [9] true true (some afRAI) (newWrappingCounter 15) []).1.isOk = true ∧
    (writeDataLoop 256 hdr184 4 [9] true true (some afRAI) (newWrappingCounter 15) []).2.2.2 =
      (writeDataLoop 256 hdr184 3 [9] true true (some afRAI) (newWrappingCounter 15) []).2.2.2 := by
  decide +kernel

/-- not the corner: the same header without adaptation field, or with 2 payload bytes -/
example :
    ¬ MuxFuel.Exhausted 256 hdr184 3 [9] true false none (newWrappingCounter 15) [] ∧
    ¬ MuxFuel.Exhausted 256 hdr184 4 [9, 9] true true (some afRAI) (newWrappingCounter 15) [] := by
  decide +kernel

/-- a muxer with one stream that is the PCR PID -/
def muxEx : Mux :=
  (MuxCounters.run (newMux 40) [.add { elementaryPID := 0x100, streamType := 0x1b }, .setPCR 0x100]).2
def cornerData : MuxerData := { pid := 0x100, adaptationField := some afRAI, pes := { data := [9], header := hdr184 } }

/-- the corner through `WriteData`: the model returns `Err.other` with 5 chunks (PAT, PMT, three packets) and
940 bytes; with one more unit of fuel the same call succeeds with the same chunks -/
example : MuxFuel.DataCorner cornerData ∧
    ((muxEx.writeData cornerData).1.err, (muxEx.writeData cornerData).1.chunks.length, (muxEx.writeData cornerData).1.n)
      = (some .other, 5, 940) ∧
    ((MuxFuel.writeDataK 1 muxEx cornerData).1.err, (MuxFuel.writeDataK 1 muxEx cornerData).1.chunks.length,
      (MuxFuel.writeDataK 1 muxEx cornerData).1.n) = (none, 5, 940) ∧
    (MuxFuel.writeDataK 1 muxEx cornerData).1.chunks = (muxEx.writeData cornerData).1.chunks := by
  decide +kernel

/-- outside the corner: hypotheses of (F3) satisfied by ordinary data -/
example : ¬ MuxFuel.DataCorner { pid := 0x100, adaptationField := some afRAI, pes := { data := [9, 9], header := hdr184 } } ∧
    ¬ MuxFuel.DataCorner { pid := 0x100, adaptationField := some afRAI, pes := { data := [9], header := hdrPTS } } := by
  decide +kernel

/-- the one loop error the Go code has too: an adaptation field larger than a packet (200 private bytes) is
rejected by `writePacket` after the tables have been written -/
def bigAFData : MuxerData :=
  { pid := 0x100,
    adaptationField := some { hasTransportPrivateData := true, transportPrivateDataLength := 200,
                              transportPrivateData := List.replicate 200 0 },
    pes := { data := [9], header := hdrPTS } }
example : ((muxEx.writeData bigAFData).1.err, (muxEx.writeData bigAFData).1.chunks.length) = (some .other, 2) ∧
    ¬ MuxFuel.DataCorner bigAFData := by
  decide +kernel

end Astits.C04
