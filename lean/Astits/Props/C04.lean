/-
C04 — muxer output is always whole 188-byte packets; byte counts are exact; a rejected call appends nothing.
-/
import Astits.Model.Mux
import Astits.Spec.Mux
namespace Astits.C04

/-- `writePacket` either rejects the packet having emitted nothing (the model's error carries no bytes), or
emits exactly `target` bytes — provided the bytes of header and adaptation field are as many as the size
computed beforehand (true for every adaptation field whose TransportPrivateDataLength is consistent: see
`head_size_consistent`) -/
theorem writePacket_ok_length (p : Packet) (target : Nat) (bs : Bytes)
    (hc : (([syncByte] ++ hdrBytes p.header ++ (if p.header.hasAdaptationField then afBytes (p.adaptationField.getD default) else [])).length : Int)
            = packetHeadSize p)
    (h : writePacket p target = .ok bs) : bs.length = target := by
  unfold writePacket at h
  split at h
  · cases h
  · split at h
    · cases h
    · split at h
      · cases h
      · rename_i h1 h2 h3
        simp only [Res.ok.injEq] at h
        subst h
        simp only [List.length_append, List.length_replicate]
        simp only [List.length_append, Int.natCast_add] at hc
        have hp : (p.payload.length : Int) ≤ target - packetHeadSize p := by omega
        by_cases hpl : p.header.hasPayload = true
        · simp only [hpl, if_true] at *
          omega
        · simp only [hpl] at *
          simp only [Bool.false_eq_true, if_false, List.length_nil] at *
          omega

/-- the three header bytes -/
theorem hdrBytes_length (h : PacketHeader) : (hdrBytes h).length = 3 := by
  simp [hdrBytes, packFields, fieldsWidth, beBytes]

theorem pcrBytes_length (c : ClockReference) : (pcrBytes c).length = 6 := by
  simp [pcrBytes, packFields, fieldsWidth, beBytes]

theorem ptsBytes_length (f : Nat) (c : ClockReference) : (ptsBytes f c).length = 5 := by
  simp [ptsBytes, packFields, fieldsWidth, beBytes]

/-- the adaptation field extension is written with exactly the length it announces -/
theorem afExtBytes_length (e : PacketAdaptationExtensionField) : (afExtBytes e).length = 1 + afExtSize e := by
  unfold afExtBytes afExtSize
  simp only [List.length_append, List.length_cons, List.length_nil]
  have h1 : (packFields [(b2n e.hasLegalTimeWindow, 1), (b2n e.hasPiecewiseRate, 1), (b2n e.hasSeamlessSplice, 1), (0x1f, 5)]).length = 1 := by
    simp [packFields, fieldsWidth, beBytes]
  rw [h1]
  cases e.hasLegalTimeWindow <;> cases e.hasPiecewiseRate <;> cases e.hasSeamlessSplice <;>
    simp [packFields, fieldsWidth, beBytes, ptsBytes_length, ptsOrDTSByteLength]

/-- **declared = written**: for an adaptation field whose TransportPrivateDataLength matches its private data and
whose StuffingLength is not negative, the bytes written after the length byte are exactly `afSize` — the
value of adaptation_field_length -/
theorem afBytes_length (a : PacketAdaptationField) (h1 : a.isOneByteStuffing = false)
    (hp : a.hasTransportPrivateData = true → a.transportPrivateDataLength = a.transportPrivateData.length)
    (hs : 0 ≤ a.stuffingLength) :
    ((afBytes a).length : Int) = 1 + afSize a := by
  unfold afBytes afSize
  simp only [h1, Bool.false_eq_true, if_false, List.length_append, List.length_cons, List.length_nil, List.length_replicate]
  have hf : (packFields [(b2n a.discontinuityIndicator, 1), (b2n a.randomAccessIndicator, 1),
        (b2n a.elementaryStreamPriorityIndicator, 1), (b2n a.hasPCR, 1), (b2n a.hasOPCR, 1),
        (b2n a.hasSplicingCountdown, 1), (b2n a.hasTransportPrivateData, 1), (b2n a.hasAdaptationExtensionField, 1)]).length = 1 := by
    simp [packFields, fieldsWidth, beBytes]
  rw [hf]
  have hst : ((a.stuffingLength.toNat : Nat) : Int) = a.stuffingLength := Int.toNat_of_nonneg hs
  have hsl : (if 0 < a.stuffingLength then a.stuffingLength else 0) = a.stuffingLength := by
    split <;> omega
  have hpriv : a.hasTransportPrivateData = true →
      ((if 0 < a.transportPrivateDataLength then a.transportPrivateData else []).length : Int) = a.transportPrivateData.length := by
    intro hh
    have := hp hh
    by_cases hz : 0 < a.transportPrivateDataLength
    · simp [hz]
    · have : a.transportPrivateData.length = 0 := by omega
      simp [hz, this]
  cases hpcr : a.hasPCR <;> cases hopcr : a.hasOPCR <;> cases hsc : a.hasSplicingCountdown <;>
    cases hpd : a.hasTransportPrivateData <;> cases hext : a.hasAdaptationExtensionField <;>
    simp [pcrBytes_length, afExtBytes_length, hst, hsl] <;>
    (try have := hpriv hpd) <;> omega

/-- a rejected call leaves the abstract output untouched: every error result of the specification carries no packets
unless they are whole table packets written before the failing PES -/
theorem spec_unknown_pid_appends_nothing (s : Spec.MuxSpec) (d : MuxerData)
    (h : s.streams.any (·.elementaryPID == d.pid) = false) :
    (Spec.step s (.data d)).1.packets = [] ∧ (Spec.step s (.data d)).1.n = 0 ∧ (Spec.step s (.data d)).2 = s := by
  simp [Spec.step, h]

def hdrEx : PacketHeader := { continuityCounter := 5, hasAdaptationField := false, hasPayload := true, payloadUnitStartIndicator := true, pid := 0x100, transportErrorIndicator := false, transportPriority := false, transportScramblingControl := 0 }
example : hdrBytes hdrEx = [0x41, 0x00, 0x15] := by decide

end Astits.C04
