/-
C04 — muxer output is always whole 188-byte packets; byte counts are exact; a rejected call appends nothing.
-/
import Astits.Model.Mux
import Astits.Spec.Mux
import Astits.Proofs.MuxWhole
namespace Astits.C04

/-- `writePacket` either rejects the packet having emitted nothing (the model's error carries no bytes), or
emits exactly `target` bytes — provided the bytes of header and adaptation field are as many as the size
computed beforehand (since the writer takes the private-data length byte from the data, true for EVERY adaptation
field: see `afBytes_length_any`; `writePacket_length` below needs no such hypothesis) -/
theorem writePacket_ok_length (p : Packet) (target : Nat) (bs : Bytes)
    (hc : (([syncByte] ++ hdrBytes p.header ++ (if p.header.hasAdaptationField then afBytes (p.adaptationField.getD default) else [])).length : Int)
            = packetHeadSize p)
    (h : writePacket p target = .ok bs) : bs.length = target := by
  unfold writePacket at h
  split at h
  · cases h
  · split at h
    · cases h
    · split at h
      · cases h
      · rename_i h1 h2 h3
        simp only [Res.ok.injEq] at h
        subst h
        simp only [List.length_append, List.length_replicate]
        simp only [List.length_append, Int.natCast_add] at hc
        have hp : (p.payload.length : Int) ≤ target - packetHeadSize p := by omega
        by_cases hpl : p.header.hasPayload = true
        · simp only [hpl, if_true] at *
          omega
        · simp only [hpl] at *
          simp only [Bool.false_eq_true, if_false, List.length_nil] at *
          omega

/-- the three header bytes -/
theorem hdrBytes_length (h : PacketHeader) : (hdrBytes h).length = 3 := by
  simp [hdrBytes, packFields, fieldsWidth, beBytes]

theorem pcrBytes_length (c : ClockReference) : (pcrBytes c).length = 6 := by
  simp [pcrBytes, packFields, fieldsWidth, beBytes]

theorem ptsBytes_length (f : Nat) (c : ClockReference) : (ptsBytes f c).length = 5 := by
  simp [ptsBytes, packFields, fieldsWidth, beBytes]

/-- the adaptation field extension is written with exactly the length it announces -/
theorem afExtBytes_length (e : PacketAdaptationExtensionField) : (afExtBytes e).length = 1 + afExtSize e := by
  unfold afExtBytes afExtSize
  simp only [List.length_append, List.length_cons, List.length_nil]
  have h1 : (packFields [(b2n e.hasLegalTimeWindow, 1), (b2n e.hasPiecewiseRate, 1), (b2n e.hasSeamlessSplice, 1), (0x1f, 5)]).length = 1 := by
    simp [packFields, fieldsWidth, beBytes]
  rw [h1]
  cases e.hasLegalTimeWindow <;> cases e.hasPiecewiseRate <;> cases e.hasSeamlessSplice <;>
    simp [packFields, fieldsWidth, beBytes, ptsBytes_length, ptsOrDTSByteLength]

/-- **declared = written, for ANY adaptation field** (not the one-byte form): the bytes written after the length byte
are exactly `afSize` — the value of adaptation_field_length.  Nothing is assumed about TransportPrivateDataLength (the
writer derives the length byte from `len(TransportPrivateData)`) nor about StuffingLength (negative = 0 bytes). -/
theorem afBytes_length_any (a : PacketAdaptationField) (h1 : a.isOneByteStuffing = false) :
    ((afBytes a).length : Int) = 1 + afSize a := MuxWhole.afBytes_length a h1

/-- **declared = written** (earlier statement, kept: its two hypotheses — TransportPrivateDataLength matches the private
data, StuffingLength not negative — are no longer needed, see `afBytes_length_any`) -/
theorem afBytes_length (a : PacketAdaptationField) (h1 : a.isOneByteStuffing = false)
    (_hp : a.hasTransportPrivateData = true → a.transportPrivateDataLength = a.transportPrivateData.length)
    (_hs : 0 ≤ a.stuffingLength) :
    ((afBytes a).length : Int) = 1 + afSize a := afBytes_length_any a h1

/-- a rejected call leaves the abstract output untouched: every error result of the specification carries no packets
unless they are whole table packets written before the failing PES -/
theorem spec_unknown_pid_appends_nothing (s : Spec.MuxSpec) (d : MuxerData)
    (h : s.streams.any (·.elementaryPID == d.pid) = false) :
    (Spec.step s (.data d)).1.packets = [] ∧ (Spec.step s (.data d)).1.n = 0 ∧ (Spec.step s (.data d)).2 = s := by
  simp [Spec.step, h]

def hdrEx : PacketHeader := { continuityCounter := 5, hasAdaptationField := false, hasPayload := true, payloadUnitStartIndicator := true, pid := 0x100, transportErrorIndicator := false, transportPriority := false, transportScramblingControl := 0 }
example : hdrBytes hdrEx = [0x41, 0x00, 0x15] := by decide

/-! ## C04 on the muxer MODEL: every call, any state, any history (proofs: `Astits/Proofs/MuxWhole.lean`)

No invariant on the muxer state and no well-formedness of the caller's data is assumed anywhere below. -/

open MuxWhole (Whole AllWhole OutOK Call call hist written counted returned)

/-- `writePacket` at full strength (compare `writePacket_ok_length`, which needs the hypothesis `hc`): ANY packet a
caller can build — inconsistent TransportPrivateDataLength, negative StuffingLength, oversize fields — is either
rejected / panics having emitted nothing, or comes out as exactly `target` bytes.  (The adaptation field occupies
exactly the bytes `calcPacketAdaptationFieldSize` reserves, `afBytes_length_any`; 0xff padding fills up after a short
payload.) -/
theorem writePacket_length (p : Packet) (target : Nat) (bs : Bytes) (h : writePacket p target = .ok bs) :
    bs.length = target := MuxWhole.writePacket_length p target bs h

/-- … and starts with the sync byte -/
theorem writePacket_whole (p : Packet) (bs : Bytes) (h : writePacket p 188 = .ok bs) :
    bs.length = 188 ∧ bs.head? = some 0x47 := MuxWhole.writePacket_whole p bs h

/-- **`WriteData`, any state, any data**: every chunk handed to the writer is a whole packet; unless the call
panicked the returned count is the number of bytes handed over — error results included (the model's error results
of `WriteData` DO report the bytes written before the failure: tables and earlier packets); a panicking call is
modelled with `n = 0`, no error. -/
theorem writeData_whole (m : Mux) (d : MuxerData) :
    (∀ c ∈ (m.writeData d).1.chunks, c.length = 188 ∧ c.head? = some 0x47) ∧
    ((m.writeData d).1.panic = false → (m.writeData d).1.n = (chunksLen (m.writeData d).1.chunks : Int)) ∧
    ((m.writeData d).1.panic = true → (m.writeData d).1.n = 0 ∧ (m.writeData d).1.err = none) :=
  let h := MuxWhole.writeData_ok m d
  ⟨h.whole, h.count, h.panicked⟩

/-- **`WriteTables`** (a failing or panicking call hands nothing to the writer and returns 0) -/
theorem writeTablesCall_whole (m : Mux) :
    (∀ c ∈ m.writeTablesCall.1.chunks, c.length = 188 ∧ c.head? = some 0x47) ∧
    (m.writeTablesCall.1.panic = false → m.writeTablesCall.1.n = (chunksLen m.writeTablesCall.1.chunks : Int)) ∧
    (m.writeTablesCall.1.panic = true → m.writeTablesCall.1.n = 0 ∧ m.writeTablesCall.1.err = none ∧
      m.writeTablesCall.1.chunks = []) :=
  let h := MuxWhole.writeTablesCall_ok m
  ⟨h.whole, h.count, fun hp => ⟨(h.panicked hp).1, (h.panicked hp).2, MuxWhole.writeTablesCall_panic_chunks m hp⟩⟩

/-- **`WritePacket` with an arbitrary caller packet** -/
theorem writePacketCall_whole (m : Mux) (p : Packet) :
    (∀ c ∈ (m.writePacketCall p).1.chunks, c.length = 188 ∧ c.head? = some 0x47) ∧
    ((m.writePacketCall p).1.panic = false →
      (m.writePacketCall p).1.n = (chunksLen (m.writePacketCall p).1.chunks : Int)) ∧
    ((m.writePacketCall p).1.panic = true → (m.writePacketCall p).1.n = 0 ∧ (m.writePacketCall p).1.err = none ∧
      (m.writePacketCall p).1.chunks = []) :=
  let h := MuxWhole.writePacketCall_ok m p
  ⟨h.whole, h.count, fun hp => ⟨(h.panicked hp).1, (h.panicked hp).2, MuxWhole.writePacketCall_panic_chunks m p hp⟩⟩

/-- panics are caller misuse (1): `WritePacket` panics exactly on a packet flagged HasAdaptationField whose
adaptation field is nil, or has a set flag (PCR, OPCR, extension, DTSNextAccessUnit) with a nil pointer behind it -/
theorem writePacketCall_panic_iff (m : Mux) (p : Packet) :
    (m.writePacketCall p).1.panic = true ↔
      (p.header.hasAdaptationField = true ∧
        (p.adaptationField.isNone = true ∨ (p.adaptationField.map afNilDeref).getD false = true)) :=
  MuxWhole.writePacketCall_panic_iff m p

/-- panics are caller misuse (2): a panicking `WriteData` either panicked while generating the tables (a nil pointer
in a registered stream's descriptors; nothing was written), or its data is not `DataWF` (nil pointer behind a set
flag of the PES optional header / adaptation field, or PES header bytes longer than the announced length).  Only in
the second case can whole packets (the tables, an adaptation-field-only packet) already have reached the writer. -/
theorem writeData_panic_cases (m : Mux) (d : MuxerData) (h : (m.writeData d).1.panic = true) :
    ((m.retransmitTables (MuxCounters.dataForce m d)).1 = .panic ∧ (m.writeData d).1.chunks = []) ∨
      ¬ MuxCounters.DataWF d :=
  MuxWhole.writeData_panic_cases m d h

/-- **every call** (`Call` = AddElementaryStream | RemoveElementaryStream | SetPCRPID | WriteTables | WriteData |
WritePacket with any packet; `call m c` = result and new state) -/
theorem call_whole (m : Mux) (c : Call) :
    (∀ ch ∈ (call m c).1.chunks, ch.length = 188 ∧ ch.head? = some 0x47) ∧
    ((call m c).1.panic = false → (call m c).1.n = (chunksLen (call m c).1.chunks : Int)) ∧
    ((call m c).1.panic = true → (call m c).1.n = 0 ∧ (call m c).1.err = none) :=
  let h := MuxWhole.call_ok m c
  ⟨h.whole, h.count, h.panicked⟩

/-- **history form**, from ANY state `m` and for ANY list of calls, rejected and panicking ones included
(`hist m cs` = the results of the calls in order; `written` = all chunks handed to the writer, in order;
`counted` = sum of the returned counts; `returned` = the calls that did not panic):
1. every chunk is a whole packet beginning with 0x47;
2. the byte stream the writer received has length 188 × (number of chunks);
3. the sum of the returned counts equals the bytes written by the calls that returned;
4. if no call panicked, the sum of the returned counts equals the length of the byte stream. -/
theorem history_whole (m : Mux) (cs : List Call) :
    (∀ ch ∈ written (hist m cs).1, ch.length = 188 ∧ ch.head? = some 0x47) ∧
    (written (hist m cs).1).flatten.length = 188 * (written (hist m cs).1).length ∧
    counted (hist m cs).1 = ((written (returned (hist m cs).1)).flatten.length : Int) ∧
    ((∀ o ∈ (hist m cs).1, o.panic = false) →
      counted (hist m cs).1 = ((written (hist m cs).1).flatten.length : Int)) := by
  have hall := MuxWhole.hist_all_ok m cs
  have hw := MuxWhole.written_whole _ hall
  have hc := MuxWhole.counted_eq _ hall
  refine ⟨hw, ?_, ?_, ?_⟩
  · rw [← MuxWhole.chunksLen_flatten]; exact hw.chunksLen
  · rw [← MuxWhole.chunksLen_flatten]; exact hc
  · intro hp
    rw [← MuxWhole.chunksLen_flatten, hc, MuxWhole.returned_of_noPanic _ hp]

/-- the same for the histories of `MuxCounters.run` from `newMux period` (the operations of C05/C01: no
`WritePacket`): `run` collects exactly the chunks of `hist`, so its output is whole packets, 188 × count bytes -/
theorem run_whole (period : Nat) (ops : List MuxCounters.Op) :
    (∀ ch ∈ (MuxCounters.run (newMux period) ops).1, ch.length = 188 ∧ ch.head? = some 0x47) ∧
    (MuxCounters.run (newMux period) ops).1.flatten.length = 188 * (MuxCounters.run (newMux period) ops).1.length ∧
    (MuxCounters.run (newMux period) ops).1 = written (hist (newMux period) (ops.map .op)).1 := by
  have e : written (hist (newMux period) (ops.map .op)).1 = (MuxCounters.run (newMux period) ops).1 :=
    congrArg Prod.fst (MuxWhole.hist_ops (newMux period) ops)
  have h := history_whole (newMux period) (ops.map .op)
  rw [e] at h
  exact ⟨h.1, h.2.1, e.symm⟩

/-! ### non-vacuity: a history with every kind of call, including rejected calls, an inconsistent caller packet,
and a panicking call -/

/-- a caller packet whose adaptation field announces 200 private bytes it does not have, with a negative
StuffingLength: still comes out as exactly 188 bytes -/
def oddPkt : Packet :=
  { header := { hdrEx with hasAdaptationField := true },
    adaptationField := some { hasTransportPrivateData := true, transportPrivateDataLength := 200,
                              transportPrivateData := [1, 2, 3], stuffingLength := -5 },
    payload := [9, 9, 9] }
/-- misuse: HasAdaptationField with a nil adaptation field -/
def nilPkt : Packet := { header := { hdrEx with hasAdaptationField := true }, adaptationField := none }
/-- rejected: payload too long -/
def bigPkt : Packet := { header := hdrEx, payload := List.replicate 185 0 }

def exCalls : List Call :=
  [.op (.data { pid := 0x100, pes := { data := [1, 2, 3] } }),                 -- rejected: unknown PID
   .op (.add { elementaryPID := 0x100, streamType := 0x1b }),
   .op (.data { pid := 0x100, pes := { data := [1, 2, 3] } }),                 -- rejected: PCR PID invalid
   .op (.setPCR 0x100),
   .op (.data { pid := 0x100, pes := { data := List.replicate 400 7, header := { streamID := 0xe0 } } }),
   .packet oddPkt, .packet nilPkt, .packet bigPkt,
   .op .tables,
   .op (.add { elementaryPID := 0x100, streamType := 0x1b })]                  -- rejected: PID exists

example : ((hist (newMux 40) exCalls).1.map fun o => (o.n, o.err, o.panic, o.chunks.length)) =
    [(0, some .pidNotFound, false, 0), (0, none, false, 0), (0, some .pcrInvalid, false, 0), (0, none, false, 0),
     (940, none, false, 5), (188, none, false, 1), (0, none, true, 0), (0, some .other, false, 0),
     (376, none, false, 2), (0, some .pidExists, false, 0)] ∧
    counted (hist (newMux 40) exCalls).1 = 1504 ∧ (written (hist (newMux 40) exCalls).1).length = 8 ∧
    (written (hist (newMux 40) exCalls).1).flatten.length = 1504 := by decide +kernel

/-- the `panic = false` premise of the count clause is necessary: a `WriteData` whose adaptation field has HasPCR set
but a nil PCR panics in the first packet AFTER the two table packets have reached the writer (Go: the panic unwinds
`WriteData`, no count is returned; model: `n = 0`, 2 chunks) -/
def panicCalls : List Call :=
  [.op (.add { elementaryPID := 0x100, streamType := 0x1b }), .op (.setPCR 0x100),
   .op (.data { pid := 0x100, adaptationField := some { hasPCR := true, pcr := none },
                pes := { data := [1, 2, 3], header := { streamID := 0xe0 } } })]

example : ((hist (newMux 40) panicCalls).1.map fun o => (o.n, o.err, o.panic, o.chunks.length)) =
    [(0, none, false, 0), (0, none, false, 0), (0, none, true, 2)] := by decide +kernel

end Astits.C04
