/-
C18 — failures of the underlying reader or writer are always surfaced to the caller.
-/
import Astits.Model.Demux
import Astits.Generated.Facts
namespace Astits.C18

/-- a reader fault hit while a packet is being read makes `next` return an error wrapping the cause — never end of
stream, never a panic — and consumes exactly the bytes before the fault -/
theorem read_fault_surfaced (d : Demux) (size fuel f : Nat) (hf : d.r.faultActive = some f)
    (h1 : d.r.pos ≤ f) (h2 : f < d.r.pos + size) (h3 : f ≤ d.r.data.length) :
    (d.bufferNext size (fuel + 1)).1 = .err .io ∧ (d.bufferNext size (fuel + 1)).2.r.pos = f := by
  unfold Demux.bufferNext Reader.readFull
  simp [hf, h1, h2, h3]

/-- the same inside packet-size auto-detection (seekable or plain reader) -/
theorem detect_fault_surfaced (r : Reader) (f : Nat) (hk : r.kind ≠ .bufio) (hf : r.faultActive = some f)
    (h1 : r.pos ≤ f) (h2 : f < r.pos + 193) (h3 : f ≤ r.data.length) :
    (autoDetectPacketSize r).1 = .err .io := by
  unfold autoDetectPacketSize Reader.readFull
  cases hkind : r.kind with
  | bufio => exact absurd hkind hk
  | seek => simp [hf, h1, h2, h3]
  | plain => simp [hf, h1, h2, h3]
  | bufioSmall => simp [hf, h1, h2, h3]

/-- `NextPacket` passes the error on unchanged in class -/
theorem nextPacket_surfaces (d : Demux) (size f : Nat) (hs : d.packetSize = some size) (hf : d.r.faultActive = some f)
    (h1 : d.r.pos ≤ f) (h2 : f < d.r.pos + size) (h3 : f ≤ d.r.data.length) :
    d.nextPacket.1 = .err .io := by
  unfold Demux.nextPacket
  simp only [hs]
  exact (read_fault_surfaced d size _ f hf h1 h2 h3).1

/-- structural fact regenerated from the source: the only `return …, nil` statements inside functions that write
through a BitsWriterBatch are the two that come after an explicit check of the batch error or before any body write
(writeDescriptor's early return for an empty body, writePSIData's final return); in particular the one-byte stuffing
path of writePacketAdaptationField returns the batch error -/
theorem batch_errors_returned :
    Generated.Facts.batchNilReturns =
      ["writeDescriptor: return written after 2 batch writes", "writePSIData: return bytesWritten after 2 batch writes"] := by
  decide

def exDemux : Demux := { r := { data := [0x47, 1, 2, 3, 4, 5], faultAt := some 3 }, packetSize := some 4 }
example : exDemux.r.faultActive = some 3 ∧ exDemux.r.pos ≤ 3 ∧ 3 < exDemux.r.pos + 4 ∧ 3 ≤ exDemux.r.data.length := by decide

end Astits.C18
