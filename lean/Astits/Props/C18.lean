/-
C18 — failures of the underlying reader or writer are always surfaced to the caller.
-/
import Astits.Model.Demux
import Astits.Generated.Facts
import Astits.Proofs.WriterFault
namespace Astits.C18

/-- a reader fault hit while a packet is being read makes `next` return an error wrapping the cause — never end of
stream, never a panic — and consumes exactly the bytes before the fault -/
theorem read_fault_surfaced (d : Demux) (size fuel f : Nat) (hf : d.r.faultActive = some f)
    (h1 : d.r.pos ≤ f) (h2 : f < d.r.pos + size) (h3 : f ≤ d.r.data.length) :
    (d.bufferNext size (fuel + 1)).1 = .err .io ∧ (d.bufferNext size (fuel + 1)).2.r.pos = f := by
  unfold Demux.bufferNext Reader.readFull
  simp [hf, h1, h2, h3]

/-- the same inside packet-size auto-detection (seekable or plain reader) -/
theorem detect_fault_surfaced (r : Reader) (f : Nat) (hk : r.kind ≠ .bufio) (hf : r.faultActive = some f)
    (h1 : r.pos ≤ f) (h2 : f < r.pos + 193) (h3 : f ≤ r.data.length) :
    (autoDetectPacketSize r).1 = .err .io := by
  unfold autoDetectPacketSize Reader.readFull
  cases hkind : r.kind with
  | bufio => exact absurd hkind hk
  | seek => simp [hf, h1, h2, h3]
  | plain => simp [hf, h1, h2, h3]
  | bufioSmall => simp [hf, h1, h2, h3]

/-- `NextPacket` passes the error on unchanged in class -/
theorem nextPacket_surfaces (d : Demux) (size f : Nat) (hs : d.packetSize = some size) (hf : d.r.faultActive = some f)
    (h1 : d.r.pos ≤ f) (h2 : f < d.r.pos + size) (h3 : f ≤ d.r.data.length) :
    d.nextPacket.1 = .err .io := by
  unfold Demux.nextPacket
  simp only [hs]
  exact (read_fault_surfaced d size _ f hf h1 h2 h3).1

/-- structural fact regenerated from the source: no function that writes through a BitsWriterBatch (one it creates
or one it receives) returns a literal `nil` error without having tested the batch error after its last batch write.
The translator (extract/exprs.go, `batchNilReturnsUnchecked`) lists every `return …, nil` of such a function that has
a batch write (a call of any method of the batch other than `Err`, or passing the batch on) textually between the
last `b.Err()` before the return and the return; the list is empty.  In particular the two `return …, nil` of today
(writeDescriptor's early return for an empty body, writePSIData's final return) come after an explicit check of the
batch error, and the one-byte stuffing path of writePacketAdaptationField returns the batch error itself.  (The
informative list `batchNilReturns` of all such returns, with the number of writes before them, is no longer pinned:
it changes under harmless refactorings.) -/
theorem batch_errors_returned : Generated.Facts.batchNilReturnsUnchecked = [] := by
  decide

def exDemux : Demux := { r := { data := [0x47, 1, 2, 3, 4, 5], faultAt := some 3 }, packetSize := some 4 }
example : exDemux.r.faultActive = some 3 ∧ exDemux.r.pos ≤ 3 ∧ 3 < exDemux.r.pos + 4 ∧ 3 ≤ exDemux.r.data.length := by decide

/-! ## Writer side — a failing `io.Writer` under `WriteTables` / `WriteData` / `WritePacket`

Layer and generic theorems: `Astits/Proofs/WriterFault.lean`.  The layer (the sequence of `Write` calls a call issues
for the chunks of the muxer model, their grouping by error check, the harness's `recWriter`) is a TRANSCRIPTION of the
Go control flow, validated by the C18 correspondence run (`writer-fault-*`, `writer-nofault-*`: fault armed at the
k-th `Write` of the last call, both modes; `err` class and `n ≤ accepted` compared with the Go harness) — like the
reader layer of `Astits/Proofs/Chunking/*`.  The number of calls per packet is the driver's `writeCallsOfPacket`.

What is proved, for EVERY muxer state, every argument, every writer state, every failure index `k` inside the call
and BOTH modes (`w.once` arbitrary): the call returns the injected error class `.io`, does not panic, its count is the
bytes of the groups completed before (`creditedAt`) and is not larger than what the writer accepted; the accepted
bytes are exactly the first `k` `Write`s — a prefix of the fault-free output; a permanently failing writer accepts
nothing afterwards.  For `k` beyond the call's `Write`s (or no fault / a spent one-shot fault) the call ends as in the
fault-free model and the writer has accepted all its chunks.

Scope: the run is modelled up to the first failing `Write`; the state of the MUXER after a failed call is not
modelled; for a call whose fault-free run PANICS (nil `PCR` / extension behind a set flag) the model lists no chunks
for the packet being written, so the `Write`s Go issues for it before the panic are outside this layer.  Two observations on the Go code in ONE-SHOT mode (probed with the harness's `recWriter`, fault armed inside
`WritePacket`; neither is visible to the correspondence run, which looks at `err` and `n ≤ accepted` of the failing
call only):

 W1. bytes BEHIND the failing `Write` can still be accepted in the same call: `writePacketAdaptationField` latches the
     error in ITS batch, but `writePCR`, the OPCR, the adaptation extension and its DTS use batches of their own on the
     same writer.  Fault on the adaptation-field length byte of a packet with a PCR, once: the writer ends up with
     `47 01 00 33 | 91 a2 b3 c4 fe 05` (length and flags bytes missing, PCR present), `n = 4`, `err ≠ nil`.  So with a
     one-shot writer the accepted bytes are NOT a prefix of the fault-free output; `n ≤ accepted` still holds (only more
     is accepted).  With a permanently failing writer they are (`Surfaced.stuck`).
 W2. a one-shot failure on a byte that is completed by BIT writes (first and third header byte, adaptation-field flags,
     …) leaves astikit's `BitsWriter` with `cacheLen = 8` (`writeBitsN` / `writeBit` return the error before resetting
     the cache), and the muxer keeps using that `BitsWriter` for every later call.  Observed: `WriteData` with the fault
     on the first header byte of its first PES packet returns `376, err` (correct); EVERY following `WriteData` call
     then returns `188, nil` while the writer accepts 184 bytes (`41 47 00 00 00 …`, then all zero): a count larger than
     what the writer accepted and bytes silently dropped, in all calls AFTER the one that reported the error.  A fault
     on a byte written whole (second header byte, adaptation-field length, payload) leaves no such trace. -/

section WriterSide
open Astits.WriterFault

/-- the outcome of a call during which the writer failed at the call's `Write` number `k` -/
structure Surfaced (o : MuxOut) (prog : Program) (w : FWriter) (k : Nat) (r : FaultOut) : Prop where
  /-- a non-nil error wrapping the writer's -/
  err : r.err = some .io
  no_panic : r.panic = false
  /-- the count returned: the bytes of the groups (tables / packets / parts of the packet) completed before -/
  n_eq : r.n = (creditedAt prog k : Nat)
  /-- … which is not larger than what the writer accepted during the call -/
  n_le : r.n ≤ ((r.w.buf.length - w.buf.length : Nat) : Int)
  /-- the writer accepted exactly the first `k` `Write`s of the call -/
  accepted : r.w.buf = w.buf ++ ((callsOf prog).take k).flatten
  /-- … a prefix of what the fault-free call hands to the writer: nothing is dropped in front of the failure -/
  is_prefix : ((callsOf prog).take k).flatten <+: o.chunks.flatten
  calls : r.w.calls = w.calls + k + 1
  done : r.w.done = w.once
  /-- a permanently failing writer accepts nothing any more -/
  stuck : w.once = false → r.w.stuck

/-- the outcome of a call the fault does not reach -/
structure Unaffected (o : MuxOut) (prog : Program) (w : FWriter) (r : FaultOut) : Prop where
  n : r.n = o.n
  err : r.err = o.err
  panic : r.panic = o.panic
  accepted : r.w.buf = w.buf ++ o.chunks.flatten
  calls : r.w.calls = w.calls + totalCalls prog

theorem surfaced_of (o : MuxOut) (prog : Program) (w : FWriter) (k : Nat) (hb : bytesOf prog = o.chunks.flatten)
    (hf : w.failAt = some (w.calls + k)) (hd : w.done = false) (hk : k < totalCalls prog) :
    Surfaced o prog w k (underFault o prog w) := by
  obtain ⟨h1, h2, h3, h4, h5, h6, h7, h8, h9⟩ := underFault_hit o prog w k hb hf hd hk
  exact ⟨h1, h2, h3, h4, h5, h6, h7, h8, h9⟩

theorem unaffected_of (o : MuxOut) (prog : Program) (w : FWriter) (hb : bytesOf prog = o.chunks.flatten)
    (hs : w.safeFor (totalCalls prog)) : Unaffected o prog w (underFault o prog w) := by
  obtain ⟨h1, h2, h3, h4, h5⟩ := underFault_safe o prog w hb hs
  exact ⟨h1, h2, h3, h4, h5⟩

/-- **`WriteData`, writer failing inside the call** (at any of its `Write`s: a table, or any byte group of any packet),
once or permanently -/
theorem writeData_writer_fault (m : Mux) (d : MuxerData) (w : FWriter) (k : Nat)
    (hf : w.failAt = some (w.calls + k)) (hd : w.done = false) (hk : k < totalCalls (m.dataProg d)) :
    Surfaced (m.writeData d).1 (m.dataProg d) w k (m.writeDataF d w) :=
  surfaced_of _ _ w k (dataProgram_bytes _ _) hf hd hk

/-- **`WriteData`, fault beyond the call** -/
theorem writeData_writer_nofault (m : Mux) (d : MuxerData) (w : FWriter) (k : Nat)
    (hf : w.failAt = some (w.calls + k)) (hk : totalCalls (m.dataProg d) ≤ k) :
    Unaffected (m.writeData d).1 (m.dataProg d) w (m.writeDataF d w) :=
  unaffected_of _ _ w (dataProgram_bytes _ _) (safeFor_of_beyond w _ k hf hk)

/-- `WriteData` on a healthy writer -/
theorem writeData_writer_healthy (m : Mux) (d : MuxerData) (w : FWriter) (hf : w.failAt = none) :
    Unaffected (m.writeData d).1 (m.dataProg d) w (m.writeDataF d w) :=
  unaffected_of _ _ w (dataProgram_bytes _ _) (safeFor_of_none w _ hf)

/-- **`WriteTables`, writer failing on the PAT or on the PMT** -/
theorem writeTables_writer_fault (m : Mux) (w : FWriter) (k : Nat)
    (hf : w.failAt = some (w.calls + k)) (hd : w.done = false) (hk : k < totalCalls m.tablesProg) :
    Surfaced m.writeTablesCall.1 m.tablesProg w k (m.writeTablesF w) :=
  surfaced_of _ _ w k (tablesProgram_bytes _) hf hd hk

theorem writeTables_writer_nofault (m : Mux) (w : FWriter) (k : Nat)
    (hf : w.failAt = some (w.calls + k)) (hk : totalCalls m.tablesProg ≤ k) :
    Unaffected m.writeTablesCall.1 m.tablesProg w (m.writeTablesF w) :=
  unaffected_of _ _ w (tablesProgram_bytes _) (safeFor_of_beyond w _ k hf hk)

/-- a table is one `Write`: a failure on the PAT returns 0, a failure on the PMT returns the 188 bytes of the PAT -/
theorem writeTables_calls (m : Mux) : totalCalls m.tablesProg = m.writeTablesCall.1.chunks.length :=
  tablesProgram_calls _

/-- **`WritePacket`, writer failing on any of its `Write`s** (sync byte, a header byte, a byte of the adaptation field,
the private data, the payload, a trailing stuffing byte) -/
theorem writePacket_writer_fault (m : Mux) (p : Packet) (w : FWriter) (k : Nat)
    (hf : w.failAt = some (w.calls + k)) (hd : w.done = false) (hk : k < totalCalls (m.packetProg p)) :
    Surfaced (m.writePacketCall p).1 (m.packetProg p) w k (m.writePacketF p w) :=
  surfaced_of _ _ w k (packetProgram_bytes _ _) hf hd hk

theorem writePacket_writer_nofault (m : Mux) (p : Packet) (w : FWriter) (k : Nat)
    (hf : w.failAt = some (w.calls + k)) (hk : totalCalls (m.packetProg p) ≤ k) :
    Unaffected (m.writePacketCall p).1 (m.packetProg p) w (m.writePacketF p w) :=
  unaffected_of _ _ w (packetProgram_bytes _ _) (safeFor_of_beyond w _ k hf hk)

/-- the "once" mode after its failure: the next `Write` is accepted again (this is what W1 / W2 above are about) -/
theorem once_recovers (w : FWriter) (hd : w.done = true) (p : Bytes) : (w.write p).1 = true := by
  unfold FWriter.write FWriter.fails
  cases w.failAt <;> simp [hd]

/-! ### non-vacuity and evaluations -/

/-- a muxer with one video stream that is the PCR PID; tables are due -/
def exMux : Mux := ((newMux 40).addElementaryStream { elementaryPID := 0x100, streamType := 0x1b }).2.setPCRPID 0x100

/-- 300 bytes with a PCR and three bytes of private data in the adaptation field -/
def exData : MuxerData :=
  { pid := 0x100,
    adaptationField := some { hasPCR := true, pcr := some ⟨1234567, 5⟩, randomAccessIndicator := true,
                              hasTransportPrivateData := true, transportPrivateData := [1, 2, 3], transportPrivateDataLength := 3 },
    pes := { data := List.replicate 300 0xAB, header := { streamID := 0xe0, optionalHeader := some {} } } }

/-- a packet with a PCR, a splice countdown and four bytes of payload (171 trailing stuffing bytes) -/
def exPacket : Packet :=
  { header := { continuityCounter := 3, hasAdaptationField := true, hasPayload := true, payloadUnitStartIndicator := false,
                pid := 0x100, transportErrorIndicator := false, transportPriority := false, transportScramblingControl := 0 },
    adaptationField := some { hasPCR := true, pcr := some ⟨0x123456789, 5⟩, hasSplicingCountdown := true, spliceCountdown := 9 },
    payload := [1, 2, 3, 4] }

/-- the writer after 7 earlier calls, armed at its call 7 + k -/
def exWriter (k : Nat) (once : Bool) : FWriter := { buf := [9, 9], calls := 7, failAt := some (7 + k), once := once }

/-- `WriteData exData`: PAT, PMT and two packets: 2 + 15 + 52 `Write`s (the driver's `writeCallsOf` gives 69 too) -/
example : (exMux.writeData exData).1.chunks.map List.length = [188, 188, 188, 188] ∧ (exMux.writeData exData).1.n = 752 ∧
    (exMux.dataProg exData).map List.length = [1, 1, 15, 52] ∧ totalCalls (exMux.dataProg exData) = 69 := by decide +kernel

/-- the hypotheses of `writeData_writer_fault` hold for every `k < 69`, e.g. `k = 30` in the second packet -/
example : Surfaced (exMux.writeData exData).1 (exMux.dataProg exData) (exWriter 30 true) 30 (exMux.writeDataF exData (exWriter 30 true)) :=
  writeData_writer_fault exMux exData (exWriter 30 true) 30 rfl rfl (by decide +kernel)

/-- … and the result: the error, `n` = PAT + PMT + first packet = 564, the writer has accepted 577 bytes -/
example : (exMux.writeDataF exData (exWriter 30 true)).n = 564 ∧ (exMux.writeDataF exData (exWriter 30 true)).err = some .io ∧
    (exMux.writeDataF exData (exWriter 30 true)).w.buf.length = 2 + 577 := by decide +kernel

/-- a failure on the PMT `Write`: `n` = the 188 bytes of the PAT; on the PAT: 0 -/
example : (exMux.writeDataF exData (exWriter 1 false)).n = 188 ∧ (exMux.writeDataF exData (exWriter 0 false)).n = 0 ∧
    (exMux.writeTablesF (exWriter 1 false)).n = 188 ∧ (exMux.writeTablesF (exWriter 1 false)).err = some .io ∧
    (exMux.writeTablesF (exWriter 2 false)).err = none ∧ (exMux.writeTablesF (exWriter 2 false)).n = 376 := by decide +kernel

/-- `WritePacket exPacket`: groups of 1, 3, 9, 1 calls and 171 single stuffing bytes: 185 `Write`s (as counted on the Go
code); the values observed there for a fault at call 4 (adaptation-field length byte), 5 (flags byte) and 1 (first
header byte): `n = 4, 4, 1`, accepted `47010033`, `4701003308`, `47` -/
example : totalCalls (exMux.packetProg exPacket) = 185 ∧ ((exMux.packetProg exPacket).map List.length).take 5 = [1, 3, 9, 1, 1] ∧
    (exMux.writePacketF exPacket { failAt := some 4, once := true }).n = 4 ∧
    (exMux.writePacketF exPacket { failAt := some 4, once := true }).w.buf = [0x47, 0x01, 0x00, 0x33] ∧
    (exMux.writePacketF exPacket { failAt := some 5 }).n = 4 ∧
    (exMux.writePacketF exPacket { failAt := some 5 }).w.buf = [0x47, 0x01, 0x00, 0x33, 0x08] ∧
    (exMux.writePacketF exPacket { failAt := some 1 }).n = 1 ∧
    (exMux.writePacketF exPacket { failAt := some 1 }).w.buf = [0x47] ∧
    (exMux.writePacketF exPacket { failAt := some 185 }).err = none ∧
    (exMux.writePacketF exPacket { failAt := some 185 }).n = 188 := by decide +kernel

example : Surfaced (exMux.writePacketCall exPacket).1 (exMux.packetProg exPacket) (exWriter 14 false) 14
    (exMux.writePacketF exPacket (exWriter 14 false)) :=
  writePacket_writer_fault exMux exPacket (exWriter 14 false) 14 rfl rfl (by decide +kernel)

example : Unaffected (exMux.writePacketCall exPacket).1 (exMux.packetProg exPacket) (exWriter 190 true)
    (exMux.writePacketF exPacket (exWriter 190 true)) :=
  writePacket_writer_nofault exMux exPacket (exWriter 190 true) 190 rfl (by decide +kernel)

end WriterSide

end Astits.C18
