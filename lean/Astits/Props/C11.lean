/-
C11 — TS packet header and adaptation field are read and written per ISO 13818-1.
Round trips of the fixed-layout groups for *all* field values; length accounting of the adaptation field.
(The reference encoding `Spec.tsEncode` is compared with model and implementation case by case by the
correspondence run; the theorems below are about the model's reader/writer pair.)
-/
import Astits.Proofs.Layout
import Astits.Props.C04
namespace Astits.C11

/-- the three header bytes: every PID (2^13), counter (16), scrambling value (4) and flag combination
written by `writePacketHeader` is read back by `parsePacketHeader` -/
theorem header_roundtrip (h : PacketHeader) (hpid : h.pid < 8192) (htsc : h.transportScramblingControl < 4)
    (hcc : h.continuityCounter < 16) :
    headerOfBytes ((hdrBytes h).getD 0 0) ((hdrBytes h).getD 1 0) ((hdrBytes h).getD 2 0) = h :=
  Astits.header_roundtrip h hpid htsc hcc

/-- PCR / OPCR: 33-bit base, 6 reserved bits (written as ones), 9-bit extension: all 2^33 × 2^9 values -/
theorem pcr_roundtrip (base ext : Nat) (hb : base < 2 ^ 33) (he : ext < 2 ^ 9) :
    pcrOfBytes (pcrBytes { base := base, extension := ext }) = { base := base, extension := ext } :=
  Astits.pcr_roundtrip base ext (by simpa using hb) (by simpa using he)

/-- seamless-splice DTS_next_AU (and PES PTS/DTS): all 2^33 values, whatever the 4-bit prefix -/
theorem dts_roundtrip (prefix4 base : Nat) (hb : base < 2 ^ 33) :
    ptsOfBytes (ptsBytes prefix4 { base := base, extension := 0 }) = { base := base, extension := 0 } :=
  Astits.pts_roundtrip prefix4 base (by simpa using hb)

/-- adaptation_field_length always equals the number of bytes written after it -/
theorem af_length_matches (a : PacketAdaptationField) (h1 : a.isOneByteStuffing = false)
    (hp : a.hasTransportPrivateData = true → a.transportPrivateDataLength = a.transportPrivateData.length)
    (hs : 0 ≤ a.stuffingLength) :
    ((afBytes a).length : Int) = 1 + afSize a := C04.afBytes_length a h1 hp hs

/-- the one-byte adaptation field (adaptation_field_length = 0) is written as the single byte 0 -/
theorem one_byte_af (a : PacketAdaptationField) (h : a.isOneByteStuffing = true) : afBytes a = [0] := by
  simp [afBytes, h]

/-- and it is read back as such, so that a packet obtained from NextPacket can be re-emitted -/
theorem one_byte_af_parsed (rest : Bytes) :
    parsePacketAdaptationField.run (0 :: rest) =
      .ok ({ length := 0, stuffingLength := 0, isOneByteStuffing := true }, ⟨0 :: rest, 1⟩) := by
  have h : ¬ ((rest.length : Int) + 1 < 1) := by omega
  simp [parsePacketAdaptationField, P.run, It.nextByte, It.offset, P.bind_run, bind, pure, h]

example : pcrOfBytes (pcrBytes { base := 8589934591, extension := 511 }) = { base := 8589934591, extension := 511 } := by
  decide +kernel

end Astits.C11
