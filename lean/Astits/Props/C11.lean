/-
C11 — TS packet header and adaptation field are read and written per ISO 13818-1.
Round trips of the fixed-layout groups for *all* field values; length accounting of the adaptation field.
(The reference encoding `Spec.tsEncode` is compared with model and implementation case by case by the
correspondence run; the theorems below are about the model's reader/writer pair.)
-/
import Astits.Proofs.Layout
import Astits.Proofs.PacketRTCanon
import Astits.Props.C04
import Astits.Proofs.SpecEq.TS
namespace Astits.C11

/-- the three header bytes: every PID (2^13), counter (16), scrambling value (4) and flag combination
written by `writePacketHeader` is read back by `parsePacketHeader` -/
theorem header_roundtrip (h : PacketHeader) (hpid : h.pid < 8192) (htsc : h.transportScramblingControl < 4)
    (hcc : h.continuityCounter < 16) :
    headerOfBytes ((hdrBytes h).getD 0 0) ((hdrBytes h).getD 1 0) ((hdrBytes h).getD 2 0) = h :=
  Astits.header_roundtrip h hpid htsc hcc

/-- PCR / OPCR: 33-bit base, 6 reserved bits (written as ones), 9-bit extension: all 2^33 × 2^9 values -/
theorem pcr_roundtrip (base ext : Nat) (hb : base < 2 ^ 33) (he : ext < 2 ^ 9) :
    pcrOfBytes (pcrBytes { base := base, extension := ext }) = { base := base, extension := ext } :=
  Astits.pcr_roundtrip base ext (by simpa using hb) (by simpa using he)

/-- seamless-splice DTS_next_AU (and PES PTS/DTS): all 2^33 values, whatever the 4-bit prefix -/
theorem dts_roundtrip (prefix4 base : Nat) (hb : base < 2 ^ 33) :
    ptsOfBytes (ptsBytes prefix4 { base := base, extension := 0 }) = { base := base, extension := 0 } :=
  Astits.pts_roundtrip prefix4 base (by simpa using hb)

/-- adaptation_field_length always equals the number of bytes written after it -/
theorem af_length_matches (a : PacketAdaptationField) (h1 : a.isOneByteStuffing = false)
    (hp : a.hasTransportPrivateData = true → a.transportPrivateDataLength = a.transportPrivateData.length)
    (hs : 0 ≤ a.stuffingLength) :
    ((afBytes a).length : Int) = 1 + afSize a := C04.afBytes_length a h1 hp hs

/-- the one-byte adaptation field (adaptation_field_length = 0) is written as the single byte 0 -/
theorem one_byte_af (a : PacketAdaptationField) (h : a.isOneByteStuffing = true) : afBytes a = [0] := by
  simp [afBytes, h]

/-- and it is read back as such, so that a packet obtained from NextPacket can be re-emitted -/
theorem one_byte_af_parsed (rest : Bytes) :
    parsePacketAdaptationField.run (0 :: rest) =
      .ok ({ length := 0, stuffingLength := 0, isOneByteStuffing := true }, ⟨0 :: rest, 1⟩) := by
  have h : ¬ ((rest.length : Int) + 1 < 1) := by omega
  simp [parsePacketAdaptationField, P.run, It.nextByte, It.offset, P.bind_run, bind, pure, h]

example : pcrOfBytes (pcrBytes { base := 8589934591, extension := 511 }) = { base := 8589934591, extension := 511 } := by
  decide +kernel


open Astits.PacketRT

/-! ## Whole-structure round trip: parsing what the writer emits gives the packet back -/

/-- **adaptation field extension**: for every well-formed extension `e` (present parts fit their bit widths: 15-bit
legal-time-window offset, 22-bit piecewise rate, 4-bit splice type, 33-bit DTS_next_AU), the parser started at the
first byte of `afExtBytes e` — whatever precedes and follows — consumes exactly those bytes and returns `normExt e`:
`e` with `length` recomputed, absent parts zeroed and the DTS extension (not encoded) cleared. -/
theorem afext_roundtrip (e : PacketAdaptationExtensionField) (h : ExtWF e) (pre post : Bytes) :
    parseAFExtension.run (pre ++ afExtBytes e ++ post) pre.length =
      .ok (normExt e, ⟨pre ++ afExtBytes e ++ post, (pre.length : Int) + ((afExtBytes e).length : Int)⟩) := by
  have := afext_at pre e h post
  simpa [P.run, List.append_assoc] using this

/-- … and gives back `e` itself when `e` is in the parser's form (`ExtCanon`) -/
theorem afext_roundtrip_exact (e : PacketAdaptationExtensionField) (h : ExtWF e) (hc : ExtCanon e) (pre post : Bytes) :
    parseAFExtension.run (pre ++ afExtBytes e ++ post) pre.length =
      .ok (e, ⟨pre ++ afExtBytes e ++ post, (pre.length : Int) + ((afExtBytes e).length : Int)⟩) := by
  have := afext_roundtrip e h pre post
  rwa [(normExt_eq_self_iff e).mpr hc] at this

/-- **adaptation field**, every flag combination: for a well-formed `a` (`AFWF`, and adaptation_field_length fits one
byte) or the one-byte form, the parser consumes everything but the stuffing bytes and returns `normAF a`:
`length` := the computed adaptation_field_length, `stuffingLength` := max 0, parts whose flag is off reset to Go's
zero values, the extension normalised. -/
theorem af_roundtrip (a : PacketAdaptationField) (h : a.isOneByteStuffing = false → AFWF a ∧ afSize a < 256)
    (pre post : Bytes) :
    parsePacketAdaptationField.run (pre ++ afBytes a ++ post) pre.length =
      .ok (normAF a, ⟨pre ++ afBytes a ++ post,
        (pre.length : Int) + ((afBytes a).length : Int) - ((afStuffing a).length : Int)⟩) := by
  have := af_at pre a h (afStuffing a ++ post)
  rw [afBytes_split]
  have e : (pre.length : Int) + (((afCore a ++ afStuffing a).length : Nat) : Int) - ((afStuffing a).length : Int)
      = (pre.length : Int) + ((afCore a).length : Int) := by
    simp only [List.length_append, Int.natCast_add]; omega
  rw [e]
  simpa [P.run, List.append_assoc] using this


theorem af_roundtrip_exact (a : PacketAdaptationField) (h1 : a.isOneByteStuffing = false) (h : AFWF a)
    (hsz : afSize a < 256) (hc : AFCanon a) (pre post : Bytes) :
    parsePacketAdaptationField.run (pre ++ afBytes a ++ post) pre.length =
      .ok (a, ⟨pre ++ afBytes a ++ post, (pre.length : Int) + ((afBytes a).length : Int) - a.stuffingLength⟩) := by
  have := af_roundtrip a (fun _ => ⟨h, hsz⟩) pre post
  rw [(normAF_eq_self_iff a h1).mpr hc] at this
  have e : ((afStuffing a).length : Int) = a.stuffingLength := by
    have := hc.stuffing
    simp only [afStuffing, h1, Bool.false_eq_true, if_false, List.length_replicate]
    omega
  rwa [e] at this

/-- **whole packet**, any payload size: if `writePacket p 188` accepts the well-formed packet `p` and emits `bs`, then
the model's parse entry point `(parsePacket none).val bs` returns `p` up to the recomputed fields
(`normaliseWith`): the adaptation field is `normAF` of the written one (`none` when the header flag is off), the
payload is the written payload followed by the `padLen p` bytes 0xff the writer appends to reach 188 bytes
(`[]` when `hasPayload` is off). -/
theorem packet_roundtrip_padded (p : Packet) (h : PacketWF p) (bs : Bytes) (hw : writePacket p 188 = .ok bs) :
    (parsePacket none).val bs = .ok (normaliseWith (padLen p) p) :=
  parsePacket_written p none h bs hw (fun _ hs => by cases hs)

/-- the same with a PacketSkipper that does not skip the packet -/
theorem packet_roundtrip_skipper (p : Packet) (skip : Packet → Bool) (h : PacketWF p) (bs : Bytes)
    (hw : writePacket p 188 = .ok bs) (hs : skip { normaliseWith (padLen p) p with payload := [] } = false) :
    (parsePacket (some skip)).val bs = .ok (normaliseWith (padLen p) p) :=
  parsePacket_written p (some skip) h bs hw (fun s e => by cases e; exact hs)

/-- a packet whose payload, when it has one, fills the 188 bytes -/
def PacketFull (p : Packet) : Prop :=
  p.header.hasPayload = true → packetHeadSize p + p.payload.length = 188

/-- **whole packet** (C11): parse ∘ write = `normalise` on well-formed packets that fill their 188 bytes -/
theorem packet_roundtrip (p : Packet) (h : PacketWF p) (hfull : PacketFull p) (bs : Bytes)
    (hw : writePacket p 188 = .ok bs) :
    (parsePacket none).val bs = .ok (normalise p) := by
  rw [← normaliseWith_padLen p hfull]
  exact packet_roundtrip_padded p h bs hw

/-- … and parse ∘ write = id on packets that are in the parser's form (`PacketCanon`, equivalently `normalise p = p`) -/
theorem packet_roundtrip_exact (p : Packet) (h : PacketWF p) (hfull : PacketFull p) (hc : PacketCanon p) (bs : Bytes)
    (hw : writePacket p 188 = .ok bs) :
    (parsePacket none).val bs = .ok p := by
  have := packet_roundtrip p h hfull bs hw
  rwa [(normalise_eq_self_iff p).mpr hc] at this

/-- what the parser returns is a fixed point of `normalise`, i.e. is in the parser's form -/
theorem parsed_is_canonical (p : Packet) : PacketCanon (normalise p) :=
  (normalise_eq_self_iff _).mp (normalise_idem p)

/-! ### non-vacuity: a packet with PCR, private data, an extension with all three parts, stuffing and payload -/

def exExt : PacketAdaptationExtensionField :=
  { dtsNextAccessUnit := some { base := 8589934591, extension := 0 }, hasLegalTimeWindow := true, hasPiecewiseRate := true,
    hasSeamlessSplice := true, legalTimeWindowIsValid := true, legalTimeWindowOffset := 12345, length := 11,
    piecewiseRate := 4000000, spliceType := 9 }

def exAF : PacketAdaptationField :=
  { adaptationExtensionField := some exExt, pcr := some { base := 6442450941, extension := 299 },
    transportPrivateData := [1, 2, 3], transportPrivateDataLength := 3, length := 25, stuffingLength := 2,
    randomAccessIndicator := true, hasAdaptationExtensionField := true, hasPCR := true, hasTransportPrivateData := true }

def exPkt : Packet :=
  { adaptationField := some exAF
    header := { continuityCounter := 11, hasAdaptationField := true, hasPayload := true, payloadUnitStartIndicator := true,
                pid := 0x1abc, transportErrorIndicator := false, transportPriority := true, transportScramblingControl := 2 }
    payload := List.replicate 158 0xab }

example : ExtWF exExt := ⟨fun _ => by decide, fun _ => by decide, fun _ => ⟨by decide, by decide⟩⟩
example : ExtCanon exExt := by
  refine ⟨by decide, by decide, by decide, by decide, ?_⟩
  intro d hd; cases hd; rfl


theorem exExt_wf : ExtWF exExt := ⟨fun _ => by decide, fun _ => by decide, fun _ => ⟨by decide, by decide⟩⟩
theorem exExt_canon : ExtCanon exExt := by
  refine ⟨by decide, by decide, by decide, by decide, ?_⟩
  intro d hd; cases hd; rfl

theorem exAF_wf : AFWF exAF :=
  ⟨fun _ => by decide, fun h => absurd h (by decide), fun h => absurd h (by decide), fun _ => ⟨by decide, by decide⟩,
   fun _ => exExt_wf⟩
theorem exAF_canon : AFCanon exAF := by
  refine ⟨by decide, by decide, by decide, by decide, by decide, by decide, by decide, ?_⟩
  intro e he; cases he; exact exExt_canon

theorem exPkt_wf : PacketWF exPkt := ⟨by decide, by decide, by decide, fun _ _ => exAF_wf⟩
theorem exPkt_full : PacketFull exPkt := fun _ => by decide +kernel
theorem exPkt_canon : PacketCanon exPkt := by
  refine ⟨by decide, ?_, by decide⟩
  intro a ha; cases ha
  exact ⟨fun h => absurd h (by decide), fun _ => exAF_canon⟩

/-- sync, header 7a bc bb, adaptation_field_length 25, flags 0x53, PCR, private data, extension (length 11, LTW, piecewise
rate, DTS_next_AU), two stuffing bytes, 158 payload bytes -/
def exBytes : Bytes :=
  [0x47, 0x7a, 0xbc, 0xbb, 25, 0x53, 191, 255, 255, 254, 255, 43, 3, 1, 2, 3, 11, 255, 176, 57, 253, 9, 0,
   159, 255, 255, 255, 255, 255, 255] ++ List.replicate 158 0xab

theorem res_ok_of_check (r : Res Bytes) (bs : Bytes)
    (h : (match r with | .ok b => decide (b = bs) | _ => false) = true) : r = .ok bs := by
  cases r with
  | ok b => simp only [decide_eq_true_eq] at h; rw [h]
  | err e => cases h
  | panic => cases h

theorem exPkt_written : writePacket exPkt 188 = .ok exBytes := res_ok_of_check _ _ (by decide +kernel)

/-- the hypotheses of `packet_roundtrip_exact` hold for `exPkt`: parsing its 188 bytes gives it back, field for field -/
example : (parsePacket none).val exBytes = .ok exPkt :=
  packet_roundtrip_exact exPkt exPkt_wf exPkt_full exPkt_canon exBytes exPkt_written

/-- a packet that is *not* in the parser's form (stale `length`, negative stuffing, a PCR without its flag):
the round trip gives its normal form -/
def exPkt2 : Packet :=
  { adaptationField := some { pcr := some { base := 1, extension := 2 }, length := 99, stuffingLength := -3, spliceCountdown := 200,
                              hasSplicingCountdown := true }
    header := { continuityCounter := 0, hasAdaptationField := true, hasPayload := false, payloadUnitStartIndicator := false,
                pid := 17, transportErrorIndicator := false, transportPriority := false, transportScramblingControl := 0 }
    payload := [] }

theorem exPkt2_wf : PacketWF exPkt2 :=
  ⟨by decide, by decide, by decide, fun _ _ => ⟨fun h => absurd h (by decide), fun h => absurd h (by decide),
    fun _ => ⟨by decide, by decide⟩, fun h => absurd h (by decide), fun h => absurd h (by decide)⟩⟩
example : ∀ bs, writePacket exPkt2 188 = .ok bs → (parsePacket none).val bs = .ok (normalise exPkt2) :=
  fun bs hw => packet_roundtrip exPkt2 exPkt2_wf (fun h => absurd h (by decide)) bs hw
example : (writePacket exPkt2 188).isOk = true := by decide +kernel
example : normalise exPkt2 = { exPkt2 with adaptationField := some { length := 2, spliceCountdown := 200, hasSplicingCountdown := true } } := by
  decide +kernel


/-! ## W1 — the writer emits exactly the standard's layout: `writePacket` = the independent reference encoder

`Spec.tsEncode` (Astits/Spec/TS.lean) transcribes ISO/IEC 13818-1 tables 2-2 and 2-6 with the bit-serial field encoder
`Spec.enc`; the theorems below replace the case-by-case comparison of the correspondence run by a proof for every
packet.  Helper development: Astits/Proofs/SpecEq/{Enc,TS}.lean. -/

open Astits.SpecEq

/-- adaptation field extension, every flag combination (only guard: an announced DTS_next_AU is not negative) -/
theorem afext_eq_spec (e : PacketAdaptationExtensionField)
    (hss : e.hasSeamlessSplice = true → 0 ≤ (e.dtsNextAccessUnit.getD default).base) :
    afExtBytes e = Spec.enc (Spec.afExtFields e) := (afExt_eq e hss).symm

/-- adaptation field, every flag combination, stuffing included -/
theorem af_eq_spec (a : PacketAdaptationField) (h1 : a.isOneByteStuffing = false) (h : AFAgree a) (hsm : afSize a < 256) :
    afBytes a = Spec.afEncode a := (af_eq a h1 h hsm).symm

/-- **W1** (exact predicate): on every packet satisfying `SpecEq.TSAgree` — announced parts present, delivered
`length`, non-negative `int64` values, TransportPrivateDataLength = length of the data, exactly 188 bytes —
`writePacket` succeeds and emits exactly the reference encoding.  No upper bound on any field is needed: both sides mask
an over-wide value to its field width in the same way. -/
theorem writePacket_eq_tsEncode (p : Packet) (h : TSAgree p) : writePacket p 188 = .ok (Spec.tsEncode p) :=
  writePacket_eq_spec p h

/-- **W1** under the predicates of `packet_roundtrip_exact`: a well-formed packet in the demuxer's delivered form whose
header, adaptation field and payload are exactly 188 bytes -/
theorem writePacket_eq_tsEncode_wf (p : Packet) (h : PacketWF p) (hc : PacketCanon p) (hx : PacketExact p) :
    writePacket p 188 = .ok (Spec.tsEncode p) :=
  writePacket_eq_spec p (tsAgree_of_wf_canon p h hc hx)

/-- for a packet with a payload, `PacketExact` is the `PacketFull` of `packet_roundtrip`; a packet without payload must
fill its 188 bytes with the adaptation field (adaptation_field_length 183), as ISO 13818-1 requires -/
theorem packetExact_of_full (p : Packet) (hf : PacketFull p) (hp : p.header.hasPayload = true) : PacketExact p := hf hp

/-- hence the reference bytes parse back to the packet -/
theorem parse_tsEncode (p : Packet) (h : PacketWF p) (hc : PacketCanon p) (hx : PacketExact p) :
    (parsePacket none).val (Spec.tsEncode p) = .ok p :=
  packet_roundtrip_exact p h (fun _ => hx) hc _ (writePacket_eq_tsEncode_wf p h hc hx)

/-! ### non-vacuity, and the excluded points evaluated -/

theorem exPkt_exact : PacketExact exPkt := by unfold PacketExact; decide +kernel

example : TSAgree exPkt := tsAgree_of_wf_canon exPkt exPkt_wf exPkt_canon exPkt_exact
example : writePacket exPkt 188 = .ok (Spec.tsEncode exPkt) :=
  writePacket_eq_tsEncode_wf exPkt exPkt_wf exPkt_canon exPkt_exact
/-- … and the reference bytes are the expected literal ones -/
example : Spec.tsEncode exPkt = exBytes := by decide +kernel

def hdrAFOnly : PacketHeader :=
  { continuityCounter := 3, hasAdaptationField := true, hasPayload := false, payloadUnitStartIndicator := false, pid := 0x100, transportErrorIndicator := false, transportPriority := false, transportScramblingControl := 0 }

/-- over-wide header values are NOT excluded: `TSAgree` holds and both sides mask (pid 8197 ↦ 5, counter 23 ↦ 7, scrambling 5 ↦ 1) -/
def exWide : Packet :=
  { adaptationField := none
    header := { hdrAFOnly with hasAdaptationField := false, hasPayload := true, pid := 8197, continuityCounter := 23, transportScramblingControl := 5 }
    payload := List.replicate 184 7 }
example : TSAgree exWide := ⟨fun h => absurd h (by decide), by decide +kernel, fun h => absurd h (by decide)⟩
example : (Spec.tsEncode exWide).take 4 = [0x47, 0x00, 0x05, 0x57] := by decide +kernel

def differs (r : Res Bytes) (bs : Bytes) : Bool := match r with | .ok b => decide (b ≠ bs) | _ => true

/-- excluded point 1: a NEGATIVE splice countdown (the Go field is `int`, documented "two's complement signed; may be
negative").  The writer emits `uint8(-1) = 0xff` — the standard's 8-bit tcimsbf value — while the reference encoder reads
the value with `Int.toNat` and writes 0x00.  Here the deviation is in the reference encoder; the parser, in turn, never
delivers a negative value (it returns 255). -/
def exNegSplice : Packet :=
  { adaptationField := some { length := 183, stuffingLength := 181, spliceCountdown := -1, hasSplicingCountdown := true }, header := hdrAFOnly, payload := [] }
example : differs (writePacket exNegSplice 188) (Spec.tsEncode exNegSplice) = true := by decide +kernel
example : (match writePacket exNegSplice 188 with | .ok b => b.getD 6 0 | _ => 0) = 0xff ∧ (Spec.tsEncode exNegSplice).getD 6 0 = 0 := by
  decide +kernel

/-- excluded point 2: a negative PCR (not a value of the 33 + 9 bit field): writer = low bits of the two's complement
(all ones), reference = 0 -/
def exNegPCR : Packet :=
  { adaptationField := some { length := 183, stuffingLength := 176, pcr := some { base := -1, extension := -1 }, hasPCR := true }, header := hdrAFOnly, payload := [] }
example : differs (writePacket exNegPCR 188) (Spec.tsEncode exNegPCR) = true := by decide +kernel

/-- excluded point 3: TransportPrivateDataLength ≠ length of the data: the writer trusts the length FIELD (writes 0 and no
data, while `calcPacketAdaptationFieldLength` counted `len(TransportPrivateData)`, so the packet is completed with 0xff
after the adaptation field), the reference writes the data -/
def exPrivLen : Packet :=
  { adaptationField := some { length := 183, stuffingLength := 178, transportPrivateData := [1, 2, 3], transportPrivateDataLength := 0, hasTransportPrivateData := true }, header := hdrAFOnly, payload := [] }
example : differs (writePacket exPrivLen 188) (Spec.tsEncode exPrivLen) = true := by decide +kernel

/-- excluded point 4: fewer than 188 bytes: the writer pads with 0xff AFTER the payload, the reference does not pad -/
def exShort : Packet :=
  { adaptationField := none, header := { hdrAFOnly with hasAdaptationField := false, hasPayload := true }, payload := [1, 2, 3] }
example : (match writePacket exShort 188 with | .ok b => b.length | _ => 0) = 188 ∧ (Spec.tsEncode exShort).length = 7 := by
  decide +kernel

/-- excluded point 5: a stale `length` (not the delivered form): the reference takes adaptation_field_length from the value,
the writer recomputes it -/
def exStaleLen : Packet :=
  { adaptationField := some { length := 7, stuffingLength := 182 }, header := hdrAFOnly, payload := [] }
example : differs (writePacket exStaleLen 188) (Spec.tsEncode exStaleLen) = true := by decide +kernel

end Astits.C11
