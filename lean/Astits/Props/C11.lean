/-
C11 — TS packet header and adaptation field are read and written per ISO 13818-1.
Round trips of the fixed-layout groups for *all* field values; length accounting of the adaptation field.
(The reference encoding `Spec.tsEncode` is compared with model and implementation case by case by the
correspondence run; the theorems below are about the model's reader/writer pair.)
-/
import Astits.Proofs.Layout
import Astits.Proofs.PacketRTCanon
import Astits.Props.C04
import Astits.Proofs.SpecEq.TS
import Astits.Proofs.Reemit.Write
namespace Astits.C11

/-- the three header bytes: every PID (2^13), counter (16), scrambling value (4) and flag combination
written by `writePacketHeader` is read back by `parsePacketHeader` -/
theorem header_roundtrip (h : PacketHeader) (hpid : h.pid < 8192) (htsc : h.transportScramblingControl < 4)
    (hcc : h.continuityCounter < 16) :
    headerOfBytes ((hdrBytes h).getD 0 0) ((hdrBytes h).getD 1 0) ((hdrBytes h).getD 2 0) = h :=
  Astits.header_roundtrip h hpid htsc hcc

/-- PCR / OPCR: 33-bit base, 6 reserved bits (written as ones), 9-bit extension: all 2^33 × 2^9 values -/
theorem pcr_roundtrip (base ext : Nat) (hb : base < 2 ^ 33) (he : ext < 2 ^ 9) :
    pcrOfBytes (pcrBytes { base := base, extension := ext }) = { base := base, extension := ext } :=
  Astits.pcr_roundtrip base ext (by simpa using hb) (by simpa using he)

/-- seamless-splice DTS_next_AU (and PES PTS/DTS): all 2^33 values, whatever the 4-bit prefix -/
theorem dts_roundtrip (prefix4 base : Nat) (hb : base < 2 ^ 33) :
    ptsOfBytes (ptsBytes prefix4 { base := base, extension := 0 }) = { base := base, extension := 0 } :=
  Astits.pts_roundtrip prefix4 base (by simpa using hb)

/-- adaptation_field_length always equals the number of bytes written after it -/
theorem af_length_matches (a : PacketAdaptationField) (h1 : a.isOneByteStuffing = false)
    (hp : a.hasTransportPrivateData = true → a.transportPrivateDataLength = a.transportPrivateData.length)
    (hs : 0 ≤ a.stuffingLength) :
    ((afBytes a).length : Int) = 1 + afSize a := C04.afBytes_length a h1 hp hs

/-- … for ANY adaptation field that is not the one-byte form: the hypotheses of `af_length_matches` on
TransportPrivateDataLength and StuffingLength are not needed (the writer derives the private-data length byte from the
data; a negative StuffingLength counts, and is written, as 0 bytes) -/
theorem af_length_matches_any (a : PacketAdaptationField) (h1 : a.isOneByteStuffing = false) :
    ((afBytes a).length : Int) = 1 + afSize a := C04.afBytes_length_any a h1

/-- the one-byte adaptation field (adaptation_field_length = 0) is written as the single byte 0 -/
theorem one_byte_af (a : PacketAdaptationField) (h : a.isOneByteStuffing = true) : afBytes a = [0] := by
  simp [afBytes, h]

/-- and it is read back as such, so that a packet obtained from NextPacket can be re-emitted -/
theorem one_byte_af_parsed (rest : Bytes) :
    parsePacketAdaptationField.run (0 :: rest) =
      .ok ({ length := 0, stuffingLength := 0, isOneByteStuffing := true }, ⟨0 :: rest, 1⟩) := by
  have h : ¬ ((rest.length : Int) + 1 < 1) := by omega
  simp [parsePacketAdaptationField, P.run, It.nextByte, It.offset, P.bind_run, bind, pure, h]

example : pcrOfBytes (pcrBytes { base := 8589934591, extension := 511 }) = { base := 8589934591, extension := 511 } := by
  decide +kernel


open Astits.PacketRT

/-! ## Whole-structure round trip: parsing what the writer emits gives the packet back -/

/-- **adaptation field extension**: for every well-formed extension `e` (present parts fit their bit widths: 15-bit
legal-time-window offset, 22-bit piecewise rate, 4-bit splice type, 33-bit DTS_next_AU), the parser started at the
first byte of `afExtBytes e` — whatever precedes and follows — consumes exactly those bytes and returns `normExt e`:
`e` with `length` recomputed, absent parts zeroed and the DTS extension (not encoded) cleared. -/
theorem afext_roundtrip (e : PacketAdaptationExtensionField) (h : ExtWF e) (pre post : Bytes) :
    parseAFExtension.run (pre ++ afExtBytes e ++ post) pre.length =
      .ok (normExt e, ⟨pre ++ afExtBytes e ++ post, (pre.length : Int) + ((afExtBytes e).length : Int)⟩) := by
  have := afext_at pre e h post
  simpa [P.run, List.append_assoc] using this

/-- … and gives back `e` itself when `e` is in the parser's form (`ExtCanon`) -/
theorem afext_roundtrip_exact (e : PacketAdaptationExtensionField) (h : ExtWF e) (hc : ExtCanon e) (pre post : Bytes) :
    parseAFExtension.run (pre ++ afExtBytes e ++ post) pre.length =
      .ok (e, ⟨pre ++ afExtBytes e ++ post, (pre.length : Int) + ((afExtBytes e).length : Int)⟩) := by
  have := afext_roundtrip e h pre post
  rwa [(normExt_eq_self_iff e).mpr hc] at this

/-- **adaptation field**, every flag combination: for a well-formed `a` (`AFWF`, and adaptation_field_length fits one
byte) or the one-byte form, the parser consumes everything but the stuffing bytes and returns `normAF a`:
`length` := the computed adaptation_field_length, `stuffingLength` := max 0, parts whose flag is off reset to Go's
zero values, the extension normalised. -/
theorem af_roundtrip (a : PacketAdaptationField) (h : a.isOneByteStuffing = false → AFWF a ∧ afSize a < 256)
    (pre post : Bytes) :
    parsePacketAdaptationField.run (pre ++ afBytes a ++ post) pre.length =
      .ok (normAF a, ⟨pre ++ afBytes a ++ post,
        (pre.length : Int) + ((afBytes a).length : Int) - ((afStuffing a).length : Int)⟩) := by
  have := af_at pre a h (afStuffing a ++ post)
  rw [afBytes_split]
  have e : (pre.length : Int) + (((afCore a ++ afStuffing a).length : Nat) : Int) - ((afStuffing a).length : Int)
      = (pre.length : Int) + ((afCore a).length : Int) := by
    simp only [List.length_append, Int.natCast_add]; omega
  rw [e]
  simpa [P.run, List.append_assoc] using this


theorem af_roundtrip_exact (a : PacketAdaptationField) (h1 : a.isOneByteStuffing = false) (h : AFWF a)
    (hsz : afSize a < 256) (hc : AFCanon a) (pre post : Bytes) :
    parsePacketAdaptationField.run (pre ++ afBytes a ++ post) pre.length =
      .ok (a, ⟨pre ++ afBytes a ++ post, (pre.length : Int) + ((afBytes a).length : Int) - a.stuffingLength⟩) := by
  have := af_roundtrip a (fun _ => ⟨h, hsz⟩) pre post
  rw [(normAF_eq_self_iff a h1).mpr hc] at this
  have e : ((afStuffing a).length : Int) = a.stuffingLength := by
    have := hc.stuffing
    simp only [afStuffing, h1, Bool.false_eq_true, if_false, List.length_replicate]
    omega
  rwa [e] at this

/-- **whole packet**, any payload size: if `writePacket p 188` accepts the well-formed packet `p` and emits `bs`, then
the model's parse entry point `(parsePacket none).val bs` returns `p` up to the recomputed fields
(`normaliseWith`): the adaptation field is `normAF` of the written one (`none` when the header flag is off), the
payload is the written payload followed by the `padLen p` bytes 0xff the writer appends to reach 188 bytes
(`[]` when `hasPayload` is off). -/
theorem packet_roundtrip_padded (p : Packet) (h : PacketWF p) (bs : Bytes) (hw : writePacket p 188 = .ok bs) :
    (parsePacket none).val bs = .ok (normaliseWith (padLen p) p) :=
  parsePacket_written p none h bs hw (fun _ hs => by cases hs)

/-- the same with a PacketSkipper that does not skip the packet -/
theorem packet_roundtrip_skipper (p : Packet) (skip : Packet → Bool) (h : PacketWF p) (bs : Bytes)
    (hw : writePacket p 188 = .ok bs) (hs : skip { normaliseWith (padLen p) p with payload := [] } = false) :
    (parsePacket (some skip)).val bs = .ok (normaliseWith (padLen p) p) :=
  parsePacket_written p (some skip) h bs hw (fun s e => by cases e; exact hs)

/-- a packet whose payload, when it has one, fills the 188 bytes -/
def PacketFull (p : Packet) : Prop :=
  p.header.hasPayload = true → packetHeadSize p + p.payload.length = 188

/-- **whole packet** (C11): parse ∘ write = `normalise` on well-formed packets that fill their 188 bytes -/
theorem packet_roundtrip (p : Packet) (h : PacketWF p) (hfull : PacketFull p) (bs : Bytes)
    (hw : writePacket p 188 = .ok bs) :
    (parsePacket none).val bs = .ok (normalise p) := by
  rw [← normaliseWith_padLen p hfull]
  exact packet_roundtrip_padded p h bs hw

/-- … and parse ∘ write = id on packets that are in the parser's form (`PacketCanon`, equivalently `normalise p = p`) -/
theorem packet_roundtrip_exact (p : Packet) (h : PacketWF p) (hfull : PacketFull p) (hc : PacketCanon p) (bs : Bytes)
    (hw : writePacket p 188 = .ok bs) :
    (parsePacket none).val bs = .ok p := by
  have := packet_roundtrip p h hfull bs hw
  rwa [(normalise_eq_self_iff p).mpr hc] at this

/-- what the parser returns is a fixed point of `normalise`, i.e. is in the parser's form -/
theorem parsed_is_canonical (p : Packet) : PacketCanon (normalise p) :=
  (normalise_eq_self_iff _).mp (normalise_idem p)

/-! ### non-vacuity: a packet with PCR, private data, an extension with all three parts, stuffing and payload -/

def exExt : PacketAdaptationExtensionField :=
  { dtsNextAccessUnit := some { base := 8589934591, extension := 0 }, hasLegalTimeWindow := true, hasPiecewiseRate := true,
    hasSeamlessSplice := true, legalTimeWindowIsValid := true, legalTimeWindowOffset := 12345, length := 11,
    piecewiseRate := 4000000, spliceType := 9 }

def exAF : PacketAdaptationField :=
  { adaptationExtensionField := some exExt, pcr := some { base := 6442450941, extension := 299 },
    transportPrivateData := [1, 2, 3], transportPrivateDataLength := 3, length := 25, stuffingLength := 2,
    randomAccessIndicator := true, hasAdaptationExtensionField := true, hasPCR := true, hasTransportPrivateData := true }

def exPkt : Packet :=
  { adaptationField := some exAF
    header := { continuityCounter := 11, hasAdaptationField := true, hasPayload := true, payloadUnitStartIndicator := true,
                pid := 0x1abc, transportErrorIndicator := false, transportPriority := true, transportScramblingControl := 2 }
    payload := List.replicate 158 0xab }

example : ExtWF exExt := ⟨fun _ => by decide, fun _ => by decide, fun _ => ⟨by decide, by decide⟩⟩
example : ExtCanon exExt := by
  refine ⟨by decide, by decide, by decide, by decide, ?_⟩
  intro d hd; cases hd; rfl


theorem exExt_wf : ExtWF exExt := ⟨fun _ => by decide, fun _ => by decide, fun _ => ⟨by decide, by decide⟩⟩
theorem exExt_canon : ExtCanon exExt := by
  refine ⟨by decide, by decide, by decide, by decide, ?_⟩
  intro d hd; cases hd; rfl

theorem exAF_wf : AFWF exAF :=
  ⟨fun _ => by decide, fun h => absurd h (by decide), fun h => absurd h (by decide), fun _ => ⟨by decide, by decide⟩,
   fun _ => exExt_wf⟩
theorem exAF_canon : AFCanon exAF := by
  refine ⟨by decide, by decide, by decide, by decide, by decide, by decide, by decide, ?_⟩
  intro e he; cases he; exact exExt_canon

theorem exPkt_wf : PacketWF exPkt := ⟨by decide, by decide, by decide, fun _ _ => exAF_wf⟩
theorem exPkt_full : PacketFull exPkt := fun _ => by decide +kernel
theorem exPkt_canon : PacketCanon exPkt := by
  refine ⟨by decide, ?_, by decide⟩
  intro a ha; cases ha
  exact ⟨fun h => absurd h (by decide), fun _ => exAF_canon⟩

/-- sync, header 7a bc bb, adaptation_field_length 25, flags 0x53, PCR, private data, extension (length 11, LTW, piecewise
rate, DTS_next_AU), two stuffing bytes, 158 payload bytes -/
def exBytes : Bytes :=
  [0x47, 0x7a, 0xbc, 0xbb, 25, 0x53, 191, 255, 255, 254, 255, 43, 3, 1, 2, 3, 11, 255, 176, 57, 253, 9, 0,
   159, 255, 255, 255, 255, 255, 255] ++ List.replicate 158 0xab

theorem res_ok_of_check (r : Res Bytes) (bs : Bytes)
    (h : (match r with | .ok b => decide (b = bs) | _ => false) = true) : r = .ok bs := by
  cases r with
  | ok b => simp only [decide_eq_true_eq] at h; rw [h]
  | err e => cases h
  | panic => cases h

theorem exPkt_written : writePacket exPkt 188 = .ok exBytes := res_ok_of_check _ _ (by decide +kernel)

/-- the hypotheses of `packet_roundtrip_exact` hold for `exPkt`: parsing its 188 bytes gives it back, field for field -/
example : (parsePacket none).val exBytes = .ok exPkt :=
  packet_roundtrip_exact exPkt exPkt_wf exPkt_full exPkt_canon exBytes exPkt_written

/-- a packet that is *not* in the parser's form (stale `length`, negative stuffing, a PCR without its flag):
the round trip gives its normal form -/
def exPkt2 : Packet :=
  { adaptationField := some { pcr := some { base := 1, extension := 2 }, length := 99, stuffingLength := -3, spliceCountdown := 200,
                              hasSplicingCountdown := true }
    header := { continuityCounter := 0, hasAdaptationField := true, hasPayload := false, payloadUnitStartIndicator := false,
                pid := 17, transportErrorIndicator := false, transportPriority := false, transportScramblingControl := 0 }
    payload := [] }

theorem exPkt2_wf : PacketWF exPkt2 :=
  ⟨by decide, by decide, by decide, fun _ _ => ⟨fun h => absurd h (by decide), fun h => absurd h (by decide),
    fun _ => ⟨by decide, by decide⟩, fun h => absurd h (by decide), fun h => absurd h (by decide)⟩⟩
example : ∀ bs, writePacket exPkt2 188 = .ok bs → (parsePacket none).val bs = .ok (normalise exPkt2) :=
  fun bs hw => packet_roundtrip exPkt2 exPkt2_wf (fun h => absurd h (by decide)) bs hw
example : (writePacket exPkt2 188).isOk = true := by decide +kernel
example : normalise exPkt2 = { exPkt2 with adaptationField := some { length := 2, spliceCountdown := 200, hasSplicingCountdown := true } } := by
  decide +kernel


/-! ## W1 — the writer emits exactly the standard's layout: `writePacket` = the independent reference encoder

`Spec.tsEncode` (Astits/Spec/TS.lean) transcribes ISO/IEC 13818-1 tables 2-2 and 2-6 with the bit-serial field encoder
`Spec.enc`; the theorems below replace the case-by-case comparison of the correspondence run by a proof for every
packet.  Helper development: Astits/Proofs/SpecEq/{Enc,TS}.lean. -/

open Astits.SpecEq

/-- adaptation field extension, every flag combination (only guard: an announced DTS_next_AU is not negative) -/
theorem afext_eq_spec (e : PacketAdaptationExtensionField)
    (hss : e.hasSeamlessSplice = true → 0 ≤ (e.dtsNextAccessUnit.getD default).base) :
    afExtBytes e = Spec.enc (Spec.afExtFields e) := (afExt_eq e hss).symm

/-- adaptation field, every flag combination, stuffing included -/
theorem af_eq_spec (a : PacketAdaptationField) (h1 : a.isOneByteStuffing = false) (h : AFAgree a) (hsm : afSize a < 256) :
    afBytes a = Spec.afEncode a := (af_eq a h1 h hsm).symm

/-- **W1** (exact predicate): on every packet satisfying `SpecEq.TSAgree` — announced parts present, delivered
`length`, non-negative `int64` values, exactly 188 bytes —
`writePacket` succeeds and emits exactly the reference encoding.  No upper bound on any field is needed: both sides mask
an over-wide value to its field width in the same way; nothing is asked of the redundant field
TransportPrivateDataLength, which neither side reads. -/
theorem writePacket_eq_tsEncode (p : Packet) (h : TSAgree p) : writePacket p 188 = .ok (Spec.tsEncode p) :=
  writePacket_eq_spec p h

/-- **W1** under the predicates of `packet_roundtrip_exact`: a well-formed packet in the demuxer's delivered form whose
header, adaptation field and payload are exactly 188 bytes -/
theorem writePacket_eq_tsEncode_wf (p : Packet) (h : PacketWF p) (hc : PacketCanon p) (hx : PacketExact p) :
    writePacket p 188 = .ok (Spec.tsEncode p) :=
  writePacket_eq_spec p (tsAgree_of_wf_canon p h hc hx)

/-- for a packet with a payload, `PacketExact` is the `PacketFull` of `packet_roundtrip`; a packet without payload must
fill its 188 bytes with the adaptation field (adaptation_field_length 183), as ISO 13818-1 requires -/
theorem packetExact_of_full (p : Packet) (hf : PacketFull p) (hp : p.header.hasPayload = true) : PacketExact p := hf hp

/-- hence the reference bytes parse back to the packet -/
theorem parse_tsEncode (p : Packet) (h : PacketWF p) (hc : PacketCanon p) (hx : PacketExact p) :
    (parsePacket none).val (Spec.tsEncode p) = .ok p :=
  packet_roundtrip_exact p h (fun _ => hx) hc _ (writePacket_eq_tsEncode_wf p h hc hx)

/-! ### non-vacuity, and the excluded points evaluated -/

theorem exPkt_exact : PacketExact exPkt := by unfold PacketExact; decide +kernel

example : TSAgree exPkt := tsAgree_of_wf_canon exPkt exPkt_wf exPkt_canon exPkt_exact
example : writePacket exPkt 188 = .ok (Spec.tsEncode exPkt) :=
  writePacket_eq_tsEncode_wf exPkt exPkt_wf exPkt_canon exPkt_exact
/-- … and the reference bytes are the expected literal ones -/
example : Spec.tsEncode exPkt = exBytes := by decide +kernel

def hdrAFOnly : PacketHeader :=
  { continuityCounter := 3, hasAdaptationField := true, hasPayload := false, payloadUnitStartIndicator := false, pid := 0x100, transportErrorIndicator := false, transportPriority := false, transportScramblingControl := 0 }

/-- over-wide header values are NOT excluded: `TSAgree` holds and both sides mask (pid 8197 ↦ 5, counter 23 ↦ 7, scrambling 5 ↦ 1) -/
def exWide : Packet :=
  { adaptationField := none
    header := { hdrAFOnly with hasAdaptationField := false, hasPayload := true, pid := 8197, continuityCounter := 23, transportScramblingControl := 5 }
    payload := List.replicate 184 7 }
example : TSAgree exWide := ⟨fun h => absurd h (by decide), by decide +kernel, fun h => absurd h (by decide)⟩
example : (Spec.tsEncode exWide).take 4 = [0x47, 0x00, 0x05, 0x57] := by decide +kernel

def differs (r : Res Bytes) (bs : Bytes) : Bool := match r with | .ok b => decide (b ≠ bs) | _ => true

/-- excluded point 1: a NEGATIVE splice countdown (the Go field is `int`, documented "two's complement signed; may be
negative").  The writer emits `uint8(-1) = 0xff` — the standard's 8-bit tcimsbf value — while the reference encoder reads
the value with `Int.toNat` and writes 0x00.  Here the deviation is in the reference encoder; the parser, in turn, never
delivers a negative value (it returns 255). -/
def exNegSplice : Packet :=
  { adaptationField := some { length := 183, stuffingLength := 181, spliceCountdown := -1, hasSplicingCountdown := true }, header := hdrAFOnly, payload := [] }
example : differs (writePacket exNegSplice 188) (Spec.tsEncode exNegSplice) = true := by decide +kernel
example : (match writePacket exNegSplice 188 with | .ok b => b.getD 6 0 | _ => 0) = 0xff ∧ (Spec.tsEncode exNegSplice).getD 6 0 = 0 := by
  decide +kernel

/-- excluded point 2: a negative PCR (not a value of the 33 + 9 bit field): writer = low bits of the two's complement
(all ones), reference = 0 -/
def exNegPCR : Packet :=
  { adaptationField := some { length := 183, stuffingLength := 176, pcr := some { base := -1, extension := -1 }, hasPCR := true }, header := hdrAFOnly, payload := [] }
example : differs (writePacket exNegPCR 188) (Spec.tsEncode exNegPCR) = true := by decide +kernel

/-- formerly excluded point 3, NO LONGER excluded: TransportPrivateDataLength ≠ length of the data.  The writer used to
trust the length FIELD (wrote 0 and no data, while `calcPacketAdaptationFieldLength` counted `len(TransportPrivateData)`,
so the packet was completed with 0xff after the adaptation field).  The fixed writer derives the length byte from the
data, as the reference does: the packet satisfies `TSAgree` and both sides emit length byte 3 followed by the data. -/
def exPrivLen : Packet :=
  { adaptationField := some { length := 183, stuffingLength := 178, transportPrivateData := [1, 2, 3], transportPrivateDataLength := 0, hasTransportPrivateData := true }, header := hdrAFOnly, payload := [] }
theorem exPrivLen_agree : TSAgree exPrivLen :=
  ⟨fun _ => ⟨_, rfl, by decide, fun h => absurd h (by decide), fun _ =>
      ⟨by decide +kernel, fun h => absurd h (by decide), fun h => absurd h (by decide), fun h => absurd h (by decide),
        fun h => absurd h (by decide)⟩⟩,
    by decide +kernel, fun _ => rfl⟩
example : writePacket exPrivLen 188 = .ok (Spec.tsEncode exPrivLen) := writePacket_eq_tsEncode exPrivLen exPrivLen_agree
example : differs (writePacket exPrivLen 188) (Spec.tsEncode exPrivLen) = false := by decide +kernel
example : (Spec.tsEncode exPrivLen).take 10 = [0x47, 0x01, 0x00, 0x23, 183, 0x02, 3, 1, 2, 3] := by decide +kernel

/-- excluded point 4: fewer than 188 bytes: the writer pads with 0xff AFTER the payload, the reference does not pad -/
def exShort : Packet :=
  { adaptationField := none, header := { hdrAFOnly with hasAdaptationField := false, hasPayload := true }, payload := [1, 2, 3] }
example : (match writePacket exShort 188 with | .ok b => b.length | _ => 0) = 188 ∧ (Spec.tsEncode exShort).length = 7 := by
  decide +kernel

/-- excluded point 5: a stale `length` (not the delivered form): the reference takes adaptation_field_length from the value,
the writer recomputes it -/
def exStaleLen : Packet :=
  { adaptationField := some { length := 7, stuffingLength := 182 }, header := hdrAFOnly, payload := [] }
example : differs (writePacket exStaleLen 188) (Spec.tsEncode exStaleLen) = true := by decide +kernel

/-! ## P2 — byte-identical re-emission of ARBITRARY parsed bytes (NextPacket → WritePacket)

`parse_tsEncode` + `writePacket_eq_tsEncode` say `writePacket (parse (tsEncode p)) = tsEncode p`.  This section is the
converse, on bytes: for ANY 188 bytes `bs` that `parsePacket` accepts, the parsed packet is written back as `bs` **iff**
`Reemit.Reemittable bs` — a decidable (`Bool`) predicate computed from the bytes alone (definition and docstring in
`Proofs/Reemit/Write.lean`): the reserved / stuffing bytes have the values the writer emits.
Helper development: `Proofs/Reemit/{Bytes,Decode,Write}.lean`:
* `Reemit.parsePacket_inv`: the parser as a pure function — a successful parse returns `Reemit.pktOf bs`, and the optional
  parts it read lie inside the 188 bytes (`InRange`);
* `Reemit.write_pktOf`: `writePacket (pktOf bs) 188 = .ok bs ↔ Reemittable bs`.
Hypotheses: 188 bytes, every element a byte (`IsBytes`: the model's `Bytes` is `List Nat`). -/

section Reemission
open Astits.Reemit

/-- **P2**: byte-identical re-emission ⇔ `Reemittable` -/
theorem reemit_iff (bs : Bytes) (hl : bs.length = 188) (hb : IsBytes bs) (p : Packet)
    (hp : (parsePacket none).val bs = .ok p) :
    writePacket p 188 = .ok bs ↔ Reemittable bs = true := by
  obtain ⟨rfl, hr⟩ := parsePacket_inv bs hl hp
  exact write_pktOf bs hl hb hr

/-- whatever the writer returns for a parsed packet that is not `Reemittable` — an error or 188 other bytes — it is not `bs` -/
theorem not_reemittable (bs : Bytes) (hl : bs.length = 188) (hb : IsBytes bs) (p : Packet)
    (hp : (parsePacket none).val bs = .ok p) (hn : Reemittable bs = false) : writePacket p 188 ≠ .ok bs := by
  intro h
  rw [(reemit_iff bs hl hb p hp).mp h] at hn
  cases hn

/-- the parser as a function of the bytes (what `reemit_iff` rests on) -/
theorem parse_is_pktOf (bs : Bytes) (hl : bs.length = 188) (p : Packet) (hp : (parsePacket none).val bs = .ok p) :
    p = pktOf bs ∧ InRange bs := parsePacket_inv bs hl hp

/-- every reference-encoded packet (`Spec.tsEncode p`, `p` well-formed, in delivered form, exactly 188 bytes, byte-valued
payload / private data) is `Reemittable`: the predicate is not vacuous on conformant streams -/
theorem tsEncode_reemittable (p : Packet) (h : PacketWF p) (hc : PacketCanon p) (hx : PacketExact p)
    (hb : IsBytes (Spec.tsEncode p)) : Reemittable (Spec.tsEncode p) = true :=
  (reemit_iff _ (C04.writePacket_length p 188 _ (writePacket_eq_tsEncode_wf p h hc hx)) hb p (parse_tsEncode p h hc hx)).mp
    (writePacket_eq_tsEncode_wf p h hc hx)

/-! ### non-vacuity -/

/-- the packet with PCR, private data, a full extension, stuffing and payload of this file -/
example : exBytes.length = 188 ∧ IsBytes exBytes ∧ Reemittable exBytes = true := by decide +kernel
example : writePacket exPkt 188 = .ok exBytes :=
  (reemit_iff exBytes (by decide +kernel) (by decide +kernel) exPkt
    (packet_roundtrip_exact exPkt exPkt_wf exPkt_full exPkt_canon exBytes exPkt_written)).mpr (by decide +kernel)

def padTo (l : Bytes) (x : Nat) : Bytes := l ++ List.replicate (188 - l.length) x

/-- outcome of NextPacket → WritePacket on `bs`: `some true` byte-identical, `some false` 188 other bytes, `none` an error -/
def reemits (bs : Bytes) : Option Bool :=
  match (parsePacket none).val bs with
  | .ok p => (match writePacket p 188 with | .ok o => some (decide (o = bs)) | _ => none)
  | _ => none

/-- what the writer emits instead (first 12 bytes) -/
def reemitted (bs : Bytes) : Bytes :=
  match (parsePacket none).val bs with
  | .ok p => (match writePacket p 188 with | .ok o => o.take 12 | _ => [])
  | _ => []

/-! ### the excluded points (`Reemittable = false`), each evaluated on the model: what comes out instead -/

/-- (1) the recorded finding `af-extension-reserved-bytes`: extension length 2 = flags byte + 1 reserved byte.  Re-emitted
with adaptation_field_extension_length 1: `04 01 02 1f ff` → `04 01 01 1f ff` (the reserved byte is accounted as stuffing) -/
example : Reemittable (padTo [0x47, 0x01, 0x00, 0x30, 4, 0x01, 2, 0x1f, 0xff] 0xab) = false
    ∧ reemits (padTo [0x47, 0x01, 0x00, 0x30, 4, 0x01, 2, 0x1f, 0xff] 0xab) = some false
    ∧ reemitted (padTo [0x47, 0x01, 0x00, 0x30, 4, 0x01, 2, 0x1f, 0xff] 0xab) = [0x47, 0x01, 0x00, 0x30, 4, 0x01, 1, 0x1f, 0xff, 0xab, 0xab, 0xab] := by
  decide +kernel
/-- … the same extension without the reserved byte is re-emitted identically -/
example : Reemittable (padTo [0x47, 0x01, 0x00, 0x30, 3, 0x01, 1, 0x1f] 0xab) = true := by decide +kernel

/-- (2) adaptation_field_extension_length = 0 (not conformant: the flags byte is mandatory): the parser returns an extension
without reading flags, the writer needs 2 bytes for it — `WritePacket` FAILS (payload no longer fits) -/
example : Reemittable (padTo [0x47, 0x01, 0x00, 0x30, 2, 0x01, 0] 0xab) = false
    ∧ reemits (padTo [0x47, 0x01, 0x00, 0x30, 2, 0x01, 0] 0xab) = none := by decide +kernel

/-- (3) extension reserved flag bits clear (00 instead of 1f): re-emitted as 1f -/
example : Reemittable (padTo [0x47, 0x01, 0x00, 0x30, 3, 0x01, 1, 0x00] 0xab) = false
    ∧ (reemitted (padTo [0x47, 0x01, 0x00, 0x30, 3, 0x01, 1, 0x00] 0xab)).getD 7 0 = 0x1f := by decide +kernel

/-- (4) an adaptation field stuffing byte that is not 0xff: re-emitted as 0xff -/
example : Reemittable (padTo [0x47, 0x01, 0x00, 0x30, 3, 0x00, 0xff, 0x00] 0xab) = false
    ∧ (reemitted (padTo [0x47, 0x01, 0x00, 0x30, 3, 0x00, 0xff, 0x00] 0xab)).getD 7 0 = 0xff
    ∧ Reemittable (padTo [0x47, 0x01, 0x00, 0x30, 3, 0x00, 0xff, 0xff] 0xab) = true := by decide +kernel

/-- (5) PCR reserved bits clear (byte 0x80 instead of 0xfe): re-emitted set -/
example : Reemittable (padTo [0x47, 0x01, 0x00, 0x30, 7, 0x10, 1, 2, 3, 4, 0x80, 5] 0xab) = false
    ∧ (reemitted (padTo [0x47, 0x01, 0x00, 0x30, 7, 0x10, 1, 2, 3, 4, 0x80, 5] 0xab)).getD 10 0 = 0xfe
    ∧ Reemittable (padTo [0x47, 0x01, 0x00, 0x30, 7, 0x10, 1, 2, 3, 4, 0xfe, 5] 0xab) = true := by decide +kernel

/-- (6) adaptation_field_control = 10 (no payload) with bytes other than 0xff after the adaptation field: they are dropped
and 0xff is written; a conformant '10' packet (adaptation_field_length 183) is re-emitted identically -/
example : Reemittable (padTo [0x47, 0x01, 0x00, 0x20, 1, 0x00] 0xab) = false
    ∧ reemitted (padTo [0x47, 0x01, 0x00, 0x20, 1, 0x00] 0xab) = [0x47, 0x01, 0x00, 0x20, 1, 0x00, 0xff, 0xff, 0xff, 0xff, 0xff, 0xff]
    ∧ Reemittable (padTo [0x47, 0x01, 0x00, 0x20, 183, 0x00] 0xff) = true := by decide +kernel

/-- (7) adaptation_field_control = 00 (reserved): 184 bytes 0xff come out, whatever was there -/
example : Reemittable (padTo [0x47, 0x01, 0x00, 0x00] 0xab) = false
    ∧ reemitted (padTo [0x47, 0x01, 0x00, 0x00] 0xab) = [0x47, 0x01, 0x00, 0x00, 0xff, 0xff, 0xff, 0xff, 0xff, 0xff, 0xff, 0xff]
    ∧ Reemittable (padTo [0x47, 0x01, 0x00, 0x00] 0xff) = true := by decide +kernel

/-- (8) payload only, and adaptation_field_length 0 followed by a payload: always identical -/
example : Reemittable (padTo [0x47, 0x01, 0x00, 0x10] 0xab) = true ∧ Reemittable (padTo [0x47, 0x01, 0x00, 0x30, 0] 0xab) = true := by
  decide +kernel

/-- (9) optional parts that run past adaptation_field_length (length 1 with the PCR flag set): the parser reads the PCR from
the payload bytes without complaint (it never compares with adaptation_field_length); `WritePacket` then FAILS -/
example : ((parsePacket none).val (padTo [0x47, 0x01, 0x00, 0x30, 1, 0x10, 1, 2, 3, 4, 0xfe, 5] 0xab)).isOk = true
    ∧ Reemittable (padTo [0x47, 0x01, 0x00, 0x30, 1, 0x10, 1, 2, 3, 4, 0xfe, 5] 0xab) = false
    ∧ reemits (padTo [0x47, 0x01, 0x00, 0x30, 1, 0x10, 1, 2, 3, 4, 0xfe, 5] 0xab) = none := by decide +kernel

/-- (10) adaptation_field_length > 183 (runs past the packet): parsed (empty payload), `WritePacket` FAILS -/
example : ((parsePacket none).val (padTo [0x47, 0x01, 0x00, 0x30, 200, 0x00] 0xff)).isOk = true
    ∧ reemits (padTo [0x47, 0x01, 0x00, 0x30, 200, 0x00] 0xff) = none
    ∧ reemits (padTo [0x47, 0x01, 0x00, 0x20, 184, 0x00] 0xff) = none := by decide +kernel

/-- (11) piecewise-rate reserved bits / DTS_next_AU marker bits clear: re-emitted set -/
example : Reemittable (padTo [0x47, 0x01, 0x00, 0x30, 6, 0x01, 4, 0x5f, 0x01, 2, 3] 0xab) = false
    ∧ Reemittable (padTo [0x47, 0x01, 0x00, 0x30, 6, 0x01, 4, 0x5f, 0xc1, 2, 3] 0xab) = true
    ∧ Reemittable (padTo [0x47, 0x01, 0x00, 0x30, 8, 0x01, 6, 0x3f, 0x90, 2, 3, 4, 5] 0xab) = false
    ∧ Reemittable (padTo [0x47, 0x01, 0x00, 0x30, 8, 0x01, 6, 0x3f, 0x91, 2, 3, 4, 5] 0xab) = true := by decide +kernel

/-- (12) the hypothesis `IsBytes` (a modelling artefact: `Bytes = List Nat`): a header "byte" 0x100 is masked by the parser,
so the predicate (which never looks at header bytes) says true while the bytes differ.  Real slices satisfy `IsBytes`. -/
example : Reemittable (padTo [0x47, 0x01, 0x100, 0x10] 0xab) = true
    ∧ reemits (padTo [0x47, 0x01, 0x100, 0x10] 0xab) = some false := by decide +kernel

end Reemission

end Astits.C11
