/-
C15 — DVB date/time and BCD durations convert exactly over their whole range.
The whole 16-bit MJD range of the property (15079 = 1900-03-01 … 65535 = 2038-04-22) is evaluated by
the kernel, day by day, against a calendar that only knows "the day after" (Spec.nextDay).
-/
import Astits.Proofs.MJD.Chunk0
import Astits.Proofs.MJD.Chunk1
import Astits.Proofs.MJD.Chunk2
import Astits.Proofs.MJD.Chunk3
import Astits.Proofs.MJD.Chunk4
import Astits.Proofs.MJD.Chunk5
import Astits.Proofs.MJD.Chunk6
import Astits.Proofs.MJD.Chunk7
import Astits.Proofs.MJD.ChunkI0
import Astits.Proofs.MJD.ChunkI1
import Astits.Proofs.MJD.ChunkI2
import Astits.Proofs.MJD.ChunkI3
import Astits.Proofs.MJD.ChunkI4
import Astits.Proofs.MJD.ChunkI5
import Astits.Proofs.MJD.ChunkI6
import Astits.Proofs.MJD.ChunkI7
import Astits.Generated.Exprs
namespace Astits.C15
open MJD

/-- all chunk start dates are the calendar dates of their MJD -/
theorem starts :
    stepN 6400 (1900, 3, 1) = (1917, 9, 8) ∧ stepN 12800 (1900, 3, 1) = (1935, 3, 18) ∧
    stepN 19200 (1900, 3, 1) = (1952, 9, 24) ∧ stepN 25600 (1900, 3, 1) = (1970, 4, 3) ∧
    stepN 32000 (1900, 3, 1) = (1987, 10, 11) ∧ stepN 38400 (1900, 3, 1) = (2005, 4, 19) ∧
    stepN 44800 (1900, 3, 1) = (2022, 10, 27) := by
  have h0 := walk_last _ _ _ _ chunk0
  have h1 := walk_last _ _ _ _ chunk1
  have h2 := walk_last _ _ _ _ chunk2
  have h3 := walk_last _ _ _ _ chunk3
  have h4 := walk_last _ _ _ _ chunk4
  have h5 := walk_last _ _ _ _ chunk5
  have h6 := walk_last _ _ _ _ chunk6
  have e1 : stepN 12800 (1900, 3, 1) = stepN 6400 (stepN 6400 (1900, 3, 1)) := stepN_add 6400 6400 _
  have e2 : stepN 19200 (1900, 3, 1) = stepN 6400 (stepN 12800 (1900, 3, 1)) := stepN_add 12800 6400 _
  have e3 : stepN 25600 (1900, 3, 1) = stepN 6400 (stepN 19200 (1900, 3, 1)) := stepN_add 19200 6400 _
  have e4 : stepN 32000 (1900, 3, 1) = stepN 6400 (stepN 25600 (1900, 3, 1)) := stepN_add 25600 6400 _
  have e5 : stepN 38400 (1900, 3, 1) = stepN 6400 (stepN 32000 (1900, 3, 1)) := stepN_add 32000 6400 _
  have e6 : stepN 44800 (1900, 3, 1) = stepN 6400 (stepN 38400 (1900, 3, 1)) := stepN_add 38400 6400 _
  refine ⟨h0.symm, ?_, ?_, ?_, ?_, ?_, ?_⟩
  · rw [e1, ← h0, ← h1]
  · rw [e2, e1, ← h0, ← h1, ← h2]
  · rw [e3, e2, e1, ← h0, ← h1, ← h2, ← h3]
  · rw [e4, e3, e2, e1, ← h0, ← h1, ← h2, ← h3, ← h4]
  · rw [e5, e4, e3, e2, e1, ← h0, ← h1, ← h2, ← h3, ← h4, ← h5]
  · rw [e6, e5, e4, e3, e2, e1, ← h0, ← h1, ← h2, ← h3, ← h4, ← h5, ← h6]

/-- **decode and encode over the whole range**: for every day number n < 50457 (MJD 15079 + n ≤ 65535) the
Annex C decode formula gives the civil date n days after 1900-03-01, and the encode formula gives the MJD back -/
theorem mjd_nat (n : Nat) (hn : n < 50457) :
    decodeNat (15079 + n) = Spec.dateAfter n ∧
    encodeNat (Spec.dateAfter n).1 (Spec.dateAfter n).2.1 (Spec.dateAfter n).2.2 = 15079 + n := by
  rw [dateAfter_eq]
  obtain ⟨s1, s2, s3, s4, s5, s6, s7⟩ := starts
  have key : ∀ (k start : Nat) (d e : Nat × Nat × Nat) (cnt : Nat), walk cnt (15079 + start) d = some e →
      stepN start (1900, 3, 1) = d → start ≤ n → n < start + cnt →
      decodeNat (15079 + n) = stepN n (1900, 3, 1) ∧
      encodeNat (stepN n (1900, 3, 1)).1 (stepN n (1900, 3, 1)).2.1 (stepN n (1900, 3, 1)).2.2 = 15079 + n := by
    intro _ start d e cnt hw hs hlo hhi
    have := walk_spec cnt (15079 + start) d e hw (n - start) (by omega)
    have e1 : 15079 + start + (n - start) = 15079 + n := by omega
    have e2 : stepN n (1900, 3, 1) = stepN (n - start) d := by
      have hn : start + (n - start) = n := by omega
      rw [← hs, ← stepN_add, hn]
    rw [e1] at this
    rw [e2]; exact this
  have sz : stepN 0 (1900, 3, 1) = (1900, 3, 1) := by simp [stepN]
  by_cases h0 : n < 6400
  · exact key 0 0 (1900, 3, 1) (1917, 9, 8) 6400 chunk0 sz (Nat.zero_le n) (by omega)
  by_cases h1 : n < 12800
  · exact key 1 6400 (1917, 9, 8) (1935, 3, 18) 6400 chunk1 s1 (by omega) (by omega)
  by_cases h2 : n < 19200
  · exact key 2 12800 (1935, 3, 18) (1952, 9, 24) 6400 chunk2 s2 (by omega) (by omega)
  by_cases h3 : n < 25600
  · exact key 3 19200 (1952, 9, 24) (1970, 4, 3) 6400 chunk3 s3 (by omega) (by omega)
  by_cases h4 : n < 32000
  · exact key 4 25600 (1970, 4, 3) (1987, 10, 11) 6400 chunk4 s4 (by omega) (by omega)
  by_cases h5 : n < 38400
  · exact key 5 32000 (1987, 10, 11) (2005, 4, 19) 6400 chunk5 s5 (by omega) (by omega)
  by_cases h6 : n < 44800
  · exact key 6 38400 (2005, 4, 19) (2022, 10, 27) 6400 chunk6 s6 (by omega) (by omega)
  · exact key 7 44800 (2022, 10, 27) (2038, 4, 23) 5657 chunk7 s7 (by omega) (by omega)

/-- **the model functions themselves** (Int-valued, as executed against the real code): for every day number
n < 50457, with mjd = 15079 + n and (y, m, d) the civil date n days after 1900-03-01:
`decodeYMD mjd = (y, m, d)`; the model of Go's `time.Date(y, m, d)` is `(mjd − 40587)·86400` seconds after the epoch;
the model of Go's `Year/Month/Day` of that instant is `(y, m, d)`; `encodeMJD y m d = mjd` -/
theorem mjd_model (n : Nat) (hn : n < 50457) :
    let date := Spec.dateAfter n
    decodeYMD ((15079 + n : Nat) : Int) = toI date ∧
    unixOfDate (date.1 : Int) (date.2.1 : Int) (date.2.2 : Int) = (((15079 + n : Nat) : Int) - 40587) * 86400 ∧
    civilFromDays (((15079 + n : Nat) : Int) - 40587) = toI date ∧
    encodeMJD (date.1 : Int) (date.2.1 : Int) (date.2.2 : Int) = ((15079 + n : Nat) : Int) := by
  intro date
  obtain ⟨s1, s2, s3, s4, s5, s6, s7⟩ := starts
  have key : ∀ (start : Nat) (d : Nat × Nat × Nat) (cnt : Nat), walkI cnt (15079 + start) d = true →
      stepN start (1900, 3, 1) = d → start ≤ n → n < start + cnt → dayOK (15079 + n) (stepN n (1900, 3, 1)) = true := by
    intro start d cnt hw hs hlo hhi
    have := walkI_spec cnt (15079 + start) d hw (n - start) (by omega)
    have e1 : 15079 + start + (n - start) = 15079 + n := by omega
    have hn' : start + (n - start) = n := by omega
    have e2 : stepN n (1900, 3, 1) = stepN (n - start) d := by rw [← hs, ← stepN_add, hn']
    rw [e1] at this
    rw [e2]; exact this
  have sz : stepN 0 (1900, 3, 1) = (1900, 3, 1) := by simp [stepN]
  have hday : dayOK (15079 + n) (stepN n (1900, 3, 1)) = true := by
    by_cases h0 : n < 6400
    · exact key 0 (1900, 3, 1) 6400 chunkI0 sz (Nat.zero_le n) (by omega)
    by_cases h1 : n < 12800
    · exact key 6400 (1917, 9, 8) 6400 chunkI1 s1 (by omega) (by omega)
    by_cases h2 : n < 19200
    · exact key 12800 (1935, 3, 18) 6400 chunkI2 s2 (by omega) (by omega)
    by_cases h3 : n < 25600
    · exact key 19200 (1952, 9, 24) 6400 chunkI3 s3 (by omega) (by omega)
    by_cases h4 : n < 32000
    · exact key 25600 (1970, 4, 3) 6400 chunkI4 s4 (by omega) (by omega)
    by_cases h5 : n < 38400
    · exact key 32000 (1987, 10, 11) 6400 chunkI5 s5 (by omega) (by omega)
    by_cases h6 : n < 44800
    · exact key 38400 (2005, 4, 19) 6400 chunkI6 s6 (by omega) (by omega)
    · exact key 44800 (2022, 10, 27) 5657 chunkI7 s7 (by omega) (by omega)
  have hd : date = stepN n (1900, 3, 1) := dateAfter_eq n
  rw [hd]
  unfold dayOK at hday
  simp only [Bool.and_eq_true, beq_iff_eq] at hday
  exact ⟨hday.1.1.1, hday.1.1.2, hday.1.2, hday.2⟩

/-- **decoding five bytes**: for every MJD in 15079..65535 and any BCD-coded time of day, `parseDVBTime` returns
the instant `(mjd − 40587)` days after the Unix epoch plus the decoded time of day -/
theorem parseDVBTime_spec (m1 m0 h mi s : Nat) (hm0 : m0 < 256) (hlo : 15079 ≤ m1 * 256 + m0) (hhi : m1 * 256 + m0 ≤ 65535) :
    parseDVBTime.val [m1, m0, h, mi, s] =
      .ok ((((m1 * 256 + m0 : Nat) : Int) - 40587) * 86400 + durationSecondsOfBytes h mi s) := by
  have hn : m1 * 256 + m0 - 15079 < 50457 := by omega
  have hm := mjd_model (m1 * 256 + m0 - 15079) hn
  have e : 15079 + (m1 * 256 + m0 - 15079) = m1 * 256 + m0 := by omega
  rw [e] at hm
  obtain ⟨hdec, hunix, _, _⟩ := hm
  have hc : (m1 : Int) * 256 + (m0 : Int) = ((m1 * 256 + m0 : Nat) : Int) := by simp
  simp only [parseDVBTime, parseDVBDurationSeconds, P.val, bind, pure, It.nextBytes, List.length_cons, List.length_nil]
  simp
  rw [hc, hdec]
  simpa [toI] using hunix

/-! #### BCD -/

/-- every raw byte decodes digit-wise: high nibble × 10 + low nibble -/
theorem bcd_raw (b : Nat) : parseDVBDurationByte b = 10 * (b / 16) + b % 16 := by
  unfold parseDVBDurationByte; omega

/-- two BCD digits round-trip for every value 0..99 -/
theorem bcd_roundtrip (n : Nat) (h : n < 100) : parseDVBDurationByte (dvbDurationByteRepresentation n) = n := by
  unfold parseDVBDurationByte dvbDurationByteRepresentation; omega

theorem bcd_eq_spec (n : Nat) (h : n < 100) : dvbDurationByteRepresentation n = Spec.bcd n := by
  unfold dvbDurationByteRepresentation Spec.bcd; omega

/-- hh:mm:ss durations: writing then parsing gives the duration back, for all 0 ≤ h < 100, m, s < 60 -/
theorem duration_seconds_roundtrip (h m s : Nat) (hh : h < 100) (hm : m < 60) (hs : s < 60) :
    let ns : Int := ((h * 3600 + m * 60 + s : Nat) : Int) * 1000000000
    (writeDVBDurationSeconds ns) = [Spec.bcd h, Spec.bcd m, Spec.bcd s] ∧
    durationSecondsOfBytes (Spec.bcd h) (Spec.bcd m) (Spec.bcd s) = (h * 3600 + m * 60 + s : Nat) := by
  intro ns
  constructor
  · unfold writeDVBDurationSeconds
    have e1 : ns / 3600000000000 = (h : Int) := by omega
    have e2 : ns / 60000000000 % 60 = (m : Int) := by omega
    have e3 : ns / 1000000000 % 60 = (s : Int) := by omega
    simp only [e1, e2, e3, Int.toNat_natCast]
    rw [Nat.mod_eq_of_lt (by omega : h < 256), bcd_eq_spec h hh, bcd_eq_spec m (by omega), bcd_eq_spec s (by omega)]
  · unfold durationSecondsOfBytes parseDVBDurationByte Spec.bcd
    omega

/-- **encoding**: for every day in range and every second of the day, `writeDVBTime` emits the 16-bit MJD and the six BCD
digits of the time of day (the five bytes of EN 300 468) -/
theorem writeDVBTime_spec (n sec : Nat) (hn : n < 50457) (hs : sec < 86400) :
    writeDVBTime ((((15079 + n : Nat) : Int) - 40587) * 86400 + (sec : Int)) = Spec.dvbTimeBytes (15079 + n) sec := by
  obtain ⟨_, _, hciv, henc⟩ := mjd_model n hn
  have hdays : ((((15079 + n : Nat) : Int) - 40587) * 86400 + (sec : Int)) / 86400 = ((15079 + n : Nat) : Int) - 40587 := by omega
  have hsecs : ((((15079 + n : Nat) : Int) - 40587) * 86400 + (sec : Int)) % 86400 = (sec : Int) := by omega
  unfold writeDVBTime
  simp only [hdays, hsecs, hciv, toI, henc]
  have hm : (((15079 + n : Nat) : Int) % 65536).toNat = 15079 + n := by omega
  rw [hm]
  have hd := (duration_seconds_roundtrip (sec / 3600) (sec / 60 % 60) (sec % 60) (by omega) (by omega) (by omega)).1
  have hsum : sec / 3600 * 3600 + sec / 60 % 60 * 60 + sec % 60 = sec := by omega
  simp only [hsum] at hd
  have hcast : ((sec : Int) * 1000000000) = ((sec : Nat) : Int) * 1000000000 := rfl
  rw [hd]
  simp [Spec.dvbTimeBytes, beBytes]

/-- the regenerated Go expressions of today are the model's -/
theorem generated_parse_byte : ∀ b : Fin 256, Generated.parseDVBDurationByte b.val = parseDVBDurationByte b.val := by
  decide +kernel

theorem generated_repr_byte : ∀ n : Fin 160, Generated.dvbDurationByteRepresentation n.val = dvbDurationByteRepresentation n.val := by
  decide +kernel

/-! #### non-vacuity: 1993-10-13 is MJD 49273 (the example of EN 300 468 Annex C) -/
example : decodeNat 49273 = (1993, 10, 13) := by decide
example : decodeNat 45218 = (1982, 9, 6) ∧ encodeNat 1982 9 6 = 45218 := by decide

end Astits.C15
