/-
C10 — the section checksum is exactly CRC-32/MPEG-2 for every byte string.
Property theorems only; helper lemmas are in Proofs/CRC.lean.
`Generated.*` is regenerated from /repo/crc32.go and /repo/crc32_table.go on every run.
-/
import Astits.Proofs.CRC
import Astits.Generated.CRC
import Astits.Props.TieTactics
namespace Astits.C10
open Astits.Tie

/-! #### tie: the Go source of today is the model -/

/-- all 256 entries of the Go table are eight bit-serial steps of the polynomial -/
theorem table_eq : Generated.crcTable = (List.range 256).map (fun i => crcTableEntry (BitVec.ofNat 32 i)) := by
  decide +kernel

theorem table_correct (i : Fin 256) :
    Generated.crcTable.getD i.val 0#32 = crcTableEntry (BitVec.ofNat 32 i.val) := by
  rw [table_eq]
  simp [List.getD_eq_getElem?_getD, i.isLt]

theorem table_length : Generated.crcTable.length = 256 := by rw [table_eq]; simp

theorem generated_init : Generated.crcInit = crcInit := by decide

/-- a lookup in the Go table at an index `i` below 256 is the model's table entry of `j`, if `i` and `j` are the
same number (both conditions as one Bool, so that they can be evaluated for all inputs at once) -/
theorem table_lookup {w : Nat} (i : BitVec w) (j : BitVec 32)
    (h : (Nat.blt i.toNat 256 && Nat.beq i.toNat j.toNat) = true) :
    Generated.crcTable.getD i.toNat 0#32 = crcTableEntry j := by
  simp only [Bool.and_eq_true, Nat.blt_eq] at h
  have hij : i.toNat = j.toNat := Nat.eq_of_beq_eq_true h.2
  have hj : BitVec.ofNat 32 i.toNat = j := by
    rw [hij]; apply BitVec.eq_of_toNat_eq; simp
  rw [← hj]
  exact table_correct ⟨i.toNat, h.1⟩

theorem xor_congr_left (a x y : BitVec 32) (h : x = y) : a ^^^ x = a ^^^ y := by rw [h]
theorem xor_congr_right (a x y : BitVec 32) (h : x = y) : x ^^^ a = a ^^^ y := by rw [h, BitVec.xor_comm]

/-- the top byte of the register -/
theorem top_byte (c : BitVec 32) : ∃ h : Nat, h < 256 ∧ c >>> 24 = BitVec.ofNat 32 h := by
  refine ⟨(c >>> 24).toNat, ?_, ?_⟩
  · rw [BitVec.toNat_ushiftRight, Nat.shiftRight_eq_div_pow]; have := c.isLt; omega
  · simp only [BitVec.ofNat_toNat, BitVec.setWidth_eq]

/-- only the low eight bits of the byte argument of the model's step matter -/
theorem crcStep_mod (c : BitVec 32) (b : Nat) : crcStep c b = crcStep c (b % 256) := by
  unfold crcStep
  congr 2
  apply BitVec.eq_of_toNat_eq
  simp only [BitVec.toNat_and, BitVec.toNat_xor, BitVec.toNat_ofNat]
  have h255 : 255 % 2 ^ 32 = 2 ^ 8 - 1 := by decide
  rw [h255, Nat.and_two_pow_sub_one_eq_mod, Nat.and_two_pow_sub_one_eq_mod, Nat.xor_mod_two_pow,
    Nat.xor_mod_two_pow (b := b % 256 % 2 ^ 32)]
  congr 1
  omega

/-- the loop body of `updateCRC32` as written in Go (possibly through a helper function, with the table index
computed on 32 or on 8 bits) equals the model's step.  The proof does not look at how the index is written: it is a
function of the top byte `h` of the register and the input byte `b`, and the side condition of `table_lookup` (the
index is below 256 and it is the model's index) is evaluated for all 65536 pairs `(h, b)`. -/
theorem generated_step_byte (c : BitVec 32) (b : Nat) (hb : b < 256) :
    Generated.crcStep c (BitVec.ofNat 8 b) = crcStep c b := by
  unfold Generated.crcStep crcStep
  obtain ⟨h, hlt, hh⟩ := top_byte c
  simp only [hh]
  clear hh
  -- `(c <<< 8) ^^^ table[…]`, in either order of the operands
  first
    | apply xor_congr_left
    | apply xor_congr_right
  apply table_lookup
  revert b
  revert h
  refine forall_lt_pairs ?_
  decide +kernel

/-- the same for every natural number taken as a byte (Go's `byte`: the low eight bits) -/
theorem generated_step (c : BitVec 32) (b : Nat) :
    Generated.crcStep c (BitVec.ofNat 8 b) = crcStep c b := by
  have hb : BitVec.ofNat 8 b = BitVec.ofNat 8 (b % 256) := by
    apply BitVec.eq_of_toNat_eq; simp
  rw [crcStep_mod, hb]
  exact generated_step_byte c (b % 256) (Nat.mod_lt _ (by decide))

/-! #### the property -/

/-- one table-driven step = eight steps of the textbook bit-serial register -/
theorem step_eq_spec (c : BitVec 32) (b : Nat) (hb : b < 256) :
    crcStep c b = Spec.crcFeedByte c b := crcStep_eq_spec c b hb

theorem update_eq_spec (c : BitVec 32) (bs : Bytes) (hbs : ∀ b ∈ bs, b < 256) :
    updateCRC32 c bs = Spec.crcFrom c bs := by
  induction bs generalizing c with
  | nil => rfl
  | cons b bs ih =>
    simp only [updateCRC32, Spec.crcFrom, List.foldl_cons] at *
    rw [step_eq_spec c b (hbs b (by simp))]
    exact ih _ (fun x hx => hbs x (by simp [hx]))

/-- the checksum of every byte string is CRC-32/MPEG-2 -/
theorem crc_eq_spec (bs : Bytes) (hbs : ∀ b ∈ bs, b < 256) : computeCRC32 bs = Spec.crc bs :=
  update_eq_spec _ bs hbs

/-- feeding the input in any number of pieces gives the value of one pass -/
theorem crc_pieces (s : BitVec 32) (ps : List Bytes) :
    ps.foldl updateCRC32 s = updateCRC32 s ps.flatten := by
  induction ps generalizing s with
  | nil => rfl
  | cons p ps ih => simp [updateCRC32, List.foldl_append, ih] at *

theorem update_append (s : BitVec 32) (a b : Bytes) :
    updateCRC32 s (a ++ b) = updateCRC32 (updateCRC32 s a) b := by
  simp [updateCRC32, List.foldl_append]

/-- feeding the register's own top byte shifts the register by 8 with no feedback left -/
theorem step_top (c : BitVec 32) : crcStep c (c.toNat / 16777216 % 256) = c <<< 8 := by
  rw [crcStep_eq_bits8]
  have h : BitVec.ofNat 32 (c.toNat / 16777216 % 256) = c >>> 24 := by
    apply BitVec.eq_of_toNat_eq
    rw [BitVec.toNat_ushiftRight, BitVec.toNat_ofNat, Nat.shiftRight_eq_div_pow]
    have := c.isLt
    omega
  rw [h, split_top]
  simp only [BitVec.xor_self, BitVec.zero_and, BitVec.zero_shiftLeft, BitVec.xor_zero]
  rw [crcBits8_small _ (lo_small c), lo_shl]

theorem shl8_toNat (c : BitVec 32) : (c <<< 8).toNat = c.toNat * 256 % 4294967296 := by
  rw [BitVec.toNat_shiftLeft]; simp [Nat.shiftLeft_eq]

/-- a message followed by its big-endian checksum always has residue 0 -/
theorem residue_zero_from (c : BitVec 32) : updateCRC32 c (be32 c) = 0#32 := by
  have hc := c.isLt
  have e1 : c.toNat / 256 ^ 3 % 256 = c.toNat / 16777216 % 256 := by rw [show (256:Nat)^3 = 16777216 from rfl]
  have h1 := step_top c
  have h2 := step_top (c <<< 8)
  have h3 := step_top (c <<< 8 <<< 8)
  have h4 := step_top (c <<< 8 <<< 8 <<< 8)
  have t1 := shl8_toNat c
  have t2 := shl8_toNat (c <<< 8)
  have t3 := shl8_toNat (c <<< 8 <<< 8)
  have b2 : c.toNat / 256 ^ 2 % 256 = (c <<< 8).toNat / 16777216 % 256 := by
    rw [t1]; omega
  have b3 : c.toNat / 256 ^ 1 % 256 = (c <<< 8 <<< 8).toNat / 16777216 % 256 := by
    rw [t2, t1]; omega
  have b4 : c.toNat / 256 ^ 0 % 256 = (c <<< 8 <<< 8 <<< 8).toNat / 16777216 % 256 := by
    rw [t3, t2, t1]; omega
  simp only [updateCRC32, be32, beBytes, List.foldl_cons, List.foldl_nil]
  rw [e1, h1, b2, h2, b3, h3, b4, h4]
  simp [← BitVec.shiftLeft_add]

theorem residue_zero (m : Bytes) : computeCRC32 (m ++ be32 (computeCRC32 m)) = 0#32 := by
  unfold computeCRC32
  rw [update_append]
  exact residue_zero_from _

/-! #### non-vacuity: the classic check value of CRC-32/MPEG-2 ("123456789" ↦ 0x0376E6E7) -/
example : computeCRC32 [0x31,0x32,0x33,0x34,0x35,0x36,0x37,0x38,0x39] = 0x0376E6E7#32 := by decide +kernel
example : Spec.crc [0x31,0x32,0x33,0x34,0x35,0x36,0x37,0x38,0x39] = 0x0376E6E7#32 := by decide +kernel
example : ∀ b ∈ [0x31,0x32,0x33], b < 256 := by decide

end Astits.C10
