/-
Helpers for the TIE theorems (`generated_*`): the statements that a definition regenerated from /repo's
source (Astits/Generated/*) equals the hand-written model.  A behaviour-preserving refactoring of the Go
source changes the SHAPE of a regenerated definition, not the function; the proofs of the tie theorems
therefore avoid following the shape:

* finite domains are enumerated (`decide +kernel`, or `allBelow` below where the plain `Decidable`
  instances are too slow or too deep for the kernel),
* Bool-valued functions of a few flags and numbers are split on the flags and finished by `bool_arith`,
* `enum_lt n x hx` (x < n) replaces the goal by the n goals for the n values of `x`.

The translator does its part: locals are substituted, helper functions inlined, lookups in read-only package-level
tables (arrays, slices, maps of constants) expanded into conditional chains, comparisons of string constants
evaluated, `bytes.HasPrefix` / `bytes.Equal` against a literal expanded into comparisons of the bytes — the generated
definitions contain none of these constructs (extract/pure.go, tables.go, lengths.go).
-/
namespace Astits.Tie

/-- `p k` for every `k < n`, as a Bool the kernel can evaluate (`Nat.rec` directly: the compiled
structural recursion is much slower in the kernel) -/
@[reducible] def allBelow (n : Nat) (p : Nat → Bool) : Bool :=
  Nat.rec (motive := fun _ => Bool) true (fun k ih => p k && ih) n

theorem allBelow_spec {n : Nat} {p : Nat → Bool} (h : allBelow n p = true) : ∀ k, k < n → p k = true := by
  induction n with
  | zero => intro k hk; omega
  | succ n ih =>
    have h' : (p n && allBelow n p) = true := h
    simp only [Bool.and_eq_true] at h'
    intro k hk
    by_cases hkn : k = n
    · subst hkn; exact h'.1
    · exact ih h'.2 k (by omega)

theorem forall_lt_pairs {n m : Nat} {P : Nat → Nat → Bool}
    (hall : allBelow n (fun h => allBelow m (fun b => P h b)) = true) :
    ∀ h, h < n → ∀ b, b < m → P h b = true :=
  fun h hh b hb => allBelow_spec (allBelow_spec hall h hh) b hb

/-- a Bool condition as an arithmetic one.  `omega` case-splits on `if c then … else …` but does not relate two
`if`s on the same opaque condition `b = true` unless they are syntactically the same term; after rewriting with
this equation the conditions are equations on the atom `b.toNat`, which it does relate -/
theorem bool_cond (b : Bool) : (b = true) = (b.toNat = 1) := by cases b <;> simp

/-- `x & 0xf` is `x % 16` -/
theorem and_15 (x : Nat) : x &&& 15 = x % 16 := Nat.and_two_pow_sub_one_eq_mod x 4

/-- `lhs = rhs` between Bool terms built from comparisons of linear integer terms, Bool connectives and `if`,
whatever their shape -/
macro "bool_arith" : tactic =>
  `(tactic| first
    | rfl
    | (simp [and_15] <;> omega)
    | (rw [Bool.eq_iff_iff] <;> simp [and_15] <;> omega))

/-- one step of the enumeration of `∀ t, t < n + 1 → P t` -/
theorem forall_lt_succ {P : Nat → Prop} {n : Nat} (h1 : ∀ t, t < n → P t) (h2 : P n) : ∀ t, t < n + 1 → P t := by
  intro t ht
  by_cases h : t = n
  · subst h; exact h2
  · exact h1 t (by omega)

theorem forall_lt_zero {P : Nat → Prop} : ∀ t, t < 0 → P t := fun _ h => absurd h (Nat.not_lt_zero _)

end Astits.Tie
