/-
C14 — descriptors decode/encode per spec; declared lengths always match emitted bytes.
-/
import Astits.Model.Desc
import Astits.Proofs.DescLengths
import Astits.Proofs.DescRT
import Astits.Proofs.DescRT.Norm
import Astits.Proofs.DescFraming
import Astits.Proofs.DescFraming.Local
namespace Astits.C14

/-- a descriptor's body as the writers emit it has the computed length (the condition is decidable and is checked
for every generated value by the correspondence run; it holds whenever the body fits 255 bytes — see `body_fits_*`) -/
def BodyFits (d : Descriptor) : Prop := (descriptorBody d).length = calcDescriptorLength d

/-- **descriptor_length = bytes written**, whatever the redundant `Length` field of the struct holds: the header
announces `calcDescriptorLength d` and exactly that many bytes follow -/
theorem length_matches (d : Descriptor) (h : BodyFits d) :
    (writeDescriptor d).length = 2 + calcDescriptorLength d ∧
    (writeDescriptor d).getD 1 0 = calcDescriptorLength d % 256 ∧
    writeDescriptor { d with length := 0 } = writeDescriptor d ∧ writeDescriptor { d with length := 255 } = writeDescriptor d := by
  unfold BodyFits at h
  refine ⟨?_, ?_, rfl, rfl⟩
  · unfold writeDescriptor
    by_cases hz : calcDescriptorLength d = 0
    · simp [hz, wU8]
    · simp [hz, wU8, h]; omega
  · simp [writeDescriptor, wU8]

/-- the loop: the bytes of a descriptor loop are the sum of the descriptors' bytes -/
theorem loop_bytes (ds : List Descriptor) (h : ∀ d ∈ ds, BodyFits d) :
    (writeDescriptors ds).length = descriptorsSize ds := by
  induction ds with
  | nil => rfl
  | cons d r ih =>
    have hd := (length_matches d (h d (by simp))).1
    have hr := ih (fun x hx => h x (by simp [hx]))
    simp only [writeDescriptors, List.length_append, descriptorsSize, hd, hr]

/-- **loop length = bytes written**: the 12-bit length in front of a loop that fits 4095 bytes is exactly the
number of bytes that follow -/
theorem loop_length_matches (ds : List Descriptor) (h : ∀ d ∈ ds, BodyFits d) (hfit : descriptorsSize ds < 4096) :
    (writeDescriptorsWithLength ds).length = 2 + descriptorsSize ds ∧
    ((writeDescriptorsWithLength ds).getD 0 0 % 16) * 256 + (writeDescriptorsWithLength ds).getD 1 0 = descriptorsSize ds := by
  have hb := loop_bytes ds h
  unfold writeDescriptorsWithLength calcDescriptorsLength
  simp only [packFields, fieldsWidth, fieldsValue, beBytes, List.length_append, List.length_cons, List.length_nil, hb,
    List.cons_append, List.nil_append, List.getD_cons_zero, List.getD_cons_succ]
  simp only [Nat.reducePow, Nat.reduceAdd, Nat.reduceDiv, Nat.pow_zero, Nat.div_one, Nat.pow_one]
  constructor <;> omega

/-- bodies that fit: user-defined and unknown descriptors of up to 255 bytes -/
theorem body_fits_user_defined (d : Descriptor) (ht : isUserDefinedTag d.tag = true) (hl : d.userDefined.length < 256) :
    BodyFits d := by
  unfold BodyFits descriptorBody calcDescriptorLength
  simp [ht, writeDescriptorUserDefined, calcDescriptorUserDefinedLength, Nat.mod_eq_of_lt hl]

/-- on input a descriptor accounts for exactly its declared length: after the body parser — whatever it consumed,
and whatever the body holds — the iterator is moved to the declared end -/
theorem framing_seek (i : It) (endOff : Int) : (It.seek endOff i) = .ok ((), { i with off := endOff }) := rfl

example : BodyFits { tag := 0x90, userDefined := [1, 2, 3] } := by unfold BodyFits; decide
example : writeDescriptor { tag := 0x90, userDefined := [1, 2, 3], length := 0 } = [0x90, 3, 1, 2, 3] := by decide


/-! ## Typed descriptor kinds: `BodyFits` proved per kind (helper lemmas in `Astits/Proofs/DescLengths.lean`)

`bodySize d` is the un-truncated number of bytes of the body (`int ret` of the Go calculators before `uint8(ret)`).
For EVERY descriptor value the writer selected by the tag emits exactly `bodySize d` bytes (`body_length`) and the
calculator returns `bodySize d % 256` (`calc_length`); hence `BodyFits d ↔ bodySize d < 256` (`body_fits_iff`): the
ONLY way the declared length can differ from the emitted bytes is the `uint8` truncation of a body of 256 bytes or
more. No calculator/writer pair of the model disagrees on an in-range value. The per-kind theorems
`body_fits_<kind>` spell the guard out in terms of the fields; `body_fits_<kind>_iff` shows the guard is exact.
Fixed-size language / country codes need NO hypothesis: `WriteBytesN(bs, 3, 0)` emits exactly 3 bytes whatever
`len(bs)` is (`DescLen.wBytesN_length`). -/

section Typed
open Astits.DescLen
set_option linter.unusedSimpArgs false

/-- un-truncated size of the body selected by the tag: the same `switch` as `calcDescriptorLength` / `descriptorBody`
with the per-kind `int` sums of `Astits.DescLen` (no `uint8` conversion); a nil sub-struct counts 0 -/
def bodySize (d : Descriptor) : Nat :=
  if isUserDefinedTag d.tag then d.userDefined.length
  else if d.tag = descriptorTagAC3 then nilOr ac3Size d.ac3
  else if d.tag = descriptorTagAVCVideo then nilOr (fun _ => 4) d.avcVideo
  else if d.tag = descriptorTagComponent then nilOr componentSize d.component
  else if d.tag = descriptorTagContent then nilOr contentSize d.content
  else if d.tag = descriptorTagDataStreamAlignment then nilOr (fun _ => 1) d.dataStreamAlignment
  else if d.tag = descriptorTagEnhancedAC3 then nilOr enhancedAC3Size d.enhancedAC3
  else if d.tag = descriptorTagExtendedEvent then nilOr extendedEventSize d.extendedEvent
  else if d.tag = descriptorTagExtension then nilOr extensionSize d.extension
  else if d.tag = descriptorTagISO639LanguageAndAudioType then nilOr (fun _ => 4) d.iso639LanguageAndAudioType
  else if d.tag = descriptorTagLocalTimeOffset then nilOr localTimeOffsetSize d.localTimeOffset
  else if d.tag = descriptorTagMaximumBitrate then nilOr (fun _ => 3) d.maximumBitrate
  else if d.tag = descriptorTagNetworkName then nilOr networkNameSize d.networkName
  else if d.tag = descriptorTagParentalRating then nilOr parentalRatingSize d.parentalRating
  else if d.tag = descriptorTagPrivateDataIndicator then nilOr (fun _ => 4) d.privateDataIndicator
  else if d.tag = descriptorTagPrivateDataSpecifier then nilOr (fun _ => 4) d.privateDataSpecifier
  else if d.tag = descriptorTagRegistration then nilOr registrationSize d.registration
  else if d.tag = descriptorTagService then nilOr serviceSize d.service
  else if d.tag = descriptorTagShortEvent then nilOr shortEventSize d.shortEvent
  else if d.tag = descriptorTagStreamIdentifier then nilOr (fun _ => 1) d.streamIdentifier
  else if d.tag = descriptorTagSubtitling then nilOr subtitlingSize d.subtitling
  else if d.tag = descriptorTagTeletext then nilOr teletextSize d.teletext
  else if d.tag = descriptorTagVBIData then nilOr vbiDataSize d.vbiData
  else if d.tag = descriptorTagVBITeletext then nilOr teletextSize d.vbiTeletext
  else nilOr unknownSize d.unknown

theorem nil_length {α} (f : α → Bytes) (g : α → Nat) (h : ∀ x, (f x).length = g x) (o : Option α) :
    (nilBody f o).length = nilOr g o := by
  cases o with
  | none => rfl
  | some x => exact h x

theorem nil_calc {α} (c : α → Nat) (g : α → Nat) (h : ∀ x, c x = g x % 256) (o : Option α) :
    nilOr c o = nilOr g o % 256 := by
  cases o with
  | none => rfl
  | some x => exact h x

theorem ite_len (c : Prop) [Decidable c] {a b : Bytes} {a' b' : Nat} (h1 : a.length = a') (h2 : b.length = b') :
    (if c then a else b).length = if c then a' else b' := by
  split <;> assumption

theorem ite_mod (c : Prop) [Decidable c] {a b a' b' : Nat} (h1 : a = a' % 256) (h2 : b = b' % 256) :
    (if c then a else b) = (if c then a' else b') % 256 := by
  split <;> assumption

theorem body_length (d : Descriptor) : (descriptorBody d).length = bodySize d := by
  unfold descriptorBody bodySize
  repeat' apply ite_len
  all_goals first
    | rfl
    | exact nil_length _ _ ac3_length _
    | exact nil_length _ _ avcVideo_length _
    | exact nil_length _ _ component_length _
    | exact nil_length _ _ content_length _
    | exact nil_length _ _ dataStreamAlignment_length _
    | exact nil_length _ _ enhancedAC3_length _
    | exact nil_length _ _ extendedEvent_length _
    | exact nil_length _ _ extension_length _
    | exact nil_length _ _ iso639_length _
    | exact nil_length _ _ localTimeOffset_length _
    | exact nil_length _ _ maximumBitrate_length _
    | exact nil_length _ _ networkName_length _
    | exact nil_length _ _ parentalRating_length _
    | exact nil_length _ _ privateDataIndicator_length _
    | exact nil_length _ _ privateDataSpecifier_length _
    | exact nil_length _ _ registration_length _
    | exact nil_length _ _ service_length _
    | exact nil_length _ _ shortEvent_length _
    | exact nil_length _ _ streamIdentifier_length _
    | exact nil_length _ _ subtitling_length _
    | exact nil_length _ _ teletext_length _
    | exact nil_length _ _ vbiData_length _
    | exact nil_length _ _ unknown_length _

/-- the calculator returns the un-truncated size modulo 256 (the final `uint8(ret)`), for every descriptor -/
theorem calc_length (d : Descriptor) : calcDescriptorLength d = bodySize d % 256 := by
  unfold calcDescriptorLength bodySize
  repeat' apply ite_mod
  all_goals first
    | rfl
    | exact nil_calc _ _ ac3_calc _
    | (apply nil_calc; intro _; rfl)
    | exact nil_calc _ _ extendedEvent_calc _

/-- **total characterisation**: for every descriptor value (typed, user-defined, unknown, nil sub-struct) the
declared length equals the number of body bytes exactly when the un-truncated body size fits 8 bits -/
theorem body_fits_iff (d : Descriptor) : BodyFits d ↔ bodySize d < 256 := by
  unfold BodyFits
  rw [body_length, calc_length]
  omega

/-- the other direction as a finding-style statement: a body of 256 bytes or more is announced short -/
theorem not_body_fits_of_overflow (d : Descriptor) (h : 256 ≤ bodySize d) :
    calcDescriptorLength d < (descriptorBody d).length := by
  rw [body_length, calc_length]; omega

/-! ### one theorem per kind -/

/-- evaluates the `switch d.Tag` of `bodySize` given the tag and the sub-struct: unfolds the 23 tag constants -/
local macro "sel_kind" ht:ident hx:ident : tactic =>
  `(tactic| simp [bodySize, $ht:ident, $hx:ident, nilOr, isUserDefinedTag, descriptorTagAC3, descriptorTagAVCVideo, descriptorTagComponent, descriptorTagContent,
    descriptorTagDataStreamAlignment, descriptorTagEnhancedAC3, descriptorTagExtendedEvent, descriptorTagExtension,
    descriptorTagISO639LanguageAndAudioType, descriptorTagLocalTimeOffset, descriptorTagMaximumBitrate,
    descriptorTagNetworkName, descriptorTagParentalRating, descriptorTagPrivateDataIndicator,
    descriptorTagPrivateDataSpecifier, descriptorTagRegistration, descriptorTagService, descriptorTagShortEvent,
    descriptorTagStreamIdentifier, descriptorTagSubtitling, descriptorTagTeletext, descriptorTagVBIData,
    descriptorTagVBITeletext])

theorem bodySize_ac3 (d : Descriptor) (x : DescriptorAC3) (ht : d.tag = descriptorTagAC3) (hx : d.ac3 = some x) :
    bodySize d = ac3Size x := by
  sel_kind ht hx

/-- exactness: for a `AC3` descriptor the guard is necessary and sufficient -/
theorem body_fits_ac3_iff (d : Descriptor) (x : DescriptorAC3) (ht : d.tag = descriptorTagAC3) (hx : d.ac3 = some x) :
    BodyFits d ↔ 1 + b2n x.hasComponentType + b2n x.hasBSID + b2n x.hasMainID + b2n x.hasASVC + x.additionalInfo.length < 256 := by
  rw [body_fits_iff, bodySize_ac3 d x ht hx]; unfold ac3Size; omega

theorem body_fits_ac3 (d : Descriptor) (x : DescriptorAC3) (ht : d.tag = descriptorTagAC3) (hx : d.ac3 = some x)
    (hfit : 1 + b2n x.hasComponentType + b2n x.hasBSID + b2n x.hasMainID + b2n x.hasASVC + x.additionalInfo.length < 256) : BodyFits d :=
  (body_fits_ac3_iff d x ht hx).2 hfit

theorem bodySize_avc_video (d : Descriptor) (x : DescriptorAVCVideo) (ht : d.tag = descriptorTagAVCVideo) (hx : d.avcVideo = some x) :
    bodySize d = 4 := by
  sel_kind ht hx

/-- `AVCVideo`: fixed size 4, no condition at all -/
theorem body_fits_avc_video (d : Descriptor) (x : DescriptorAVCVideo) (ht : d.tag = descriptorTagAVCVideo) (hx : d.avcVideo = some x) :
    BodyFits d := by
  rw [body_fits_iff, bodySize_avc_video d x ht hx]; decide

theorem bodySize_component (d : Descriptor) (x : DescriptorComponent) (ht : d.tag = descriptorTagComponent) (hx : d.component = some x) :
    bodySize d = componentSize x := by
  sel_kind ht hx

/-- exactness: for a `Component` descriptor the guard is necessary and sufficient -/
theorem body_fits_component_iff (d : Descriptor) (x : DescriptorComponent) (ht : d.tag = descriptorTagComponent) (hx : d.component = some x) :
    BodyFits d ↔ 6 + x.text.length < 256 := by
  rw [body_fits_iff, bodySize_component d x ht hx]; unfold componentSize; omega

theorem body_fits_component (d : Descriptor) (x : DescriptorComponent) (ht : d.tag = descriptorTagComponent) (hx : d.component = some x)
    (hfit : 6 + x.text.length < 256) : BodyFits d :=
  (body_fits_component_iff d x ht hx).2 hfit

theorem bodySize_content (d : Descriptor) (x : DescriptorContent) (ht : d.tag = descriptorTagContent) (hx : d.content = some x) :
    bodySize d = contentSize x := by
  sel_kind ht hx

/-- exactness: for a `Content` descriptor the guard is necessary and sufficient -/
theorem body_fits_content_iff (d : Descriptor) (x : DescriptorContent) (ht : d.tag = descriptorTagContent) (hx : d.content = some x) :
    BodyFits d ↔ 2 * x.items.length < 256 := by
  rw [body_fits_iff, bodySize_content d x ht hx]; unfold contentSize; omega

theorem body_fits_content (d : Descriptor) (x : DescriptorContent) (ht : d.tag = descriptorTagContent) (hx : d.content = some x)
    (hfit : 2 * x.items.length < 256) : BodyFits d :=
  (body_fits_content_iff d x ht hx).2 hfit

theorem bodySize_data_stream_alignment (d : Descriptor) (x : DescriptorDataStreamAlignment) (ht : d.tag = descriptorTagDataStreamAlignment) (hx : d.dataStreamAlignment = some x) :
    bodySize d = 1 := by
  sel_kind ht hx

/-- `DataStreamAlignment`: fixed size 1, no condition at all -/
theorem body_fits_data_stream_alignment (d : Descriptor) (x : DescriptorDataStreamAlignment) (ht : d.tag = descriptorTagDataStreamAlignment) (hx : d.dataStreamAlignment = some x) :
    BodyFits d := by
  rw [body_fits_iff, bodySize_data_stream_alignment d x ht hx]; decide

theorem bodySize_enhanced_ac3 (d : Descriptor) (x : DescriptorEnhancedAC3) (ht : d.tag = descriptorTagEnhancedAC3) (hx : d.enhancedAC3 = some x) :
    bodySize d = enhancedAC3Size x := by
  sel_kind ht hx

/-- exactness: for a `EnhancedAC3` descriptor the guard is necessary and sufficient -/
theorem body_fits_enhanced_ac3_iff (d : Descriptor) (x : DescriptorEnhancedAC3) (ht : d.tag = descriptorTagEnhancedAC3) (hx : d.enhancedAC3 = some x) :
    BodyFits d ↔ 1 + b2n x.hasComponentType + b2n x.hasBSID + b2n x.hasMainID + b2n x.hasASVC + b2n x.hasSubStream1 + b2n x.hasSubStream2 + b2n x.hasSubStream3 + x.additionalInfo.length < 256 := by
  rw [body_fits_iff, bodySize_enhanced_ac3 d x ht hx]; unfold enhancedAC3Size; omega

theorem body_fits_enhanced_ac3 (d : Descriptor) (x : DescriptorEnhancedAC3) (ht : d.tag = descriptorTagEnhancedAC3) (hx : d.enhancedAC3 = some x)
    (hfit : 1 + b2n x.hasComponentType + b2n x.hasBSID + b2n x.hasMainID + b2n x.hasASVC + b2n x.hasSubStream1 + b2n x.hasSubStream2 + b2n x.hasSubStream3 + x.additionalInfo.length < 256) : BodyFits d :=
  (body_fits_enhanced_ac3_iff d x ht hx).2 hfit

theorem bodySize_extended_event (d : Descriptor) (x : DescriptorExtendedEvent) (ht : d.tag = descriptorTagExtendedEvent) (hx : d.extendedEvent = some x) :
    bodySize d = extendedEventSize x := by
  sel_kind ht hx

/-- exactness: for a `ExtendedEvent` descriptor the guard is necessary and sufficient -/
theorem body_fits_extended_event_iff (d : Descriptor) (x : DescriptorExtendedEvent) (ht : d.tag = descriptorTagExtendedEvent) (hx : d.extendedEvent = some x) :
    BodyFits d ↔ 6 + extendedEventItemsSize x.items + x.text.length < 256 := by
  rw [body_fits_iff, bodySize_extended_event d x ht hx]; unfold extendedEventSize; omega

theorem body_fits_extended_event (d : Descriptor) (x : DescriptorExtendedEvent) (ht : d.tag = descriptorTagExtendedEvent) (hx : d.extendedEvent = some x)
    (hfit : 6 + extendedEventItemsSize x.items + x.text.length < 256) : BodyFits d :=
  (body_fits_extended_event_iff d x ht hx).2 hfit

theorem bodySize_extension (d : Descriptor) (x : DescriptorExtension) (ht : d.tag = descriptorTagExtension) (hx : d.extension = some x) :
    bodySize d = extensionSize x := by
  sel_kind ht hx

/-- exactness: for a `Extension` descriptor the guard is necessary and sufficient -/
theorem body_fits_extension_iff (d : Descriptor) (x : DescriptorExtension) (ht : d.tag = descriptorTagExtension) (hx : d.extension = some x) :
    BodyFits d ↔ extensionSize x < 256 := by
  rw [body_fits_iff, bodySize_extension d x ht hx]

/-- NOTE: this is a statement about the model's bytes. With extension tag 6 and a nil `SupplementaryAudio` the model
emits the single extension-tag byte (size 1, so the lengths agree) where Go panics after writing that byte
(`writeDescriptorPanics`); `TypedFits.extension` excludes that value, and
`body_fits_extension_supplementary_audio` / `body_fits_extension_unknown` give the guards on the fields. -/
theorem body_fits_extension (d : Descriptor) (x : DescriptorExtension) (ht : d.tag = descriptorTagExtension) (hx : d.extension = some x)
    (hfit : extensionSize x < 256) : BodyFits d :=
  (body_fits_extension_iff d x ht hx).2 hfit

theorem bodySize_iso639_language_and_audio_type (d : Descriptor) (x : DescriptorISO639LanguageAndAudioType) (ht : d.tag = descriptorTagISO639LanguageAndAudioType) (hx : d.iso639LanguageAndAudioType = some x) :
    bodySize d = 4 := by
  sel_kind ht hx

/-- `ISO639LanguageAndAudioType`: fixed size 4, no condition at all -/
theorem body_fits_iso639_language_and_audio_type (d : Descriptor) (x : DescriptorISO639LanguageAndAudioType) (ht : d.tag = descriptorTagISO639LanguageAndAudioType) (hx : d.iso639LanguageAndAudioType = some x) :
    BodyFits d := by
  rw [body_fits_iff, bodySize_iso639_language_and_audio_type d x ht hx]; decide

theorem bodySize_local_time_offset (d : Descriptor) (x : DescriptorLocalTimeOffset) (ht : d.tag = descriptorTagLocalTimeOffset) (hx : d.localTimeOffset = some x) :
    bodySize d = localTimeOffsetSize x := by
  sel_kind ht hx

/-- exactness: for a `LocalTimeOffset` descriptor the guard is necessary and sufficient -/
theorem body_fits_local_time_offset_iff (d : Descriptor) (x : DescriptorLocalTimeOffset) (ht : d.tag = descriptorTagLocalTimeOffset) (hx : d.localTimeOffset = some x) :
    BodyFits d ↔ 13 * x.items.length < 256 := by
  rw [body_fits_iff, bodySize_local_time_offset d x ht hx]; unfold localTimeOffsetSize; omega

theorem body_fits_local_time_offset (d : Descriptor) (x : DescriptorLocalTimeOffset) (ht : d.tag = descriptorTagLocalTimeOffset) (hx : d.localTimeOffset = some x)
    (hfit : 13 * x.items.length < 256) : BodyFits d :=
  (body_fits_local_time_offset_iff d x ht hx).2 hfit

theorem bodySize_maximum_bitrate (d : Descriptor) (x : DescriptorMaximumBitrate) (ht : d.tag = descriptorTagMaximumBitrate) (hx : d.maximumBitrate = some x) :
    bodySize d = 3 := by
  sel_kind ht hx

/-- `MaximumBitrate`: fixed size 3, no condition at all -/
theorem body_fits_maximum_bitrate (d : Descriptor) (x : DescriptorMaximumBitrate) (ht : d.tag = descriptorTagMaximumBitrate) (hx : d.maximumBitrate = some x) :
    BodyFits d := by
  rw [body_fits_iff, bodySize_maximum_bitrate d x ht hx]; decide

theorem bodySize_network_name (d : Descriptor) (x : DescriptorNetworkName) (ht : d.tag = descriptorTagNetworkName) (hx : d.networkName = some x) :
    bodySize d = networkNameSize x := by
  sel_kind ht hx

/-- exactness: for a `NetworkName` descriptor the guard is necessary and sufficient -/
theorem body_fits_network_name_iff (d : Descriptor) (x : DescriptorNetworkName) (ht : d.tag = descriptorTagNetworkName) (hx : d.networkName = some x) :
    BodyFits d ↔ x.name.length < 256 := by
  rw [body_fits_iff, bodySize_network_name d x ht hx]; unfold networkNameSize; omega

theorem body_fits_network_name (d : Descriptor) (x : DescriptorNetworkName) (ht : d.tag = descriptorTagNetworkName) (hx : d.networkName = some x)
    (hfit : x.name.length < 256) : BodyFits d :=
  (body_fits_network_name_iff d x ht hx).2 hfit

theorem bodySize_parental_rating (d : Descriptor) (x : DescriptorParentalRating) (ht : d.tag = descriptorTagParentalRating) (hx : d.parentalRating = some x) :
    bodySize d = parentalRatingSize x := by
  sel_kind ht hx

/-- exactness: for a `ParentalRating` descriptor the guard is necessary and sufficient -/
theorem body_fits_parental_rating_iff (d : Descriptor) (x : DescriptorParentalRating) (ht : d.tag = descriptorTagParentalRating) (hx : d.parentalRating = some x) :
    BodyFits d ↔ 4 * x.items.length < 256 := by
  rw [body_fits_iff, bodySize_parental_rating d x ht hx]; unfold parentalRatingSize; omega

theorem body_fits_parental_rating (d : Descriptor) (x : DescriptorParentalRating) (ht : d.tag = descriptorTagParentalRating) (hx : d.parentalRating = some x)
    (hfit : 4 * x.items.length < 256) : BodyFits d :=
  (body_fits_parental_rating_iff d x ht hx).2 hfit

theorem bodySize_private_data_indicator (d : Descriptor) (x : DescriptorPrivateDataIndicator) (ht : d.tag = descriptorTagPrivateDataIndicator) (hx : d.privateDataIndicator = some x) :
    bodySize d = 4 := by
  sel_kind ht hx

/-- `PrivateDataIndicator`: fixed size 4, no condition at all -/
theorem body_fits_private_data_indicator (d : Descriptor) (x : DescriptorPrivateDataIndicator) (ht : d.tag = descriptorTagPrivateDataIndicator) (hx : d.privateDataIndicator = some x) :
    BodyFits d := by
  rw [body_fits_iff, bodySize_private_data_indicator d x ht hx]; decide

theorem bodySize_private_data_specifier (d : Descriptor) (x : DescriptorPrivateDataSpecifier) (ht : d.tag = descriptorTagPrivateDataSpecifier) (hx : d.privateDataSpecifier = some x) :
    bodySize d = 4 := by
  sel_kind ht hx

/-- `PrivateDataSpecifier`: fixed size 4, no condition at all -/
theorem body_fits_private_data_specifier (d : Descriptor) (x : DescriptorPrivateDataSpecifier) (ht : d.tag = descriptorTagPrivateDataSpecifier) (hx : d.privateDataSpecifier = some x) :
    BodyFits d := by
  rw [body_fits_iff, bodySize_private_data_specifier d x ht hx]; decide

theorem bodySize_registration (d : Descriptor) (x : DescriptorRegistration) (ht : d.tag = descriptorTagRegistration) (hx : d.registration = some x) :
    bodySize d = registrationSize x := by
  sel_kind ht hx

/-- exactness: for a `Registration` descriptor the guard is necessary and sufficient -/
theorem body_fits_registration_iff (d : Descriptor) (x : DescriptorRegistration) (ht : d.tag = descriptorTagRegistration) (hx : d.registration = some x) :
    BodyFits d ↔ 4 + x.additionalIdentificationInfo.length < 256 := by
  rw [body_fits_iff, bodySize_registration d x ht hx]; unfold registrationSize; omega

theorem body_fits_registration (d : Descriptor) (x : DescriptorRegistration) (ht : d.tag = descriptorTagRegistration) (hx : d.registration = some x)
    (hfit : 4 + x.additionalIdentificationInfo.length < 256) : BodyFits d :=
  (body_fits_registration_iff d x ht hx).2 hfit

theorem bodySize_service (d : Descriptor) (x : DescriptorService) (ht : d.tag = descriptorTagService) (hx : d.service = some x) :
    bodySize d = serviceSize x := by
  sel_kind ht hx

/-- exactness: for a `Service` descriptor the guard is necessary and sufficient -/
theorem body_fits_service_iff (d : Descriptor) (x : DescriptorService) (ht : d.tag = descriptorTagService) (hx : d.service = some x) :
    BodyFits d ↔ 3 + x.name.length + x.provider.length < 256 := by
  rw [body_fits_iff, bodySize_service d x ht hx]; unfold serviceSize; omega

theorem body_fits_service (d : Descriptor) (x : DescriptorService) (ht : d.tag = descriptorTagService) (hx : d.service = some x)
    (hfit : 3 + x.name.length + x.provider.length < 256) : BodyFits d :=
  (body_fits_service_iff d x ht hx).2 hfit

theorem bodySize_short_event (d : Descriptor) (x : DescriptorShortEvent) (ht : d.tag = descriptorTagShortEvent) (hx : d.shortEvent = some x) :
    bodySize d = shortEventSize x := by
  sel_kind ht hx

/-- exactness: for a `ShortEvent` descriptor the guard is necessary and sufficient -/
theorem body_fits_short_event_iff (d : Descriptor) (x : DescriptorShortEvent) (ht : d.tag = descriptorTagShortEvent) (hx : d.shortEvent = some x) :
    BodyFits d ↔ 5 + x.eventName.length + x.text.length < 256 := by
  rw [body_fits_iff, bodySize_short_event d x ht hx]; unfold shortEventSize; omega

theorem body_fits_short_event (d : Descriptor) (x : DescriptorShortEvent) (ht : d.tag = descriptorTagShortEvent) (hx : d.shortEvent = some x)
    (hfit : 5 + x.eventName.length + x.text.length < 256) : BodyFits d :=
  (body_fits_short_event_iff d x ht hx).2 hfit

theorem bodySize_stream_identifier (d : Descriptor) (x : DescriptorStreamIdentifier) (ht : d.tag = descriptorTagStreamIdentifier) (hx : d.streamIdentifier = some x) :
    bodySize d = 1 := by
  sel_kind ht hx

/-- `StreamIdentifier`: fixed size 1, no condition at all -/
theorem body_fits_stream_identifier (d : Descriptor) (x : DescriptorStreamIdentifier) (ht : d.tag = descriptorTagStreamIdentifier) (hx : d.streamIdentifier = some x) :
    BodyFits d := by
  rw [body_fits_iff, bodySize_stream_identifier d x ht hx]; decide

theorem bodySize_subtitling (d : Descriptor) (x : DescriptorSubtitling) (ht : d.tag = descriptorTagSubtitling) (hx : d.subtitling = some x) :
    bodySize d = subtitlingSize x := by
  sel_kind ht hx

/-- exactness: for a `Subtitling` descriptor the guard is necessary and sufficient -/
theorem body_fits_subtitling_iff (d : Descriptor) (x : DescriptorSubtitling) (ht : d.tag = descriptorTagSubtitling) (hx : d.subtitling = some x) :
    BodyFits d ↔ 8 * x.items.length < 256 := by
  rw [body_fits_iff, bodySize_subtitling d x ht hx]; unfold subtitlingSize; omega

theorem body_fits_subtitling (d : Descriptor) (x : DescriptorSubtitling) (ht : d.tag = descriptorTagSubtitling) (hx : d.subtitling = some x)
    (hfit : 8 * x.items.length < 256) : BodyFits d :=
  (body_fits_subtitling_iff d x ht hx).2 hfit

theorem bodySize_teletext (d : Descriptor) (x : DescriptorTeletext) (ht : d.tag = descriptorTagTeletext) (hx : d.teletext = some x) :
    bodySize d = teletextSize x := by
  sel_kind ht hx

/-- exactness: for a `Teletext` descriptor the guard is necessary and sufficient -/
theorem body_fits_teletext_iff (d : Descriptor) (x : DescriptorTeletext) (ht : d.tag = descriptorTagTeletext) (hx : d.teletext = some x) :
    BodyFits d ↔ 5 * x.items.length < 256 := by
  rw [body_fits_iff, bodySize_teletext d x ht hx]; unfold teletextSize; omega

theorem body_fits_teletext (d : Descriptor) (x : DescriptorTeletext) (ht : d.tag = descriptorTagTeletext) (hx : d.teletext = some x)
    (hfit : 5 * x.items.length < 256) : BodyFits d :=
  (body_fits_teletext_iff d x ht hx).2 hfit

theorem bodySize_vbi_data (d : Descriptor) (x : DescriptorVBIData) (ht : d.tag = descriptorTagVBIData) (hx : d.vbiData = some x) :
    bodySize d = vbiDataSize x := by
  sel_kind ht hx

/-- exactness: for a `VBIData` descriptor the guard is necessary and sufficient -/
theorem body_fits_vbi_data_iff (d : Descriptor) (x : DescriptorVBIData) (ht : d.tag = descriptorTagVBIData) (hx : d.vbiData = some x) :
    BodyFits d ↔ vbiDataServicesSize x.services < 256 := by
  rw [body_fits_iff, bodySize_vbi_data d x ht hx]; unfold vbiDataSize; omega

theorem body_fits_vbi_data (d : Descriptor) (x : DescriptorVBIData) (ht : d.tag = descriptorTagVBIData) (hx : d.vbiData = some x)
    (hfit : vbiDataServicesSize x.services < 256) : BodyFits d :=
  (body_fits_vbi_data_iff d x ht hx).2 hfit

theorem bodySize_vbi_teletext (d : Descriptor) (x : DescriptorTeletext) (ht : d.tag = descriptorTagVBITeletext) (hx : d.vbiTeletext = some x) :
    bodySize d = teletextSize x := by
  sel_kind ht hx

/-- exactness: for a `VBITeletext` descriptor the guard is necessary and sufficient -/
theorem body_fits_vbi_teletext_iff (d : Descriptor) (x : DescriptorTeletext) (ht : d.tag = descriptorTagVBITeletext) (hx : d.vbiTeletext = some x) :
    BodyFits d ↔ 5 * x.items.length < 256 := by
  rw [body_fits_iff, bodySize_vbi_teletext d x ht hx]; unfold teletextSize; omega

theorem body_fits_vbi_teletext (d : Descriptor) (x : DescriptorTeletext) (ht : d.tag = descriptorTagVBITeletext) (hx : d.vbiTeletext = some x)
    (hfit : 5 * x.items.length < 256) : BodyFits d :=
  (body_fits_vbi_teletext_iff d x ht hx).2 hfit

/-- extension descriptor carrying supplementary audio (extension tag 6), guard in terms of the fields -/
theorem body_fits_extension_supplementary_audio (d : Descriptor) (e : DescriptorExtension)
    (s : DescriptorExtensionSupplementaryAudio) (ht : d.tag = descriptorTagExtension) (hx : d.extension = some e)
    (he : e.tag = descriptorTagExtensionSupplementaryAudio) (hs : e.supplementaryAudio = some s)
    (hfit : 2 + (if s.hasLanguageCode then 3 else 0) + s.privateData.length < 256) : BodyFits d := by
  apply body_fits_extension d e ht hx
  simp only [extensionSize, he, hs, nilOr, calcDescriptorExtensionSupplementaryAudioLength, if_true]
  omega

/-- extension descriptor with any other extension tag: the raw bytes -/
theorem body_fits_extension_unknown (d : Descriptor) (e : DescriptorExtension) (b : Bytes)
    (ht : d.tag = descriptorTagExtension) (hx : d.extension = some e)
    (he : e.tag ≠ descriptorTagExtensionSupplementaryAudio) (hu : e.unknown = some b)
    (hfit : 1 + b.length < 256) : BodyFits d := by
  apply body_fits_extension d e ht hx
  simp only [extensionSize, he, hu, nilOr, if_false]
  exact hfit

/-- the default branch of the `switch`: a tag that is neither user-defined nor one of the 23 typed tags -/
theorem bodySize_unknown (d : Descriptor) (x : DescriptorUnknown) (hu : isUserDefinedTag d.tag = false)
    (hk : d.tag ∉ knownDescriptorTags) (hx : d.unknown = some x) : bodySize d = x.content.length := by
  simp only [knownDescriptorTags, List.mem_cons, List.not_mem_nil, or_false, not_or] at hk
  obtain ⟨h1, h2, h3, h4, h5, h6, h7, h8, h9, h10, h11, h12, h13, h14, h15, h16, h17, h18, h19, h20, h21, h22, h23⟩ := hk
  simp [bodySize, hu, hx, nilOr, unknownSize, *]

theorem body_fits_unknown_iff (d : Descriptor) (x : DescriptorUnknown) (hu : isUserDefinedTag d.tag = false)
    (hk : d.tag ∉ knownDescriptorTags) (hx : d.unknown = some x) : BodyFits d ↔ x.content.length < 256 := by
  rw [body_fits_iff, bodySize_unknown d x hu hk hx]

theorem body_fits_unknown (d : Descriptor) (x : DescriptorUnknown) (hu : isUserDefinedTag d.tag = false)
    (hk : d.tag ∉ knownDescriptorTags) (hx : d.unknown = some x) (hfit : x.content.length < 256) : BodyFits d :=
  (body_fits_unknown_iff d x hu hk hx).2 hfit

/-! ### summary -/

/-- the typed kinds with their guards: one constructor per kind (a 24-way disjunction) -/
inductive TypedFits (d : Descriptor) : Prop
  | ac3 (x : DescriptorAC3) (ht : d.tag = descriptorTagAC3) (hx : d.ac3 = some x)
      (hfit : 1 + b2n x.hasComponentType + b2n x.hasBSID + b2n x.hasMainID + b2n x.hasASVC + x.additionalInfo.length < 256)
  | avc_video (x : DescriptorAVCVideo) (ht : d.tag = descriptorTagAVCVideo) (hx : d.avcVideo = some x)
  | component (x : DescriptorComponent) (ht : d.tag = descriptorTagComponent) (hx : d.component = some x)
      (hfit : 6 + x.text.length < 256)
  | content (x : DescriptorContent) (ht : d.tag = descriptorTagContent) (hx : d.content = some x)
      (hfit : 2 * x.items.length < 256)
  | data_stream_alignment (x : DescriptorDataStreamAlignment) (ht : d.tag = descriptorTagDataStreamAlignment) (hx : d.dataStreamAlignment = some x)
  | enhanced_ac3 (x : DescriptorEnhancedAC3) (ht : d.tag = descriptorTagEnhancedAC3) (hx : d.enhancedAC3 = some x)
      (hfit : 1 + b2n x.hasComponentType + b2n x.hasBSID + b2n x.hasMainID + b2n x.hasASVC + b2n x.hasSubStream1 + b2n x.hasSubStream2 + b2n x.hasSubStream3 + x.additionalInfo.length < 256)
  | extended_event (x : DescriptorExtendedEvent) (ht : d.tag = descriptorTagExtendedEvent) (hx : d.extendedEvent = some x)
      (hfit : 6 + extendedEventItemsSize x.items + x.text.length < 256)
  | extension (x : DescriptorExtension) (ht : d.tag = descriptorTagExtension) (hx : d.extension = some x)
      (hfit : extensionSize x < 256) (hnp : writeDescriptorPanics d = false)
  | iso639_language_and_audio_type (x : DescriptorISO639LanguageAndAudioType) (ht : d.tag = descriptorTagISO639LanguageAndAudioType) (hx : d.iso639LanguageAndAudioType = some x)
  | local_time_offset (x : DescriptorLocalTimeOffset) (ht : d.tag = descriptorTagLocalTimeOffset) (hx : d.localTimeOffset = some x)
      (hfit : 13 * x.items.length < 256)
  | maximum_bitrate (x : DescriptorMaximumBitrate) (ht : d.tag = descriptorTagMaximumBitrate) (hx : d.maximumBitrate = some x)
  | network_name (x : DescriptorNetworkName) (ht : d.tag = descriptorTagNetworkName) (hx : d.networkName = some x)
      (hfit : x.name.length < 256)
  | parental_rating (x : DescriptorParentalRating) (ht : d.tag = descriptorTagParentalRating) (hx : d.parentalRating = some x)
      (hfit : 4 * x.items.length < 256)
  | private_data_indicator (x : DescriptorPrivateDataIndicator) (ht : d.tag = descriptorTagPrivateDataIndicator) (hx : d.privateDataIndicator = some x)
  | private_data_specifier (x : DescriptorPrivateDataSpecifier) (ht : d.tag = descriptorTagPrivateDataSpecifier) (hx : d.privateDataSpecifier = some x)
  | registration (x : DescriptorRegistration) (ht : d.tag = descriptorTagRegistration) (hx : d.registration = some x)
      (hfit : 4 + x.additionalIdentificationInfo.length < 256)
  | service (x : DescriptorService) (ht : d.tag = descriptorTagService) (hx : d.service = some x)
      (hfit : 3 + x.name.length + x.provider.length < 256)
  | short_event (x : DescriptorShortEvent) (ht : d.tag = descriptorTagShortEvent) (hx : d.shortEvent = some x)
      (hfit : 5 + x.eventName.length + x.text.length < 256)
  | stream_identifier (x : DescriptorStreamIdentifier) (ht : d.tag = descriptorTagStreamIdentifier) (hx : d.streamIdentifier = some x)
  | subtitling (x : DescriptorSubtitling) (ht : d.tag = descriptorTagSubtitling) (hx : d.subtitling = some x)
      (hfit : 8 * x.items.length < 256)
  | teletext (x : DescriptorTeletext) (ht : d.tag = descriptorTagTeletext) (hx : d.teletext = some x)
      (hfit : 5 * x.items.length < 256)
  | vbi_data (x : DescriptorVBIData) (ht : d.tag = descriptorTagVBIData) (hx : d.vbiData = some x)
      (hfit : vbiDataServicesSize x.services < 256)
  | vbi_teletext (x : DescriptorTeletext) (ht : d.tag = descriptorTagVBITeletext) (hx : d.vbiTeletext = some x)
      (hfit : 5 * x.items.length < 256)
  | unknown (x : DescriptorUnknown) (hu : isUserDefinedTag d.tag = false) (hk : d.tag ∉ knownDescriptorTags)
      (hx : d.unknown = some x) (hfit : x.content.length < 256)

/-- **C14 for the typed kinds**: every typed descriptor whose body fits 255 bytes announces exactly its body -/
theorem body_fits_typed (d : Descriptor) (h : TypedFits d) : BodyFits d := by
  cases h with
  | ac3 x ht hx hfit => exact body_fits_ac3 d x ht hx hfit
  | avc_video x ht hx => exact body_fits_avc_video d x ht hx
  | component x ht hx hfit => exact body_fits_component d x ht hx hfit
  | content x ht hx hfit => exact body_fits_content d x ht hx hfit
  | data_stream_alignment x ht hx => exact body_fits_data_stream_alignment d x ht hx
  | enhanced_ac3 x ht hx hfit => exact body_fits_enhanced_ac3 d x ht hx hfit
  | extended_event x ht hx hfit => exact body_fits_extended_event d x ht hx hfit
  | extension x ht hx hfit _ => exact body_fits_extension d x ht hx hfit
  | iso639_language_and_audio_type x ht hx => exact body_fits_iso639_language_and_audio_type d x ht hx
  | local_time_offset x ht hx hfit => exact body_fits_local_time_offset d x ht hx hfit
  | maximum_bitrate x ht hx => exact body_fits_maximum_bitrate d x ht hx
  | network_name x ht hx hfit => exact body_fits_network_name d x ht hx hfit
  | parental_rating x ht hx hfit => exact body_fits_parental_rating d x ht hx hfit
  | private_data_indicator x ht hx => exact body_fits_private_data_indicator d x ht hx
  | private_data_specifier x ht hx => exact body_fits_private_data_specifier d x ht hx
  | registration x ht hx hfit => exact body_fits_registration d x ht hx hfit
  | service x ht hx hfit => exact body_fits_service d x ht hx hfit
  | short_event x ht hx hfit => exact body_fits_short_event d x ht hx hfit
  | stream_identifier x ht hx => exact body_fits_stream_identifier d x ht hx
  | subtitling x ht hx hfit => exact body_fits_subtitling d x ht hx hfit
  | teletext x ht hx hfit => exact body_fits_teletext d x ht hx hfit
  | vbi_data x ht hx hfit => exact body_fits_vbi_data d x ht hx hfit
  | vbi_teletext x ht hx hfit => exact body_fits_vbi_teletext d x ht hx hfit
  | unknown x hu hk hx hfit => exact body_fits_unknown d x hu hk hx hfit

/-- and so the bytes on the wire: tag, the length of the body, the body -/
theorem typed_length_matches (d : Descriptor) (h : TypedFits d) :
    (writeDescriptor d).length = 2 + (descriptorBody d).length ∧
    (writeDescriptor d).getD 1 0 = (descriptorBody d).length := by
  have hb := body_fits_typed d h
  have hm := length_matches d hb
  have hlt : bodySize d < 256 := (body_fits_iff d).1 hb
  unfold BodyFits at hb
  rw [hb]
  refine ⟨hm.1, ?_⟩
  rw [hm.2.1, calc_length]
  omega


/-! ### non-vacuity: one concrete, non-trivial descriptor per kind satisfying the hypotheses, and the bytes written -/

example : BodyFits { tag := 0x6a, ac3 := some { hasBSID := true, bsid := 8, hasASVC := true, asvc := 1, additionalInfo := [1, 2] } } :=
  body_fits_ac3 _ _ rfl rfl (by decide)
example : writeDescriptor { tag := 0x6a, ac3 := some { hasBSID := true, bsid := 8, hasASVC := true, asvc := 1, additionalInfo := [1, 2] } }
    = [0x6a, 5, 0x5f, 8, 1, 1, 2] := by decide
example : BodyFits { tag := 0x28, avcVideo := some { profileIDC := 100, levelIDC := 40, constraintSet1Flag := true, compatibleFlags := 3 } } :=
  body_fits_avc_video _ _ rfl rfl
example : writeDescriptor { tag := 0x28, avcVideo := some { profileIDC := 100, levelIDC := 40, constraintSet1Flag := true, compatibleFlags := 3 } }
    = [0x28, 4, 100, 0x43, 40, 0x3f] := by decide
example : BodyFits { tag := 0x50, component := some { streamContent := 1, componentType := 3, componentTag := 7, iso639LanguageCode := [0x65, 0x6e, 0x67], text := [0x41, 0x42] } } :=
  body_fits_component _ _ rfl rfl (by decide)
/-- a language code of the wrong length still gives a correct length byte (`WriteBytesN` pads / cuts) -/
example : writeDescriptor { tag := 0x50, component := some { streamContent := 1, componentType := 3, componentTag := 7, iso639LanguageCode := [0x65], text := [0x41, 0x42] } }
    = [0x50, 8, 0x01, 3, 7, 0x65, 0, 0, 0x41, 0x42] := by decide
example : BodyFits { tag := 0x54, content := some { items := [{ contentNibbleLevel1 := 1, contentNibbleLevel2 := 2, userByte := 3 }, { contentNibbleLevel1 := 4 }] } } :=
  body_fits_content _ _ rfl rfl (by decide)
example : writeDescriptor { tag := 0x54, content := some { items := [{ contentNibbleLevel1 := 1, contentNibbleLevel2 := 2, userByte := 3 }, { contentNibbleLevel1 := 4 }] } }
    = [0x54, 4, 0x12, 3, 0x40, 0] := by decide
example : BodyFits { tag := 0x06, dataStreamAlignment := some { type := 2 } } :=
  body_fits_data_stream_alignment _ _ rfl rfl
example : BodyFits { tag := 0x7a, enhancedAC3 := some { hasComponentType := true, componentType := 9, hasSubStream2 := true, subStream2 := 5, mixInfoExists := true, additionalInfo := [0xaa] } } :=
  body_fits_enhanced_ac3 _ _ rfl rfl (by decide)
example : writeDescriptor { tag := 0x7a, enhancedAC3 := some { hasComponentType := true, componentType := 9, hasSubStream2 := true, subStream2 := 5, mixInfoExists := true, additionalInfo := [0xaa] } }
    = [0x7a, 4, 0x8a, 9, 5, 0xaa] := by decide
example : BodyFits { tag := 0x4e, extendedEvent := some { number := 1, lastDescriptorNumber := 2, iso639LanguageCode := [0x65, 0x6e, 0x67], items := [{ description := [1, 2], content := [3] }, { description := [], content := [4, 5] }], text := [6, 7, 8] } } :=
  body_fits_extended_event _ _ rfl rfl (by decide)
example : writeDescriptor { tag := 0x4e, extendedEvent := some { number := 1, lastDescriptorNumber := 2, iso639LanguageCode := [0x65, 0x6e, 0x67], items := [{ description := [1, 2], content := [3] }, { description := [], content := [4, 5] }], text := [6, 7, 8] } }
    = [0x4e, 18, 0x12, 0x65, 0x6e, 0x67, 9, 2, 1, 2, 1, 3, 0, 2, 4, 5, 3, 6, 7, 8] := by decide
example : BodyFits { tag := 0x7f, extension := some { tag := 6, supplementaryAudio := some { mixType := true, editorialClassification := 2, hasLanguageCode := true, languageCode := [0x65, 0x6e, 0x67], privateData := [9] } } } :=
  body_fits_extension_supplementary_audio _ _ _ rfl rfl rfl rfl (by decide)
example : writeDescriptor { tag := 0x7f, extension := some { tag := 6, supplementaryAudio := some { mixType := true, editorialClassification := 2, hasLanguageCode := true, languageCode := [0x65, 0x6e, 0x67], privateData := [9] } } }
    = [0x7f, 6, 6, 0x8b, 0x65, 0x6e, 0x67, 9] := by decide
example : BodyFits { tag := 0x7f, extension := some { tag := 0x20, unknown := some [1, 2, 3] } } :=
  body_fits_extension_unknown _ _ _ rfl rfl (by decide) rfl (by decide)
example : BodyFits { tag := 0x0a, iso639LanguageAndAudioType := some { language := [0x66, 0x72, 0x61], type := 1 } } :=
  body_fits_iso639_language_and_audio_type _ _ rfl rfl
example : BodyFits { tag := 0x58, localTimeOffset := some { items := [{ countryCode := [0x46, 0x52, 0x41], countryRegionID := 1, localTimeOffset := 3600000000000, timeOfChange := 1000000000, nextTimeOffset := 7200000000000 }] } } :=
  body_fits_local_time_offset _ _ rfl rfl (by decide)
example : BodyFits { tag := 0x0e, maximumBitrate := some { bitrate := 5000000 } } :=
  body_fits_maximum_bitrate _ _ rfl rfl
example : writeDescriptor { tag := 0x0e, maximumBitrate := some { bitrate := 5000000 } } = [0x0e, 3, 0xc1, 0x86, 0xa0] := by decide
example : BodyFits { tag := 0x40, networkName := some { name := [0x6e, 0x65, 0x74] } } :=
  body_fits_network_name _ _ rfl rfl (by decide)
example : BodyFits { tag := 0x55, parentalRating := some { items := [{ countryCode := [0x46, 0x52, 0x41], rating := 4 }, { countryCode := [0x47, 0x42, 0x52], rating := 9 }] } } :=
  body_fits_parental_rating _ _ rfl rfl (by decide)
example : BodyFits { tag := 0x0f, privateDataIndicator := some { indicator := 0x01020304 } } :=
  body_fits_private_data_indicator _ _ rfl rfl
example : BodyFits { tag := 0x5f, privateDataSpecifier := some { specifier := 0x28 } } :=
  body_fits_private_data_specifier _ _ rfl rfl
example : BodyFits { tag := 0x05, registration := some { formatIdentifier := 0x48444d56, additionalIdentificationInfo := [1, 2] } } :=
  body_fits_registration _ _ rfl rfl (by decide)
example : writeDescriptor { tag := 0x05, registration := some { formatIdentifier := 0x48444d56, additionalIdentificationInfo := [1, 2] } }
    = [0x05, 6, 0x48, 0x44, 0x4d, 0x56, 1, 2] := by decide
example : BodyFits { tag := 0x48, service := some { type := 1, provider := [0x70, 0x72], name := [0x6e, 0x61, 0x6d] } } :=
  body_fits_service _ _ rfl rfl (by decide)
example : writeDescriptor { tag := 0x48, service := some { type := 1, provider := [0x70, 0x72], name := [0x6e, 0x61, 0x6d] } }
    = [0x48, 8, 1, 2, 0x70, 0x72, 3, 0x6e, 0x61, 0x6d] := by decide
example : BodyFits { tag := 0x4d, shortEvent := some { language := [0x65, 0x6e, 0x67], eventName := [1, 2], text := [3] } } :=
  body_fits_short_event _ _ rfl rfl (by decide)
example : BodyFits { tag := 0x52, streamIdentifier := some { componentTag := 7 } } :=
  body_fits_stream_identifier _ _ rfl rfl
example : BodyFits { tag := 0x59, subtitling := some { items := [{ language := [0x65, 0x6e, 0x67], type := 0x10, compositionPageID := 1, ancillaryPageID := 0x1234 }] } } :=
  body_fits_subtitling _ _ rfl rfl (by decide)
example : writeDescriptor { tag := 0x59, subtitling := some { items := [{ language := [0x65, 0x6e, 0x67], type := 0x10, compositionPageID := 1, ancillaryPageID := 0x1234 }] } }
    = [0x59, 8, 0x65, 0x6e, 0x67, 0x10, 0, 1, 0x12, 0x34] := by decide
example : BodyFits { tag := 0x56, teletext := some { items := [{ language := [0x65, 0x6e, 0x67], type := 2, magazine := 1, page := 88 }] } } :=
  body_fits_teletext _ _ rfl rfl (by decide)
example : writeDescriptor { tag := 0x56, teletext := some { items := [{ language := [0x65, 0x6e, 0x67], type := 2, magazine := 1, page := 88 }] } }
    = [0x56, 5, 0x65, 0x6e, 0x67, 0x11, 0x88] := by decide
example : BodyFits { tag := 0x45, vbiData := some { services := [{ dataServiceID := 1, descriptors := [{ fieldParity := true, lineOffset := 7 }, { lineOffset := 8 }] }, { dataServiceID := 3, descriptors := [] }] } } :=
  body_fits_vbi_data _ _ rfl rfl (by decide)
/-- a known service with two lines (4 bytes) and an unknown service id (3 bytes: id, 1, 0xff): 7, not `3 * 2` -/
example : writeDescriptor { tag := 0x45, vbiData := some { services := [{ dataServiceID := 1, descriptors := [{ fieldParity := true, lineOffset := 7 }, { lineOffset := 8 }] }, { dataServiceID := 3, descriptors := [] }] } }
    = [0x45, 7, 1, 2, 0xe7, 0xc8, 3, 1, 0xff] := by decide
example : BodyFits { tag := 0x46, vbiTeletext := some { items := [{ language := [0x65, 0x6e, 0x67], type := 1, magazine := 0, page := 0 }, { language := [0x66, 0x72, 0x61] }] } } :=
  body_fits_vbi_teletext _ _ rfl rfl (by decide)
example : BodyFits { tag := 0x13, unknown := some { tag := 0x13, content := [1, 2, 3, 4] } } :=
  body_fits_unknown _ _ rfl (by decide) rfl (by decide)
example : TypedFits { tag := 0x7f, extension := some { tag := 0x20, unknown := some [1, 2, 3] } } :=
  .extension _ rfl rfl (by decide) rfl
example : TypedFits { tag := 0x48, service := some { type := 1, provider := [0x70, 0x72], name := [0x6e, 0x61, 0x6d] } } :=
  .service _ rfl rfl (by decide)
/-- a typed tag whose sub-struct is nil: length 0, no body (covered by `body_fits_iff`) -/
example : BodyFits { tag := 0x48 } := (body_fits_iff _).2 (by decide)
/-- the guard is needed: a 256-byte network name is announced with length 0 while 256 bytes are the body -/
example : calcDescriptorLength { tag := 0x40, networkName := some { name := List.replicate 256 0x41 } } = 0 ∧
    (descriptorBody { tag := 0x40, networkName := some { name := List.replicate 256 0x41 } }).length = 256 := by
  decide +kernel

end Typed


/-! ## Round trip of the typed descriptor kinds: `parseDescriptor (writeDescriptor d ++ r) = d`

Helper lemmas: `Astits/Proofs/DescRT/*.lean` (namespace `Astits.DescRT`).  `PSIRT.DescRT d` says: wherever the bytes
`writeDescriptor d` stand in a slice (any bytes before, any bytes `r` after), `parseDescriptor` started in front of them
returns exactly `d` and leaves the iterator right after them.

For each kind `Xxx`, `DescRT.ofXxx x` is the descriptor as the PARSER builds it: the kind's tag, `Length` = the value
of the length calculator, the one sub-struct pointer set to `x`, every other pointer nil, `UserDefined` empty; and
`DescRT.XxxWF x` is the well-formedness predicate:
* every field fits the bit width the writer gives it (`wU8` / `wU16` / `wU32` / `WriteN(v, n)` truncate);
* language and country codes have exactly 3 bytes (`WriteBytesN(bs, 3, 0)` pads / cuts, the parser returns 3 bytes);
* an optional field whose flag is clear holds Go's zero value (it is neither written nor read);
* the body is at least 1 and at most 255 bytes (`fits`, and `nonempty` for the kinds whose body can be empty);
* kind-specific: the maximum bitrate is a multiple of 50 below 50·2²²; a teletext page is below 160; a VBI data service
  with an unknown id has no line descriptor; local-time-offset durations are whole minutes in [0, 160 h), the time
  of change lies in MJD 15079..65535 (1900-03-01 .. 2038-04-22, the range of C15).
The places where the pair is NOT inverse on in-range values are listed with their normal forms in the next section. -/

section TypedRT
open Astits.DescRT Astits.PSIRT
theorem desc_rt_ac3 (x : DescriptorAC3) (wf : AC3WF x) : DescRT (ofAC3 x) := (ac3_ok x wf).rt
theorem desc_rt_avc_video (x : DescriptorAVCVideo) (wf : AVCVideoWF x) : DescRT (ofAVCVideo x) := (avcVideo_ok x wf).rt
theorem desc_rt_component (x : DescriptorComponent) (wf : ComponentWF x) : DescRT (ofComponent x) := (component_ok x wf).rt
theorem desc_rt_content (x : DescriptorContent) (wf : ContentWF x) : DescRT (ofContent x) := (content_ok x wf).rt
theorem desc_rt_data_stream_alignment (x : DescriptorDataStreamAlignment) (wf : DataStreamAlignmentWF x) : DescRT (ofDataStreamAlignment x) := (dataStreamAlignment_ok x wf).rt
theorem desc_rt_enhanced_ac3 (x : DescriptorEnhancedAC3) (wf : EnhancedAC3WF x) : DescRT (ofEnhancedAC3 x) := (enhancedAC3_ok x wf).rt
theorem desc_rt_extended_event (x : DescriptorExtendedEvent) (wf : ExtendedEventWF x) : DescRT (ofExtendedEvent x) := (extendedEvent_ok x wf).rt
theorem desc_rt_extension (x : DescriptorExtension) (wf : ExtensionWF x) : DescRT (ofExtension x) := (extension_ok x wf).rt
theorem desc_rt_iso639_language_and_audio_type (x : DescriptorISO639LanguageAndAudioType) (wf : ISO639WF x) : DescRT (ofISO639 x) := (iso639_ok x wf).rt
theorem desc_rt_local_time_offset (x : DescriptorLocalTimeOffset) (wf : LocalTimeOffsetWF x) : DescRT (ofLocalTimeOffset x) := (localTimeOffset_ok x wf).rt
theorem desc_rt_maximum_bitrate (x : DescriptorMaximumBitrate) (wf : MaximumBitrateWF x) : DescRT (ofMaximumBitrate x) := (maximumBitrate_ok x wf).rt
theorem desc_rt_network_name (x : DescriptorNetworkName) (wf : NetworkNameWF x) : DescRT (ofNetworkName x) := (networkName_ok x wf).rt
theorem desc_rt_parental_rating (x : DescriptorParentalRating) (wf : ParentalRatingWF x) : DescRT (ofParentalRating x) := (parentalRating_ok x wf).rt
theorem desc_rt_private_data_indicator (x : DescriptorPrivateDataIndicator) (wf : PrivateDataIndicatorWF x) : DescRT (ofPrivateDataIndicator x) := (privateDataIndicator_ok x wf).rt
theorem desc_rt_private_data_specifier (x : DescriptorPrivateDataSpecifier) (wf : PrivateDataSpecifierWF x) : DescRT (ofPrivateDataSpecifier x) := (privateDataSpecifier_ok x wf).rt
theorem desc_rt_registration (x : DescriptorRegistration) (wf : RegistrationWF x) : DescRT (ofRegistration x) := (registration_ok x wf).rt
theorem desc_rt_service (x : DescriptorService) (wf : ServiceWF x) : DescRT (ofService x) := (service_ok x wf).rt
theorem desc_rt_short_event (x : DescriptorShortEvent) (wf : ShortEventWF x) : DescRT (ofShortEvent x) := (shortEvent_ok x wf).rt
theorem desc_rt_stream_identifier (x : DescriptorStreamIdentifier) (wf : StreamIdentifierWF x) : DescRT (ofStreamIdentifier x) := (streamIdentifier_ok x wf).rt
theorem desc_rt_subtitling (x : DescriptorSubtitling) (wf : SubtitlingWF x) : DescRT (ofSubtitling x) := (subtitling_ok x wf).rt
theorem desc_rt_teletext (x : DescriptorTeletext) (wf : TeletextWF x) : DescRT (ofTeletext x) := (teletext_ok x wf).rt
theorem desc_rt_vbi_data (x : DescriptorVBIData) (wf : VBIDataWF x) : DescRT (ofVBIData x) := (vbiData_ok x wf).rt
theorem desc_rt_vbi_teletext (x : DescriptorTeletext) (wf : TeletextWF x) : DescRT (ofVBITeletext x) := (vbiTeletext_ok x wf).rt
theorem desc_rt_unknown (x : DescriptorUnknown) (wf : UnknownWF x) : DescRT (ofUnknown x) := (unknown_ok x wf).rt

/-- the typed kinds with their well-formedness predicates: one constructor per kind -/
inductive TypedWF : Descriptor → Prop
  | ac3 (x : DescriptorAC3) (wf : AC3WF x) : TypedWF (ofAC3 x)
  | avc_video (x : DescriptorAVCVideo) (wf : AVCVideoWF x) : TypedWF (ofAVCVideo x)
  | component (x : DescriptorComponent) (wf : ComponentWF x) : TypedWF (ofComponent x)
  | content (x : DescriptorContent) (wf : ContentWF x) : TypedWF (ofContent x)
  | data_stream_alignment (x : DescriptorDataStreamAlignment) (wf : DataStreamAlignmentWF x) : TypedWF (ofDataStreamAlignment x)
  | enhanced_ac3 (x : DescriptorEnhancedAC3) (wf : EnhancedAC3WF x) : TypedWF (ofEnhancedAC3 x)
  | extended_event (x : DescriptorExtendedEvent) (wf : ExtendedEventWF x) : TypedWF (ofExtendedEvent x)
  | extension (x : DescriptorExtension) (wf : ExtensionWF x) : TypedWF (ofExtension x)
  | iso639_language_and_audio_type (x : DescriptorISO639LanguageAndAudioType) (wf : ISO639WF x) : TypedWF (ofISO639 x)
  | local_time_offset (x : DescriptorLocalTimeOffset) (wf : LocalTimeOffsetWF x) : TypedWF (ofLocalTimeOffset x)
  | maximum_bitrate (x : DescriptorMaximumBitrate) (wf : MaximumBitrateWF x) : TypedWF (ofMaximumBitrate x)
  | network_name (x : DescriptorNetworkName) (wf : NetworkNameWF x) : TypedWF (ofNetworkName x)
  | parental_rating (x : DescriptorParentalRating) (wf : ParentalRatingWF x) : TypedWF (ofParentalRating x)
  | private_data_indicator (x : DescriptorPrivateDataIndicator) (wf : PrivateDataIndicatorWF x) : TypedWF (ofPrivateDataIndicator x)
  | private_data_specifier (x : DescriptorPrivateDataSpecifier) (wf : PrivateDataSpecifierWF x) : TypedWF (ofPrivateDataSpecifier x)
  | registration (x : DescriptorRegistration) (wf : RegistrationWF x) : TypedWF (ofRegistration x)
  | service (x : DescriptorService) (wf : ServiceWF x) : TypedWF (ofService x)
  | short_event (x : DescriptorShortEvent) (wf : ShortEventWF x) : TypedWF (ofShortEvent x)
  | stream_identifier (x : DescriptorStreamIdentifier) (wf : StreamIdentifierWF x) : TypedWF (ofStreamIdentifier x)
  | subtitling (x : DescriptorSubtitling) (wf : SubtitlingWF x) : TypedWF (ofSubtitling x)
  | teletext (x : DescriptorTeletext) (wf : TeletextWF x) : TypedWF (ofTeletext x)
  | vbi_data (x : DescriptorVBIData) (wf : VBIDataWF x) : TypedWF (ofVBIData x)
  | vbi_teletext (x : DescriptorTeletext) (wf : TeletextWF x) : TypedWF (ofVBITeletext x)
  | unknown (x : DescriptorUnknown) (wf : UnknownWF x) : TypedWF (ofUnknown x)

/-- round trip AND the length equation (`PSIRT.DescOk`, the per-descriptor hypothesis of `C13.pmt_roundtrip`) -/
theorem desc_ok_typed (d : Descriptor) (h : TypedWF d) : DescOk d := by
  cases h with
  | ac3 x wf => exact ac3_ok x wf
  | avc_video x wf => exact avcVideo_ok x wf
  | component x wf => exact component_ok x wf
  | content x wf => exact content_ok x wf
  | data_stream_alignment x wf => exact dataStreamAlignment_ok x wf
  | enhanced_ac3 x wf => exact enhancedAC3_ok x wf
  | extended_event x wf => exact extendedEvent_ok x wf
  | extension x wf => exact extension_ok x wf
  | iso639_language_and_audio_type x wf => exact iso639_ok x wf
  | local_time_offset x wf => exact localTimeOffset_ok x wf
  | maximum_bitrate x wf => exact maximumBitrate_ok x wf
  | network_name x wf => exact networkName_ok x wf
  | parental_rating x wf => exact parentalRating_ok x wf
  | private_data_indicator x wf => exact privateDataIndicator_ok x wf
  | private_data_specifier x wf => exact privateDataSpecifier_ok x wf
  | registration x wf => exact registration_ok x wf
  | service x wf => exact service_ok x wf
  | short_event x wf => exact shortEvent_ok x wf
  | stream_identifier x wf => exact streamIdentifier_ok x wf
  | subtitling x wf => exact subtitling_ok x wf
  | teletext x wf => exact teletext_ok x wf
  | vbi_data x wf => exact vbiData_ok x wf
  | vbi_teletext x wf => exact vbiTeletext_ok x wf
  | unknown x wf => exact unknown_ok x wf

/-- **C14 round trip for the typed kinds**: every well-formed typed descriptor, written by `writeDescriptor` anywhere in
a slice, is parsed back by `parseDescriptor` to the same value, and the parser stops right after it -/
theorem desc_rt_typed (d : Descriptor) (h : TypedWF d) : DescRT d := (desc_ok_typed d h).rt

/-- the plain reading: parsing the written bytes gives the descriptor back -/
theorem desc_rt_typed_val (d : Descriptor) (h : TypedWF d) : parseDescriptor.val (writeDescriptor d) = .ok d := by
  have := desc_rt_typed d h (writeDescriptor d) 0 [] ⟨[], by simp, rfl⟩
  unfold P.val
  rw [this]

/-- a well-formed typed descriptor is written as tag, length, and exactly `calcDescriptorLength d` more bytes (the first
conjunct of `length_matches`, here without the `BodyFits` hypothesis) -/
theorem typedWF_length (d : Descriptor) (h : TypedWF d) : (writeDescriptor d).length = 2 + calcDescriptorLength d :=
  (desc_ok_typed d h).len

/-- typed or user-defined: everything `parseDescriptor` can be asked to give back -/
inductive DescWF : Descriptor → Prop
  | typed (d : Descriptor) (h : TypedWF d) : DescWF d
  | user (tag : Nat) (u : Bytes) (ht : isUserDefinedTag tag = true) (hu : u.length < 256) : DescWF (userDescriptor tag u)

theorem desc_ok_wf (d : Descriptor) (h : DescWF d) : DescOk d := by
  cases h with
  | typed _ h => exact desc_ok_typed d h
  | user tag u ht hu => exact userDescriptor_ok tag u ht hu

end TypedRT

/-! ### non-vacuity: a concrete, non-trivial well-formed value for every kind -/

section TypedRTExamples
open Astits.DescRT Astits.PSIRT

example : TypedWF (ofAC3 { hasBSID := true, bsid := 8, hasASVC := true, asvc := 1, additionalInfo := [1, 2] }) :=
  .ac3 _ ⟨by decide, by decide, by decide, by decide, by decide⟩
example : TypedWF (ofAVCVideo { profileIDC := 100, levelIDC := 40, constraintSet1Flag := true, compatibleFlags := 3, avcStillPresent := true }) :=
  .avc_video _ ⟨by decide, by decide, by decide⟩
example : TypedWF (ofComponent { streamContent := 1, streamContentExt := 15, componentType := 3, componentTag := 7, iso639LanguageCode := [0x65, 0x6e, 0x67], text := [0x41, 0x42] }) :=
  .component _ ⟨by decide, by decide, by decide, by decide, by decide, by decide⟩
example : TypedWF (ofContent { items := [{ contentNibbleLevel1 := 1, contentNibbleLevel2 := 2, userByte := 3 }, { contentNibbleLevel1 := 4 }] }) :=
  .content _ ⟨by intro a ha; simp at ha; rcases ha with rfl | rfl <;> exact ⟨by decide, by decide, by decide⟩, by decide, by decide⟩
example : TypedWF (ofDataStreamAlignment { type := 2 }) := .data_stream_alignment _ ⟨by decide⟩
example : TypedWF (ofEnhancedAC3 { hasComponentType := true, componentType := 9, hasSubStream2 := true, subStream2 := 5, mixInfoExists := true, additionalInfo := [0xaa] }) :=
  .enhanced_ac3 _ ⟨by decide, by decide, by decide, by decide, by decide, by decide, by decide, by decide⟩
example : TypedWF (ofExtendedEvent { number := 1, lastDescriptorNumber := 2, iso639LanguageCode := [0x65, 0x6e, 0x67], items := [{ description := [1, 2], content := [3] }, { description := [], content := [4, 5] }], text := [6, 7, 8] }) :=
  .extended_event _ ⟨by decide, by decide, by decide,
    by intro a ha; simp at ha; rcases ha with rfl | rfl <;> exact ⟨by decide, by decide⟩, by decide⟩
example : TypedWF (ofExtension { tag := 6, supplementaryAudio := some { mixType := true, editorialClassification := 2, hasLanguageCode := true, languageCode := [0x65, 0x6e, 0x67], privateData := [9] } }) :=
  .extension _ (.supplementaryAudio _ ⟨by decide, by decide, by decide⟩ (by decide))
example : TypedWF (ofExtension { tag := 0x20, unknown := some [1, 2, 3] }) :=
  .extension _ (.unknown 0x20 [1, 2, 3] (by decide) (by decide) (by decide))
example : TypedWF (ofISO639 { language := [0x66, 0x72, 0x61], type := 1 }) :=
  .iso639_language_and_audio_type _ ⟨by decide, by decide⟩
/-- +01:00 now, +02:00 from 2001-09-09 01:46:40 UTC, France, region 1, polarity set -/
example : TypedWF (ofLocalTimeOffset { items := [{ countryCode := [0x46, 0x52, 0x41], countryRegionID := 1, localTimeOffsetPolarity := true, localTimeOffset := 3600000000000, timeOfChange := 1000000000, nextTimeOffset := 7200000000000 }] }) :=
  .local_time_offset _ ⟨by intro a ha; simp at ha; subst ha; exact ⟨by decide, by decide, by decide, by decide, by decide⟩,
    by decide, by decide⟩
example : TypedWF (ofMaximumBitrate { bitrate := 5000000 }) := .maximum_bitrate _ ⟨by decide, by decide⟩
example : TypedWF (ofNetworkName { name := [0x6e, 0x65, 0x74] }) := .network_name _ ⟨by decide, by decide⟩
example : TypedWF (ofParentalRating { items := [{ countryCode := [0x46, 0x52, 0x41], rating := 4 }, { countryCode := [0x47, 0x42, 0x52], rating := 9 }] }) :=
  .parental_rating _ ⟨by intro a ha; simp at ha; rcases ha with rfl | rfl <;> exact ⟨by decide, by decide⟩, by decide, by decide⟩
example : TypedWF (ofPrivateDataIndicator { indicator := 0x01020304 }) := .private_data_indicator _ ⟨by decide⟩
example : TypedWF (ofPrivateDataSpecifier { specifier := 0x28 }) := .private_data_specifier _ ⟨by decide⟩
example : TypedWF (ofRegistration { formatIdentifier := 0x48444d56, additionalIdentificationInfo := [1, 2] }) :=
  .registration _ ⟨by decide, by decide⟩
example : TypedWF (ofService { type := 1, provider := [0x70, 0x72], name := [0x6e, 0x61, 0x6d] }) := .service _ ⟨by decide, by decide⟩
example : TypedWF (ofShortEvent { language := [0x65, 0x6e, 0x67], eventName := [1, 2], text := [3] }) :=
  .short_event _ ⟨by decide, by decide⟩
example : TypedWF (ofStreamIdentifier { componentTag := 7 }) := .stream_identifier _ ⟨by decide⟩
example : TypedWF (ofSubtitling { items := [{ language := [0x65, 0x6e, 0x67], type := 0x10, compositionPageID := 1, ancillaryPageID := 0x1234 }] }) :=
  .subtitling _ ⟨by intro a ha; simp at ha; subst ha; exact ⟨by decide, by decide, by decide, by decide⟩, by decide, by decide⟩
example : TypedWF (ofTeletext { items := [{ language := [0x65, 0x6e, 0x67], type := 2, magazine := 1, page := 88 }] }) :=
  .teletext _ ⟨by intro a ha; simp at ha; subst ha; exact ⟨by decide, by decide, by decide, by decide⟩, by decide, by decide⟩
example : TypedWF (ofVBIData { services := [{ dataServiceID := 1, descriptors := [{ fieldParity := true, lineOffset := 7 }, { lineOffset := 8 }] }, { dataServiceID := 3, descriptors := [] }] }) :=
  .vbi_data _ ⟨by
      intro a ha; simp at ha
      rcases ha with rfl | rfl
      · refine ⟨by decide, fun _ => ⟨by decide, ?_⟩, fun h => by simp [isKnownVBIDataServiceID] at h⟩
        intro d hd; simp at hd; rcases hd with rfl | rfl <;> exact ⟨by decide⟩
      · exact ⟨by decide, fun h => by simp [isKnownVBIDataServiceID] at h, fun _ => rfl⟩,
    by decide, by decide⟩
example : TypedWF (ofVBITeletext { items := [{ language := [0x65, 0x6e, 0x67], type := 1, magazine := 0, page := 159 }, { language := [0x66, 0x72, 0x61] }] }) :=
  .vbi_teletext _ ⟨by intro a ha; simp at ha; rcases ha with rfl | rfl <;> exact ⟨by decide, by decide, by decide, by decide⟩,
    by decide, by decide⟩
example : TypedWF (ofUnknown { tag := 0x13, content := [1, 2, 3, 4] }) := .unknown _ ⟨by decide, by decide, by decide, by decide, by decide⟩
/-- the theorem applied: the bytes `[0x0a, 4, 0x66, 0x72, 0x61, 1]` parse back to the ISO 639 descriptor -/
example : parseDescriptor.val [0x0a, 4, 0x66, 0x72, 0x61, 1] = .ok (ofISO639 { language := [0x66, 0x72, 0x61], type := 1 }) := by
  have h := desc_rt_typed_val (ofISO639 { language := [0x66, 0x72, 0x61], type := 1 })
    (.iso639_language_and_audio_type _ ⟨by decide, by decide⟩)
  have e : writeDescriptor (ofISO639 { language := [0x66, 0x72, 0x61], type := 1 }) = [0x0a, 4, 0x66, 0x72, 0x61, 1] := by decide
  rw [e] at h
  exact h

end TypedRTExamples

/-! ## Where `parseDescriptor ∘ writeDescriptor` is NOT the identity, and the normal form it returns

`DescRT.DescRTTo d d'` : the bytes of `d`, wherever they stand, parse to `d'` (and the parser stops right after them).
Values with in-range fields that do not come back unchanged, each with its normal form:
1. `Length` is never read by the (repaired) writer and is recomputed by the parser (`desc_rt_stale_length`).
2. A body of 0 bytes — an empty network name, an empty item list (content, parental rating, subtitling, teletext,
   local time offset, VBI data), an unknown-tag descriptor without content, and every nil sub-struct — is written as
   `tag, 0`; the parser then does not enter the `switch`: the sub-struct pointer comes back nil (`desc_rt_zero_length`).
3. Maximum bitrate: the writer stores `bitrate / 50` in 22 bits, the parser multiplies by 50: `bitrate % 50` is lost
   (`desc_rt_maximum_bitrate_norm`, no hypothesis at all).
4. AC-3 / enhanced AC-3: a value in a field whose `HasXxx` flag is clear is not written (`desc_rt_ac3_norm`,
   `desc_rt_enhanced_ac3_norm`). (The 4 reserved bits of the AC-3 flags byte are written 1111 and ignored on input: no
   effect on this direction.)
5. Teletext / VBI teletext: `Page` travels as the two 4-bit values `Page / 10`, `Page % 10`; pages 0..159 survive, a
   page of 160..255 comes back as `Page − 160` (`desc_rt_teletext_norm`).
6. VBI data: for a service whose id is not one of the six known ids the writer emits one reserved byte instead of
   the line descriptors, the parser skips it: the descriptors are dropped (`desc_rt_vbi_data_norm`).
7. Extension: the pointer not selected by the extension tag is dropped, and a nil `Unknown` (extension tag ≠ 6) comes
   back as a pointer to an empty slice (`desc_rt_extension_norm_*`); with extension tag 6 and a nil
   `SupplementaryAudio` Go panics after three bytes (`writeDescriptorPanics`), and those three bytes do not parse.
8. Codes that are not 3 bytes long come back padded with zeros / cut to 3 bytes; supplementary-audio language code
   without its flag is dropped; values wider than their field are truncated; durations lose their seconds; a body of
   more than 255 bytes is announced modulo 256 (C14 `not_body_fits_of_overflow`) — concrete evaluations below. -/

section NormalForms
open Astits.DescRT Astits.PSIRT

theorem desc_rt_stale_length (d' : Descriptor) (n : Nat) (h : TypedWF d') : DescRTTo { d' with length := n } d' :=
  staleLength_rt d' n (desc_rt_typed d' h)

/-- ANY descriptor value with an 8-bit tag whose computed length is 0: tag and a zero length byte are written, and the
bare header comes back -/
theorem desc_rt_zero_length (d : Descriptor) (htag : d.tag < 256) (hcalc : calcDescriptorLength d = 0)
    (bs : Bytes) (off : Int) (r : Bytes) (hat : It.At ⟨bs, off⟩ (writeDescriptor d ++ r)) :
    parseDescriptor ⟨bs, off⟩ = .ok ({ tag := d.tag, length := 0 }, ⟨bs, off + 2⟩) :=
  zero_length_rt d htag hcalc bs off r hat

theorem desc_rt_maximum_bitrate_norm (x : DescriptorMaximumBitrate) :
    DescRTTo (ofMaximumBitrate x) (ofMaximumBitrate { bitrate := x.bitrate / 50 % 4194304 * 50 }) :=
  maximumBitrate_norm x

theorem desc_rt_ac3_norm (x : DescriptorAC3) (h1 : x.hasComponentType = true → x.componentType < 256)
    (h2 : x.hasBSID = true → x.bsid < 256) (h3 : x.hasMainID = true → x.mainID < 256)
    (h4 : x.hasASVC = true → x.asvc < 256) (hfit : DescLen.ac3Size x < 256) :
    DescRTTo (ofAC3 x) (ofAC3 (normAC3 x)) := ac3_norm x h1 h2 h3 h4 hfit

theorem desc_rt_enhanced_ac3_norm (x : DescriptorEnhancedAC3) (h1 : x.hasComponentType = true → x.componentType < 256)
    (h2 : x.hasBSID = true → x.bsid < 256) (h3 : x.hasMainID = true → x.mainID < 256)
    (h4 : x.hasASVC = true → x.asvc < 256) (h5 : x.hasSubStream1 = true → x.subStream1 < 256)
    (h6 : x.hasSubStream2 = true → x.subStream2 < 256) (h7 : x.hasSubStream3 = true → x.subStream3 < 256)
    (hfit : DescLen.enhancedAC3Size x < 256) :
    DescRTTo (ofEnhancedAC3 x) (ofEnhancedAC3 (normEnhancedAC3 x)) := enhancedAC3_norm x h1 h2 h3 h4 h5 h6 h7 hfit

theorem desc_rt_teletext_norm (x : DescriptorTeletext)
    (hitems : ∀ a ∈ x.items, a.language.length = 3 ∧ a.type < 32 ∧ a.magazine < 8)
    (hne : 0 < x.items.length) (hfit : 5 * x.items.length < 256) :
    DescRTTo (ofTeletext x) (ofTeletext (normTeletext x)) ∧ DescRTTo (ofVBITeletext x) (ofVBITeletext (normTeletext x)) :=
  teletext_norm x hitems hne hfit

theorem desc_rt_vbi_data_norm (x : DescriptorVBIData)
    (hsrv : ∀ s ∈ x.services, s.dataServiceID < 256 ∧
      (isKnownVBIDataServiceID s.dataServiceID = true → s.descriptors.length < 256 ∧ ∀ d ∈ s.descriptors, d.lineOffset < 32))
    (hne : 0 < x.services.length) (hfit : vbiDataServicesSize x.services < 256) :
    DescRTTo (ofVBIData x) (ofVBIData (normVBIData x)) := vbiData_norm x hsrv hne hfit

theorem desc_rt_extension_norm_unknown (x : DescriptorExtension) (ht : x.tag ≠ descriptorTagExtensionSupplementaryAudio)
    (h256 : x.tag < 256) (hfit : 1 + (x.unknown.getD []).length < 256) :
    DescRTTo (ofExtension x) (ofExtension (normExtension x)) := extension_norm_unknown x ht h256 hfit

theorem desc_rt_extension_norm_supplementary_audio (x : DescriptorExtension) (s : DescriptorExtensionSupplementaryAudio)
    (ht : x.tag = descriptorTagExtensionSupplementaryAudio) (hs : x.supplementaryAudio = some s)
    (wf : SupplementaryAudioWF s) (hfit : 1 + calcDescriptorExtensionSupplementaryAudioLength s < 256) :
    DescRTTo (ofExtension x) (ofExtension (normExtension x)) := extension_norm_supplementaryAudio x s ht hs wf hfit

/-- `parseDescriptor (writeDescriptor d)` is `ok d'` (a Bool, because `Res` has no decidable equality) -/
def roundTripsTo (d d' : Descriptor) : Bool :=
  match parseDescriptor.val (writeDescriptor d) with
  | .ok r => r == d'
  | _ => false

/-! concrete evaluations of the model at values the well-formedness predicates exclude -/

/-- 2: an empty network name loses its sub-struct -/
example : roundTripsTo (ofNetworkName { name := [] }) { tag := 0x40, length := 0 } = true := by decide +kernel
/-- 3: 1234 bytes/s come back as 1200 -/
example : roundTripsTo (ofMaximumBitrate { bitrate := 1234 }) (ofMaximumBitrate { bitrate := 1200 }) = true := by decide +kernel
/-- 4: a BSID without `HasBSID` is not written -/
example : roundTripsTo (ofAC3 { bsid := 7, hasBSID := false }) (ofAC3 { bsid := 0, hasBSID := false }) = true := by decide +kernel
/-- 5: teletext page 200 comes back as 40 -/
example : roundTripsTo (ofTeletext { items := [{ language := [1, 2, 3], page := 200, type := 1, magazine := 1 }] })
    (ofTeletext { items := [{ language := [1, 2, 3], page := 40, type := 1, magazine := 1 }] }) = true := by decide +kernel
/-- 6: line descriptors of a VBI data service with the unknown id 3 are dropped -/
example : roundTripsTo (ofVBIData { services := [{ dataServiceID := 3, descriptors := [{ lineOffset := 3 }, { lineOffset := 4 }] }] })
    (ofVBIData { services := [{ dataServiceID := 3, descriptors := [] }] }) = true := by decide +kernel
/-- 7: a nil `Unknown` comes back as a pointer to an empty slice -/
example : roundTripsTo (ofExtension { tag := 0x20 }) (ofExtension { tag := 0x20, unknown := some [] }) = true := by decide +kernel
/-- 7: extension tag 6 without `SupplementaryAudio`: Go panics after `7f 01 06`; these bytes do not parse -/
example : writeDescriptorPanics (ofExtension { tag := 6 }) = true ∧ writeDescriptor (ofExtension { tag := 6 }) = [0x7f, 1, 6] ∧
    (parseDescriptor.val (writeDescriptor (ofExtension { tag := 6 }))).isOk = false := by decide +kernel
/-- 8: a one-byte language code comes back padded, a five-byte one cut -/
example : roundTripsTo (ofISO639 { language := [0x65], type := 1 }) (ofISO639 { language := [0x65, 0, 0], type := 1 }) = true ∧
    roundTripsTo (ofISO639 { language := [1, 2, 3, 4, 5], type := 1 }) (ofISO639 { language := [1, 2, 3], type := 1 }) = true := by
  decide +kernel
/-- 8: a supplementary-audio language code without `HasLanguageCode` is dropped -/
example : roundTripsTo (ofExtension { tag := 6, supplementaryAudio := some { languageCode := [1, 2, 3], hasLanguageCode := false, privateData := [9] } })
    (ofExtension { tag := 6, supplementaryAudio := some { languageCode := [], hasLanguageCode := false, privateData := [9] } }) = true := by
  decide +kernel
/-- 8: a component tag of 300 is truncated to 44; 5-bit compatible flags 40 to 8 -/
example : roundTripsTo (ofStreamIdentifier { componentTag := 300 }) (ofStreamIdentifier { componentTag := 44 }) = true ∧
    roundTripsTo (ofAVCVideo { compatibleFlags := 40 }) (ofAVCVideo { compatibleFlags := 8 }) = true := by decide +kernel
/-- 8: an offset of 1 h 0 min 1 s loses the second; a negative offset is written as 00:00 -/
example : roundTripsTo
    (ofLocalTimeOffset { items := [{ countryCode := [1, 2, 3], localTimeOffset := 3601000000000, timeOfChange := 0, nextTimeOffset := -3600000000000 }] })
    (ofLocalTimeOffset { items := [{ countryCode := [1, 2, 3], localTimeOffset := 3600000000000, timeOfChange := 0, nextTimeOffset := 0 }] }) = true := by
  decide +kernel
/-- the duration bound is exact: 159 h 59 min round-trips, 160 h comes back as 0 h -/
example : roundTripsTo
    (ofLocalTimeOffset { items := [{ countryCode := [1, 2, 3], localTimeOffset := 575940000000000, timeOfChange := 0, nextTimeOffset := 576000000000000 }] })
    (ofLocalTimeOffset { items := [{ countryCode := [1, 2, 3], localTimeOffset := 575940000000000, timeOfChange := 0, nextTimeOffset := 0 }] }) = true := by
  decide +kernel
/-- the time bounds are exact: the first second of MJD 65536 (2038-04-23) wraps to MJD 0 (1858-11-17), and the last
second of MJD 15078 (1900-02-28) comes back 3 days late (the Annex C formula is valid from 1900-03-01) -/
example : roundTripsTo
    (ofLocalTimeOffset { items := [{ countryCode := [1, 2, 3], timeOfChange := 2155593600 }] })
    (ofLocalTimeOffset { items := [{ countryCode := [1, 2, 3], timeOfChange := -3506544000 }] }) = true ∧
  roundTripsTo
    (ofLocalTimeOffset { items := [{ countryCode := [1, 2, 3], timeOfChange := -2203891201 }] })
    (ofLocalTimeOffset { items := [{ countryCode := [1, 2, 3], timeOfChange := -2203632001 }] }) = true := by
  decide +kernel
/-- 8: a 300-byte network name is announced as 44 bytes; the parser returns the first 44 and the iterator is left in
the middle of the name (the next "descriptor" is read from the name's bytes) -/
example : (writeDescriptor (ofNetworkName { name := List.replicate 300 65 })).length = 302 ∧
    roundTripsTo (ofNetworkName { name := List.replicate 300 65 })
      { tag := 0x40, length := 44, networkName := some { name := List.replicate 44 65 } } = true := by decide +kernel
/-- the normal-form theorems applied -/
example : DescRTTo (ofMaximumBitrate { bitrate := 1234 }) (ofMaximumBitrate { bitrate := 1200 }) :=
  desc_rt_maximum_bitrate_norm { bitrate := 1234 }
example : DescRTTo (ofExtension { tag := 0x20 }) (ofExtension { tag := 0x20, unknown := some [] }) :=
  desc_rt_extension_norm_unknown { tag := 0x20 } (by decide) (by decide) (by decide)

end NormalForms

/-! ## Input side — framing, locality and overruns of a descriptor loop

Helper lemmas: `Astits/Proofs/DescFraming.lean`, `Astits/Proofs/DescFraming/Fwd.lean`, `Astits/Proofs/DescFraming/Local.lean`.

`total ds` = Σ (2 + `d.Length`) over the returned descriptors, `loopLen bs start` = the 12-bit loop length read at
`start`, `slice bs a n` = `n` bytes of `bs` from `a`, `descOf s` = the descriptor `parseDescriptor` returns on `s` from
offset 0.

WHAT HOLDS (all for ANY bytes): a descriptor never shifts its successors, whatever its body parser consumed
(`parseDescriptors_framing`); the result is never a truncated list (`loopLen ≤ total`); no panic.

WHAT DOES NOT HOLD — three deviations from "a descriptor accounts for exactly its declared length; a declared length
that overruns the loop is an error; the loop ends exactly at its declared length", each confirmed on the Go code:

 1. a LAST descriptor whose declared length overruns the LOOP end is accepted, and the iterator is left behind the
    loop end (`overrun_loop_accepted`): the caller continues `total - loopLen` bytes too far. The loop ends exactly
    at its declared length iff `total ds = loopLen` (`parseDescriptors_framing_exact`).
 2. for the nine tags of `underReaders` (fixed-size or self-delimiting bodies) a declared length that overruns the DATA
    is accepted too, and the iterator is left behind the end of the data (`overrun_data_accepted`). For every other
    tag it is an error (`parseDescriptor_overrun_data_err`).
 3. a body parser that reads MORE than the declared length takes the value of its descriptor from the bytes of the
    FOLLOWING descriptors, and even from bytes behind the loop (`overread_next_descriptor`, `overread_behind_loop`).
    The value is a function of the bytes from the descriptor's first byte to the end of the data, and of nothing else
    (`parseDescriptors_locality`). -/

section Framing
open Astits.DescFraming Astits.PSIVerdict

/-- `parseDescriptors` succeeds only from a non-negative offset -/
theorem parseDescriptors_start_nonneg (bs : Bytes) (off : Int) (ds : List Descriptor) (it' : It)
    (h : parseDescriptors ⟨bs, off⟩ = .ok (ds, it')) : 0 ≤ off :=
  (parseDescriptors_spec _ _ _ h).1

/-- … and never panics (from `Astits/Proofs/NoPanic/Desc.lean`) -/
theorem parseDescriptors_no_panic (bs : Bytes) (start : Nat) : parseDescriptors ⟨bs, start⟩ ≠ .panic :=
  NP_parseDescriptors.not_panic ⟨bs, start⟩ (Int.natCast_nonneg _)

/-- **(a) framing.** For ANY bytes and any start offset: when `parseDescriptors` succeeds, the two bytes at `start`
are inside the data and hold the loop length `L`; parsing continues at `start + 2 + Σ (2 + Length_i)`; that sum is
never short of `L` (no partial result) and every descriptor starts inside the loop; the `k`-th returned descriptor
has the tag and the length found at `start + 2 + Σ_{i<k} (2 + Length_i)` — the offset obtained from the DECLARED
lengths of its predecessors, whatever their body parsers consumed; every descriptor but the last lies wholly inside
the loop and the data. -/
theorem parseDescriptors_framing (bs : Bytes) (start : Nat) (ds : List Descriptor) (it' : It)
    (h : parseDescriptors ⟨bs, start⟩ = .ok (ds, it')) :
    start + 2 ≤ bs.length ∧ it'.bs = bs ∧
    it'.off = ((start + 2 + total ds : Nat) : Int) ∧
    loopLen bs start ≤ total ds ∧
    (∀ k, k < ds.length → total (ds.take k) < loopLen bs start) ∧
    (∀ k d, ds[k]? = some d →
      start + 2 + total (ds.take k) + 2 ≤ bs.length ∧
      d.tag = bs.getD (start + 2 + total (ds.take k)) 0 ∧
      d.length = bs.getD (start + 2 + total (ds.take k) + 1) 0) ∧
    (∀ k d, ds[k]? = some d → k + 1 < ds.length →
      total (ds.take k) + 2 + d.length < loopLen bs start ∧
      start + 2 + total (ds.take k) + 2 + d.length + 2 ≤ bs.length) := by
  obtain ⟨_, hl, hbs, h0, _, hd⟩ := parseDescriptors_spec _ _ _ h
  simp only [Int.toNat_natCast] at hl hbs hd
  have hfin := hd.fin_eq
  have hend := hd.end_le
  refine ⟨by omega, hbs, by omega, by omega, ?_, ?_, ?_⟩
  · intro k hk
    have := (DescsAt.get k _ hd (List.getElem?_eq_getElem hk)).1
    omega
  · intro k d hk
    obtain ⟨_, h2, h3, h4, _⟩ := DescsAt.get k d hd hk
    exact ⟨h2, h3, h4⟩
  · intro k d hk hlast
    have := DescsAt.inner_fits k d hd hk hlast
    omega

/-- **(a) the bytes.** When the iterator is left inside the data, the bytes of the walk are exactly
`[tag_0, len_0] ++ body_0 ++ [tag_1, len_1] ++ body_1 ++ …` with `body_k.length = len_k`, one frame per returned
descriptor -/
theorem parseDescriptors_framing_bytes (bs : Bytes) (start : Nat) (ds : List Descriptor) (it' : It)
    (h : parseDescriptors ⟨bs, start⟩ = .ok (ds, it')) (hin : it'.off ≤ bs.length) :
    slice bs (start + 2) (total ds) = (frames bs (start + 2) ds).flatten ∧
    (frames bs (start + 2) ds).length = ds.length ∧
    ∀ k d, ds[k]? = some d →
      (frames bs (start + 2) ds)[k]? =
        some ([d.tag, d.length] ++ slice bs (start + 2 + total (ds.take k) + 2) d.length) ∧
      (slice bs (start + 2 + total (ds.take k) + 2) d.length).length = d.length := by
  obtain ⟨_, _, _, h0, _, hd⟩ := parseDescriptors_spec _ _ _ h
  simp only [Int.toNat_natCast] at hd
  obtain ⟨h1, h2⟩ := hd.decompose (by omega)
  exact ⟨h1, frames_length _ _ _, h2⟩

/-- **(a) the loop ends exactly at its declared length** iff the declared lengths add up to the loop length, i.e. iff
the last descriptor does not overrun the loop end -/
theorem parseDescriptors_framing_exact (bs : Bytes) (start : Nat) (ds : List Descriptor) (it' : It)
    (h : parseDescriptors ⟨bs, start⟩ = .ok (ds, it')) :
    (it'.off = ((start + 2 + loopLen bs start : Nat) : Int) ↔ total ds ≤ loopLen bs start) ∧
    (it'.off = ((start + 2 + loopLen bs start : Nat) : Int) ↔ total ds = loopLen bs start) := by
  obtain ⟨_, _, ho, hle, _⟩ := parseDescriptors_framing bs start ds it' h
  constructor <;> constructor <;> intro hh <;> omega

/-- **(b) locality.** The `k`-th returned descriptor is `descOf` of the data from its first byte on: its value is a
function of the bytes from `start + 2 + Σ_{i<k} (2 + Length_i)` to the END OF THE DATA — not of anything before it,
not of its offset, not of the length of the data. (The dependency really extends behind the declared end, and behind
the loop: see `overread_next_descriptor`, `overread_behind_loop`.) -/
theorem parseDescriptors_locality (bs : Bytes) (start : Nat) (ds : List Descriptor) (it' : It)
    (h : parseDescriptors ⟨bs, start⟩ = .ok (ds, it')) (k : Nat) (d : Descriptor) (hk : ds[k]? = some d) :
    descOf (bs.drop (start + 2 + total (ds.take k))) = some d := by
  obtain ⟨_, _, _, _, _, hd⟩ := parseDescriptors_spec _ _ _ h
  simp only [Int.toNat_natCast] at hd
  obtain ⟨_, _, _, _, _, hp⟩ := DescsAt.get k d hd hk
  exact (parseDescriptor_suffix _ _ _).1 hp

/-- (b) as a statement about two inputs: descriptors that two loops found in front of the same remaining bytes are
equal -/
theorem parseDescriptors_locality_two (bs₁ bs₂ : Bytes) (s₁ s₂ : Nat) (ds₁ ds₂ : List Descriptor) (it₁ it₂ : It)
    (h₁ : parseDescriptors ⟨bs₁, s₁⟩ = .ok (ds₁, it₁)) (h₂ : parseDescriptors ⟨bs₂, s₂⟩ = .ok (ds₂, it₂))
    (k₁ k₂ : Nat) (d₁ d₂ : Descriptor) (hk₁ : ds₁[k₁]? = some d₁) (hk₂ : ds₂[k₂]? = some d₂)
    (hsame : bs₁.drop (s₁ + 2 + total (ds₁.take k₁)) = bs₂.drop (s₂ + 2 + total (ds₂.take k₂))) : d₁ = d₂ := by
  have e1 := parseDescriptors_locality _ _ _ _ h₁ k₁ d₁ hk₁
  have e2 := parseDescriptors_locality _ _ _ _ h₂ k₂ d₂ hk₂
  rw [hsame, e2] at e1
  exact (Option.some.inj e1).symm

/-- (b) a descriptor that can be parsed from its own frame `[tag, len] ++ body` alone has that value inside any loop:
when the body parser stays inside the declared length, the value depends on `(tag, len, body)` only -/
theorem parseDescriptors_frame_local (bs : Bytes) (start : Nat) (ds : List Descriptor) (it' : It)
    (h : parseDescriptors ⟨bs, start⟩ = .ok (ds, it')) (k : Nat) (d : Descriptor) (hk : ds[k]? = some d)
    (d' : Descriptor)
    (hf : descOf ([d.tag, d.length] ++ slice bs (start + 2 + total (ds.take k) + 2) d.length) = some d') : d' = d := by
  obtain ⟨_, _, _, _, _, hget, _⟩ := parseDescriptors_framing bs start ds it' h
  obtain ⟨hl, ht, hn⟩ := hget k d hk
  have e := parseDescriptors_locality _ _ _ _ h k d hk
  have e2 := descOf_append _ (bs.drop (start + 2 + total (ds.take k) + 2 + d.length)) d' hf
  rw [ht, hn, ← slice_two bs _ hl, List.append_assoc, slice_append_drop, slice_append_drop, e] at e2
  exact (Option.some.inj e2).symm

/-- (b) user-defined descriptors (tags 0x80..0xfe) are fully explicit: tag, length and exactly the declared body -/
theorem parseDescriptors_userDefined (bs : Bytes) (start : Nat) (ds : List Descriptor) (it' : It)
    (h : parseDescriptors ⟨bs, start⟩ = .ok (ds, it')) (k : Nat) (d : Descriptor) (hk : ds[k]? = some d)
    (hu : isUserDefinedTag d.tag = true) :
    d = { tag := d.tag, length := d.length,
          userDefined := if d.length > 0 then slice bs (start + 2 + total (ds.take k) + 2) d.length else [] } ∧
    start + 2 + total (ds.take k) + 2 + d.length ≤ bs.length := by
  obtain ⟨_, _, _, _, _, hd⟩ := parseDescriptors_spec _ _ _ h
  simp only [Int.toNat_natCast] at hd
  obtain ⟨_, _, ht, hn, hr, ⟨j, hp⟩⟩ := DescsAt.get k d hd hk
  constructor
  · have := parseDescriptor_userDefined _ _ _ _ hp (by rw [← ht]; exact hu)
    rw [← ht, ← hn] at this
    exact this
  · apply hr
    intro hmem
    simp only [underReaders, List.mem_cons, List.not_mem_nil, or_false] at hmem
    unfold isUserDefinedTag at hu
    simp only [Bool.and_eq_true, decide_eq_true_eq] at hu
    simp only [descriptorTagAVCVideo, descriptorTagDataStreamAlignment, descriptorTagMaximumBitrate,
      descriptorTagPrivateDataIndicator, descriptorTagPrivateDataSpecifier, descriptorTagStreamIdentifier,
      descriptorTagService, descriptorTagShortEvent, descriptorTagExtendedEvent] at hmem
    omega

/-- **(c) a declared length that overruns the DATA is an error** — for every tag outside `underReaders`: user-defined
tags, unknown tags, and the typed parsers that are handed the descriptor end -/
theorem parseDescriptor_overrun_data_err (bs : Bytes) (o : Nat) (ht : bs.getD o 0 ∉ underReaders)
    (hover : bs.length < o + 2 + bs.getD (o + 1) 0) : ∃ e, parseDescriptor ⟨bs, o⟩ = .err e := by
  cases hr : parseDescriptor ⟨bs, o⟩ with
  | ok r =>
    obtain ⟨d, j⟩ := r
    exfalso
    obtain ⟨_, _, _, h4, h5, h6⟩ := parseDescriptor_spec _ _ _ hr
    simp only [Int.toNat_natCast] at h4 h5 h6
    have := parseDescriptor_reads _ _ _ hr (by rw [h4]; exact ht)
    simp only at this
    omega
  | err e => exact ⟨e, rfl⟩
  | panic => exact absurd hr (NP_parseDescriptor.not_panic ⟨bs, o⟩ (Int.natCast_nonneg _))

/-- (c) in a loop: every returned descriptor with a tag outside `underReaders` lies inside the data with its whole
declared body — had it overrun the data, the call would have failed -/
theorem parseDescriptors_overrun_data (bs : Bytes) (start : Nat) (ds : List Descriptor) (it' : It)
    (h : parseDescriptors ⟨bs, start⟩ = .ok (ds, it')) (k : Nat) (d : Descriptor) (hk : ds[k]? = some d)
    (ht : d.tag ∉ underReaders) : start + 2 + total (ds.take k) + 2 + d.length ≤ bs.length := by
  obtain ⟨_, _, _, _, _, hd⟩ := parseDescriptors_spec _ _ _ h
  simp only [Int.toNat_natCast] at hd
  exact (DescsAt.get k d hd hk).2.2.2.2.1 ht

/-! ### non-vacuity and the three deviations, evaluated on the model (and observed identically on the Go code) -/

/-- number of descriptors and final offset of a successful run -/
def okShape (r : Res (List Descriptor × It)) : Option (Nat × Int) :=
  match r with
  | .ok (ds, it) => some (ds.length, it.off)
  | _ => none

theorem okShape_some {r : Res (List Descriptor × It)} {n : Nat} {o : Int} (h : okShape r = some (n, o)) :
    ∃ ds it', r = .ok (ds, it') := by
  unfold okShape at h
  split at h
  · exact ⟨_, _, rfl⟩
  · cases h

/-- a well-formed loop of three descriptors (stream identifier, user-defined, ISO 639) behind 3 other bytes: the
hypothesis of the theorems above is satisfiable, and the loop ends exactly at `3 + 2 + 14` -/
example : okShape (parseDescriptors ⟨[7, 7, 7, 0xF0, 14, 0x52, 1, 9, 0x90, 3, 1, 2, 3, 0x0a, 4, 0x65, 0x6e, 0x67, 1, 0xAA], 3⟩)
    = some (3, 19) := by decide +kernel
example : ∃ ds it', parseDescriptors ⟨[7, 7, 7, 0xF0, 14, 0x52, 1, 9, 0x90, 3, 1, 2, 3, 0x0a, 4, 0x65, 0x6e, 0x67, 1, 0xAA], 3⟩
    = .ok (ds, it') := okShape_some (n := 3) (o := 19) (by decide +kernel)

/-- DEVIATION 1 — loop length 4, one user-defined descriptor of declared length 5 (2 + 5 = 7 > 4): accepted, and the
iterator is left at offset 9 instead of 6 -/
theorem overrun_loop_accepted :
    okShape (parseDescriptors ⟨[0xF0, 4, 0x90, 5, 1, 2, 3, 4, 5, 9, 9, 9], 0⟩) = some (1, 9) := by decide +kernel

/-- DEVIATION 2 — an AVC video descriptor (4-byte fixed body) of declared length 10 in 8 bytes of data: accepted, and
the iterator is left at offset 14, behind the end of the data; the same overrun with a user-defined tag is an error -/
theorem overrun_data_accepted :
    okShape (parseDescriptors ⟨[0xF0, 6, 0x28, 10, 1, 2, 3, 4], 0⟩) = some (1, 14) ∧
    okShape (parseDescriptors ⟨[0xF0, 6, 0x90, 10, 1, 2, 3, 4], 0⟩) = none := by decide +kernel

/-- the exception list of DEVIATION 2 is exact: EVERY tag of `underReaders` accepts a declared length of 200 in 10 bytes
of data and leaves the iterator at offset 204 (so the guard of `parseDescriptor_overrun_data_err` is necessary) -/
theorem underReaders_all_overrun :
    underReaders.all (fun t => okShape (parseDescriptors ⟨[0xF0, 8, t, 200, 0, 0, 0, 0, 0, 0], 0⟩) == some (1, 204)) = true := by
  decide +kernel

/-- the provider name of the first descriptor, when it is a service descriptor -/
def firstProvider (r : Res (List Descriptor × It)) : Option Bytes :=
  match r with
  | .ok (d :: _, _) => d.service.map (·.provider)
  | _ => none

/-- DEVIATION 3a — a service descriptor of declared length 1 (just the service type): its parser goes on reading the
provider length and name from the NEXT descriptor `02 02 xx 00`; changing a byte of that descriptor changes the value
of the first one. Both descriptors are returned, the second one un-shifted. -/
theorem overread_next_descriptor :
    firstProvider (parseDescriptors ⟨[0xF0, 7, 0x48, 1, 7, 0x02, 2, 0xaa, 0, 1, 2, 3], 0⟩) = some [2, 0xaa] ∧
    firstProvider (parseDescriptors ⟨[0xF0, 7, 0x48, 1, 7, 0x02, 2, 0xbb, 0, 1, 2, 3], 0⟩) = some [2, 0xbb] ∧
    okShape (parseDescriptors ⟨[0xF0, 7, 0x48, 1, 7, 0x02, 2, 0xaa, 0, 1, 2, 3], 0⟩) = some (2, 9) := by decide +kernel

/-- DEVIATION 3b — the same with the service descriptor LAST in a loop of length 3: its value is taken from bytes
behind the loop (in a PMT: the next elementary stream's header, or the CRC) -/
theorem overread_behind_loop :
    firstProvider (parseDescriptors ⟨[0xF0, 3, 0x48, 1, 7, 2, 0x11, 0x22, 0, 1, 2, 3], 0⟩) = some [0x11, 0x22] ∧
    firstProvider (parseDescriptors ⟨[0xF0, 3, 0x48, 1, 7, 2, 0x11, 0x33, 0, 1, 2, 3], 0⟩) = some [0x11, 0x33] ∧
    okShape (parseDescriptors ⟨[0xF0, 3, 0x48, 1, 7, 2, 0x11, 0x22, 0, 1, 2, 3], 0⟩) = some (1, 5) := by decide +kernel

/-- `parseDescriptor_overrun_data_err` applies: user-defined tag 0x90, declared length 10, 4 bytes left -/
example : ∃ e, parseDescriptor ⟨[0x90, 10, 1, 2, 3, 4], (0 : Nat)⟩ = .err e :=
  parseDescriptor_overrun_data_err _ 0 (by decide) (by decide)

/-- `parseDescriptors_frame_local` applies to the ISO 639 descriptor of the first example (its frame parses alone);
it does NOT apply to the over-reading service descriptor of `overread_next_descriptor` (its frame alone is an error) -/
example : (descOf [0x0a, 4, 0x65, 0x6e, 0x67, 1]).isSome = true ∧ (descOf [0x48, 1, 7]).isSome = false := by
  decide +kernel

end Framing

end Astits.C14
