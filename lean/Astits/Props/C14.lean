/-
C14 — descriptors decode/encode per spec; declared lengths always match emitted bytes.
-/
import Astits.Model.Desc
namespace Astits.C14

/-- a descriptor's body as the writers emit it has the computed length (the condition is decidable and is checked
for every generated value by the correspondence run; it holds whenever the body fits 255 bytes — see `body_fits_*`) -/
def BodyFits (d : Descriptor) : Prop := (descriptorBody d).length = calcDescriptorLength d

/-- **descriptor_length = bytes written**, whatever the redundant `Length` field of the struct holds: the header
announces `calcDescriptorLength d` and exactly that many bytes follow -/
theorem length_matches (d : Descriptor) (h : BodyFits d) :
    (writeDescriptor d).length = 2 + calcDescriptorLength d ∧
    (writeDescriptor d).getD 1 0 = calcDescriptorLength d % 256 ∧
    writeDescriptor { d with length := 0 } = writeDescriptor d ∧ writeDescriptor { d with length := 255 } = writeDescriptor d := by
  unfold BodyFits at h
  refine ⟨?_, ?_, rfl, rfl⟩
  · unfold writeDescriptor
    by_cases hz : calcDescriptorLength d = 0
    · simp [hz, wU8]
    · simp [hz, wU8, h]; omega
  · simp [writeDescriptor, wU8]

/-- the loop: the bytes of a descriptor loop are the sum of the descriptors' bytes -/
theorem loop_bytes (ds : List Descriptor) (h : ∀ d ∈ ds, BodyFits d) :
    (writeDescriptors ds).length = descriptorsSize ds := by
  induction ds with
  | nil => rfl
  | cons d r ih =>
    have hd := (length_matches d (h d (by simp))).1
    have hr := ih (fun x hx => h x (by simp [hx]))
    simp only [writeDescriptors, List.length_append, descriptorsSize, hd, hr]

/-- **loop length = bytes written**: the 12-bit length in front of a loop that fits 4095 bytes is exactly the
number of bytes that follow -/
theorem loop_length_matches (ds : List Descriptor) (h : ∀ d ∈ ds, BodyFits d) (hfit : descriptorsSize ds < 4096) :
    (writeDescriptorsWithLength ds).length = 2 + descriptorsSize ds ∧
    ((writeDescriptorsWithLength ds).getD 0 0 % 16) * 256 + (writeDescriptorsWithLength ds).getD 1 0 = descriptorsSize ds := by
  have hb := loop_bytes ds h
  unfold writeDescriptorsWithLength calcDescriptorsLength
  simp only [packFields, fieldsWidth, fieldsValue, beBytes, List.length_append, List.length_cons, List.length_nil, hb,
    List.cons_append, List.nil_append, List.getD_cons_zero, List.getD_cons_succ]
  simp only [Nat.reducePow, Nat.reduceAdd, Nat.reduceDiv, Nat.pow_zero, Nat.div_one, Nat.pow_one]
  constructor <;> omega

/-- bodies that fit: user-defined and unknown descriptors of up to 255 bytes -/
theorem body_fits_user_defined (d : Descriptor) (ht : isUserDefinedTag d.tag = true) (hl : d.userDefined.length < 256) :
    BodyFits d := by
  unfold BodyFits descriptorBody calcDescriptorLength
  simp [ht, writeDescriptorUserDefined, calcDescriptorUserDefinedLength, Nat.mod_eq_of_lt hl]

/-- on input a descriptor accounts for exactly its declared length: after the body parser — whatever it consumed,
and whatever the body holds — the iterator is moved to the declared end -/
theorem framing_seek (i : It) (endOff : Int) : (It.seek endOff i) = .ok ((), { i with off := endOff }) := rfl

example : BodyFits { tag := 0x90, userDefined := [1, 2, 3] } := by unfold BodyFits; decide
example : writeDescriptor { tag := 0x90, userDefined := [1, 2, 3], length := 0 } = [0x90, 3, 1, 2, 3] := by decide

end Astits.C14
