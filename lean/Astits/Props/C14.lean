/-
C14 — descriptors decode/encode per spec; declared lengths always match emitted bytes.
-/
import Astits.Model.Desc
import Astits.Proofs.DescLengths
namespace Astits.C14

/-- a descriptor's body as the writers emit it has the computed length (the condition is decidable and is checked
for every generated value by the correspondence run; it holds whenever the body fits 255 bytes — see `body_fits_*`) -/
def BodyFits (d : Descriptor) : Prop := (descriptorBody d).length = calcDescriptorLength d

/-- **descriptor_length = bytes written**, whatever the redundant `Length` field of the struct holds: the header
announces `calcDescriptorLength d` and exactly that many bytes follow -/
theorem length_matches (d : Descriptor) (h : BodyFits d) :
    (writeDescriptor d).length = 2 + calcDescriptorLength d ∧
    (writeDescriptor d).getD 1 0 = calcDescriptorLength d % 256 ∧
    writeDescriptor { d with length := 0 } = writeDescriptor d ∧ writeDescriptor { d with length := 255 } = writeDescriptor d := by
  unfold BodyFits at h
  refine ⟨?_, ?_, rfl, rfl⟩
  · unfold writeDescriptor
    by_cases hz : calcDescriptorLength d = 0
    · simp [hz, wU8]
    · simp [hz, wU8, h]; omega
  · simp [writeDescriptor, wU8]

/-- the loop: the bytes of a descriptor loop are the sum of the descriptors' bytes -/
theorem loop_bytes (ds : List Descriptor) (h : ∀ d ∈ ds, BodyFits d) :
    (writeDescriptors ds).length = descriptorsSize ds := by
  induction ds with
  | nil => rfl
  | cons d r ih =>
    have hd := (length_matches d (h d (by simp))).1
    have hr := ih (fun x hx => h x (by simp [hx]))
    simp only [writeDescriptors, List.length_append, descriptorsSize, hd, hr]

/-- **loop length = bytes written**: the 12-bit length in front of a loop that fits 4095 bytes is exactly the
number of bytes that follow -/
theorem loop_length_matches (ds : List Descriptor) (h : ∀ d ∈ ds, BodyFits d) (hfit : descriptorsSize ds < 4096) :
    (writeDescriptorsWithLength ds).length = 2 + descriptorsSize ds ∧
    ((writeDescriptorsWithLength ds).getD 0 0 % 16) * 256 + (writeDescriptorsWithLength ds).getD 1 0 = descriptorsSize ds := by
  have hb := loop_bytes ds h
  unfold writeDescriptorsWithLength calcDescriptorsLength
  simp only [packFields, fieldsWidth, fieldsValue, beBytes, List.length_append, List.length_cons, List.length_nil, hb,
    List.cons_append, List.nil_append, List.getD_cons_zero, List.getD_cons_succ]
  simp only [Nat.reducePow, Nat.reduceAdd, Nat.reduceDiv, Nat.pow_zero, Nat.div_one, Nat.pow_one]
  constructor <;> omega

/-- bodies that fit: user-defined and unknown descriptors of up to 255 bytes -/
theorem body_fits_user_defined (d : Descriptor) (ht : isUserDefinedTag d.tag = true) (hl : d.userDefined.length < 256) :
    BodyFits d := by
  unfold BodyFits descriptorBody calcDescriptorLength
  simp [ht, writeDescriptorUserDefined, calcDescriptorUserDefinedLength, Nat.mod_eq_of_lt hl]

/-- on input a descriptor accounts for exactly its declared length: after the body parser — whatever it consumed,
and whatever the body holds — the iterator is moved to the declared end -/
theorem framing_seek (i : It) (endOff : Int) : (It.seek endOff i) = .ok ((), { i with off := endOff }) := rfl

example : BodyFits { tag := 0x90, userDefined := [1, 2, 3] } := by unfold BodyFits; decide
example : writeDescriptor { tag := 0x90, userDefined := [1, 2, 3], length := 0 } = [0x90, 3, 1, 2, 3] := by decide


/-! ## Typed descriptor kinds: `BodyFits` proved per kind (helper lemmas in `Astits/Proofs/DescLengths.lean`)

`bodySize d` is the un-truncated number of bytes of the body (`int ret` of the Go calculators before `uint8(ret)`).
For EVERY descriptor value the writer selected by the tag emits exactly `bodySize d` bytes (`body_length`) and the
calculator returns `bodySize d % 256` (`calc_length`); hence `BodyFits d ↔ bodySize d < 256` (`body_fits_iff`): the
ONLY way the declared length can differ from the emitted bytes is the `uint8` truncation of a body of 256 bytes or
more. No calculator/writer pair of the model disagrees on an in-range value. The per-kind theorems
`body_fits_<kind>` spell the guard out in terms of the fields; `body_fits_<kind>_iff` shows the guard is exact.
Fixed-size language / country codes need NO hypothesis: `WriteBytesN(bs, 3, 0)` emits exactly 3 bytes whatever
`len(bs)` is (`DescLen.wBytesN_length`). -/

section Typed
open Astits.DescLen
set_option linter.unusedSimpArgs false

/-- un-truncated size of the body selected by the tag: the same `switch` as `calcDescriptorLength` / `descriptorBody`
with the per-kind `int` sums of `Astits.DescLen` (no `uint8` conversion); a nil sub-struct counts 0 -/
def bodySize (d : Descriptor) : Nat :=
  if isUserDefinedTag d.tag then d.userDefined.length
  else if d.tag = descriptorTagAC3 then nilOr ac3Size d.ac3
  else if d.tag = descriptorTagAVCVideo then nilOr (fun _ => 4) d.avcVideo
  else if d.tag = descriptorTagComponent then nilOr componentSize d.component
  else if d.tag = descriptorTagContent then nilOr contentSize d.content
  else if d.tag = descriptorTagDataStreamAlignment then nilOr (fun _ => 1) d.dataStreamAlignment
  else if d.tag = descriptorTagEnhancedAC3 then nilOr enhancedAC3Size d.enhancedAC3
  else if d.tag = descriptorTagExtendedEvent then nilOr extendedEventSize d.extendedEvent
  else if d.tag = descriptorTagExtension then nilOr extensionSize d.extension
  else if d.tag = descriptorTagISO639LanguageAndAudioType then nilOr (fun _ => 4) d.iso639LanguageAndAudioType
  else if d.tag = descriptorTagLocalTimeOffset then nilOr localTimeOffsetSize d.localTimeOffset
  else if d.tag = descriptorTagMaximumBitrate then nilOr (fun _ => 3) d.maximumBitrate
  else if d.tag = descriptorTagNetworkName then nilOr networkNameSize d.networkName
  else if d.tag = descriptorTagParentalRating then nilOr parentalRatingSize d.parentalRating
  else if d.tag = descriptorTagPrivateDataIndicator then nilOr (fun _ => 4) d.privateDataIndicator
  else if d.tag = descriptorTagPrivateDataSpecifier then nilOr (fun _ => 4) d.privateDataSpecifier
  else if d.tag = descriptorTagRegistration then nilOr registrationSize d.registration
  else if d.tag = descriptorTagService then nilOr serviceSize d.service
  else if d.tag = descriptorTagShortEvent then nilOr shortEventSize d.shortEvent
  else if d.tag = descriptorTagStreamIdentifier then nilOr (fun _ => 1) d.streamIdentifier
  else if d.tag = descriptorTagSubtitling then nilOr subtitlingSize d.subtitling
  else if d.tag = descriptorTagTeletext then nilOr teletextSize d.teletext
  else if d.tag = descriptorTagVBIData then nilOr vbiDataSize d.vbiData
  else if d.tag = descriptorTagVBITeletext then nilOr teletextSize d.vbiTeletext
  else nilOr unknownSize d.unknown

theorem nil_length {α} (f : α → Bytes) (g : α → Nat) (h : ∀ x, (f x).length = g x) (o : Option α) :
    (nilBody f o).length = nilOr g o := by
  cases o with
  | none => rfl
  | some x => exact h x

theorem nil_calc {α} (c : α → Nat) (g : α → Nat) (h : ∀ x, c x = g x % 256) (o : Option α) :
    nilOr c o = nilOr g o % 256 := by
  cases o with
  | none => rfl
  | some x => exact h x

theorem ite_len (c : Prop) [Decidable c] {a b : Bytes} {a' b' : Nat} (h1 : a.length = a') (h2 : b.length = b') :
    (if c then a else b).length = if c then a' else b' := by
  split <;> assumption

theorem ite_mod (c : Prop) [Decidable c] {a b a' b' : Nat} (h1 : a = a' % 256) (h2 : b = b' % 256) :
    (if c then a else b) = (if c then a' else b') % 256 := by
  split <;> assumption

theorem body_length (d : Descriptor) : (descriptorBody d).length = bodySize d := by
  unfold descriptorBody bodySize
  repeat' apply ite_len
  all_goals first
    | rfl
    | exact nil_length _ _ ac3_length _
    | exact nil_length _ _ avcVideo_length _
    | exact nil_length _ _ component_length _
    | exact nil_length _ _ content_length _
    | exact nil_length _ _ dataStreamAlignment_length _
    | exact nil_length _ _ enhancedAC3_length _
    | exact nil_length _ _ extendedEvent_length _
    | exact nil_length _ _ extension_length _
    | exact nil_length _ _ iso639_length _
    | exact nil_length _ _ localTimeOffset_length _
    | exact nil_length _ _ maximumBitrate_length _
    | exact nil_length _ _ networkName_length _
    | exact nil_length _ _ parentalRating_length _
    | exact nil_length _ _ privateDataIndicator_length _
    | exact nil_length _ _ privateDataSpecifier_length _
    | exact nil_length _ _ registration_length _
    | exact nil_length _ _ service_length _
    | exact nil_length _ _ shortEvent_length _
    | exact nil_length _ _ streamIdentifier_length _
    | exact nil_length _ _ subtitling_length _
    | exact nil_length _ _ teletext_length _
    | exact nil_length _ _ vbiData_length _
    | exact nil_length _ _ unknown_length _

/-- the calculator returns the un-truncated size modulo 256 (the final `uint8(ret)`), for every descriptor -/
theorem calc_length (d : Descriptor) : calcDescriptorLength d = bodySize d % 256 := by
  unfold calcDescriptorLength bodySize
  repeat' apply ite_mod
  all_goals first
    | rfl
    | exact nil_calc _ _ ac3_calc _
    | (apply nil_calc; intro _; rfl)
    | exact nil_calc _ _ extendedEvent_calc _

/-- **total characterisation**: for every descriptor value (typed, user-defined, unknown, nil sub-struct) the
declared length equals the number of body bytes exactly when the un-truncated body size fits 8 bits -/
theorem body_fits_iff (d : Descriptor) : BodyFits d ↔ bodySize d < 256 := by
  unfold BodyFits
  rw [body_length, calc_length]
  omega

/-- the other direction as a finding-style statement: a body of 256 bytes or more is announced short -/
theorem not_body_fits_of_overflow (d : Descriptor) (h : 256 ≤ bodySize d) :
    calcDescriptorLength d < (descriptorBody d).length := by
  rw [body_length, calc_length]; omega

/-! ### one theorem per kind -/

/-- evaluates the `switch d.Tag` of `bodySize` given the tag and the sub-struct: unfolds the 23 tag constants -/
local macro "sel_kind" ht:ident hx:ident : tactic =>
  `(tactic| simp [bodySize, $ht:ident, $hx:ident, nilOr, isUserDefinedTag, descriptorTagAC3, descriptorTagAVCVideo, descriptorTagComponent, descriptorTagContent,
    descriptorTagDataStreamAlignment, descriptorTagEnhancedAC3, descriptorTagExtendedEvent, descriptorTagExtension,
    descriptorTagISO639LanguageAndAudioType, descriptorTagLocalTimeOffset, descriptorTagMaximumBitrate,
    descriptorTagNetworkName, descriptorTagParentalRating, descriptorTagPrivateDataIndicator,
    descriptorTagPrivateDataSpecifier, descriptorTagRegistration, descriptorTagService, descriptorTagShortEvent,
    descriptorTagStreamIdentifier, descriptorTagSubtitling, descriptorTagTeletext, descriptorTagVBIData,
    descriptorTagVBITeletext])

theorem bodySize_ac3 (d : Descriptor) (x : DescriptorAC3) (ht : d.tag = descriptorTagAC3) (hx : d.ac3 = some x) :
    bodySize d = ac3Size x := by
  sel_kind ht hx

/-- exactness: for a `AC3` descriptor the guard is necessary and sufficient -/
theorem body_fits_ac3_iff (d : Descriptor) (x : DescriptorAC3) (ht : d.tag = descriptorTagAC3) (hx : d.ac3 = some x) :
    BodyFits d ↔ 1 + b2n x.hasComponentType + b2n x.hasBSID + b2n x.hasMainID + b2n x.hasASVC + x.additionalInfo.length < 256 := by
  rw [body_fits_iff, bodySize_ac3 d x ht hx]; unfold ac3Size; omega

theorem body_fits_ac3 (d : Descriptor) (x : DescriptorAC3) (ht : d.tag = descriptorTagAC3) (hx : d.ac3 = some x)
    (hfit : 1 + b2n x.hasComponentType + b2n x.hasBSID + b2n x.hasMainID + b2n x.hasASVC + x.additionalInfo.length < 256) : BodyFits d :=
  (body_fits_ac3_iff d x ht hx).2 hfit

theorem bodySize_avc_video (d : Descriptor) (x : DescriptorAVCVideo) (ht : d.tag = descriptorTagAVCVideo) (hx : d.avcVideo = some x) :
    bodySize d = 4 := by
  sel_kind ht hx

/-- `AVCVideo`: fixed size 4, no condition at all -/
theorem body_fits_avc_video (d : Descriptor) (x : DescriptorAVCVideo) (ht : d.tag = descriptorTagAVCVideo) (hx : d.avcVideo = some x) :
    BodyFits d := by
  rw [body_fits_iff, bodySize_avc_video d x ht hx]; decide

theorem bodySize_component (d : Descriptor) (x : DescriptorComponent) (ht : d.tag = descriptorTagComponent) (hx : d.component = some x) :
    bodySize d = componentSize x := by
  sel_kind ht hx

/-- exactness: for a `Component` descriptor the guard is necessary and sufficient -/
theorem body_fits_component_iff (d : Descriptor) (x : DescriptorComponent) (ht : d.tag = descriptorTagComponent) (hx : d.component = some x) :
    BodyFits d ↔ 6 + x.text.length < 256 := by
  rw [body_fits_iff, bodySize_component d x ht hx]; unfold componentSize; omega

theorem body_fits_component (d : Descriptor) (x : DescriptorComponent) (ht : d.tag = descriptorTagComponent) (hx : d.component = some x)
    (hfit : 6 + x.text.length < 256) : BodyFits d :=
  (body_fits_component_iff d x ht hx).2 hfit

theorem bodySize_content (d : Descriptor) (x : DescriptorContent) (ht : d.tag = descriptorTagContent) (hx : d.content = some x) :
    bodySize d = contentSize x := by
  sel_kind ht hx

/-- exactness: for a `Content` descriptor the guard is necessary and sufficient -/
theorem body_fits_content_iff (d : Descriptor) (x : DescriptorContent) (ht : d.tag = descriptorTagContent) (hx : d.content = some x) :
    BodyFits d ↔ 2 * x.items.length < 256 := by
  rw [body_fits_iff, bodySize_content d x ht hx]; unfold contentSize; omega

theorem body_fits_content (d : Descriptor) (x : DescriptorContent) (ht : d.tag = descriptorTagContent) (hx : d.content = some x)
    (hfit : 2 * x.items.length < 256) : BodyFits d :=
  (body_fits_content_iff d x ht hx).2 hfit

theorem bodySize_data_stream_alignment (d : Descriptor) (x : DescriptorDataStreamAlignment) (ht : d.tag = descriptorTagDataStreamAlignment) (hx : d.dataStreamAlignment = some x) :
    bodySize d = 1 := by
  sel_kind ht hx

/-- `DataStreamAlignment`: fixed size 1, no condition at all -/
theorem body_fits_data_stream_alignment (d : Descriptor) (x : DescriptorDataStreamAlignment) (ht : d.tag = descriptorTagDataStreamAlignment) (hx : d.dataStreamAlignment = some x) :
    BodyFits d := by
  rw [body_fits_iff, bodySize_data_stream_alignment d x ht hx]; decide

theorem bodySize_enhanced_ac3 (d : Descriptor) (x : DescriptorEnhancedAC3) (ht : d.tag = descriptorTagEnhancedAC3) (hx : d.enhancedAC3 = some x) :
    bodySize d = enhancedAC3Size x := by
  sel_kind ht hx

/-- exactness: for a `EnhancedAC3` descriptor the guard is necessary and sufficient -/
theorem body_fits_enhanced_ac3_iff (d : Descriptor) (x : DescriptorEnhancedAC3) (ht : d.tag = descriptorTagEnhancedAC3) (hx : d.enhancedAC3 = some x) :
    BodyFits d ↔ 1 + b2n x.hasComponentType + b2n x.hasBSID + b2n x.hasMainID + b2n x.hasASVC + b2n x.hasSubStream1 + b2n x.hasSubStream2 + b2n x.hasSubStream3 + x.additionalInfo.length < 256 := by
  rw [body_fits_iff, bodySize_enhanced_ac3 d x ht hx]; unfold enhancedAC3Size; omega

theorem body_fits_enhanced_ac3 (d : Descriptor) (x : DescriptorEnhancedAC3) (ht : d.tag = descriptorTagEnhancedAC3) (hx : d.enhancedAC3 = some x)
    (hfit : 1 + b2n x.hasComponentType + b2n x.hasBSID + b2n x.hasMainID + b2n x.hasASVC + b2n x.hasSubStream1 + b2n x.hasSubStream2 + b2n x.hasSubStream3 + x.additionalInfo.length < 256) : BodyFits d :=
  (body_fits_enhanced_ac3_iff d x ht hx).2 hfit

theorem bodySize_extended_event (d : Descriptor) (x : DescriptorExtendedEvent) (ht : d.tag = descriptorTagExtendedEvent) (hx : d.extendedEvent = some x) :
    bodySize d = extendedEventSize x := by
  sel_kind ht hx

/-- exactness: for a `ExtendedEvent` descriptor the guard is necessary and sufficient -/
theorem body_fits_extended_event_iff (d : Descriptor) (x : DescriptorExtendedEvent) (ht : d.tag = descriptorTagExtendedEvent) (hx : d.extendedEvent = some x) :
    BodyFits d ↔ 6 + extendedEventItemsSize x.items + x.text.length < 256 := by
  rw [body_fits_iff, bodySize_extended_event d x ht hx]; unfold extendedEventSize; omega

theorem body_fits_extended_event (d : Descriptor) (x : DescriptorExtendedEvent) (ht : d.tag = descriptorTagExtendedEvent) (hx : d.extendedEvent = some x)
    (hfit : 6 + extendedEventItemsSize x.items + x.text.length < 256) : BodyFits d :=
  (body_fits_extended_event_iff d x ht hx).2 hfit

theorem bodySize_extension (d : Descriptor) (x : DescriptorExtension) (ht : d.tag = descriptorTagExtension) (hx : d.extension = some x) :
    bodySize d = extensionSize x := by
  sel_kind ht hx

/-- exactness: for a `Extension` descriptor the guard is necessary and sufficient -/
theorem body_fits_extension_iff (d : Descriptor) (x : DescriptorExtension) (ht : d.tag = descriptorTagExtension) (hx : d.extension = some x) :
    BodyFits d ↔ extensionSize x < 256 := by
  rw [body_fits_iff, bodySize_extension d x ht hx]

/-- NOTE: this is a statement about the model's bytes. With extension tag 6 and a nil `SupplementaryAudio` the model
emits the single extension-tag byte (size 1, so the lengths agree) where Go panics after writing that byte
(`writeDescriptorPanics`); `TypedFits.extension` excludes that value, and
`body_fits_extension_supplementary_audio` / `body_fits_extension_unknown` give the guards on the fields. -/
theorem body_fits_extension (d : Descriptor) (x : DescriptorExtension) (ht : d.tag = descriptorTagExtension) (hx : d.extension = some x)
    (hfit : extensionSize x < 256) : BodyFits d :=
  (body_fits_extension_iff d x ht hx).2 hfit

theorem bodySize_iso639_language_and_audio_type (d : Descriptor) (x : DescriptorISO639LanguageAndAudioType) (ht : d.tag = descriptorTagISO639LanguageAndAudioType) (hx : d.iso639LanguageAndAudioType = some x) :
    bodySize d = 4 := by
  sel_kind ht hx

/-- `ISO639LanguageAndAudioType`: fixed size 4, no condition at all -/
theorem body_fits_iso639_language_and_audio_type (d : Descriptor) (x : DescriptorISO639LanguageAndAudioType) (ht : d.tag = descriptorTagISO639LanguageAndAudioType) (hx : d.iso639LanguageAndAudioType = some x) :
    BodyFits d := by
  rw [body_fits_iff, bodySize_iso639_language_and_audio_type d x ht hx]; decide

theorem bodySize_local_time_offset (d : Descriptor) (x : DescriptorLocalTimeOffset) (ht : d.tag = descriptorTagLocalTimeOffset) (hx : d.localTimeOffset = some x) :
    bodySize d = localTimeOffsetSize x := by
  sel_kind ht hx

/-- exactness: for a `LocalTimeOffset` descriptor the guard is necessary and sufficient -/
theorem body_fits_local_time_offset_iff (d : Descriptor) (x : DescriptorLocalTimeOffset) (ht : d.tag = descriptorTagLocalTimeOffset) (hx : d.localTimeOffset = some x) :
    BodyFits d ↔ 13 * x.items.length < 256 := by
  rw [body_fits_iff, bodySize_local_time_offset d x ht hx]; unfold localTimeOffsetSize; omega

theorem body_fits_local_time_offset (d : Descriptor) (x : DescriptorLocalTimeOffset) (ht : d.tag = descriptorTagLocalTimeOffset) (hx : d.localTimeOffset = some x)
    (hfit : 13 * x.items.length < 256) : BodyFits d :=
  (body_fits_local_time_offset_iff d x ht hx).2 hfit

theorem bodySize_maximum_bitrate (d : Descriptor) (x : DescriptorMaximumBitrate) (ht : d.tag = descriptorTagMaximumBitrate) (hx : d.maximumBitrate = some x) :
    bodySize d = 3 := by
  sel_kind ht hx

/-- `MaximumBitrate`: fixed size 3, no condition at all -/
theorem body_fits_maximum_bitrate (d : Descriptor) (x : DescriptorMaximumBitrate) (ht : d.tag = descriptorTagMaximumBitrate) (hx : d.maximumBitrate = some x) :
    BodyFits d := by
  rw [body_fits_iff, bodySize_maximum_bitrate d x ht hx]; decide

theorem bodySize_network_name (d : Descriptor) (x : DescriptorNetworkName) (ht : d.tag = descriptorTagNetworkName) (hx : d.networkName = some x) :
    bodySize d = networkNameSize x := by
  sel_kind ht hx

/-- exactness: for a `NetworkName` descriptor the guard is necessary and sufficient -/
theorem body_fits_network_name_iff (d : Descriptor) (x : DescriptorNetworkName) (ht : d.tag = descriptorTagNetworkName) (hx : d.networkName = some x) :
    BodyFits d ↔ x.name.length < 256 := by
  rw [body_fits_iff, bodySize_network_name d x ht hx]; unfold networkNameSize; omega

theorem body_fits_network_name (d : Descriptor) (x : DescriptorNetworkName) (ht : d.tag = descriptorTagNetworkName) (hx : d.networkName = some x)
    (hfit : x.name.length < 256) : BodyFits d :=
  (body_fits_network_name_iff d x ht hx).2 hfit

theorem bodySize_parental_rating (d : Descriptor) (x : DescriptorParentalRating) (ht : d.tag = descriptorTagParentalRating) (hx : d.parentalRating = some x) :
    bodySize d = parentalRatingSize x := by
  sel_kind ht hx

/-- exactness: for a `ParentalRating` descriptor the guard is necessary and sufficient -/
theorem body_fits_parental_rating_iff (d : Descriptor) (x : DescriptorParentalRating) (ht : d.tag = descriptorTagParentalRating) (hx : d.parentalRating = some x) :
    BodyFits d ↔ 4 * x.items.length < 256 := by
  rw [body_fits_iff, bodySize_parental_rating d x ht hx]; unfold parentalRatingSize; omega

theorem body_fits_parental_rating (d : Descriptor) (x : DescriptorParentalRating) (ht : d.tag = descriptorTagParentalRating) (hx : d.parentalRating = some x)
    (hfit : 4 * x.items.length < 256) : BodyFits d :=
  (body_fits_parental_rating_iff d x ht hx).2 hfit

theorem bodySize_private_data_indicator (d : Descriptor) (x : DescriptorPrivateDataIndicator) (ht : d.tag = descriptorTagPrivateDataIndicator) (hx : d.privateDataIndicator = some x) :
    bodySize d = 4 := by
  sel_kind ht hx

/-- `PrivateDataIndicator`: fixed size 4, no condition at all -/
theorem body_fits_private_data_indicator (d : Descriptor) (x : DescriptorPrivateDataIndicator) (ht : d.tag = descriptorTagPrivateDataIndicator) (hx : d.privateDataIndicator = some x) :
    BodyFits d := by
  rw [body_fits_iff, bodySize_private_data_indicator d x ht hx]; decide

theorem bodySize_private_data_specifier (d : Descriptor) (x : DescriptorPrivateDataSpecifier) (ht : d.tag = descriptorTagPrivateDataSpecifier) (hx : d.privateDataSpecifier = some x) :
    bodySize d = 4 := by
  sel_kind ht hx

/-- `PrivateDataSpecifier`: fixed size 4, no condition at all -/
theorem body_fits_private_data_specifier (d : Descriptor) (x : DescriptorPrivateDataSpecifier) (ht : d.tag = descriptorTagPrivateDataSpecifier) (hx : d.privateDataSpecifier = some x) :
    BodyFits d := by
  rw [body_fits_iff, bodySize_private_data_specifier d x ht hx]; decide

theorem bodySize_registration (d : Descriptor) (x : DescriptorRegistration) (ht : d.tag = descriptorTagRegistration) (hx : d.registration = some x) :
    bodySize d = registrationSize x := by
  sel_kind ht hx

/-- exactness: for a `Registration` descriptor the guard is necessary and sufficient -/
theorem body_fits_registration_iff (d : Descriptor) (x : DescriptorRegistration) (ht : d.tag = descriptorTagRegistration) (hx : d.registration = some x) :
    BodyFits d ↔ 4 + x.additionalIdentificationInfo.length < 256 := by
  rw [body_fits_iff, bodySize_registration d x ht hx]; unfold registrationSize; omega

theorem body_fits_registration (d : Descriptor) (x : DescriptorRegistration) (ht : d.tag = descriptorTagRegistration) (hx : d.registration = some x)
    (hfit : 4 + x.additionalIdentificationInfo.length < 256) : BodyFits d :=
  (body_fits_registration_iff d x ht hx).2 hfit

theorem bodySize_service (d : Descriptor) (x : DescriptorService) (ht : d.tag = descriptorTagService) (hx : d.service = some x) :
    bodySize d = serviceSize x := by
  sel_kind ht hx

/-- exactness: for a `Service` descriptor the guard is necessary and sufficient -/
theorem body_fits_service_iff (d : Descriptor) (x : DescriptorService) (ht : d.tag = descriptorTagService) (hx : d.service = some x) :
    BodyFits d ↔ 3 + x.name.length + x.provider.length < 256 := by
  rw [body_fits_iff, bodySize_service d x ht hx]; unfold serviceSize; omega

theorem body_fits_service (d : Descriptor) (x : DescriptorService) (ht : d.tag = descriptorTagService) (hx : d.service = some x)
    (hfit : 3 + x.name.length + x.provider.length < 256) : BodyFits d :=
  (body_fits_service_iff d x ht hx).2 hfit

theorem bodySize_short_event (d : Descriptor) (x : DescriptorShortEvent) (ht : d.tag = descriptorTagShortEvent) (hx : d.shortEvent = some x) :
    bodySize d = shortEventSize x := by
  sel_kind ht hx

/-- exactness: for a `ShortEvent` descriptor the guard is necessary and sufficient -/
theorem body_fits_short_event_iff (d : Descriptor) (x : DescriptorShortEvent) (ht : d.tag = descriptorTagShortEvent) (hx : d.shortEvent = some x) :
    BodyFits d ↔ 5 + x.eventName.length + x.text.length < 256 := by
  rw [body_fits_iff, bodySize_short_event d x ht hx]; unfold shortEventSize; omega

theorem body_fits_short_event (d : Descriptor) (x : DescriptorShortEvent) (ht : d.tag = descriptorTagShortEvent) (hx : d.shortEvent = some x)
    (hfit : 5 + x.eventName.length + x.text.length < 256) : BodyFits d :=
  (body_fits_short_event_iff d x ht hx).2 hfit

theorem bodySize_stream_identifier (d : Descriptor) (x : DescriptorStreamIdentifier) (ht : d.tag = descriptorTagStreamIdentifier) (hx : d.streamIdentifier = some x) :
    bodySize d = 1 := by
  sel_kind ht hx

/-- `StreamIdentifier`: fixed size 1, no condition at all -/
theorem body_fits_stream_identifier (d : Descriptor) (x : DescriptorStreamIdentifier) (ht : d.tag = descriptorTagStreamIdentifier) (hx : d.streamIdentifier = some x) :
    BodyFits d := by
  rw [body_fits_iff, bodySize_stream_identifier d x ht hx]; decide

theorem bodySize_subtitling (d : Descriptor) (x : DescriptorSubtitling) (ht : d.tag = descriptorTagSubtitling) (hx : d.subtitling = some x) :
    bodySize d = subtitlingSize x := by
  sel_kind ht hx

/-- exactness: for a `Subtitling` descriptor the guard is necessary and sufficient -/
theorem body_fits_subtitling_iff (d : Descriptor) (x : DescriptorSubtitling) (ht : d.tag = descriptorTagSubtitling) (hx : d.subtitling = some x) :
    BodyFits d ↔ 8 * x.items.length < 256 := by
  rw [body_fits_iff, bodySize_subtitling d x ht hx]; unfold subtitlingSize; omega

theorem body_fits_subtitling (d : Descriptor) (x : DescriptorSubtitling) (ht : d.tag = descriptorTagSubtitling) (hx : d.subtitling = some x)
    (hfit : 8 * x.items.length < 256) : BodyFits d :=
  (body_fits_subtitling_iff d x ht hx).2 hfit

theorem bodySize_teletext (d : Descriptor) (x : DescriptorTeletext) (ht : d.tag = descriptorTagTeletext) (hx : d.teletext = some x) :
    bodySize d = teletextSize x := by
  sel_kind ht hx

/-- exactness: for a `Teletext` descriptor the guard is necessary and sufficient -/
theorem body_fits_teletext_iff (d : Descriptor) (x : DescriptorTeletext) (ht : d.tag = descriptorTagTeletext) (hx : d.teletext = some x) :
    BodyFits d ↔ 5 * x.items.length < 256 := by
  rw [body_fits_iff, bodySize_teletext d x ht hx]; unfold teletextSize; omega

theorem body_fits_teletext (d : Descriptor) (x : DescriptorTeletext) (ht : d.tag = descriptorTagTeletext) (hx : d.teletext = some x)
    (hfit : 5 * x.items.length < 256) : BodyFits d :=
  (body_fits_teletext_iff d x ht hx).2 hfit

theorem bodySize_vbi_data (d : Descriptor) (x : DescriptorVBIData) (ht : d.tag = descriptorTagVBIData) (hx : d.vbiData = some x) :
    bodySize d = vbiDataSize x := by
  sel_kind ht hx

/-- exactness: for a `VBIData` descriptor the guard is necessary and sufficient -/
theorem body_fits_vbi_data_iff (d : Descriptor) (x : DescriptorVBIData) (ht : d.tag = descriptorTagVBIData) (hx : d.vbiData = some x) :
    BodyFits d ↔ vbiDataServicesSize x.services < 256 := by
  rw [body_fits_iff, bodySize_vbi_data d x ht hx]; unfold vbiDataSize; omega

theorem body_fits_vbi_data (d : Descriptor) (x : DescriptorVBIData) (ht : d.tag = descriptorTagVBIData) (hx : d.vbiData = some x)
    (hfit : vbiDataServicesSize x.services < 256) : BodyFits d :=
  (body_fits_vbi_data_iff d x ht hx).2 hfit

theorem bodySize_vbi_teletext (d : Descriptor) (x : DescriptorTeletext) (ht : d.tag = descriptorTagVBITeletext) (hx : d.vbiTeletext = some x) :
    bodySize d = teletextSize x := by
  sel_kind ht hx

/-- exactness: for a `VBITeletext` descriptor the guard is necessary and sufficient -/
theorem body_fits_vbi_teletext_iff (d : Descriptor) (x : DescriptorTeletext) (ht : d.tag = descriptorTagVBITeletext) (hx : d.vbiTeletext = some x) :
    BodyFits d ↔ 5 * x.items.length < 256 := by
  rw [body_fits_iff, bodySize_vbi_teletext d x ht hx]; unfold teletextSize; omega

theorem body_fits_vbi_teletext (d : Descriptor) (x : DescriptorTeletext) (ht : d.tag = descriptorTagVBITeletext) (hx : d.vbiTeletext = some x)
    (hfit : 5 * x.items.length < 256) : BodyFits d :=
  (body_fits_vbi_teletext_iff d x ht hx).2 hfit

/-- extension descriptor carrying supplementary audio (extension tag 6), guard in terms of the fields -/
theorem body_fits_extension_supplementary_audio (d : Descriptor) (e : DescriptorExtension)
    (s : DescriptorExtensionSupplementaryAudio) (ht : d.tag = descriptorTagExtension) (hx : d.extension = some e)
    (he : e.tag = descriptorTagExtensionSupplementaryAudio) (hs : e.supplementaryAudio = some s)
    (hfit : 2 + (if s.hasLanguageCode then 3 else 0) + s.privateData.length < 256) : BodyFits d := by
  apply body_fits_extension d e ht hx
  simp only [extensionSize, he, hs, nilOr, calcDescriptorExtensionSupplementaryAudioLength, if_true]
  omega

/-- extension descriptor with any other extension tag: the raw bytes -/
theorem body_fits_extension_unknown (d : Descriptor) (e : DescriptorExtension) (b : Bytes)
    (ht : d.tag = descriptorTagExtension) (hx : d.extension = some e)
    (he : e.tag ≠ descriptorTagExtensionSupplementaryAudio) (hu : e.unknown = some b)
    (hfit : 1 + b.length < 256) : BodyFits d := by
  apply body_fits_extension d e ht hx
  simp only [extensionSize, he, hu, nilOr, if_false]
  exact hfit

/-- the default branch of the `switch`: a tag that is neither user-defined nor one of the 23 typed tags -/
theorem bodySize_unknown (d : Descriptor) (x : DescriptorUnknown) (hu : isUserDefinedTag d.tag = false)
    (hk : d.tag ∉ knownDescriptorTags) (hx : d.unknown = some x) : bodySize d = x.content.length := by
  simp only [knownDescriptorTags, List.mem_cons, List.not_mem_nil, or_false, not_or] at hk
  obtain ⟨h1, h2, h3, h4, h5, h6, h7, h8, h9, h10, h11, h12, h13, h14, h15, h16, h17, h18, h19, h20, h21, h22, h23⟩ := hk
  simp [bodySize, hu, hx, nilOr, unknownSize, *]

theorem body_fits_unknown_iff (d : Descriptor) (x : DescriptorUnknown) (hu : isUserDefinedTag d.tag = false)
    (hk : d.tag ∉ knownDescriptorTags) (hx : d.unknown = some x) : BodyFits d ↔ x.content.length < 256 := by
  rw [body_fits_iff, bodySize_unknown d x hu hk hx]

theorem body_fits_unknown (d : Descriptor) (x : DescriptorUnknown) (hu : isUserDefinedTag d.tag = false)
    (hk : d.tag ∉ knownDescriptorTags) (hx : d.unknown = some x) (hfit : x.content.length < 256) : BodyFits d :=
  (body_fits_unknown_iff d x hu hk hx).2 hfit

/-! ### summary -/

/-- the typed kinds with their guards: one constructor per kind (a 24-way disjunction) -/
inductive TypedFits (d : Descriptor) : Prop
  | ac3 (x : DescriptorAC3) (ht : d.tag = descriptorTagAC3) (hx : d.ac3 = some x)
      (hfit : 1 + b2n x.hasComponentType + b2n x.hasBSID + b2n x.hasMainID + b2n x.hasASVC + x.additionalInfo.length < 256)
  | avc_video (x : DescriptorAVCVideo) (ht : d.tag = descriptorTagAVCVideo) (hx : d.avcVideo = some x)
  | component (x : DescriptorComponent) (ht : d.tag = descriptorTagComponent) (hx : d.component = some x)
      (hfit : 6 + x.text.length < 256)
  | content (x : DescriptorContent) (ht : d.tag = descriptorTagContent) (hx : d.content = some x)
      (hfit : 2 * x.items.length < 256)
  | data_stream_alignment (x : DescriptorDataStreamAlignment) (ht : d.tag = descriptorTagDataStreamAlignment) (hx : d.dataStreamAlignment = some x)
  | enhanced_ac3 (x : DescriptorEnhancedAC3) (ht : d.tag = descriptorTagEnhancedAC3) (hx : d.enhancedAC3 = some x)
      (hfit : 1 + b2n x.hasComponentType + b2n x.hasBSID + b2n x.hasMainID + b2n x.hasASVC + b2n x.hasSubStream1 + b2n x.hasSubStream2 + b2n x.hasSubStream3 + x.additionalInfo.length < 256)
  | extended_event (x : DescriptorExtendedEvent) (ht : d.tag = descriptorTagExtendedEvent) (hx : d.extendedEvent = some x)
      (hfit : 6 + extendedEventItemsSize x.items + x.text.length < 256)
  | extension (x : DescriptorExtension) (ht : d.tag = descriptorTagExtension) (hx : d.extension = some x)
      (hfit : extensionSize x < 256) (hnp : writeDescriptorPanics d = false)
  | iso639_language_and_audio_type (x : DescriptorISO639LanguageAndAudioType) (ht : d.tag = descriptorTagISO639LanguageAndAudioType) (hx : d.iso639LanguageAndAudioType = some x)
  | local_time_offset (x : DescriptorLocalTimeOffset) (ht : d.tag = descriptorTagLocalTimeOffset) (hx : d.localTimeOffset = some x)
      (hfit : 13 * x.items.length < 256)
  | maximum_bitrate (x : DescriptorMaximumBitrate) (ht : d.tag = descriptorTagMaximumBitrate) (hx : d.maximumBitrate = some x)
  | network_name (x : DescriptorNetworkName) (ht : d.tag = descriptorTagNetworkName) (hx : d.networkName = some x)
      (hfit : x.name.length < 256)
  | parental_rating (x : DescriptorParentalRating) (ht : d.tag = descriptorTagParentalRating) (hx : d.parentalRating = some x)
      (hfit : 4 * x.items.length < 256)
  | private_data_indicator (x : DescriptorPrivateDataIndicator) (ht : d.tag = descriptorTagPrivateDataIndicator) (hx : d.privateDataIndicator = some x)
  | private_data_specifier (x : DescriptorPrivateDataSpecifier) (ht : d.tag = descriptorTagPrivateDataSpecifier) (hx : d.privateDataSpecifier = some x)
  | registration (x : DescriptorRegistration) (ht : d.tag = descriptorTagRegistration) (hx : d.registration = some x)
      (hfit : 4 + x.additionalIdentificationInfo.length < 256)
  | service (x : DescriptorService) (ht : d.tag = descriptorTagService) (hx : d.service = some x)
      (hfit : 3 + x.name.length + x.provider.length < 256)
  | short_event (x : DescriptorShortEvent) (ht : d.tag = descriptorTagShortEvent) (hx : d.shortEvent = some x)
      (hfit : 5 + x.eventName.length + x.text.length < 256)
  | stream_identifier (x : DescriptorStreamIdentifier) (ht : d.tag = descriptorTagStreamIdentifier) (hx : d.streamIdentifier = some x)
  | subtitling (x : DescriptorSubtitling) (ht : d.tag = descriptorTagSubtitling) (hx : d.subtitling = some x)
      (hfit : 8 * x.items.length < 256)
  | teletext (x : DescriptorTeletext) (ht : d.tag = descriptorTagTeletext) (hx : d.teletext = some x)
      (hfit : 5 * x.items.length < 256)
  | vbi_data (x : DescriptorVBIData) (ht : d.tag = descriptorTagVBIData) (hx : d.vbiData = some x)
      (hfit : vbiDataServicesSize x.services < 256)
  | vbi_teletext (x : DescriptorTeletext) (ht : d.tag = descriptorTagVBITeletext) (hx : d.vbiTeletext = some x)
      (hfit : 5 * x.items.length < 256)
  | unknown (x : DescriptorUnknown) (hu : isUserDefinedTag d.tag = false) (hk : d.tag ∉ knownDescriptorTags)
      (hx : d.unknown = some x) (hfit : x.content.length < 256)

/-- **C14 for the typed kinds**: every typed descriptor whose body fits 255 bytes announces exactly its body -/
theorem body_fits_typed (d : Descriptor) (h : TypedFits d) : BodyFits d := by
  cases h with
  | ac3 x ht hx hfit => exact body_fits_ac3 d x ht hx hfit
  | avc_video x ht hx => exact body_fits_avc_video d x ht hx
  | component x ht hx hfit => exact body_fits_component d x ht hx hfit
  | content x ht hx hfit => exact body_fits_content d x ht hx hfit
  | data_stream_alignment x ht hx => exact body_fits_data_stream_alignment d x ht hx
  | enhanced_ac3 x ht hx hfit => exact body_fits_enhanced_ac3 d x ht hx hfit
  | extended_event x ht hx hfit => exact body_fits_extended_event d x ht hx hfit
  | extension x ht hx hfit _ => exact body_fits_extension d x ht hx hfit
  | iso639_language_and_audio_type x ht hx => exact body_fits_iso639_language_and_audio_type d x ht hx
  | local_time_offset x ht hx hfit => exact body_fits_local_time_offset d x ht hx hfit
  | maximum_bitrate x ht hx => exact body_fits_maximum_bitrate d x ht hx
  | network_name x ht hx hfit => exact body_fits_network_name d x ht hx hfit
  | parental_rating x ht hx hfit => exact body_fits_parental_rating d x ht hx hfit
  | private_data_indicator x ht hx => exact body_fits_private_data_indicator d x ht hx
  | private_data_specifier x ht hx => exact body_fits_private_data_specifier d x ht hx
  | registration x ht hx hfit => exact body_fits_registration d x ht hx hfit
  | service x ht hx hfit => exact body_fits_service d x ht hx hfit
  | short_event x ht hx hfit => exact body_fits_short_event d x ht hx hfit
  | stream_identifier x ht hx => exact body_fits_stream_identifier d x ht hx
  | subtitling x ht hx hfit => exact body_fits_subtitling d x ht hx hfit
  | teletext x ht hx hfit => exact body_fits_teletext d x ht hx hfit
  | vbi_data x ht hx hfit => exact body_fits_vbi_data d x ht hx hfit
  | vbi_teletext x ht hx hfit => exact body_fits_vbi_teletext d x ht hx hfit
  | unknown x hu hk hx hfit => exact body_fits_unknown d x hu hk hx hfit

/-- and so the bytes on the wire: tag, the length of the body, the body -/
theorem typed_length_matches (d : Descriptor) (h : TypedFits d) :
    (writeDescriptor d).length = 2 + (descriptorBody d).length ∧
    (writeDescriptor d).getD 1 0 = (descriptorBody d).length := by
  have hb := body_fits_typed d h
  have hm := length_matches d hb
  have hlt : bodySize d < 256 := (body_fits_iff d).1 hb
  unfold BodyFits at hb
  rw [hb]
  refine ⟨hm.1, ?_⟩
  rw [hm.2.1, calc_length]
  omega


/-! ### non-vacuity: one concrete, non-trivial descriptor per kind satisfying the hypotheses, and the bytes written -/

example : BodyFits { tag := 0x6a, ac3 := some { hasBSID := true, bsid := 8, hasASVC := true, asvc := 1, additionalInfo := [1, 2] } } :=
  body_fits_ac3 _ _ rfl rfl (by decide)
example : writeDescriptor { tag := 0x6a, ac3 := some { hasBSID := true, bsid := 8, hasASVC := true, asvc := 1, additionalInfo := [1, 2] } }
    = [0x6a, 5, 0x5f, 8, 1, 1, 2] := by decide
example : BodyFits { tag := 0x28, avcVideo := some { profileIDC := 100, levelIDC := 40, constraintSet1Flag := true, compatibleFlags := 3 } } :=
  body_fits_avc_video _ _ rfl rfl
example : writeDescriptor { tag := 0x28, avcVideo := some { profileIDC := 100, levelIDC := 40, constraintSet1Flag := true, compatibleFlags := 3 } }
    = [0x28, 4, 100, 0x43, 40, 0x3f] := by decide
example : BodyFits { tag := 0x50, component := some { streamContent := 1, componentType := 3, componentTag := 7, iso639LanguageCode := [0x65, 0x6e, 0x67], text := [0x41, 0x42] } } :=
  body_fits_component _ _ rfl rfl (by decide)
/-- a language code of the wrong length still gives a correct length byte (`WriteBytesN` pads / cuts) -/
example : writeDescriptor { tag := 0x50, component := some { streamContent := 1, componentType := 3, componentTag := 7, iso639LanguageCode := [0x65], text := [0x41, 0x42] } }
    = [0x50, 8, 0x01, 3, 7, 0x65, 0, 0, 0x41, 0x42] := by decide
example : BodyFits { tag := 0x54, content := some { items := [{ contentNibbleLevel1 := 1, contentNibbleLevel2 := 2, userByte := 3 }, { contentNibbleLevel1 := 4 }] } } :=
  body_fits_content _ _ rfl rfl (by decide)
example : writeDescriptor { tag := 0x54, content := some { items := [{ contentNibbleLevel1 := 1, contentNibbleLevel2 := 2, userByte := 3 }, { contentNibbleLevel1 := 4 }] } }
    = [0x54, 4, 0x12, 3, 0x40, 0] := by decide
example : BodyFits { tag := 0x06, dataStreamAlignment := some { type := 2 } } :=
  body_fits_data_stream_alignment _ _ rfl rfl
example : BodyFits { tag := 0x7a, enhancedAC3 := some { hasComponentType := true, componentType := 9, hasSubStream2 := true, subStream2 := 5, mixInfoExists := true, additionalInfo := [0xaa] } } :=
  body_fits_enhanced_ac3 _ _ rfl rfl (by decide)
example : writeDescriptor { tag := 0x7a, enhancedAC3 := some { hasComponentType := true, componentType := 9, hasSubStream2 := true, subStream2 := 5, mixInfoExists := true, additionalInfo := [0xaa] } }
    = [0x7a, 4, 0x8a, 9, 5, 0xaa] := by decide
example : BodyFits { tag := 0x4e, extendedEvent := some { number := 1, lastDescriptorNumber := 2, iso639LanguageCode := [0x65, 0x6e, 0x67], items := [{ description := [1, 2], content := [3] }, { description := [], content := [4, 5] }], text := [6, 7, 8] } } :=
  body_fits_extended_event _ _ rfl rfl (by decide)
example : writeDescriptor { tag := 0x4e, extendedEvent := some { number := 1, lastDescriptorNumber := 2, iso639LanguageCode := [0x65, 0x6e, 0x67], items := [{ description := [1, 2], content := [3] }, { description := [], content := [4, 5] }], text := [6, 7, 8] } }
    = [0x4e, 18, 0x12, 0x65, 0x6e, 0x67, 9, 2, 1, 2, 1, 3, 0, 2, 4, 5, 3, 6, 7, 8] := by decide
example : BodyFits { tag := 0x7f, extension := some { tag := 6, supplementaryAudio := some { mixType := true, editorialClassification := 2, hasLanguageCode := true, languageCode := [0x65, 0x6e, 0x67], privateData := [9] } } } :=
  body_fits_extension_supplementary_audio _ _ _ rfl rfl rfl rfl (by decide)
example : writeDescriptor { tag := 0x7f, extension := some { tag := 6, supplementaryAudio := some { mixType := true, editorialClassification := 2, hasLanguageCode := true, languageCode := [0x65, 0x6e, 0x67], privateData := [9] } } }
    = [0x7f, 6, 6, 0x8b, 0x65, 0x6e, 0x67, 9] := by decide
example : BodyFits { tag := 0x7f, extension := some { tag := 0x20, unknown := some [1, 2, 3] } } :=
  body_fits_extension_unknown _ _ _ rfl rfl (by decide) rfl (by decide)
example : BodyFits { tag := 0x0a, iso639LanguageAndAudioType := some { language := [0x66, 0x72, 0x61], type := 1 } } :=
  body_fits_iso639_language_and_audio_type _ _ rfl rfl
example : BodyFits { tag := 0x58, localTimeOffset := some { items := [{ countryCode := [0x46, 0x52, 0x41], countryRegionID := 1, localTimeOffset := 3600000000000, timeOfChange := 1000000000, nextTimeOffset := 7200000000000 }] } } :=
  body_fits_local_time_offset _ _ rfl rfl (by decide)
example : BodyFits { tag := 0x0e, maximumBitrate := some { bitrate := 5000000 } } :=
  body_fits_maximum_bitrate _ _ rfl rfl
example : writeDescriptor { tag := 0x0e, maximumBitrate := some { bitrate := 5000000 } } = [0x0e, 3, 0xc1, 0x86, 0xa0] := by decide
example : BodyFits { tag := 0x40, networkName := some { name := [0x6e, 0x65, 0x74] } } :=
  body_fits_network_name _ _ rfl rfl (by decide)
example : BodyFits { tag := 0x55, parentalRating := some { items := [{ countryCode := [0x46, 0x52, 0x41], rating := 4 }, { countryCode := [0x47, 0x42, 0x52], rating := 9 }] } } :=
  body_fits_parental_rating _ _ rfl rfl (by decide)
example : BodyFits { tag := 0x0f, privateDataIndicator := some { indicator := 0x01020304 } } :=
  body_fits_private_data_indicator _ _ rfl rfl
example : BodyFits { tag := 0x5f, privateDataSpecifier := some { specifier := 0x28 } } :=
  body_fits_private_data_specifier _ _ rfl rfl
example : BodyFits { tag := 0x05, registration := some { formatIdentifier := 0x48444d56, additionalIdentificationInfo := [1, 2] } } :=
  body_fits_registration _ _ rfl rfl (by decide)
example : writeDescriptor { tag := 0x05, registration := some { formatIdentifier := 0x48444d56, additionalIdentificationInfo := [1, 2] } }
    = [0x05, 6, 0x48, 0x44, 0x4d, 0x56, 1, 2] := by decide
example : BodyFits { tag := 0x48, service := some { type := 1, provider := [0x70, 0x72], name := [0x6e, 0x61, 0x6d] } } :=
  body_fits_service _ _ rfl rfl (by decide)
example : writeDescriptor { tag := 0x48, service := some { type := 1, provider := [0x70, 0x72], name := [0x6e, 0x61, 0x6d] } }
    = [0x48, 8, 1, 2, 0x70, 0x72, 3, 0x6e, 0x61, 0x6d] := by decide
example : BodyFits { tag := 0x4d, shortEvent := some { language := [0x65, 0x6e, 0x67], eventName := [1, 2], text := [3] } } :=
  body_fits_short_event _ _ rfl rfl (by decide)
example : BodyFits { tag := 0x52, streamIdentifier := some { componentTag := 7 } } :=
  body_fits_stream_identifier _ _ rfl rfl
example : BodyFits { tag := 0x59, subtitling := some { items := [{ language := [0x65, 0x6e, 0x67], type := 0x10, compositionPageID := 1, ancillaryPageID := 0x1234 }] } } :=
  body_fits_subtitling _ _ rfl rfl (by decide)
example : writeDescriptor { tag := 0x59, subtitling := some { items := [{ language := [0x65, 0x6e, 0x67], type := 0x10, compositionPageID := 1, ancillaryPageID := 0x1234 }] } }
    = [0x59, 8, 0x65, 0x6e, 0x67, 0x10, 0, 1, 0x12, 0x34] := by decide
example : BodyFits { tag := 0x56, teletext := some { items := [{ language := [0x65, 0x6e, 0x67], type := 2, magazine := 1, page := 88 }] } } :=
  body_fits_teletext _ _ rfl rfl (by decide)
example : writeDescriptor { tag := 0x56, teletext := some { items := [{ language := [0x65, 0x6e, 0x67], type := 2, magazine := 1, page := 88 }] } }
    = [0x56, 5, 0x65, 0x6e, 0x67, 0x11, 0x88] := by decide
example : BodyFits { tag := 0x45, vbiData := some { services := [{ dataServiceID := 1, descriptors := [{ fieldParity := true, lineOffset := 7 }, { lineOffset := 8 }] }, { dataServiceID := 3, descriptors := [] }] } } :=
  body_fits_vbi_data _ _ rfl rfl (by decide)
/-- a known service with two lines (4 bytes) and an unknown service id (3 bytes: id, 1, 0xff): 7, not `3 * 2` -/
example : writeDescriptor { tag := 0x45, vbiData := some { services := [{ dataServiceID := 1, descriptors := [{ fieldParity := true, lineOffset := 7 }, { lineOffset := 8 }] }, { dataServiceID := 3, descriptors := [] }] } }
    = [0x45, 7, 1, 2, 0xe7, 0xc8, 3, 1, 0xff] := by decide
example : BodyFits { tag := 0x46, vbiTeletext := some { items := [{ language := [0x65, 0x6e, 0x67], type := 1, magazine := 0, page := 0 }, { language := [0x66, 0x72, 0x61] }] } } :=
  body_fits_vbi_teletext _ _ rfl rfl (by decide)
example : BodyFits { tag := 0x13, unknown := some { tag := 0x13, content := [1, 2, 3, 4] } } :=
  body_fits_unknown _ _ rfl (by decide) rfl (by decide)
example : TypedFits { tag := 0x7f, extension := some { tag := 0x20, unknown := some [1, 2, 3] } } :=
  .extension _ rfl rfl (by decide) rfl
example : TypedFits { tag := 0x48, service := some { type := 1, provider := [0x70, 0x72], name := [0x6e, 0x61, 0x6d] } } :=
  .service _ rfl rfl (by decide)
/-- a typed tag whose sub-struct is nil: length 0, no body (covered by `body_fits_iff`) -/
example : BodyFits { tag := 0x48 } := (body_fits_iff _).2 (by decide)
/-- the guard is needed: a 256-byte network name is announced with length 0 while 256 bytes are the body -/
example : calcDescriptorLength { tag := 0x40, networkName := some { name := List.replicate 256 0x41 } } = 0 ∧
    (descriptorBody { tag := 0x40, networkName := some { name := List.replicate 256 0x41 } }).length = 256 := by
  decide +kernel

end Typed

end Astits.C14
