/-
C09 — tables are delivered only with a valid CRC_32; muxed sections carry a valid one.
-/
import Astits.Props.C10
import Astits.Proofs.CRCBurst
import Astits.Proofs.CRCInj
import Astits.Model.PSI
import Astits.Generated.Exprs
import Astits.Proofs.PSIVerdict
namespace Astits.C09

/-- the LFSR step maps non-zero registers to non-zero registers (the generator polynomial is odd) -/
theorem crcBit_ne_zero (c : BitVec 32) (h : c ≠ 0#32) : crcBit c ≠ 0#32 := by
  unfold crcBit
  intro hz
  by_cases hm : c.msb = true
  · simp only [hm, if_true] at hz
    -- (c <<< 1) has bit 0 clear, the polynomial has it set
    have : ((c <<< 1) ^^^ 0x04C11DB7#32).getLsbD 0 = true := by
      simp [BitVec.getLsbD_xor, BitVec.getLsbD_shiftLeft]
    rw [hz] at this
    simp at this
  · simp only [hm] at hz
    simp only [Bool.false_eq_true, if_false] at hz
    -- msb clear and c <<< 1 = 0 force c = 0
    apply h
    apply BitVec.eq_of_getLsbD_eq
    intro i hi
    by_cases h31 : i = 31
    · subst h31
      have : c.msb = false := by simpa using hm
      simpa [BitVec.msb_eq_getLsbD_last] using this
    · have := congrArg (fun x => x.getLsbD (i + 1)) hz
      simp only [BitVec.getLsbD_shiftLeft, BitVec.getLsbD_zero] at this
      have hlt : i + 1 < 32 := by omega
      simpa [hlt] using this

/-- a section the muxer writes ends with the CRC_32 of everything before it: the reference decoder's check
(residue 0, C10) accepts it -/
theorem written_section_has_valid_crc (s : PSISection) (bs : Bytes) (h : writePSISection s = .ok bs)
    (hl : (s.header.getD {}).sectionLength > 0) :
    ∃ pre, bs = pre ++ be32 (computeCRC32 pre) ∧ computeCRC32 bs = 0#32 := by
  unfold writePSISection at h
  split at h
  · cases h
  · rename_i hd heq
    split at h
    · cases h
    · split at h
      · cases h
      · split at h
        · split at h
          · cases h
          · simp only [heq, Option.getD_some] at hl
            simp only [hl, if_true, Res.ok.injEq] at h
            subst h
            exact ⟨_, rfl, C10.residue_zero _⟩
        · cases h

/-- tie: which table ids carry a CRC_32 / a syntax header / stop the parsing — the Go predicates of today -/
theorem generated_hasCRC32 : ∀ t : Fin 256, Generated.hasCRC32 t.val = hasCRC32 t.val := by decide +kernel
theorem generated_hasPSISyntaxHeader : ∀ t : Fin 256, Generated.hasPSISyntaxHeader t.val = hasPSISyntaxHeader t.val := by
  decide +kernel
theorem generated_shouldStop : ∀ t : Fin 256, Generated.shouldStopPSIParsing t.val = shouldStopPSIParsing t.val := by
  decide +kernel

/-- the six decoded table families (PAT, PMT, NIT, SDT, EIT, TOT) are exactly the ids that carry a CRC_32 -/
theorem crc_tables : ∀ t : Fin 256, hasCRC32 t.val =
    (t.val == 0 || t.val == 2 || t.val == 0x73 || t.val == 0x40 || t.val == 0x41 || t.val == 0x42 || t.val == 0x46
      || decide (0x4e ≤ t.val ∧ t.val ≤ 0x6f)) := by decide +kernel

/-! #### burst detection -/

/-- the byte-wise reference CRC is the bit-serial register run over the message bits, MSB first -/
theorem crcFrom_bits (c : BitVec 32) (bs : Bytes) :
    Spec.crcFrom c bs = feedBits c (bs.flatMap Spec.bitsOfByte) := by
  induction bs generalizing c with
  | nil => rfl
  | cons b r ih =>
    simp only [Spec.crcFrom, List.foldl_cons, List.flatMap_cons, feedBits, List.foldl_append] at *
    exact ih _

/-- **any corruption confined to at most 32 consecutive bits changes the CRC register**, whatever the message, its
length, the position of the burst and the initial register: with `m` the original bits and `e` the error pattern
(zeros, a one, up to 31 arbitrary bits, zeros) -/
theorem burst32_detected (c : BitVec 32) (m : List Bool) (a t : Nat) (b : List Bool) (hb : b.length ≤ 31)
    (hlen : m.length = a + (b.length + 1) + t) :
    feedBits c (xorBits m (List.replicate a false ++ (true :: b) ++ List.replicate t false)) ≠ feedBits c m := by
  have hx := feedBits_xor c 0#32 m (List.replicate a false ++ (true :: b) ++ List.replicate t false)
    (by simp [hlen]; omega)
  rw [BitVec.xor_zero] at hx
  rw [hx]
  intro h
  have hz : feedBits 0#32 (List.replicate a false ++ (true :: b) ++ List.replicate t false) = 0#32 := by
    have := congrArg (fun x => feedBits c m ^^^ x) h
    simp only [← BitVec.xor_assoc, BitVec.xor_self, BitVec.zero_xor] at this
    exact this
  exact burst_nonzero a t b hb hz

/-- in particular every single-bit error is detected -/
theorem single_bit_detected (c : BitVec 32) (m : List Bool) (a t : Nat) (hlen : m.length = a + 1 + t) :
    feedBits c (xorBits m (List.replicate a false ++ [true] ++ List.replicate t false)) ≠ feedBits c m :=
  burst32_detected c m a t [] (by simp) (by simpa using hlen)

/-- a section accepted by the CRC check has residue 0 over [table_id … CRC_32]; so a valid section hit by a burst of
at most 32 bits anywhere in that range (CRC field included) has a non-zero residue and is rejected -/
theorem accepted_has_zero_residue (body : Bytes) (stored : BitVec 32) (h : computeCRC32 body = stored) :
    computeCRC32 (body ++ be32 stored) = 0#32 := by
  rw [← h]; exact C10.residue_zero body

theorem corrupted_section_rejected (sec : List Bool) (a t : Nat) (b : List Bool) (hb : b.length ≤ 31)
    (hlen : sec.length = a + (b.length + 1) + t) (hvalid : feedBits 0xFFFFFFFF#32 sec = 0#32) :
    feedBits 0xFFFFFFFF#32 (xorBits sec (List.replicate a false ++ (true :: b) ++ List.replicate t false)) ≠ 0#32 := by
  have := burst32_detected 0xFFFFFFFF#32 sec a t b hb hlen
  rw [hvalid] at this
  exact this

/-! #### nothing that follows a damaged prefix can mask the damage

The table-driven step of the code is a bijection of the register for every input byte (no hypothesis on the byte:
the Go code and the model reduce it mod 256), so the checksum of `p ++ s` and of `p' ++ s` agree exactly when those of
`p` and `p'` do — for prefixes of ANY two lengths.  Together with `burst32_detected` (which settles the register right
after the damaged bits) this is why the position of a burst inside a section does not matter. -/

/-- one table-driven step is injective in the register, whatever the byte -/
theorem crcStep_inj (c d : BitVec 32) (b : Nat) (h : crcStep c b = crcStep d b) : c = d := by
  rw [C10.crcStep_mod c b, C10.crcStep_mod d b,
    C10.step_eq_spec c _ (Nat.mod_lt _ (by decide)), C10.step_eq_spec d _ (Nat.mod_lt _ (by decide))] at h
  exact feedByte_inj _ _ _ h

/-- running the code's checksum update over the same bytes from two registers gives the same result only when the
registers were equal -/
theorem update_inj (c d : BitVec 32) (bs : Bytes) (h : updateCRC32 c bs = updateCRC32 d bs) : c = d := by
  induction bs generalizing c d with
  | nil => exact h
  | cons b r ih =>
    simp only [updateCRC32, List.foldl_cons] at h ih
    exact crcStep_inj _ _ b (ih _ _ h)

/-- **a common suffix never masks a difference**: for any two prefixes (of any lengths) and any suffix, the checksums
of `p ++ s` and `p' ++ s` are equal iff those of `p` and `p'` are -/
theorem suffix_never_masks (p p' s : Bytes) :
    computeCRC32 (p ++ s) = computeCRC32 (p' ++ s) ↔ computeCRC32 p = computeCRC32 p' := by
  unfold computeCRC32
  rw [C10.update_append, C10.update_append]
  exact ⟨update_inj _ _ s, fun h => by rw [h]⟩

/-- a section with residue 0 whose leading part is replaced by bytes (more, fewer or as many) with a different
checksum is rejected: its residue is not 0 -/
theorem damaged_prefix_rejected (p p' s : Bytes) (hvalid : computeCRC32 (p ++ s) = 0#32)
    (hdiff : computeCRC32 p' ≠ computeCRC32 p) : computeCRC32 (p' ++ s) ≠ 0#32 := by
  intro h
  exact hdiff ((suffix_never_masks p' p s).mp (h.trans hvalid.symm))

/-- the stored CRC_32 determines the checksum of the body: two bodies followed by the SAME four CRC bytes cannot both
be accepted unless their checksums agree -/
theorem same_crc_field_same_checksum (b b' : Bytes) (stored : BitVec 32)
    (h : computeCRC32 (b ++ be32 stored) = 0#32) (h' : computeCRC32 (b' ++ be32 stored) = 0#32) :
    computeCRC32 b = computeCRC32 b' :=
  (suffix_never_masks b b' (be32 stored)).mp (h.trans h'.symm)

/-- for a fixed register the step is injective in the input byte (mod 256) -/
theorem crcStep_byte_inj (c : BitVec 32) (x y : Nat) (h : crcStep c x = crcStep c y) : x % 256 = y % 256 := by
  unfold crcStep crcTableEntry at h
  have h1 := crcBits8_inj _ _ ((BitVec.xor_right_inj _).mp h)
  have h2 := shl24_inj _ _ (idx_lt _) (idx_lt _) h1
  have h3 := congrArg BitVec.toNat h2
  simp only [BitVec.toNat_and, BitVec.toNat_xor, BitVec.toNat_ofNat] at h3
  have h255 : 255 % 2 ^ 32 = 2 ^ 8 - 1 := by decide
  rw [h255, Nat.and_two_pow_sub_one_eq_mod, Nat.and_two_pow_sub_one_eq_mod, Nat.xor_mod_two_pow,
    Nat.xor_mod_two_pow (b := y % 2 ^ 32)] at h3
  have h4 := congrArg (fun v => (c >>> 24).toNat % 2 ^ 8 ^^^ v) h3
  simp only [← Nat.xor_assoc, Nat.xor_self, Nat.zero_xor] at h4
  omega

/-- **replacing one byte by a different one always changes the checksum**, wherever the byte sits and whatever
precedes and follows it -/
theorem byte_substitution_detected (p s : Bytes) (x y : Nat) (hxy : x % 256 ≠ y % 256) :
    computeCRC32 (p ++ x :: s) ≠ computeCRC32 (p ++ y :: s) := by
  intro h
  unfold computeCRC32 at h
  rw [C10.update_append, C10.update_append] at h
  simp only [updateCRC32, List.foldl_cons] at h
  exact hxy (crcStep_byte_inj _ x y (update_inj _ _ s h))

/-- so a section with residue 0 in which any single byte — header, body or CRC field — is replaced by a different
value is rejected -/
theorem byte_substitution_rejected (p s : Bytes) (x y : Nat) (hxy : x % 256 ≠ y % 256)
    (hvalid : computeCRC32 (p ++ x :: s) = 0#32) : computeCRC32 (p ++ y :: s) ≠ 0#32 := by
  intro h
  exact byte_substitution_detected p s x y hxy (hvalid.trans h.symm)

example : computeCRC32 ([0x12] ++ 0x34 :: be32 (computeCRC32 [0x12, 0x34])) = 0#32 ∧ 0x34 % 256 ≠ 0xb4 % 256 := by
  decide +kernel

/-- **any change confined to at most four consecutive bytes changes the checksum** — the byte-level form of
`burst32_detected`, stated on the code's table-driven checksum: `w` and `w'` are the old and new contents of the
window (same length ≤ 4), `p` and `s` what precedes and follows -/
theorem window4_detected (p s w w' : Bytes) (hl : w.length = w'.length) (h4 : w.length ≤ 4)
    (hw : ∀ b ∈ w, b < 256) (hw' : ∀ b ∈ w', b < 256) (hne : w ≠ w') :
    computeCRC32 (p ++ w ++ s) ≠ computeCRC32 (p ++ w' ++ s) := by
  intro h
  unfold computeCRC32 at h
  rw [C10.update_append, C10.update_append, C10.update_append, C10.update_append] at h
  have h1 := update_inj _ _ s h
  rw [C10.update_eq_spec _ w hw, C10.update_eq_spec _ w' hw', crcFrom_bits, crcFrom_bits] at h1
  have := feedBits_window_inj _ _ _ (by rw [flatBits_length, flatBits_length, hl])
    (by rw [flatBits_length]; omega) h1
  exact hne (flatBits_inj w w' hl hw hw' this)

theorem window4_rejected (p s w w' : Bytes) (hl : w.length = w'.length) (h4 : w.length ≤ 4)
    (hw : ∀ b ∈ w, b < 256) (hw' : ∀ b ∈ w', b < 256) (hne : w ≠ w')
    (hvalid : computeCRC32 (p ++ w ++ s) = 0#32) : computeCRC32 (p ++ w' ++ s) ≠ 0#32 := by
  intro h
  exact window4_detected p s w w' hl h4 hw hw' hne (hvalid.trans h.symm)

example : computeCRC32 ([0x12] ++ [0x34, 0x56] ++ be32 (computeCRC32 [0x12, 0x34, 0x56])) = 0#32 ∧
    ([0x34, 0x56] : Bytes) ≠ [0x56, 0x34] := by decide +kernel

theorem be32_eq (c : BitVec 32) :
    be32 c = [c.toNat / 16777216 % 256, c.toNat / 65536 % 256, c.toNat / 256 % 256, c.toNat % 256] := by
  simp [be32, beBytes]

theorem be32_lt (c : BitVec 32) : ∀ b ∈ be32 c, b < 256 := by
  intro b hb
  rw [be32_eq] at hb
  simp only [List.mem_cons, List.not_mem_nil, or_false] at hb
  omega

theorem be32_inj (c d : BitVec 32) (h : be32 c = be32 d) : c = d := by
  rw [be32_eq, be32_eq] at h
  simp only [List.cons.injEq, and_true] at h
  apply BitVec.eq_of_toNat_eq
  have := c.isLt
  have := d.isLt
  omega

/-- **residue test = compare test**: a body followed by four CRC bytes has residue 0 exactly when those bytes are
the body's checksum.  (`←` is `C10.residue_zero`; `→` is the 4-byte window theorem applied to the CRC field.)  So the
Go parser's verdict — compare the stored value with the computed one — accepts exactly the units a residue-checking
decoder accepts. -/
theorem residue_zero_iff (m : Bytes) (stored : BitVec 32) :
    computeCRC32 (m ++ be32 stored) = 0#32 ↔ stored = computeCRC32 m := by
  constructor
  · intro h
    apply Decidable.byContradiction
    intro hne
    have hw : be32 stored ≠ be32 (computeCRC32 m) := fun e => hne (be32_inj _ _ e)
    have := window4_rejected m [] (be32 (computeCRC32 m)) (be32 stored) (by rw [be32_eq, be32_eq]; rfl)
      (by rw [be32_eq]; exact Nat.le_refl 4) (be32_lt _) (be32_lt _) (fun e => hw e.symm)
      (by rw [List.append_nil]; exact C10.residue_zero m)
    rw [List.append_nil] at this
    exact this h
  · intro h
    rw [h]; exact C10.residue_zero m

/-- the four CRC bytes determine the checksum and vice versa: two units with the same body are both accepted only
with the same CRC field -/
theorem accepted_crc_field_unique (m : Bytes) (x y : BitVec 32)
    (hx : computeCRC32 (m ++ be32 x) = 0#32) (hy : computeCRC32 (m ++ be32 y) = 0#32) : x = y := by
  rw [(residue_zero_iff m x).mp hx, (residue_zero_iff m y).mp hy]

/-- different messages of the same length ≤ 4 never share a checksum (the window theorem with nothing around it) -/
theorem short_messages_distinct (w w' : Bytes) (hl : w.length = w'.length) (h4 : w.length ≤ 4)
    (hw : ∀ b ∈ w, b < 256) (hw' : ∀ b ∈ w', b < 256) (hne : w ≠ w') : computeCRC32 w ≠ computeCRC32 w' := by
  have := window4_detected [] [] w w' hl h4 hw hw' hne
  simpa using this

-- the premises are satisfiable and the conclusion is not trivial: a valid 2+4-byte unit, a different prefix
example : computeCRC32 ([0x12, 0x34] ++ be32 (computeCRC32 [0x12, 0x34])) = 0#32 ∧
    computeCRC32 [0x12, 0x35, 0x00] ≠ computeCRC32 [0x12, 0x34] := by decide +kernel

example : crcBit 0x80000000#32 = 0x04C11DB7#32 := by decide
example : xorBits [true, false, true] [false, true, true] = [true, true, false] := by decide

/-! ## The PARSER's verdict is the CRC verdict (proofs: `Astits/Proofs/PSIVerdict.lean`)

Vocabulary (all in `Astits.PSIVerdict`):
* `slice bs a n` — the `n` bytes of `bs` from position `a`;
* `secStart d k` — start offset of the `k`-th returned section, computed from the RESULT `d`:
  `1 + pointer_field + Σ_{j<k} (3 + section_length_j)`;
* `hdrAt payload start` — the section header decoded from the three bytes at `start`;
* `CRCValidOn payload start sl` — the byte range `[start, start+3+sl)` lies in the payload and the CRC_32 of its first
  `sl - 1` bytes (table_id … last byte before the CRC field) equals the big-endian value of its last four bytes;
* `Corrupted p p' a b t` — `p'` has bytes < 256 like `p` and, bit for bit (MSB first), is `p` XOR the pattern
  `a` zeros, a one, the bits `b`, `t` zeros (`burst a b t`). -/

open PSIVerdict (slice secStart hdrAt CRCValidOn Corrupted bits burst)

/-- **V1 — a CRC mismatch is never delivered.**  For ANY payload bytes: if `parsePSIData` succeeds, every returned
section whose table id carries a CRC_32 and whose section_length is not 0 (a) has its header decoded from the three
bytes at its start offset, (b) lies inside the payload, (c) stores as `crc32` the big-endian value of the last four
bytes of its byte range, and (d) that value IS `computeCRC32` of exactly the bytes of the section before the CRC
field.  No hypothesis on the payload: whatever else the bytes contain (overrunning descriptor loops, nested
lengths pointing anywhere), the parser cannot return such a section whose bytes fail the check.

The premise `sectionLength > 0` is necessary: see `empty_crc_section_is_delivered_unchecked` below. -/
theorem crc_mismatch_never_delivered (payload : Bytes) (d : PSIData) (h : parsePSIData.val payload = .ok d)
    (k : Nat) (s : PSISection) (hk : d.sections[k]? = some s)
    (hd : PSISectionHeader) (hh : s.header = some hd) (hcrc : hasCRC32 hd.tableID = true) (hsl : hd.sectionLength > 0) :
    hd = hdrAt payload (secStart d k) ∧
    secStart d k + 3 + hd.sectionLength ≤ payload.length ∧
    s.crc32 = beNat (slice payload (secStart d k + hd.sectionLength - 1) 4) ∧
    (computeCRC32 (slice payload (secStart d k) (hd.sectionLength - 1))).toNat = s.crc32 :=
  PSIVerdict.delivered_section_crc payload d h k s hk hd hh hcrc hsl

/-- the loop invariant behind V1, for the whole result: pointer field, location of every section, where the list
ends (input exhausted, or a stop section: stuffing 0xff / unknown table id) -/
theorem parsePSIData_sections_located (payload : Bytes) (d : PSIData) (h : parsePSIData.val payload = .ok d) :
    1 ≤ payload.length ∧ d.pointerField = payload.getD 0 0 ∧
    PSIVerdict.SectionsAt payload (1 + payload.getD 0 0) d.sections :=
  PSIVerdict.parsePSIData_spec payload d h

/-- **V1 at the demuxer's interface**: every `DemuxerData` produced from a PSI payload (`psiToData`, Go
`PSIData.toData`) comes from a section with a CRC-carrying table id, a non-zero section_length and a VALID CRC_32 on
its byte range.  Sections with section_length 0 — never checked — contribute nothing. -/
theorem delivered_data_crc_valid (payload : Bytes) (d : PSIData) (h : parsePSIData.val payload = .ok d)
    (fp : Packet) (pid : Nat) (x : DemuxerData) (hx : x ∈ psiToData d fp pid) :
    ∃ k s hd, d.sections[k]? = some s ∧ s.header = some hd ∧ hasCRC32 hd.tableID = true ∧ hd.sectionLength > 0 ∧
      CRCValidOn payload (secStart d k) hd.sectionLength :=
  PSIVerdict.delivered_data_crc_valid payload d h fp pid x hx

/-- the burst-detection fact of this file in the shape `PSIVerdict` composes with -/
theorem detects : PSIVerdict.Detects :=
  fun sec a t b hb hlen hvalid => corrupted_section_rejected sec a t b hb hlen hvalid

/-- **V2, general form — composition of V1 with `burst32_detected`.**  `payload` parses to `d`; its `k`-th section `s`
carries a CRC and has a body; `payload'` is `payload` hit by a non-zero error pattern confined to at most 32
consecutive bits lying anywhere inside the byte range `[secStart, secStart + 3 + section_length)` of that section —
table_id, section_length and CRC field included.  Then, if `payload'` parses at all, NO CRC-carrying section of the
result occupies that byte range (same start offset and same section_length): the parser returns an error, or
sections among which none is the old section, nor any other CRC-checked section on those bytes.

What is NOT claimed (and is false, see the examples below): that an error is always returned.  If the burst hits
table_id it can turn the section into a table without CRC (e.g. PAT 0x00 → ST 0x72: same range, no check); if it hits
section_length the boundaries move (e.g. section_length → 0: header-only section, delivered unchecked). -/
theorem corrupted_section_not_redelivered {payload payload' : Bytes} {a t : Nat} {b : List Bool}
    (hc : Corrupted payload payload' a b t) (hb : b.length ≤ 31)
    (d : PSIData) (h : parsePSIData.val payload = .ok d)
    (k : Nat) (s : PSISection) (hk : d.sections[k]? = some s)
    (hd : PSISectionHeader) (hh : s.header = some hd) (hcrc : hasCRC32 hd.tableID = true) (hsl : hd.sectionLength > 0)
    (h1 : 8 * secStart d k ≤ a) (h2 : a + (b.length + 1) ≤ 8 * (secStart d k + 3 + hd.sectionLength))
    (d' : PSIData) (h' : parsePSIData.val payload' = .ok d') :
    ¬ ∃ k' s' hd', d'.sections[k']? = some s' ∧ s'.header = some hd' ∧ hasCRC32 hd'.tableID = true ∧
        secStart d' k' = secStart d k ∧ hd'.sectionLength = hd.sectionLength := by
  rintro ⟨k', s', hd', hk', hh', hcrc', hstart, hlen⟩
  exact PSIVerdict.corrupted_range_not_delivered detects hc hb d h k s hk hd hh hcrc hsl h1 h2 d' h' k' s' hk' hd' hh'
    hcrc' hstart hlen

/-- in particular the old section itself is not returned at its place -/
theorem corrupted_section_itself_not_redelivered {payload payload' : Bytes} {a t : Nat} {b : List Bool}
    (hc : Corrupted payload payload' a b t) (hb : b.length ≤ 31)
    (d : PSIData) (h : parsePSIData.val payload = .ok d)
    (k : Nat) (s : PSISection) (hk : d.sections[k]? = some s)
    (hd : PSISectionHeader) (hh : s.header = some hd) (hcrc : hasCRC32 hd.tableID = true) (hsl : hd.sectionLength > 0)
    (h1 : 8 * secStart d k ≤ a) (h2 : a + (b.length + 1) ≤ 8 * (secStart d k + 3 + hd.sectionLength))
    (d' : PSIData) (h' : parsePSIData.val payload' = .ok d') (k' : Nat) (hst : secStart d' k' = secStart d k) :
    d'.sections[k']? ≠ some s := by
  intro hk'
  exact corrupted_section_not_redelivered hc hb d h k s hk hd hh hcrc hsl h1 h2 d' h'
    ⟨k', s, hd, hk', hh, hcrc, hst, rfl⟩

/-- **V2, table_id and section_length untouched.**  If the burst lies inside the section but behind its three
header bytes (anywhere in the body or the CRC field), `parsePSIData` on the corrupted payload returns an ERROR — not
a panic, not a result: nothing of the payload is delivered.  (No assumption on the sections before the corrupted
one: they may read past their own end into the corrupted bytes; whatever they then decode, the loop still reaches
the corrupted section at the same offset, and its CRC check fails.) -/
theorem corrupted_body_is_error {payload payload' : Bytes} {a t : Nat} {b : List Bool}
    (hc : Corrupted payload payload' a b t) (hb : b.length ≤ 31)
    (d : PSIData) (h : parsePSIData.val payload = .ok d)
    (k : Nat) (s : PSISection) (hk : d.sections[k]? = some s)
    (hd : PSISectionHeader) (hh : s.header = some hd) (hcrc : hasCRC32 hd.tableID = true) (hsl : hd.sectionLength > 0)
    (h1 : 8 * (secStart d k + 3) ≤ a) (h2 : a + (b.length + 1) ≤ 8 * (secStart d k + 3 + hd.sectionLength)) :
    ∃ e, parsePSIData.val payload' = .err e :=
  PSIVerdict.corrupted_body_rejected detects hc hb d h k s hk hd hh hcrc hsl h1 h2

/-! ### non-vacuity and the excluded points, evaluated on the model -/

/-- the PAT the muxer writes (version 1, one program → PMT PID 0x1000), with pointer field: 17 bytes -/
def patPayload : Bytes := [0, 0, 176, 13, 0, 0, 195, 0, 0, 0, 1, 240, 0, 239, 190, 8, 90]

/-- a compact view of a parse result: per section (table id, section_length, has syntax, stored CRC) -/
def view (r : Res PSIData) : Option (List (Nat × Nat × Bool × Nat)) :=
  match r with
  | .ok d => some (d.sections.map fun s => ((s.header.getD {}).tableID, (s.header.getD {}).sectionLength, s.syn.isSome, s.crc32))
  | _ => none
def isErr (r : Res PSIData) : Bool := match r with | .err _ => true | _ => false

/-- V1's hypotheses are satisfiable: the PAT parses, section 0 carries a CRC, has section_length 13, starts at 1 -/
example : view (parsePSIData.val patPayload) = some [(0, 13, true, 4022208602)] := by decide +kernel
example : (computeCRC32 (slice patPayload 1 12)).toNat = 4022208602 ∧ beNat (slice patPayload 13 4) = 4022208602 := by
  decide +kernel

/-- body hit (byte 10 XOR 0x81: an 8-bit burst at bit 80): `Corrupted` holds, the burst is behind the header bytes
and inside the section, and the model indeed returns an error -/
def patBodyHit : Bytes := [0, 0, 176, 13, 0, 0, 195, 0, 0, 0, 128, 240, 0, 239, 190, 8, 90]
example : Corrupted patPayload patBodyHit 80 [false, false, false, false, false, false, true] 48 :=
  ⟨by decide, by decide, by decide, by decide +kernel⟩
example : 8 * (1 + 3) ≤ 80 ∧ 80 + (7 + 1) ≤ 8 * (1 + 3 + 13) := by decide
example : isErr (parsePSIData.val patBodyHit) = true := by decide +kernel

/-- EXCLUDED POINT 1 (premise `sectionLength > 0` of V1): a section with a CRC-carrying table id and
section_length 0 is returned WITHOUT any CRC check (Go: `if s.Header.SectionLength > 0 { … }`), with `crc32 = 0`
and no syntax part; `PSIData.toData` then skips it, so no `DemuxerData` results (`delivered_data_crc_valid`) -/
example : view (parsePSIData.val [0, 0x00, 0xB0, 0x00]) = some [(0, 0, false, 0)] := by decide +kernel
theorem empty_crc_section_is_delivered_unchecked :
    view (parsePSIData.val [0, 0x02, 0xB0, 0x00, 0xff]) = some [(2, 0, false, 0), (255, 0, false, 0)] := by
  decide +kernel

/-- EXCLUDED POINT 2 (V2 general form gives no error): table_id hit, PAT 0x00 → ST 0x72 (a 6-bit burst at bit 9).
The same byte range is returned as a table WITHOUT CRC, unchecked, with an empty syntax part: no error is reported.
(It is not a CRC-carrying section, as `corrupted_section_not_redelivered` says, and yields no `DemuxerData`.) -/
def patTableIDHit : Bytes := [0, 0x72, 176, 13, 0, 0, 195, 0, 0, 0, 1, 240, 0, 239, 190, 8, 90]
example : Corrupted patPayload patTableIDHit 9 [true, true, false, false, true] 121 :=
  ⟨by decide, by decide, by decide, by decide +kernel⟩
example : view (parsePSIData.val patTableIDHit) = some [(0x72, 13, true, 0)] := by decide +kernel

/-- EXCLUDED POINT 3: section_length hit, 13 → 0 (a 4-bit burst at bit 28) on a PAT whose transport_stream_id is
0xff00: the parser returns OK with a header-only PAT (never CRC-checked) followed by a "stuffing" stop section —
the corruption is not reported as an error; nothing of the PAT's content is delivered -/
def patFF : Bytes := [0, 0, 176, 13, 255, 0, 195, 0, 0, 0, 1, 240, 0, 61, 142, 250, 200]
def patFFLengthHit : Bytes := [0, 0, 176, 0, 255, 0, 195, 0, 0, 0, 1, 240, 0, 61, 142, 250, 200]
example : view (parsePSIData.val patFF) = some [(0, 13, true, 1032780488)] := by decide +kernel
example : Corrupted patFF patFFLengthHit 28 [true, false, true] 104 :=
  ⟨by decide, by decide, by decide, by decide +kernel⟩
example : view (parsePSIData.val patFFLengthHit) = some [(0, 0, false, 0), (255, 0, false, 0)] := by decide +kernel

end Astits.C09
