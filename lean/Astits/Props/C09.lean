/-
C09 — tables are delivered only with a valid CRC_32; muxed sections carry a valid one.
-/
import Astits.Props.C10
import Astits.Proofs.CRCBurst
import Astits.Model.PSI
import Astits.Generated.Exprs
namespace Astits.C09

/-- the LFSR step maps non-zero registers to non-zero registers (the generator polynomial is odd) -/
theorem crcBit_ne_zero (c : BitVec 32) (h : c ≠ 0#32) : crcBit c ≠ 0#32 := by
  unfold crcBit
  intro hz
  by_cases hm : c.msb = true
  · simp only [hm, if_true] at hz
    -- (c <<< 1) has bit 0 clear, the polynomial has it set
    have : ((c <<< 1) ^^^ 0x04C11DB7#32).getLsbD 0 = true := by
      simp [BitVec.getLsbD_xor, BitVec.getLsbD_shiftLeft]
    rw [hz] at this
    simp at this
  · simp only [hm] at hz
    simp only [Bool.false_eq_true, if_false] at hz
    -- msb clear and c <<< 1 = 0 force c = 0
    apply h
    apply BitVec.eq_of_getLsbD_eq
    intro i hi
    by_cases h31 : i = 31
    · subst h31
      have : c.msb = false := by simpa using hm
      simpa [BitVec.msb_eq_getLsbD_last] using this
    · have := congrArg (fun x => x.getLsbD (i + 1)) hz
      simp only [BitVec.getLsbD_shiftLeft, BitVec.getLsbD_zero] at this
      have hlt : i + 1 < 32 := by omega
      simpa [hlt] using this

/-- a section the muxer writes ends with the CRC_32 of everything before it: the reference decoder's check
(residue 0, C10) accepts it -/
theorem written_section_has_valid_crc (s : PSISection) (bs : Bytes) (h : writePSISection s = .ok bs)
    (hl : (s.header.getD {}).sectionLength > 0) :
    ∃ pre, bs = pre ++ be32 (computeCRC32 pre) ∧ computeCRC32 bs = 0#32 := by
  unfold writePSISection at h
  split at h
  · cases h
  · rename_i hd heq
    split at h
    · cases h
    · split at h
      · cases h
      · split at h
        · split at h
          · cases h
          · simp only [heq, Option.getD_some] at hl
            simp only [hl, if_true, Res.ok.injEq] at h
            subst h
            exact ⟨_, rfl, C10.residue_zero _⟩
        · cases h

/-- tie: which table ids carry a CRC_32 / a syntax header / stop the parsing — the Go predicates of today -/
theorem generated_hasCRC32 : ∀ t : Fin 256, Generated.hasCRC32 t.val = hasCRC32 t.val := by decide +kernel
theorem generated_hasPSISyntaxHeader : ∀ t : Fin 256, Generated.hasPSISyntaxHeader t.val = hasPSISyntaxHeader t.val := by
  decide +kernel
theorem generated_shouldStop : ∀ t : Fin 256, Generated.shouldStopPSIParsing t.val = shouldStopPSIParsing t.val := by
  decide +kernel

/-- the six decoded table families (PAT, PMT, NIT, SDT, EIT, TOT) are exactly the ids that carry a CRC_32 -/
theorem crc_tables : ∀ t : Fin 256, hasCRC32 t.val =
    (t.val == 0 || t.val == 2 || t.val == 0x73 || t.val == 0x40 || t.val == 0x41 || t.val == 0x42 || t.val == 0x46
      || decide (0x4e ≤ t.val ∧ t.val ≤ 0x6f)) := by decide +kernel

/-! #### burst detection -/

/-- the byte-wise reference CRC is the bit-serial register run over the message bits, MSB first -/
theorem crcFrom_bits (c : BitVec 32) (bs : Bytes) :
    Spec.crcFrom c bs = feedBits c (bs.flatMap Spec.bitsOfByte) := by
  induction bs generalizing c with
  | nil => rfl
  | cons b r ih =>
    simp only [Spec.crcFrom, List.foldl_cons, List.flatMap_cons, feedBits, List.foldl_append] at *
    exact ih _

/-- **any corruption confined to at most 32 consecutive bits changes the CRC register**, whatever the message, its
length, the position of the burst and the initial register: with `m` the original bits and `e` the error pattern
(zeros, a one, up to 31 arbitrary bits, zeros) -/
theorem burst32_detected (c : BitVec 32) (m : List Bool) (a t : Nat) (b : List Bool) (hb : b.length ≤ 31)
    (hlen : m.length = a + (b.length + 1) + t) :
    feedBits c (xorBits m (List.replicate a false ++ (true :: b) ++ List.replicate t false)) ≠ feedBits c m := by
  have hx := feedBits_xor c 0#32 m (List.replicate a false ++ (true :: b) ++ List.replicate t false)
    (by simp [hlen]; omega)
  rw [BitVec.xor_zero] at hx
  rw [hx]
  intro h
  have hz : feedBits 0#32 (List.replicate a false ++ (true :: b) ++ List.replicate t false) = 0#32 := by
    have := congrArg (fun x => feedBits c m ^^^ x) h
    simp only [← BitVec.xor_assoc, BitVec.xor_self, BitVec.zero_xor] at this
    exact this
  exact burst_nonzero a t b hb hz

/-- in particular every single-bit error is detected -/
theorem single_bit_detected (c : BitVec 32) (m : List Bool) (a t : Nat) (hlen : m.length = a + 1 + t) :
    feedBits c (xorBits m (List.replicate a false ++ [true] ++ List.replicate t false)) ≠ feedBits c m :=
  burst32_detected c m a t [] (by simp) (by simpa using hlen)

/-- a section accepted by the CRC check has residue 0 over [table_id … CRC_32]; so a valid section hit by a burst of
at most 32 bits anywhere in that range (CRC field included) has a non-zero residue and is rejected -/
theorem accepted_has_zero_residue (body : Bytes) (stored : BitVec 32) (h : computeCRC32 body = stored) :
    computeCRC32 (body ++ be32 stored) = 0#32 := by
  rw [← h]; exact C10.residue_zero body

theorem corrupted_section_rejected (sec : List Bool) (a t : Nat) (b : List Bool) (hb : b.length ≤ 31)
    (hlen : sec.length = a + (b.length + 1) + t) (hvalid : feedBits 0xFFFFFFFF#32 sec = 0#32) :
    feedBits 0xFFFFFFFF#32 (xorBits sec (List.replicate a false ++ (true :: b) ++ List.replicate t false)) ≠ 0#32 := by
  have := burst32_detected 0xFFFFFFFF#32 sec a t b hb hlen
  rw [hvalid] at this
  exact this

example : crcBit 0x80000000#32 = 0x04C11DB7#32 := by decide
example : xorBits [true, false, true] [false, true, true] = [true, true, false] := by decide

end Astits.C09
