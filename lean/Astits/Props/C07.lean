/-
C07 — what is delivered for a PID depends only on that PID's packets.
Pool-level theorems (fixed program map): the groups flushed for a PID and the queue left for it are a
function of that PID's packets only.
-/
import Astits.Proofs.Pool
import Astits.Generated.Facts
namespace Astits.C07

/-- packets with the transport error indicator, and packets without payload, are ignored -/
theorem poolAdd_ignores (pm : ProgramMap) (pool : Pool) (p : Packet)
    (h : p.header.transportErrorIndicator = true ∨ p.header.hasPayload = false) : poolAdd pm pool p = ([], pool) := by
  unfold poolAdd
  rcases h with h | h
  · simp [h]
  · by_cases ht : p.header.transportErrorIndicator = true <;> simp [h, ht]

/-- a packet never touches the queue of another PID -/
theorem poolAdd_other_pid (pm : ProgramMap) (pool : Pool) (p : Packet) (pid : Nat) (h : pid ≠ p.header.pid) :
    (poolAdd pm pool p).2.get pid = pool.get pid := by
  unfold poolAdd
  by_cases ht : p.header.transportErrorIndicator = true
  · simp [ht]
  · by_cases hp : p.header.hasPayload = true
    · simp [ht, hp, Pool.get_put_other _ _ _ _ h]
    · simp [ht, hp]

/-- what a packet flushes, and the queue it leaves for its PID, depend on the pool only through the queue
of that PID -/
theorem poolAdd_agree (pm : ProgramMap) (pool pool' : Pool) (p : Packet)
    (h : pool.get p.header.pid = pool'.get p.header.pid) :
    (poolAdd pm pool p).1 = (poolAdd pm pool' p).1 ∧
    (poolAdd pm pool p).2.get p.header.pid = (poolAdd pm pool' p).2.get p.header.pid := by
  unfold poolAdd
  by_cases ht : p.header.transportErrorIndicator = true
  · simp [ht, h]
  · by_cases hp : p.header.hasPayload = true
    · simp [ht, hp, h]
    · simp [ht, hp, h]

/-- the groups flushed by the packets of `pid` while the stream `s` is fed to the pool -/
def flushesOf (pm : ProgramMap) (pid : Nat) : Pool → List Packet → List (List Packet)
  | _, [] => []
  | pool, p :: r =>
    if p.header.pid = pid then (poolAdd pm pool p).1 :: flushesOf pm pid (poolAdd pm pool p).2 r
    else flushesOf pm pid (poolAdd pm pool p).2 r

def queueAfter (pm : ProgramMap) : Pool → List Packet → Pool
  | pool, [] => pool
  | pool, p :: r => queueAfter pm (poolAdd pm pool p).2 r

/-- **per-PID independence**: the flushes of a PID and the queue left for it are those of the stream
reduced to that PID's packets — whatever packets of other PIDs (null packets, other programs, garbage,
transport-error packets) are interleaved, and whatever the other queues hold -/
theorem per_pid (pm : ProgramMap) (pid : Nat) (s : List Packet) (pool pool' : Pool) (h : pool.get pid = pool'.get pid) :
    flushesOf pm pid pool s = flushesOf pm pid pool' (s.filter fun p => p.header.pid == pid) ∧
    (queueAfter pm pool s).get pid = (queueAfter pm pool' (s.filter fun p => p.header.pid == pid)).get pid := by
  induction s generalizing pool pool' with
  | nil => simp [flushesOf, queueAfter, h]
  | cons p r ih =>
    by_cases hp : p.header.pid = pid
    · subst hp
      have hag := poolAdd_agree pm pool pool' p h
      have := ih (poolAdd pm pool p).2 (poolAdd pm pool' p).2 hag.2
      simp [flushesOf, queueAfter, List.filter, hag.1, this.1, this.2]
    · have hne : pid ≠ p.header.pid := fun e => hp e.symm
      have h' : (poolAdd pm pool p).2.get pid = pool'.get pid := by
        rw [poolAdd_other_pid pm pool p pid hne, h]
      have := ih (poolAdd pm pool p).2 pool' h'
      have hb : (p.header.pid == pid) = false := by simp [hp]
      simp [flushesOf, queueAfter, List.filter, hp, hb, this.1, this.2]

/-- corollary: two streams with the same packets on `pid`, in the same order, flush the same groups for it -/
theorem same_pid_packets_same_flushes (pm : ProgramMap) (pid : Nat) (s s' : List Packet)
    (h : (s.filter fun p => p.header.pid == pid) = (s'.filter fun p => p.header.pid == pid)) :
    flushesOf pm pid [] s = flushesOf pm pid [] s' := by
  rw [(per_pid pm pid s [] [] rfl).1, (per_pid pm pid s' [] [] rfl).1, h]

/-- the only package-level STATE is the byte pool: of all package-level variables (`Generated.Facts.packageVars`,
informative: error sentinels, the CRC table, possibly other lookup tables) it is the only one that is ever written —
assigned (itself, an element, a field), has its address taken, is appended or copied to, has a pointer-receiver
method called on it, or (being of reference type) is handed to other code — anywhere outside its own declaration
(extract/tables.go, `varsWritten`).  A new read-only lookup table does not change this fact; a new variable that is
written does. -/
theorem package_state :
    Generated.Facts.packageVarsWritten = ["bytesPool"] := by decide

/-! ## C07 at the level of `Demux.NextData` — see `Astits/Props/C07NextData.lean`

The `NextData`-level theorems (namespace `Astits.C07` as well) cannot be stated in this file: this file is imported by
`Props/C02.lean`, hence by `Proofs/MuxDemux.lean` and `Proofs/MuxDemuxNext.lean`, on which their proofs
(`Proofs/PerPidData.lean`) rest — the import would be circular.  In `Props/C07NextData.lean`:

* `nextData_pid_function` — on any PID, a run of `NextData` calls to the end of the stream delivers
  `pidData pm₀ pid (s.filter (accepted pid))`, a function of the PID's accepted packets alone, provided that at every call
  the program map shows the PID the same bit as the reference map (`early`), or the PID is idle during the call;
* P1 `nextData_es_pid_function`, `nextData_es_pid_indep`, `nextData_es_pid_indep_of_pid_packets`,
  `nextData_es_pid_interleaved`, `nextData_es_pid_indep_all` — elementary-stream PIDs (`ESPid` at every call);
* P2 `pidOut_eq_okData`, `nextData_errors_other`, `ex_results_differ` — what is invariant and what is not;
* P3 `nextData_table_pid_function`, `nextData_table_pid_indep` — PMT PIDs, PAT delivered before the PID's first packet;
  `nextData_pat_indep` (PID 0, unconditional), `nextData_unlisted_pid_indep`; `ex_pmt_before_pat` — the excluded point. -/

end Astits.C07
