/-
Tie theorems for `Astits/Generated/Lengths.lean`: every length calculator (and the wrapping counter)
that /verif/extract translates statement by statement from /repo's *current* source is equal to the
function of the model that the properties C04, C05, C12, C13, C14 are proved about.

A change to one of these Go functions regenerates a different `Generated.Lengths.f`, and the theorem
`generated_f` below stops checking.

Shape of the statements (see the translation rules in the header of Generated/Lengths.lean):
* a Go function starting with `if d == nil { return 0 }` takes an `Option`; the model function takes the
  structure and is applied through `nilOr` at its call sites, so the tie is `Generated.f = nilOr Model.f`;
* Go `int` results are `Int` in the generated code; where the model uses `Nat` the tie casts the model side;
* `wrappingCounter.inc` assigns `c.value`: the generated function returns (final `c.value`, result).
* the model stores a Go `uint8` as a `Nat`; where a function inspects the BITS of such a field (the tag switch of
  `calcDescriptorLength`) the tie is stated for values in the range of the Go type (`d.tag < 256`), and so are the
  ties of the functions that call it on the elements of a list (`calcDescriptorsLength`, `calcPMTSectionLength`).

The proofs avoid following the shape of the generated code (which a behaviour-preserving refactoring of /repo
changes): accumulations are normalised by `simp only` with the model's definitions and closed by `len_arith`
(`omega` after pushing casts inwards), loops go through `foldl_add_*` whatever the loop body looks like, helper
functions that the Go code calls are inlined by the translator (a beta-redex that `simp only` reduces), and the tag
switch is checked tag by tag for all 256 tags.  A function of a few flags may also be a lookup in a table indexed by
the flags (the translator expands a read-only package-level table into a conditional chain over the index, after
showing that the index is in range): such a tie falls back to evaluating the function for every combination of the
flags; a field that is compared with constants (the PTS/DTS indicator) is split into the values that matter and the
rest (`ge4_*`), so that every test on it, however it is written, can be evaluated.
-/
import Astits.Generated.Lengths
import Astits.Model.Mux
import Astits.Props.TieTactics

set_option linter.unusedSimpArgs false

namespace Astits
namespace GeneratedLengths

/-! ### helper lemmas: accumulator steps, casts, loops -/

/-- `if c { x += y }` on an `int` accumulator -/
theorem ite_add_int (c : Prop) [Decidable c] (x y : Int) :
    (if c then x + y else x) = x + (if c then y else 0) := by
  split <;> simp

/-- `if c { x += k }` on a `uint8` accumulator -/
theorem ite_add_u8 (c : Prop) [Decidable c] (x k : Nat) (hx : x < 256) :
    (if c then (x + k) % 256 else x) = (x + (if c then k else 0)) % 256 := by
  split <;> omega

theorem mod_lt_256 (x : Nat) : (x % 256 < 256) = True := eq_true (Nat.mod_lt _ (by decide))
theorem zero_lt_256 : ((0 : Nat) < 256) = True := eq_true (by decide)
theorem ite_lt_256 (c : Prop) [Decidable c] (a b : Nat) (ha : a < 256) (hb : b < 256) :
    ((if c then a else b) < 256) = True := by
  split <;> simp [ha, hb]

theorem natCast_ite (c : Prop) [Decidable c] (a b : Nat) :
    ((if c then a else b : Nat) : Int) = if c then (a : Int) else (b : Int) := by
  split <;> rfl

/-- `uint8(len(x))`, `uint16(len(x))` -/
theorem toNat_cast_mod_256 (n : Nat) : ((n : Int) % 256).toNat = n % 256 := by omega
theorem toNat_cast_mod_65536 (n : Nat) : ((n : Int) % 65536).toNat = n % 65536 := by omega

/-- `for _, a := range xs { acc += g a }` on an `int` accumulator -/
theorem foldl_add_int {α} (f : Int → α → Int) (g : α → Nat) (h : ∀ acc a, f acc a = acc + (g a : Int))
    (xs : List α) (init : Int) : xs.foldl f init = init + ((xs.map g).sum : Nat) := by
  induction xs generalizing init with
  | nil => simp
  | cons a r ih => simp only [List.foldl_cons, List.map_cons, List.sum_cons, ih, h]; omega

/-- `for _, a := range xs { acc += g a }` on a `uintN` accumulator (`m = 2^N`) -/
theorem foldl_add_mod {α} (m : Nat) (f : Nat → α → Nat) (g : α → Nat)
    (h : ∀ acc a, f acc a = (acc + g a) % m) (xs : List α) (init : Nat) (hi : init < m) :
    xs.foldl f init = (init + (xs.map g).sum) % m := by
  induction xs generalizing init with
  | nil => simp [Nat.mod_eq_of_lt hi]
  | cons a r ih =>
    have hm : 0 < m := by omega
    simp only [List.foldl_cons, List.map_cons, List.sum_cons, h]
    rw [ih _ (Nat.mod_lt _ hm), Nat.mod_add_mod, Nat.add_assoc]

/-- the same when the step is only known for the elements of the list -/
theorem foldl_add_mod_mem {α} (m : Nat) (f : Nat → α → Nat) (g : α → Nat) (xs : List α)
    (h : ∀ acc, ∀ a ∈ xs, f acc a = (acc + g a) % m) (init : Nat) (hi : init < m) :
    xs.foldl f init = (init + (xs.map g).sum) % m := by
  induction xs generalizing init with
  | nil => simp [Nat.mod_eq_of_lt hi]
  | cons a r ih =>
    have hm : 0 < m := by omega
    simp only [List.foldl_cons, List.map_cons, List.sum_cons, h init a (List.mem_cons_self ..)]
    rw [ih (fun acc x hx => h acc x (List.mem_cons_of_mem _ hx)) _ (Nat.mod_lt _ hm), Nat.mod_add_mod, Nat.add_assoc]

/-- the arithmetic normal form: push `Nat → Int` casts to the leaves, so that `omega` sees the same
`if` atoms on both sides -/
macro "push_casts" : tactic =>
  `(tactic| simp only [Int.toNat_of_nonneg (Int.emod_nonneg _ (by decide : (256 : Int) ≠ 0)),
      Int.toNat_of_nonneg (Int.emod_nonneg _ (by decide : (65536 : Int) ≠ 0)),
      Int.natCast_emod, Int.natCast_add, Int.natCast_mul, natCast_ite, Int.natCast_one, Int.natCast_zero,
      Int.cast_ofNat_Int])

/-- close `lhs = rhs` between Nat terms built from `+`, `*` by literals, `% 2^N`, `Int.toNat`, `if` -/
macro "nat_arith" : tactic =>
  `(tactic| (apply Int.natCast_inj.mp; push_casts <;> omega))

macro "len_arith_core" : tactic =>
  `(tactic| first
    | omega
    | (push_casts <;> omega)
    | nat_arith)

/-- close `lhs = rhs` between Nat / Int terms built from `+`, `*` by literals, `% 2^N`, `Int.toNat`, casts and `if`,
however the sums are associated, whatever order the terms come in and however the `if`s on the flags are nested
(`Tie.bool_cond` lets `omega` relate different `if`s on the same flag) -/
macro "len_arith" : tactic =>
  `(tactic| first
    | rfl
    | len_arith_core
    | (simp only [Astits.Tie.bool_cond] <;> len_arith_core)
    | (simp <;> len_arith_core)
    | (simp <;> simp only [Astits.Tie.bool_cond] <;> len_arith_core))

/-- a side condition `init < 2^N` of `foldl_add_mod` -/
macro "init_lt" : tactic =>
  `(tactic| first
    | exact Nat.mod_lt _ (by decide)
    | decide
    | omega)

end GeneratedLengths

open Astits.Generated GeneratedLengths Astits.Tie

/-! ## C14 — descriptor lengths (descriptor.go) -/
namespace C14

theorem generated_calcDescriptorUserDefinedLength :
    Lengths.calcDescriptorUserDefinedLength = calcDescriptorUserDefinedLength := by
  funext d
  unfold Lengths.calcDescriptorUserDefinedLength calcDescriptorUserDefinedLength
  split
  · subst_vars; rfl
  · omega

theorem generated_calcDescriptorAC3Length :
    Lengths.calcDescriptorAC3Length = nilOr calcDescriptorAC3Length := by
  funext d; cases d with
  | none => rfl
  | some d =>
    simp only [Lengths.calcDescriptorAC3Length, nilOr, calcDescriptorAC3Length, b2n, ite_add_int]
    len_arith

theorem generated_calcDescriptorAVCVideoLength :
    Lengths.calcDescriptorAVCVideoLength = nilOr calcDescriptorAVCVideoLength := by
  funext d; cases d <;> rfl

theorem generated_calcDescriptorComponentLength :
    Lengths.calcDescriptorComponentLength = nilOr calcDescriptorComponentLength := by
  funext d; cases d with
  | none => rfl
  | some d => simp only [Lengths.calcDescriptorComponentLength, nilOr, calcDescriptorComponentLength]; len_arith

theorem generated_calcDescriptorContentLength :
    Lengths.calcDescriptorContentLength = nilOr calcDescriptorContentLength := by
  funext d; cases d with
  | none => rfl
  | some d => simp only [Lengths.calcDescriptorContentLength, nilOr, calcDescriptorContentLength]; len_arith

theorem generated_calcDescriptorDataStreamAlignmentLength :
    Lengths.calcDescriptorDataStreamAlignmentLength = nilOr calcDescriptorDataStreamAlignmentLength := by
  funext d; cases d <;> rfl

theorem generated_calcDescriptorEnhancedAC3Length :
    Lengths.calcDescriptorEnhancedAC3Length = nilOr calcDescriptorEnhancedAC3Length := by
  funext d; cases d with
  | none => rfl
  | some d =>
    simp only [Lengths.calcDescriptorEnhancedAC3Length, nilOr, calcDescriptorEnhancedAC3Length, b2n, ite_add_int]
    len_arith

theorem extendedEventItemsSize_eq_sum (xs : List DescriptorExtendedEventItem) :
    extendedEventItemsSize xs = (xs.map fun item => 1 + item.description.length + 1 + item.content.length).sum := by
  induction xs with
  | nil => rfl
  | cons a r ih => simp only [extendedEventItemsSize, List.map_cons, List.sum_cons, ih]

/-- both results: (descriptorLength, lengthOfItems) -/
theorem generated_calcDescriptorExtendedEventLength :
    Lengths.calcDescriptorExtendedEventLength
      = fun d => match d with
                 | none => (0, 0)
                 | some d => calcDescriptorExtendedEventLength d := by
  funext d; cases d with
  | none => rfl
  | some d =>
    simp only [Lengths.calcDescriptorExtendedEventLength, calcDescriptorExtendedEventLength,
      extendedEventItemsSize_eq_sum]
    rw [foldl_add_int _ (fun item => 1 + item.description.length + 1 + item.content.length)
      (by intro acc a; omega)]
    refine Prod.ext ?_ ?_ <;> simp only [] <;> omega

/-- the first result, as `calcDescriptorLength` uses it -/
theorem generated_calcDescriptorExtendedEventLength_fst (o : Option DescriptorExtendedEvent) :
    (Lengths.calcDescriptorExtendedEventLength o).1 = nilOr (fun x => (calcDescriptorExtendedEventLength x).1) o := by
  rw [generated_calcDescriptorExtendedEventLength]; cases o <;> rfl

/-- Go returns `int`: the model's `Nat`, cast -/
theorem generated_calcDescriptorExtensionSupplementaryAudioLength :
    Lengths.calcDescriptorExtensionSupplementaryAudioLength
      = fun d => ((nilOr calcDescriptorExtensionSupplementaryAudioLength d : Nat) : Int) := by
  funext d; cases d with
  | none => rfl
  | some d =>
    simp only [Lengths.calcDescriptorExtensionSupplementaryAudioLength, nilOr,
      calcDescriptorExtensionSupplementaryAudioLength, ite_add_int]
    push_casts <;> omega

theorem generated_calcDescriptorExtensionLength :
    Lengths.calcDescriptorExtensionLength = nilOr calcDescriptorExtensionLength := by
  funext d; cases d with
  | none => rfl
  | some d =>
    simp only [Lengths.calcDescriptorExtensionLength, nilOr, calcDescriptorExtensionLength,
      generated_calcDescriptorExtensionSupplementaryAudioLength, descriptorTagExtensionSupplementaryAudio]
    by_cases ht : d.tag = 6
    · simp only [ht, if_true]; len_arith
    · simp only [ht, if_false]; cases d.unknown <;> simp only [nilOr] <;> omega

theorem generated_calcDescriptorISO639LanguageAndAudioTypeLength :
    Lengths.calcDescriptorISO639LanguageAndAudioTypeLength = nilOr calcDescriptorISO639LanguageAndAudioTypeLength := by
  funext d; cases d <;> rfl

theorem generated_calcDescriptorLocalTimeOffsetLength :
    Lengths.calcDescriptorLocalTimeOffsetLength = nilOr calcDescriptorLocalTimeOffsetLength := by
  funext d; cases d with
  | none => rfl
  | some d => simp only [Lengths.calcDescriptorLocalTimeOffsetLength, nilOr, calcDescriptorLocalTimeOffsetLength]; len_arith

theorem generated_calcDescriptorMaximumBitrateLength :
    Lengths.calcDescriptorMaximumBitrateLength = nilOr calcDescriptorMaximumBitrateLength := by
  funext d; cases d <;> rfl

theorem generated_calcDescriptorNetworkNameLength :
    Lengths.calcDescriptorNetworkNameLength = nilOr calcDescriptorNetworkNameLength := by
  funext d; cases d with
  | none => rfl
  | some d => simp only [Lengths.calcDescriptorNetworkNameLength, nilOr, calcDescriptorNetworkNameLength]; len_arith

theorem generated_calcDescriptorParentalRatingLength :
    Lengths.calcDescriptorParentalRatingLength = nilOr calcDescriptorParentalRatingLength := by
  funext d; cases d with
  | none => rfl
  | some d => simp only [Lengths.calcDescriptorParentalRatingLength, nilOr, calcDescriptorParentalRatingLength]; len_arith

theorem generated_calcDescriptorPrivateDataIndicatorLength :
    Lengths.calcDescriptorPrivateDataIndicatorLength = nilOr calcDescriptorPrivateDataIndicatorLength := by
  funext d; cases d <;> rfl

theorem generated_calcDescriptorPrivateDataSpecifierLength :
    Lengths.calcDescriptorPrivateDataSpecifierLength = nilOr calcDescriptorPrivateDataSpecifierLength := by
  funext d; cases d <;> rfl

theorem generated_calcDescriptorRegistrationLength :
    Lengths.calcDescriptorRegistrationLength = nilOr calcDescriptorRegistrationLength := by
  funext d; cases d with
  | none => rfl
  | some d => simp only [Lengths.calcDescriptorRegistrationLength, nilOr, calcDescriptorRegistrationLength]; len_arith

theorem generated_calcDescriptorServiceLength :
    Lengths.calcDescriptorServiceLength = nilOr calcDescriptorServiceLength := by
  funext d; cases d with
  | none => rfl
  | some d => simp only [Lengths.calcDescriptorServiceLength, nilOr, calcDescriptorServiceLength]; len_arith

theorem generated_calcDescriptorShortEventLength :
    Lengths.calcDescriptorShortEventLength = nilOr calcDescriptorShortEventLength := by
  funext d; cases d with
  | none => rfl
  | some d => simp only [Lengths.calcDescriptorShortEventLength, nilOr, calcDescriptorShortEventLength]; len_arith

theorem generated_calcDescriptorStreamIdentifierLength :
    Lengths.calcDescriptorStreamIdentifierLength = nilOr calcDescriptorStreamIdentifierLength := by
  funext d; cases d <;> rfl

theorem generated_calcDescriptorSubtitlingLength :
    Lengths.calcDescriptorSubtitlingLength = nilOr calcDescriptorSubtitlingLength := by
  funext d; cases d with
  | none => rfl
  | some d => simp only [Lengths.calcDescriptorSubtitlingLength, nilOr, calcDescriptorSubtitlingLength]; len_arith

theorem generated_calcDescriptorTeletextLength :
    Lengths.calcDescriptorTeletextLength = nilOr calcDescriptorTeletextLength := by
  funext d; cases d with
  | none => rfl
  | some d => simp only [Lengths.calcDescriptorTeletextLength, nilOr, calcDescriptorTeletextLength]; len_arith

theorem vbiDataServicesSize_eq_sum (xs : List DescriptorVBIDataService) :
    vbiDataServicesSize xs
      = (xs.map fun s => 2 + (if isKnownVBIDataServiceID s.dataServiceID then s.descriptors.length else 1)).sum := by
  induction xs with
  | nil => rfl
  | cons a r ih => simp only [vbiDataServicesSize, List.map_cons, List.sum_cons, ih]

theorem generated_calcDescriptorVBIDataLength :
    Lengths.calcDescriptorVBIDataLength = nilOr calcDescriptorVBIDataLength := by
  funext d; cases d with
  | none => rfl
  | some d =>
    simp only [Lengths.calcDescriptorVBIDataLength, nilOr, calcDescriptorVBIDataLength, vbiDataServicesSize_eq_sum]
    rw [foldl_add_int _ (fun s => 2 + (if isKnownVBIDataServiceID s.dataServiceID then s.descriptors.length else 1))
      (by
        intro acc a
        simp [isKnownVBIDataServiceID]
        len_arith)]
    len_arith

theorem generated_calcDescriptorUnknownLength :
    Lengths.calcDescriptorUnknownLength = nilOr calcDescriptorUnknownLength := by
  funext d; cases d with
  | none => rfl
  | some d => simp only [Lengths.calcDescriptorUnknownLength, nilOr, calcDescriptorUnknownLength]; len_arith

set_option maxRecDepth 4000 in
/-- the tag switch, for every tag a `uint8` can hold: after rewriting the per-kind calculators with the ties above
the two sides are `if` chains over the tag; they are compared tag by tag (256 goals, each closed by evaluating the
conditions on the literal tag), so the way the conditions are written (`>= 0x80 && <= 0xfe`, a bit test, a switch
with other case orders, …) does not matter -/
theorem generated_calcDescriptorLength (d : Descriptor) (h : d.tag < 256) :
    Lengths.calcDescriptorLength d = calcDescriptorLength d := by
  simp only [Lengths.calcDescriptorLength, calcDescriptorLength,
    generated_calcDescriptorUserDefinedLength, generated_calcDescriptorAC3Length,
    generated_calcDescriptorAVCVideoLength, generated_calcDescriptorComponentLength,
    generated_calcDescriptorContentLength, generated_calcDescriptorDataStreamAlignmentLength,
    generated_calcDescriptorEnhancedAC3Length, generated_calcDescriptorExtendedEventLength_fst,
    generated_calcDescriptorExtensionLength, generated_calcDescriptorISO639LanguageAndAudioTypeLength,
    generated_calcDescriptorLocalTimeOffsetLength, generated_calcDescriptorMaximumBitrateLength,
    generated_calcDescriptorNetworkNameLength, generated_calcDescriptorParentalRatingLength,
    generated_calcDescriptorPrivateDataIndicatorLength, generated_calcDescriptorPrivateDataSpecifierLength,
    generated_calcDescriptorRegistrationLength, generated_calcDescriptorServiceLength,
    generated_calcDescriptorShortEventLength, generated_calcDescriptorStreamIdentifierLength,
    generated_calcDescriptorSubtitlingLength, generated_calcDescriptorTeletextLength,
    generated_calcDescriptorVBIDataLength, generated_calcDescriptorUnknownLength]
  generalize d.tag = t at h ⊢
  revert t
  iterate 256 (refine forall_lt_succ ?_ ?_)
  · exact forall_lt_zero
  all_goals rfl

theorem descriptorsSize_eq_sum (ds : List Descriptor) :
    descriptorsSize ds = (ds.map fun d => 2 + calcDescriptorLength d).sum := by
  induction ds with
  | nil => rfl
  | cons a r ih => simp only [descriptorsSize, List.map_cons, List.sum_cons, ih]

/-- tags in the range of the Go type -/
def TagsOk (ds : List Descriptor) : Prop := ∀ d ∈ ds, d.tag < 256

theorem generated_calcDescriptorsLength (ds : List Descriptor) (h : TagsOk ds) :
    Lengths.calcDescriptorsLength ds = calcDescriptorsLength ds := by
  simp only [Lengths.calcDescriptorsLength, calcDescriptorsLength, descriptorsSize_eq_sum]
  rw [foldl_add_mod_mem 65536 _ (fun d => 2 + calcDescriptorLength d) ds
    (by intro acc a ha; simp only [generated_calcDescriptorLength a (h a ha)]; len_arith) _ (by init_lt)]
  len_arith

end C14

/-! ## C04 — adaptation field sizes (packet.go) -/
namespace C04

theorem generated_calcPacketAdaptationFieldExtensionLength :
    Lengths.calcPacketAdaptationFieldExtensionLength = calcAFExtLength := by
  funext e
  -- a function of the three flags: either the accumulation is normalised and compared arithmetically, or (a lookup
  -- table indexed by the flags, bit operations on the index, …) the eight cases are evaluated
  first
    | (simp only [Lengths.calcPacketAdaptationFieldExtensionLength, calcAFExtLength, afExtSize, ptsOrDTSByteLength,
        ite_add_u8, mod_lt_256]
       omega)
    | (cases h1 : e.hasLegalTimeWindow <;> cases h2 : e.hasPiecewiseRate <;> cases h3 : e.hasSeamlessSplice <;>
        simp [Lengths.calcPacketAdaptationFieldExtensionLength, calcAFExtLength, afExtSize, ptsOrDTSByteLength,
          h1, h2, h3])

/-- a nil `AdaptationExtensionField` is the zero value on both sides (Go panics) -/
theorem default_ext : (default : PacketAdaptationExtensionField) = defaultExt := rfl

theorem generated_calcPacketAdaptationFieldSize : Lengths.calcPacketAdaptationFieldSize = afSize := by
  funext a
  simp only [Lengths.calcPacketAdaptationFieldSize, afSize, generated_calcPacketAdaptationFieldExtensionLength,
    default_ext, calcAFExtLength, ite_add_int]
  have : afExtSize (a.adaptationExtensionField.getD defaultExt) < 256 := by
    simp only [afExtSize, ptsOrDTSByteLength]; repeat' split
    all_goals omega
  push_casts
  rw [Int.emod_eq_of_lt (by omega) (by omega)]
  len_arith

theorem generated_calcPacketAdaptationFieldLength : Lengths.calcPacketAdaptationFieldLength = calcAFLength := by
  funext a
  simp only [Lengths.calcPacketAdaptationFieldLength, calcAFLength, generated_calcPacketAdaptationFieldSize]

end C04

/-! ## C12 — PES optional header lengths (data_pes.go) -/
namespace C12

/-! comparisons of a number that is at least 4 with a literal, in the forms a guard can take (`simp` evaluates the
side condition on the literal and finds `4 ≤ n` among its hypotheses) -/
theorem ge4_eq {n k : Nat} (h : 4 ≤ n) (hk : k < 4) : (n = k) = False := by simp; omega
theorem ge4_eq' {n k : Nat} (h : 4 ≤ n) (hk : k < 4) : (k = n) = False := by simp; omega
theorem ge4_lt {n k : Nat} (h : 4 ≤ n) (hk : k ≤ 4) : (n < k) = False := by simp; omega
theorem ge4_le {n k : Nat} (h : 4 ≤ n) (hk : k < 4) : (n ≤ k) = False := by simp; omega
theorem ge4_gt {n k : Nat} (h : 4 ≤ n) (hk : k < 4) : (k < n) = True := by simp; omega
theorem ge4_ge {n k : Nat} (h : 4 ≤ n) (hk : k ≤ 4) : (k ≤ n) = True := by simp; omega
theorem ge4_eq_int {n : Nat} {k : Int} (h : 4 ≤ n) (hk : k < 4) : ((n : Int) = k) = False := by simp; omega
theorem ge4_eq_int' {n : Nat} {k : Int} (h : 4 ≤ n) (hk : k < 4) : (k = (n : Int)) = False := by simp; omega
theorem ge4_lt_int {n : Nat} {k : Int} (h : 4 ≤ n) (hk : k ≤ 4) : ((n : Int) < k) = False := by simp; omega
theorem ge4_le_int {n : Nat} {k : Int} (h : 4 ≤ n) (hk : k < 4) : ((n : Int) ≤ k) = False := by simp; omega
theorem ge4_gt_int {n : Nat} {k : Int} (h : 4 ≤ n) (hk : k < 4) : (k < (n : Int)) = True := by simp; omega
theorem ge4_ge_int {n : Nat} {k : Int} (h : 4 ≤ n) (hk : k ≤ 4) : (k ≤ (n : Int)) = True := by simp; omega

theorem generated_calcPESOptionalHeaderDataLength :
    Lengths.calcPESOptionalHeaderDataLength = calcPESOptionalHeaderDataLength := by
  funext h
  unfold Lengths.calcPESOptionalHeaderDataLength calcPESOptionalHeaderDataLength
  -- `HasExtension` guards a nested block and the Extension2Data term is truncated separately: split on these.  The
  -- PTS/DTS indicator is compared with constants (an if / else-if, a switch, a bounds-checked lookup table, …): split
  -- into the four values that matter and the rest, so that every test on it can be evaluated.  The other eight flags
  -- stay symbolic (shared `if` atoms)
  have hi : h.ptsDTSIndicator = 0 ∨ h.ptsDTSIndicator = 1 ∨ h.ptsDTSIndicator = 2 ∨ h.ptsDTSIndicator = 3 ∨
      4 ≤ h.ptsDTSIndicator := by omega
  by_cases hE : h.hasExtension = true <;> by_cases hX : h.hasExtension2 = true <;>
    rcases hi with hi | hi | hi | hi | hi
  all_goals
    simp only [hi, hE, hX, if_true, if_false, Bool.false_eq_true, reduceIte, Nat.reduceEqDiff, ite_add_u8,
      ite_add_int, mod_lt_256, zero_lt_256, ite_lt_256, Nat.reduceLT, toNat_cast_mod_256, Bool.not_eq_true,
      not_true_eq_false, not_false_eq_true, Int.cast_ofNat_Int, Int.reduceLT, Int.reduceLE, Int.reduceEq,
      Nat.reduceLeDiff, Nat.lt_irrefl, Nat.le_refl, and_true, true_and, and_false, false_and, or_true, true_or,
      or_false, false_or, not_or, not_and,
      ge4_eq, ge4_eq', ge4_lt, ge4_le, ge4_gt, ge4_ge, ge4_eq_int, ge4_eq_int', ge4_lt_int, ge4_le_int, ge4_gt_int,
      ge4_ge_int]
    try simp only [Nat.mod_add_mod, Nat.add_mod_mod, Nat.mod_mod]
    len_arith_core

theorem generated_calcPESOptionalHeaderLength :
    Lengths.calcPESOptionalHeaderLength = calcPESOptionalHeaderLength := by
  funext h; cases h with
  | none => rfl
  | some h => simp only [Lengths.calcPESOptionalHeaderLength, calcPESOptionalHeaderLength,
      generated_calcPESOptionalHeaderDataLength]

end C12

/-! ## C13 — PAT / PMT section lengths (data_pat.go, data_pmt.go) -/
namespace C13

theorem generated_calcPATSectionLength : Lengths.calcPATSectionLength = calcPATSectionLength := by
  funext d
  simp only [Lengths.calcPATSectionLength, calcPATSectionLength]; len_arith

theorem generated_calcPMTSectionLength (d : PMTData) (hp : C14.TagsOk d.programDescriptors)
    (he : ∀ es ∈ d.elementaryStreams, C14.TagsOk es.elementaryStreamDescriptors) :
    Lengths.calcPMTSectionLength d = calcPMTSectionLength d := by
  simp only [Lengths.calcPMTSectionLength, calcPMTSectionLength, C14.generated_calcDescriptorsLength _ hp]
  rw [foldl_add_mod_mem 65536 _ (fun es => 5 + calcDescriptorsLength es.elementaryStreamDescriptors) _
    (by intro acc a ha; simp only [C14.generated_calcDescriptorsLength _ (he a ha)]; len_arith) _ (by init_lt)]
  len_arith

end C13

/-! ## C05 — the wrapping counter (wrapping_counter.go) -/
namespace C05

theorem generated_wrappingCounter_get :
    Lengths.wrappingCounter_get = fun c => (c.get : Int) := rfl

/-- (final `c.value`, returned value) -/
theorem generated_wrappingCounter_inc :
    Lengths.wrappingCounter_inc = fun c => ((c.inc.value : Int), (c.inc.get : Int)) := by
  funext c
  simp only [Lengths.wrappingCounter_inc, WrappingCounter.inc, WrappingCounter.get]
  split <;> split <;> first | rfl | omega | (simp only []; refine Prod.ext ?_ ?_ <;> simp only [] <;> omega)

end C05
end Astits
