/-
C02, second module (kept apart from Props/C02 because it needs the PES round trip and the mux→demux development, which
themselves build on Props/C02): from packet groups to the data delivered.
-/
import Astits.Proofs.MuxDemux
import Astits.Proofs.MuxDemuxNext
import Astits.Proofs.PSICompleteNext
import Astits.Spec.RefMux
import Astits.Proofs.RefMuxDelivers
import Astits.Props.C13
namespace Astits.C02b
open MuxDemux

/-- **every PES unit of a stream is delivered exactly once, whole, in order (pool + `parseData` level)**: if the
payload-carrying packets of an elementary-stream PID are, in stream order, the packets of units `ws` — cut at arbitrary
points (any chunk sizes: only `concatPayload` of a unit's packets matters), with any adaptation-field stuffing, counters
running on within and across units — each carrying a PES packet with a well-formed header, then, whatever is
interleaved on other PIDs and wherever payload-less packets of the PID stand, the demuxer delivers for that PID exactly
one PES per unit, with the unit's payload bytes and header, in order: every unit but the last when the next unit starts,
the last one at the end-of-stream drain. -/
theorem pes_units_delivered (pm : ProgramMap) (pid : Nat) (hes : ESPid pid pm) (s : List Packet) (ws : List PESUnit)
    (hf : (s.filter fun p => p.header.pid == pid && p.header.hasPayload) = ws.flatMap (·.unit.packets))
    (hon : ∀ w ∈ ws, C02.unitOnPID pid w.unit) (hc : ChainOK [] (ws.map (·.unit)))
    (hw : ∀ w ∈ ws, PESRT.PESHeaderOk w.hdr ∧
      concatPayload w.unit.packets = pesHeaderBytes w.hdr w.data.length ++ w.data) :
    deliveredOn pm pid s = ws.map fun w => .ok [pesDelivered pid w.hdr w.data w.unit.first] :=
  MuxDemux.units_delivered pm pid hes s ws hf hon hc hw

/-! ## PSI side, `NextData` level: a PAT/PMT is returned by the call that reads its final packet

E1–E3 at pool level are in `Props/C02.lean`; here they are lifted through the reader, the packet buffer and the data
buffer (`Proofs/PSICompleteNext.lean`). -/

section PSISide
open PSIComplete PSIRT

/-- **"A PAT or PMT is returned by the call that reads its final packet, without consuming any further byte from the
reader."** The demuxer (188-byte packets, no fault, no skipper, no custom parser) is about to read the chunks
`csA ++ cK :: rest`; they parse to the packets `a`, `pk` of a PAT/PMT unit written by `writePSIData` (sections that
round-trip: C13) plus 0xFF stuffing, cut at conformant points, `pk` being the packet with the last section byte; `pid`
is a table PID of the current program map, nothing is queued for it, the data buffer is empty. Then this `NextData`
call returns the first section's data `x`; afterwards the reader stands right after `cK` (`188 * (a.length + 1)` bytes
consumed, `rest` still unread), the other sections' data `xs` are in the data buffer and the PID's queue is empty. -/
theorem table_unit_nextData (pid : Nat) (d : Demux) (htab : (pid == 0 || d.programMap.has pid) = true) (hcat : pid ≠ 1)
    (u : UnitPk) (hu : UnitOK u) (hon : ∀ p ∈ u.packets, p.header.pid = pid)
    (a : List Packet) (pk : Packet) (b : List Packet) (hsplit : u.packets = a ++ [pk] ++ b)
    (pf : Nat) (ss ss' : List PSISection) (stuffing : Bytes)
    (W : WrittenUnit (concatPayload u.packets) pf ss ss' stuffing)
    (hbefore : (concatPayload a).length < 1 + pf + ((ss.map secBytes).flatten).length)
    (hat : 1 + pf + ((ss.map secBytes).flatten).length ≤ (concatPayload (a ++ [pk])).length)
    (hcut : ConformantCut a pf (ss.map secBytes))
    (csA : List Bytes) (cK : Bytes) (rest : List Bytes) (hrep : Rep d (csA ++ cK :: rest)) (hpa : ParsesTo csA a)
    (hpk : (parsePacket none).val cK = .ok pk) (hbuf : d.dataBuffer = []) (hq : d.pool.get pid = [])
    (x : DemuxerData) (xs : List DemuxerData)
    (hds : psiToData { pointerField := (pf : Int), sections := ss' } (firstOf u.packets) pid = x :: xs) :
    ∃ d', d.nextData = (.ok x, d') ∧ Rep d' rest ∧ d'.r.data = d.r.data ∧ d'.r.pos = d.r.pos + 188 * (a.length + 1) ∧
      d'.dataBuffer = xs ∧ d'.pool.get pid = [] :=
  written_unit_nextData pid d htab hcat u hu hon a pk b hsplit pf ss ss' stuffing W hbefore hat hcut csA cK rest hrep hpa hpk
    hbuf hq x xs hds

/-- **the following calls return the remaining sections from the data buffer without reading**: the `k`-th further
call returns the `k`-th buffered datum; reader, pool and program map are those left by the first call -/
theorem buffered_sections_follow (xs : List DemuxerData) (k : Nat) (d : Demux) (h : d.dataBuffer = xs) (hk : k < xs.length) :
    (after k d).nextData = (.ok xs[k], { d with dataBuffer := xs.drop (k + 1) }) :=
  buffered_call_result xs k d h hk

/-- one datum per PAT / PMT section, in order: what `hds` looks like for sections parsed back by the round trip -/
theorem data_of_pat_section (pf : Int) (c : Nat) (h : PSISectionHeader) (sh : PSISectionSyntaxHeader) (x : PATData)
    (r : List PSISection) (fp : Packet) (pid : Nat) (ht : h.tableID = 0) :
    psiToData { pointerField := pf, sections := parsedSection c h sh { pat := some x } :: r } fp pid =
      { firstPacket := some fp, pid := pid, pat := some x } :: psiToData { pointerField := pf, sections := r } fp pid :=
  psiToData_cons_pat pf c h sh x r fp pid ht

theorem data_of_pmt_section (pf : Int) (c : Nat) (h : PSISectionHeader) (sh : PSISectionSyntaxHeader) (x : PMTData)
    (r : List PSISection) (fp : Packet) (pid : Nat) (ht : h.tableID = 2) :
    psiToData { pointerField := pf, sections := parsedSection c h sh { pmt := some x } :: r } fp pid =
      { firstPacket := some fp, pid := pid, pmt := some x } :: psiToData { pointerField := pf, sections := r } fp pid :=
  psiToData_cons_pmt pf c h sh x r fp pid ht

/-! #### non-vacuity: the two-section PAT unit of `Props/C02.lean` as four real 188-byte packets -/

def exTS : Spec.TSUnit :=
  { pid := 0, data := [], psi := true, chunks := [10, 15, 12, 3],
    payload := [0, 0, 176, 13, 0, 7, 199, 0, 0, 0, 1, 240, 0, 80, 134, 190, 104, 0, 176, 17, 0, 7, 199, 0, 0,
      0, 2, 240, 1, 0, 3, 240, 2, 184, 178, 78, 179, 0xff, 0xff, 0xff] }

/-- the reference encoding of the unit's packets (adaptation-field stuffing), counters 15, 0, 1, 2 -/
def exChunks : List Bytes := (Spec.packetsOf exTS 15).map Spec.tsEncode

def okOr (r : Res Packet) : Packet := match r with | .ok p => p | _ => default
def exPk (i : Nat) : Packet := okOr ((parsePacket none).val (exChunks.getD i []))
def exUnit : UnitPk := ⟨exPk 0, [exPk 1, exPk 2, exPk 3]⟩

theorem exPk_parses (i : Nat) (h : ((parsePacket none).val (exChunks.getD i [])).isOk = true) :
    (parsePacket none).val (exChunks.getD i []) = .ok (exPk i) := by
  unfold exPk
  cases hr : (parsePacket none).val (exChunks.getD i []) with
  | ok p => rfl
  | err e => rw [hr] at h; cases h
  | panic => rw [hr] at h; cases h

example : ∃ (d : Demux) (ss' : List PSISection),
    ((0 : Nat) == 0 || d.programMap.has 0) = true ∧ UnitOK exUnit ∧ (∀ p ∈ exUnit.packets, p.header.pid = 0) ∧
    exUnit.packets = [exPk 0, exPk 1] ++ [exPk 2] ++ [exPk 3] ∧
    WrittenUnit (concatPayload exUnit.packets) 0 [C02.exSec1, C02.exSec2] ss' [0xff, 0xff, 0xff] ∧
    (concatPayload [exPk 0, exPk 1]).length < 1 + 0 + (([C02.exSec1, C02.exSec2].map secBytes).flatten).length ∧
    1 + 0 + (([C02.exSec1, C02.exSec2].map secBytes).flatten).length ≤ (concatPayload ([exPk 0, exPk 1] ++ [exPk 2])).length ∧
    ConformantCut [exPk 0, exPk 1] 0 ([C02.exSec1, C02.exSec2].map secBytes) ∧
    Rep d ([exChunks.getD 0 [], exChunks.getD 1 []] ++ exChunks.getD 2 [] :: [exChunks.getD 3 []]) ∧
    ParsesTo [exChunks.getD 0 [], exChunks.getD 1 []] [exPk 0, exPk 1] ∧
    (parsePacket none).val (exChunks.getD 2 []) = .ok (exPk 2) ∧ d.dataBuffer = [] ∧ d.pool.get 0 = [] ∧
    ∃ x xs, psiToData { pointerField := ((0 : Nat) : Int), sections := ss' } (firstOf exUnit.packets) 0 = x :: xs ∧ xs.length = 1 := by
  have hsh : SyntaxHeaderOk { currentNextIndicator := true, tableIDExtension := 7, versionNumber := 3 } :=
    ⟨by decide, by decide, by decide, by decide⟩
  have r1 := pat_section_rt 0 { sectionLength := 1, sectionSyntaxIndicator := true, tableID := 0 } _
    { programs := [{ programMapID := 0x1000, programNumber := 1 }], transportStreamID := 7 } rfl (by decide) hsh ⟨by decide, by decide⟩
  have r2 := pat_section_rt 0 { sectionLength := 1, sectionSyntaxIndicator := true, tableID := 0 } _
    { programs := [{ programMapID := 0x1001, programNumber := 2 }, { programMapID := 0x1002, programNumber := 3 }], transportStreamID := 7 }
    rfl (by decide) hsh ⟨by decide, by decide⟩
  have hrt : SectionsRT [C02.exSec1, C02.exSec2] _ := .cons r1 (.cons r2 .nil)
  have hd : Rep (demuxOf exChunks.flatten)
      ([exChunks.getD 0 [], exChunks.getD 1 []] ++ exChunks.getD 2 [] :: [exChunks.getD 3 []]) := by
    have : [exChunks.getD 0 [], exChunks.getD 1 []] ++ exChunks.getD 2 [] :: [exChunks.getD 3 []] = exChunks := by
      decide +kernel
    rw [this]
    exact rep_demuxOf exChunks (by decide +kernel)
  refine ⟨demuxOf exChunks.flatten, _, by simp, ?_, ?_, ?_, ⟨by decide, hrt, by simp, by simp, _,
    writePSIData_bytes 0 (by decide) _ _ hrt, by decide +kernel⟩, by decide +kernel, by decide +kernel, ?_, hd,
    ⟨exPk_parses 0 (by decide +kernel), exPk_parses 1 (by decide +kernel), trivial⟩, exPk_parses 2 (by decide +kernel),
    rfl, rfl, ?_⟩
  · simp only [UnitOK, Continues, PlainPayload, exUnit]
    decide +kernel
  · intro p hp
    simp only [UnitPk.packets, exUnit, List.mem_cons, List.not_mem_nil, or_false] at hp
    rcases hp with h | h | h | h <;> (rw [h]; decide +kernel)
  · simp [exUnit, UnitPk.packets]
  · intro i hi hia j hj hjl
    have hj1 : j = 1 := by simp at hjl; omega
    subst hj1
    have : i = 1 ∨ i = 2 := by simp at hia; omega
    rcases this with rfl | rfl <;> decide +kernel
  · rw [psiToData_cons_pat _ _ _ _ _ _ _ _ rfl, psiToData_cons_pat _ _ _ _ _ _ _ _ rfl]
    exact ⟨_, _, rfl, rfl⟩

end PSISide


/-! # C02, whole-stream form: `NextData` on the bytes of the reference multiplexer delivers `StreamModel.expected`

Helper developments: `Proofs/RefMuxDelivers.lean` and `Proofs/RefMuxDelivers/*` (namespace `Astits.RefMux`).

* `RefMux.UnitWF u` — a well-formed unit of `Spec.RefMux`: 13-bit PID, at least one chunk, chunks of 1..184 bytes adding
  up to the payload, no transport error, the first-packet adaptation field (if given and used) in delivered form,
  well-formed and of exactly the fitting size (it may carry a PCR, private data, …, and announce a discontinuity);
* `chainPk 0 (unitsOn m pid)` / `chainExp 0 (unitsOn m pid)` — the packets / the expected data of the units of `pid`,
  continuity counters running on modulo 16 (`expectedList m` = these per PID; `m.expected` = its `qsort`);
* `PESUnit u`, `TableUnit u pf ss ss' stuffing`, `SIUnit u ptr stuff secs` — what a unit carries (PES packet that parses;
  PAT/PMT sections written by `writePSIData` that round-trip, conformant cut points; DVB SI sections that parse);
* `collect n d` — the results of up to `n` `NextData` calls stopping at `ErrNoMorePackets`, and whether it was reached;
  `pidOut pid rs` — the `.ok` data of PID `pid` among results; `demuxOf bytes` — fresh demuxer, `DemuxerOptPacketSize(188)`.
-/

section WholeStream
open Astits.Spec Astits.RefMux Astits.PacketRT Astits.SpecEq Astits.PerPid

/-- **D1 — the packets of the model.**  For a stream model whose units are well-formed: every packet is a well-formed
packet in the demuxer's delivered form that fills exactly 188 bytes, its reference encoding has 188 bytes and parses
back to it; hence the chunks of `m.bytes` parse to `m.packets`; per PID (whatever the schedule) the packets are the
packets of the PID's units in order, which form a chain of units: unit-start flag exactly on first packets, continuation
packets without it, counters running on modulo 16 within and across units, a discontinuity announced at most by the
first packet of a unit (`ChainOK'`). -/
theorem refmux_packets (m : StreamModel) (h : ∀ u ∈ m.units, UnitWF u) :
    (∀ p ∈ m.packets, PacketWF p ∧ PacketCanon p ∧ PacketExact p ∧ (tsEncode p).length = 188 ∧
      (parsePacket none).val (tsEncode p) = .ok p) ∧
    ParsesTo (m.packets.map tsEncode) m.packets ∧ m.bytes = (m.packets.map tsEncode).flatten ∧
    ∀ pid, m.packets.filter (fun p => p.header.pid == pid) = (chainUnits 0 (unitsOn m pid)).flatMap UnitPk.packets ∧
      ChainOK' [] (chainUnits 0 (unitsOn m pid)) ∧ ∀ U ∈ chainUnits 0 (unitsOn m pid), C02.unitOnPID pid U := by
  refine ⟨fun p hp => ?_, (chunks_parse m h).1, rfl, fun pid => ?_⟩
  · obtain ⟨u, hu, cc, hpc⟩ := packets_mem m p hp
    obtain ⟨h1, h2, h3, _⟩ := packetsOf_wf u cc (h u hu) p hpc
    exact ⟨h1, h2, h3, tsEncode_length p h1 h2 h3, C11.parse_tsEncode p h1 h2 h3⟩
  · have hwp := unitsOn_wf m h pid
    refine ⟨by rw [packets_filter, chainPk_eq 0 _ hwp], chain_ok _ hwp 0 (by omega) [] (Or.inl rfl), ?_⟩
    intro U hU p hp
    have : p ∈ chainPk 0 (unitsOn m pid) := by
      rw [chainPk_eq 0 _ hwp]; exact List.mem_flatMap.mpr ⟨U, hU, hp⟩
    rw [← packets_filter] at this
    simpa using (List.mem_filter.mp this).2

/-- **D2 — elementary-stream PIDs.**  `pmR` is the program map the first PAT unit defines (`FirstPAT`: that unit stands
first in the stream and is read by the first call); no PID delivers a PAT listing a PID outside `pmR` (`hsafe`; see
`refmux_delivers` where this is discharged from the units).  Then for every elementary-stream PID of `pmR` (not 1, not
0, not a PMT PID of `pmR`, not in the DVB SI range) whose units carry PES packets that parse (`PESUnit`; for the
reference encoding `pesEncode h 0 payload` see `pes_unit_of_reference`), the data `NextData` returns on that PID up to
`ErrNoMorePackets` are the expected data of its units — one PES per unit with its concatenated payload, the first packet
(payload removed) and the PID, in order, the last unit being delivered by the end-of-stream drain. -/
theorem refmux_pes_pid (pmR : ProgramMap) (m : StreamModel) (hw : ∀ u ∈ m.units, UnitWF u)
    (hfirst : FirstPAT pmR m.packets)
    (hsafe : ∀ pid, ∀ y ∈ pidData pmR pid (chainPk 0 (unitsOn m pid)), PatSafe pmR y)
    (pid : Nat) (hes : MuxDemux.ESPid pid pmR) (hp : ∀ u ∈ unitsOn m pid, PESUnit u)
    (n : Nat) (hend : (collect n (demuxOf m.bytes)).2 = true) :
    pidOut pid (collect n (demuxOf m.bytes)).1 = chainExp 0 (unitsOn m pid) :=
  pid_delivered pmR m hw hfirst hsafe pid (pes_pid_ok pmR m pid hes hw hp) n hend

/-- a unit carrying the reference encoding of a PES packet without header stuffing is a `PESUnit` (C12 round trip) -/
theorem pes_unit_of_reference (u : TSUnit) (h : PESHeader) (data : Bytes) (ok : PESRT.PESHeaderOk h)
    (hl : h.packetLength = pesPacketLengthFor h data.length) (hb : u.payload = Spec.pesEncode h 0 data)
    (hd : u.data = [{ pes := some { data := data, header := h } }]) (hpsi : u.psi = false) : PESUnit u :=
  pesUnit_of_encode u h data ok hl hb hd hpsi

/-- **D3 — table PIDs** (PID 0 and the PMT PIDs of `pmR`): units written by `writePSIData` (one or several sections that
round-trip, 0xFF stuffing, optional payload padding) and cut at conformant points: every section's data once, in order —
each unit by the call that reads the packet carrying its last section byte; stuffing-only tails parse to nothing. -/
theorem refmux_table_pid (pmR : ProgramMap) (m : StreamModel) (hw : ∀ u ∈ m.units, UnitWF u)
    (hfirst : FirstPAT pmR m.packets)
    (hsafe : ∀ pid, ∀ y ∈ pidData pmR pid (chainPk 0 (unitsOn m pid)), PatSafe pmR y)
    (pid : Nat) (htab : early pid pmR = true) (hcat : pid ≠ 1) (hT : ∀ u ∈ unitsOn m pid, TableUnitE u)
    (hs : ∀ u ∈ unitsOn m pid, ∀ y ∈ u.data, PatSafe pmR y)
    (n : Nat) (hend : (collect n (demuxOf m.bytes)).2 = true) :
    pidOut pid (collect n (demuxOf m.bytes)).1 = chainExp 0 (unitsOn m pid) :=
  pid_delivered pmR m hw hfirst hsafe pid (table_pid_ok pmR m pid htab hcat hw hT hs) n hend

/-- a PAT/PMT unit carrying the reference encoding `unitEncode pf (sections ↦ sectionEncode) stuff` of sections on which
reference encoder and writer agree (`SpecEq.SecAgree`, C13) and that round-trip (C13 `pat_section_rt`, `pmt_section_rt`),
cut at conformant points (the condition `mkPSIUnitMulti … true` of the generator), is a `TableUnit` -/
theorem table_unit_of_reference (u : TSUnit) (pf : Nat) (hpf : pf < 256) (ss ss' : List PSISection)
    (hrt : PSIRT.SectionsRT ss ss') (hag : ∀ s ∈ ss, SpecEq.SecAgree s) (hne : ss ≠ []) (stuff : Nat)
    (hb : u.payload = Spec.unitEncode pf (ss.map Spec.sectionEncode) stuff)
    (hcut : ∀ i, 0 < i → i < u.chunks.length → ∀ j, 0 < j → j < ss.length →
      (u.chunks.take i).sum ≠ 1 + pf + ((ss.map Spec.sectionEncode).take j).flatten.length)
    (htail : stuff + padLen u ≤ 256)
    (hdata : ∀ fp, psiToData { pointerField := (pf : Int), sections := ss' } fp u.pid =
      u.data.map fun d => { d with firstPacket := some fp, pid := u.pid }) :
    TableUnit u pf ss ss' (List.replicate stuff 0xff) :=
  tableUnit_of_reference u pf hpf ss ss' hrt hag hne stuff hb hcut htail hdata

/-- the first PAT unit standing first in the schedule gives `FirstPAT` for the map its PATs define -/
theorem refmux_first_pat (m : StreamModel) (hw : ∀ u ∈ m.units, UnitWF u) (u0 : TSUnit) (r : List TSUnit)
    (hu : unitsOn m 0 = u0 :: r) (hT : TableUnitE u0) (hne : u0.data ≠ []) (sh : List Nat)
    (hs : m.schedule = List.replicate u0.chunks.length 0 ++ sh) : FirstPAT (pmLearn u0.data []) m.packets :=
  firstPAT_of m hw u0 r hu hT hne sh hs

/-- **D4 — DVB SI PIDs**: no early flush; every unit is parsed whole when the next unit of the PID starts, the last one
at the end of the stream; sections that parse wherever they stand (`SIRT.SecAt`: SDT, NIT, EIT, TOT round trips) -/
theorem refmux_si_pid (pmR : ProgramMap) (m : StreamModel) (hw : ∀ u ∈ m.units, UnitWF u)
    (hfirst : FirstPAT pmR m.packets)
    (hsafe : ∀ pid, ∀ y ∈ pidData pmR pid (chainPk 0 (unitsOn m pid)), PatSafe pmR y)
    (pid : Nat) (hnp : early pid pmR = false) (hpsi : isPSIPayload pid pmR = true) (hcat : pid ≠ 1)
    (hS : ∀ u ∈ unitsOn m pid, ∃ ptr stuff secs, SIUnit u ptr stuff secs)
    (hs : ∀ u ∈ unitsOn m pid, ∀ y ∈ u.data, y.pat = none)
    (n : Nat) (hend : (collect n (demuxOf m.bytes)).2 = true) :
    pidOut pid (collect n (demuxOf m.bytes)).1 = chainExp 0 (unitsOn m pid) :=
  pid_delivered pmR m hw hfirst hsafe pid (si_pid_ok pmR m pid hnp hpsi hcat hw hS hs) n hend

/-- **D5 — the whole stream.**  `StreamWF m u0 r sh`: every unit is well-formed and of the kind its PID requires under the
program map `pmR` defined by the first PAT unit `u0` (PAT/PMT unit on PID 0 and the PMT PIDs, its PATs listing PMT PIDs of
`pmR` only; DVB SI unit on the other PSI PIDs; PES unit on elementary-stream PIDs; nothing on PID 1), `u0` announces at
least one table, and the schedule starts with the packets of `u0` — arbitrary interleaving otherwise.  Then the
`NextData` calls on `m.bytes` reach `ErrNoMorePackets` after finitely many calls `n`; each of the calls before returns a
datum (no error); for every PID the data returned are the expected data of its units, in order; every entry of
`m.expected` is exactly what was returned on its PID, and nothing is returned on any other PID. -/
theorem refmux_whole_stream (m : StreamModel) (u0 : TSUnit) (r : List TSUnit) (sh : List Nat) (h : StreamWF m u0 r sh) :
    ∃ n, (collect n (demuxOf m.bytes)).2 = true ∧
      (∀ r ∈ (collect n (demuxOf m.bytes)).1, ∃ x, r = .ok x) ∧
      (∀ pid, pidOut pid (collect n (demuxOf m.bytes)).1 = chainExp 0 (unitsOn m pid)) ∧
      (∀ e ∈ m.expected, pidOut e.1 (collect n (demuxOf m.bytes)).1 = e.2) ∧
      (∀ pid, pid ∉ m.expected.map (·.1) → pidOut pid (collect n (demuxOf m.bytes)).1 = []) :=
  refmux_delivers m u0 r sh h

open Astits.MuxDemux Astits.PSIComplete Astits.PSIRT

/-! ### non-vacuity: a stream with a two-section PAT, a PMT, a TOT and two PES PIDs -/

/-- the PAT unit of `exTS`: two sections (16 and 20 bytes), three stuffing bytes, four packets -/
def xPAT : TSUnit :=
  { exTS with data := [{ pat := some { programs := [{ programMapID := 0x1000, programNumber := 1 }], transportStreamID := 7 } },
      { pat := some { programs := [{ programMapID := 0x1001, programNumber := 2 }, { programMapID := 0x1002, programNumber := 3 }], transportStreamID := 7 } }] }

def xPmtData : PMTData :=
  { elementaryStreams := [{ elementaryPID := 0x100, streamType := 0x1b }, { elementaryPID := 0x101, streamType := 0x0f }], pcrPID := 0x100, programNumber := 1 }

def xPmtSec : PSISection :=
  mkPMTSection 0 { sectionLength := 1, sectionSyntaxIndicator := true, tableID := 2 }
    { currentNextIndicator := true, tableIDExtension := 1, versionNumber := 5 } xPmtData

/-- PMT on PID 0x1000: pointer_field 0, one section, two stuffing bytes; first chunk = the pointer_field alone; the last
packet padded with 0xFF instead of adaptation-field stuffing -/
def xPMT : TSUnit :=
  { pid := 0x1000, payload := [0] ++ secBytes xPmtSec ++ [0xff, 0xff], data := [{ pmt := some xPmtData }], psi := true,
    chunks := [1, 20, 8], padPayload := true }


def xTotSec : Bytes × PSISection :=
  (Spec.mkSec 0x73 false true (SIRT.totBodyE writeDescriptor C13.exTOT) true,
   SIRT.delivered 0x73 false true none { tot := some C13.exTOT } (SIRT.totBodyE writeDescriptor C13.exTOT))

/-- TOT on PID 0x14: pointer_field 1, one section, two stuffing bytes, a single packet -/
def xTOT : TSUnit :=
  { pid := 0x14, payload := Spec.unitEncode 1 [xTotSec.1] 2, data := [{ tot := some C13.exTOT }], psi := true,
    chunks := [(Spec.unitEncode 1 [xTotSec.1] 2).length] }

def xAudioHdr (n : Nat) : PESHeader :=
  { streamID := 0xc0, optionalHeader := some C12.exAudioOpt,
    packetLength := pesPacketLengthFor { streamID := 0xc0, optionalHeader := some C12.exAudioOpt } n }

def xDataA : Bytes := (List.range 300).map (· % 251)
def xDataB : Bytes := [1, 2, 3, 4, 5]
def xDataC : Bytes := List.replicate 200 0xcd

/-- PES on PID 0x100, three packets, the first with a PCR in its adaptation field -/
def xPesA : TSUnit :=
  { pid := 0x100, payload := Spec.pesEncode (xAudioHdr 300) 0 xDataA,
    data := [{ pes := some { data := xDataA, header := xAudioHdr 300 } }], psi := false,
    chunks := [10, 184, 120], firstAF := some exFirstAF }
/-- adaptation field announcing a discontinuity: adaptation_field_length 164 = 183 - 19 -/
def xDIAF : PacketAdaptationField := { length := 164, stuffingLength := 163, discontinuityIndicator := true }

/-- a single packet whose adaptation field announces a discontinuity at the unit start -/
def xPesB : TSUnit :=
  { pid := 0x100, payload := Spec.pesEncode (xAudioHdr 5) 0 xDataB,
    data := [{ pes := some { data := xDataB, header := xAudioHdr 5 } }], psi := false, chunks := [19],
    firstAF := some xDIAF }
def xPadHdr : PESHeader := { streamID := 0xbe, optionalHeader := none, packetLength := 200 }
def xPesC : TSUnit :=
  { pid := 0x101, payload := Spec.pesEncode xPadHdr 0 xDataC,
    data := [{ pes := some { data := xDataC, header := xPadHdr } }], psi := false, chunks := [183, 23],
    firstAF := some oneByteAF }

def xStream : StreamModel :=
  { units := [xPAT, xPesA, xPMT, xPesC, xTOT, xPesB],
    schedule := [0, 0, 0, 0, 0x100, 0x1000, 0x101, 0x100, 0x14, 0x1000, 0x100, 0x101, 0x1000, 0x100] }


theorem xPAT_wf : UnitWF xPAT := ⟨by decide, by decide, by decide, by decide +kernel, rfl, True.intro⟩
theorem xPMT_wf : UnitWF xPMT := ⟨by decide, by decide, by decide, by decide +kernel, rfl, True.intro⟩
theorem xTOT_wf : UnitWF xTOT := ⟨by decide, by decide, by decide +kernel, by decide +kernel, rfl, True.intro⟩
theorem xPesA_wf : UnitWF xPesA := by
  refine ⟨by decide, by decide, by decide, by decide +kernel, rfl, ?_⟩
  intro _
  exact Or.inr ⟨rfl, exFirstAF_wf, exFirstAF_canon, by decide⟩
theorem xDIAF_wf : AFWF xDIAF :=
  ⟨fun h => absurd h (by decide), fun h => absurd h (by decide), fun h => absurd h (by decide), fun h => absurd h (by decide),
   fun h => absurd h (by decide)⟩

theorem xDIAF_canon : AFCanon xDIAF := by
  refine ⟨by decide, by decide, by decide, by decide, by decide, by decide, by decide, ?_⟩
  intro e he; cases he

theorem xPesB_wf : UnitWF xPesB := by
  refine ⟨by decide, by decide, by decide, by decide +kernel, rfl, ?_⟩
  intro _
  exact Or.inr ⟨rfl, xDIAF_wf, xDIAF_canon, by decide⟩
theorem xPesC_wf : UnitWF xPesC := by
  refine ⟨by decide, by decide, by decide, by decide +kernel, rfl, ?_⟩
  intro _
  exact Or.inl ⟨rfl, rfl, rfl⟩

theorem xSyntaxOk (e v : Nat) (he : e < 65536) (hv : v < 32) :
    SyntaxHeaderOk { currentNextIndicator := true, tableIDExtension := e, versionNumber := v } :=
  ⟨he, hv, by simp, by simp⟩

theorem xPAT_table : TableUnitE xPAT := by
  have hsh := xSyntaxOk 7 3 (by decide) (by decide)
  have r1 := pat_section_rt 0 { sectionLength := 1, sectionSyntaxIndicator := true, tableID := 0 } _
    { programs := [{ programMapID := 0x1000, programNumber := 1 }], transportStreamID := 7 } rfl (by decide) hsh ⟨by decide, by decide⟩
  have r2 := pat_section_rt 0 { sectionLength := 1, sectionSyntaxIndicator := true, tableID := 0 } _
    { programs := [{ programMapID := 0x1001, programNumber := 2 }, { programMapID := 0x1002, programNumber := 3 }], transportStreamID := 7 }
    rfl (by decide) hsh ⟨by decide, by decide⟩
  have hrt : SectionsRT [C02.exSec1, C02.exSec2] _ := .cons r1 (.cons r2 .nil)
  refine ⟨0, [C02.exSec1, C02.exSec2], _, [0xff, 0xff, 0xff],
    ⟨by decide, hrt, by simp, by simp, _, writePSIData_bytes 0 (by decide) _ _ hrt, by decide +kernel⟩, ?_, by decide, ?_⟩
  · intro i hi hil j hj hjl
    have hj1 : j = 1 := by simp at hjl; omega
    subst hj1
    have : i = 1 ∨ i = 2 ∨ i = 3 := by simp [xPAT, exTS] at hil; omega
    rcases this with rfl | rfl | rfl <;> decide +kernel
  · intro fp
    rw [psiToData_cons_pat _ _ _ _ _ _ _ _ rfl, psiToData_cons_pat _ _ _ _ _ _ _ _ rfl]
    rfl

theorem xPmtData_ok : PMTOk xPmtData := by
  refine ⟨by decide, fun x hx => (by cases hx), ?_, by decide⟩
  intro es hes
  simp [xPmtData] at hes
  rcases hes with rfl | rfl
  · exact ⟨by decide, by decide, fun x hx => (by cases hx), by decide⟩
  · exact ⟨by decide, by decide, fun x hx => (by cases hx), by decide⟩

theorem xPMT_table : TableUnitE xPMT := by
  have hsh := xSyntaxOk 1 5 (by decide) (by decide)
  have r1 := pmt_section_rt 0 { sectionLength := 1, sectionSyntaxIndicator := true, tableID := 2 } _ xPmtData rfl (by decide)
    hsh xPmtData_ok
  have hrt : SectionsRT [xPmtSec] _ := .cons r1 .nil
  refine ⟨0, [xPmtSec], _, [0xff, 0xff],
    ⟨by decide, hrt, by simp, by simp, _, writePSIData_bytes 0 (by decide) _ _ hrt, by simp [xPMT]⟩, ?_, by decide, ?_⟩
  · intro i _ _ j hj hjl
    simp at hjl; omega
  · intro fp
    rw [psiToData_cons_pmt _ _ _ _ _ _ _ _ rfl]
    rfl

theorem xTOT_si : SIUnit xTOT 1 2 [xTotSec] := by
  refine ⟨rfl, ?_, ?_⟩
  · intro p hp
    simp only [List.mem_cons, List.not_mem_nil, or_false] at hp
    subst hp
    exact SIRT.tot_secAt writeDescriptor SIRT.encPos_writer false true C13.exTOT (C13.exTOT_wf.ok SIRT.encWF_writer)
  · intro fp
    simp [psiToData, xTotSec, SIRT.delivered, SIRT.deliveredHeader, isEIT, xTOT]

theorem xAudioHdr_ok (n : Nat) : PESRT.PESHeaderOk (xAudioHdr n) := by
  refine ⟨by simp [xAudioHdr], ?_⟩
  rw [if_pos (by simp [xAudioHdr]; decide)]
  exact ⟨C12.exAudioOpt, rfl, C12.exAudioOpt_ok⟩

theorem xPadHdr_ok : PESRT.PESHeaderOk xPadHdr := by
  refine ⟨by decide, ?_⟩
  rw [if_neg (by decide)]
  rfl

theorem xPesA_pes : PESUnit xPesA := pesUnit_of_encode xPesA (xAudioHdr 300) xDataA (xAudioHdr_ok 300) (by decide +kernel) rfl rfl rfl
theorem xPesB_pes : PESUnit xPesB := pesUnit_of_encode xPesB (xAudioHdr 5) xDataB (xAudioHdr_ok 5) (by decide +kernel) rfl rfl rfl
theorem xPesC_pes : PESUnit xPesC := pesUnit_of_encode xPesC xPadHdr xDataC xPadHdr_ok (by decide +kernel) rfl rfl rfl

theorem xStream_wf : ∀ u ∈ xStream.units, UnitWF u := by
  intro u hu
  simp only [xStream, List.mem_cons, List.not_mem_nil, or_false] at hu
  rcases hu with rfl | rfl | rfl | rfl | rfl | rfl
  · exact xPAT_wf
  · exact xPesA_wf
  · exact xPMT_wf
  · exact xPesC_wf
  · exact xTOT_wf
  · exact xPesB_wf

/-- the program map the PAT unit defines -/
theorem xPmR : pmLearn xPAT.data [] = [(0x1000, 1), (0x1001, 2), (0x1002, 3)] := by decide +kernel

/-- the PATs of the PAT unit list PMT PIDs of the map they define -/
theorem xPAT_safe : ∀ y ∈ xPAT.data, PatSafe [(0x1000, 1), (0x1001, 2), (0x1002, 3)] y := by
  intro y hy pat hp pg hpg
  simp only [xPAT, List.mem_cons, List.not_mem_nil, or_false] at hy
  rcases hy with rfl | rfl
  · simp only [Option.some.injEq] at hp; subst hp
    simp only [List.mem_cons, List.not_mem_nil, or_false] at hpg; subst hpg; rfl
  · simp only [Option.some.injEq] at hp; subst hp
    simp only [List.mem_cons, List.not_mem_nil, or_false] at hpg
    rcases hpg with rfl | rfl <;> rfl

theorem xStreamWF : StreamWF xStream xPAT []
    [0x100, 0x1000, 0x101, 0x100, 0x14, 0x1000, 0x100, 0x101, 0x1000, 0x100] := by
  refine ⟨xStream_wf, rfl, rfl, by simp [xPAT], ?_⟩
  rw [xPmR]
  intro u hu
  simp only [xStream, List.mem_cons, List.not_mem_nil, or_false] at hu
  rcases hu with rfl | rfl | rfl | rfl | rfl | rfl
  · exact Or.inl ⟨rfl, by decide, xPAT_table, xPAT_safe⟩
  · exact Or.inr (Or.inr ⟨⟨by decide, by decide +kernel⟩, xPesA_pes⟩)
  · refine Or.inl ⟨by decide +kernel, by decide, xPMT_table, ?_⟩
    intro y hy pat hp
    simp only [xPMT, List.mem_cons, List.not_mem_nil, or_false] at hy
    subst hy; cases hp
  · exact Or.inr (Or.inr ⟨⟨by decide, by decide +kernel⟩, xPesC_pes⟩)
  · refine Or.inr (Or.inl ⟨by decide +kernel, by decide +kernel, by decide, ⟨1, 2, [xTotSec], xTOT_si⟩, ?_⟩)
    intro y hy
    simp only [xTOT, List.mem_cons, List.not_mem_nil, or_false] at hy
    subst hy; rfl
  · exact Or.inr (Or.inr ⟨⟨by decide, by decide +kernel⟩, xPesB_pes⟩)

/-- the hypotheses of the whole-stream theorem are satisfiable: the conclusion for `xStream` -/
example : ∃ n, (collect n (demuxOf xStream.bytes)).2 = true ∧
    (∀ r ∈ (collect n (demuxOf xStream.bytes)).1, ∃ x, r = .ok x) ∧
    (∀ pid, pidOut pid (collect n (demuxOf xStream.bytes)).1 = chainExp 0 (unitsOn xStream pid)) ∧
    (∀ e ∈ xStream.expected, pidOut e.1 (collect n (demuxOf xStream.bytes)).1 = e.2) ∧
    (∀ pid, pid ∉ xStream.expected.map (·.1) → pidOut pid (collect n (demuxOf xStream.bytes)).1 = []) :=
  refmux_whole_stream xStream xPAT [] _ xStreamWF

/-- … evaluated: 14 packets; 7 data in 7 calls, then `ErrNoMorePackets`: PAT ×2, PMT, PES A (delivered when PES B starts),
PES C, TOT and PES B (the last three by the end-of-stream drain, PIDs in increasing order) -/
example : (chunksOf xStream).length = 14 ∧ (collect 8 (demuxOf xStream.bytes)).2 = true ∧
    (collect 8 (demuxOf xStream.bytes)).1.map (fun r => match r with | .ok x => x.pid | _ => 99999) =
      [0, 0, 0x1000, 0x100, 0x14, 0x100, 0x101] ∧
    (expectedList xStream).map (fun e => (e.1, e.2.length)) = [(0, 2), (0x100, 2), (0x1000, 1), (0x101, 1), (0x14, 1)] := by
  decide +kernel

/-! #### the per-PID theorems D1–D4 on `xStream` -/

example := refmux_packets xStream xStream_wf

theorem xStreamOK : StreamOK (pmLearn xPAT.data []) xStream := streamOK_of_wf xStream xPAT [] _ xStreamWF

theorem xSafe : ∀ pid, ∀ y ∈ pidData (pmLearn xPAT.data []) pid (chainPk 0 (unitsOn xStream pid)), PatSafe (pmLearn xPAT.data []) y := by
  intro pid y hy
  have h := pidOK_all _ xStream xStreamOK pid
  rw [h.data] at hy
  exact h.safe y hy

theorem xEnd : (collect 8 (demuxOf xStream.bytes)).2 = true := by decide +kernel

/-- D2 on PID 0x100: two PES, the first split over three packets -/
example : pidOut 0x100 (collect 8 (demuxOf xStream.bytes)).1 = chainExp 0 (unitsOn xStream 0x100) :=
  refmux_pes_pid _ xStream xStream_wf xStreamOK.first xSafe 0x100 (by rw [xPmR]; exact ⟨by decide, by decide +kernel⟩)
    (by
      intro u hu
      have : u = xPesA ∨ u = xPesB := by
        simpa [unitsOn, xStream, xPAT, C02b.exTS, xPesA, xPMT, xPesC, xTOT, xPesB] using hu
      rcases this with rfl | rfl
      · exact xPesA_pes
      · exact xPesB_pes) 8 xEnd

/-- D3 on PID 0 (two-section PAT in four packets) and on the PMT PID 0x1000 (first chunk = pointer_field alone) -/
example : pidOut 0 (collect 8 (demuxOf xStream.bytes)).1 = chainExp 0 (unitsOn xStream 0) :=
  refmux_table_pid _ xStream xStream_wf xStreamOK.first xSafe 0 rfl (by decide)
    (by
      intro u hu
      have : u = xPAT := by simpa [unitsOn, xStream, xPAT, C02b.exTS, xPesA, xPMT, xPesC, xTOT, xPesB] using hu
      subst this; exact xPAT_table)
    (by
      intro u hu
      have : u = xPAT := by simpa [unitsOn, xStream, xPAT, C02b.exTS, xPesA, xPMT, xPesC, xTOT, xPesB] using hu
      subst this; rw [xPmR]; exact xPAT_safe) 8 xEnd

example : pidOut 0x1000 (collect 8 (demuxOf xStream.bytes)).1 = chainExp 0 (unitsOn xStream 0x1000) :=
  refmux_table_pid _ xStream xStream_wf xStreamOK.first xSafe 0x1000 (by rw [xPmR]; decide +kernel) (by decide)
    (by
      intro u hu
      have : u = xPMT := by simpa [unitsOn, xStream, xPAT, C02b.exTS, xPesA, xPMT, xPesC, xTOT, xPesB] using hu
      subst this; exact xPMT_table)
    (by
      intro u hu
      have : u = xPMT := by simpa [unitsOn, xStream, xPAT, C02b.exTS, xPesA, xPMT, xPesC, xTOT, xPesB] using hu
      subst this
      intro y hy pat hp
      simp only [xPMT, List.mem_cons, List.not_mem_nil, or_false] at hy
      subst hy; cases hp) 8 xEnd

/-- D4 on PID 0x14: the TOT, delivered by the end-of-stream drain -/
example : pidOut 0x14 (collect 8 (demuxOf xStream.bytes)).1 = chainExp 0 (unitsOn xStream 0x14) :=
  refmux_si_pid _ xStream xStream_wf xStreamOK.first xSafe 0x14 (by rw [xPmR]; decide +kernel) (by rw [xPmR]; decide +kernel)
    (by decide)
    (by
      intro u hu
      have : u = xTOT := by simpa [unitsOn, xStream, xPAT, C02b.exTS, xPesA, xPMT, xPesC, xTOT, xPesB] using hu
      subst this; exact ⟨1, 2, [xTotSec], xTOT_si⟩)
    (by
      intro u hu
      have : u = xTOT := by simpa [unitsOn, xStream, xPAT, C02b.exTS, xPesA, xPMT, xPesC, xTOT, xPesB] using hu
      subst this
      intro y hy
      simp only [xTOT, List.mem_cons, List.not_mem_nil, or_false] at hy
      subst hy; rfl) 8 xEnd

/-! #### the excluded points, evaluated

* (no longer excluded) a discontinuity announced by the first packet of a unit: `xPesB` above does, and is delivered —
  fix F14 of `packetAccumulator.add`; `Proofs/RefMuxDelivers/UnitsDI.lean` redoes the chain lemmas for such units.
* `pes_unit_of_reference` covers `pesEncode h 0 payload` with the PES_packet_length the writer computes.  `PESUnit` itself only
  asks that the payload parses as a PES packet to the expected datum; for header stuffing (`pesEncode h st payload`, `st > 0`,
  `HeaderLength` counting the stuffing) and for PES_packet_length 0 on a non-video stream a reader-side theorem
  `parsePESData.val (pesEncode h st payload) = .ok ⟨payload, h⟩` is what is missing (C12 proves the writer image only).
  Evaluated: 3 bytes of header stuffing and PES_packet_length 0 on an audio stream are delivered as expected.
* `TableUnit.tail` bounds the stuffing-only tail of a PAT/PMT unit (stuffing + payload padding after the packet with the
  last section byte) by 256 bytes: a longer tail looks like a complete unit to `isPSIComplete` and is flushed (and
  parsed to nothing) before the next unit starts, so the flush sequence has another shape.  Evaluated (`xStreamL`, a
  tail of 368 bytes in two packets): the data delivered are still the expected ones.
* `TableUnit.cut` (no packet edge at the start of a later section): the excluded stratum of ISO/IEC 13818-1 2.4.4.1, see
  `C02.inner_boundary_flushes_early`; `StreamWF.sched` (PAT first): see `C07.ex_pmt_before_pat`, a PMT unit read before
  the PAT that announces its PID can be lost. -/

/-- views of a PES datum used in the checks below: PID and payload; PES_packet_length and header length; counter and
discontinuity indicator of the first packet -/
def viewA (d : DemuxerData) : Nat × Option Bytes := (d.pid, d.pes.map (·.data))
def viewB (d : DemuxerData) : Option (Nat × Option Nat) :=
  d.pes.map (fun p => (p.header.packetLength, p.header.optionalHeader.map (·.headerLength)))
def viewC (d : DemuxerData) : Option (Nat × Option Bool) :=
  d.firstPacket.map (fun p => (p.header.continuityCounter, p.adaptationField.map (·.discontinuityIndicator)))

/-- the two PES of PID 0x100 in `xStream`: the second one's first packet (counter 3) announces a discontinuity -/
example : (pidOut 0x100 (collect 8 (demuxOf xStream.bytes)).1).map viewC = [some (0, some false), some (3, some true)] ∧
    (pidOut 0x100 (collect 8 (demuxOf xStream.bytes)).1).map viewB = [some (308, some 5), some (13, some 5)] := by
  decide +kernel

def xOptS : PESOptionalHeader := { C12.exAudioOpt with headerLength := 8 }
def xHdrS : PESHeader := { streamID := 0xc0, optionalHeader := some xOptS, packetLength := 0 }
/-- 3 bytes of PES header stuffing, PES_packet_length 0 -/
def xPesS : TSUnit :=
  { pid := 0x100, payload := Spec.pesEncode xHdrS 3 xDataB,
    data := [{ pes := some { data := xDataB, header := xHdrS } }], psi := false, chunks := [22] }
def xStreamS : StreamModel := { xStream with units := [xPAT, xPesA, xPMT, xPesC, xTOT, xPesS] }

example : (collect 9 (demuxOf xStreamS.bytes)).2 = true ∧
    (pidOut 0x100 (collect 9 (demuxOf xStreamS.bytes)).1).map viewA = (chainExp 0 (unitsOn xStreamS 0x100)).map viewA ∧
    (pidOut 0x100 (collect 9 (demuxOf xStreamS.bytes)).1).map viewB = (chainExp 0 (unitsOn xStreamS 0x100)).map viewB ∧
    (pidOut 0x100 (collect 9 (demuxOf xStreamS.bytes)).1).map viewB = [some (308, some 5), some (0, some 8)] := by
  decide +kernel

/-- PMT with 300 stuffing bytes and payload padding: a stuffing-only tail of 368 bytes in two packets -/
def xPMTlong : TSUnit :=
  { pid := 0x1000, payload := [0] ++ secBytes xPmtSec ++ List.replicate 300 0xff, data := [{ pmt := some xPmtData }],
    psi := true, chunks := [27, 184, 116], padPayload := true }
def xStreamL : StreamModel :=
  { units := [xPAT, xPesA, xPMTlong, xPesC, xTOT, xPesB, { xPMT with chunks := [29] }],
    schedule := [0, 0, 0, 0, 0x100, 0x1000, 0x101, 0x100, 0x14, 0x1000, 0x100, 0x101, 0x1000, 0x100, 0x1000] }

example : (collect 12 (demuxOf xStreamL.bytes)).2 = true ∧
    (collect 12 (demuxOf xStreamL.bytes)).1.map (fun r => match r with | .ok x => x.pid | _ => 99999) =
      [0, 0, 0x1000, 0x100, 0x1000, 0x14, 0x100, 0x101] ∧
    (expectedList xStreamL).map (fun e => (e.1, e.2.length)) = [(0, 2), (0x100, 2), (0x1000, 2), (0x101, 1), (0x14, 1)] ∧
    (pidOut 0x1000 (collect 12 (demuxOf xStreamL.bytes)).1).map (fun d => d.pmt.map (·.programNumber)) =
      (chainExp 0 (unitsOn xStreamL 0x1000)).map (fun d => d.pmt.map (·.programNumber)) := by
  decide +kernel

end WholeStream

end Astits.C02b
