/-
C02, second module (kept apart from Props/C02 because it needs the PES round trip and the mux→demux development, which
themselves build on Props/C02): from packet groups to the data delivered.
-/
import Astits.Proofs.MuxDemux
namespace Astits.C02b
open MuxDemux

/-- **every PES unit of a stream is delivered exactly once, whole, in order (pool + `parseData` level)**: if the
payload-carrying packets of an elementary-stream PID are, in stream order, the packets of units `ws` — cut at arbitrary
points (any chunk sizes: only `concatPayload` of a unit's packets matters), with any adaptation-field stuffing, counters
running on within and across units — each carrying a PES packet with a well-formed header, then, whatever is
interleaved on other PIDs and wherever payload-less packets of the PID stand, the demuxer delivers for that PID exactly
one PES per unit, with the unit's payload bytes and header, in order: every unit but the last when the next unit starts,
the last one at the end-of-stream drain. -/
theorem pes_units_delivered (pm : ProgramMap) (pid : Nat) (hes : ESPid pid pm) (s : List Packet) (ws : List PESUnit)
    (hf : (s.filter fun p => p.header.pid == pid && p.header.hasPayload) = ws.flatMap (·.unit.packets))
    (hon : ∀ w ∈ ws, C02.unitOnPID pid w.unit) (hc : ChainOK [] (ws.map (·.unit)))
    (hw : ∀ w ∈ ws, PESRT.PESHeaderOk w.hdr ∧
      concatPayload w.unit.packets = pesHeaderBytes w.hdr w.data.length ++ w.data) :
    deliveredOn pm pid s = ws.map fun w => .ok [pesDelivered pid w.hdr w.data w.unit.first] :=
  MuxDemux.units_delivered pm pid hes s ws hf hon hc hw

end Astits.C02b
