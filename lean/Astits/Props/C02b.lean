/-
C02, second module (kept apart from Props/C02 because it needs the PES round trip and the mux→demux development, which
themselves build on Props/C02): from packet groups to the data delivered.
-/
import Astits.Proofs.MuxDemux
import Astits.Proofs.MuxDemuxNext
import Astits.Proofs.PSICompleteNext
import Astits.Spec.RefMux
namespace Astits.C02b
open MuxDemux

/-- **every PES unit of a stream is delivered exactly once, whole, in order (pool + `parseData` level)**: if the
payload-carrying packets of an elementary-stream PID are, in stream order, the packets of units `ws` — cut at arbitrary
points (any chunk sizes: only `concatPayload` of a unit's packets matters), with any adaptation-field stuffing, counters
running on within and across units — each carrying a PES packet with a well-formed header, then, whatever is
interleaved on other PIDs and wherever payload-less packets of the PID stand, the demuxer delivers for that PID exactly
one PES per unit, with the unit's payload bytes and header, in order: every unit but the last when the next unit starts,
the last one at the end-of-stream drain. -/
theorem pes_units_delivered (pm : ProgramMap) (pid : Nat) (hes : ESPid pid pm) (s : List Packet) (ws : List PESUnit)
    (hf : (s.filter fun p => p.header.pid == pid && p.header.hasPayload) = ws.flatMap (·.unit.packets))
    (hon : ∀ w ∈ ws, C02.unitOnPID pid w.unit) (hc : ChainOK [] (ws.map (·.unit)))
    (hw : ∀ w ∈ ws, PESRT.PESHeaderOk w.hdr ∧
      concatPayload w.unit.packets = pesHeaderBytes w.hdr w.data.length ++ w.data) :
    deliveredOn pm pid s = ws.map fun w => .ok [pesDelivered pid w.hdr w.data w.unit.first] :=
  MuxDemux.units_delivered pm pid hes s ws hf hon hc hw

/-! ## PSI side, `NextData` level: a PAT/PMT is returned by the call that reads its final packet

E1–E3 at pool level are in `Props/C02.lean`; here they are lifted through the reader, the packet buffer and the data
buffer (`Proofs/PSICompleteNext.lean`). -/

section PSISide
open PSIComplete PSIRT

/-- **"A PAT or PMT is returned by the call that reads its final packet, without consuming any further byte from the
reader."** The demuxer (188-byte packets, no fault, no skipper, no custom parser) is about to read the chunks
`csA ++ cK :: rest`; they parse to the packets `a`, `pk` of a PAT/PMT unit written by `writePSIData` (sections that
round-trip: C13) plus 0xFF stuffing, cut at conformant points, `pk` being the packet with the last section byte; `pid`
is a table PID of the current program map, nothing is queued for it, the data buffer is empty. Then this `NextData`
call returns the first section's data `x`; afterwards the reader stands right after `cK` (`188 * (a.length + 1)` bytes
consumed, `rest` still unread), the other sections' data `xs` are in the data buffer and the PID's queue is empty. -/
theorem table_unit_nextData (pid : Nat) (d : Demux) (htab : (pid == 0 || d.programMap.has pid) = true) (hcat : pid ≠ 1)
    (u : UnitPk) (hu : UnitOK u) (hon : ∀ p ∈ u.packets, p.header.pid = pid)
    (a : List Packet) (pk : Packet) (b : List Packet) (hsplit : u.packets = a ++ [pk] ++ b)
    (pf : Nat) (ss ss' : List PSISection) (stuffing : Bytes)
    (W : WrittenUnit (concatPayload u.packets) pf ss ss' stuffing)
    (hbefore : (concatPayload a).length < 1 + pf + ((ss.map secBytes).flatten).length)
    (hat : 1 + pf + ((ss.map secBytes).flatten).length ≤ (concatPayload (a ++ [pk])).length)
    (hcut : ConformantCut a pf (ss.map secBytes))
    (csA : List Bytes) (cK : Bytes) (rest : List Bytes) (hrep : Rep d (csA ++ cK :: rest)) (hpa : ParsesTo csA a)
    (hpk : (parsePacket none).val cK = .ok pk) (hbuf : d.dataBuffer = []) (hq : d.pool.get pid = [])
    (x : DemuxerData) (xs : List DemuxerData)
    (hds : psiToData { pointerField := (pf : Int), sections := ss' } (firstOf u.packets) pid = x :: xs) :
    ∃ d', d.nextData = (.ok x, d') ∧ Rep d' rest ∧ d'.r.data = d.r.data ∧ d'.r.pos = d.r.pos + 188 * (a.length + 1) ∧
      d'.dataBuffer = xs ∧ d'.pool.get pid = [] :=
  written_unit_nextData pid d htab hcat u hu hon a pk b hsplit pf ss ss' stuffing W hbefore hat hcut csA cK rest hrep hpa hpk
    hbuf hq x xs hds

/-- **the following calls return the remaining sections from the data buffer without reading**: the `k`-th further
call returns the `k`-th buffered datum; reader, pool and program map are those left by the first call -/
theorem buffered_sections_follow (xs : List DemuxerData) (k : Nat) (d : Demux) (h : d.dataBuffer = xs) (hk : k < xs.length) :
    (after k d).nextData = (.ok xs[k], { d with dataBuffer := xs.drop (k + 1) }) :=
  buffered_call_result xs k d h hk

/-- one datum per PAT / PMT section, in order: what `hds` looks like for sections parsed back by the round trip -/
theorem data_of_pat_section (pf : Int) (c : Nat) (h : PSISectionHeader) (sh : PSISectionSyntaxHeader) (x : PATData)
    (r : List PSISection) (fp : Packet) (pid : Nat) (ht : h.tableID = 0) :
    psiToData { pointerField := pf, sections := parsedSection c h sh { pat := some x } :: r } fp pid =
      { firstPacket := some fp, pid := pid, pat := some x } :: psiToData { pointerField := pf, sections := r } fp pid :=
  psiToData_cons_pat pf c h sh x r fp pid ht

theorem data_of_pmt_section (pf : Int) (c : Nat) (h : PSISectionHeader) (sh : PSISectionSyntaxHeader) (x : PMTData)
    (r : List PSISection) (fp : Packet) (pid : Nat) (ht : h.tableID = 2) :
    psiToData { pointerField := pf, sections := parsedSection c h sh { pmt := some x } :: r } fp pid =
      { firstPacket := some fp, pid := pid, pmt := some x } :: psiToData { pointerField := pf, sections := r } fp pid :=
  psiToData_cons_pmt pf c h sh x r fp pid ht

/-! #### non-vacuity: the two-section PAT unit of `Props/C02.lean` as four real 188-byte packets -/

def exTS : Spec.TSUnit :=
  { pid := 0, data := [], psi := true, chunks := [10, 15, 12, 3],
    payload := [0, 0, 176, 13, 0, 7, 199, 0, 0, 0, 1, 240, 0, 80, 134, 190, 104, 0, 176, 17, 0, 7, 199, 0, 0,
      0, 2, 240, 1, 0, 3, 240, 2, 184, 178, 78, 179, 0xff, 0xff, 0xff] }

/-- the reference encoding of the unit's packets (adaptation-field stuffing), counters 15, 0, 1, 2 -/
def exChunks : List Bytes := (Spec.packetsOf exTS 15).map Spec.tsEncode

def okOr (r : Res Packet) : Packet := match r with | .ok p => p | _ => default
def exPk (i : Nat) : Packet := okOr ((parsePacket none).val (exChunks.getD i []))
def exUnit : UnitPk := ⟨exPk 0, [exPk 1, exPk 2, exPk 3]⟩

theorem exPk_parses (i : Nat) (h : ((parsePacket none).val (exChunks.getD i [])).isOk = true) :
    (parsePacket none).val (exChunks.getD i []) = .ok (exPk i) := by
  unfold exPk
  cases hr : (parsePacket none).val (exChunks.getD i []) with
  | ok p => rfl
  | err e => rw [hr] at h; cases h
  | panic => rw [hr] at h; cases h

example : ∃ (d : Demux) (ss' : List PSISection),
    ((0 : Nat) == 0 || d.programMap.has 0) = true ∧ UnitOK exUnit ∧ (∀ p ∈ exUnit.packets, p.header.pid = 0) ∧
    exUnit.packets = [exPk 0, exPk 1] ++ [exPk 2] ++ [exPk 3] ∧
    WrittenUnit (concatPayload exUnit.packets) 0 [C02.exSec1, C02.exSec2] ss' [0xff, 0xff, 0xff] ∧
    (concatPayload [exPk 0, exPk 1]).length < 1 + 0 + (([C02.exSec1, C02.exSec2].map secBytes).flatten).length ∧
    1 + 0 + (([C02.exSec1, C02.exSec2].map secBytes).flatten).length ≤ (concatPayload ([exPk 0, exPk 1] ++ [exPk 2])).length ∧
    ConformantCut [exPk 0, exPk 1] 0 ([C02.exSec1, C02.exSec2].map secBytes) ∧
    Rep d ([exChunks.getD 0 [], exChunks.getD 1 []] ++ exChunks.getD 2 [] :: [exChunks.getD 3 []]) ∧
    ParsesTo [exChunks.getD 0 [], exChunks.getD 1 []] [exPk 0, exPk 1] ∧
    (parsePacket none).val (exChunks.getD 2 []) = .ok (exPk 2) ∧ d.dataBuffer = [] ∧ d.pool.get 0 = [] ∧
    ∃ x xs, psiToData { pointerField := ((0 : Nat) : Int), sections := ss' } (firstOf exUnit.packets) 0 = x :: xs ∧ xs.length = 1 := by
  have hsh : SyntaxHeaderOk { currentNextIndicator := true, tableIDExtension := 7, versionNumber := 3 } :=
    ⟨by decide, by decide, by decide, by decide⟩
  have r1 := pat_section_rt 0 { sectionLength := 1, sectionSyntaxIndicator := true, tableID := 0 } _
    { programs := [{ programMapID := 0x1000, programNumber := 1 }], transportStreamID := 7 } rfl (by decide) hsh ⟨by decide, by decide⟩
  have r2 := pat_section_rt 0 { sectionLength := 1, sectionSyntaxIndicator := true, tableID := 0 } _
    { programs := [{ programMapID := 0x1001, programNumber := 2 }, { programMapID := 0x1002, programNumber := 3 }], transportStreamID := 7 }
    rfl (by decide) hsh ⟨by decide, by decide⟩
  have hrt : SectionsRT [C02.exSec1, C02.exSec2] _ := .cons r1 (.cons r2 .nil)
  have hd : Rep (demuxOf exChunks.flatten)
      ([exChunks.getD 0 [], exChunks.getD 1 []] ++ exChunks.getD 2 [] :: [exChunks.getD 3 []]) := by
    have : [exChunks.getD 0 [], exChunks.getD 1 []] ++ exChunks.getD 2 [] :: [exChunks.getD 3 []] = exChunks := by
      decide +kernel
    rw [this]
    exact rep_demuxOf exChunks (by decide +kernel)
  refine ⟨demuxOf exChunks.flatten, _, by simp, ?_, ?_, ?_, ⟨by decide, hrt, by simp, by simp, _,
    writePSIData_bytes 0 (by decide) _ _ hrt, by decide +kernel⟩, by decide +kernel, by decide +kernel, ?_, hd,
    ⟨exPk_parses 0 (by decide +kernel), exPk_parses 1 (by decide +kernel), trivial⟩, exPk_parses 2 (by decide +kernel),
    rfl, rfl, ?_⟩
  · simp only [UnitOK, Continues, PlainPayload, exUnit]
    decide +kernel
  · intro p hp
    simp only [UnitPk.packets, exUnit, List.mem_cons, List.not_mem_nil, or_false] at hp
    rcases hp with h | h | h | h <;> (rw [h]; decide +kernel)
  · simp [exUnit, UnitPk.packets]
  · intro i hi hia j hj hjl
    have hj1 : j = 1 := by simp at hjl; omega
    subst hj1
    have : i = 1 ∨ i = 2 := by simp at hia; omega
    rcases this with rfl | rfl <;> decide +kernel
  · rw [psiToData_cons_pat _ _ _ _ _ _ _ _ rfl, psiToData_cons_pat _ _ _ _ _ _ _ _ rfl]
    exact ⟨_, _, rfl, rfl⟩

end PSISide

end Astits.C02b
