/-
C07 at the level of `Demux.NextData` — continuation of `Props/C07.lean` (pool level, fixed program map).

(This section lives in its own file because `Props/C07.lean` is imported by `Props/C02.lean`, hence by
`Proofs/MuxDemux.lean` and `Proofs/MuxDemuxNext.lean`, on which the proofs below rest: importing them into
`Props/C07.lean` would be circular.  Proofs: `Astits/Proofs/PerPidData.lean`.)

Setting, as in `C01.nextData_delivers`: a fault-free reader holding whole 188-byte chunks `cs` that all parse
(`ParsesTo cs s`: `s` is the packet sequence), read by a fresh demuxer created with `DemuxerOptPacketSize(188)`
(`demuxOf cs.flatten`), no packet skipper, no custom parser; `collect n d` = the results of up to `n` calls of `NextData`
stopping at `ErrNoMorePackets`, and whether that end was reached; `after k d` = the demuxer after `k` calls;
`pidOut pid rs` = the `.ok` data with PID `pid` among the results `rs`, in order (errors carry no PID).

* `accepted pid p` — `p` is on `pid`, has a payload and no transport error: the packets of `pid` the pool looks at;
* `early pid pm` — the one bit of the program map that `pid` sees: PID 0 or listed as PMT PID;
* `pidData pm₀ pid l` — **the per-PID function**: the `parseData` results of the groups the accumulator of `pid`
  flushes while the packets `l` arrive (and of its last queue), computed with the *fixed* reference map `pm₀`;
* `Idle pid d fed` — the queue of `pid` is empty and no packet of `fed` is accepted on `pid`;
  `d.fedByNextData` — the packets the next `NextData` call hands to the pool (`Proofs/DemuxRuns.lean`);
* `CallOK pid pm₀ d` — `early pid d.programMap = early pid pm₀`, or `pid` is idle during the next call.
-/
import Astits.Props.C07
import Astits.Props.C01
import Astits.Proofs.PerPidData
namespace Astits.C07
open Astits.MuxDemux Astits.MuxCounters Astits.PerPid

/-! ## the general statement: what is delivered on a PID is a function of its accepted packets -/

/-- **C07 through `NextData`, any PID.**  If at every call the program map shows `pid` the same bit as the reference
map `pm₀` — or `pid` is idle during that call — then the data returned for `pid` up to the end of the stream are
`pidData pm₀ pid` of the accepted packets of `pid`: a function of these packets alone.  Whatever else the stream
holds (other PIDs, null packets, adaptation-field-only and transport-error packets — also on `pid` itself —, units that
fail to parse) and however it is interleaved does not matter. -/
theorem nextData_pid_function (pid : Nat) (pm₀ : ProgramMap) (cs : List Bytes) (s : List Packet) (hs : ParsesTo cs s)
    (hlen : ∀ c ∈ cs, c.length = 188) (n : Nat)
    (hok : ∀ k, k < n → CallOK pid pm₀ (after k (demuxOf cs.flatten)))
    (hend : (collect n (demuxOf cs.flatten)).2 = true) :
    pidOut pid (collect n (demuxOf cs.flatten)).1 = pidData pm₀ pid (s.filter (accepted pid)) :=
  nextData_deliversP pid pm₀ cs s hs hlen n hok hend

/-- the reference map matters only through `early pid`: in particular the early flush of a table PID
(`isPSIComplete` of the PID's own queue) and the PSI/PES choice do not depend on the rest of the map -/
theorem pidData_congr (pm pm' : ProgramMap) (pid : Nat) (l : List Packet) (h : early pid pm = early pid pm')
    (hl : ∀ x ∈ l, x.header.pid = pid) : pidData pm pid l = pidData pm' pid l :=
  parsedOn_early pm pm' pid [] l h (fun _ hx => by cases hx) hl

/-! ## P1 — elementary-stream PIDs -/

/-- **P1, as a function.**  `hsafe` as in `C01.nextData_delivers` / `C01.mux_demux_nextData_partial`: during the calls
the program map never makes `pid` a PSI PID. -/
theorem nextData_es_pid_function (pid : Nat) (cs : List Bytes) (s : List Packet) (hs : ParsesTo cs s)
    (hlen : ∀ c ∈ cs, c.length = 188) (n : Nat)
    (hsafe : ∀ k, k < n → ESPid pid (after k (demuxOf cs.flatten)).programMap)
    (hend : (collect n (demuxOf cs.flatten)).2 = true) :
    pidOut pid (collect n (demuxOf cs.flatten)).1 = pidData [] pid (s.filter (accepted pid)) :=
  nextData_pid_function pid [] cs s hs hlen n (fun k hk => Or.inl (early_of_ESPid (hsafe k hk))) hend

/-- **P1 (and P2).**  Two streams with the same accepted packets on `pid`, in the same order; in both runs `pid` is
never a table PID.  Then both runs deliver the same data on `pid`, in the same order — whatever is interleaved: other
PIDs, null packets, adaptation-field-only packets, transport-error packets, garbage that parses as packets.  The
numbers of calls `n₁`, `n₂` and the errors returned in between may differ (`pidOut` keeps the `.ok` data of `pid`). -/
theorem nextData_es_pid_indep (pid : Nat) (cs₁ cs₂ : List Bytes) (s₁ s₂ : List Packet)
    (hs₁ : ParsesTo cs₁ s₁) (hs₂ : ParsesTo cs₂ s₂)
    (hlen₁ : ∀ c ∈ cs₁, c.length = 188) (hlen₂ : ∀ c ∈ cs₂, c.length = 188)
    (hsame : s₁.filter (accepted pid) = s₂.filter (accepted pid)) (n₁ n₂ : Nat)
    (hsafe₁ : ∀ k, k < n₁ → ESPid pid (after k (demuxOf cs₁.flatten)).programMap)
    (hsafe₂ : ∀ k, k < n₂ → ESPid pid (after k (demuxOf cs₂.flatten)).programMap)
    (hend₁ : (collect n₁ (demuxOf cs₁.flatten)).2 = true) (hend₂ : (collect n₂ (demuxOf cs₂.flatten)).2 = true) :
    pidOut pid (collect n₁ (demuxOf cs₁.flatten)).1 = pidOut pid (collect n₂ (demuxOf cs₂.flatten)).1 := by
  rw [nextData_es_pid_function pid cs₁ s₁ hs₁ hlen₁ n₁ hsafe₁ hend₁,
    nextData_es_pid_function pid cs₂ s₂ hs₂ hlen₂ n₂ hsafe₂ hend₂, hsame]

/-- the same with "the same subsequence of packets on `pid`" taken literally (all packets of `pid`, whatever their flags) -/
theorem nextData_es_pid_indep_of_pid_packets (pid : Nat) (cs₁ cs₂ : List Bytes) (s₁ s₂ : List Packet)
    (hs₁ : ParsesTo cs₁ s₁) (hs₂ : ParsesTo cs₂ s₂)
    (hlen₁ : ∀ c ∈ cs₁, c.length = 188) (hlen₂ : ∀ c ∈ cs₂, c.length = 188)
    (hsame : s₁.filter (fun p => p.header.pid == pid) = s₂.filter (fun p => p.header.pid == pid)) (n₁ n₂ : Nat)
    (hsafe₁ : ∀ k, k < n₁ → ESPid pid (after k (demuxOf cs₁.flatten)).programMap)
    (hsafe₂ : ∀ k, k < n₂ → ESPid pid (after k (demuxOf cs₂.flatten)).programMap)
    (hend₁ : (collect n₁ (demuxOf cs₁.flatten)).2 = true) (hend₂ : (collect n₂ (demuxOf cs₂.flatten)).2 = true) :
    pidOut pid (collect n₁ (demuxOf cs₁.flatten)).1 = pidOut pid (collect n₂ (demuxOf cs₂.flatten)).1 :=
  nextData_es_pid_indep pid cs₁ cs₂ s₁ s₂ hs₁ hs₂ hlen₁ hlen₂ (accepted_filter_of_pid_filter pid s₁ s₂ hsame) n₁ n₂
    hsafe₁ hsafe₂ hend₁ hend₂

/-- the same for an order-preserving interleaving: `s₂` is `s₁` with packets not accepted on `pid` inserted anywhere -/
theorem nextData_es_pid_interleaved (pid : Nat) (cs₁ cs₂ : List Bytes) (s₁ s₂ : List Packet)
    (hs₁ : ParsesTo cs₁ s₁) (hs₂ : ParsesTo cs₂ s₂)
    (hlen₁ : ∀ c ∈ cs₁, c.length = 188) (hlen₂ : ∀ c ∈ cs₂, c.length = 188)
    (hint : Interleaved pid s₁ s₂) (n₁ n₂ : Nat)
    (hsafe₁ : ∀ k, k < n₁ → ESPid pid (after k (demuxOf cs₁.flatten)).programMap)
    (hsafe₂ : ∀ k, k < n₂ → ESPid pid (after k (demuxOf cs₂.flatten)).programMap)
    (hend₁ : (collect n₁ (demuxOf cs₁.flatten)).2 = true) (hend₂ : (collect n₂ (demuxOf cs₂.flatten)).2 = true) :
    pidOut pid (collect n₁ (demuxOf cs₁.flatten)).1 = pidOut pid (collect n₂ (demuxOf cs₂.flatten)).1 :=
  nextData_es_pid_indep pid cs₁ cs₂ s₁ s₂ hs₁ hs₂ hlen₁ hlen₂ hint.filter_eq n₁ n₂ hsafe₁ hsafe₂ hend₁ hend₂

/-- every stream is such an interleaving of its own accepted packets on `pid` with the rest -/
theorem stream_interleaved (pid : Nat) (s : List Packet) : Interleaved pid (s.filter (accepted pid)) s :=
  interleaved_filter pid s

/-- **P1 with termination made explicit**: both runs reach the end of the stream after finitely many calls, and from
then on (more calls add nothing) the data collected for `pid` coincide -/
theorem nextData_es_pid_indep_all (pid : Nat) (cs₁ cs₂ : List Bytes) (s₁ s₂ : List Packet)
    (hs₁ : ParsesTo cs₁ s₁) (hs₂ : ParsesTo cs₂ s₂)
    (hlen₁ : ∀ c ∈ cs₁, c.length = 188) (hlen₂ : ∀ c ∈ cs₂, c.length = 188)
    (hsame : s₁.filter (accepted pid) = s₂.filter (accepted pid))
    (hsafe₁ : ∀ k, ESPid pid (after k (demuxOf cs₁.flatten)).programMap)
    (hsafe₂ : ∀ k, ESPid pid (after k (demuxOf cs₂.flatten)).programMap) :
    ∃ n₁ n₂, (collect n₁ (demuxOf cs₁.flatten)).2 = true ∧ (collect n₂ (demuxOf cs₂.flatten)).2 = true ∧
      ∀ j₁ j₂, pidOut pid (collect (n₁ + j₁) (demuxOf cs₁.flatten)).1 =
        pidOut pid (collect (n₂ + j₂) (demuxOf cs₂.flatten)).1 := by
  obtain ⟨n₁, h₁⟩ := nextData_terminates cs₁ s₁ hs₁ hlen₁
  obtain ⟨n₂, h₂⟩ := nextData_terminates cs₂ s₂ hs₂ hlen₂
  refine ⟨n₁, n₂, h₁, h₂, fun j₁ j₂ => ?_⟩
  rw [collect_stable n₁ _ h₁ j₁, collect_stable n₂ _ h₂ j₂]
  exact nextData_es_pid_indep pid cs₁ cs₂ s₁ s₂ hs₁ hs₂ hlen₁ hlen₂ hsame n₁ n₂ (fun k _ => hsafe₁ k)
    (fun k _ => hsafe₂ k) h₁ h₂

/-! ## P2 — errors

The results of the two runs are *not* equal as lists: a unit of another PID that fails to parse makes one call return
an error in one run and not in the other (see `ex_results_differ` below), and the number of calls differs.  What is
invariant is `pidOut pid`: the `.ok` data with PID `pid`, in order (`pidOut_eq_okData`).  The errors themselves are all
of one kind here (`nextData_errors_other`): packets that parse never make the packet buffer fail, so the only error
before `ErrNoMorePackets` is a flushed unit that `parseData` rejects; such an error carries no PID. -/

/-- the `.ok` data among results -/
def okData (rs : List (Res DemuxerData)) : List DemuxerData :=
  rs.filterMap fun r => match r with | .ok x => some x | _ => none

/-- `pidOut pid` is: drop the errors, keep the data whose PID is `pid`, keep the order -/
theorem pidOut_eq_okData (pid : Nat) (rs : List (Res DemuxerData)) : pidOut pid rs = (okData rs).filter (·.pid == pid) := by
  induction rs with
  | nil => rfl
  | cons r rs ih =>
    rw [pidOut_cons, ih]
    cases r with
    | ok x =>
      by_cases hx : x.pid = pid
      · simp [pidOut, okData, hx]
      · simp [pidOut, okData, hx]
    | err e => simp [pidOut, okData]
    | panic => simp [pidOut, okData]

/-- every error returned before the end of the stream is a unit that failed to parse (`Err.other`) -/
theorem nextData_errors_other (cs : List Bytes) (s : List Packet) (hs : ParsesTo cs s) (hlen : ∀ c ∈ cs, c.length = 188)
    (n : Nat) : ∀ r ∈ (collect n (demuxOf cs.flatten)).1, ∀ e, r = .err e → e = .other :=
  collect_errs n _ cs s (rep_demuxOf cs hlen) hs trivial

/-! ## P3 — table PIDs -/

/-- the early flush and the parse of a PID listed in the program map do not depend on what else the map lists -/
theorem table_pid_accAdd_indep (pm pm' : ProgramMap) (pid : Nat) (q : List Packet) (p : Packet)
    (h : pm.has pid = true) (h' : pm'.has pid = true) : accAdd pm pid q p = accAdd pm' pid q p :=
  accAdd_early pm pm' pid q p (early_of_has (h.trans h'.symm))

/-- **P3, as a function.**  `pid` becomes a table PID when a PAT listing it is delivered: after `k₀` calls the program
map lists `pid` (`hpat`; it then lists it for ever), and these first `k₀` calls read no packet accepted on `pid`
(`hquiet`) — the PAT is delivered before the first packet of `pid`.  Then the data returned for `pid` are
`pidData [(pid, 1)] pid` of the accepted packets of `pid`: units flushed as soon as `isPSIComplete` holds for the
PID's own queue, parsed as PSI. -/
theorem nextData_table_pid_function (pid : Nat) (cs : List Bytes) (s : List Packet) (hs : ParsesTo cs s)
    (hlen : ∀ c ∈ cs, c.length = 188) (n k₀ : Nat)
    (hpat : (after k₀ (demuxOf cs.flatten)).programMap.has pid = true)
    (hquiet : ∀ k, k < k₀ → ∀ p ∈ (after k (demuxOf cs.flatten)).fedByNextData, accepted pid p = false)
    (hend : (collect n (demuxOf cs.flatten)).2 = true) :
    pidOut pid (collect n (demuxOf cs.flatten)).1 = pidData [(pid, 1)] pid (s.filter (accepted pid)) :=
  nextData_pid_function pid [(pid, 1)] cs s hs hlen n
    (fun k _ => callOK_of_pat pid [(pid, 1)] (by simp [ProgramMap.has]) _ cs s (rep_demuxOf cs hlen) hs trivial rfl
      k₀ hpat hquiet k) hend

/-- **P3.**  Two streams with the same accepted packets on `pid`; in both, the PAT announcing `pid` is delivered before
the first packet of `pid` is read.  Then both runs deliver the same tables on `pid`, in the same order. -/
theorem nextData_table_pid_indep (pid : Nat) (cs₁ cs₂ : List Bytes) (s₁ s₂ : List Packet)
    (hs₁ : ParsesTo cs₁ s₁) (hs₂ : ParsesTo cs₂ s₂)
    (hlen₁ : ∀ c ∈ cs₁, c.length = 188) (hlen₂ : ∀ c ∈ cs₂, c.length = 188)
    (hsame : s₁.filter (accepted pid) = s₂.filter (accepted pid)) (n₁ n₂ k₁ k₂ : Nat)
    (hpat₁ : (after k₁ (demuxOf cs₁.flatten)).programMap.has pid = true)
    (hpat₂ : (after k₂ (demuxOf cs₂.flatten)).programMap.has pid = true)
    (hquiet₁ : ∀ k, k < k₁ → ∀ p ∈ (after k (demuxOf cs₁.flatten)).fedByNextData, accepted pid p = false)
    (hquiet₂ : ∀ k, k < k₂ → ∀ p ∈ (after k (demuxOf cs₂.flatten)).fedByNextData, accepted pid p = false)
    (hend₁ : (collect n₁ (demuxOf cs₁.flatten)).2 = true) (hend₂ : (collect n₂ (demuxOf cs₂.flatten)).2 = true) :
    pidOut pid (collect n₁ (demuxOf cs₁.flatten)).1 = pidOut pid (collect n₂ (demuxOf cs₂.flatten)).1 := by
  rw [nextData_table_pid_function pid cs₁ s₁ hs₁ hlen₁ n₁ k₁ hpat₁ hquiet₁ hend₁,
    nextData_table_pid_function pid cs₂ s₂ hs₂ hlen₂ n₂ k₂ hpat₂ hquiet₂ hend₂, hsame]

/-- **PID 0** needs no hypothesis about the run at all: the PATs delivered are a function of the packets of PID 0 -/
theorem nextData_pat_indep (cs₁ cs₂ : List Bytes) (s₁ s₂ : List Packet)
    (hs₁ : ParsesTo cs₁ s₁) (hs₂ : ParsesTo cs₂ s₂)
    (hlen₁ : ∀ c ∈ cs₁, c.length = 188) (hlen₂ : ∀ c ∈ cs₂, c.length = 188)
    (hsame : s₁.filter (accepted 0) = s₂.filter (accepted 0)) (n₁ n₂ : Nat)
    (hend₁ : (collect n₁ (demuxOf cs₁.flatten)).2 = true) (hend₂ : (collect n₂ (demuxOf cs₂.flatten)).2 = true) :
    pidOut 0 (collect n₁ (demuxOf cs₁.flatten)).1 = pidOut 0 (collect n₂ (demuxOf cs₂.flatten)).1 := by
  rw [nextData_pid_function 0 [] cs₁ s₁ hs₁ hlen₁ n₁ (fun _ _ => Or.inl (early_zero _ _)) hend₁,
    nextData_pid_function 0 [] cs₂ s₂ hs₂ hlen₂ n₂ (fun _ _ => Or.inl (early_zero _ _)) hend₂, hsame]

/-- **any PID the program map never lists** (elementary streams, but also the CAT PID 1, whose units are dropped, and
the DVB SI PIDs 0x10–0x14, 0x1e, 0x1f, whose units are parsed as PSI without early flush) -/
theorem nextData_unlisted_pid_indep (pid : Nat) (cs₁ cs₂ : List Bytes) (s₁ s₂ : List Packet)
    (hs₁ : ParsesTo cs₁ s₁) (hs₂ : ParsesTo cs₂ s₂)
    (hlen₁ : ∀ c ∈ cs₁, c.length = 188) (hlen₂ : ∀ c ∈ cs₂, c.length = 188)
    (hsame : s₁.filter (accepted pid) = s₂.filter (accepted pid)) (n₁ n₂ : Nat)
    (hun₁ : ∀ k, k < n₁ → (after k (demuxOf cs₁.flatten)).programMap.has pid = false)
    (hun₂ : ∀ k, k < n₂ → (after k (demuxOf cs₂.flatten)).programMap.has pid = false)
    (hend₁ : (collect n₁ (demuxOf cs₁.flatten)).2 = true) (hend₂ : (collect n₂ (demuxOf cs₂.flatten)).2 = true) :
    pidOut pid (collect n₁ (demuxOf cs₁.flatten)).1 = pidOut pid (collect n₂ (demuxOf cs₂.flatten)).1 := by
  rw [nextData_pid_function pid [] cs₁ s₁ hs₁ hlen₁ n₁ (fun k hk => Or.inl (early_of_has (hun₁ k hk))) hend₁,
    nextData_pid_function pid [] cs₂ s₂ hs₂ hlen₂ n₂ (fun k hk => Or.inl (early_of_has (hun₂ k hk))) hend₂, hsame]

/-! ## non-vacuity: the example history of C01 (PAT, PMT on PID 4096, three PES on PID 256, tables repeated) and the
same packets with others interleaved -/

/-- the ten chunks the muxer wrote in C01's example history: PAT, PMT, PES 1 (two packets), PAT, PMT, PES 2, an
adaptation-field-only packet and the two packets of PES 3 -/
@[irreducible] def exCs : List Bytes := (run C01.exM0 C01.exOps).1

def mkPkt (b1 b2 b3 : Nat) (payload : Bytes) : Bytes :=
  [0x47, b1, b2, b3] ++ payload ++ List.replicate (184 - payload.length) 0xff

/-- a null packet (PID 0x1fff) -/
def nullPkt : Bytes := mkPkt 0x1f 0xff 0x10 []
/-- PID 0x200, unit start: a payload that starts like a PES packet and is cut short — a unit that fails to parse -/
def garbage (cc : Nat) : Bytes := mkPkt 0x42 0x00 (0x10 + cc) [0, 0, 1, 0xe0, 0, 0, 0x80, 0xc0, 0xff]
/-- PID 256 with the transport error indicator set -/
def teiPkt : Bytes := mkPkt 0x81 0x00 0x15 [1, 2, 3]
/-- PID 256, adaptation field only -/
def afOnlyPkt : Bytes := [0x47, 0x01, 0x00, 0x20, 183, 0] ++ List.replicate 182 0xff
/-- PID 4096 (the PMT PID) with the transport error indicator set -/
def teiPmtPkt : Bytes := mkPkt 0x90 0x00 0x1a [9, 9, 9]

/-- the same ten chunks, in the same order, with seven others in between -/
@[irreducible] def exCs₂ : List Bytes :=
  [nullPkt] ++ exCs.take 3 ++ [garbage 0, afOnlyPkt] ++ (exCs.drop 3).take 4 ++ [teiPkt, garbage 1, teiPmtPkt] ++
    exCs.drop 7 ++ [nullPkt]

/-- the first PMT packet moved in front of the first PAT packet -/
@[irreducible] def exCs₃ : List Bytes := [exCs.getD 1 [], exCs.getD 0 []] ++ exCs.drop 2

def pktsOf (cs : List Bytes) : List Packet := (C01.parseAll cs).getD []

theorem parsesTo_pktsOf (cs : List Bytes) (h : (C01.parseAll cs).isSome = true) : ParsesTo cs (pktsOf cs) := by
  unfold pktsOf
  cases hp : C01.parseAll cs with
  | none => rw [hp] at h; cases h
  | some s => exact C01.parsesTo_of_parseAll hp

def errCount (rs : List (Res DemuxerData)) : Nat :=
  (rs.filter fun r => match r with | .err _ => true | _ => false).length

theorem ex_some₁ : (C01.parseAll exCs).isSome = true := by decide +kernel
theorem ex_parses₁ : ParsesTo exCs (pktsOf exCs) := parsesTo_pktsOf exCs ex_some₁
theorem ex_some₂ : (C01.parseAll exCs₂).isSome = true := by decide +kernel
theorem ex_parses₂ : ParsesTo exCs₂ (pktsOf exCs₂) := parsesTo_pktsOf exCs₂ ex_some₂
theorem ex_some₃ : (C01.parseAll exCs₃).isSome = true := by decide +kernel
theorem ex_parses₃ : ParsesTo exCs₃ (pktsOf exCs₃) := parsesTo_pktsOf exCs₃ ex_some₃
theorem ex_len₁ : ∀ c ∈ exCs, c.length = 188 := by decide +kernel
theorem ex_len₂ : ∀ c ∈ exCs₂, c.length = 188 := by decide +kernel
theorem ex_len₃ : ∀ c ∈ exCs₃, c.length = 188 := by decide +kernel

/-- 10 packets against 17; the same accepted packets on PID 256 (five) and on PID 4096 (two) -/
theorem ex_sizes : (pktsOf exCs).length = 10 ∧ (pktsOf exCs₂).length = 17 ∧
    ((pktsOf exCs).filter (accepted 256)).length = 5 ∧ ((pktsOf exCs).filter (accepted 4096)).length = 2 := by
  decide +kernel
theorem ex_same_256 : (pktsOf exCs).filter (accepted 256) = (pktsOf exCs₂).filter (accepted 256) := by decide +kernel
theorem ex_same_4096 : (pktsOf exCs).filter (accepted 4096) = (pktsOf exCs₂).filter (accepted 4096) := by decide +kernel
theorem ex_same_0 : (pktsOf exCs).filter (accepted 0) = (pktsOf exCs₂).filter (accepted 0) := by decide +kernel

/-- the second stream is the first with packets not accepted on PID 256 inserted: a null packet, units of PID 0x200, an
adaptation-field-only packet and a transport-error packet of PID 256 itself, a transport-error packet of PID 4096 -/
theorem ex_interleaved : Interleaved 256 (pktsOf exCs) (pktsOf exCs₂) :=
  interleaved_of_B 256 _ _ (by decide +kernel)

theorem ex_end₁ : (collect 8 (demuxOf exCs.flatten)).2 = true := by decide +kernel
theorem ex_end₂ : (collect 9 (demuxOf exCs₂.flatten)).2 = true := by decide +kernel
theorem ex_safe₁ : ∀ k, k < 8 → ESPid 256 (after k (demuxOf exCs.flatten)).programMap := by decide +kernel
theorem ex_safe₂ : ∀ k, k < 9 → ESPid 256 (after k (demuxOf exCs₂.flatten)).programMap := by decide +kernel

/-- P1 on the example: the hypotheses of `nextData_es_pid_indep` hold, the conclusion is about three PES -/
example : pidOut 256 (collect 8 (demuxOf exCs.flatten)).1 = pidOut 256 (collect 9 (demuxOf exCs₂.flatten)).1 :=
  nextData_es_pid_indep 256 exCs exCs₂ (pktsOf exCs) (pktsOf exCs₂) ex_parses₁ ex_parses₂ ex_len₁ ex_len₂ ex_same_256 8 9 ex_safe₁ ex_safe₂
    ex_end₁ ex_end₂

example : pidOut 256 (collect 8 (demuxOf exCs.flatten)).1 = pidOut 256 (collect 9 (demuxOf exCs₂.flatten)).1 :=
  nextData_es_pid_interleaved 256 exCs exCs₂ (pktsOf exCs) (pktsOf exCs₂) ex_parses₁ ex_parses₂ ex_len₁ ex_len₂
    ex_interleaved 8 9 ex_safe₁ ex_safe₂ ex_end₁ ex_end₂

example : (pidOut 256 (collect 8 (demuxOf exCs.flatten)).1).length = 3 := by decide +kernel

/-- P2 on the example: the second run returns one result more — the error of the unit of PID 0x200 that fails to
parse — (and a second such unit is dropped silently by the end-of-stream drain); the first run returns no error -/
theorem ex_results_differ :
    (collect 8 (demuxOf exCs.flatten)).1.length = 7 ∧ errCount (collect 8 (demuxOf exCs.flatten)).1 = 0 ∧
    (collect 9 (demuxOf exCs₂.flatten)).1.length = 8 ∧ errCount (collect 9 (demuxOf exCs₂.flatten)).1 = 1 := by
  decide +kernel

/-- P3 on the example, PID 4096: in both runs the first call delivers the PAT and reads no packet of PID 4096 -/
theorem ex_pat₁ : (after 1 (demuxOf exCs.flatten)).programMap.has 4096 = true := by decide +kernel
theorem ex_pat₂ : (after 1 (demuxOf exCs₂.flatten)).programMap.has 4096 = true := by decide +kernel
theorem ex_quiet₁ : ∀ k, k < 1 → ∀ p ∈ (after k (demuxOf exCs.flatten)).fedByNextData, accepted 4096 p = false := by
  decide +kernel
theorem ex_quiet₂ : ∀ k, k < 1 → ∀ p ∈ (after k (demuxOf exCs₂.flatten)).fedByNextData, accepted 4096 p = false := by
  decide +kernel

example : pidOut 4096 (collect 8 (demuxOf exCs.flatten)).1 = pidOut 4096 (collect 9 (demuxOf exCs₂.flatten)).1 :=
  nextData_table_pid_indep 4096 exCs exCs₂ (pktsOf exCs) (pktsOf exCs₂) ex_parses₁ ex_parses₂ ex_len₁ ex_len₂ ex_same_4096 8 9 1 1 ex_pat₁ ex_pat₂
    ex_quiet₁ ex_quiet₂ ex_end₁ ex_end₂

example : (pidOut 4096 (collect 8 (demuxOf exCs.flatten)).1).length = 2 := by decide +kernel

/-- PID 0 on the example -/
example : pidOut 0 (collect 8 (demuxOf exCs.flatten)).1 = pidOut 0 (collect 9 (demuxOf exCs₂.flatten)).1 :=
  nextData_pat_indep exCs exCs₂ (pktsOf exCs) (pktsOf exCs₂) ex_parses₁ ex_parses₂ ex_len₁ ex_len₂ ex_same_0 8 9 ex_end₁ ex_end₂

/-- **the excluded point of P3**: the same packets on PID 4096, but the first of them read *before* the PAT that
announces the PID (`exCs₃`; the first call reads it while the program map is still empty).  The unit is queued as an
elementary-stream unit; when the next PMT packet arrives — now on a table PID — it completes a section on its own and
is flushed early, and the unit queued before is dropped without being parsed and without an error
(`packetAccumulator.add`: `ps = mps` overwrites the unit flushed by the unit start): one PMT is delivered instead of
two.  The hypothesis of `nextData_table_pid_indep` is therefore needed. -/
theorem ex_pmt_before_pat :
    (pktsOf exCs₃).filter (accepted 4096) = (pktsOf exCs).filter (accepted 4096) ∧
    (collect 8 (demuxOf exCs₃.flatten)).2 = true ∧
    (after 0 (demuxOf exCs₃.flatten)).programMap.has 4096 = false ∧
    ((after 0 (demuxOf exCs₃.flatten)).fedByNextData.map (·.header.pid)) = [4096, 0] ∧
    (pidOut 4096 (collect 8 (demuxOf exCs₃.flatten)).1).length = 1 ∧
    (pidOut 4096 (collect 8 (demuxOf exCs.flatten)).1).length = 2 ∧
    errCount (collect 8 (demuxOf exCs₃.flatten)).1 = 0 := by
  decide +kernel

end Astits.C07
