/-
C12 — PES headers and timestamps are decoded and encoded per ISO 13818-1.
-/
import Astits.Proofs.Layout
import Astits.Proofs.PESRT
import Astits.Generated.Exprs
namespace Astits.C12

/-- PTS and DTS: all 2^33 values, whatever the 4-bit prefix ('0010', '0011', '0001') -/
theorem pts_roundtrip (prefix4 base : Nat) (hb : base < 2 ^ 33) :
    ptsOfBytes (ptsBytes prefix4 { base := base, extension := 0 }) = { base := base, extension := 0 } :=
  Astits.pts_roundtrip prefix4 base (by simpa using hb)

/-- ESCR: all 2^33 base values and all 2^9 extensions -/
theorem escr_roundtrip (base ext : Nat) (hb : base < 2 ^ 33) (he : ext < 2 ^ 9) :
    escrOfBytes (escrBytes { base := base, extension := ext }) = { base := base, extension := ext } :=
  Astits.escr_roundtrip base ext (by simpa using hb) (by simpa using he)

/-- all 256 trick-mode bytes: what is decoded is re-encoded to a byte that decodes to the same value, and the
decoded fields are the bit fields of ISO 13818-1 2.4.3.7 -/
theorem trickmode_all_bytes : ∀ b : Fin 256,
    (dsmBytes (parseDSMTrickMode b.val)).length = 1 ∧
    parseDSMTrickMode ((dsmBytes (parseDSMTrickMode b.val)).getD 0 0) = parseDSMTrickMode b.val ∧
    (parseDSMTrickMode b.val).trickModeControl = b.val / 32 := by
  decide +kernel

/-- ES rate: 22 bits between two marker bits in three bytes -/
theorem es_rate_roundtrip (r : Nat) (hr : r < 4194304) :
    let bs := packFields [(1, 1), (r, 22), (1, 1)]
    (bs.getD 0 0 % 128) * 32768 + bs.getD 1 0 * 128 + bs.getD 2 0 / 2 = r := by
  simp only [packFields, fieldsWidth, fieldsValue, beBytes, List.getD_cons_zero, List.getD_cons_succ]
  simp only [Nat.reducePow, Nat.reduceAdd, Nat.reduceDiv, Nat.pow_zero, Nat.div_one, Nat.pow_one]
  omega

/-- `ClockReference.Duration()`: base/90 kHz + extension/27 MHz, each term truncated to nanoseconds; no int64
overflow for any 33-bit base (base · 10^9 < 2^63) -/
theorem duration_exact (base ext : Nat) (hb : base < 2 ^ 33) (he : ext < 2 ^ 9) :
    ({ base := base, extension := ext } : ClockReference).duration
      = ((base * 1000000000 / 90000 + ext * 1000000000 / 27000000 : Nat) : Int)
    ∧ base * 1000000000 < 2 ^ 63 := by
  constructor
  · unfold ClockReference.duration
    simp only
    have h1 : ((base : Int) * 1000000000).tdiv 90000 = ((base * 1000000000 / 90000 : Nat) : Int) := by
      have : (base : Int) * 1000000000 = ((base * 1000000000 : Nat) : Int) := by simp
      rw [this, Int.natCast_tdiv_eq_ediv]; simp
    have h2 : ((ext : Int) * 1000000000).tdiv 27000000 = ((ext * 1000000000 / 27000000 : Nat) : Int) := by
      have : (ext : Int) * 1000000000 = ((ext * 1000000000 : Nat) : Int) := by simp
      rw [this, Int.natCast_tdiv_eq_ediv]; simp
    rw [h1, h2]; simp
  · have : (2:Nat) ^ 33 = 8589934592 := by decide
    have : (2:Nat) ^ 63 = 9223372036854775808 := by decide
    omega

/-- the duration is within 2 ns below the exact value (two truncations) -/
theorem duration_error (base ext : Nat) :
    let exactNum := base * 1000000000 * 300 + ext * 1000000000   -- exact duration × 27 000 000
    let d := base * 1000000000 / 90000 + ext * 1000000000 / 27000000
    d * 27000000 ≤ exactNum ∧ exactNum < (d + 2) * 27000000 := by
  intro exactNum d
  constructor <;> omega

/-- PES_packet_length written by the library: 0 for video stream ids or when it would exceed 65535, otherwise the
bytes that follow the field -/
theorem length_rule (h : PESHeader) (n : Nat) :
    pesPacketLengthFor h n =
      if isVideoStream h.streamID then 0
      else if n + (if hasPESOptionalHeader h.streamID then calcPESOptionalHeaderLength h.optionalHeader else 0) > 65535 then 0
      else n + (if hasPESOptionalHeader h.streamID then calcPESOptionalHeaderLength h.optionalHeader else 0) := by
  unfold pesPacketLengthFor
  split <;> simp

/-- tie: the Go predicates of today -/
theorem generated_hasOptionalHeader : ∀ s : Fin 256, Generated.hasPESOptionalHeader s.val = hasPESOptionalHeader s.val := by
  decide +kernel
theorem generated_isVideoStream : ∀ s : Fin 256, Generated.isVideoStream s.val = isVideoStream s.val := by
  decide +kernel

example : parseDSMTrickMode 0x6b = { trickModeControl := 3, fieldID := 1, intraSliceRefresh := 0, frequencyTruncation := 3 } := by decide

open Astits.PSIRT Astits.PESRT

/-! ## Whole-header round trip (helpers in `Proofs/PESRT.lean`, namespace `Astits.PESRT`)

`PESHeaderOk h`: 8-bit stream id; an optional header is present exactly for the stream ids that carry one, and it
satisfies `PESOptOk`:
* `MarkerBits = 2`, 2-bit scrambling control, 2-bit `PTSDTSIndicator`;
* `PTS` present (33-bit base, extension 0) exactly when the indicator is 2 or 3, `DTS` exactly when it is 3;
* `ESCR` (33-bit base, 9-bit extension), `ESRate` (22 bits), `DSMTrickMode` (`DSMOk`: the fields the mode uses fit
  their bits, the others are 0), `AdditionalCopyInfo` (7 bits) present exactly when their flag is set, zero/nil otherwise;
* no CRC and no pack header field (the writer never emits them), `HasOptionalFields = false` (never set by the parser);
* extension: the four sub-flags are clear when `HasExtension` is clear; 16 bytes of private data, 7-bit packet sequence
  counter / 1-bit MPEG1-or-2 id / 6-bit original stuffing length, 1-bit P-STD scale / 13-bit size, extension 2 data of
  fewer than 128 bytes with `Extension2Length` its length — each present exactly when its flag is set;
* `HeaderLength = calcPESOptionalHeaderDataLength h` (the parser recomputes it from the byte; no stuffing is written).

Recomputed by the parser: `PacketLength` (what `writePESHeader` computes: 0 for video stream ids or above 65535,
otherwise payload + optional header). -/

/-- **PES round trip**: header and payload come back from `pesHeaderBytes h n ++ payload`, whole slice consumed; the
header is `h` with `PacketLength` as the writer computed it -/
theorem pes_roundtrip (h : PESHeader) (payload : Bytes) (ok : PESHeaderOk h) :
    parsePESData ⟨pesHeaderBytes h payload.length ++ payload, 0⟩ =
      .ok ({ data := payload, header := { h with packetLength := pesPacketLengthFor h payload.length } },
           ⟨pesHeaderBytes h payload.length ++ payload, ((pesHeaderBytes h payload.length ++ payload).length : Nat)⟩) :=
  parsePESData_written h payload ok

/-- bounded packets: `PacketLength` = optional header + payload, the header comes back unchanged -/
theorem pes_roundtrip_bounded (h : PESHeader) (payload : Bytes) (ok : PESHeaderOk h) (hv : isVideoStream h.streamID = false)
    (hfit : payload.length + (if hasPESOptionalHeader h.streamID then calcPESOptionalHeaderLength h.optionalHeader else 0) ≤ 65535)
    (hpl : h.packetLength = payload.length + (if hasPESOptionalHeader h.streamID then calcPESOptionalHeaderLength h.optionalHeader else 0)) :
    (parsePESData.val (pesHeaderBytes h payload.length ++ payload)) = .ok { data := payload, header := h } := by
  unfold P.val
  rw [pes_roundtrip h payload ok]
  simp only
  have : pesPacketLengthFor h payload.length = h.packetLength := by
    rw [length_rule, hpl]
    simp only [hv, Bool.false_eq_true, if_false]
    rw [if_neg (by omega)]
  rw [this]

/-- unbounded packets (`PacketLength = 0`): video stream ids, or more than 65535 bytes -/
theorem pes_roundtrip_unbounded (h : PESHeader) (payload : Bytes) (ok : PESHeaderOk h) (hpl : h.packetLength = 0)
    (hu : isVideoStream h.streamID = true ∨
      payload.length + (if hasPESOptionalHeader h.streamID then calcPESOptionalHeaderLength h.optionalHeader else 0) > 65535) :
    (parsePESData.val (pesHeaderBytes h payload.length ++ payload)) = .ok { data := payload, header := h } := by
  unfold P.val
  rw [pes_roundtrip h payload ok]
  simp only
  have : pesPacketLengthFor h payload.length = h.packetLength := by
    rw [length_rule, hpl]
    rcases hu with hv | hl
    · simp [hv]
    · by_cases hv : isVideoStream h.streamID = true
      · simp [hv]
      · have hv' : isVideoStream h.streamID = false := by simpa using hv
        simp only [hv', Bool.false_eq_true, if_false]
        rw [if_pos hl]
  rw [this]

/-- the optional header alone: its bytes have the announced length, and parsing them wherever they stand gives the
header back together with the payload start `offset + 3 + PES_header_data_length` -/
theorem pes_optional_header_roundtrip (h : PESOptionalHeader) (ok : PESOptOk h) (pre post : Bytes) :
    (pesOptionalHeaderBytes h).length = 3 + calcPESOptionalHeaderDataLength h ∧
    ∃ j, parsePESOptionalHeader ⟨pre ++ pesOptionalHeaderBytes h ++ post, pre.length⟩ =
      .ok ((h, (pre.length : Int) + 3 + ((calcPESOptionalHeaderDataLength h : Nat) : Int)), j) :=
  ⟨pesOptionalHeaderBytes_length h ok,
   (parsePESOptionalHeader_written h ok _ _ post ⟨pre, by simp, rfl⟩).imp fun _ hj => hj.1⟩

/-! #### non-vacuity -/

/-- an audio header as the muxer's callers build it: PTS only -/
def exAudioOpt : PESOptionalHeader :=
  { markerBits := 2, ptsDTSIndicator := 2, pts := some { base := 90000, extension := 0 }, headerLength := 5, dataAlignmentIndicator := true }

theorem exAudioOpt_ok : PESOptOk exAudioOpt where
  markerBits := rfl
  scramblingControl := by decide
  ind := by decide
  pts := by rw [if_pos (by decide)]; exact ⟨90000, by decide, rfl⟩
  dts := by rw [if_neg (by decide)]; rfl
  escr := by rw [if_neg (by decide)]; rfl
  esRate := by rw [if_neg (by decide)]; rfl
  dsm := by rw [if_neg (by decide)]; rfl
  aci := by rw [if_neg (by decide)]; rfl
  noCRC := ⟨rfl, rfl⟩
  noOptionalFields := rfl
  noPack := ⟨rfl, rfl⟩
  headerLength := by decide +kernel
  extFlags := fun _ => ⟨rfl, rfl, rfl, rfl⟩
  priv := by rw [if_neg (by decide)]; rfl
  psc := by rw [if_neg (by decide)]; exact ⟨rfl, rfl, rfl⟩
  pstd := by rw [if_neg (by decide)]; exact ⟨rfl, rfl⟩
  ext2 := by rw [if_neg (by decide)]; exact ⟨rfl, rfl⟩

def exAudio : PESHeader := { streamID := 0xc0, optionalHeader := some exAudioOpt, packetLength := 8 + 100 }

example : PESHeaderOk exAudio := by
  refine ⟨by decide, ?_⟩
  rw [if_pos (by decide)]
  exact ⟨exAudioOpt, rfl, exAudioOpt_ok⟩

/-- every optional field at once: PTS and DTS, ESCR, ES rate, trick mode, additional copy info, and the extension with
private data, packet sequence counter, P-STD buffer and extension 2 -/
def exFullOpt : PESOptionalHeader :=
  { markerBits := 2, scramblingControl := 1, priority := true, isOriginal := true, ptsDTSIndicator := 3, pts := some { base := 8589934591, extension := 0 }, dts := some { base := 1, extension := 0 }, hasESCR := true, escr := some { base := 123456789, extension := 511 }, hasESRate := true, esRate := 4194303, hasDSMTrickMode := true, dsmTrickMode := some { trickModeControl := 3, fieldID := 1, intraSliceRefresh := 1, frequencyTruncation := 2 }, hasAdditionalCopyInfo := true, additionalCopyInfo := 127, hasExtension := true, hasPrivateData := true, privateData := [1, 2, 3, 4, 5, 6, 7, 8, 9, 10, 11, 12, 13, 14, 15, 16], hasProgramPacketSequenceCounter := true, packetSequenceCounter := 100, mpeg1OrMPEG2ID := 1, originalStuffingLength := 63, hasPSTDBuffer := true, pstdBufferScale := 1, pstdBufferSize := 8191, hasExtension2 := true, extension2Data := [0xaa, 0xbb], extension2Length := 2, headerLength := 45 }

example : PESOptOk exFullOpt where
  markerBits := rfl
  scramblingControl := by decide
  ind := by decide
  pts := by rw [if_pos (by decide)]; exact ⟨8589934591, by decide, rfl⟩
  dts := by rw [if_pos (by decide)]; exact ⟨1, by decide, rfl⟩
  escr := by rw [if_pos (by decide)]; exact ⟨123456789, 511, by decide, by decide, rfl⟩
  esRate := by rw [if_pos (by decide)]; decide
  dsm := by rw [if_pos (by decide)]; exact ⟨_, rfl, by decide⟩
  aci := by rw [if_pos (by decide)]; decide
  noCRC := ⟨rfl, rfl⟩
  noOptionalFields := rfl
  noPack := ⟨rfl, rfl⟩
  headerLength := by decide +kernel
  extFlags := fun h => by cases h
  priv := by rw [if_pos (by decide)]; rfl
  psc := by rw [if_pos (by decide)]; decide
  pstd := by rw [if_pos (by decide)]; decide
  ext2 := by rw [if_pos (by decide)]; exact ⟨by decide, rfl⟩

def exPadding : PESHeader := { streamID := 0xbe, optionalHeader := none }

example : PESHeaderOk exPadding := by
  refine ⟨by decide, ?_⟩
  rw [if_neg (by decide)]
  rfl

end Astits.C12
