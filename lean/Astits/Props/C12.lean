/-
C12 — PES headers and timestamps are decoded and encoded per ISO 13818-1.
-/
import Astits.Proofs.Layout
import Astits.Proofs.PESRT
import Astits.Generated.Exprs
import Astits.Proofs.SpecEq.PES
namespace Astits.C12

/-- PTS and DTS: all 2^33 values, whatever the 4-bit prefix ('0010', '0011', '0001') -/
theorem pts_roundtrip (prefix4 base : Nat) (hb : base < 2 ^ 33) :
    ptsOfBytes (ptsBytes prefix4 { base := base, extension := 0 }) = { base := base, extension := 0 } :=
  Astits.pts_roundtrip prefix4 base (by simpa using hb)

/-- ESCR: all 2^33 base values and all 2^9 extensions -/
theorem escr_roundtrip (base ext : Nat) (hb : base < 2 ^ 33) (he : ext < 2 ^ 9) :
    escrOfBytes (escrBytes { base := base, extension := ext }) = { base := base, extension := ext } :=
  Astits.escr_roundtrip base ext (by simpa using hb) (by simpa using he)

/-- all 256 trick-mode bytes: what is decoded is re-encoded to a byte that decodes to the same value, and the
decoded fields are the bit fields of ISO 13818-1 2.4.3.7 -/
theorem trickmode_all_bytes : ∀ b : Fin 256,
    (dsmBytes (parseDSMTrickMode b.val)).length = 1 ∧
    parseDSMTrickMode ((dsmBytes (parseDSMTrickMode b.val)).getD 0 0) = parseDSMTrickMode b.val ∧
    (parseDSMTrickMode b.val).trickModeControl = b.val / 32 := by
  decide +kernel

/-- ES rate: 22 bits between two marker bits in three bytes -/
theorem es_rate_roundtrip (r : Nat) (hr : r < 4194304) :
    let bs := packFields [(1, 1), (r, 22), (1, 1)]
    (bs.getD 0 0 % 128) * 32768 + bs.getD 1 0 * 128 + bs.getD 2 0 / 2 = r := by
  simp only [packFields, fieldsWidth, fieldsValue, beBytes, List.getD_cons_zero, List.getD_cons_succ]
  simp only [Nat.reducePow, Nat.reduceAdd, Nat.reduceDiv, Nat.pow_zero, Nat.div_one, Nat.pow_one]
  omega

/-- `ClockReference.Duration()`: base/90 kHz + extension/27 MHz, each term truncated to nanoseconds; no int64
overflow for any 33-bit base (base · 10^9 < 2^63) -/
theorem duration_exact (base ext : Nat) (hb : base < 2 ^ 33) (he : ext < 2 ^ 9) :
    ({ base := base, extension := ext } : ClockReference).duration
      = ((base * 1000000000 / 90000 + ext * 1000000000 / 27000000 : Nat) : Int)
    ∧ base * 1000000000 < 2 ^ 63 := by
  constructor
  · unfold ClockReference.duration
    simp only
    have h1 : ((base : Int) * 1000000000).tdiv 90000 = ((base * 1000000000 / 90000 : Nat) : Int) := by
      have : (base : Int) * 1000000000 = ((base * 1000000000 : Nat) : Int) := by simp
      rw [this, Int.natCast_tdiv_eq_ediv]; simp
    have h2 : ((ext : Int) * 1000000000).tdiv 27000000 = ((ext * 1000000000 / 27000000 : Nat) : Int) := by
      have : (ext : Int) * 1000000000 = ((ext * 1000000000 : Nat) : Int) := by simp
      rw [this, Int.natCast_tdiv_eq_ediv]; simp
    rw [h1, h2]; simp
  · have : (2:Nat) ^ 33 = 8589934592 := by decide
    have : (2:Nat) ^ 63 = 9223372036854775808 := by decide
    omega

/-- the duration is within 2 ns below the exact value (two truncations) -/
theorem duration_error (base ext : Nat) :
    let exactNum := base * 1000000000 * 300 + ext * 1000000000   -- exact duration × 27 000 000
    let d := base * 1000000000 / 90000 + ext * 1000000000 / 27000000
    d * 27000000 ≤ exactNum ∧ exactNum < (d + 2) * 27000000 := by
  intro exactNum d
  constructor <;> omega

/-- PES_packet_length written by the library: 0 for video stream ids or when it would exceed 65535, otherwise the
bytes that follow the field -/
theorem length_rule (h : PESHeader) (n : Nat) :
    pesPacketLengthFor h n =
      if isVideoStream h.streamID then 0
      else if n + (if hasPESOptionalHeader h.streamID then calcPESOptionalHeaderLength h.optionalHeader else 0) > 65535 then 0
      else n + (if hasPESOptionalHeader h.streamID then calcPESOptionalHeaderLength h.optionalHeader else 0) := by
  unfold pesPacketLengthFor
  split <;> simp

/-- tie: the Go predicates of today -/
theorem generated_hasOptionalHeader : ∀ s : Fin 256, Generated.hasPESOptionalHeader s.val = hasPESOptionalHeader s.val := by
  decide +kernel
theorem generated_isVideoStream : ∀ s : Fin 256, Generated.isVideoStream s.val = isVideoStream s.val := by
  decide +kernel

example : parseDSMTrickMode 0x6b = { trickModeControl := 3, fieldID := 1, intraSliceRefresh := 0, frequencyTruncation := 3 } := by decide

open Astits.PSIRT Astits.PESRT

/-! ## Whole-header round trip (helpers in `Proofs/PESRT.lean`, namespace `Astits.PESRT`)

`PESHeaderOk h`: 8-bit stream id; an optional header is present exactly for the stream ids that carry one, and it
satisfies `PESOptOk`:
* `MarkerBits = 2`, 2-bit scrambling control, 2-bit `PTSDTSIndicator`;
* `PTS` present (33-bit base, extension 0) exactly when the indicator is 2 or 3, `DTS` exactly when it is 3;
* `ESCR` (33-bit base, 9-bit extension), `ESRate` (22 bits), `DSMTrickMode` (`DSMOk`: the fields the mode uses fit
  their bits, the others are 0), `AdditionalCopyInfo` (7 bits) present exactly when their flag is set, zero/nil otherwise;
* no CRC and no pack header field (the writer never emits them), `HasOptionalFields = false` (never set by the parser);
* extension: the four sub-flags are clear when `HasExtension` is clear; 16 bytes of private data, 7-bit packet sequence
  counter / 1-bit MPEG1-or-2 id / 6-bit original stuffing length, 1-bit P-STD scale / 13-bit size, extension 2 data of
  fewer than 128 bytes with `Extension2Length` its length — each present exactly when its flag is set;
* `HeaderLength = calcPESOptionalHeaderDataLength h` (the parser recomputes it from the byte; no stuffing is written).

Recomputed by the parser: `PacketLength` (what `writePESHeader` computes: 0 for video stream ids or above 65535,
otherwise payload + optional header). -/

/-- **PES round trip**: header and payload come back from `pesHeaderBytes h n ++ payload`, whole slice consumed; the
header is `h` with `PacketLength` as the writer computed it -/
theorem pes_roundtrip (h : PESHeader) (payload : Bytes) (ok : PESHeaderOk h) :
    parsePESData ⟨pesHeaderBytes h payload.length ++ payload, 0⟩ =
      .ok ({ data := payload, header := { h with packetLength := pesPacketLengthFor h payload.length } },
           ⟨pesHeaderBytes h payload.length ++ payload, ((pesHeaderBytes h payload.length ++ payload).length : Nat)⟩) :=
  parsePESData_written h payload ok

/-- bounded packets: `PacketLength` = optional header + payload, the header comes back unchanged -/
theorem pes_roundtrip_bounded (h : PESHeader) (payload : Bytes) (ok : PESHeaderOk h) (hv : isVideoStream h.streamID = false)
    (hfit : payload.length + (if hasPESOptionalHeader h.streamID then calcPESOptionalHeaderLength h.optionalHeader else 0) ≤ 65535)
    (hpl : h.packetLength = payload.length + (if hasPESOptionalHeader h.streamID then calcPESOptionalHeaderLength h.optionalHeader else 0)) :
    (parsePESData.val (pesHeaderBytes h payload.length ++ payload)) = .ok { data := payload, header := h } := by
  unfold P.val
  rw [pes_roundtrip h payload ok]
  simp only
  have : pesPacketLengthFor h payload.length = h.packetLength := by
    rw [length_rule, hpl]
    simp only [hv, Bool.false_eq_true, if_false]
    rw [if_neg (by omega)]
  rw [this]

/-- unbounded packets (`PacketLength = 0`): video stream ids, or more than 65535 bytes -/
theorem pes_roundtrip_unbounded (h : PESHeader) (payload : Bytes) (ok : PESHeaderOk h) (hpl : h.packetLength = 0)
    (hu : isVideoStream h.streamID = true ∨
      payload.length + (if hasPESOptionalHeader h.streamID then calcPESOptionalHeaderLength h.optionalHeader else 0) > 65535) :
    (parsePESData.val (pesHeaderBytes h payload.length ++ payload)) = .ok { data := payload, header := h } := by
  unfold P.val
  rw [pes_roundtrip h payload ok]
  simp only
  have : pesPacketLengthFor h payload.length = h.packetLength := by
    rw [length_rule, hpl]
    rcases hu with hv | hl
    · simp [hv]
    · by_cases hv : isVideoStream h.streamID = true
      · simp [hv]
      · have hv' : isVideoStream h.streamID = false := by simpa using hv
        simp only [hv', Bool.false_eq_true, if_false]
        rw [if_pos hl]
  rw [this]

/-- the optional header alone: its bytes have the announced length, and parsing them wherever they stand gives the
header back together with the payload start `offset + 3 + PES_header_data_length` -/
theorem pes_optional_header_roundtrip (h : PESOptionalHeader) (ok : PESOptOk h) (pre post : Bytes) :
    (pesOptionalHeaderBytes h).length = 3 + calcPESOptionalHeaderDataLength h ∧
    ∃ j, parsePESOptionalHeader ⟨pre ++ pesOptionalHeaderBytes h ++ post, pre.length⟩ =
      .ok ((h, (pre.length : Int) + 3 + ((calcPESOptionalHeaderDataLength h : Nat) : Int)), j) :=
  ⟨pesOptionalHeaderBytes_length h ok,
   (parsePESOptionalHeader_written h ok _ _ post ⟨pre, by simp, rfl⟩).imp fun _ hj => hj.1⟩

/-! #### non-vacuity -/

/-- an audio header as the muxer's callers build it: PTS only -/
def exAudioOpt : PESOptionalHeader :=
  { markerBits := 2, ptsDTSIndicator := 2, pts := some { base := 90000, extension := 0 }, headerLength := 5, dataAlignmentIndicator := true }

theorem exAudioOpt_ok : PESOptOk exAudioOpt where
  markerBits := rfl
  scramblingControl := by decide
  ind := by decide
  pts := by rw [if_pos (by decide)]; exact ⟨90000, by decide, rfl⟩
  dts := by rw [if_neg (by decide)]; rfl
  escr := by rw [if_neg (by decide)]; rfl
  esRate := by rw [if_neg (by decide)]; rfl
  dsm := by rw [if_neg (by decide)]; rfl
  aci := by rw [if_neg (by decide)]; rfl
  noCRC := ⟨rfl, rfl⟩
  noOptionalFields := rfl
  noPack := ⟨rfl, rfl⟩
  headerLength := by decide +kernel
  extFlags := fun _ => ⟨rfl, rfl, rfl, rfl⟩
  priv := by rw [if_neg (by decide)]; rfl
  psc := by rw [if_neg (by decide)]; exact ⟨rfl, rfl, rfl⟩
  pstd := by rw [if_neg (by decide)]; exact ⟨rfl, rfl⟩
  ext2 := by rw [if_neg (by decide)]; exact ⟨rfl, rfl⟩

def exAudio : PESHeader := { streamID := 0xc0, optionalHeader := some exAudioOpt, packetLength := 8 + 100 }

example : PESHeaderOk exAudio := by
  refine ⟨by decide, ?_⟩
  rw [if_pos (by decide)]
  exact ⟨exAudioOpt, rfl, exAudioOpt_ok⟩

/-- every optional field at once: PTS and DTS, ESCR, ES rate, trick mode, additional copy info, and the extension with
private data, packet sequence counter, P-STD buffer and extension 2 -/
def exFullOpt : PESOptionalHeader :=
  { markerBits := 2, scramblingControl := 1, priority := true, isOriginal := true, ptsDTSIndicator := 3, pts := some { base := 8589934591, extension := 0 }, dts := some { base := 1, extension := 0 }, hasESCR := true, escr := some { base := 123456789, extension := 511 }, hasESRate := true, esRate := 4194303, hasDSMTrickMode := true, dsmTrickMode := some { trickModeControl := 3, fieldID := 1, intraSliceRefresh := 1, frequencyTruncation := 2 }, hasAdditionalCopyInfo := true, additionalCopyInfo := 127, hasExtension := true, hasPrivateData := true, privateData := [1, 2, 3, 4, 5, 6, 7, 8, 9, 10, 11, 12, 13, 14, 15, 16], hasProgramPacketSequenceCounter := true, packetSequenceCounter := 100, mpeg1OrMPEG2ID := 1, originalStuffingLength := 63, hasPSTDBuffer := true, pstdBufferScale := 1, pstdBufferSize := 8191, hasExtension2 := true, extension2Data := [0xaa, 0xbb], extension2Length := 2, headerLength := 45 }

example : PESOptOk exFullOpt where
  markerBits := rfl
  scramblingControl := by decide
  ind := by decide
  pts := by rw [if_pos (by decide)]; exact ⟨8589934591, by decide, rfl⟩
  dts := by rw [if_pos (by decide)]; exact ⟨1, by decide, rfl⟩
  escr := by rw [if_pos (by decide)]; exact ⟨123456789, 511, by decide, by decide, rfl⟩
  esRate := by rw [if_pos (by decide)]; decide
  dsm := by rw [if_pos (by decide)]; exact ⟨_, rfl, by decide⟩
  aci := by rw [if_pos (by decide)]; decide
  noCRC := ⟨rfl, rfl⟩
  noOptionalFields := rfl
  noPack := ⟨rfl, rfl⟩
  headerLength := by decide +kernel
  extFlags := fun h => by cases h
  priv := by rw [if_pos (by decide)]; rfl
  psc := by rw [if_pos (by decide)]; decide
  pstd := by rw [if_pos (by decide)]; decide
  ext2 := by rw [if_pos (by decide)]; exact ⟨by decide, rfl⟩

def exPadding : PESHeader := { streamID := 0xbe, optionalHeader := none }

example : PESHeaderOk exPadding := by
  refine ⟨by decide, ?_⟩
  rw [if_neg (by decide)]
  rfl

/-! ## W2 — the PES writer emits exactly the standard's layout: `pesHeaderBytes` / `writePESData` = the independent
reference encoder `Spec.pesEncode` (Astits/Spec/PES.lean: ISO/IEC 13818-1 table 2-21 transcribed with `Spec.enc`).
Helper development: Astits/Proofs/SpecEq/{Enc,TS,PES}.lean. -/

section WriterEqSpec
open Astits.SpecEq

/-- **optional PES header**, every flag combination (`SpecEq.PESOptAgree`: no CRC, no pack header, 16 bytes of private
data, non-negative timestamps, 1-bit intra_slice_refresh; no upper bound on any numeric field is needed — both sides
mask alike, PES_header_data_length included) -/
theorem pes_optional_eq_spec (oh : PESOptionalHeader) (ag : PESOptAgree oh) :
    pesOptionalHeaderBytes oh = Spec.pesOptionalEncode oh 0 := (optEncode_eq oh ag).symm

/-- **W2**: start code prefix, stream id, PES_packet_length, optional header, payload -/
theorem pes_written_eq_spec (h : PESHeader) (payload : Bytes) (ag : PESAgree h payload.length) :
    pesHeaderBytes h payload.length ++ payload = Spec.pesEncode h 0 payload := (pesEncode_eq h payload ag).symm

/-- the header part alone -/
theorem pes_header_eq_spec (h : PESHeader) (n : Nat) (ag : PESAgree h n) :
    pesHeaderBytes h n = Spec.pesEncode h 0 [] := pesHeader_eq h n ag

/-- **W2** for `writePESData`: the first TS packet of a PES unit carries the first `bytesAvailable` bytes of the reference
PES packet (the whole of it when it fits); the counts returned are the bytes emitted and the payload bytes among them -/
theorem writePESData_first_eq_spec (h : PESHeader) (payload : Bytes) (avail : Nat) (ag : PESAgree h payload.length)
    (hnil : (h.optionalHeader.map pesOptNilDeref).getD false = false)
    (hav : (pesHeaderBytes h payload.length).length ≤ avail) :
    writePESData h payload true (avail : Int) =
      .ok ((Spec.pesEncode h 0 payload).take avail,
           min avail (Spec.pesEncode h 0 payload).length,
           min (avail - (pesHeaderBytes h payload.length).length) payload.length) :=
  writePESData_first_eq h payload avail ag hnil hav

/-- **W2** under the hypothesis of `pes_roundtrip` (`PESHeaderOk`) plus the PES_packet_length rule -/
theorem pes_written_eq_spec_ok (h : PESHeader) (payload : Bytes) (ok : PESHeaderOk h)
    (hl : h.packetLength = pesPacketLengthFor h payload.length) :
    pesHeaderBytes h payload.length ++ payload = Spec.pesEncode h 0 payload :=
  pes_written_eq_spec h payload (pesAgree_of_ok h _ ok hl)

theorem writePESData_first_eq_spec_ok (h : PESHeader) (payload : Bytes) (avail : Nat) (ok : PESHeaderOk h)
    (hl : h.packetLength = pesPacketLengthFor h payload.length)
    (hav : (pesHeaderBytes h payload.length).length ≤ avail) :
    writePESData h payload true (avail : Int) =
      .ok ((Spec.pesEncode h 0 payload).take avail,
           min avail (Spec.pesEncode h 0 payload).length,
           min (avail - (pesHeaderBytes h payload.length).length) payload.length) :=
  writePESData_first_eq h payload avail (pesAgree_of_ok h _ ok hl) (pesNilDeref_of_ok h ok) hav

/-- hence the reference bytes parse back (bounded packets) -/
theorem parse_pesEncode (h : PESHeader) (payload : Bytes) (ok : PESHeaderOk h)
    (hl : h.packetLength = pesPacketLengthFor h payload.length) :
    parsePESData.val (Spec.pesEncode h 0 payload) = .ok { data := payload, header := h } := by
  rw [← pes_written_eq_spec_ok h payload ok hl]
  unfold P.val
  rw [pes_roundtrip h payload ok, ← hl]

/-! ### non-vacuity, and the excluded points evaluated -/

theorem exFullOpt_agree : PESOptAgree exFullOpt :=
  ⟨rfl, fun _ => rfl, fun _ _ => rfl, fun _ => by decide, fun _ => by decide, fun _ => by decide, fun _ _ => by decide⟩

def exFull : PESHeader := { streamID := 0xc0, optionalHeader := some exFullOpt, packetLength := 51 }

theorem exFull_agree : PESAgree exFull 3 := ⟨by decide +kernel, fun _ => ⟨exFullOpt, rfl, exFullOpt_agree⟩⟩

example : pesHeaderBytes exFull 3 ++ [9, 9, 9] = Spec.pesEncode exFull 0 [9, 9, 9] :=
  pes_written_eq_spec exFull [9, 9, 9] exFull_agree

/-- the reference bytes: start code, stream id c0, length 0x0033, flags 99 fd, header data length 45, PTS, DTS, … -/
example : (Spec.pesEncode exFull 0 [9, 9, 9]).take 14 = [0, 0, 1, 0xc0, 0, 0x33, 0x99, 0xfd, 0x2d, 0x3f, 0xff, 0xff, 0xff, 0xff] := by
  decide +kernel

/-- a first TS packet with room for 56 bytes: the first 56 bytes of the 57-byte reference packet (54 header bytes + 2 of
the 3 payload bytes) -/
example : ∃ n k, writePESData exFull [9, 9, 9] true 56 = .ok ((Spec.pesEncode exFull 0 [9, 9, 9]).take 56, n, k) :=
  ⟨_, _, writePESData_first_eq_spec exFull [9, 9, 9] 56 exFull_agree (by decide +kernel) (by decide +kernel)⟩

def mkAudio (o : PESOptionalHeader) : PESHeader :=
  { streamID := 0xc0, optionalHeader := some o, packetLength := pesPacketLengthFor { streamID := 0xc0, optionalHeader := some o } 3 }

/-- excluded point 1 (a value the PARSER delivers): `HasCRC = true`.  The writer always clears PES_CRC_flag and drops
previous_PES_packet_CRC ("not supported yet" in data_pes.go): flags byte 0x00 and PES_header_data_length 0, where the
reference writes 0x02, length 2 and the CRC 0x1234.  Re-muxing a parsed PES header with a CRC silently loses it. -/
example : (pesHeaderBytes (mkAudio { markerBits := 2, hasCRC := true, crc := 0x1234 }) 3).drop 6 = [0x80, 0x00, 0x00]
    ∧ (Spec.pesEncode (mkAudio { markerBits := 2, hasCRC := true, crc := 0x1234 }) 0 []).drop 6 = [0x80, 0x02, 0x02, 0x12, 0x34] := by
  decide +kernel

/-- excluded point 2 (parser-deliverable): `HasPackHeaderField = true`: the writer clears pack_header_field_flag (0x0e), the
reference sets it (0x4e); neither writes a pack header -/
example : (pesHeaderBytes (mkAudio { markerBits := 2, hasExtension := true, hasPackHeaderField := true }) 3).drop 8 = [0x01, 0x0e]
    ∧ (Spec.pesEncode (mkAudio { markerBits := 2, hasExtension := true, hasPackHeaderField := true }) 0 []).drop 8 = [0x01, 0x4e] := by
  decide +kernel

/-- excluded point 3: PES private data that is not 16 bytes: `WriteBytesN` pads to 16 (header data length 0x11), the
reference copies the 3 bytes (0x04) -/
example : (pesHeaderBytes (mkAudio { markerBits := 2, hasExtension := true, hasPrivateData := true, privateData := [1, 2, 3] }) 3).length = 26
    ∧ (Spec.pesEncode (mkAudio { markerBits := 2, hasExtension := true, hasPrivateData := true, privateData := [1, 2, 3] }) 0 []).length = 13 := by
  decide +kernel

/-- excluded point 4: intra_slice_refresh = 3 (not a 1-bit value; the Go field is `uint8`): the writer writes `== 1`, i.e. 0,
the reference the low bit, i.e. 1 -/
example : (pesHeaderBytes (mkAudio { markerBits := 2, hasDSMTrickMode := true, dsmTrickMode := some { trickModeControl := 0, intraSliceRefresh := 3 } }) 3).drop 9 = [0x00]
    ∧ (Spec.pesEncode (mkAudio { markerBits := 2, hasDSMTrickMode := true, dsmTrickMode := some { trickModeControl := 0, intraSliceRefresh := 3 } }) 0 []).drop 9 = [0x04] := by
  decide +kernel

/-- excluded point 5: a stream id with an optional header but `OptionalHeader = nil`: the writer emits NO optional header
(the bytes are then not a valid PES packet for this stream id), the reference encodes an empty one -/
example : pesHeaderBytes { streamID := 0xc0, optionalHeader := none, packetLength := 3 } 3 = [0, 0, 1, 0xc0, 0, 3]
    ∧ Spec.pesEncode { streamID := 0xc0, optionalHeader := none, packetLength := 3 } 0 [] = [0, 0, 1, 0xc0, 0, 3, 0x80, 0, 0] := by
  decide +kernel

/-- excluded point 6: `PacketLength` not following the writer's rule — the writer ignores the field: a video stream id
always gets 0 (the reference writes the value, here 11) -/
example : (pesHeaderBytes { streamID := 0xe0, optionalHeader := some exAudioOpt, packetLength := 11 } 3).take 6 = [0, 0, 1, 0xe0, 0, 0]
    ∧ (Spec.pesEncode { streamID := 0xe0, optionalHeader := some exAudioOpt, packetLength := 11 } 0 []).take 6 = [0, 0, 1, 0xe0, 0, 11] := by
  decide +kernel

end WriterEqSpec

end Astits.C12
