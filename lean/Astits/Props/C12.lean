/-
C12 — PES headers and timestamps are decoded and encoded per ISO 13818-1.
-/
import Astits.Proofs.Layout
import Astits.Proofs.PESRT
import Astits.Generated.Exprs
import Astits.Props.TieTactics
import Astits.Proofs.SpecEq.PES
import Astits.Proofs.PESReader
namespace Astits.C12
open Astits.Tie

/-- PTS and DTS: all 2^33 values, whatever the 4-bit prefix ('0010', '0011', '0001') -/
theorem pts_roundtrip (prefix4 base : Nat) (hb : base < 2 ^ 33) :
    ptsOfBytes (ptsBytes prefix4 { base := base, extension := 0 }) = { base := base, extension := 0 } :=
  Astits.pts_roundtrip prefix4 base (by simpa using hb)

/-- ESCR: all 2^33 base values and all 2^9 extensions -/
theorem escr_roundtrip (base ext : Nat) (hb : base < 2 ^ 33) (he : ext < 2 ^ 9) :
    escrOfBytes (escrBytes { base := base, extension := ext }) = { base := base, extension := ext } :=
  Astits.escr_roundtrip base ext (by simpa using hb) (by simpa using he)

/-- all 256 trick-mode bytes: what is decoded is re-encoded to a byte that decodes to the same value, and the
decoded fields are the bit fields of ISO 13818-1 2.4.3.7 -/
theorem trickmode_all_bytes : ∀ b : Fin 256,
    (dsmBytes (parseDSMTrickMode b.val)).length = 1 ∧
    parseDSMTrickMode ((dsmBytes (parseDSMTrickMode b.val)).getD 0 0) = parseDSMTrickMode b.val ∧
    (parseDSMTrickMode b.val).trickModeControl = b.val / 32 := by
  decide +kernel

/-- ES rate: 22 bits between two marker bits in three bytes -/
theorem es_rate_roundtrip (r : Nat) (hr : r < 4194304) :
    let bs := packFields [(1, 1), (r, 22), (1, 1)]
    (bs.getD 0 0 % 128) * 32768 + bs.getD 1 0 * 128 + bs.getD 2 0 / 2 = r := by
  simp only [packFields, fieldsWidth, fieldsValue, beBytes, List.getD_cons_zero, List.getD_cons_succ]
  simp only [Nat.reducePow, Nat.reduceAdd, Nat.reduceDiv, Nat.pow_zero, Nat.div_one, Nat.pow_one]
  omega

/-- `ClockReference.Duration()`: base/90 kHz + extension/27 MHz, each term truncated to nanoseconds; no int64
overflow for any 33-bit base (base · 10^9 < 2^63) -/
theorem duration_exact (base ext : Nat) (hb : base < 2 ^ 33) (he : ext < 2 ^ 9) :
    ({ base := base, extension := ext } : ClockReference).duration
      = ((base * 1000000000 / 90000 + ext * 1000000000 / 27000000 : Nat) : Int)
    ∧ base * 1000000000 < 2 ^ 63 := by
  constructor
  · unfold ClockReference.duration
    simp only
    have h1 : ((base : Int) * 1000000000).tdiv 90000 = ((base * 1000000000 / 90000 : Nat) : Int) := by
      have : (base : Int) * 1000000000 = ((base * 1000000000 : Nat) : Int) := by simp
      rw [this, Int.natCast_tdiv_eq_ediv]; simp
    have h2 : ((ext : Int) * 1000000000).tdiv 27000000 = ((ext * 1000000000 / 27000000 : Nat) : Int) := by
      have : (ext : Int) * 1000000000 = ((ext * 1000000000 : Nat) : Int) := by simp
      rw [this, Int.natCast_tdiv_eq_ediv]; simp
    rw [h1, h2]; simp
  · have : (2:Nat) ^ 33 = 8589934592 := by decide
    have : (2:Nat) ^ 63 = 9223372036854775808 := by decide
    omega

/-- the duration is within 2 ns below the exact value (two truncations) -/
theorem duration_error (base ext : Nat) :
    let exactNum := base * 1000000000 * 300 + ext * 1000000000   -- exact duration × 27 000 000
    let d := base * 1000000000 / 90000 + ext * 1000000000 / 27000000
    d * 27000000 ≤ exactNum ∧ exactNum < (d + 2) * 27000000 := by
  intro exactNum d
  constructor <;> omega

/-- PES_packet_length written by the library: 0 for video stream ids or when it would exceed 65535, otherwise the
bytes that follow the field -/
theorem length_rule (h : PESHeader) (n : Nat) :
    pesPacketLengthFor h n =
      if isVideoStream h.streamID then 0
      else if n + (if hasPESOptionalHeader h.streamID then calcPESOptionalHeaderLength h.optionalHeader else 0) > 65535 then 0
      else n + (if hasPESOptionalHeader h.streamID then calcPESOptionalHeaderLength h.optionalHeader else 0) := by
  unfold pesPacketLengthFor
  split <;> simp

/-- tie: the Go predicates of today -/
theorem generated_hasOptionalHeader : ∀ s : Fin 256, Generated.hasPESOptionalHeader s.val = hasPESOptionalHeader s.val := by
  decide +kernel
theorem generated_isVideoStream : ∀ s : Fin 256, Generated.isVideoStream s.val = isVideoStream s.val := by
  decide +kernel

/-- three bytes as a 24-bit big-endian number, with shifts and ors or with multiplications and additions -/
theorem be24 (b0 b1 b2 : Nat) (h1 : b1 < 256) (h2 : b2 < 256) :
    (b0 <<< 16 ||| b1 <<< 8) ||| b2 = b0 * 65536 + b1 * 256 + b2 := by
  have a1 : b0 <<< 16 ||| b1 <<< 8 = b0 <<< 16 + b1 <<< 8 :=
    (Nat.shiftLeft_add_eq_or_of_lt (a := b0) (i := 16) (b := b1 <<< 8) (by rw [Nat.shiftLeft_eq]; omega)).symm
  have a2 : b0 <<< 16 + b1 <<< 8 = (b0 * 256 + b1) <<< 8 := by
    simp only [Nat.shiftLeft_eq]; omega
  rw [a1, a2, ← Nat.shiftLeft_add_eq_or_of_lt (by omega : b2 < 2 ^ 8)]
  simp only [Nat.shiftLeft_eq]; omega

/-- tie: the test for the PES start code prefix 0x000001 as written in Go today (`isPESPayload`, data.go), on the
length of the payload and its first three bytes -/
theorem generated_isPESPayload (len b0 b1 b2 : Nat) (h0 : b0 < 256) (h1 : b1 < 256) (h2 : b2 < 256) :
    Generated.isPESPayload len b0 b1 b2 = (decide (3 ≤ len) && (b0 * 65536 + b1 * 256 + b2 == 1)) := by
  unfold Generated.isPESPayload
  try simp only [be24 _ _ _ h1 h2]
  bool_arith

theorem isPESPayload_eq_generated (bs : Bytes) (h : ∀ b ∈ bs, b < 256) :
    isPESPayload bs = Generated.isPESPayload bs.length (bs.getD 0 0) (bs.getD 1 0) (bs.getD 2 0) := by
  have hb : ∀ k, bs.getD k 0 < 256 := by
    intro k
    rw [List.getD_eq_getElem?_getD]
    cases hk : bs[k]? with
    | none => simp
    | some v => simp only [Option.getD_some]; exact h v (List.mem_of_getElem? hk)
  rw [generated_isPESPayload _ _ _ _ (hb 0) (hb 1) (hb 2)]
  rfl

example : parseDSMTrickMode 0x6b = { trickModeControl := 3, fieldID := 1, intraSliceRefresh := 0, frequencyTruncation := 3 } := by decide

open Astits.PSIRT Astits.PESRT

/-! ## Whole-header round trip (helpers in `Proofs/PESRT.lean`, namespace `Astits.PESRT`)

`PESHeaderOk h`: 8-bit stream id; an optional header is present exactly for the stream ids that carry one, and it
satisfies `PESOptOk`:
* `MarkerBits = 2`, 2-bit scrambling control, 2-bit `PTSDTSIndicator`;
* `PTS` present (33-bit base, extension 0) exactly when the indicator is 2 or 3, `DTS` exactly when it is 3;
* `ESCR` (33-bit base, 9-bit extension), `ESRate` (22 bits), `DSMTrickMode` (`DSMOk`: the fields the mode uses fit
  their bits, the others are 0), `AdditionalCopyInfo` (7 bits) present exactly when their flag is set, zero/nil otherwise;
* no CRC and no pack header field (the writer never emits them), `HasOptionalFields = false` (never set by the parser);
* extension: the four sub-flags are clear when `HasExtension` is clear; 16 bytes of private data, 7-bit packet sequence
  counter / 1-bit MPEG1-or-2 id / 6-bit original stuffing length, 1-bit P-STD scale / 13-bit size, extension 2 data of
  fewer than 128 bytes with `Extension2Length` its length — each present exactly when its flag is set;
* `HeaderLength = calcPESOptionalHeaderDataLength h` (the parser recomputes it from the byte; no stuffing is written).

Recomputed by the parser: `PacketLength` (what `writePESHeader` computes: 0 for video stream ids or above 65535,
otherwise payload + optional header). -/

/-- **PES round trip**: header and payload come back from `pesHeaderBytes h n ++ payload`, whole slice consumed; the
header is `h` with `PacketLength` as the writer computed it -/
theorem pes_roundtrip (h : PESHeader) (payload : Bytes) (ok : PESHeaderOk h) :
    parsePESData ⟨pesHeaderBytes h payload.length ++ payload, 0⟩ =
      .ok ({ data := payload, header := { h with packetLength := pesPacketLengthFor h payload.length } },
           ⟨pesHeaderBytes h payload.length ++ payload, ((pesHeaderBytes h payload.length ++ payload).length : Nat)⟩) :=
  parsePESData_written h payload ok

/-- bounded packets: `PacketLength` = optional header + payload, the header comes back unchanged -/
theorem pes_roundtrip_bounded (h : PESHeader) (payload : Bytes) (ok : PESHeaderOk h) (hv : isVideoStream h.streamID = false)
    (hfit : payload.length + (if hasPESOptionalHeader h.streamID then calcPESOptionalHeaderLength h.optionalHeader else 0) ≤ 65535)
    (hpl : h.packetLength = payload.length + (if hasPESOptionalHeader h.streamID then calcPESOptionalHeaderLength h.optionalHeader else 0)) :
    (parsePESData.val (pesHeaderBytes h payload.length ++ payload)) = .ok { data := payload, header := h } := by
  unfold P.val
  rw [pes_roundtrip h payload ok]
  simp only
  have : pesPacketLengthFor h payload.length = h.packetLength := by
    rw [length_rule, hpl]
    simp only [hv, Bool.false_eq_true, if_false]
    rw [if_neg (by omega)]
  rw [this]

/-- unbounded packets (`PacketLength = 0`): video stream ids, or more than 65535 bytes -/
theorem pes_roundtrip_unbounded (h : PESHeader) (payload : Bytes) (ok : PESHeaderOk h) (hpl : h.packetLength = 0)
    (hu : isVideoStream h.streamID = true ∨
      payload.length + (if hasPESOptionalHeader h.streamID then calcPESOptionalHeaderLength h.optionalHeader else 0) > 65535) :
    (parsePESData.val (pesHeaderBytes h payload.length ++ payload)) = .ok { data := payload, header := h } := by
  unfold P.val
  rw [pes_roundtrip h payload ok]
  simp only
  have : pesPacketLengthFor h payload.length = h.packetLength := by
    rw [length_rule, hpl]
    rcases hu with hv | hl
    · simp [hv]
    · by_cases hv : isVideoStream h.streamID = true
      · simp [hv]
      · have hv' : isVideoStream h.streamID = false := by simpa using hv
        simp only [hv', Bool.false_eq_true, if_false]
        rw [if_pos hl]
  rw [this]

/-- the optional header alone: its bytes have the announced length, and parsing them wherever they stand gives the
header back together with the payload start `offset + 3 + PES_header_data_length` -/
theorem pes_optional_header_roundtrip (h : PESOptionalHeader) (ok : PESOptOk h) (pre post : Bytes) :
    (pesOptionalHeaderBytes h).length = 3 + calcPESOptionalHeaderDataLength h ∧
    ∃ j, parsePESOptionalHeader ⟨pre ++ pesOptionalHeaderBytes h ++ post, pre.length⟩ =
      .ok ((h, (pre.length : Int) + 3 + ((calcPESOptionalHeaderDataLength h : Nat) : Int)), j) :=
  ⟨pesOptionalHeaderBytes_length h ok,
   (parsePESOptionalHeader_written h ok _ _ post ⟨pre, by simp, rfl⟩).imp fun _ hj => hj.1⟩

/-! #### non-vacuity -/

/-- an audio header as the muxer's callers build it: PTS only -/
def exAudioOpt : PESOptionalHeader :=
  { markerBits := 2, ptsDTSIndicator := 2, pts := some { base := 90000, extension := 0 }, headerLength := 5, dataAlignmentIndicator := true }

theorem exAudioOpt_ok : PESOptOk exAudioOpt where
  markerBits := rfl
  scramblingControl := by decide
  ind := by decide
  pts := by rw [if_pos (by decide)]; exact ⟨90000, by decide, rfl⟩
  dts := by rw [if_neg (by decide)]; rfl
  escr := by rw [if_neg (by decide)]; rfl
  esRate := by rw [if_neg (by decide)]; rfl
  dsm := by rw [if_neg (by decide)]; rfl
  aci := by rw [if_neg (by decide)]; rfl
  noCRC := ⟨rfl, rfl⟩
  noOptionalFields := rfl
  noPack := ⟨rfl, rfl⟩
  headerLength := by decide +kernel
  extFlags := fun _ => ⟨rfl, rfl, rfl, rfl⟩
  priv := by rw [if_neg (by decide)]; rfl
  psc := by rw [if_neg (by decide)]; exact ⟨rfl, rfl, rfl⟩
  pstd := by rw [if_neg (by decide)]; exact ⟨rfl, rfl⟩
  ext2 := by rw [if_neg (by decide)]; exact ⟨rfl, rfl⟩

def exAudio : PESHeader := { streamID := 0xc0, optionalHeader := some exAudioOpt, packetLength := 8 + 100 }

example : PESHeaderOk exAudio := by
  refine ⟨by decide, ?_⟩
  rw [if_pos (by decide)]
  exact ⟨exAudioOpt, rfl, exAudioOpt_ok⟩

/-- every optional field at once: PTS and DTS, ESCR, ES rate, trick mode, additional copy info, and the extension with
private data, packet sequence counter, P-STD buffer and extension 2 -/
def exFullOpt : PESOptionalHeader :=
  { markerBits := 2, scramblingControl := 1, priority := true, isOriginal := true, ptsDTSIndicator := 3, pts := some { base := 8589934591, extension := 0 }, dts := some { base := 1, extension := 0 }, hasESCR := true, escr := some { base := 123456789, extension := 511 }, hasESRate := true, esRate := 4194303, hasDSMTrickMode := true, dsmTrickMode := some { trickModeControl := 3, fieldID := 1, intraSliceRefresh := 1, frequencyTruncation := 2 }, hasAdditionalCopyInfo := true, additionalCopyInfo := 127, hasExtension := true, hasPrivateData := true, privateData := [1, 2, 3, 4, 5, 6, 7, 8, 9, 10, 11, 12, 13, 14, 15, 16], hasProgramPacketSequenceCounter := true, packetSequenceCounter := 100, mpeg1OrMPEG2ID := 1, originalStuffingLength := 63, hasPSTDBuffer := true, pstdBufferScale := 1, pstdBufferSize := 8191, hasExtension2 := true, extension2Data := [0xaa, 0xbb], extension2Length := 2, headerLength := 45 }

example : PESOptOk exFullOpt where
  markerBits := rfl
  scramblingControl := by decide
  ind := by decide
  pts := by rw [if_pos (by decide)]; exact ⟨8589934591, by decide, rfl⟩
  dts := by rw [if_pos (by decide)]; exact ⟨1, by decide, rfl⟩
  escr := by rw [if_pos (by decide)]; exact ⟨123456789, 511, by decide, by decide, rfl⟩
  esRate := by rw [if_pos (by decide)]; decide
  dsm := by rw [if_pos (by decide)]; exact ⟨_, rfl, by decide⟩
  aci := by rw [if_pos (by decide)]; decide
  noCRC := ⟨rfl, rfl⟩
  noOptionalFields := rfl
  noPack := ⟨rfl, rfl⟩
  headerLength := by decide +kernel
  extFlags := fun h => by cases h
  priv := by rw [if_pos (by decide)]; rfl
  psc := by rw [if_pos (by decide)]; decide
  pstd := by rw [if_pos (by decide)]; decide
  ext2 := by rw [if_pos (by decide)]; exact ⟨by decide, rfl⟩

def exPadding : PESHeader := { streamID := 0xbe, optionalHeader := none }

example : PESHeaderOk exPadding := by
  refine ⟨by decide, ?_⟩
  rw [if_neg (by decide)]
  rfl

/-! ## W2 — the PES writer emits exactly the standard's layout: `pesHeaderBytes` / `writePESData` = the independent
reference encoder `Spec.pesEncode` (Astits/Spec/PES.lean: ISO/IEC 13818-1 table 2-21 transcribed with `Spec.enc`).
Helper development: Astits/Proofs/SpecEq/{Enc,TS,PES}.lean. -/

section WriterEqSpec
open Astits.SpecEq

/-- **optional PES header**, every flag combination (`SpecEq.PESOptAgree`: no CRC, no pack header, 16 bytes of private
data, non-negative timestamps, 1-bit intra_slice_refresh; no upper bound on any numeric field is needed — both sides
mask alike, PES_header_data_length included) -/
theorem pes_optional_eq_spec (oh : PESOptionalHeader) (ag : PESOptAgree oh) :
    pesOptionalHeaderBytes oh = Spec.pesOptionalEncode oh 0 := (optEncode_eq oh ag).symm

/-- **W2**: start code prefix, stream id, PES_packet_length, optional header, payload -/
theorem pes_written_eq_spec (h : PESHeader) (payload : Bytes) (ag : PESAgree h payload.length) :
    pesHeaderBytes h payload.length ++ payload = Spec.pesEncode h 0 payload := (pesEncode_eq h payload ag).symm

/-- the header part alone -/
theorem pes_header_eq_spec (h : PESHeader) (n : Nat) (ag : PESAgree h n) :
    pesHeaderBytes h n = Spec.pesEncode h 0 [] := pesHeader_eq h n ag

/-- **W2** for `writePESData`: the first TS packet of a PES unit carries the first `bytesAvailable` bytes of the reference
PES packet (the whole of it when it fits); the counts returned are the bytes emitted and the payload bytes among them -/
theorem writePESData_first_eq_spec (h : PESHeader) (payload : Bytes) (avail : Nat) (ag : PESAgree h payload.length)
    (hnil : (h.optionalHeader.map pesOptNilDeref).getD false = false)
    (hav : (pesHeaderBytes h payload.length).length ≤ avail) :
    writePESData h payload true (avail : Int) =
      .ok ((Spec.pesEncode h 0 payload).take avail,
           min avail (Spec.pesEncode h 0 payload).length,
           min (avail - (pesHeaderBytes h payload.length).length) payload.length) :=
  writePESData_first_eq h payload avail ag hnil hav

/-- **W2** under the hypothesis of `pes_roundtrip` (`PESHeaderOk`) plus the PES_packet_length rule -/
theorem pes_written_eq_spec_ok (h : PESHeader) (payload : Bytes) (ok : PESHeaderOk h)
    (hl : h.packetLength = pesPacketLengthFor h payload.length) :
    pesHeaderBytes h payload.length ++ payload = Spec.pesEncode h 0 payload :=
  pes_written_eq_spec h payload (pesAgree_of_ok h _ ok hl)

theorem writePESData_first_eq_spec_ok (h : PESHeader) (payload : Bytes) (avail : Nat) (ok : PESHeaderOk h)
    (hl : h.packetLength = pesPacketLengthFor h payload.length)
    (hav : (pesHeaderBytes h payload.length).length ≤ avail) :
    writePESData h payload true (avail : Int) =
      .ok ((Spec.pesEncode h 0 payload).take avail,
           min avail (Spec.pesEncode h 0 payload).length,
           min (avail - (pesHeaderBytes h payload.length).length) payload.length) :=
  writePESData_first_eq h payload avail (pesAgree_of_ok h _ ok hl) (pesNilDeref_of_ok h ok) hav

/-- hence the reference bytes parse back (bounded packets) -/
theorem parse_pesEncode (h : PESHeader) (payload : Bytes) (ok : PESHeaderOk h)
    (hl : h.packetLength = pesPacketLengthFor h payload.length) :
    parsePESData.val (Spec.pesEncode h 0 payload) = .ok { data := payload, header := h } := by
  rw [← pes_written_eq_spec_ok h payload ok hl]
  unfold P.val
  rw [pes_roundtrip h payload ok, ← hl]

/-! ### non-vacuity, and the excluded points evaluated -/

theorem exFullOpt_agree : PESOptAgree exFullOpt :=
  ⟨rfl, fun _ => rfl, fun _ _ => rfl, fun _ => by decide, fun _ => by decide, fun _ => by decide, fun _ _ => by decide⟩

def exFull : PESHeader := { streamID := 0xc0, optionalHeader := some exFullOpt, packetLength := 51 }

theorem exFull_agree : PESAgree exFull 3 := ⟨by decide +kernel, fun _ => ⟨exFullOpt, rfl, exFullOpt_agree⟩⟩

example : pesHeaderBytes exFull 3 ++ [9, 9, 9] = Spec.pesEncode exFull 0 [9, 9, 9] :=
  pes_written_eq_spec exFull [9, 9, 9] exFull_agree

/-- the reference bytes: start code, stream id c0, length 0x0033, flags 99 fd, header data length 45, PTS, DTS, … -/
example : (Spec.pesEncode exFull 0 [9, 9, 9]).take 14 = [0, 0, 1, 0xc0, 0, 0x33, 0x99, 0xfd, 0x2d, 0x3f, 0xff, 0xff, 0xff, 0xff] := by
  decide +kernel

/-- a first TS packet with room for 56 bytes: the first 56 bytes of the 57-byte reference packet (54 header bytes + 2 of
the 3 payload bytes) -/
example : ∃ n k, writePESData exFull [9, 9, 9] true 56 = .ok ((Spec.pesEncode exFull 0 [9, 9, 9]).take 56, n, k) :=
  ⟨_, _, writePESData_first_eq_spec exFull [9, 9, 9] 56 exFull_agree (by decide +kernel) (by decide +kernel)⟩

def mkAudio (o : PESOptionalHeader) : PESHeader :=
  { streamID := 0xc0, optionalHeader := some o, packetLength := pesPacketLengthFor { streamID := 0xc0, optionalHeader := some o } 3 }

/-- excluded point 1 (a value the PARSER delivers): `HasCRC = true`.  The writer always clears PES_CRC_flag and drops
previous_PES_packet_CRC ("not supported yet" in data_pes.go): flags byte 0x00 and PES_header_data_length 0, where the
reference writes 0x02, length 2 and the CRC 0x1234.  Re-muxing a parsed PES header with a CRC silently loses it. -/
example : (pesHeaderBytes (mkAudio { markerBits := 2, hasCRC := true, crc := 0x1234 }) 3).drop 6 = [0x80, 0x00, 0x00]
    ∧ (Spec.pesEncode (mkAudio { markerBits := 2, hasCRC := true, crc := 0x1234 }) 0 []).drop 6 = [0x80, 0x02, 0x02, 0x12, 0x34] := by
  decide +kernel

/-- excluded point 2 (parser-deliverable): `HasPackHeaderField = true`: the writer clears pack_header_field_flag (0x0e), the
reference sets it (0x4e); neither writes a pack header -/
example : (pesHeaderBytes (mkAudio { markerBits := 2, hasExtension := true, hasPackHeaderField := true }) 3).drop 8 = [0x01, 0x0e]
    ∧ (Spec.pesEncode (mkAudio { markerBits := 2, hasExtension := true, hasPackHeaderField := true }) 0 []).drop 8 = [0x01, 0x4e] := by
  decide +kernel

/-- excluded point 3: PES private data that is not 16 bytes: `WriteBytesN` pads to 16 (header data length 0x11), the
reference copies the 3 bytes (0x04) -/
example : (pesHeaderBytes (mkAudio { markerBits := 2, hasExtension := true, hasPrivateData := true, privateData := [1, 2, 3] }) 3).length = 26
    ∧ (Spec.pesEncode (mkAudio { markerBits := 2, hasExtension := true, hasPrivateData := true, privateData := [1, 2, 3] }) 0 []).length = 13 := by
  decide +kernel

/-- excluded point 4: intra_slice_refresh = 3 (not a 1-bit value; the Go field is `uint8`): the writer writes `== 1`, i.e. 0,
the reference the low bit, i.e. 1 -/
example : (pesHeaderBytes (mkAudio { markerBits := 2, hasDSMTrickMode := true, dsmTrickMode := some { trickModeControl := 0, intraSliceRefresh := 3 } }) 3).drop 9 = [0x00]
    ∧ (Spec.pesEncode (mkAudio { markerBits := 2, hasDSMTrickMode := true, dsmTrickMode := some { trickModeControl := 0, intraSliceRefresh := 3 } }) 0 []).drop 9 = [0x04] := by
  decide +kernel

/-- excluded point 5: a stream id with an optional header but `OptionalHeader = nil`: the writer emits NO optional header
(the bytes are then not a valid PES packet for this stream id), the reference encodes an empty one -/
example : pesHeaderBytes { streamID := 0xc0, optionalHeader := none, packetLength := 3 } 3 = [0, 0, 1, 0xc0, 0, 3]
    ∧ Spec.pesEncode { streamID := 0xc0, optionalHeader := none, packetLength := 3 } 0 [] = [0, 0, 1, 0xc0, 0, 3, 0x80, 0, 0] := by
  decide +kernel

/-- excluded point 6: `PacketLength` not following the writer's rule — the writer ignores the field: a video stream id
always gets 0 (the reference writes the value, here 11) -/
example : (pesHeaderBytes { streamID := 0xe0, optionalHeader := some exAudioOpt, packetLength := 11 } 3).take 6 = [0, 0, 1, 0xe0, 0, 0]
    ∧ (Spec.pesEncode { streamID := 0xe0, optionalHeader := some exAudioOpt, packetLength := 11 } 0 []).take 6 = [0, 0, 1, 0xe0, 0, 11] := by
  decide +kernel

end WriterEqSpec

/-! ## P1 — reader side for the FULL reference encoder: header stuffing, previous_PES_packet_CRC, every
PES_packet_length situation (helpers: `Proofs/PESReader.lean`, namespace `Astits.PESReader`)

`parse_pesEncode` above covers only what the WRITER emits (`Spec.pesEncode h 0 …`, no CRC).  Real streams carry
PES_header_data_length larger than the fields present (stuffing bytes 0xff) and previous_PES_packet_CRC; the theorems below
are about `parsePESData` on `Spec.pesEncode h stuffing payload` for those.

`PESHeaderOkR h st`: 8-bit stream id, 16-bit `PacketLength` (ANY value), optional header present exactly for the stream
ids that carry one and satisfying `PESOptOkR oh st` = the clauses of `PESOptOk` except
* `HasCRC` free; `CRC < 65536` when set, `0` otherwise;
* `HeaderLength = fieldsLength oh + st < 256` where `fieldsLength` = bytes of the optional fields present (CRC counted).
`HeaderLength` is the only field of the parsed value in which the stuffing shows (the parser copies the
PES_header_data_length byte; the stuffing bytes themselves are never read: the payload start is computed as
`offset + PES_header_data_length` and sought).  Nothing is "recomputed" on the reader side: the delivered header is `h`. -/

section ReaderFull
open Astits.PESReader

/-- **P1 (all cases)**: `L = optLen h` is 0 or 3 + PES_header_data_length; `payload` = the bytes that follow the header in the
slice handed to `parsePESData` (bytes after the announced end included) -/
theorem parse_pesEncode_reader (h : PESHeader) (st : Nat) (payload : Bytes) (ok : PESHeaderOkR h st) :
    parsePESData.val (Spec.pesEncode h st payload) =
      if h.packetLength = 0 then .ok { data := payload, header := h }
      else if h.packetLength < optLen h ∨ optLen h + payload.length < h.packetLength then .err .other
      else .ok { data := payload.take (h.packetLength - optLen h), header := h } :=
  parse_pesEncode_general h st payload ok

/-- unbounded (PES_packet_length = 0): everything up to the end of the slice -/
theorem parse_pesEncode_unbounded (h : PESHeader) (st : Nat) (payload : Bytes) (ok : PESHeaderOkR h st)
    (hpl : h.packetLength = 0) :
    parsePESData.val (Spec.pesEncode h st payload) = .ok { data := payload, header := h } := by
  rw [parse_pesEncode_reader h st payload ok, if_pos hpl]

/-- exact (bounded): PES_packet_length = optional header + payload -/
theorem parse_pesEncode_exact (h : PESHeader) (st : Nat) (payload : Bytes) (ok : PESHeaderOkR h st)
    (hpl : h.packetLength = optLen h + payload.length) :
    parsePESData.val (Spec.pesEncode h st payload) = .ok { data := payload, header := h } := by
  rw [parse_pesEncode_reader h st payload ok]
  by_cases h0 : h.packetLength = 0
  · rw [if_pos h0]
  · rw [if_neg h0, if_neg (by omega)]
    have : h.packetLength - optLen h = payload.length := by omega
    rw [this, List.take_length]

/-- exact length, followed by `extra` bytes in the slice (what the test driver appends): the extra bytes are dropped -/
theorem parse_pesEncode_exact_trailing (h : PESHeader) (st : Nat) (payload extra : Bytes) (ok : PESHeaderOkR h st)
    (hpl : h.packetLength = optLen h + payload.length) (hpos : 0 < h.packetLength) :
    parsePESData.val (Spec.pesEncode h st payload ++ extra) = .ok { data := payload, header := h } := by
  have e : Spec.pesEncode h st payload ++ extra = Spec.pesEncode h st (payload ++ extra) := by
    unfold Spec.pesEncode; simp only [List.append_assoc]
  rw [e, parse_pesEncode_reader h st _ ok, if_neg (by omega), if_neg (by simp only [List.length_append]; omega)]
  have : h.packetLength - optLen h = payload.length := by omega
  rw [this, List.take_left']
  rfl

/-- shorter than the unit: the data is TRUNCATED to the announced length, silently -/
theorem parse_pesEncode_shorter (h : PESHeader) (st : Nat) (payload : Bytes) (ok : PESHeaderOkR h st)
    (hlo : optLen h ≤ h.packetLength) (hpos : 0 < h.packetLength) (hhi : h.packetLength ≤ optLen h + payload.length) :
    parsePESData.val (Spec.pesEncode h st payload) =
      .ok { data := payload.take (h.packetLength - optLen h), header := h } := by
  rw [parse_pesEncode_reader h st payload ok, if_neg (by omega), if_neg (by omega)]

/-- longer than the unit: an error, never partial or wrong data -/
theorem parse_pesEncode_longer (h : PESHeader) (st : Nat) (payload : Bytes) (ok : PESHeaderOkR h st)
    (hlong : optLen h + payload.length < h.packetLength) :
    parsePESData.val (Spec.pesEncode h st payload) = .err .other := by
  rw [parse_pesEncode_reader h st payload ok, if_neg (by omega), if_pos (.inr hlong)]

/-- a non-zero PES_packet_length that ends inside the optional header ("data end before data start"): an error -/
theorem parse_pesEncode_inside_header (h : PESHeader) (st : Nat) (payload : Bytes) (ok : PESHeaderOkR h st)
    (hpos : 0 < h.packetLength) (hs : h.packetLength < optLen h) :
    parsePESData.val (Spec.pesEncode h st payload) = .err .other := by
  rw [parse_pesEncode_reader h st payload ok, if_neg (by omega), if_pos (.inl hs)]

/-- the optional header alone, wherever it stands: the header comes back and the payload start is
`offset + 3 + PES_header_data_length` (stuffing skipped); its encoding has exactly that many bytes -/
theorem pes_optional_header_reader (h : PESOptionalHeader) (st : Nat) (ok : PESOptOkR h st) (pre post : Bytes) :
    (Spec.pesOptionalEncode h st).length = 3 + h.headerLength ∧
    ∃ j, parsePESOptionalHeader ⟨pre ++ Spec.pesOptionalEncode h st ++ post, pre.length⟩ =
      .ok ((h, (pre.length : Int) + 3 + ((h.headerLength : Nat) : Int)), j) :=
  ⟨optEncode_length h st ok,
   (parseOpt_spec h st ok _ _ post ⟨pre, by simp, rfl⟩).imp fun _ hj => hj.1⟩

/-- the reader predicate extends the writer's: `PESOptOk h → PESOptOkR h 0` -/
theorem okR_of_writer_ok (h : PESOptionalHeader) (ok : PESOptOk h) : PESOptOkR h 0 := okR_of_ok h ok

/-! #### non-vacuity -/

/-- PTS, previous_PES_packet_CRC 0xbeef, 5 stuffing bytes: PES_header_data_length = 5 + 2 + 5 -/
def exCRCStuffOpt : PESOptionalHeader :=
  { markerBits := 2, ptsDTSIndicator := 2, pts := some { base := 90000, extension := 0 }, hasCRC := true, crc := 0xbeef, headerLength := 12 }

theorem exCRCStuffOpt_ok : PESOptOkR exCRCStuffOpt 5 where
  markerBits := rfl
  scramblingControl := by decide
  ind := by decide
  pts := by rw [if_pos (by decide)]; exact ⟨90000, by decide, rfl⟩
  dts := by rw [if_neg (by decide)]; rfl
  escr := by rw [if_neg (by decide)]; rfl
  esRate := by rw [if_neg (by decide)]; rfl
  dsm := by rw [if_neg (by decide)]; rfl
  aci := by rw [if_neg (by decide)]; rfl
  crc := by rw [if_pos (by decide)]; decide
  noOptionalFields := rfl
  noPack := ⟨rfl, rfl⟩
  headerLength := by decide +kernel
  fits := by decide
  extFlags := fun _ => ⟨rfl, rfl, rfl, rfl⟩
  priv := by rw [if_neg (by decide)]; rfl
  psc := by rw [if_neg (by decide)]; exact ⟨rfl, rfl, rfl⟩
  pstd := by rw [if_neg (by decide)]; exact ⟨rfl, rfl⟩
  ext2 := by rw [if_neg (by decide)]; exact ⟨rfl, rfl⟩

def exCRCStuff (pl : Nat) : PESHeader := { streamID := 0xc0, optionalHeader := some exCRCStuffOpt, packetLength := pl }

theorem exCRCStuff_ok (pl : Nat) (hpl : pl < 65536) : PESHeaderOkR (exCRCStuff pl) 5 := by
  refine ⟨show (0xc0 : Nat) < 256 by decide, hpl, ?_⟩
  show if hasPESOptionalHeader 0xc0 = true then _ else _
  rw [if_pos (by decide)]
  exact ⟨exCRCStuffOpt, rfl, exCRCStuffOpt_ok⟩

/-- the bytes: start code, c0, length 0x0013 = 15 + 4, flags 80 82, header data length 0x0c, PTS, CRC be ef, ff×5, payload -/
example : Spec.pesEncode (exCRCStuff 19) 5 [1, 2, 3, 4]
    = [0, 0, 1, 0xc0, 0, 0x13, 0x80, 0x82, 0x0c, 0x21, 0x00, 0x05, 0xbf, 0x21, 0xbe, 0xef, 0xff, 0xff, 0xff, 0xff, 0xff, 1, 2, 3, 4] := by
  decide +kernel

example : optLen (exCRCStuff 19) = 15 := by decide +kernel

/-- the four situations on this header (optional header 15 bytes, 4 payload bytes) -/
example : parsePESData.val (Spec.pesEncode (exCRCStuff 19) 5 [1, 2, 3, 4]) = .ok { data := [1, 2, 3, 4], header := exCRCStuff 19 } :=
  parse_pesEncode_exact _ 5 _ (exCRCStuff_ok 19 (by decide)) (by decide +kernel)
example : parsePESData.val (Spec.pesEncode (exCRCStuff 0) 5 [1, 2, 3, 4]) = .ok { data := [1, 2, 3, 4], header := exCRCStuff 0 } :=
  parse_pesEncode_unbounded _ 5 _ (exCRCStuff_ok 0 (by decide)) rfl
example : parsePESData.val (Spec.pesEncode (exCRCStuff 17) 5 [1, 2, 3, 4]) = .ok { data := [1, 2], header := exCRCStuff 17 } :=
  parse_pesEncode_shorter _ 5 _ (exCRCStuff_ok 17 (by decide)) (by decide +kernel) (by decide) (by decide +kernel)
example : parsePESData.val (Spec.pesEncode (exCRCStuff 20) 5 [1, 2, 3, 4]) = .err .other :=
  parse_pesEncode_longer _ 5 _ (exCRCStuff_ok 20 (by decide)) (by decide +kernel)
example : parsePESData.val (Spec.pesEncode (exCRCStuff 14) 5 [1, 2, 3, 4]) = .err .other :=
  parse_pesEncode_inside_header _ 5 _ (exCRCStuff_ok 14 (by decide)) (by decide) (by decide +kernel)
/-- PES_packet_length = 15 = exactly the optional header: an empty payload, not an error -/
example : parsePESData.val (Spec.pesEncode (exCRCStuff 15) 5 [1, 2, 3, 4]) = .ok { data := [], header := exCRCStuff 15 } :=
  parse_pesEncode_shorter _ 5 _ (exCRCStuff_ok 15 (by decide)) (by decide +kernel) (by decide) (by decide +kernel)

/-- every optional field of `exFullOpt` plus CRC plus 32 stuffing bytes: PES_header_data_length 45 + 2 + 32 = 79 -/
def exFullCRCOpt : PESOptionalHeader := { exFullOpt with hasCRC := true, crc := 0xffff, headerLength := 79 }

example : PESOptOkR exFullCRCOpt 32 where
  markerBits := rfl
  scramblingControl := by decide
  ind := by decide
  pts := by rw [if_pos (by decide)]; exact ⟨8589934591, by decide, rfl⟩
  dts := by rw [if_pos (by decide)]; exact ⟨1, by decide, rfl⟩
  escr := by rw [if_pos (by decide)]; exact ⟨123456789, 511, by decide, by decide, rfl⟩
  esRate := by rw [if_pos (by decide)]; decide
  dsm := by rw [if_pos (by decide)]; exact ⟨_, rfl, by decide⟩
  aci := by rw [if_pos (by decide)]; decide
  crc := by rw [if_pos (by decide)]; decide
  noOptionalFields := rfl
  noPack := ⟨rfl, rfl⟩
  headerLength := by decide +kernel
  fits := by decide
  extFlags := fun h => by cases h
  priv := by rw [if_pos (by decide)]; rfl
  psc := by rw [if_pos (by decide)]; decide
  pstd := by rw [if_pos (by decide)]; decide
  ext2 := by rw [if_pos (by decide)]; exact ⟨by decide, rfl⟩

/-! #### the excluded points, evaluated -/

/-- (1) `fits` (PES_header_data_length < 256) cannot be violated by a byte; with fields + stuffing ≥ 256 the REFERENCE wraps
the length byte (mod 256) and the parser then starts the data inside the stuffing: here 5 + 251 = 256 → length byte 0,
data = PTS bytes + stuffing + payload -/
example : (parsePESData.val (Spec.pesEncode { streamID := 0xc0, packetLength := 0, optionalHeader := some { markerBits := 2, ptsDTSIndicator := 2, pts := some { base := 0, extension := 0 } } } 251 [7])).isOk = true
    ∧ (match parsePESData.val (Spec.pesEncode { streamID := 0xc0, packetLength := 0, optionalHeader := some { markerBits := 2, ptsDTSIndicator := 2, pts := some { base := 0, extension := 0 } } } 251 [7]) with
        | .ok d => d.data.length == 257 && d.header.optionalHeader.map (·.headerLength) == some 0 | _ => false) = true := by
  decide +kernel

/-- (2) `noPack`: pack_header_field_flag set.  The parser reads ONE byte (pack_field_length) into `PackField` and does not
skip the pack header itself — the following extension fields would be read from inside the pack header; the reference
encodes no pack header at all.  On reference bytes with the flag set and P-STD present (scale 1, size 0x123 → bytes 61 23),
`PackField` gets 0x61 and the P-STD buffer is read from 23 and the first PAYLOAD byte 07: size 0x307.  The data is still
`[7]` because the payload start comes from PES_header_data_length, not from the bytes consumed. -/
example : (match parsePESData.val (Spec.pesEncode { streamID := 0xc0, packetLength := 0, optionalHeader := some { markerBits := 2, hasExtension := true, hasPackHeaderField := true, hasPSTDBuffer := true, pstdBufferScale := 1, pstdBufferSize := 0x123, headerLength := 3 } } 0 [7]) with
        | .ok d => d.header.optionalHeader.map (fun (o : PESOptionalHeader) => (o.packField, o.pstdBufferScale, o.pstdBufferSize, d.data)) | _ => none)
      = some (0x61, 1, 0x307, [7]) := by
  decide +kernel

/-- (3) `headerLength` smaller than the fields present (non-conformant): no error — the payload "starts" inside the
fields: PES_header_data_length = 0 with a PTS present delivers the 5 PTS bytes as data -/
example : (match parsePESData.val [0, 0, 1, 0xc0, 0, 0, 0x80, 0x80, 0x00, 0x21, 0x00, 0x01, 0x00, 0x01, 9] with
        | .ok d => d.data | _ => []) = [0x21, 0x00, 0x01, 0x00, 0x01, 9] := by
  decide +kernel

/-- (4) marker bits ≠ '10' (MPEG-1 style or garbage): not checked, delivered in `MarkerBits` -/
example : (match parsePESData.val [0, 0, 1, 0xc0, 0, 0, 0x40, 0x00, 0x00, 9] with
        | .ok d => d.header.optionalHeader.map (·.markerBits) | _ => none) = some 1 := by
  decide +kernel

/-- (5) stuffing bytes that are not 0xff: never read, same result -/
example : (match parsePESData.val [0, 0, 1, 0xc0, 0, 0, 0x80, 0x00, 0x03, 0xaa, 0xbb, 0xcc, 9],
              parsePESData.val [0, 0, 1, 0xc0, 0, 0, 0x80, 0x00, 0x03, 0xff, 0xff, 0xff, 9] with
        | .ok d, .ok d' => decide (d = d') && d.data == [9] | _, _ => false) = true := by
  decide +kernel

end ReaderFull

end Astits.C12
