/-
C12 — PES headers and timestamps are decoded and encoded per ISO 13818-1.
-/
import Astits.Proofs.Layout
import Astits.Generated.Exprs
namespace Astits.C12

/-- PTS and DTS: all 2^33 values, whatever the 4-bit prefix ('0010', '0011', '0001') -/
theorem pts_roundtrip (prefix4 base : Nat) (hb : base < 2 ^ 33) :
    ptsOfBytes (ptsBytes prefix4 { base := base, extension := 0 }) = { base := base, extension := 0 } :=
  Astits.pts_roundtrip prefix4 base (by simpa using hb)

/-- ESCR: all 2^33 base values and all 2^9 extensions -/
theorem escr_roundtrip (base ext : Nat) (hb : base < 2 ^ 33) (he : ext < 2 ^ 9) :
    escrOfBytes (escrBytes { base := base, extension := ext }) = { base := base, extension := ext } :=
  Astits.escr_roundtrip base ext (by simpa using hb) (by simpa using he)

/-- all 256 trick-mode bytes: what is decoded is re-encoded to a byte that decodes to the same value, and the
decoded fields are the bit fields of ISO 13818-1 2.4.3.7 -/
theorem trickmode_all_bytes : ∀ b : Fin 256,
    (dsmBytes (parseDSMTrickMode b.val)).length = 1 ∧
    parseDSMTrickMode ((dsmBytes (parseDSMTrickMode b.val)).getD 0 0) = parseDSMTrickMode b.val ∧
    (parseDSMTrickMode b.val).trickModeControl = b.val / 32 := by
  decide +kernel

/-- ES rate: 22 bits between two marker bits in three bytes -/
theorem es_rate_roundtrip (r : Nat) (hr : r < 4194304) :
    let bs := packFields [(1, 1), (r, 22), (1, 1)]
    (bs.getD 0 0 % 128) * 32768 + bs.getD 1 0 * 128 + bs.getD 2 0 / 2 = r := by
  simp only [packFields, fieldsWidth, fieldsValue, beBytes, List.getD_cons_zero, List.getD_cons_succ]
  simp only [Nat.reducePow, Nat.reduceAdd, Nat.reduceDiv, Nat.pow_zero, Nat.div_one, Nat.pow_one]
  omega

/-- `ClockReference.Duration()`: base/90 kHz + extension/27 MHz, each term truncated to nanoseconds; no int64
overflow for any 33-bit base (base · 10^9 < 2^63) -/
theorem duration_exact (base ext : Nat) (hb : base < 2 ^ 33) (he : ext < 2 ^ 9) :
    ({ base := base, extension := ext } : ClockReference).duration
      = ((base * 1000000000 / 90000 + ext * 1000000000 / 27000000 : Nat) : Int)
    ∧ base * 1000000000 < 2 ^ 63 := by
  constructor
  · unfold ClockReference.duration
    simp only
    have h1 : ((base : Int) * 1000000000).tdiv 90000 = ((base * 1000000000 / 90000 : Nat) : Int) := by
      have : (base : Int) * 1000000000 = ((base * 1000000000 : Nat) : Int) := by simp
      rw [this, Int.natCast_tdiv_eq_ediv]; simp
    have h2 : ((ext : Int) * 1000000000).tdiv 27000000 = ((ext * 1000000000 / 27000000 : Nat) : Int) := by
      have : (ext : Int) * 1000000000 = ((ext * 1000000000 : Nat) : Int) := by simp
      rw [this, Int.natCast_tdiv_eq_ediv]; simp
    rw [h1, h2]; simp
  · have : (2:Nat) ^ 33 = 8589934592 := by decide
    have : (2:Nat) ^ 63 = 9223372036854775808 := by decide
    omega

/-- the duration is within 2 ns below the exact value (two truncations) -/
theorem duration_error (base ext : Nat) :
    let exactNum := base * 1000000000 * 300 + ext * 1000000000   -- exact duration × 27 000 000
    let d := base * 1000000000 / 90000 + ext * 1000000000 / 27000000
    d * 27000000 ≤ exactNum ∧ exactNum < (d + 2) * 27000000 := by
  intro exactNum d
  constructor <;> omega

/-- PES_packet_length written by the library: 0 for video stream ids or when it would exceed 65535, otherwise the
bytes that follow the field -/
theorem length_rule (h : PESHeader) (n : Nat) :
    pesPacketLengthFor h n =
      if isVideoStream h.streamID then 0
      else if n + (if hasPESOptionalHeader h.streamID then calcPESOptionalHeaderLength h.optionalHeader else 0) > 65535 then 0
      else n + (if hasPESOptionalHeader h.streamID then calcPESOptionalHeaderLength h.optionalHeader else 0) := by
  unfold pesPacketLengthFor
  split <;> simp

/-- tie: the Go predicates of today -/
theorem generated_hasOptionalHeader : ∀ s : Fin 256, Generated.hasPESOptionalHeader s.val = hasPESOptionalHeader s.val := by
  decide +kernel
theorem generated_isVideoStream : ∀ s : Fin 256, Generated.isVideoStream s.val = isVideoStream s.val := by
  decide +kernel

example : parseDSMTrickMode 0x6b = { trickModeControl := 3, fieldID := 1, intraSliceRefresh := 0, frequencyTruncation := 3 } := by decide

end Astits.C12
