/-
C20 — Rewind restarts demuxing from a clean state.
-/
import Astits.Model.Demux
import Astits.Proofs.DemuxRuns
namespace Astits.C20

/-- on a seekable reader Rewind reports offset 0 and leaves the demuxer exactly in its initial state, except for
the program map (deliberately kept) and the callback logs: no buffered data, no packet buffer (the packet size
is detected again), an empty pool, reader at position 0 -/
theorem rewind_resets (d : Demux) (h : d.r.kind = .seek) :
    d.rewind.1 = 0 ∧ d.rewind.2.dataBuffer = [] ∧ d.rewind.2.packetSize = none ∧ d.rewind.2.pool = [] ∧
    d.rewind.2.r.pos = 0 ∧ d.rewind.2.r.data = d.r.data ∧ d.rewind.2.programMap = d.programMap ∧
    d.rewind.2.optPacketSize = d.optPacketSize := by
  unfold Demux.rewind
  simp [h]

/-- a demuxer differing from a fresh one only by its program map -/
def freshWith (d : Demux) : Demux :=
  { r := { d.r with pos := 0 }, optPacketSize := d.optPacketSize, skipper := d.skipper, parser := d.parser,
    programMap := d.programMap, skipLog := d.skipLog, parserLog := d.parserLog, skipIdx := d.skipIdx }

/-- **after Rewind the demuxer *is* a freshly created one on the same reader, up to the program map** (and
the logs of the test callbacks): whatever was consumed, buffered or half assembled before leaves no residue -/
theorem rewind_eq_fresh (d : Demux) (h : d.r.kind = .seek) : d.rewind.2 = freshWith d := by
  unfold Demux.rewind freshWith
  simp [h]

/-- closed under repetition -/
theorem rewind_idempotent (d : Demux) (h : d.r.kind = .seek) : d.rewind.2.rewind.2 = d.rewind.2 := by
  have h2 : d.rewind.2.r.kind = .seek := by unfold Demux.rewind; simp [h]
  rw [rewind_eq_fresh _ h2, rewind_eq_fresh d h]
  simp [freshWith]

/-- a reader that cannot seek is left where it is and −1 is reported -/
theorem rewind_not_seekable (d : Demux) (h : d.r.kind ≠ .seek) : d.rewind.1 = -1 ∧ d.rewind.2.r = d.r := by
  unfold Demux.rewind
  cases hk : d.r.kind <;> simp_all

example : ({ r := { data := [1, 2, 3], pos := 2 }, dataBuffer := [{}], packetSize := some 188 } : Demux).rewind.2.r.pos = 0 := by decide

/-! ## R1 — after Rewind the demuxer *behaves* as a freshly constructed one

`Demux.runCalls d cs` (`Proofs/DemuxRuns.lean`) are the results of the call sequence `cs` (any mix of `NextPacket` and
`NextData`), `Demux.after d cs` the state reached. The model keeps the program map across `Rewind` (as the
implementation does), and `NextData` results *do* depend on it — see `rewind_differs_pmt_before_pat` below. The
hypothesis that excludes this is `Compatible L d₀ cs` with `L` the map kept by the Rewind: in the run of the fresh
demuxer, every packet handed to the pool whose PID `L` knows as a PMT PID arrives when the fresh demuxer knows that PID
too ("the PAT precedes the PMTs"). `NextPacket` results never depend on the map. -/

/-- a freshly constructed demuxer (any reader contents, packet size option, skipper, custom parser) -/
structure Fresh (d : Demux) : Prop where
  pos : d.r.pos = 0
  packetSize : d.packetSize = none
  pool : d.pool = []
  dataBuffer : d.dataBuffer = []
  programMap : d.programMap = []

theorem reader_same_pos {r r' : Reader} (h : Reader.Same r r') : { r' with pos := r.pos } = r := by
  obtain ⟨d, p, k, fa, fo, fd⟩ := r
  obtain ⟨d', p', k', fa', fo', fd'⟩ := r'
  obtain ⟨h1, h2, h3, h4, h5⟩ := h
  simp only at h1 h2 h3 h4 h5
  subst h1 h2 h3 h4 h5
  rfl

/-- the state after `cs₀`; Rewind is in lock step with the fresh state `d₀` (whose skipper — a stateful object the
demuxer cannot reset — is at consultation index `k`): same reader at offset 0, same options, empty pool and data
buffer, program map = what was learnt before the Rewind -/
theorem rewind_lock_idx (d₀ : Demux) (hfresh : Fresh d₀) (hs : d₀.Seekable) (cs₀ : List ApiCall) (k : Nat)
    (hk : (d₀.after cs₀).skipIdx = k ∨ ∀ ds, d₀.skipper ≠ .script ds) :
    Lock (d₀.after cs₀).programMap (d₀.after cs₀).rewind.2 { d₀ with skipIdx := k } := by
  have hst := after_static cs₀ d₀ hs
  have hseek := hst.seekable hs
  rw [rewind_eq_fresh _ hseek.2]
  refine ⟨⟨?_, hst.opt, hst.skipper, hfresh.packetSize.symm, ?_⟩, ⟨hfresh.pool.symm, hfresh.dataBuffer.symm, hst.parser, ?_⟩, ?_⟩
  · show ({ (d₀.after cs₀).r with pos := 0 } : Reader) = d₀.r
    rw [← hfresh.pos]; exact reader_same_pos hst.r
  · rcases hk with hk | hk
    · exact Or.inl hk
    · right
      intro ds
      show (d₀.after cs₀).skipper ≠ _
      rw [hst.skipper]; exact hk ds
  · intro x
    show (d₀.after cs₀).programMap.has x = (d₀.programMap.has x || (d₀.after cs₀).programMap.has x)
    rw [hfresh.programMap]; rfl
  · show Pool.All _ d₀.pool
    rw [hfresh.pool]; exact Pool.All.nil

theorem rewind_lock (d₀ : Demux) (hfresh : Fresh d₀) (hs : d₀.Seekable) (hsk : ∀ ds, d₀.skipper ≠ .script ds)
    (cs₀ : List ApiCall) : Lock (d₀.after cs₀).programMap (d₀.after cs₀).rewind.2 d₀ :=
  rewind_lock_idx d₀ hfresh hs cs₀ d₀.skipIdx (Or.inr hsk)

/-- **R1: after Rewind the demuxer behaves as a freshly constructed one.** `d₀` is a fresh demuxer on a seekable
fault-free reader (any contents — whole packets or not —, explicit or auto-detected packet size, no skipper or a pure
predicate, any custom parser). After ANY calls `cs₀`, `Rewind`, ANY further calls `cs` return exactly what they
return on the fresh demuxer — provided the continuation is `Compatible` with the program map kept by the Rewind -/
theorem rewind_behaves_fresh (d₀ : Demux) (hfresh : Fresh d₀) (hs : d₀.Seekable) (hsk : ∀ ds, d₀.skipper ≠ .script ds)
    (cs₀ cs : List ApiCall) (hc : Compatible (d₀.after cs₀).programMap d₀ cs) :
    (d₀.after cs₀).rewind.2.runCalls cs = d₀.runCalls cs :=
  runCalls_lock _ cs _ _ (rewind_lock d₀ hfresh hs hsk cs₀) hc

/-- the packet API never looks at the program map: unconditional -/
theorem rewind_behaves_fresh_packets (d₀ : Demux) (hfresh : Fresh d₀) (hs : d₀.Seekable)
    (hsk : ∀ ds, d₀.skipper ≠ .script ds) (cs₀ cs : List ApiCall) (hcs : ∀ c ∈ cs, c = ApiCall.nextPacket) :
    (d₀.after cs₀).rewind.2.runCalls cs = d₀.runCalls cs :=
  rewind_behaves_fresh d₀ hfresh hs hsk cs₀ cs (compatible_of_nextPacket_only _ cs hcs d₀)

/-- nothing learnt before the Rewind (no PAT delivered yet): unconditional -/
theorem rewind_behaves_fresh_nothing_learnt (d₀ : Demux) (hfresh : Fresh d₀) (hs : d₀.Seekable)
    (hsk : ∀ ds, d₀.skipper ≠ .script ds) (cs₀ cs : List ApiCall) (hL : ∀ x, (d₀.after cs₀).programMap.has x = false) :
    (d₀.after cs₀).rewind.2.runCalls cs = d₀.runCalls cs :=
  rewind_behaves_fresh d₀ hfresh hs hsk cs₀ cs (compatible_of_empty _ hL cs d₀)

/-- **program-map irrelevance**: PIDs learnt before the Rewind that no packet of the stream carries (as `NextPacket`
delivers it: `Demux.Delivers`) do not matter -/
theorem rewind_behaves_fresh_absent (d₀ : Demux) (hfresh : Fresh d₀) (hs : d₀.Seekable)
    (hsk : ∀ ds, d₀.skipper ≠ .script ds) (cs₀ cs : List ApiCall)
    (hL : ∀ x, d₀.Delivers x → (d₀.after cs₀).programMap.has x.header.pid = false) :
    (d₀.after cs₀).rewind.2.runCalls cs = d₀.runCalls cs :=
  rewind_behaves_fresh d₀ hfresh hs hsk cs₀ cs (compatible_of_absent _ cs d₀ hL)

/-- once the fresh run has caught up with the kept map (every PID it knows is known again), the rest of the run needs no
hypothesis: `Compatible` has to be checked only for the calls `cs₁` up to that point -/
theorem rewind_behaves_fresh_caught_up (d₀ : Demux) (hfresh : Fresh d₀) (hs : d₀.Seekable)
    (hsk : ∀ ds, d₀.skipper ≠ .script ds) (cs₀ cs₁ cs₂ : List ApiCall)
    (hc : Compatible (d₀.after cs₀).programMap d₀ cs₁)
    (hcov : ∀ x, (d₀.after cs₀).programMap.has x = true → (d₀.after cs₁).programMap.has x = true) :
    (d₀.after cs₀).rewind.2.runCalls (cs₁ ++ cs₂) = d₀.runCalls (cs₁ ++ cs₂) :=
  rewind_behaves_fresh d₀ hfresh hs hsk cs₀ _
    ((compatible_append _ cs₁ cs₂ d₀).mpr ⟨hc, compatible_of_covered _ cs₂ _ hcov⟩)

/-- the reader offsets agree as well after every call (and pool, data buffer, packet size) -/
theorem rewind_states_fresh (d₀ : Demux) (hfresh : Fresh d₀) (hs : d₀.Seekable) (hsk : ∀ ds, d₀.skipper ≠ .script ds)
    (cs₀ cs : List ApiCall) (hc : Compatible (d₀.after cs₀).programMap d₀ cs) :
    ((d₀.after cs₀).rewind.2.after cs).r = (d₀.after cs).r ∧ ((d₀.after cs₀).rewind.2.after cs).pool = (d₀.after cs).pool ∧
    ((d₀.after cs₀).rewind.2.after cs).dataBuffer = (d₀.after cs).dataBuffer ∧
    ((d₀.after cs₀).rewind.2.after cs).packetSize = (d₀.after cs).packetSize := by
  have := after_lock _ cs _ _ (rewind_lock d₀ hfresh hs hsk cs₀) hc
  exact ⟨this.src.r, this.data.pool, this.data.dataBuffer, this.src.packetSize⟩

/-- a scripted (stateful) skipper keeps its own state across the Rewind — the demuxer cannot reset it —: the demuxer then
behaves as a fresh one that is handed the skipper in its current state -/
theorem rewind_behaves_fresh_stateful_skipper (d₀ : Demux) (hfresh : Fresh d₀) (hs : d₀.Seekable) (cs₀ cs : List ApiCall)
    (hc : Compatible (d₀.after cs₀).programMap { d₀ with skipIdx := (d₀.after cs₀).skipIdx } cs) :
    (d₀.after cs₀).rewind.2.runCalls cs = Demux.runCalls { d₀ with skipIdx := (d₀.after cs₀).skipIdx } cs :=
  runCalls_lock _ cs _ _ (rewind_lock_idx d₀ hfresh hs cs₀ _ (Or.inl rfl)) hc

/-- `Rewind; Rewind = Rewind`, as states (any reader kind) and hence as behaviours -/
theorem rewind_rewind (d : Demux) : d.rewind.2.rewind.2 = d.rewind.2 := by
  unfold Demux.rewind
  cases hk : d.r.kind <;> simp [hk]

theorem rewind_rewind_behaviour (d : Demux) (cs : List ApiCall) : d.rewind.2.rewind.2.runCalls cs = d.rewind.2.runCalls cs := by
  rw [rewind_rewind]

/-! ### concrete streams: the hypothesis is needed, and it is satisfiable -/

/-- PAT section: transport stream 1, program 1 ↦ PMT PID 0x100 -/
def patSec : Bytes := [0x00, 0xB0, 0x0D, 0x00, 0x01, 0xC1, 0x00, 0x00, 0x00, 0x01, 0xE1, 0x00]
/-- PMT section of program 1: PCR PID 0x101, one H.264 stream on PID 0x101 -/
def pmtSec : Bytes :=
  [0x02, 0xB0, 0x12, 0x00, 0x01, 0xC1, 0x00, 0x00, 0xE1, 0x01, 0xF0, 0x00, 0x1B, 0xE1, 0x01, 0xF0, 0x00]
def patPkt : Bytes :=
  [0x47, 0x40, 0x00, 0x10, 0x00] ++ patSec ++ be32 (computeCRC32 patSec) ++ List.replicate 167 0xFF
def pmtPkt : Bytes :=
  [0x47, 0x41, 0x00, 0x10, 0x00] ++ pmtSec ++ be32 (computeCRC32 pmtSec) ++ List.replicate 162 0xFF

def demo (cs : List Bytes) : Demux := { r := { data := cs.flatten }, optPacketSize := 188 }

/-- what a result is, as far as the examples need it -/
inductive Tag where
  | pat (pid : Nat) | pmt (pid : Nat) | otherData (pid : Nat) | packet (pid : Nat) | err (e : Err) | panic
  deriving DecidableEq

def tag : CallResult → Tag
  | .packet (.ok p) => .packet p.header.pid
  | .data (.ok d) => if d.pat.isSome then .pat d.pid else if d.pmt.isSome then .pmt d.pid else .otherData d.pid
  | .packet (.err e) => .err e
  | .data (.err e) => .err e
  | .packet .panic => .panic
  | .data .panic => .panic

theorem demo_fresh (cs : List Bytes) : Fresh (demo cs) := ⟨rfl, rfl, rfl, rfl, rfl⟩
theorem demo_seekable (cs : List Bytes) : (demo cs).Seekable := ⟨rfl, rfl⟩

/-- **the program map kept by Rewind is observable.** Stream: the PMT packet, then the PAT packet. A fresh demuxer
delivers PAT, PMT (the PMT PID is unknown when its packet arrives, so it waits in the pool until the final drain);
after one `NextData` and a `Rewind` the PMT PID is known, the PMT is flushed at once: PMT, PAT. -/
theorem rewind_differs_pmt_before_pat :
    ((demo [pmtPkt, patPkt]).runCalls [.nextData, .nextData, .nextData]).map tag = [.pat 0, .pmt 256, .err .eof] ∧
    (((demo [pmtPkt, patPkt]).after [.nextData]).rewind.2.runCalls [.nextData, .nextData, .nextData]).map tag
      = [.pmt 256, .pat 0, .err .eof] := by
  constructor <;> decide +kernel

theorem rewind_not_fresh_in_general :
    ¬ ∀ (d₀ : Demux), Fresh d₀ → d₀.Seekable → (∀ ds, d₀.skipper ≠ .script ds) → ∀ cs₀ cs : List ApiCall,
      (d₀.after cs₀).rewind.2.runCalls cs = d₀.runCalls cs := by
  intro h
  have := h (demo [pmtPkt, patPkt]) (demo_fresh _) (demo_seekable _) (by intro ds; simp [demo]) [.nextData]
    [.nextData, .nextData, .nextData]
  have h2 := congrArg (List.map tag) this
  rw [rewind_differs_pmt_before_pat.1, rewind_differs_pmt_before_pat.2] at h2
  exact absurd h2 (by decide)

/-- non-vacuity of R1: PAT first, then the PMT; Rewind after everything was demuxed (both tables delivered, the PMT PID
learnt). The continuation is `Compatible`, and indeed the results agree -/
example : Compatible ((demo [patPkt, pmtPkt]).after [.nextData, .nextData, .nextData]).programMap (demo [patPkt, pmtPkt])
    [.nextData, .nextPacket, .nextData, .nextData] := by decide +kernel
example : ((demo [patPkt, pmtPkt]).after [.nextData, .nextData, .nextData]).programMap = [(256, 1)] := by decide +kernel
example : (((demo [patPkt, pmtPkt]).after [.nextData, .nextData, .nextData]).rewind.2.runCalls
    [.nextData, .nextData, .nextData]).map tag = [.pat 0, .pmt 256, .err .eof] := by decide +kernel

/-- the same with an auto-detected packet size (the packet buffer is created again after the Rewind) -/
def demoAuto (cs : List Bytes) : Demux := { r := { data := cs.flatten } }
example : Fresh (demoAuto [patPkt, pmtPkt]) ∧ (demoAuto [patPkt, pmtPkt]).Seekable := ⟨⟨rfl, rfl, rfl, rfl, rfl⟩, rfl, rfl⟩
example : Compatible ((demoAuto [patPkt, pmtPkt]).after [.nextData, .nextData]).programMap (demoAuto [patPkt, pmtPkt])
    [.nextData, .nextData, .nextData] := by decide +kernel
example : (((demoAuto [patPkt, pmtPkt]).after [.nextData, .nextData]).rewind.2.runCalls [.nextData, .nextData, .nextData]).map tag
    = [.pat 0, .pmt 256, .err .eof] := by decide +kernel

/-- `rewind_behaves_fresh_caught_up`: after the first `NextData` (the PAT) the fresh run knows what the first pass learnt -/
example : Compatible ((demo [patPkt, pmtPkt]).after [.nextData, .nextData]).programMap (demo [patPkt, pmtPkt]) [.nextData] ∧
    ((demo [patPkt, pmtPkt]).after [.nextData, .nextData]).programMap = ((demo [patPkt, pmtPkt]).after [.nextData]).programMap := by
  constructor <;> decide +kernel

/-- `rewind_behaves_fresh_stateful_skipper`: a script skipping the first consulted packet only; the Rewind happens after
two consultations, so the second pass skips nothing: PAT and PMT are delivered -/
def demoScript (cs : List Bytes) : Demux := { r := { data := cs.flatten }, optPacketSize := 188, skipper := .script [true] }
example : ((demoScript [patPkt, pmtPkt]).after [.nextData]).skipIdx = 2 := by decide +kernel
example : Compatible ((demoScript [patPkt, pmtPkt]).after [.nextData]).programMap
    { demoScript [patPkt, pmtPkt] with skipIdx := ((demoScript [patPkt, pmtPkt]).after [.nextData]).skipIdx }
    [.nextData, .nextData, .nextData] := by decide +kernel
example : (((demoScript [patPkt, pmtPkt]).after [.nextData]).rewind.2.runCalls [.nextData, .nextData, .nextData]).map tag
    = [.pat 0, .pmt 256, .err .eof] := by decide +kernel
/-- the first pass skipped the PAT -/
example : ((demoScript [patPkt, pmtPkt]).runCalls [.nextData, .nextData]).map tag = [.err .eof, .err .eof] := by
  decide +kernel

end Astits.C20
