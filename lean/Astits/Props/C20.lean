/-
C20 — Rewind restarts demuxing from a clean state.
-/
import Astits.Model.Demux
namespace Astits.C20

/-- on a seekable reader Rewind reports offset 0 and leaves the demuxer exactly in its initial state, except for
the program map (deliberately kept) and the callback logs: no buffered data, no packet buffer (the packet size
is detected again), an empty pool, reader at position 0 -/
theorem rewind_resets (d : Demux) (h : d.r.kind = .seek) :
    d.rewind.1 = 0 ∧ d.rewind.2.dataBuffer = [] ∧ d.rewind.2.packetSize = none ∧ d.rewind.2.pool = [] ∧
    d.rewind.2.r.pos = 0 ∧ d.rewind.2.r.data = d.r.data ∧ d.rewind.2.programMap = d.programMap ∧
    d.rewind.2.optPacketSize = d.optPacketSize := by
  unfold Demux.rewind
  simp [h]

/-- a demuxer differing from a fresh one only by its program map -/
def freshWith (d : Demux) : Demux :=
  { r := { d.r with pos := 0 }, optPacketSize := d.optPacketSize, skipper := d.skipper, parser := d.parser,
    programMap := d.programMap, skipLog := d.skipLog, parserLog := d.parserLog, skipIdx := d.skipIdx }

/-- **after Rewind the demuxer *is* a freshly created one on the same reader, up to the program map** (and
the logs of the test callbacks): whatever was consumed, buffered or half assembled before leaves no residue -/
theorem rewind_eq_fresh (d : Demux) (h : d.r.kind = .seek) : d.rewind.2 = freshWith d := by
  unfold Demux.rewind freshWith
  simp [h]

/-- closed under repetition -/
theorem rewind_idempotent (d : Demux) (h : d.r.kind = .seek) : d.rewind.2.rewind.2 = d.rewind.2 := by
  have h2 : d.rewind.2.r.kind = .seek := by unfold Demux.rewind; simp [h]
  rw [rewind_eq_fresh _ h2, rewind_eq_fresh d h]
  simp [freshWith]

/-- a reader that cannot seek is left where it is and −1 is reported -/
theorem rewind_not_seekable (d : Demux) (h : d.r.kind ≠ .seek) : d.rewind.1 = -1 ∧ d.rewind.2.r = d.r := by
  unfold Demux.rewind
  cases hk : d.r.kind <;> simp_all

example : ({ r := { data := [1, 2, 3], pos := 2 }, dataBuffer := [{}], packetSize := some 188 } : Demux).rewind.2.r.pos = 0 := by decide

end Astits.C20
