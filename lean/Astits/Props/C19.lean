/-
C19 — PacketSkipper equals deleting packets; PacketsParser sees each unit exactly once.
-/
import Astits.Model.Demux
namespace Astits.C19

/-- the skipper is consulted exactly once per packet read: each consultation appends exactly the packet shown
(header and adaptation field parsed, payload not yet extracted) to the log -/
theorem consulted_once (d : Demux) (p : Packet) (h : d.skipper ≠ .none) :
    (d.consultSkipper p).2.skipLog = d.skipLog ++ [p] := by
  unfold Demux.consultSkipper
  cases hs : d.skipper with
  | none => exact absurd hs h
  | pred f => simp
  | script ds => simp

theorem no_skipper_no_skip (d : Demux) (p : Packet) (h : d.skipper = .none) : d.consultSkipper p = (false, d) := by
  unfold Demux.consultSkipper; simp [h]

/-- a script of decisions models any stateful predicate: the k-th consulted packet gets the k-th decision -/
theorem script_decision (d : Demux) (p : Packet) (ds : List Bool) (h : d.skipper = .script ds) :
    (d.consultSkipper p).1 = ds.getD d.skipIdx false ∧ (d.consultSkipper p).2.skipIdx = d.skipIdx + 1 := by
  unfold Demux.consultSkipper; simp [h]

/-- a skipped packet is never returned: when the skipper says skip, `next` goes on with the following packet and
the state differs only by the consumed bytes and the log — exactly as if the packet had been deleted -/
theorem skipped_packet_is_passed_over (d : Demux) (size fuel : Nat) (bs : Bytes) (p : Packet) (r' : Reader)
    (hr : d.r.readFull size = (bs, none, r')) (hp : (parsePacket none).val bs = .ok p)
    (hskip : ({ d with r := r' }.consultSkipper { p with payload := [] }).1 = true) :
    d.bufferNext size (fuel + 1) = ({ d with r := r' }.consultSkipper { p with payload := [] }).2.bufferNext size fuel := by
  conv => lhs; unfold Demux.bufferNext
  simp only [hr, hp, hskip, if_true]

/-- an observer parser (returns no data, skip = false) leaves the default output unchanged; a replacer's data are
substituted exactly; a failing parser's error is returned -/
theorem parser_kinds (ps : List Packet) (pm : ProgramMap) :
    parseData ps .observer pm = parseData ps .none pm ∧
    parseData ps .replacer pm = .ok [replacerData ps] ∧
    parseData ps .failing pm = .err .parser := by
  refine ⟨?_, rfl, rfl⟩
  unfold parseData; rfl

/-- the parser is handed every flushed group once: each `logParser` appends exactly one entry -/
theorem parser_logged_once (d : Demux) (ps : List Packet) (h : d.parser ≠ .none) :
    (d.logParser ps).parserLog.length = d.parserLog.length + 1 := by
  unfold Demux.logParser; simp [h]

example : (parseData [] .failing []).isOk = false := by decide

end Astits.C19
