/-
C19 — PacketSkipper equals deleting packets; PacketsParser sees each unit exactly once.
-/
import Astits.Model.Demux
import Astits.Proofs.DemuxRuns
namespace Astits.C19

/-- the skipper is consulted exactly once per packet read: each consultation appends exactly the packet shown
(header and adaptation field parsed, payload not yet extracted) to the log -/
theorem consulted_once (d : Demux) (p : Packet) (h : d.skipper ≠ .none) :
    (d.consultSkipper p).2.skipLog = d.skipLog ++ [p] := by
  unfold Demux.consultSkipper
  cases hs : d.skipper with
  | none => exact absurd hs h
  | pred f => simp
  | script ds => simp

theorem no_skipper_no_skip (d : Demux) (p : Packet) (h : d.skipper = .none) : d.consultSkipper p = (false, d) := by
  unfold Demux.consultSkipper; simp [h]

/-- a script of decisions models any stateful predicate: the k-th consulted packet gets the k-th decision -/
theorem script_decision (d : Demux) (p : Packet) (ds : List Bool) (h : d.skipper = .script ds) :
    (d.consultSkipper p).1 = ds.getD d.skipIdx false ∧ (d.consultSkipper p).2.skipIdx = d.skipIdx + 1 := by
  unfold Demux.consultSkipper; simp [h]

/-- a skipped packet is never returned: when the skipper says skip, `next` goes on with the following packet and
the state differs only by the consumed bytes and the log — exactly as if the packet had been deleted -/
theorem skipped_packet_is_passed_over (d : Demux) (size fuel : Nat) (bs : Bytes) (p : Packet) (r' : Reader)
    (hr : d.r.readFull size = (bs, none, r')) (hp : (parsePacket none).val bs = .ok p)
    (hskip : ({ d with r := r' }.consultSkipper { p with payload := [] }).1 = true) :
    d.bufferNext size (fuel + 1) = ({ d with r := r' }.consultSkipper { p with payload := [] }).2.bufferNext size fuel := by
  conv => lhs; unfold Demux.bufferNext
  simp only [hr, hp, hskip, if_true]

/-- an observer parser (returns no data, skip = false) leaves the default output unchanged; a replacer's data are
substituted exactly; a failing parser's error is returned -/
theorem parser_kinds (ps : List Packet) (pm : ProgramMap) :
    parseData ps .observer pm = parseData ps .none pm ∧
    parseData ps .replacer pm = .ok [replacerData ps] ∧
    parseData ps .failing pm = .err .parser := by
  refine ⟨?_, rfl, rfl⟩
  unfold parseData; rfl

/-- the parser is handed every flushed group once: each `logParser` appends exactly one entry -/
theorem parser_logged_once (d : Demux) (ps : List Packet) (h : d.parser ≠ .none) :
    (d.logParser ps).parserLog.length = d.parserLog.length + 1 := by
  unfold Demux.logParser; simp [h]

example : (parseData [] .failing []).isOk = false := by decide

/-! ## S1 — whole-stream filter theorem for `NextPacket`

The stream is a list `cs` of packets of `n` bytes each (`n` is the explicit packet size, e.g. 188, so there is no
auto-detection), read through a fault-free reader of any kind. `survivors s 0 cs` is the stream with the packets
selected by the skipper `s` deleted (`Proofs/DemuxRuns.lean`; for a pure predicate it is `List.filter`,
`survivors_pred`; for a script the decisions are threaded in consultation order). `packetsToEOF` collects the results
of repeated `NextPacket` calls — packets *and* errors such as a missing sync byte — up to the first
`ErrNoMorePackets`. -/

/-- a freshly constructed demuxer with explicit packet size `n` over a fault-free reader -/
def fresh (data : Bytes) (kind : ReaderKind) (n : Nat) (s : Skipper) (prs : ParserKind) : Demux :=
  { r := { data := data, kind := kind }, optPacketSize := n, skipper := s, parser := prs }

theorem fresh_rem (data : Bytes) (kind : ReaderKind) (n : Nat) (s : Skipper) (prs : ParserKind) :
    (fresh data kind n s prs).r.Rem data := ⟨rfl, rfl⟩

/-- **a PacketSkipper is equivalent to deleting the packets it selects (packet API)**: with any skipper (none,
pure predicate, stateful script) the results of `NextPacket` up to the end of the stream are exactly those of a
demuxer without skipper on the stream with the selected packets removed — namely the parse result of every
surviving packet, in order; a skipped packet is never returned; the skipper has been shown exactly the packets
`consultLog` lists; and the next call reports the end of the stream. Any reader kind, any custom parser, any
sufficient fuel (`d.r.data.length + 2`, the bound the model uses, is sufficient). -/
theorem skipper_filters_packets (n : Nat) (hn : 0 < n) (cs : List Bytes) (hcs : Chunks n cs) (s : Skipper)
    (kind kind' : ReaderKind) (prs prs' : ParserKind) (fuel fuel' : Nat)
    (hf : cs.length + 1 ≤ fuel) (hf' : (survivors s 0 cs).length + 1 ≤ fuel') :
    ((fresh cs.flatten kind n s prs).packetsToEOF fuel).1
      = ((fresh (survivors s 0 cs).flatten kind' n .none prs').packetsToEOF fuel').1 ∧
    ((fresh cs.flatten kind n s prs).packetsToEOF fuel).1 = (survivors s 0 cs).map pktRes ∧
    ((fresh cs.flatten kind n s prs).packetsToEOF fuel).2.skipLog = consultLog s 0 cs ∧
    ((fresh cs.flatten kind n s prs).packetsToEOF fuel).2.nextPacket.1 = .err .eof := by
  have h1 := packetsToEOF_src n hn s fuel cs hcs 0 (fresh cs.flatten kind n s prs) rfl rfl (Or.inr ⟨rfl, rfl⟩)
    (fresh_rem _ _ _ _ _) hf
  have hsv : Chunks n (survivors s 0 cs) := hcs.survivors s 0
  have h2 := packetsToEOF_src n hn .none fuel' (survivors s 0 cs) hsv 0
    (fresh (survivors s 0 cs).flatten kind' n .none prs') rfl rfl (Or.inr ⟨rfl, rfl⟩) (fresh_rem _ _ _ _ _) hf'
  rw [survivors_none] at h2
  refine ⟨by rw [h1.1, h2.1], h1.1, ?_, nextPacket_at_eof n hn _ h1.2.2.2 h1.2.2.1⟩
  rw [h1.2.1]; rfl

/-- the fuel of the model suffices -/
theorem skipper_filters_packets_fuel (n : Nat) (hn : 0 < n) (cs : List Bytes) (hcs : Chunks n cs) :
    cs.length + 1 ≤ cs.flatten.length + 2 := by
  rw [hcs.flatten_length]
  have : cs.length ≤ n * cs.length := Nat.le_mul_of_pos_left _ hn
  omega

/-- for a pure predicate on header and adaptation field the surviving stream is a `List.filter`, and the
predicate has been consulted **exactly once per packet, in stream order, on the packet with header and adaptation
field parsed and the payload not yet extracted** (`shownOf`), whatever it answered -/
theorem pred_skipper_filters_packets (n : Nat) (hn : 0 < n) (cs : List Bytes) (hcs : Chunks n cs) (f : Packet → Bool)
    (kind kind' : ReaderKind) (prs prs' : ParserKind) :
    let keep := cs.filter (fun c => !predSkips f c)
    let d := fresh cs.flatten kind n (.pred f) prs
    let d' := fresh keep.flatten kind' n .none prs'
    (d.packetsToEOF (d.r.data.length + 2)).1 = (d'.packetsToEOF (d'.r.data.length + 2)).1 ∧
    (d.packetsToEOF (d.r.data.length + 2)).1 = keep.map pktRes ∧
    (d.packetsToEOF (d.r.data.length + 2)).2.skipLog = cs.filterMap shownOf ∧
    (d'.packetsToEOF (d'.r.data.length + 2)).2.skipLog = [] := by
  intro keep d d'
  have hk : keep = survivors (.pred f) 0 cs := (survivors_pred f 0 cs).symm
  have hck : Chunks n keep := fun c hc => hcs c ((List.mem_filter.mp hc).1)
  have h := skipper_filters_packets n hn cs hcs (.pred f) kind kind' prs prs' (cs.flatten.length + 2)
    (keep.flatten.length + 2) (skipper_filters_packets_fuel n hn cs hcs)
    (by rw [← hk]; exact skipper_filters_packets_fuel n hn keep hck)
  rw [← hk] at h
  refine ⟨h.1, h.2.1, ?_, ?_⟩
  · rw [← consultLog_eq (.pred f) (by simp) 0 cs]; exact h.2.2.1
  · have h2 := packetsToEOF_src n hn .none (d'.r.data.length + 2) keep hck 0 d' rfl rfl (Or.inr ⟨rfl, rfl⟩)
      (fresh_rem _ _ _ _ _) (skipper_filters_packets_fuel n hn keep hck)
    rw [h2.2.1, consultLog_none]; rfl

/-- **a skipped packet is never returned**: every packet `NextPacket` returns was shown to the predicate and kept -/
theorem skipped_never_returned (n : Nat) (hn : 0 < n) (cs : List Bytes) (hcs : Chunks n cs) (f : Packet → Bool)
    (kind : ReaderKind) (prs : ParserKind) (p : Packet)
    (hp : Res.ok p ∈ ((fresh cs.flatten kind n (.pred f) prs).packetsToEOF (cs.flatten.length + 2)).1) :
    f (shown p) = false ∧ shown p ∈ ((fresh cs.flatten kind n (.pred f) prs).packetsToEOF (cs.flatten.length + 2)).2.skipLog := by
  have h := pred_skipper_filters_packets n hn cs hcs f kind kind prs prs
  dsimp only at h
  have h2 : ((fresh cs.flatten kind n (.pred f) prs).packetsToEOF (cs.flatten.length + 2)).1
      = (cs.filter fun c => !predSkips f c).map pktRes := h.2.1
  rw [h2] at hp
  obtain ⟨c, hc, hcp⟩ := List.mem_map.mp hp
  obtain ⟨hc1, hc2⟩ := List.mem_filter.mp hc
  have hlog : ((fresh cs.flatten kind n (.pred f) prs).packetsToEOF (cs.flatten.length + 2)).2.skipLog
      = cs.filterMap shownOf := h.2.2.1
  rw [hlog]
  unfold pktRes at hcp
  unfold predSkips at hc2
  cases hpp : (parsePacket none).val c with
  | panic => rw [hpp] at hcp; cases hcp
  | err e => rw [hpp] at hcp; cases hcp
  | ok q =>
    rw [hpp] at hcp hc2
    simp only [Res.ok.injEq] at hcp
    subst hcp
    refine ⟨by simpa using hc2, List.mem_filterMap.mpr ⟨c, hc1, ?_⟩⟩
    unfold shownOf; rw [hpp]

/-- the number of consultations equals the number of packets read (every packet of a well-formed stream parses) -/
theorem consultations_eq_packets_read (n : Nat) (hn : 0 < n) (cs : List Bytes) (hcs : Chunks n cs) (s : Skipper)
    (hs : s ≠ .none) (hp : ∀ c ∈ cs, parses c = true) (kind : ReaderKind) (prs : ParserKind) (fuel : Nat)
    (hf : cs.length + 1 ≤ fuel) :
    ((fresh cs.flatten kind n s prs).packetsToEOF fuel).2.skipLog.length = cs.length := by
  have h := skipper_filters_packets n hn cs hcs s kind kind prs prs fuel (cs.length + 1) hf
    (by have := survivors_length_le s 0 cs; omega)
  rw [h.2.2.1, consultLog_eq s hs, filterMap_shownOf_length cs hp]

/-! non-vacuity: three 188-byte packets on PIDs 17, 18, 17; the predicate "PID = 18" deletes the middle one -/

def tsPkt (pid cc : Nat) : Bytes := [0x47, pid / 256 % 32, pid % 256, 0x10 + cc % 16] ++ List.replicate 184 0xAB

def demoStream : List Bytes := [tsPkt 17 0, tsPkt 18 0, tsPkt 17 1]

example : Chunks 188 demoStream := by decide +kernel
example : ∀ c ∈ demoStream, parses c = true := by decide +kernel
example : demoStream.filter (fun c => !predSkips (fun p => p.header.pid == 18) c) = [tsPkt 17 0, tsPkt 17 1] := by
  decide +kernel
example : (((fresh demoStream.flatten .seek 188 (.pred fun p => p.header.pid == 18) .none).packetsToEOF 566).1.map
    fun x => match x with | .ok p => some (p.header.pid, p.header.continuityCounter) | _ => none)
      = [some (17, 0), some (17, 1)] := by decide +kernel
example : ((fresh demoStream.flatten .seek 188 (.pred fun p => p.header.pid == 18) .none).packetsToEOF 566).2.skipLog.length
    = 3 := by decide +kernel
/-- a stateful script (skip, keep, skip) -/
example : survivors (.script [true, false, true]) 0 demoStream = [tsPkt 18 0] := by decide +kernel

/-! ## S2 — whole-stream filter theorem for `NextData` (and for any mix of calls)

Same setting as S1. The demuxer with the skipper on the stream `cs` and the demuxer without skipper on the surviving
packets run in lock step (`Sim`, `Proofs/DemuxRuns.lean`): every call returns the same result, and after every call
pool, program map, buffered data and parser log are identical — the pool never sees a skipped packet. -/

theorem fresh_sim (n : Nat) (cs : List Bytes) (hcs : Chunks n cs) (s : Skipper) (kind kind' : ReaderKind)
    (prs : ParserKind) :
    Sim n s cs (fresh cs.flatten kind n s prs) (fresh (survivors s 0 cs).flatten kind' n .none prs) :=
  ⟨hcs, rfl, rfl, fresh_rem _ _ _ _ _, fresh_rem _ _ _ _ _, Or.inr ⟨rfl, rfl⟩, Or.inr ⟨rfl, rfl⟩, ⟨rfl, rfl, rfl, rfl, rfl⟩⟩

/-- **a PacketSkipper is equivalent to deleting the packets it selects (every call sequence)**: for ANY sequence of
`NextPacket` / `NextData` calls the results with the skipper equal the results without skipper on the stream with the
selected packets removed; afterwards the pools, program maps, data buffers and parser logs coincide. Any skipper
(none, pure predicate, stateful script), any reader kinds, any custom parser. -/
theorem skipper_filters_calls (n : Nat) (hn : 0 < n) (cs : List Bytes) (hcs : Chunks n cs) (s : Skipper)
    (kind kind' : ReaderKind) (prs : ParserKind) (calls : List ApiCall) :
    (fresh cs.flatten kind n s prs).runCalls calls
      = (fresh (survivors s 0 cs).flatten kind' n .none prs).runCalls calls ∧
    DataSame ((fresh cs.flatten kind n s prs).after calls)
      ((fresh (survivors s 0 cs).flatten kind' n .none prs).after calls) :=
  runCalls_sim n hn s calls cs _ _ (fresh_sim n cs hcs s kind kind' prs)

/-- **S2: the data API.** The sequence of `NextData` results up to the first `ErrNoMorePackets` (within any number
`fuel` of calls) with the skipper = the sequence without skipper on the filtered stream -/
theorem skipper_filters_data (n : Nat) (hn : 0 < n) (cs : List Bytes) (hcs : Chunks n cs) (s : Skipper)
    (kind kind' : ReaderKind) (prs : ParserKind) (fuel : Nat) :
    ((fresh cs.flatten kind n s prs).dataToEOF fuel).1
      = ((fresh (survivors s 0 cs).flatten kind' n .none prs).dataToEOF fuel).1 ∧
    ((fresh (survivors s 0 cs).flatten kind' n .none prs).dataToEOF fuel).2.pool
      = ((fresh cs.flatten kind n s prs).dataToEOF fuel).2.pool := by
  have := dataToEOF_sim n hn s fuel cs _ _ (fresh_sim n cs hcs s kind kind' prs)
  exact ⟨this.1, this.2.pool⟩

/-- for a pure predicate: the filtered stream is `List.filter` -/
theorem pred_skipper_filters_data (n : Nat) (hn : 0 < n) (cs : List Bytes) (hcs : Chunks n cs) (f : Packet → Bool)
    (kind kind' : ReaderKind) (prs : ParserKind) (fuel : Nat) :
    ((fresh cs.flatten kind n (.pred f) prs).dataToEOF fuel).1
      = ((fresh (cs.filter fun c => !predSkips f c).flatten kind' n .none prs).dataToEOF fuel).1 := by
  have := (skipper_filters_data n hn cs hcs (.pred f) kind kind' prs fuel).1
  rw [survivors_pred] at this
  exact this

/-! non-vacuity: PES units on PIDs 257 and 258 (two packets each); the predicate "PID = 258" removes the second unit -/

def pesPkt (pid cc : Nat) (pusi : Bool) (fill : Nat) : Bytes :=
  [0x47, (if pusi then 0x40 else 0) + pid / 256 % 32, pid % 256, 0x10 + cc % 16] ++
    (if pusi then [0, 0, 1, 0xE0, 0, 0, 0x80, 0, 0] ++ List.replicate 175 fill else List.replicate 184 fill)

def demoData : List Bytes :=
  [pesPkt 257 0 true 1, pesPkt 258 0 true 2, pesPkt 257 1 false 3, pesPkt 258 1 false 4, pesPkt 257 2 true 5]

example : Chunks 188 demoData := by decide +kernel
example : survivors (.pred fun p => p.header.pid == 258) 0 demoData
    = [pesPkt 257 0 true 1, pesPkt 257 1 false 3, pesPkt 257 2 true 5] := by decide +kernel
/-- with the skipper: two PES units of PID 257 (the second at the final drain), nothing of PID 258 -/
example : (((fresh demoData.flatten .seek 188 (.pred fun p => p.header.pid == 258) .none).dataToEOF 5).1.map
    fun x => match x with | .ok d => some (d.pid, (d.pes.map (·.data.length)).getD 0) | _ => none)
      = [some (257, 359), some (257, 175)] := by decide +kernel
/-- without it PID 258 is delivered too -/
example : (((fresh demoData.flatten .seek 188 .none .none).dataToEOF 5).1.map
    fun x => match x with | .ok d => some d.pid | _ => none) = [some 257, some 257, some 258] := by decide +kernel

end Astits.C19
