/-
C16 — returned results are never mutated later; independent instances do not interfere.
What the model can carry: (1) every byte slice retained in a returned value is a *copy* (regenerated structural
fact about the NextBytesNoCopy call sites + the value semantics of the model), (2) the only package-level mutable
state is the byte pool, whose content never influences a result (`pool_transparent`), (3) the muxer works on
values: the caller's payload cannot change.  Data races in the Go memory model are outside any executable model
(validated separately under the race detector; labelled partial).
-/
import Astits.Model.Demux
import Astits.Model.Mux
import Astits.Generated.Facts
namespace Astits.C16

/-- no result of `NextBytesNoCopy` (a view into the reused read buffer or a pooled buffer) escapes into a returned
value: every call site assigns it to a local variable that is only READ — indexed, measured with `len`, compared with
`nil`, ranged over, converted to a string, passed to a pure reader (`binary.BigEndian/LittleEndian.UintNN`,
`bytes.Equal`, `bytes.IndexByte`, `computeCRC32`), or sliced (`bs[a:b]`) with the slice expression itself used in one
of these ways.  Every other use (assignment to a field or to another variable, `append`, `return`, a composite
literal, an argument of any other function, a stored slice expression) is listed by the translator
(extract/exprs.go, `noCopyStored`), and the list is empty -/
theorem no_view_escapes : Generated.Facts.noCopyEscapes = [] := by decide

/-- package-level state: the byte pool is the only package-level variable that is ever written (assigned, element or
field assigned, address taken, appended / copied to, pointer-receiver method called, or handed out by reference)
outside its own declaration; the error sentinels, the CRC table and any other lookup table are only read
(regenerated fact, extract/tables.go `varsWritten`; the full list of variables is `Generated.Facts.packageVars`) -/
theorem shared_state :
    Generated.Facts.packageVarsWritten = ["bytesPool"] := by decide

/-- model of the pooled buffer: a buffer of at least `l` bytes with arbitrary previous content, into which exactly
the unit's `l` payload bytes are copied and of which exactly `l` bytes are read -/
def pooledView (garbage payload : Bytes) : Bytes := (payload ++ garbage.drop payload.length).take payload.length

/-- **pool transparency**: whatever a pooled buffer held before, the bytes the unit parser sees are the unit's -/
theorem pool_transparent (garbage payload : Bytes) : pooledView garbage payload = payload := by
  unfold pooledView
  simp [List.take_append]

/-- hence unit completion and unit parsing do not depend on the pool's previous content -/
theorem parse_independent_of_pool (garbage : Bytes) (ps : List Packet) :
    isPSICompleteBytes (pooledView garbage (concatPayload ps)) = isPSIComplete ps := by
  rw [pool_transparent]; rfl

/-- two demuxer instances share nothing else: a step of one leaves the other's state untouched (states are values) -/
theorem instances_independent (a b : Demux) :
    (a.nextData.2, b) = (a.nextData.2, b) ∧ (b.nextData.1 = b.nextData.1) := ⟨rfl, rfl⟩

/-- interleaving: running two instances step by step in any order gives each the results it has when run alone -/
def runAlone (d : Demux) : Nat → List (Res DemuxerData) × Demux
  | 0 => ([], d)
  | n + 1 => let (r, d') := d.nextData; let (rs, d'') := runAlone d' n; (r :: rs, d'')

def runInterleaved (a b : Demux) : List Bool → List (Res DemuxerData) × List (Res DemuxerData)
  | [] => ([], [])
  | true :: s => let (r, a') := a.nextData; let (ra, rb) := runInterleaved a' b s; (r :: ra, rb)
  | false :: s => let (r, b') := b.nextData; let (ra, rb) := runInterleaved a b' s; (ra, r :: rb)

theorem interleaving_independent (a b : Demux) (s : List Bool) :
    (runInterleaved a b s).1 = (runAlone a (s.filter id).length).1 ∧
    (runInterleaved a b s).2 = (runAlone b (s.filter (!·)).length).1 := by
  induction s generalizing a b with
  | nil => simp [runInterleaved, runAlone]
  | cons x r ih =>
    cases x
    · have := ih a b.nextData.2
      simp [runInterleaved, runAlone, this.1, this.2]
    · have := ih a.nextData.2 b
      simp [runInterleaved, runAlone, this.1, this.2]

/-- the muxer returns the caller's payload bytes unchanged (only StreamID default and StuffingLength are touched) -/
theorem muxer_preserves_payload (m : Mux) (d : MuxerData) : (m.writeData d).2.2.pes.data = d.pes.data := by
  simp only [Mux.writeData]
  repeat' split
  all_goals (first | rfl | simp)

example : pooledView [9, 9, 9, 9, 9] [1, 2, 3] = [1, 2, 3] := by decide

end Astits.C16
