/-
C08 — demuxer output depends on the stream's bytes, not on how they are read or framed.
`io.ReadFull` over any read schedule (any positive chunk sizes) returns the same bytes as one big read; the
extra bytes of larger frames are skipped.
-/
import Astits.Model.Demux
import Astits.Proofs.Chunking
namespace Astits.C08

/-- `io.ReadAtLeast`'s loop over a reader that hands out at most `sched k + 1` bytes on its k-th call:
returns the bytes collected (stops when `n` are there or the data is exhausted) -/
def readLoop (data : Bytes) (sched : Nat → Nat) : (fuel : Nat) → (call pos n : Nat) → Bytes
  | 0, _, _, _ => []
  | fuel + 1, call, pos, n =>
    if n = 0 then []
    else
      let k := min (min (sched call + 1) n) (data.length - pos)
      if k = 0 then []
      else (data.drop pos).take k ++ readLoop data sched fuel (call + 1) (pos + k) (n - k)

/-- **schedule independence**: whatever the chunking, the loop collects exactly the next `min n remaining` bytes -/
theorem readLoop_eq_take (data : Bytes) (sched : Nat → Nat) (fuel call pos n : Nat) (hf : n ≤ fuel) :
    readLoop data sched fuel call pos n = (data.drop pos).take n := by
  induction fuel generalizing call pos n with
  | zero => have : n = 0 := by omega
            simp [readLoop, this]
  | succ fuel ih =>
    unfold readLoop
    by_cases hn : n = 0
    · simp [hn]
    · simp only [hn, if_false]
      by_cases hk : min (min (sched call + 1) n) (data.length - pos) = 0
      · simp only [hk, if_true]
        have : data.length - pos = 0 := by omega
        have : (data.drop pos).length = 0 := by simp; omega
        rw [List.length_eq_zero_iff.mp this]; simp
      · simp only [hk, if_false]
        rw [ih (call + 1) (pos + min (min (sched call + 1) n) (data.length - pos)) (n - min (min (sched call + 1) n) (data.length - pos)) (by omega)]
        have hle : min (min (sched call + 1) n) (data.length - pos) ≤ n := by omega
        have e : n = min (min (sched call + 1) n) (data.length - pos) + (n - min (min (sched call + 1) n) (data.length - pos)) := by omega
        conv => rhs; rw [e, List.take_add]
        rw [List.drop_drop]

/-- the model's `readFull` on a fault-free reader is that prefix -/
theorem readFull_bytes (r : Reader) (n : Nat) (hf : r.faultAt = none) :
    (r.readFull n).1 = (r.data.drop r.pos).take n := by
  have hfa : r.faultActive = none := by unfold Reader.faultActive; simp [hf]
  unfold Reader.readFull
  simp only [hfa]
  by_cases h1 : r.data.length - r.pos ≥ n
  · simp [h1]
  · by_cases h2 : r.data.length - r.pos = 0
    · simp only [h2, if_true]
      have : (r.data.drop r.pos).length = 0 := by simp; omega
      rw [List.length_eq_zero_iff.mp this]
      split <;> simp
    · simp only [h1, h2, if_false]
      rw [List.take_of_length_le]; simp; omega

/-- larger frames: the iterator is positioned `len − 188 + 1` bytes in, i.e. the k extra bytes after the sync byte
are skipped, so that the same 187 bytes are parsed -/
theorem oversize_seek (k : Nat) : ((188 + k : Nat) : Int) - (mpegTsPacketSize : Nat) + 1 = (k : Int) + 1 := by
  simp [mpegTsPacketSize]; omega

example : readLoop [1, 2, 3, 4, 5] (fun _ => 0) 10 0 1 3 = [2, 3, 4] := by decide

/-! ## C08, second part — chunking independence (K1), oversize frames (K2), auto-detected = explicit size (K3)

Helper lemmas and the low-level definitions live in `Astits/Proofs/Chunking.lean` and `Astits/Proofs/Chunking/*.lean`.

The model's `Reader` has no read schedule: `Reader.readFull` is a closed formula.  What "chunking independence" means
is therefore stated against a *lower-level* model in which every byte is obtained through `Read` calls:
`Chunking.VReader` (the harness reader `vreader` with a schedule `cap`: the k-th `Read` hands out at most
`cap k + 1` bytes, `none` = as many as asked), `Chunking.BReader` (Go's `bufio.Reader` — `Read`, `Peek`, `Discard` —
over it), `Chunking.ioReadFull` (the loop of `io.ReadFull`), and `Chunking.LDemux` (packet_buffer.go / demuxer.go
transcribed over these readers).  -/

section K2_packet
open Chunking

/-- **K2, packet level.** A frame `0x47 :: extra ++ rest` with `rest.length = 187` parses to exactly what the
188-byte packet `0x47 :: rest` parses to — same packet, same error (including the skipper's verdict), same panic —
for every `extra` (any `k = extra.length ≥ 0`, any content, sync bytes included) and every skipper. -/
theorem oversize_frame_parse (skip : Option (Packet → Bool)) (extra rest : Bytes) (hr : rest.length = 187) :
    (parsePacket skip).val (syncByte :: (extra ++ rest)) = (parsePacket skip).val (syncByte :: rest) :=
  parsePacket_frame skip extra rest hr

/-- the same in the frame layout of the test driver (`Spec.tsExpand`: the extra bytes directly follow the first
byte), for every 188-byte slice whether it starts with a sync byte or not -/
theorem tsExpand_parse (skip : Option (Packet → Bool)) (extra pkt : Bytes) (hl : pkt.length = 188) :
    (parsePacket skip).val (Spec.tsExpand extra pkt) = (parsePacket skip).val pkt :=
  parsePacket_tsExpand skip extra pkt hl

/-- a null packet -/
def nullPkt : Bytes := [0x47, 0x1f, 0xff, 0x10] ++ List.replicate 184 0xff

example : nullPkt.length = 188 := by decide +kernel
/-- non-vacuity, and the theorem at work: a 192-byte frame whose extra bytes are sync bytes -/
example : (parsePacket none).val (Spec.tsExpand [0x47, 0x47, 0x47, 0x47] nullPkt) = (parsePacket none).val nullPkt :=
  tsExpand_parse none _ _ (by decide +kernel)
/-- … and the packet really is parsed (PID 0x1fff, 184 payload bytes), not rejected on both sides -/
example : (match (parsePacket none).val (Spec.tsExpand [0x47, 0x47, 0x47, 0x47] nullPkt) with
    | .ok p => decide (p.header.pid = 0x1fff ∧ p.payload.length = 184)
    | _ => false) = true := by decide +kernel

end K2_packet

section K1
open Chunking

/-- **K1, `io.ReadFull`.** Over *any* reader implementation that obeys the `io.Reader` contract with progress
(`Chunking.Conforms`: each `Read` returns between 1 and `len(p)` of the next bytes — its choice —, or the injected
fault at the fault offset, or `io.EOF` at the end), `io.ReadFull` returns the bytes, the error and the (abstract)
reader state of the model's `Reader.readFull`.  Faults are covered. -/
theorem readFull_any_conforming_reader {σ} (I : ReaderImpl σ) (hc : Conforms I) (s : σ) (n : Nat) (hinv : I.inv s)
    (hpos : (I.abs s).pos ≤ (I.abs s).data.length) :
    (ioReadFull I s n).1 = ((I.abs s).readFull n).1 ∧ (ioReadFull I s n).2.1 = ((I.abs s).readFull n).2.1 ∧
    I.abs (ioReadFull I s n).2.2 = ((I.abs s).readFull n).2.2 := by
  have := ioReadFull_refines I hc s n hinv hpos
  exact ⟨this.1, this.2.1, this.2.2.1⟩

/-- the harness reader with any read schedule, and `bufio.Reader` (any buffer size) on top of it, obey the contract -/
theorem harness_readers_conform : Conforms VImpl ∧ Conforms BImpl ∧ Conforms LImpl :=
  ⟨VImpl_conforms, BImpl_conforms, LImpl_conforms⟩

/-- **K1, refinement.** `NextPacket` and `NextData` over the concrete readers (any kind: seekable, bufio, small
bufio, plain; any read schedule; explicit or auto-detected packet size; with or without fault) return what the model
returns on the abstract state, and lead to a state that stands for the model's next state. -/
theorem lowlevel_refines_model (ld : LDemux) (hi : LReader.Inv ld.lr) :
    (ld.nextPacket.1 = ld.abs.nextPacket.1 ∧ ld.nextPacket.2.abs = ld.abs.nextPacket.2 ∧ LReader.Inv ld.nextPacket.2.lr) ∧
    (ld.nextData.1 = ld.abs.nextData.1 ∧ ld.nextData.2.abs = ld.abs.nextData.2 ∧ LReader.Inv ld.nextData.2.lr) :=
  ⟨nextPacket_refines ld hi, nextData_refines ld hi⟩

/-- **K1, bisimulation.** `ChunkRel a b`: the two concrete demuxer states stand for the same model state (same data,
logical position, fault state, reader kind, demuxer fields) — read schedules, call counters and bufio fill levels
are unconstrained.  It is a bisimulation for `NextPacket`, `NextData` and `Rewind`: same result, related next states. -/
theorem chunking_bisimulation (a b : LDemux) (h : ChunkRel a b) :
    (a.nextPacket.1 = b.nextPacket.1 ∧ ChunkRel a.nextPacket.2 b.nextPacket.2) ∧
    (a.nextData.1 = b.nextData.1 ∧ ChunkRel a.nextData.2 b.nextData.2) ∧
    (a.rewind.1 = b.rewind.1 ∧ ChunkRel a.rewind.2 b.rewind.2) :=
  ⟨chunkRel_nextPacket a b h, chunkRel_nextData a b h, chunkRel_rewind a b h⟩

/-- non-vacuity: fresh readers over the same model state with different schedules (and bufio buffer sizes) are
related -/
example (d : Demux) (hpos : d.r.pos ≤ d.r.data.length) (hk : d.r.kind = .bufio) :
    ChunkRel (freshDemux d capOne 4096) (freshDemux d (fun k => some (k % 7)) 200) :=
  ⟨rfl, (freshReader_spec d.r _ 4096 hpos ⟨by omega, fun _ => by omega, fun h => by rw [hk] at h; cases h⟩).1,
    (freshReader_spec d.r _ 200 hpos ⟨by omega, fun _ => by omega, fun h => by rw [hk] at h; cases h⟩).1⟩

/-- **K1, call sequences.** For every model state `d` (reader inside its data), any two read schedules and any
admissible bufio buffer sizes, every sequence of `NextPacket` / `NextData` calls observes the same results, which
are the model's.  In particular byte-wise reads (`capOne`) = whole-slice reads (`capAll`). -/
theorem chunking_independent_runs (d : Demux) (hpos : d.r.pos ≤ d.r.data.length)
    (cap₁ cap₂ : Nat → Option Nat) (size₁ size₂ : Nat) (h₁ : SizeFits d.r.kind size₁) (h₂ : SizeFits d.r.kind size₂)
    (cs : List Call) :
    (freshDemux d cap₁ size₁).run cs = (freshDemux d cap₂ size₂).run cs ∧
    (freshDemux d cap₁ size₁).run cs = runModel cs d :=
  chunking_independence d hpos cap₁ cap₂ size₁ size₂ h₁ h₂ cs

/-! #### what depends on the reader kind

* explicit packet size: nothing (`explicit_size_kind_independent`);
* auto-detection, seekable reader vs. bufio.Reader with a buffer of at least 193 bytes: at the start of a stream and
  without fault one detection agrees on every stream (`detect_seek_eq_bufio`); whole runs agree when detection succeeds
  at the first attempt (`auto_seek_eq_bufio`).  After a *failed* detection (non-conformant stream) the two differ: a
  later successful detection rewinds the seekable reader to offset 0 but leaves the bufio.Reader where it is
  (`seek_bufio_differ_after_failure`);
* auto-detection on a reader that can be neither rewound nor peeked (plain reader, small bufio buffer): the first two
  frames are lost (`auto_plain_loses_two_frames`); with fewer than two frames detection fails. -/

theorem explicit_size_kind_independent (d : Demux) (ho : d.optPacketSize ≠ 0) (kk : ReaderKind) (cs : List Call) :
    runModel cs { d with r := { d.r with kind := kk } } = runModel cs d :=
  run_kind_independent_explicit d ho kk cs

theorem detect_seek_eq_bufio (r : Reader) (hpos : r.pos = 0) (hf : r.faultActive = none) :
    autoDetectPacketSize { r with kind := .bufio } =
      ((autoDetectPacketSize { r with kind := .seek }).1,
       { (autoDetectPacketSize { r with kind := .seek }).2 with kind := .bufio }) :=
  autoDetect_seek_eq_bufio r hpos hf

theorem auto_seek_eq_bufio (d : Demux) (hn : d.packetSize = none) (ho : d.optPacketSize = 0)
    (hk : d.r.kind = .seek) (hpos : d.r.pos = 0) (hf : d.r.faultActive = none) (size : Nat)
    (hu : Unambiguous d.r.data size) (cs : List Call) :
    runModel cs { d with r := { d.r with kind := .bufio } } = runModel cs d :=
  run_auto_seek_eq_bufio d hn ho hk hpos hf size hu cs

theorem auto_plain_loses_two_frames (d : Demux) (hn : d.packetSize = none) (ho : d.optPacketSize = 0)
    (hk : NotRewindable d.r.kind) (hpos : d.r.pos = 0) (hf : d.r.faultActive = none) (size : Nat)
    (hu : Unambiguous d.r.data size) (hlen : 2 * size ≤ d.r.data.length) (cs : List Call) :
    runModel cs d = runModel cs { d with r := { d.r with pos := 2 * size }, packetSize := some size } :=
  run_auto_plain d hn ho hk hpos hf size hu hlen cs

end K1

section K2_stream
open Chunking

/-- **K2, stream level.** `fs` is a list of `(extra, packet)` pairs, every packet 188 bytes, every `extra` `k` bytes
(`WellFramed k fs`); `framedOf fs` is the stream of `188+k`-byte frames in the driver's layout (`Spec.tsExpand`),
`plainOf fs` its 188-byte form; `T` holds what may follow the last whole frame / packet (a truncated frame `T.t1`, a
truncated packet `T.t2`; `Tails.none k` for none).  A demuxer `d` with explicit packet size 188 at the start of
`plainOf fs ++ T.t2` (no fault) and the demuxer with explicit packet size `188+k` at the start of
`framedOf fs ++ T.t1` (any reader kind) observe the same results for every sequence of `NextPacket` / `NextData`
calls; call by call the two states are related by `FrameRel` (reader positions `j·188` and `j·(188+k)`, every other
field equal). -/
theorem oversize_stream (k : Nat) (fs : Frames) (hw : WellFramed k fs) (T : Tails k) (d : Demux) (kk : ReaderKind)
    (hdata : d.r.data = plainOf fs ++ T.t2) (hpos : d.r.pos = 0) (hf : d.r.faultActive = none)
    (hopt : d.optPacketSize = 188) (hps : d.packetSize = none) (cs : List Call) :
    runModel cs (framedDemux d k fs T kk) = runModel cs d :=
  run_FrameRel hw cs 0 _ _ (framedDemux_rel d kk hdata hpos hf hopt hps)

/-- the call-by-call form: `FrameRel` is a simulation with scaled positions -/
theorem oversize_stream_step (k : Nat) (fs : Frames) (hw : WellFramed k fs) (T : Tails k) (j : Nat) (d1 d2 : Demux)
    (h : FrameRel k fs T j d1 d2) :
    (d1.nextPacket.1 = d2.nextPacket.1 ∧ ∃ j', j ≤ j' ∧ FrameRel k fs T j' d1.nextPacket.2 d2.nextPacket.2) ∧
    (d1.nextData.1 = d2.nextData.1 ∧ ∃ j', FrameRel k fs T j' d1.nextData.2 d2.nextData.2) := by
  obtain ⟨e, j', hj, hr, _⟩ := nextPacket_frames hw h
  exact ⟨⟨e, j', hj, hr⟩, nextData_frames hw h⟩

/-- K1 and K2 together: the framed stream read through any reader kind with any read schedule = the model on the
188-byte form -/
theorem oversize_stream_any_chunking (k : Nat) (fs : Frames) (hw : WellFramed k fs) (T : Tails k) (d : Demux)
    (kk : ReaderKind) (hdata : d.r.data = plainOf fs ++ T.t2) (hpos : d.r.pos = 0) (hf : d.r.faultActive = none)
    (hopt : d.optPacketSize = 188) (hps : d.packetSize = none) (cap : Nat → Option Nat) (size : Nat)
    (hs : SizeFits kk size) (cs : List Call) :
    (freshDemux (framedDemux d k fs T kk) cap size).run cs = runModel cs d := by
  have hp : (framedDemux d k fs T kk).r.pos ≤ (framedDemux d k fs T kk).r.data.length := by
    show d.r.pos ≤ _; rw [hpos]; exact Nat.zero_le _
  rw [(chunking_independence (framedDemux d k fs T kk) hp cap cap size size hs hs cs).2]
  exact oversize_stream k fs hw T d kk hdata hpos hf hopt hps cs

end K2_stream

section K3
open Chunking

/-- **K3, the exact detection condition.** On a rewindable reader (seekable, or bufio with a large enough buffer) at
the start of the stream and without fault, `autoDetectPacketSize` returns `size` **iff** the stream starts with a
sync byte, `188 ≤ size ≤ 192`, there is a sync byte at offset `size`, and none at the offsets `188 .. size-1`
(`Unambiguous`).  The last clause is the recorded finding `autodetect-heuristic`: a 0x47 at offset `188..size-1` of
the first frame makes the detection return that offset instead. -/
theorem autoDetect_returns_iff (r : Reader) (hk : Rewindable r.kind) (hpos : r.pos = 0) (hf : r.faultActive = none)
    (size : Nat) : (autoDetectPacketSize r).1 = .ok size ↔ Unambiguous r.data size :=
  autoDetect_ok_iff r hk hpos hf size

/-- … and the reader is then back at the start -/
theorem autoDetect_rewinds (r : Reader) (hk : Rewindable r.kind) (hpos : r.pos = 0) (hf : r.faultActive = none)
    (size : Nat) (hu : Unambiguous r.data size) : autoDetectPacketSize r = (.ok size, r) :=
  autoDetect_unambiguous r hk hpos hf size hu

/-- **K3, auto-detected size = explicit size** for every call sequence, on a stream whose detection is unambiguous -/
theorem auto_eq_explicit (d : Demux) (hn : d.packetSize = none) (ho : d.optPacketSize = 0)
    (hk : Rewindable d.r.kind) (hpos : d.r.pos = 0) (hf : d.r.faultActive = none) (size : Nat)
    (hu : Unambiguous d.r.data size) (cs : List Call) :
    runModel cs d = runModel cs { d with optPacketSize := size } :=
  run_auto_eq_explicit d hn ho hk hpos hf size hu cs

/-- K2 and K3 together: a stream of `188+k`-byte frames (`k ≤ 4`) whose detection is unambiguous, demuxed with
auto-detection on a rewindable reader, yields what its 188-byte form yields with explicit packet size 188 -/
theorem auto_oversize_stream (k : Nat) (fs : Frames) (hw : WellFramed k fs) (T : Tails k) (d : Demux)
    (kk : ReaderKind) (hkk : Rewindable kk) (hdata : d.r.data = plainOf fs ++ T.t2) (hpos : d.r.pos = 0)
    (hf : d.r.faultActive = none) (hopt : d.optPacketSize = 188) (hps : d.packetSize = none)
    (hu : Unambiguous (framedOf fs ++ T.t1) (188 + k)) (cs : List Call) :
    runModel cs { framedDemux d k fs T kk with optPacketSize := 0 } = runModel cs d := by
  rw [run_auto_eq_explicit { framedDemux d k fs T kk with optPacketSize := 0 } rfl rfl hkk hpos hf (188 + k) hu cs]
  exact oversize_stream k fs hw T d kk hdata hpos hf hopt hps cs

/-- both sides auto-detected: the framed stream and its 188-byte form, each on a rewindable reader -/
theorem auto_oversize_stream_both (k : Nat) (fs : Frames) (hw : WellFramed k fs) (T : Tails k) (d : Demux)
    (kk : ReaderKind) (hkk : Rewindable kk) (hk : Rewindable d.r.kind) (hdata : d.r.data = plainOf fs ++ T.t2)
    (hpos : d.r.pos = 0) (hf : d.r.faultActive = none) (hopt : d.optPacketSize = 0) (hps : d.packetSize = none)
    (hu1 : Unambiguous (framedOf fs ++ T.t1) (188 + k)) (hu2 : Unambiguous (plainOf fs ++ T.t2) 188)
    (cs : List Call) :
    runModel cs { framedDemux d k fs T kk with optPacketSize := 0 } = runModel cs d := by
  rw [run_auto_eq_explicit d hps hopt hk hpos hf 188 (by rw [hdata]; exact hu2) cs]
  exact auto_oversize_stream k fs hw T { d with optPacketSize := 188 } kk hkk hdata hpos hf rfl hps hu1 cs

end K3

/-! ### non-vacuity: concrete streams satisfying the hypotheses -/

section Examples
open Chunking

/-- two null packets in 192-byte frames (4-byte timecode prefix after the sync byte) -/
def fs2 : Frames := [([1, 2, 3, 4], nullPkt), ([5, 6, 7, 8], nullPkt)]
/-- the plain-side demuxer: explicit packet size 188 at the start of the 188-byte form -/
def d188 : Demux := { r := { data := plainOf fs2 ++ [0x47, 1, 2] }, optPacketSize := 188 }
/-- a truncated third frame on the framed side, a truncated third packet on the plain side -/
def tails2 : Tails 4 := ⟨[0x47, 9, 9, 9, 9, 1], [0x47, 1, 2], by decide, by decide⟩

theorem fs2_wellFramed : WellFramed 4 fs2 := by
  intro f hf
  simp only [fs2, List.mem_cons, List.not_mem_nil, or_false] at hf
  rcases hf with rfl | rfl <;> exact ⟨by decide +kernel, by decide +kernel⟩

theorem fs2_unambiguous : Unambiguous (framedOf fs2 ++ tails2.t1) 192 := by
  refine ⟨by decide +kernel, by omega, by omega, by decide +kernel, fun j h1 h2 => ?_⟩
  have : j = 188 ∨ j = 189 ∨ j = 190 ∨ j = 191 := by omega
  rcases this with rfl | rfl | rfl | rfl <;> decide +kernel

example : (framedOf fs2 ++ tails2.t1).length = 390 ∧ d188.r.data.length = 379 := by decide +kernel

/-- K1: hypotheses of `chunking_independent_runs` (any kind; here bufio with the default and a 256-byte buffer) -/
example (cs : List Call) :
    (freshDemux { d188 with r := { d188.r with kind := .bufio } } capOne 4096).run cs =
      (freshDemux { d188 with r := { d188.r with kind := .bufio } } capAll 256).run cs :=
  (chunking_independent_runs _ (Nat.zero_le _) capOne capAll 4096 256
    ⟨by omega, fun _ => by omega, fun h => by cases h⟩ ⟨by omega, fun _ => by omega, fun h => by cases h⟩ cs).1

/-- K2 stream: hypotheses of `oversize_stream` -/
example (cs : List Call) : runModel cs (framedDemux d188 4 fs2 tails2 .plain) = runModel cs d188 :=
  oversize_stream 4 fs2 fs2_wellFramed tails2 d188 .plain rfl rfl rfl rfl rfl cs

/-- K3: hypotheses of `auto_oversize_stream` (192-byte frames, seekable reader, auto-detection) -/
example (cs : List Call) :
    runModel cs { framedDemux d188 4 fs2 tails2 .seek with optPacketSize := 0 } = runModel cs d188 :=
  auto_oversize_stream 4 fs2 fs2_wellFramed tails2 d188 .seek (Or.inl rfl) rfl rfl rfl rfl rfl fs2_unambiguous cs

/-- the runs are not trivially equal failures: the first `NextPacket` delivers the null packet -/
example : (match d188.nextPacket.1 with
    | .ok p => decide (p.header.pid = 0x1fff ∧ p.payload.length = 184)
    | _ => false) = true := by decide +kernel

/-- the detection really returns 192 on the framed stream -/
example : (match (autoDetectPacketSize { data := framedOf fs2 ++ tails2.t1 }).1 with | .ok s => decide (s = 192) | _ => false) = true := by
  decide +kernel

/-- the ambiguity excluded by `Unambiguous`: with a sync byte among the last four payload bytes of the first packet
(offsets 188..191 of a 192-byte frame) the detection returns that offset -/
example : (match (autoDetectPacketSize
      { data := Spec.tsExpand [1, 2, 3, 4] ([0x47, 0x1f, 0xff, 0x10] ++ List.replicate 181 0xff ++ [0x47, 0xff, 0xff])
                ++ Spec.tsExpand [5, 6, 7, 8] nullPkt }).1 with
    | .ok s => decide (s = 189) | _ => false) = true := by decide +kernel

/-- reader kinds after a failed detection (non-conformant stream: 193 junk bytes first): the next, successful
detection leaves the seekable reader at offset 0 and the bufio.Reader at offset 193 -/
theorem seek_bufio_differ_after_failure :
    (autoDetectPacketSize { data := List.replicate 193 0 ++ framedOf fs2, pos := 193, kind := .seek }).2.pos = 0 ∧
    (autoDetectPacketSize { data := List.replicate 193 0 ++ framedOf fs2, pos := 193, kind := .bufio }).2.pos = 193 := by
  decide +kernel

end Examples

end Astits.C08
