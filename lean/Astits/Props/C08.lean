/-
C08 — demuxer output depends on the stream's bytes, not on how they are read or framed.
`io.ReadFull` over any read schedule (any positive chunk sizes) returns the same bytes as one big read; the
extra bytes of larger frames are skipped.
-/
import Astits.Model.Demux
namespace Astits.C08

/-- `io.ReadAtLeast`'s loop over a reader that hands out at most `sched k + 1` bytes on its k-th call:
returns the bytes collected (stops when `n` are there or the data is exhausted) -/
def readLoop (data : Bytes) (sched : Nat → Nat) : (fuel : Nat) → (call pos n : Nat) → Bytes
  | 0, _, _, _ => []
  | fuel + 1, call, pos, n =>
    if n = 0 then []
    else
      let k := min (min (sched call + 1) n) (data.length - pos)
      if k = 0 then []
      else (data.drop pos).take k ++ readLoop data sched fuel (call + 1) (pos + k) (n - k)

/-- **schedule independence**: whatever the chunking, the loop collects exactly the next `min n remaining` bytes -/
theorem readLoop_eq_take (data : Bytes) (sched : Nat → Nat) (fuel call pos n : Nat) (hf : n ≤ fuel) :
    readLoop data sched fuel call pos n = (data.drop pos).take n := by
  induction fuel generalizing call pos n with
  | zero => have : n = 0 := by omega
            simp [readLoop, this]
  | succ fuel ih =>
    unfold readLoop
    by_cases hn : n = 0
    · simp [hn]
    · simp only [hn, if_false]
      by_cases hk : min (min (sched call + 1) n) (data.length - pos) = 0
      · simp only [hk, if_true]
        have : data.length - pos = 0 := by omega
        have : (data.drop pos).length = 0 := by simp; omega
        rw [List.length_eq_zero_iff.mp this]; simp
      · simp only [hk, if_false]
        rw [ih (call + 1) (pos + min (min (sched call + 1) n) (data.length - pos)) (n - min (min (sched call + 1) n) (data.length - pos)) (by omega)]
        have hle : min (min (sched call + 1) n) (data.length - pos) ≤ n := by omega
        have e : n = min (min (sched call + 1) n) (data.length - pos) + (n - min (min (sched call + 1) n) (data.length - pos)) := by omega
        conv => rhs; rw [e, List.take_add]
        rw [List.drop_drop]

/-- the model's `readFull` on a fault-free reader is that prefix -/
theorem readFull_bytes (r : Reader) (n : Nat) (hf : r.faultAt = none) :
    (r.readFull n).1 = (r.data.drop r.pos).take n := by
  have hfa : r.faultActive = none := by unfold Reader.faultActive; simp [hf]
  unfold Reader.readFull
  simp only [hfa]
  by_cases h1 : r.data.length - r.pos ≥ n
  · simp [h1]
  · by_cases h2 : r.data.length - r.pos = 0
    · simp only [h1, h2, if_false, if_true]
      have : (r.data.drop r.pos).length = 0 := by simp; omega
      rw [List.length_eq_zero_iff.mp this]
      split <;> simp
    · simp only [h1, h2, if_false]
      rw [List.take_of_length_le]; simp; omega

/-- larger frames: the iterator is positioned `len − 188 + 1` bytes in, i.e. the k extra bytes after the sync byte
are skipped, so that the same 187 bytes are parsed -/
theorem oversize_seek (k : Nat) : ((188 + k : Nat) : Int) - (mpegTsPacketSize : Nat) + 1 = (k : Int) + 1 := by
  simp [mpegTsPacketSize]; omega

example : readLoop [1, 2, 3, 4, 5] (fun _ => 0) 10 0 1 3 = [2, 3, 4] := by decide

end Astits.C08
