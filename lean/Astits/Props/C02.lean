/-
C02 — the demuxer delivers exactly the units a stream carries, whatever the packetisation.
Packetisation-independence of the unit bytes; completeness test of PAT/PMT units.
-/
import Astits.Spec.RefMux
import Astits.Proofs.Units
import Astits.Props.C07
namespace Astits.C02
open Spec

theorem splitChunks_flatten (bs : Bytes) (cs : List Nat) (h : cs.sum = bs.length) :
    (splitChunks bs cs).flatten = bs := by
  induction cs generalizing bs with
  | nil => simp at h; simp [splitChunks, List.length_eq_zero_iff.mp h.symm]
  | cons c r ih =>
    simp only [splitChunks, List.flatten_cons]
    have hc : c ≤ bs.length := by simp at h; omega
    have : r.sum = (bs.drop c).length := by simp at h ⊢; omega
    rw [ih _ this, List.take_append_drop]

/-- **whatever the cut points, the concatenated payload of a unit's packets is the unit**: for any list of chunk
sizes that adds up to the unit's length (1-byte first or last chunks included), without payload padding -/
theorem concat_cuts (u : TSUnit) (cc0 : Nat) (h : u.chunks.sum = u.payload.length) (hp : u.padPayload = false) :
    concatPayload (packetsOf u cc0) = u.payload := by
  unfold concatPayload packetsOf
  simp only [hp, Bool.and_false, Bool.false_and, Bool.false_eq_true, if_false, List.map_map]
  have : ((splitChunks u.payload u.chunks).zipIdx.map (fun x => x.1)) = splitChunks u.payload u.chunks := by
    simp
  conv => lhs; arg 1; rw [show (List.map ((fun (p : Packet) => p.payload) ∘ _) (splitChunks u.payload u.chunks).zipIdx)
      = (splitChunks u.payload u.chunks).zipIdx.map (fun x => x.1) from by
        apply List.map_congr_left; intro x _; rfl]
  rw [this, splitChunks_flatten _ _ h]

/-- a PAT/PMT unit of which only the pointer_field (and its filler bytes) has arrived is not complete:
it is not flushed before a section has started (1-byte first chunks) -/
theorem pointer_only_incomplete (ptr : Nat) (filler : Bytes) (h : filler.length ≤ ptr) :
    isPSICompleteBytes (ptr :: filler) = false := by
  unfold isPSICompleteBytes
  have h1 : ¬ ((filler.length : Int) + 1 < 1) := by omega
  have h2 : ¬ ((1 : Int) + ptr < (filler.length : Int) + 1) := by omega
  simp [P.val, It.nextByte, It.skip, It.hasBytesLeft, P.bind_run, bind, pure, h1, h2]

example : isPSICompleteBytes [0, 0x00, 0xb0, 0x0d, 0, 1, 0xc1, 0, 0, 0, 1, 0xf0, 0, 0x2a, 0xb1, 0x04, 0xb2] = true := by decide
example : isPSICompleteBytes [0, 0x00, 0xb0, 0x0d, 0, 1, 0xc1, 0, 0] = false := by decide

/-! ### unit boundaries in the accumulator -/

/-- on a stream holding only accepted payload packets of `pid`, the pool behaves as that PID's accumulator -/
theorem pool_is_accumulator (pm : ProgramMap) (pid : Nat) (s : List Packet) (pool : Pool)
    (hs : ∀ p ∈ s, p.header.pid = pid ∧ p.header.hasPayload = true ∧ p.header.transportErrorIndicator = false) :
    C07.flushesOf pm pid pool s = (accRun pm pid (pool.get pid) s).1 ∧
    (C07.queueAfter pm pool s).get pid = (accRun pm pid (pool.get pid) s).2 := by
  induction s generalizing pool with
  | nil => simp [C07.flushesOf, C07.queueAfter, accRun]
  | cons p r ih =>
    obtain ⟨hpid, hpay, hte⟩ := hs p (by simp)
    have hr : ∀ x ∈ r, x.header.pid = pid ∧ x.header.hasPayload = true ∧ x.header.transportErrorIndicator = false :=
      fun x hx => hs x (by simp [hx])
    have h1 : (poolAdd pm pool p).1 = (accAdd pm pid (pool.get pid) p).1 := by
      unfold poolAdd; simp [hte, hpay, hpid]
    have h2 : (poolAdd pm pool p).2.get pid = (accAdd pm pid (pool.get pid) p).2 := by
      unfold poolAdd; simp [hte, hpay, hpid]
    have := ih (poolAdd pm pool p).2 hr
    simp only [C07.flushesOf, C07.queueAfter, accRun, hpid, if_true, h1, this.1, this.2, h2, and_self]

def unitOnPID (pid : Nat) (u : UnitPk) : Prop := ∀ p ∈ u.packets, p.header.pid = pid

/-- **every unit is delivered whole, once, in order (pool level)**: take any stream whose packets on `pid` are the
packets of well-formed units `us` (a start packet with the unit-start flag, continuation packets without it, counters
running on modulo 16 within and across units, no announced discontinuity) — interleaved with anything on other
PIDs. If `pid` is not a table PID (so nothing is flushed early), the non-empty groups handed to the unit parser while
the stream is read are exactly the units but the last, in order, each once and with all its packets; the last unit is
what is queued for the end-of-stream drain. -/
theorem units_flushed (pm : ProgramMap) (pid : Nat) (s : List Packet) (us : List UnitPk)
    (hnp : (pid == 0 || pm.has pid) = false)
    (hf : (s.filter fun p => p.header.pid == pid) = us.flatMap UnitPk.packets)
    (hon : ∀ u ∈ us, unitOnPID pid u) (hc : ChainOK [] us) :
    (C07.flushesOf pm pid [] s).filter (fun g => !g.isEmpty) = us.dropLast.map UnitPk.packets ∧
    (us ≠ [] → (C07.queueAfter pm [] s).get pid = (us.getLast?.map UnitPk.packets).getD []) := by
  have hpk : ∀ p ∈ us.flatMap UnitPk.packets,
      p.header.pid = pid ∧ p.header.hasPayload = true ∧ p.header.transportErrorIndicator = false := by
    intro p hp
    obtain ⟨u, hu, hpu⟩ := List.mem_flatMap.mp hp
    refine ⟨hon u hu p hpu, ?_⟩
    -- every packet of a chain is a PlainPayload packet
    have all : ∀ (q : List Packet) (us : List UnitPk), ChainOK q us → ∀ u ∈ us, ∀ p ∈ u.packets, PlainPayload p := by
      intro q us
      induction us generalizing q with
      | nil => intro _ u hu; cases hu
      | cons v t ih =>
        intro ⟨hv, _, ht⟩ u hu p hp
        rcases List.mem_cons.mp hu with rfl | hu'
        · obtain ⟨h1, _, h3⟩ := hv
          rcases List.mem_cons.mp hp with rfl | hp'
          · exact h1
          · have cont : ∀ (prev : Nat) (r : List Packet), Continues prev r → ∀ x ∈ r, PlainPayload x := by
              intro prev r
              induction r generalizing prev with
              | nil => intro _ x hx; cases hx
              | cons y r ihr =>
                intro ⟨hy, _, _, hr⟩ x hx
                rcases List.mem_cons.mp hx with rfl | hx'
                · exact hy
                · exact ihr _ hr x hx'
            exact cont _ _ h3 p hp'
        · exact ih _ ht u hu' p hp
    have := all [] us hc u hu p hpu
    exact ⟨this.1, this.2.1⟩
  have hper := C07.per_pid pm pid s [] [] rfl
  have hacc := pool_is_accumulator pm pid (us.flatMap UnitPk.packets) [] hpk
  have hrun := accRun_units pm pid [] us hnp hc
  have hfl := flushed_units us
  rw [hper.1, hper.2, hf, hacc.1, hacc.2]
  simp only [Pool.get, hrun]
  exact hfl

def exPk (cc : Nat) (pusi : Bool) : Packet :=
  { header := { continuityCounter := cc, hasAdaptationField := false, hasPayload := true, payloadUnitStartIndicator := pusi,
                pid := 256, transportErrorIndicator := false, transportPriority := false, transportScramblingControl := 0 },
    payload := [0] }

/-- the hypotheses are satisfiable: two units of two packets each on PID 256, counters 14, 15, 0, 1 -/
example : ChainOK [] [⟨exPk 14 true, [exPk 15 false]⟩, ⟨exPk 0 true, [exPk 1 false]⟩] ∧
    ∀ u ∈ [(⟨exPk 14 true, [exPk 15 false]⟩ : UnitPk), ⟨exPk 0 true, [exPk 1 false]⟩], unitOnPID 256 u := by
  constructor
  · refine ⟨⟨?_, rfl, ?_, rfl, rfl, trivial⟩, Or.inl rfl, ⟨?_, rfl, ?_, rfl, rfl, trivial⟩, ?_, trivial⟩
    · simp [PlainPayload, exPk, pktDI]
    · simp [PlainPayload, exPk, pktDI]
    · simp [PlainPayload, exPk, pktDI]
    · simp [PlainPayload, exPk, pktDI]
    · exact Or.inr ⟨[exPk 14 true], exPk 15 false, rfl, by simp [exPk], by simp [exPk]⟩
  · intro u hu
    simp at hu
    rcases hu with rfl | rfl <;> simp [unitOnPID, UnitPk.packets, exPk]

end Astits.C02
