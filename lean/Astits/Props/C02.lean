/-
C02 — the demuxer delivers exactly the units a stream carries, whatever the packetisation.
Packetisation-independence of the unit bytes; completeness test of PAT/PMT units.
-/
import Astits.Spec.RefMux
namespace Astits.C02
open Spec

theorem splitChunks_flatten (bs : Bytes) (cs : List Nat) (h : cs.sum = bs.length) :
    (splitChunks bs cs).flatten = bs := by
  induction cs generalizing bs with
  | nil => simp at h; simp [splitChunks, List.length_eq_zero_iff.mp h.symm]
  | cons c r ih =>
    simp only [splitChunks, List.flatten_cons]
    have hc : c ≤ bs.length := by simp at h; omega
    have : r.sum = (bs.drop c).length := by simp at h ⊢; omega
    rw [ih _ this, List.take_append_drop]

/-- **whatever the cut points, the concatenated payload of a unit's packets is the unit**: for any list of chunk
sizes that adds up to the unit's length (1-byte first or last chunks included), without payload padding -/
theorem concat_cuts (u : TSUnit) (cc0 : Nat) (h : u.chunks.sum = u.payload.length) (hp : u.padPayload = false) :
    concatPayload (packetsOf u cc0) = u.payload := by
  unfold concatPayload packetsOf
  simp only [hp, Bool.and_false, Bool.false_and, Bool.false_eq_true, if_false, List.map_map]
  have : ((splitChunks u.payload u.chunks).zipIdx.map (fun x => x.1)) = splitChunks u.payload u.chunks := by
    simp
  conv => lhs; arg 1; rw [show (List.map ((fun (p : Packet) => p.payload) ∘ _) (splitChunks u.payload u.chunks).zipIdx)
      = (splitChunks u.payload u.chunks).zipIdx.map (fun x => x.1) from by
        apply List.map_congr_left; intro x _; rfl]
  rw [this, splitChunks_flatten _ _ h]

/-- a PAT/PMT unit of which only the pointer_field (and its filler bytes) has arrived is not complete:
it is not flushed before a section has started (1-byte first chunks) -/
theorem pointer_only_incomplete (ptr : Nat) (filler : Bytes) (h : filler.length ≤ ptr) :
    isPSICompleteBytes (ptr :: filler) = false := by
  unfold isPSICompleteBytes
  have h1 : ¬ ((filler.length : Int) + 1 < 1) := by omega
  have h2 : ¬ ((1 : Int) + ptr < (filler.length : Int) + 1) := by omega
  simp [P.val, It.nextByte, It.skip, It.hasBytesLeft, P.bind_run, bind, pure, h1, h2]

example : isPSICompleteBytes [0, 0x00, 0xb0, 0x0d, 0, 1, 0xc1, 0, 0, 0, 1, 0xf0, 0, 0x2a, 0xb1, 0x04, 0xb2] = true := by decide
example : isPSICompleteBytes [0, 0x00, 0xb0, 0x0d, 0, 1, 0xc1, 0, 0] = false := by decide

end Astits.C02
