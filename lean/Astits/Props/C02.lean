/-
C02 — the demuxer delivers exactly the units a stream carries, whatever the packetisation.
Packetisation-independence of the unit bytes; completeness test of PAT/PMT units.
-/
import Astits.Spec.RefMux
import Astits.Proofs.Units
import Astits.Props.C07
import Astits.Proofs.PSIComplete
namespace Astits.C02
open Spec

theorem splitChunks_flatten (bs : Bytes) (cs : List Nat) (h : cs.sum = bs.length) :
    (splitChunks bs cs).flatten = bs := by
  induction cs generalizing bs with
  | nil => simp at h; simp [splitChunks, List.length_eq_zero_iff.mp h.symm]
  | cons c r ih =>
    simp only [splitChunks, List.flatten_cons]
    have hc : c ≤ bs.length := by simp at h; omega
    have : r.sum = (bs.drop c).length := by simp at h ⊢; omega
    rw [ih _ this, List.take_append_drop]

/-- **whatever the cut points, the concatenated payload of a unit's packets is the unit**: for any list of chunk
sizes that adds up to the unit's length (1-byte first or last chunks included), without payload padding -/
theorem concat_cuts (u : TSUnit) (cc0 : Nat) (h : u.chunks.sum = u.payload.length) (hp : u.padPayload = false) :
    concatPayload (packetsOf u cc0) = u.payload := by
  unfold concatPayload packetsOf
  simp only [hp, Bool.and_false, Bool.false_and, Bool.false_eq_true, if_false, List.map_map]
  have : ((splitChunks u.payload u.chunks).zipIdx.map (fun x => x.1)) = splitChunks u.payload u.chunks := by
    simp
  conv => lhs; arg 1; rw [show (List.map ((fun (p : Packet) => p.payload) ∘ _) (splitChunks u.payload u.chunks).zipIdx)
      = (splitChunks u.payload u.chunks).zipIdx.map (fun x => x.1) from by
        apply List.map_congr_left; intro x _; rfl]
  rw [this, splitChunks_flatten _ _ h]

/-- a PAT/PMT unit of which only the pointer_field (and its filler bytes) has arrived is not complete:
it is not flushed before a section has started (1-byte first chunks) -/
theorem pointer_only_incomplete (ptr : Nat) (filler : Bytes) (h : filler.length ≤ ptr) :
    isPSICompleteBytes (ptr :: filler) = false := by
  unfold isPSICompleteBytes
  have h1 : ¬ ((filler.length : Int) + 1 < 1) := by omega
  have h2 : ¬ ((1 : Int) + ptr < (filler.length : Int) + 1) := by omega
  simp [P.val, It.nextByte, It.skip, It.hasBytesLeft, P.bind_run, bind, pure, h1, h2]

example : isPSICompleteBytes [0, 0x00, 0xb0, 0x0d, 0, 1, 0xc1, 0, 0, 0, 1, 0xf0, 0, 0x2a, 0xb1, 0x04, 0xb2] = true := by decide
example : isPSICompleteBytes [0, 0x00, 0xb0, 0x0d, 0, 1, 0xc1, 0, 0] = false := by decide

/-! ### unit boundaries in the accumulator -/

/-- on a stream holding only accepted payload packets of `pid`, the pool behaves as that PID's accumulator -/
theorem pool_is_accumulator (pm : ProgramMap) (pid : Nat) (s : List Packet) (pool : Pool)
    (hs : ∀ p ∈ s, p.header.pid = pid ∧ p.header.hasPayload = true ∧ p.header.transportErrorIndicator = false) :
    C07.flushesOf pm pid pool s = (accRun pm pid (pool.get pid) s).1 ∧
    (C07.queueAfter pm pool s).get pid = (accRun pm pid (pool.get pid) s).2 := by
  induction s generalizing pool with
  | nil => simp [C07.flushesOf, C07.queueAfter, accRun]
  | cons p r ih =>
    obtain ⟨hpid, hpay, hte⟩ := hs p (by simp)
    have hr : ∀ x ∈ r, x.header.pid = pid ∧ x.header.hasPayload = true ∧ x.header.transportErrorIndicator = false :=
      fun x hx => hs x (by simp [hx])
    have h1 : (poolAdd pm pool p).1 = (accAdd pm pid (pool.get pid) p).1 := by
      unfold poolAdd; simp [hte, hpay, hpid]
    have h2 : (poolAdd pm pool p).2.get pid = (accAdd pm pid (pool.get pid) p).2 := by
      unfold poolAdd; simp [hte, hpay, hpid]
    have := ih (poolAdd pm pool p).2 hr
    simp only [C07.flushesOf, C07.queueAfter, accRun, hpid, if_true, h1, this.1, this.2, h2, and_self]

def unitOnPID (pid : Nat) (u : UnitPk) : Prop := ∀ p ∈ u.packets, p.header.pid = pid

/-- **every unit is delivered whole, once, in order (pool level)**: take any stream whose packets on `pid` are the
packets of well-formed units `us` (a start packet with the unit-start flag, continuation packets without it, counters
running on modulo 16 within and across units, no announced discontinuity) — interleaved with anything on other
PIDs. If `pid` is not a table PID (so nothing is flushed early), the non-empty groups handed to the unit parser while
the stream is read are exactly the units but the last, in order, each once and with all its packets; the last unit is
what is queued for the end-of-stream drain. -/
theorem units_flushed (pm : ProgramMap) (pid : Nat) (s : List Packet) (us : List UnitPk)
    (hnp : (pid == 0 || pm.has pid) = false)
    (hf : (s.filter fun p => p.header.pid == pid) = us.flatMap UnitPk.packets)
    (hon : ∀ u ∈ us, unitOnPID pid u) (hc : ChainOK [] us) :
    (C07.flushesOf pm pid [] s).filter (fun g => !g.isEmpty) = us.dropLast.map UnitPk.packets ∧
    (us ≠ [] → (C07.queueAfter pm [] s).get pid = (us.getLast?.map UnitPk.packets).getD []) := by
  have hpk : ∀ p ∈ us.flatMap UnitPk.packets,
      p.header.pid = pid ∧ p.header.hasPayload = true ∧ p.header.transportErrorIndicator = false := by
    intro p hp
    obtain ⟨u, hu, hpu⟩ := List.mem_flatMap.mp hp
    refine ⟨hon u hu p hpu, ?_⟩
    -- every packet of a chain is a PlainPayload packet
    have all : ∀ (q : List Packet) (us : List UnitPk), ChainOK q us → ∀ u ∈ us, ∀ p ∈ u.packets, PlainPayload p := by
      intro q us
      induction us generalizing q with
      | nil => intro _ u hu; cases hu
      | cons v t ih =>
        intro ⟨hv, _, ht⟩ u hu p hp
        rcases List.mem_cons.mp hu with rfl | hu'
        · obtain ⟨h1, _, h3⟩ := hv
          rcases List.mem_cons.mp hp with rfl | hp'
          · exact h1
          · have cont : ∀ (prev : Nat) (r : List Packet), Continues prev r → ∀ x ∈ r, PlainPayload x := by
              intro prev r
              induction r generalizing prev with
              | nil => intro _ x hx; cases hx
              | cons y r ihr =>
                intro ⟨hy, _, _, hr⟩ x hx
                rcases List.mem_cons.mp hx with rfl | hx'
                · exact hy
                · exact ihr _ hr x hx'
            exact cont _ _ h3 p hp'
        · exact ih _ ht u hu' p hp
    have := all [] us hc u hu p hpu
    exact ⟨this.1, this.2.1⟩
  have hper := C07.per_pid pm pid s [] [] rfl
  have hacc := pool_is_accumulator pm pid (us.flatMap UnitPk.packets) [] hpk
  have hrun := accRun_units pm pid [] us hnp hc
  have hfl := flushed_units us
  rw [hper.1, hper.2, hf, hacc.1, hacc.2]
  simp only [Pool.get, hrun]
  exact hfl

def exPk (cc : Nat) (pusi : Bool) : Packet :=
  { header := { continuityCounter := cc, hasAdaptationField := false, hasPayload := true, payloadUnitStartIndicator := pusi,
                pid := 256, transportErrorIndicator := false, transportPriority := false, transportScramblingControl := 0 },
    payload := [0] }

/-- the hypotheses are satisfiable: two units of two packets each on PID 256, counters 14, 15, 0, 1 -/
example : ChainOK [] [⟨exPk 14 true, [exPk 15 false]⟩, ⟨exPk 0 true, [exPk 1 false]⟩] ∧
    ∀ u ∈ [(⟨exPk 14 true, [exPk 15 false]⟩ : UnitPk), ⟨exPk 0 true, [exPk 1 false]⟩], unitOnPID 256 u := by
  constructor
  · refine ⟨⟨?_, rfl, ?_, rfl, rfl, trivial⟩, Or.inl rfl, ⟨?_, rfl, ?_, rfl, rfl, trivial⟩, ?_, trivial⟩
    · simp [PlainPayload, exPk, pktDI]
    · simp [PlainPayload, exPk, pktDI]
    · simp [PlainPayload, exPk, pktDI]
    · simp [PlainPayload, exPk, pktDI]
    · exact Or.inr ⟨[exPk 14 true], exPk 15 false, rfl, by simp [exPk], by simp [exPk]⟩
  · intro u hu
    simp at hu
    rcases hu with rfl | rfl <;> simp [unitOnPID, UnitPk.packets, exPk]

/-! ## PSI side: a PAT/PMT unit is flushed by the packet that carries its last section byte

`accAdd` flushes the queue of a table PID (`pid == 0 || pm.has pid`) as soon as `isPSIComplete` holds. E1 says exactly
when it holds on the prefixes of a unit, E2 what the accumulator therefore does with the unit's packets, E3 what the
flushed group parses to. Helper lemmas: `Proofs/PSIComplete.lean`; the lifting to `NextData` is in `Props/C02b.lean`. -/

section PSISide
open PSIComplete PSIRT

/-- **E1 — the completeness test, exactly.** Let `u = [ptr] ++ filler ++ secs.flatten ++ stuffing` be a PSI unit:
`ptr` filler bytes, at least one section image (3-byte header, a table id that does not stop the parsing, 12-bit
section_length = number of bytes that follow), 0xFF stuffing. On the first `n` bytes of `u` the test answers true
exactly when `n` reaches the end of the last section — or when `n` is the offset at which the first, second, … but
not the last section ends: there the bytes seen so far look like a complete unit (the packet-edge case that
ISO/IEC 13818-1 2.4.4.1 excludes: a packet in which a section starts carries a pointer_field). -/
theorem complete_iff (ptr : Nat) (filler stuffing : Bytes) (secs : List Bytes) (hfl : filler.length = ptr)
    (hs : ∀ s ∈ secs, SecImage s) (hne : secs ≠ []) (hst : ∀ b ∈ stuffing, b = 0xff) (n : Nat) :
    isPSICompleteBytes (([ptr] ++ filler ++ secs.flatten ++ stuffing).take n) = true ↔
      (1 + ptr + secs.flatten.length ≤ n ∨
        ∃ k, 0 < k ∧ k < secs.length ∧ n = 1 + ptr + (secs.take k).flatten.length) :=
  PSIComplete.complete_iff ptr filler stuffing secs hfl hs hne hst n

/-- non-vacuity: pointer_field 1, one filler byte, a 5-byte and a 4-byte section, two stuffing bytes -/
example : ([7] : Bytes).length = 1 ∧ (∀ s ∈ ([[0, 0xb0, 2, 9, 9], [2, 0x30, 1, 7]] : List Bytes), SecImage s) ∧
    ([[0, 0xb0, 2, 9, 9], [2, 0x30, 1, 7]] : List Bytes) ≠ [] ∧ ∀ b ∈ ([0xff, 0xff] : Bytes), b = 0xff := by
  refine ⟨rfl, ?_, by simp, by simp⟩
  intro s hs
  simp only [List.mem_cons, List.not_mem_nil, or_false] at hs
  rcases hs with rfl | rfl
  · exact ⟨0, 0xb0, 2, [9, 9], rfl, by decide, by decide⟩
  · exact ⟨2, 0x30, 1, [7], rfl, by decide, by decide⟩

/-- … on which the test is false one byte before the end of the last section, true from there on, and true at the
inner section boundary (offset 7) although the second section has not arrived -/
example : (List.range 14).map (fun n => isPSICompleteBytes (([1, 7, 0, 0xb0, 2, 9, 9, 2, 0x30, 1, 7, 0xff, 0xff] : Bytes).take n))
    = [false, false, false, false, false, false, false, true, false, false, false, true, true, true] := by decide +kernel

/-- **E2 — early flush at the right packet.** A unit of a table PID (start packet with the unit-start flag,
continuation packets, counters running on, no discontinuity) is split as `a ++ [pk] ++ b` where `pk` is the packet
in which the last section byte arrives. If none of the packet edges inside `a` is the start of a later section
(conformant cut points), then: the unit start flushes the previous queue `q` (nothing at all when `a = []`: then `q`
is dropped), the other packets of `a` flush nothing, `pk` flushes exactly `a ++ [pk]`, and the stuffing-only packets
`b` (at most 256 bytes of them) flush nothing and stay queued as a group without a start packet. -/
theorem table_unit_flushed (pm : ProgramMap) (pid : Nat) (htab : (pid == 0 || pm.has pid) = true) (q : List Packet)
    (u : UnitPk) (hu : UnitOK u) (hq : QueueLeadsTo q u.first.header.continuityCounter)
    (a : List Packet) (pk : Packet) (b : List Packet) (hsplit : u.packets = a ++ [pk] ++ b)
    (ptr : Nat) (filler : Bytes) (secs : List Bytes) (stuffing : Bytes)
    (L : UnitLayout (concatPayload u.packets) ptr filler secs stuffing)
    (hbefore : (concatPayload a).length < 1 + ptr + secs.flatten.length)
    (hat : 1 + ptr + secs.flatten.length ≤ (concatPayload (a ++ [pk])).length)
    (hcut : ConformantCut a ptr secs) (htail : (concatPayload b).length ≤ 256) :
    accRun pm pid q u.packets =
      ((if a = [] then [] else q :: List.replicate (a.length - 1) []) ++ [a ++ [pk]] ++ List.replicate b.length [], b) :=
  table_unit_run pm pid htab q u hu hq a pk b hsplit ptr filler secs stuffing L hbefore hat hcut htail

/-- from an empty queue: nothing is flushed before `pk` -/
theorem table_unit_flushed_fresh (pm : ProgramMap) (pid : Nat) (htab : (pid == 0 || pm.has pid) = true)
    (u : UnitPk) (hu : UnitOK u)
    (a : List Packet) (pk : Packet) (b : List Packet) (hsplit : u.packets = a ++ [pk] ++ b)
    (ptr : Nat) (filler : Bytes) (secs : List Bytes) (stuffing : Bytes)
    (L : UnitLayout (concatPayload u.packets) ptr filler secs stuffing)
    (hbefore : (concatPayload a).length < 1 + ptr + secs.flatten.length)
    (hat : 1 + ptr + secs.flatten.length ≤ (concatPayload (a ++ [pk])).length)
    (hcut : ConformantCut a ptr secs) (htail : (concatPayload b).length ≤ 256) :
    accRun pm pid [] u.packets = (List.replicate a.length [] ++ [a ++ [pk]] ++ List.replicate b.length [], b) := by
  rw [table_unit_flushed pm pid htab [] u hu (Or.inl rfl) a pk b hsplit ptr filler secs stuffing L hbefore hat hcut htail]
  cases a with
  | nil => rfl
  | cons p r => simp [List.replicate_succ]

/-- the excluded cut points: when a packet edge is the start of a later section, the packets up to that edge are
flushed there — the unit is handed over in pieces (the second piece has no pointer_field) -/
theorem inner_boundary_flushes_early (u : UnitPk) (x y : List Packet) (hsplit : u.packets = x ++ y)
    (ptr : Nat) (filler : Bytes) (secs : List Bytes) (stuffing : Bytes)
    (L : UnitLayout (concatPayload u.packets) ptr filler secs stuffing)
    (k : Nat) (hk : 0 < k) (hkl : k < secs.length)
    (hedge : (concatPayload x).length = 1 + ptr + (secs.take k).flatten.length) :
    isPSIComplete x = true :=
  (complete_group L x y (by rw [hsplit])).mpr (Or.inr ⟨k, hk, hkl, hedge⟩)

/-- what becomes of the stuffing-only group `b`: it yields no data and no error when it is handed to `parseData` … -/
theorem stuffing_group_no_data (pm : ProgramMap) (pid : Nat) (htab : (pid == 0 || pm.has pid) = true)
    (g : List Packet) (hpid : (g.headD default).header.pid = pid)
    (hl : 0 < (concatPayload g).length) (h : ∀ b ∈ concatPayload g, b = 0xff) :
    parseData g .none pm = .ok [] :=
  parseData_stuffing pm pid htab g hpid hl h

/-- … which happens at the next unit start, unless that start packet is a complete unit by itself: then the group is
dropped without being parsed -/
theorem stuffing_group_at_next_start (pm : ProgramMap) (pid : Nat) (g : List Packet) (p : Packet)
    (htab : (pid == 0 || pm.has pid) = true) (hp : PlainPayload p) (hpusi : p.header.payloadUnitStartIndicator = true)
    (hq : QueueLeadsTo g p.header.continuityCounter) :
    accAdd pm pid g p = if isPSIComplete [p] then ([p], []) else (g, [p]) :=
  accAdd_table_start pm pid g p htab hp hpusi hq

/-- stuffing alone looks like a complete unit as soon as there are more than 256 bytes of it: a longer run of
stuffing-only packets is flushed (and parses to nothing) before the next unit starts -/
theorem stuffing_complete_iff (l : Bytes) (h : ∀ b ∈ l, b = 0xff) : isPSICompleteBytes l = decide (256 < l.length) :=
  complete_all_ff l h

/-- **E3 (pool and `parseData` level) — every section once, in order.** The unit is what `writePSIData` produces for
PAT/PMT sections `ss` that round-trip to `ss'` (C13 `psi_roundtrip`: `SectionsRT`), followed by 0xFF stuffing; cut at
conformant points. The group flushed by the packet carrying the last section byte parses to the data of `ss'`. -/
theorem table_unit_delivered (pm : ProgramMap) (pid : Nat) (htab : (pid == 0 || pm.has pid) = true) (hcat : pid ≠ 1)
    (q : List Packet) (u : UnitPk) (hu : UnitOK u) (hq : QueueLeadsTo q u.first.header.continuityCounter)
    (hon : u.first.header.pid = pid)
    (a : List Packet) (pk : Packet) (b : List Packet) (hsplit : u.packets = a ++ [pk] ++ b)
    (pf : Nat) (ss ss' : List PSISection) (stuffing : Bytes)
    (W : WrittenUnit (concatPayload u.packets) pf ss ss' stuffing)
    (hbefore : (concatPayload a).length < 1 + pf + ((ss.map secBytes).flatten).length)
    (hat : 1 + pf + ((ss.map secBytes).flatten).length ≤ (concatPayload (a ++ [pk])).length)
    (hcut : ConformantCut a pf (ss.map secBytes)) :
    accRun pm pid q (a ++ [pk]) =
      ((if a = [] then [] else q :: List.replicate (a.length - 1) []) ++ [a ++ [pk]], []) ∧
    parseData (a ++ [pk]) .none pm =
      .ok (psiToData { pointerField := (pf : Int), sections := ss' } (firstOf u.packets) pid) :=
  written_unit_delivered pm pid htab hcat q u hu hq hon a pk b hsplit pf ss ss' stuffing W hbefore hat hcut

/-! #### non-vacuity of E2 and E3: a PAT unit of two sections in four packets -/

def exPatSec (progs : List PATProgram) : PSISection :=
  mkPATSection 0 { sectionLength := 1, sectionSyntaxIndicator := true, tableID := 0 }
    { currentNextIndicator := true, tableIDExtension := 7, versionNumber := 3 } { programs := progs, transportStreamID := 7 }

def exSec1 : PSISection := exPatSec [{ programMapID := 0x1000, programNumber := 1 }]
def exSec2 : PSISection := exPatSec [{ programMapID := 0x1001, programNumber := 2 }, { programMapID := 0x1002, programNumber := 3 }]

def exTablePk (cc : Nat) (pusi : Bool) (payload : Bytes) : Packet :=
  { header := { continuityCounter := cc, hasAdaptationField := false, hasPayload := true, payloadUnitStartIndicator := pusi,
                pid := 0, transportErrorIndicator := false, transportPriority := false, transportScramblingControl := 0 },
    payload := payload }

/-- pointer_field 0, section 1 (16 bytes, ends at offset 17), section 2 (20 bytes, ends at offset 37), 3 stuffing bytes;
chunks of 10, 15, 12 and 3 bytes: the last section byte is in the third packet -/
def exP0 : Packet := exTablePk 15 true [0, 0, 176, 13, 0, 7, 199, 0, 0, 0]
def exP1 : Packet := exTablePk 0 false [1, 240, 0, 80, 134, 190, 104, 0, 176, 17, 0, 7, 199, 0, 0]
def exP2 : Packet := exTablePk 1 false [0, 2, 240, 1, 0, 3, 240, 2, 184, 178, 78, 179]
def exP3 : Packet := exTablePk 2 false [0xff, 0xff, 0xff]
def exUnit : UnitPk := ⟨exP0, [exP1, exP2, exP3]⟩

example : UnitOK exUnit ∧ exUnit.first.header.pid = 0 ∧ exUnit.packets = [exP0, exP1] ++ [exP2] ++ [exP3] ∧
    (∃ ss', WrittenUnit (concatPayload exUnit.packets) 0 [exSec1, exSec2] ss' [0xff, 0xff, 0xff]) ∧
    (concatPayload [exP0, exP1]).length < 1 + 0 + (([exSec1, exSec2].map secBytes).flatten).length ∧
    1 + 0 + (([exSec1, exSec2].map secBytes).flatten).length ≤ (concatPayload ([exP0, exP1] ++ [exP2])).length ∧
    ConformantCut [exP0, exP1] 0 ([exSec1, exSec2].map secBytes) ∧ (concatPayload [exP3]).length ≤ 256 := by
  have hsh : SyntaxHeaderOk { currentNextIndicator := true, tableIDExtension := 7, versionNumber := 3 } :=
    ⟨by decide, by decide, by decide, by decide⟩
  have r1 := pat_section_rt 0 { sectionLength := 1, sectionSyntaxIndicator := true, tableID := 0 } _
    { programs := [{ programMapID := 0x1000, programNumber := 1 }], transportStreamID := 7 } rfl (by decide) hsh ⟨by decide, by decide⟩
  have r2 := pat_section_rt 0 { sectionLength := 1, sectionSyntaxIndicator := true, tableID := 0 } _
    { programs := [{ programMapID := 0x1001, programNumber := 2 }, { programMapID := 0x1002, programNumber := 3 }], transportStreamID := 7 }
    rfl (by decide) hsh ⟨by decide, by decide⟩
  have hrt : SectionsRT [exSec1, exSec2] _ := .cons r1 (.cons r2 .nil)
  have hplain : ∀ cc pusi pl, cc < 16 → PlainPayload (exTablePk cc pusi pl) := by
    intro cc pusi pl h
    simp [PlainPayload, exTablePk, pktDI, h]
  refine ⟨⟨hplain _ _ _ (by decide), rfl, ⟨hplain _ _ _ (by decide), rfl, rfl, hplain _ _ _ (by decide), rfl, rfl,
    hplain _ _ _ (by decide), rfl, rfl, trivial⟩⟩, rfl, rfl, ⟨_, by decide, hrt, by simp, by simp, _,
    writePSIData_bytes 0 (by decide) _ _ hrt, by decide +kernel⟩, by decide +kernel, by decide +kernel, ?_, by decide⟩
  intro i hi hia j hj hjl
  have hj1 : j = 1 := by simp at hjl; omega
  subst hj1
  have : i = 1 ∨ i = 2 := by simp at hia; omega
  rcases this with rfl | rfl <;> decide +kernel

/-- the excluded cut point evaluated: had the first packet ended with section 1 (17 bytes), it would have been flushed
alone; the second section, arriving without a pointer_field in a group of its own, parses to nothing: it is lost
without an error -/
example : isPSIComplete [exTablePk 15 true [0, 0, 176, 13, 0, 7, 199, 0, 0, 0, 1, 240, 0, 80, 134, 190, 104]] = true ∧
    (match parseData [exTablePk 0 false [0, 176, 17, 0, 7, 199, 0, 0, 0, 2, 240, 1, 0, 3, 240, 2, 184, 178, 78, 179]] .none [] with
     | .ok ds => ds.isEmpty | _ => false) = true := by
  constructor <;> decide +kernel

end PSISide

end Astits.C02
