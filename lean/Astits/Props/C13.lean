/-
C13 — PSI/SI tables are decoded field for field; PAT and PMT are encoded exactly.
-/
import Astits.Model.PSI
import Astits.Model.Mux
import Astits.Props.C14
import Astits.Proofs.Layout
import Astits.Proofs.PSIRT
namespace Astits.C13

/-- one PAT entry: 16-bit program_number, 3 reserved bits, 13-bit PID — all values round-trip -/
theorem pat_entry_roundtrip (pn pid : Nat) (h1 : pn < 65536) (h2 : pid < 8192) :
    let bs := packFields [(pn, 16), (7, 3), (pid, 13)]
    bs.length = 4 ∧ u16 bs = pn ∧ (bs.getD 2 0 % 32) * 256 + bs.getD 3 0 = pid := by
  simp only [packFields, fieldsWidth, fieldsValue, beBytes, u16, List.getD_cons_zero, List.getD_cons_succ, List.length_cons, List.length_nil]
  simp only [Nat.reducePow, Nat.reduceAdd, Nat.reduceDiv, Nat.pow_zero, Nat.div_one, Nat.pow_one]
  refine ⟨trivial, ?_, ?_⟩ <;> omega

/-- the PAT body has the length the section header announces (4 bytes per program) -/
theorem pat_body_length (d : PATData) (h : d.programs.length < 16384) :
    (patSectionBytes d).length = calcPATSectionLength d := by
  unfold patSectionBytes calcPATSectionLength
  have : ∀ l : List PATProgram, ((l.map fun p => packFields [(p.programNumber, 16), (7, 3), (p.programMapID, 13)]).flatten).length = 4 * l.length := by
    intro l
    induction l with
    | nil => rfl
    | cons p r ih =>
      simp only [List.map_cons, List.flatten_cons, List.length_append, ih, List.length_cons]
      have : (packFields [(p.programNumber, 16), (7, 3), (p.programMapID, 13)]).length = 4 := by
        simp [packFields, fieldsWidth, beBytes]
      omega
  rw [this, Nat.mod_eq_of_lt (by omega)]

/-- the five bytes of the section syntax header: table_id_extension, version, current/next, section numbers -/
theorem syntax_header_roundtrip (h : PSISectionSyntaxHeader) (h1 : h.tableIDExtension < 65536) (h2 : h.versionNumber < 32)
    (h3 : h.sectionNumber < 256) (h4 : h.lastSectionNumber < 256) :
    let bs := syntaxHeaderBytes h
    bs.length = 5 ∧ u16 bs = h.tableIDExtension ∧ bs.getD 2 0 % 64 / 2 = h.versionNumber ∧
    decide (bs.getD 2 0 % 2 = 1) = h.currentNextIndicator ∧ bs.getD 3 0 = h.sectionNumber ∧ bs.getD 4 0 = h.lastSectionNumber := by
  obtain ⟨cni, lsn, sn, ext, v⟩ := h
  simp only at h1 h2 h3 h4
  simp only [syntaxHeaderBytes, packFields, fieldsWidth, fieldsValue, beBytes, u16, List.getD_cons_zero, List.getD_cons_succ,
    List.length_cons, List.length_nil]
  simp only [Nat.reducePow, Nat.reduceAdd, Nat.reduceDiv, Nat.pow_zero, Nat.div_one, Nat.pow_one]
  have hb := b2n_le cni
  refine ⟨trivial, ?_, ?_, ?_, ?_, ?_⟩
  · omega
  · omega
  · have : (((((((0 * 65536 + ext % 65536) * 4 + 3 % 4) * 32 + v % 32) * 2 + b2n cni % 2) * 256 + sn % 256) * 256 + lsn % 256) / 65536 % 256 % 2) = b2n cni := by omega
    rw [this]; exact decide_b2n cni
  · omega
  · omega

/-- the PMT body has the length the section header announces, when every descriptor body has its computed length and
the whole fits the 12-bit loop lengths -/
theorem pmt_es_entry_length (es : PMTElementaryStream) (h : ∀ d ∈ es.elementaryStreamDescriptors, C14.BodyFits d)
    (hfit : descriptorsSize es.elementaryStreamDescriptors < 4096) :
    (packFields [(es.streamType, 8), (7, 3), (es.elementaryPID, 13)] ++ writeDescriptorsWithLength es.elementaryStreamDescriptors).length
      = 5 + calcDescriptorsLength es.elementaryStreamDescriptors := by
  have := (C14.loop_length_matches _ h hfit).1
  have hp : (packFields [(es.streamType, 8), (7, 3), (es.elementaryPID, 13)]).length = 3 := by simp [packFields, fieldsWidth, beBytes]
  simp only [List.length_append, hp, this, calcDescriptorsLength]
  rw [Nat.mod_eq_of_lt (by omega)]
  omega

example : packFields [(1, 16), (7, 3), (0x1000, 13)] = [0, 1, 0xf0, 0] := by decide

open Astits.PSIRT

/-! ## Whole-structure round trips (helpers in `Proofs/PSIRT.lean`, namespace `Astits.PSIRT`)

`mkPATSection crc h sh d` / `mkPMTSection crc h sh d` are the sections the writer accepts (`crc` is the ignored `CRC32`
field of the input).  What `parsePSIData` returns for the written bytes is the same section up to the fields the
parser recomputes:
* `Header.SectionLength` = number of bytes that follow the field, `Header.TableType` = the name of the table id;
* `CRC32` = `computeCRC32` of all section bytes that precede the CRC field (`sectionPre`);
* `PATData.TransportStreamID` / `PMTData.ProgramNumber` = the `table_id_extension` of the syntax header (the writer
  does not emit the struct field at all: it is equal exactly when the caller kept the two in sync, as the muxer does).
-/

/-- the bytes before the CRC field: a written PAT/PMT section is `sectionPre s ++ be32 (computeCRC32 (sectionPre s))` -/
theorem sectionPre_spec (s : PSISection) (sec : Bytes) (h : writePSISection s = .ok sec)
    (hl : (s.header.getD {}).sectionLength > 0) :
    sec = sectionPre s ++ be32 (computeCRC32 (sectionPre s)) := by
  have hp : sectionPre s = sec.take (sec.length - 4) := by unfold sectionPre; rw [h]
  unfold writePSISection at h
  split at h
  · cases h
  · rename_i hd heq
    split at h
    · cases h
    · split at h
      · cases h
      · split at h
        · split at h
          · cases h
          · simp only [heq, Option.getD_some] at hl
            simp only [hl, if_true, Res.ok.injEq] at h
            rw [hp, ← h, take_pre_crc]
        · cases h

/-- **PAT round trip**: any PAT (any number of programs that fits the 12-bit section_length, 16-bit program numbers,
13-bit PIDs, 16-bit transport_stream_id, 5-bit version, 8-bit section numbers, any flags) behind any pointer field,
written by `writePSIData` and parsed by `parsePSIData`, comes back; the whole slice is consumed -/
theorem pat_roundtrip (pf crc : Nat) (h : PSISectionHeader) (sh : PSISectionSyntaxHeader) (d : PATData)
    (hpf : pf < 256) (ht : h.tableID = 0) (hsl : h.sectionLength > 0) (hsh : SyntaxHeaderOk sh) (hd : PATOk d) :
    ∃ bs, writePSIData { pointerField := (pf : Int), sections := [mkPATSection crc h sh d] } = .ok bs ∧
      parsePSIData ⟨bs, 0⟩ = .ok ({ pointerField := (pf : Int), sections := [
        parsedSection (computeCRC32 (sectionPre (mkPATSection crc h sh d))).toNat
          { h with sectionLength := 9 + 4 * d.programs.length, tableType := "PAT" } sh
          { pat := some { programs := d.programs, transportStreamID := sh.tableIDExtension } }] }, ⟨bs, (bs.length : Int)⟩) :=
  psi_data_rt pf hpf _ _ (.cons (pat_section_rt crc h sh d ht hsl hsh hd) .nil)

/-- when the struct's `TransportStreamID` is the syntax header's `table_id_extension`, the PAT itself comes back -/
theorem pat_roundtrip_data (pf crc : Nat) (h : PSISectionHeader) (sh : PSISectionSyntaxHeader) (d : PATData)
    (hpf : pf < 256) (ht : h.tableID = 0) (hsl : h.sectionLength > 0) (hsh : SyntaxHeaderOk sh) (hd : PATOk d)
    (hext : sh.tableIDExtension = d.transportStreamID) :
    ∃ bs c, writePSIData { pointerField := (pf : Int), sections := [mkPATSection crc h sh d] } = .ok bs ∧
      parsePSIData ⟨bs, 0⟩ = .ok ({ pointerField := (pf : Int), sections := [
        parsedSection c { h with sectionLength := 9 + 4 * d.programs.length, tableType := "PAT" } sh { pat := some d }] },
        ⟨bs, (bs.length : Int)⟩) := by
  obtain ⟨bs, hw, hp⟩ := pat_roundtrip pf crc h sh d hpf ht hsl hsh hd
  refine ⟨bs, (computeCRC32 (sectionPre (mkPATSection crc h sh d))).toNat, hw, ?_⟩
  rw [hp, hext]

/-- **PMT round trip**, descriptors included, for descriptors that satisfy the round-trip hypothesis `DescOk`
(`parseDescriptor (writeDescriptor x) = x` wherever the bytes stand, and the bytes written are what the length
calculator announces): 13-bit PCR PID, 8-bit stream types, 13-bit elementary PIDs, the section fits 12 bits -/
theorem pmt_roundtrip (pf crc : Nat) (h : PSISectionHeader) (sh : PSISectionSyntaxHeader) (d : PMTData)
    (hpf : pf < 256) (ht : h.tableID = 2) (hsl : h.sectionLength > 0) (hsh : SyntaxHeaderOk sh) (hd : PMTOk d) :
    ∃ bs, writePSIData { pointerField := (pf : Int), sections := [mkPMTSection crc h sh d] } = .ok bs ∧
      parsePSIData ⟨bs, 0⟩ = .ok ({ pointerField := (pf : Int), sections := [
        parsedSection (computeCRC32 (sectionPre (mkPMTSection crc h sh d))).toNat
          { h with sectionLength := 9 + pmtBodySize d, tableType := "PMT" } sh
          { pmt := some { d with programNumber := sh.tableIDExtension } }] }, ⟨bs, (bs.length : Int)⟩) :=
  psi_data_rt pf hpf _ _ (.cons (pmt_section_rt crc h sh d ht hsl hsh hd) .nil)

/-- the length half of `DescOk` is C14's `length_matches`: a descriptor whose body has its computed length -/
theorem descOk_of_bodyFits (x : Descriptor) (rt : DescRT x) (hfit : C14.BodyFits x) : DescOk x :=
  ⟨rt, (C14.length_matches x hfit).1⟩

/-- a PMT without descriptors: no hypothesis about descriptors is left -/
structure PMTPlainOk (d : PMTData) : Prop where
  pcrPID : d.pcrPID < 8192
  noProgramDescriptors : d.programDescriptors = []
  streams : ∀ es ∈ d.elementaryStreams, es.streamType < 256 ∧ es.elementaryPID < 8192 ∧ es.elementaryStreamDescriptors = []
  fits : 13 + 5 * d.elementaryStreams.length < 4096

theorem PMTPlainOk.ok {d : PMTData} (p : PMTPlainOk d) : PMTOk d ∧ pmtBodySize d = 4 + 5 * d.elementaryStreams.length := by
  have hsum : (d.elementaryStreams.map fun es => 5 + descriptorsSize es.elementaryStreamDescriptors).sum = 5 * d.elementaryStreams.length := by
    have : ∀ l : List PMTElementaryStream, (∀ es ∈ l, es.elementaryStreamDescriptors = []) →
        (l.map fun es => 5 + descriptorsSize es.elementaryStreamDescriptors).sum = 5 * l.length := by
      intro l
      induction l with
      | nil => intro _; rfl
      | cons x r ih =>
        intro hl
        simp only [List.map_cons, List.sum_cons, List.length_cons, hl x (by simp), descriptorsSize,
          ih (fun e he => hl e (by simp [he]))]
        omega
    exact this _ (fun es hes => (p.streams es hes).2.2)
  have hsize : pmtBodySize d = 4 + 5 * d.elementaryStreams.length := by
    simp only [pmtBodySize, p.noProgramDescriptors, descriptorsSize, hsum]
  refine ⟨⟨p.pcrPID, ?_, ?_, ?_⟩, hsize⟩
  · rw [p.noProgramDescriptors]; intro x hx; cases hx
  · intro es hes
    obtain ⟨h1, h2, h3⟩ := p.streams es hes
    refine ⟨h1, h2, ?_, ?_⟩
    · rw [h3]; intro x hx; cases hx
    · rw [h3]; simp [descriptorsSize]
  · rw [hsize]; have := p.fits; omega

theorem pmt_roundtrip_plain (pf crc : Nat) (h : PSISectionHeader) (sh : PSISectionSyntaxHeader) (d : PMTData)
    (hpf : pf < 256) (ht : h.tableID = 2) (hsl : h.sectionLength > 0) (hsh : SyntaxHeaderOk sh) (hd : PMTPlainOk d) :
    ∃ bs, writePSIData { pointerField := (pf : Int), sections := [mkPMTSection crc h sh d] } = .ok bs ∧
      parsePSIData ⟨bs, 0⟩ = .ok ({ pointerField := (pf : Int), sections := [
        parsedSection (computeCRC32 (sectionPre (mkPMTSection crc h sh d))).toNat
          { h with sectionLength := 13 + 5 * d.elementaryStreams.length, tableType := "PMT" } sh
          { pmt := some { d with programNumber := sh.tableIDExtension } }] }, ⟨bs, (bs.length : Int)⟩) := by
  obtain ⟨bs, hw, hp⟩ := pmt_roundtrip pf crc h sh d hpf ht hsl hsh hd.ok.1
  refine ⟨bs, hw, ?_⟩
  rw [hp, hd.ok.2]
  have : 9 + (4 + 5 * d.elementaryStreams.length) = 13 + 5 * d.elementaryStreams.length := by omega
  rw [this]

/-- **any sequence of PAT and PMT sections** in one PSI unit: written and parsed back section by section -/
theorem psi_roundtrip (pf : Nat) (hpf : pf < 256) (ss ss' : List PSISection) (h : SectionsRT ss ss') :
    ∃ bs, writePSIData { pointerField := (pf : Int), sections := ss } = .ok bs ∧
      parsePSIData ⟨bs, 0⟩ = .ok ({ pointerField := (pf : Int), sections := ss' }, ⟨bs, (bs.length : Int)⟩) :=
  psi_data_rt pf hpf ss ss' h

/-! #### non-vacuity -/

/-- the muxer's own PAT (`tablePSI` as `generatePAT` builds it), any version -/
example (v : Nat) (hv : v < 32) : ∃ bs, writePSIData (tablePSI 0 (calcPATSectionLength patData) 0 v { pat := some patData }) = .ok bs ∧
    ∃ c hdr i, parsePSIData ⟨bs, 0⟩ = .ok ({ pointerField := 0, sections := [parsedSection c hdr
      { currentNextIndicator := true, tableIDExtension := 0, versionNumber := v } { pat := some patData }] }, i) := by
  have hsh : SyntaxHeaderOk { currentNextIndicator := true, tableIDExtension := 0, versionNumber := v } :=
    ⟨by simp, hv, by simp, by simp⟩
  have hd : PATOk patData := ⟨by decide, by decide⟩
  have hsl : ({ sectionLength := calcPATSectionLength patData, sectionSyntaxIndicator := true, tableID := 0 } : PSISectionHeader).sectionLength > 0 := by
    decide
  obtain ⟨bs, hw, hp⟩ := pat_roundtrip 0 0 _ _ patData (by decide) rfl hsl hsh hd
  exact ⟨bs, hw, _, _, _, hp⟩

/-- the muxer's own PMT (`tablePSI` as `generatePMT` builds it) for streams without descriptors -/
example (m : Mux) (v : Nat) (hv : v < 32) (hd : PMTPlainOk m.pmtData) :
    ∃ bs c hdr i, writePSIData (tablePSI 2 (calcPMTSectionLength m.pmtData) m.pmtData.programNumber v { pmt := some m.pmtData }) = .ok bs ∧
      parsePSIData ⟨bs, 0⟩ = .ok ({ pointerField := 0, sections := [parsedSection c hdr
        { currentNextIndicator := true, tableIDExtension := 1, versionNumber := v } { pmt := some m.pmtData }] }, i) := by
  have hsh : SyntaxHeaderOk { currentNextIndicator := true, tableIDExtension := 1, versionNumber := v } :=
    ⟨by simp, hv, by simp, by simp⟩
  have hsl : ({ sectionLength := calcPMTSectionLength m.pmtData, sectionSyntaxIndicator := true, tableID := 2 } : PSISectionHeader).sectionLength > 0 := by
    have h1 := calcPMT m.pmtData hd.ok.1
    have h2 := hd.ok.1.fits
    have h3 : calcPSISectionLength 2 { pmt := some m.pmtData } = (5 + calcPMTSectionLength m.pmtData + 4) % 65536 := by
      simp [calcPSISectionLength, hasPSISyntaxHeader, hasCRC32]
    have h4 : calcPMTSectionLength m.pmtData < 65536 := by unfold calcPMTSectionLength; omega
    have h5 : pmtBodySize m.pmtData ≥ 4 := by unfold pmtBodySize; omega
    show calcPMTSectionLength m.pmtData > 0
    omega
  obtain ⟨bs, hw, hp⟩ := pmt_roundtrip 0 0 _ _ m.pmtData (by decide) rfl hsl hsh hd.ok.1
  exact ⟨bs, _, _, _, hw, hp⟩

def exPAT : PATData :=
  { programs := [{ programMapID := 0x1000, programNumber := 1 }, { programMapID := 0x1fff, programNumber := 65535 }], transportStreamID := 7 }

example : PATOk exPAT := ⟨by decide, by decide⟩

def exPMT : PMTData :=
  { elementaryStreams := [{ elementaryPID := 0x100, streamType := 0x1b, elementaryStreamDescriptors := [userDescriptor 0x90 [1, 2, 3]] }, { elementaryPID := 0x101, streamType := 0x0f }], pcrPID := 0x100, programDescriptors := [userDescriptor 0x80 []], programNumber := 1 }

/-- a PMT with a program descriptor and a stream descriptor (user-defined tags) satisfies the hypotheses -/
example : PMTOk exPMT := by
  have d1 := userDescriptor_ok 0x90 [1, 2, 3] (by decide) (by decide)
  have d2 := userDescriptor_ok 0x80 [] (by decide) (by decide)
  refine ⟨by decide, ?_, ?_, by decide⟩
  · intro x hx; simp [exPMT] at hx; subst hx; exact d2
  · intro es hes
    simp [exPMT] at hes
    rcases hes with rfl | rfl
    · refine ⟨by decide, by decide, ?_, by decide⟩
      intro x hx; simp at hx; subst hx; exact d1
    · refine ⟨by decide, by decide, ?_, by decide⟩
      intro x hx; cases hx

def exPMTPlain : PMTData :=
  { elementaryStreams := [{ elementaryPID := 0x100, streamType := 0x1b }, { elementaryPID := 0x101, streamType := 0x0f }], pcrPID := 0x100, programNumber := 1 }

example : PMTPlainOk exPMTPlain := ⟨by decide, rfl, by decide, by decide⟩

example : SyntaxHeaderOk { currentNextIndicator := true, tableIDExtension := 1, versionNumber := 31, sectionNumber := 0, lastSectionNumber := 255 } :=
  ⟨by decide, by decide, by decide, by decide⟩

/-! ## PMT round trip with typed descriptors: `DescOk` discharged (C14 `desc_ok_typed`, helpers in `Proofs/DescRT/`) -/

section TypedDescriptors
open Astits.DescRT

/-- a PMT whose descriptors — program level and per elementary stream — are well-formed typed descriptors
(`C14.TypedWF`) or user-defined ones (`C14.DescWF`): no round-trip hypothesis is left, only field ranges -/
structure PMTTypedOk (d : PMTData) : Prop where
  pcrPID : d.pcrPID < 8192
  descs : ∀ x ∈ d.programDescriptors, C14.DescWF x
  streams : ∀ es ∈ d.elementaryStreams, es.streamType < 256 ∧ es.elementaryPID < 8192 ∧
    (∀ x ∈ es.elementaryStreamDescriptors, C14.DescWF x) ∧ descriptorsSize es.elementaryStreamDescriptors < 4096
  fits : 9 + pmtBodySize d < 4096

theorem PMTTypedOk.ok {d : PMTData} (p : PMTTypedOk d) : PMTOk d :=
  ⟨p.pcrPID, fun x hx => C14.desc_ok_wf x (p.descs x hx),
    fun es hes =>
      let ⟨h1, h2, h3, h4⟩ := p.streams es hes
      ⟨h1, h2, fun x hx => C14.desc_ok_wf x (h3 x hx), h4⟩,
    p.fits⟩

/-- **PMT round trip, typed descriptors included**: `pmt_roundtrip` with the per-descriptor hypothesis `DescOk`
discharged for every typed kind (AC-3, AVC video, component, content, data stream alignment, enhanced AC-3, extended
event, extension, ISO 639 language, local time offset, maximum bitrate, network name, parental rating, private data
indicator / specifier, registration, service, short event, stream identifier, subtitling, teletext, VBI data, VBI
teletext, unknown tag) and for user-defined descriptors -/
theorem pmt_roundtrip_typed (pf crc : Nat) (h : PSISectionHeader) (sh : PSISectionSyntaxHeader) (d : PMTData)
    (hpf : pf < 256) (ht : h.tableID = 2) (hsl : h.sectionLength > 0) (hsh : SyntaxHeaderOk sh) (hd : PMTTypedOk d) :
    ∃ bs, writePSIData { pointerField := (pf : Int), sections := [mkPMTSection crc h sh d] } = .ok bs ∧
      parsePSIData ⟨bs, 0⟩ = .ok ({ pointerField := (pf : Int), sections := [
        parsedSection (computeCRC32 (sectionPre (mkPMTSection crc h sh d))).toNat
          { h with sectionLength := 9 + pmtBodySize d, tableType := "PMT" } sh
          { pmt := some { d with programNumber := sh.tableIDExtension } }] }, ⟨bs, (bs.length : Int)⟩) :=
  pmt_roundtrip pf crc h sh d hpf ht hsl hsh hd.ok

/-- when the struct's `ProgramNumber` is the syntax header's `table_id_extension`, the PMT data itself comes back -/
theorem pmt_roundtrip_typed_data (pf crc : Nat) (h : PSISectionHeader) (sh : PSISectionSyntaxHeader) (d : PMTData)
    (hpf : pf < 256) (ht : h.tableID = 2) (hsl : h.sectionLength > 0) (hsh : SyntaxHeaderOk sh) (hd : PMTTypedOk d)
    (hext : sh.tableIDExtension = d.programNumber) :
    ∃ bs c, writePSIData { pointerField := (pf : Int), sections := [mkPMTSection crc h sh d] } = .ok bs ∧
      parsePSIData ⟨bs, 0⟩ = .ok ({ pointerField := (pf : Int), sections := [
        parsedSection c { h with sectionLength := 9 + pmtBodySize d, tableType := "PMT" } sh { pmt := some d }] },
        ⟨bs, (bs.length : Int)⟩) := by
  obtain ⟨bs, hw, hp⟩ := pmt_roundtrip_typed pf crc h sh d hpf ht hsl hsh hd
  refine ⟨bs, (computeCRC32 (sectionPre (mkPMTSection crc h sh d))).toNat, hw, ?_⟩
  rw [hp, hext]

/-- a realistic PMT: a registration descriptor at program level; an H.264 stream with an AVC video and a stream
identifier descriptor; an AC-3 stream with a language, an AC-3 and a user-defined descriptor; a DVB subtitle stream -/
def exPMTTyped : PMTData :=
  { pcrPID := 0x100, programNumber := 1
    programDescriptors := [ofRegistration { formatIdentifier := 0x48444d56 }]
    elementaryStreams := [
      { elementaryPID := 0x100, streamType := 0x1b,
        elementaryStreamDescriptors := [ofAVCVideo { profileIDC := 100, levelIDC := 40, constraintSet1Flag := true },
          ofStreamIdentifier { componentTag := 1 }] },
      { elementaryPID := 0x101, streamType := 0x06,
        elementaryStreamDescriptors := [ofISO639 { language := [0x66, 0x72, 0x61], type := 0 },
          ofAC3 { hasComponentType := true, componentType := 0x42 }, userDescriptor 0x90 [1, 2, 3]] },
      { elementaryPID := 0x102, streamType := 0x06,
        elementaryStreamDescriptors := [ofSubtitling { items := [{ language := [0x66, 0x72, 0x61], type := 0x10, compositionPageID := 1, ancillaryPageID := 1 }] }] }] }

example : PMTTypedOk exPMTTyped := by
  refine ⟨by decide, ?_, ?_, by decide⟩
  · intro x hx
    simp [exPMTTyped] at hx; subst hx
    exact .typed _ (.registration _ ⟨by decide, by decide⟩)
  · intro es hes
    simp [exPMTTyped] at hes
    rcases hes with rfl | rfl | rfl
    · refine ⟨by decide, by decide, ?_, by decide⟩
      intro x hx; simp at hx
      rcases hx with rfl | rfl
      · exact .typed _ (.avc_video _ ⟨by decide, by decide, by decide⟩)
      · exact .typed _ (.stream_identifier _ ⟨by decide⟩)
    · refine ⟨by decide, by decide, ?_, by decide⟩
      intro x hx; simp at hx
      rcases hx with rfl | rfl | rfl
      · exact .typed _ (.iso639_language_and_audio_type _ ⟨by decide, by decide⟩)
      · exact .typed _ (.ac3 _ ⟨by decide, by decide, by decide, by decide, by decide⟩)
      · exact .user 0x90 [1, 2, 3] (by decide) (by decide)
    · refine ⟨by decide, by decide, ?_, by decide⟩
      intro x hx; simp at hx; subst hx
      refine .typed _ (.subtitling _ ⟨?_, by decide, by decide⟩)
      intro a ha; simp at ha; subst ha
      exact ⟨by decide, by decide, by decide, by decide⟩

end TypedDescriptors

end Astits.C13
