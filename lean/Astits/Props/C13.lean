/-
C13 — PSI/SI tables are decoded field for field; PAT and PMT are encoded exactly.
-/
import Astits.Model.PSI
import Astits.Props.C14
import Astits.Proofs.Layout
namespace Astits.C13

/-- one PAT entry: 16-bit program_number, 3 reserved bits, 13-bit PID — all values round-trip -/
theorem pat_entry_roundtrip (pn pid : Nat) (h1 : pn < 65536) (h2 : pid < 8192) :
    let bs := packFields [(pn, 16), (7, 3), (pid, 13)]
    bs.length = 4 ∧ u16 bs = pn ∧ (bs.getD 2 0 % 32) * 256 + bs.getD 3 0 = pid := by
  simp only [packFields, fieldsWidth, fieldsValue, beBytes, u16, List.getD_cons_zero, List.getD_cons_succ, List.length_cons, List.length_nil]
  simp only [Nat.reducePow, Nat.reduceAdd, Nat.reduceDiv, Nat.pow_zero, Nat.div_one, Nat.pow_one]
  refine ⟨trivial, ?_, ?_⟩ <;> omega

/-- the PAT body has the length the section header announces (4 bytes per program) -/
theorem pat_body_length (d : PATData) (h : d.programs.length < 16384) :
    (patSectionBytes d).length = calcPATSectionLength d := by
  unfold patSectionBytes calcPATSectionLength
  have : ∀ l : List PATProgram, ((l.map fun p => packFields [(p.programNumber, 16), (7, 3), (p.programMapID, 13)]).flatten).length = 4 * l.length := by
    intro l
    induction l with
    | nil => rfl
    | cons p r ih =>
      simp only [List.map_cons, List.flatten_cons, List.length_append, ih, List.length_cons]
      have : (packFields [(p.programNumber, 16), (7, 3), (p.programMapID, 13)]).length = 4 := by
        simp [packFields, fieldsWidth, beBytes]
      omega
  rw [this, Nat.mod_eq_of_lt (by omega)]

/-- the five bytes of the section syntax header: table_id_extension, version, current/next, section numbers -/
theorem syntax_header_roundtrip (h : PSISectionSyntaxHeader) (h1 : h.tableIDExtension < 65536) (h2 : h.versionNumber < 32)
    (h3 : h.sectionNumber < 256) (h4 : h.lastSectionNumber < 256) :
    let bs := syntaxHeaderBytes h
    bs.length = 5 ∧ u16 bs = h.tableIDExtension ∧ bs.getD 2 0 % 64 / 2 = h.versionNumber ∧
    decide (bs.getD 2 0 % 2 = 1) = h.currentNextIndicator ∧ bs.getD 3 0 = h.sectionNumber ∧ bs.getD 4 0 = h.lastSectionNumber := by
  obtain ⟨cni, lsn, sn, ext, v⟩ := h
  simp only at h1 h2 h3 h4
  simp only [syntaxHeaderBytes, packFields, fieldsWidth, fieldsValue, beBytes, u16, List.getD_cons_zero, List.getD_cons_succ,
    List.length_cons, List.length_nil]
  simp only [Nat.reducePow, Nat.reduceAdd, Nat.reduceDiv, Nat.pow_zero, Nat.div_one, Nat.pow_one]
  have hb := b2n_le cni
  refine ⟨trivial, ?_, ?_, ?_, ?_, ?_⟩
  · omega
  · omega
  · have : (((((((0 * 65536 + ext % 65536) * 4 + 3 % 4) * 32 + v % 32) * 2 + b2n cni % 2) * 256 + sn % 256) * 256 + lsn % 256) / 65536 % 256 % 2) = b2n cni := by omega
    rw [this]; exact decide_b2n cni
  · omega
  · omega

/-- the PMT body has the length the section header announces, when every descriptor body has its computed length and
the whole fits the 12-bit loop lengths -/
theorem pmt_es_entry_length (es : PMTElementaryStream) (h : ∀ d ∈ es.elementaryStreamDescriptors, C14.BodyFits d)
    (hfit : descriptorsSize es.elementaryStreamDescriptors < 4096) :
    (packFields [(es.streamType, 8), (7, 3), (es.elementaryPID, 13)] ++ writeDescriptorsWithLength es.elementaryStreamDescriptors).length
      = 5 + calcDescriptorsLength es.elementaryStreamDescriptors := by
  have := (C14.loop_length_matches _ h hfit).1
  have hp : (packFields [(es.streamType, 8), (7, 3), (es.elementaryPID, 13)]).length = 3 := by simp [packFields, fieldsWidth, beBytes]
  simp only [List.length_append, hp, this, calcDescriptorsLength]
  rw [Nat.mod_eq_of_lt (by omega)]
  omega

example : packFields [(1, 16), (7, 3), (0x1000, 13)] = [0, 1, 0xf0, 0] := by decide

end Astits.C13
