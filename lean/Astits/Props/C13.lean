/-
C13 — PSI/SI tables are decoded field for field; PAT and PMT are encoded exactly.
-/
import Astits.Model.PSI
import Astits.Model.Mux
import Astits.Props.C14
import Astits.Proofs.Layout
import Astits.Proofs.PSIRT
import Astits.Proofs.SIRT
import Astits.Proofs.SpecEq.PSI
namespace Astits.C13

/-- one PAT entry: 16-bit program_number, 3 reserved bits, 13-bit PID — all values round-trip -/
theorem pat_entry_roundtrip (pn pid : Nat) (h1 : pn < 65536) (h2 : pid < 8192) :
    let bs := packFields [(pn, 16), (7, 3), (pid, 13)]
    bs.length = 4 ∧ u16 bs = pn ∧ (bs.getD 2 0 % 32) * 256 + bs.getD 3 0 = pid := by
  simp only [packFields, fieldsWidth, fieldsValue, beBytes, u16, List.getD_cons_zero, List.getD_cons_succ, List.length_cons, List.length_nil]
  simp only [Nat.reducePow, Nat.reduceAdd, Nat.reduceDiv, Nat.pow_zero, Nat.div_one, Nat.pow_one]
  refine ⟨trivial, ?_, ?_⟩ <;> omega

/-- the PAT body has the length the section header announces (4 bytes per program) -/
theorem pat_body_length (d : PATData) (h : d.programs.length < 16384) :
    (patSectionBytes d).length = calcPATSectionLength d := by
  unfold patSectionBytes calcPATSectionLength
  have : ∀ l : List PATProgram, ((l.map fun p => packFields [(p.programNumber, 16), (7, 3), (p.programMapID, 13)]).flatten).length = 4 * l.length := by
    intro l
    induction l with
    | nil => rfl
    | cons p r ih =>
      simp only [List.map_cons, List.flatten_cons, List.length_append, ih, List.length_cons]
      have : (packFields [(p.programNumber, 16), (7, 3), (p.programMapID, 13)]).length = 4 := by
        simp [packFields, fieldsWidth, beBytes]
      omega
  rw [this, Nat.mod_eq_of_lt (by omega)]

/-- the five bytes of the section syntax header: table_id_extension, version, current/next, section numbers -/
theorem syntax_header_roundtrip (h : PSISectionSyntaxHeader) (h1 : h.tableIDExtension < 65536) (h2 : h.versionNumber < 32)
    (h3 : h.sectionNumber < 256) (h4 : h.lastSectionNumber < 256) :
    let bs := syntaxHeaderBytes h
    bs.length = 5 ∧ u16 bs = h.tableIDExtension ∧ bs.getD 2 0 % 64 / 2 = h.versionNumber ∧
    decide (bs.getD 2 0 % 2 = 1) = h.currentNextIndicator ∧ bs.getD 3 0 = h.sectionNumber ∧ bs.getD 4 0 = h.lastSectionNumber := by
  obtain ⟨cni, lsn, sn, ext, v⟩ := h
  simp only at h1 h2 h3 h4
  simp only [syntaxHeaderBytes, packFields, fieldsWidth, fieldsValue, beBytes, u16, List.getD_cons_zero, List.getD_cons_succ,
    List.length_cons, List.length_nil]
  simp only [Nat.reducePow, Nat.reduceAdd, Nat.reduceDiv, Nat.pow_zero, Nat.div_one, Nat.pow_one]
  have hb := b2n_le cni
  refine ⟨trivial, ?_, ?_, ?_, ?_, ?_⟩
  · omega
  · omega
  · have : (((((((0 * 65536 + ext % 65536) * 4 + 3 % 4) * 32 + v % 32) * 2 + b2n cni % 2) * 256 + sn % 256) * 256 + lsn % 256) / 65536 % 256 % 2) = b2n cni := by omega
    rw [this]; exact decide_b2n cni
  · omega
  · omega

/-- the PMT body has the length the section header announces, when every descriptor body has its computed length and
the whole fits the 12-bit loop lengths -/
theorem pmt_es_entry_length (es : PMTElementaryStream) (h : ∀ d ∈ es.elementaryStreamDescriptors, C14.BodyFits d)
    (hfit : descriptorsSize es.elementaryStreamDescriptors < 4096) :
    (packFields [(es.streamType, 8), (7, 3), (es.elementaryPID, 13)] ++ writeDescriptorsWithLength es.elementaryStreamDescriptors).length
      = 5 + calcDescriptorsLength es.elementaryStreamDescriptors := by
  have := (C14.loop_length_matches _ h hfit).1
  have hp : (packFields [(es.streamType, 8), (7, 3), (es.elementaryPID, 13)]).length = 3 := by simp [packFields, fieldsWidth, beBytes]
  simp only [List.length_append, hp, this, calcDescriptorsLength]
  rw [Nat.mod_eq_of_lt (by omega)]
  omega

example : packFields [(1, 16), (7, 3), (0x1000, 13)] = [0, 1, 0xf0, 0] := by decide

open Astits.PSIRT

/-! ## Whole-structure round trips (helpers in `Proofs/PSIRT.lean`, namespace `Astits.PSIRT`)

`mkPATSection crc h sh d` / `mkPMTSection crc h sh d` are the sections the writer accepts (`crc` is the ignored `CRC32`
field of the input).  What `parsePSIData` returns for the written bytes is the same section up to the fields the
parser recomputes:
* `Header.SectionLength` = number of bytes that follow the field, `Header.TableType` = the name of the table id;
* `CRC32` = `computeCRC32` of all section bytes that precede the CRC field (`sectionPre`);
* `PATData.TransportStreamID` / `PMTData.ProgramNumber` = the `table_id_extension` of the syntax header (the writer
  does not emit the struct field at all: it is equal exactly when the caller kept the two in sync, as the muxer does).
-/

/-- the bytes before the CRC field: a written PAT/PMT section is `sectionPre s ++ be32 (computeCRC32 (sectionPre s))` -/
theorem sectionPre_spec (s : PSISection) (sec : Bytes) (h : writePSISection s = .ok sec)
    (hl : (s.header.getD {}).sectionLength > 0) :
    sec = sectionPre s ++ be32 (computeCRC32 (sectionPre s)) := by
  have hp : sectionPre s = sec.take (sec.length - 4) := by unfold sectionPre; rw [h]
  unfold writePSISection at h
  split at h
  · cases h
  · rename_i hd heq
    split at h
    · cases h
    · split at h
      · cases h
      · split at h
        · split at h
          · cases h
          · simp only [heq, Option.getD_some] at hl
            simp only [hl, if_true, Res.ok.injEq] at h
            rw [hp, ← h, take_pre_crc]
        · cases h

/-- **PAT round trip**: any PAT (any number of programs that fits the 12-bit section_length, 16-bit program numbers,
13-bit PIDs, 16-bit transport_stream_id, 5-bit version, 8-bit section numbers, any flags) behind any pointer field,
written by `writePSIData` and parsed by `parsePSIData`, comes back; the whole slice is consumed -/
theorem pat_roundtrip (pf crc : Nat) (h : PSISectionHeader) (sh : PSISectionSyntaxHeader) (d : PATData)
    (hpf : pf < 256) (ht : h.tableID = 0) (hsl : h.sectionLength > 0) (hsh : SyntaxHeaderOk sh) (hd : PATOk d) :
    ∃ bs, writePSIData { pointerField := (pf : Int), sections := [mkPATSection crc h sh d] } = .ok bs ∧
      parsePSIData ⟨bs, 0⟩ = .ok ({ pointerField := (pf : Int), sections := [
        parsedSection (computeCRC32 (sectionPre (mkPATSection crc h sh d))).toNat
          { h with sectionLength := 9 + 4 * d.programs.length, tableType := "PAT" } sh
          { pat := some { programs := d.programs, transportStreamID := sh.tableIDExtension } }] }, ⟨bs, (bs.length : Int)⟩) :=
  psi_data_rt pf hpf _ _ (.cons (pat_section_rt crc h sh d ht hsl hsh hd) .nil)

/-- when the struct's `TransportStreamID` is the syntax header's `table_id_extension`, the PAT itself comes back -/
theorem pat_roundtrip_data (pf crc : Nat) (h : PSISectionHeader) (sh : PSISectionSyntaxHeader) (d : PATData)
    (hpf : pf < 256) (ht : h.tableID = 0) (hsl : h.sectionLength > 0) (hsh : SyntaxHeaderOk sh) (hd : PATOk d)
    (hext : sh.tableIDExtension = d.transportStreamID) :
    ∃ bs c, writePSIData { pointerField := (pf : Int), sections := [mkPATSection crc h sh d] } = .ok bs ∧
      parsePSIData ⟨bs, 0⟩ = .ok ({ pointerField := (pf : Int), sections := [
        parsedSection c { h with sectionLength := 9 + 4 * d.programs.length, tableType := "PAT" } sh { pat := some d }] },
        ⟨bs, (bs.length : Int)⟩) := by
  obtain ⟨bs, hw, hp⟩ := pat_roundtrip pf crc h sh d hpf ht hsl hsh hd
  refine ⟨bs, (computeCRC32 (sectionPre (mkPATSection crc h sh d))).toNat, hw, ?_⟩
  rw [hp, hext]

/-- **PMT round trip**, descriptors included, for descriptors that satisfy the round-trip hypothesis `DescOk`
(`parseDescriptor (writeDescriptor x) = x` wherever the bytes stand, and the bytes written are what the length
calculator announces): 13-bit PCR PID, 8-bit stream types, 13-bit elementary PIDs, the section fits 12 bits -/
theorem pmt_roundtrip (pf crc : Nat) (h : PSISectionHeader) (sh : PSISectionSyntaxHeader) (d : PMTData)
    (hpf : pf < 256) (ht : h.tableID = 2) (hsl : h.sectionLength > 0) (hsh : SyntaxHeaderOk sh) (hd : PMTOk d) :
    ∃ bs, writePSIData { pointerField := (pf : Int), sections := [mkPMTSection crc h sh d] } = .ok bs ∧
      parsePSIData ⟨bs, 0⟩ = .ok ({ pointerField := (pf : Int), sections := [
        parsedSection (computeCRC32 (sectionPre (mkPMTSection crc h sh d))).toNat
          { h with sectionLength := 9 + pmtBodySize d, tableType := "PMT" } sh
          { pmt := some { d with programNumber := sh.tableIDExtension } }] }, ⟨bs, (bs.length : Int)⟩) :=
  psi_data_rt pf hpf _ _ (.cons (pmt_section_rt crc h sh d ht hsl hsh hd) .nil)

/-- the length half of `DescOk` is C14's `length_matches`: a descriptor whose body has its computed length -/
theorem descOk_of_bodyFits (x : Descriptor) (rt : DescRT x) (hfit : C14.BodyFits x) : DescOk x :=
  ⟨rt, (C14.length_matches x hfit).1⟩

/-- a PMT without descriptors: no hypothesis about descriptors is left -/
structure PMTPlainOk (d : PMTData) : Prop where
  pcrPID : d.pcrPID < 8192
  noProgramDescriptors : d.programDescriptors = []
  streams : ∀ es ∈ d.elementaryStreams, es.streamType < 256 ∧ es.elementaryPID < 8192 ∧ es.elementaryStreamDescriptors = []
  fits : 13 + 5 * d.elementaryStreams.length < 4096

theorem PMTPlainOk.ok {d : PMTData} (p : PMTPlainOk d) : PMTOk d ∧ pmtBodySize d = 4 + 5 * d.elementaryStreams.length := by
  have hsum : (d.elementaryStreams.map fun es => 5 + descriptorsSize es.elementaryStreamDescriptors).sum = 5 * d.elementaryStreams.length := by
    have : ∀ l : List PMTElementaryStream, (∀ es ∈ l, es.elementaryStreamDescriptors = []) →
        (l.map fun es => 5 + descriptorsSize es.elementaryStreamDescriptors).sum = 5 * l.length := by
      intro l
      induction l with
      | nil => intro _; rfl
      | cons x r ih =>
        intro hl
        simp only [List.map_cons, List.sum_cons, List.length_cons, hl x (by simp), descriptorsSize,
          ih (fun e he => hl e (by simp [he]))]
        omega
    exact this _ (fun es hes => (p.streams es hes).2.2)
  have hsize : pmtBodySize d = 4 + 5 * d.elementaryStreams.length := by
    simp only [pmtBodySize, p.noProgramDescriptors, descriptorsSize, hsum]
  refine ⟨⟨p.pcrPID, ?_, ?_, ?_⟩, hsize⟩
  · rw [p.noProgramDescriptors]; intro x hx; cases hx
  · intro es hes
    obtain ⟨h1, h2, h3⟩ := p.streams es hes
    refine ⟨h1, h2, ?_, ?_⟩
    · rw [h3]; intro x hx; cases hx
    · rw [h3]; simp [descriptorsSize]
  · rw [hsize]; have := p.fits; omega

theorem pmt_roundtrip_plain (pf crc : Nat) (h : PSISectionHeader) (sh : PSISectionSyntaxHeader) (d : PMTData)
    (hpf : pf < 256) (ht : h.tableID = 2) (hsl : h.sectionLength > 0) (hsh : SyntaxHeaderOk sh) (hd : PMTPlainOk d) :
    ∃ bs, writePSIData { pointerField := (pf : Int), sections := [mkPMTSection crc h sh d] } = .ok bs ∧
      parsePSIData ⟨bs, 0⟩ = .ok ({ pointerField := (pf : Int), sections := [
        parsedSection (computeCRC32 (sectionPre (mkPMTSection crc h sh d))).toNat
          { h with sectionLength := 13 + 5 * d.elementaryStreams.length, tableType := "PMT" } sh
          { pmt := some { d with programNumber := sh.tableIDExtension } }] }, ⟨bs, (bs.length : Int)⟩) := by
  obtain ⟨bs, hw, hp⟩ := pmt_roundtrip pf crc h sh d hpf ht hsl hsh hd.ok.1
  refine ⟨bs, hw, ?_⟩
  rw [hp, hd.ok.2]
  have : 9 + (4 + 5 * d.elementaryStreams.length) = 13 + 5 * d.elementaryStreams.length := by omega
  rw [this]

/-- **any sequence of PAT and PMT sections** in one PSI unit: written and parsed back section by section -/
theorem psi_roundtrip (pf : Nat) (hpf : pf < 256) (ss ss' : List PSISection) (h : SectionsRT ss ss') :
    ∃ bs, writePSIData { pointerField := (pf : Int), sections := ss } = .ok bs ∧
      parsePSIData ⟨bs, 0⟩ = .ok ({ pointerField := (pf : Int), sections := ss' }, ⟨bs, (bs.length : Int)⟩) :=
  psi_data_rt pf hpf ss ss' h

/-! #### non-vacuity -/

/-- the muxer's own PAT (`tablePSI` as `generatePAT` builds it), any version -/
example (v : Nat) (hv : v < 32) : ∃ bs, writePSIData (tablePSI 0 (calcPATSectionLength patData) 0 v { pat := some patData }) = .ok bs ∧
    ∃ c hdr i, parsePSIData ⟨bs, 0⟩ = .ok ({ pointerField := 0, sections := [parsedSection c hdr
      { currentNextIndicator := true, tableIDExtension := 0, versionNumber := v } { pat := some patData }] }, i) := by
  have hsh : SyntaxHeaderOk { currentNextIndicator := true, tableIDExtension := 0, versionNumber := v } :=
    ⟨by simp, hv, by simp, by simp⟩
  have hd : PATOk patData := ⟨by decide, by decide⟩
  have hsl : ({ sectionLength := calcPATSectionLength patData, sectionSyntaxIndicator := true, tableID := 0 } : PSISectionHeader).sectionLength > 0 := by
    decide
  obtain ⟨bs, hw, hp⟩ := pat_roundtrip 0 0 _ _ patData (by decide) rfl hsl hsh hd
  exact ⟨bs, hw, _, _, _, hp⟩

/-- the muxer's own PMT (`tablePSI` as `generatePMT` builds it) for streams without descriptors -/
example (m : Mux) (v : Nat) (hv : v < 32) (hd : PMTPlainOk m.pmtData) :
    ∃ bs c hdr i, writePSIData (tablePSI 2 (calcPMTSectionLength m.pmtData) m.pmtData.programNumber v { pmt := some m.pmtData }) = .ok bs ∧
      parsePSIData ⟨bs, 0⟩ = .ok ({ pointerField := 0, sections := [parsedSection c hdr
        { currentNextIndicator := true, tableIDExtension := 1, versionNumber := v } { pmt := some m.pmtData }] }, i) := by
  have hsh : SyntaxHeaderOk { currentNextIndicator := true, tableIDExtension := 1, versionNumber := v } :=
    ⟨by simp, hv, by simp, by simp⟩
  have hsl : ({ sectionLength := calcPMTSectionLength m.pmtData, sectionSyntaxIndicator := true, tableID := 2 } : PSISectionHeader).sectionLength > 0 := by
    have h1 := calcPMT m.pmtData hd.ok.1
    have h2 := hd.ok.1.fits
    have h3 : calcPSISectionLength 2 { pmt := some m.pmtData } = (5 + calcPMTSectionLength m.pmtData + 4) % 65536 := by
      simp [calcPSISectionLength, hasPSISyntaxHeader, hasCRC32]
    have h4 : calcPMTSectionLength m.pmtData < 65536 := by unfold calcPMTSectionLength; omega
    have h5 : pmtBodySize m.pmtData ≥ 4 := by unfold pmtBodySize; omega
    show calcPMTSectionLength m.pmtData > 0
    omega
  obtain ⟨bs, hw, hp⟩ := pmt_roundtrip 0 0 _ _ m.pmtData (by decide) rfl hsl hsh hd.ok.1
  exact ⟨bs, _, _, _, hw, hp⟩

def exPAT : PATData :=
  { programs := [{ programMapID := 0x1000, programNumber := 1 }, { programMapID := 0x1fff, programNumber := 65535 }], transportStreamID := 7 }

example : PATOk exPAT := ⟨by decide, by decide⟩

def exPMT : PMTData :=
  { elementaryStreams := [{ elementaryPID := 0x100, streamType := 0x1b, elementaryStreamDescriptors := [userDescriptor 0x90 [1, 2, 3]] }, { elementaryPID := 0x101, streamType := 0x0f }], pcrPID := 0x100, programDescriptors := [userDescriptor 0x80 []], programNumber := 1 }

/-- a PMT with a program descriptor and a stream descriptor (user-defined tags) satisfies the hypotheses -/
example : PMTOk exPMT := by
  have d1 := userDescriptor_ok 0x90 [1, 2, 3] (by decide) (by decide)
  have d2 := userDescriptor_ok 0x80 [] (by decide) (by decide)
  refine ⟨by decide, ?_, ?_, by decide⟩
  · intro x hx; simp [exPMT] at hx; subst hx; exact d2
  · intro es hes
    simp [exPMT] at hes
    rcases hes with rfl | rfl
    · refine ⟨by decide, by decide, ?_, by decide⟩
      intro x hx; simp at hx; subst hx; exact d1
    · refine ⟨by decide, by decide, ?_, by decide⟩
      intro x hx; cases hx

def exPMTPlain : PMTData :=
  { elementaryStreams := [{ elementaryPID := 0x100, streamType := 0x1b }, { elementaryPID := 0x101, streamType := 0x0f }], pcrPID := 0x100, programNumber := 1 }

example : PMTPlainOk exPMTPlain := ⟨by decide, rfl, by decide, by decide⟩

example : SyntaxHeaderOk { currentNextIndicator := true, tableIDExtension := 1, versionNumber := 31, sectionNumber := 0, lastSectionNumber := 255 } :=
  ⟨by decide, by decide, by decide, by decide⟩

/-! ## PMT round trip with typed descriptors: `DescOk` discharged (C14 `desc_ok_typed`, helpers in `Proofs/DescRT/`) -/

section TypedDescriptors
open Astits.DescRT

/-- a PMT whose descriptors — program level and per elementary stream — are well-formed typed descriptors
(`C14.TypedWF`) or user-defined ones (`C14.DescWF`): no round-trip hypothesis is left, only field ranges -/
structure PMTTypedOk (d : PMTData) : Prop where
  pcrPID : d.pcrPID < 8192
  descs : ∀ x ∈ d.programDescriptors, C14.DescWF x
  streams : ∀ es ∈ d.elementaryStreams, es.streamType < 256 ∧ es.elementaryPID < 8192 ∧
    (∀ x ∈ es.elementaryStreamDescriptors, C14.DescWF x) ∧ descriptorsSize es.elementaryStreamDescriptors < 4096
  fits : 9 + pmtBodySize d < 4096

theorem PMTTypedOk.ok {d : PMTData} (p : PMTTypedOk d) : PMTOk d :=
  ⟨p.pcrPID, fun x hx => C14.desc_ok_wf x (p.descs x hx),
    fun es hes =>
      let ⟨h1, h2, h3, h4⟩ := p.streams es hes
      ⟨h1, h2, fun x hx => C14.desc_ok_wf x (h3 x hx), h4⟩,
    p.fits⟩

/-- **PMT round trip, typed descriptors included**: `pmt_roundtrip` with the per-descriptor hypothesis `DescOk`
discharged for every typed kind (AC-3, AVC video, component, content, data stream alignment, enhanced AC-3, extended
event, extension, ISO 639 language, local time offset, maximum bitrate, network name, parental rating, private data
indicator / specifier, registration, service, short event, stream identifier, subtitling, teletext, VBI data, VBI
teletext, unknown tag) and for user-defined descriptors -/
theorem pmt_roundtrip_typed (pf crc : Nat) (h : PSISectionHeader) (sh : PSISectionSyntaxHeader) (d : PMTData)
    (hpf : pf < 256) (ht : h.tableID = 2) (hsl : h.sectionLength > 0) (hsh : SyntaxHeaderOk sh) (hd : PMTTypedOk d) :
    ∃ bs, writePSIData { pointerField := (pf : Int), sections := [mkPMTSection crc h sh d] } = .ok bs ∧
      parsePSIData ⟨bs, 0⟩ = .ok ({ pointerField := (pf : Int), sections := [
        parsedSection (computeCRC32 (sectionPre (mkPMTSection crc h sh d))).toNat
          { h with sectionLength := 9 + pmtBodySize d, tableType := "PMT" } sh
          { pmt := some { d with programNumber := sh.tableIDExtension } }] }, ⟨bs, (bs.length : Int)⟩) :=
  pmt_roundtrip pf crc h sh d hpf ht hsl hsh hd.ok

/-- when the struct's `ProgramNumber` is the syntax header's `table_id_extension`, the PMT data itself comes back -/
theorem pmt_roundtrip_typed_data (pf crc : Nat) (h : PSISectionHeader) (sh : PSISectionSyntaxHeader) (d : PMTData)
    (hpf : pf < 256) (ht : h.tableID = 2) (hsl : h.sectionLength > 0) (hsh : SyntaxHeaderOk sh) (hd : PMTTypedOk d)
    (hext : sh.tableIDExtension = d.programNumber) :
    ∃ bs c, writePSIData { pointerField := (pf : Int), sections := [mkPMTSection crc h sh d] } = .ok bs ∧
      parsePSIData ⟨bs, 0⟩ = .ok ({ pointerField := (pf : Int), sections := [
        parsedSection c { h with sectionLength := 9 + pmtBodySize d, tableType := "PMT" } sh { pmt := some d }] },
        ⟨bs, (bs.length : Int)⟩) := by
  obtain ⟨bs, hw, hp⟩ := pmt_roundtrip_typed pf crc h sh d hpf ht hsl hsh hd
  refine ⟨bs, (computeCRC32 (sectionPre (mkPMTSection crc h sh d))).toNat, hw, ?_⟩
  rw [hp, hext]

/-- a realistic PMT: a registration descriptor at program level; an H.264 stream with an AVC video and a stream
identifier descriptor; an AC-3 stream with a language, an AC-3 and a user-defined descriptor; a DVB subtitle stream -/
def exPMTTyped : PMTData :=
  { pcrPID := 0x100, programNumber := 1
    programDescriptors := [ofRegistration { formatIdentifier := 0x48444d56 }]
    elementaryStreams := [
      { elementaryPID := 0x100, streamType := 0x1b,
        elementaryStreamDescriptors := [ofAVCVideo { profileIDC := 100, levelIDC := 40, constraintSet1Flag := true },
          ofStreamIdentifier { componentTag := 1 }] },
      { elementaryPID := 0x101, streamType := 0x06,
        elementaryStreamDescriptors := [ofISO639 { language := [0x66, 0x72, 0x61], type := 0 },
          ofAC3 { hasComponentType := true, componentType := 0x42 }, userDescriptor 0x90 [1, 2, 3]] },
      { elementaryPID := 0x102, streamType := 0x06,
        elementaryStreamDescriptors := [ofSubtitling { items := [{ language := [0x66, 0x72, 0x61], type := 0x10, compositionPageID := 1, ancillaryPageID := 1 }] }] }] }

example : PMTTypedOk exPMTTyped := by
  refine ⟨by decide, ?_, ?_, by decide⟩
  · intro x hx
    simp [exPMTTyped] at hx; subst hx
    exact .typed _ (.registration _ ⟨by decide, by decide⟩)
  · intro es hes
    simp [exPMTTyped] at hes
    rcases hes with rfl | rfl | rfl
    · refine ⟨by decide, by decide, ?_, by decide⟩
      intro x hx; simp at hx
      rcases hx with rfl | rfl
      · exact .typed _ (.avc_video _ ⟨by decide, by decide, by decide⟩)
      · exact .typed _ (.stream_identifier _ ⟨by decide⟩)
    · refine ⟨by decide, by decide, ?_, by decide⟩
      intro x hx; simp at hx
      rcases hx with rfl | rfl | rfl
      · exact .typed _ (.iso639_language_and_audio_type _ ⟨by decide, by decide⟩)
      · exact .typed _ (.ac3 _ ⟨by decide, by decide, by decide, by decide, by decide⟩)
      · exact .user 0x90 [1, 2, 3] (by decide) (by decide)
    · refine ⟨by decide, by decide, ?_, by decide⟩
      intro x hx; simp at hx; subst hx
      refine .typed _ (.subtitling _ ⟨?_, by decide, by decide⟩)
      intro a ha; simp at ha; subst ha
      exact ⟨by decide, by decide, by decide, by decide⟩

end TypedDescriptors

/-! ## SI tables the library cannot write: TOT, SDT, NIT, EIT parsed from the reference encoder's bytes

(helpers in `Astits/Proofs/SIRT/`, namespace `Astits.SIRT`).  The library has no writer for these tables, so the
theorems are about `parsePSIData` on `Spec.unitEncode ptr [Spec.sectionEncode s] stuffing`: pointer_field, `ptr` filler
bytes, the reference encoding of one section (ISO/IEC 13818-1 2.4.4, EN 300 468 5.2; CRC_32 from the bit-serial
`Spec.crc`), `stuffing` bytes 0xFF.

* `siSection t ssi priv sh d` is the section value handed to the encoder — table id, section_syntax_indicator, private
  bit, syntax header, table data; the encoder reads nothing else (`SIRT.sectionEncode_norm`).
* `delivered t ssi priv sh d' body` is what comes back: the same flags and syntax header, the table data `d'`, and the
  three fields the parser recomputes — `sectionLength = |body| + 4`, `tableType = tableType t`,
  `crc32 = Spec.crc` of all section bytes before the CRC field.  It is exactly the expected value the generators
  build (`SIRT.mkSection_eq : Gen.mkSection t priv sh d = (delivered …, Spec.sectionEncode …)`), see `*_parse_mkSection`.
* `d'` is `d` except that the id which travels in the syntax header (`SDT.TransportStreamID`, `NIT.NetworkID`,
  `EIT.ServiceID`) is the header's `table_id_extension`, as for PAT/PMT above.
* trailing stuffing: the loop of `parsePSIData` appends the "Null" section of the FIRST 0xFF byte and stops there
  (`stopSections`, `stopBytes`): one extra `PSISection{Header{TableID 0xff, TableType "Null"}}` whenever `stuffing > 0`.
* `ptr` is a byte in real inputs; the statements hold for every natural number.
* descriptors: `Spec.sectionEncode` takes the descriptor bytes from `writeDescriptors` ("their own reference encoding
  is C14's"); `SIRT.sectionEncodeE Spec.descEncode` is the same section with every descriptor encoded by the
  independent reference `Spec.descEncode`.  Both are covered (`*_parse`, `*_parse_spec`) for all well-formed typed and
  user-defined descriptors (`C14.DescWF`), with no round-trip hypothesis left: `SIRT.encWF_writer` is C14's
  `desc_ok_wf`, `SIRT.encWF_spec` is T5 below.
-/

section SITables
open Astits.SIRT Astits.DescRT

/-! ### T5: model writer = independent reference encoder, per descriptor kind -/

/-- **reference encoder = library writer** for every well-formed typed descriptor except AC-3 (one theorem per kind:
`SIRT.spec_eq_writer_avc_video`, `…_component`, `…_content`, `…_data_stream_alignment`, `…_enhanced_ac3`,
`…_extended_event`, `…_extension`, `…_iso639_language_and_audio_type`, `…_local_time_offset`, `…_maximum_bitrate`,
`…_network_name`, `…_parental_rating`, `…_private_data_indicator`, `…_private_data_specifier`, `…_registration`,
`…_service`, `…_short_event`, `…_stream_identifier`, `…_subtitling`, `…_teletext`, `…_vbi_data`, `…_vbi_teletext`,
`…_unknown`, `…_user_defined`) -/
theorem spec_eq_writer (d : Descriptor) (h : C14.TypedWF d) (hac3 : d.tag ≠ descriptorTagAC3) :
    Spec.descEncode d = writeDescriptor d := spec_eq_writer_typed d h hac3

/-- **AC-3 is the exception** (recorded finding): in the flags byte the reference writes reserved_flags = 0000 as
EN 300 468 D.3 prescribes, the library writes 1111; tag, length, the four flags and every other byte agree -/
theorem ac3_spec_vs_writer (x : DescriptorAC3) (wf : AC3WF x) :
    (Spec.descEncode (ofAC3 x)).getD 2 0 % 16 = 0 ∧ (writeDescriptor (ofAC3 x)).getD 2 0 % 16 = 15 ∧
    (Spec.descEncode (ofAC3 x)).take 2 = (writeDescriptor (ofAC3 x)).take 2 ∧
    (Spec.descEncode (ofAC3 x)).getD 2 0 / 16 = (writeDescriptor (ofAC3 x)).getD 2 0 / 16 ∧
    (Spec.descEncode (ofAC3 x)).drop 3 = (writeDescriptor (ofAC3 x)).drop 3 := ac3_reserved_flags x wf

/-- **the parser accepts the reference bytes of every well-formed descriptor** (AC-3 included: the parser does not look
at the reserved bits): wherever `Spec.descEncode d` stands, `parseDescriptor` returns `d` and stops right after it -/
theorem spec_desc_ok (d : Descriptor) (h : C14.DescWF d) : SpecDescOk d := specDescOk_wf d h

example : Spec.descEncode (ofAC3 { hasBSID := true, bsid := 8, additionalInfo := [1] }) = [0x6a, 3, 0x40, 8, 1] := by decide
example : writeDescriptor (ofAC3 { hasBSID := true, bsid := 8, additionalInfo := [1] }) = [0x6a, 3, 0x4f, 8, 1] := by decide

/-! ### T1: TOT (table id 0x73; no syntax header, CRC_32) -/

/-- TOT for either per-descriptor encoder -/
theorem tot_parse_of (enc : Descriptor → Bytes) (E : EncWF enc) (ptr stuffing : Nat) (ssi priv : Bool) (d : TOTData) (hd : TOTWF d) :
    parsePSIData ⟨Spec.unitEncode ptr [sectionEncodeE enc 0x73 ssi priv none { tot := some d }] stuffing, 0⟩ =
      .ok ({ pointerField := (ptr : Int),
             sections := delivered 0x73 ssi priv none { tot := some d } (sectionBodyE enc 0x73 none { tot := some d })
               :: stopSections stuffing },
        ⟨Spec.unitEncode ptr [sectionEncodeE enc 0x73 ssi priv none { tot := some d }] stuffing,
          ((1 + ptr + (sectionEncodeE enc 0x73 ssi priv none { tot := some d }).length + stopBytes stuffing : Nat) : Int)⟩) :=
  tot_parse_enc enc E.pos ptr stuffing ssi priv d (hd.ok E)

/-- **TOT**: every UTC time within MJD 15079..65535, every loop of well-formed descriptors that fits the section,
any pointer_field, any amount of trailing stuffing -/
theorem tot_parse (ptr stuffing : Nat) (ssi priv : Bool) (d : TOTData) (hd : TOTWF d) :
    parsePSIData ⟨Spec.unitEncode ptr [Spec.sectionEncode (siSection 0x73 ssi priv none { tot := some d })] stuffing, 0⟩ =
      .ok ({ pointerField := (ptr : Int),
             sections := delivered 0x73 ssi priv none { tot := some d } (sectionBody 0x73 none { tot := some d })
               :: stopSections stuffing },
        ⟨Spec.unitEncode ptr [Spec.sectionEncode (siSection 0x73 ssi priv none { tot := some d })] stuffing,
          ((1 + ptr + (Spec.sectionEncode (siSection 0x73 ssi priv none { tot := some d })).length + stopBytes stuffing : Nat) : Int)⟩) := by
  have := tot_parse_of writeDescriptor encWF_writer ptr stuffing ssi priv d hd
  rw [sectionEncodeE_writer, sectionBodyE_writer] at this
  exact this

/-- the same with every descriptor encoded by the independent reference `Spec.descEncode` -/
theorem tot_parse_spec (ptr stuffing : Nat) (ssi priv : Bool) (d : TOTData) (hd : TOTWF d) :
    parsePSIData ⟨Spec.unitEncode ptr [sectionEncodeE Spec.descEncode 0x73 ssi priv none { tot := some d }] stuffing, 0⟩ =
      .ok ({ pointerField := (ptr : Int),
             sections := delivered 0x73 ssi priv none { tot := some d } (sectionBodyE Spec.descEncode 0x73 none { tot := some d })
               :: stopSections stuffing },
        ⟨Spec.unitEncode ptr [sectionEncodeE Spec.descEncode 0x73 ssi priv none { tot := some d }] stuffing,
          ((1 + ptr + (sectionEncodeE Spec.descEncode 0x73 ssi priv none { tot := some d }).length + stopBytes stuffing : Nat) : Int)⟩) :=
  tot_parse_of Spec.descEncode encWF_spec ptr stuffing ssi priv d hd

/-- in the generators' terms: the bytes and the expected value are the two components of `Gen.mkSection` -/
theorem tot_parse_mkSection (ptr stuffing : Nat) (priv : Bool) (d : TOTData) (hd : TOTWF d) :
    parsePSIData ⟨Spec.unitEncode ptr [(mkSection 0x73 priv none { tot := some d }).2] stuffing, 0⟩ =
      .ok ({ pointerField := (ptr : Int), sections := (mkSection 0x73 priv none { tot := some d }).1 :: stopSections stuffing },
        ⟨Spec.unitEncode ptr [(mkSection 0x73 priv none { tot := some d }).2] stuffing,
          ((1 + ptr + (mkSection 0x73 priv none { tot := some d }).2.length + stopBytes stuffing : Nat) : Int)⟩) :=
  parse_mkSection ptr stuffing 0x73 priv none _ _ rfl (tot_parse ptr stuffing false priv d hd)

/-! ### T2: SDT (table ids 0x42, 0x46) -/

theorem sdt_parse_of (enc : Descriptor → Bytes) (E : EncWF enc) (ptr stuffing t : Nat) (ht : t = 0x42 ∨ t = 0x46) (ssi priv : Bool)
    (sh : PSISectionSyntaxHeader) (hsh : SyntaxHeaderOk sh) (d : SDTData) (hd : SDTWF d) :
    parsePSIData ⟨Spec.unitEncode ptr [sectionEncodeE enc t ssi priv (some sh) { sdt := some d }] stuffing, 0⟩ =
      .ok ({ pointerField := (ptr : Int),
             sections := delivered t ssi priv (some sh) { sdt := some { d with transportStreamID := sh.tableIDExtension } }
               (sectionBodyE enc t (some sh) { sdt := some d }) :: stopSections stuffing },
        ⟨Spec.unitEncode ptr [sectionEncodeE enc t ssi priv (some sh) { sdt := some d }] stuffing,
          ((1 + ptr + (sectionEncodeE enc t ssi priv (some sh) { sdt := some d }).length + stopBytes stuffing : Nat) : Int)⟩) := by
  rw [sectionBodyE_sdt enc t ht sh d]
  exact sdt_parse_enc enc E.pos ptr stuffing t ht ssi priv sh hsh d (hd.ok E)

/-- **SDT**: 16-bit original network id and service ids, both EIT flags, 3-bit running status, free CA mode, a loop of
well-formed descriptors per service; the transport stream id delivered is the header's table_id_extension -/
theorem sdt_parse (ptr stuffing t : Nat) (ht : t = 0x42 ∨ t = 0x46) (ssi priv : Bool)
    (sh : PSISectionSyntaxHeader) (hsh : SyntaxHeaderOk sh) (d : SDTData) (hd : SDTWF d) :
    parsePSIData ⟨Spec.unitEncode ptr [Spec.sectionEncode (siSection t ssi priv (some sh) { sdt := some d })] stuffing, 0⟩ =
      .ok ({ pointerField := (ptr : Int),
             sections := delivered t ssi priv (some sh) { sdt := some { d with transportStreamID := sh.tableIDExtension } }
               (sectionBody t (some sh) { sdt := some d }) :: stopSections stuffing },
        ⟨Spec.unitEncode ptr [Spec.sectionEncode (siSection t ssi priv (some sh) { sdt := some d })] stuffing,
          ((1 + ptr + (Spec.sectionEncode (siSection t ssi priv (some sh) { sdt := some d })).length + stopBytes stuffing : Nat) : Int)⟩) := by
  have := sdt_parse_of writeDescriptor encWF_writer ptr stuffing t ht ssi priv sh hsh d hd
  rw [sectionEncodeE_writer, sectionBodyE_writer] at this
  exact this

theorem sdt_parse_spec (ptr stuffing t : Nat) (ht : t = 0x42 ∨ t = 0x46) (ssi priv : Bool)
    (sh : PSISectionSyntaxHeader) (hsh : SyntaxHeaderOk sh) (d : SDTData) (hd : SDTWF d) :
    parsePSIData ⟨Spec.unitEncode ptr [sectionEncodeE Spec.descEncode t ssi priv (some sh) { sdt := some d }] stuffing, 0⟩ =
      .ok ({ pointerField := (ptr : Int),
             sections := delivered t ssi priv (some sh) { sdt := some { d with transportStreamID := sh.tableIDExtension } }
               (sectionBodyE Spec.descEncode t (some sh) { sdt := some d }) :: stopSections stuffing },
        ⟨Spec.unitEncode ptr [sectionEncodeE Spec.descEncode t ssi priv (some sh) { sdt := some d }] stuffing,
          ((1 + ptr + (sectionEncodeE Spec.descEncode t ssi priv (some sh) { sdt := some d }).length + stopBytes stuffing : Nat) : Int)⟩) :=
  sdt_parse_of Spec.descEncode encWF_spec ptr stuffing t ht ssi priv sh hsh d hd

/-- in the generators' terms (`genSectionOfKind 2`: the syntax header carries the transport stream id) -/
theorem sdt_parse_mkSection (ptr stuffing t : Nat) (ht : t = 0x42 ∨ t = 0x46) (priv : Bool)
    (sh : PSISectionSyntaxHeader) (hsh : SyntaxHeaderOk sh) (d : SDTData) (hd : SDTWF d) (hext : sh.tableIDExtension = d.transportStreamID) :
    parsePSIData ⟨Spec.unitEncode ptr [(mkSection t priv (some sh) { sdt := some d }).2] stuffing, 0⟩ =
      .ok ({ pointerField := (ptr : Int), sections := (mkSection t priv (some sh) { sdt := some d }).1 :: stopSections stuffing },
        ⟨Spec.unitEncode ptr [(mkSection t priv (some sh) { sdt := some d }).2] stuffing,
          ((1 + ptr + (mkSection t priv (some sh) { sdt := some d }).2.length + stopBytes stuffing : Nat) : Int)⟩) :=
  parse_mkSection ptr stuffing t priv (some sh) _ _ (by rw [hext]) (sdt_parse ptr stuffing t ht true priv sh hsh d hd)

/-! ### T3: NIT (table ids 0x40, 0x41) -/

theorem nit_parse_of (enc : Descriptor → Bytes) (E : EncWF enc) (ptr stuffing t : Nat) (ht : t = 0x40 ∨ t = 0x41) (ssi priv : Bool)
    (sh : PSISectionSyntaxHeader) (hsh : SyntaxHeaderOk sh) (d : NITData) (hd : NITWF d) :
    parsePSIData ⟨Spec.unitEncode ptr [sectionEncodeE enc t ssi priv (some sh) { nit := some d }] stuffing, 0⟩ =
      .ok ({ pointerField := (ptr : Int),
             sections := delivered t ssi priv (some sh) { nit := some { d with networkID := sh.tableIDExtension } }
               (sectionBodyE enc t (some sh) { nit := some d }) :: stopSections stuffing },
        ⟨Spec.unitEncode ptr [sectionEncodeE enc t ssi priv (some sh) { nit := some d }] stuffing,
          ((1 + ptr + (sectionEncodeE enc t ssi priv (some sh) { nit := some d }).length + stopBytes stuffing : Nat) : Int)⟩) := by
  rw [sectionBodyE_nit enc t ht sh d]
  exact nit_parse_enc enc E.pos ptr stuffing t ht ssi priv sh hsh d (hd.ok E)

/-- **NIT**: a loop of well-formed network descriptors, the transport stream loop (16-bit transport stream id and
original network id, a loop of well-formed descriptors each); the network id delivered is the table_id_extension -/
theorem nit_parse (ptr stuffing t : Nat) (ht : t = 0x40 ∨ t = 0x41) (ssi priv : Bool)
    (sh : PSISectionSyntaxHeader) (hsh : SyntaxHeaderOk sh) (d : NITData) (hd : NITWF d) :
    parsePSIData ⟨Spec.unitEncode ptr [Spec.sectionEncode (siSection t ssi priv (some sh) { nit := some d })] stuffing, 0⟩ =
      .ok ({ pointerField := (ptr : Int),
             sections := delivered t ssi priv (some sh) { nit := some { d with networkID := sh.tableIDExtension } }
               (sectionBody t (some sh) { nit := some d }) :: stopSections stuffing },
        ⟨Spec.unitEncode ptr [Spec.sectionEncode (siSection t ssi priv (some sh) { nit := some d })] stuffing,
          ((1 + ptr + (Spec.sectionEncode (siSection t ssi priv (some sh) { nit := some d })).length + stopBytes stuffing : Nat) : Int)⟩) := by
  have := nit_parse_of writeDescriptor encWF_writer ptr stuffing t ht ssi priv sh hsh d hd
  rw [sectionEncodeE_writer, sectionBodyE_writer] at this
  exact this

theorem nit_parse_spec (ptr stuffing t : Nat) (ht : t = 0x40 ∨ t = 0x41) (ssi priv : Bool)
    (sh : PSISectionSyntaxHeader) (hsh : SyntaxHeaderOk sh) (d : NITData) (hd : NITWF d) :
    parsePSIData ⟨Spec.unitEncode ptr [sectionEncodeE Spec.descEncode t ssi priv (some sh) { nit := some d }] stuffing, 0⟩ =
      .ok ({ pointerField := (ptr : Int),
             sections := delivered t ssi priv (some sh) { nit := some { d with networkID := sh.tableIDExtension } }
               (sectionBodyE Spec.descEncode t (some sh) { nit := some d }) :: stopSections stuffing },
        ⟨Spec.unitEncode ptr [sectionEncodeE Spec.descEncode t ssi priv (some sh) { nit := some d }] stuffing,
          ((1 + ptr + (sectionEncodeE Spec.descEncode t ssi priv (some sh) { nit := some d }).length + stopBytes stuffing : Nat) : Int)⟩) :=
  nit_parse_of Spec.descEncode encWF_spec ptr stuffing t ht ssi priv sh hsh d hd

theorem nit_parse_mkSection (ptr stuffing t : Nat) (ht : t = 0x40 ∨ t = 0x41) (priv : Bool)
    (sh : PSISectionSyntaxHeader) (hsh : SyntaxHeaderOk sh) (d : NITData) (hd : NITWF d) (hext : sh.tableIDExtension = d.networkID) :
    parsePSIData ⟨Spec.unitEncode ptr [(mkSection t priv (some sh) { nit := some d }).2] stuffing, 0⟩ =
      .ok ({ pointerField := (ptr : Int), sections := (mkSection t priv (some sh) { nit := some d }).1 :: stopSections stuffing },
        ⟨Spec.unitEncode ptr [(mkSection t priv (some sh) { nit := some d }).2] stuffing,
          ((1 + ptr + (mkSection t priv (some sh) { nit := some d }).2.length + stopBytes stuffing : Nat) : Int)⟩) :=
  parse_mkSection ptr stuffing t priv (some sh) _ _ (by rw [hext]) (nit_parse ptr stuffing t ht true priv sh hsh d hd)

/-! ### T4: EIT (table ids 0x4e..0x6f) -/

theorem eit_parse_of (enc : Descriptor → Bytes) (E : EncWF enc) (ptr stuffing t : Nat) (ht : 0x4e ≤ t ∧ t ≤ 0x6f) (ssi priv : Bool)
    (sh : PSISectionSyntaxHeader) (hsh : SyntaxHeaderOk sh) (d : EITData) (hd : EITWF d) :
    parsePSIData ⟨Spec.unitEncode ptr [sectionEncodeE enc t ssi priv (some sh) { eit := some d }] stuffing, 0⟩ =
      .ok ({ pointerField := (ptr : Int),
             sections := delivered t ssi priv (some sh) { eit := some { d with serviceID := sh.tableIDExtension } }
               (sectionBodyE enc t (some sh) { eit := some d }) :: stopSections stuffing },
        ⟨Spec.unitEncode ptr [sectionEncodeE enc t ssi priv (some sh) { eit := some d }] stuffing,
          ((1 + ptr + (sectionEncodeE enc t ssi priv (some sh) { eit := some d }).length + stopBytes stuffing : Nat) : Int)⟩) := by
  rw [sectionBodyE_eit enc t ht sh d]
  exact eit_parse_enc enc E.pos ptr stuffing t ht ssi priv sh hsh d (hd.ok E)

/-- **EIT**: 16-bit transport stream / original network ids, 8-bit segment_last_section_number and last_table_id,
events with 16-bit id, start time within MJD 15079..65535, duration in whole seconds below 160 h (six valid BCD digits
below 100 h; `SIRT.DurationSecondsOk`), 3-bit running status, free CA mode and a loop of well-formed descriptors; the service id delivered is the
table_id_extension -/
theorem eit_parse (ptr stuffing t : Nat) (ht : 0x4e ≤ t ∧ t ≤ 0x6f) (ssi priv : Bool)
    (sh : PSISectionSyntaxHeader) (hsh : SyntaxHeaderOk sh) (d : EITData) (hd : EITWF d) :
    parsePSIData ⟨Spec.unitEncode ptr [Spec.sectionEncode (siSection t ssi priv (some sh) { eit := some d })] stuffing, 0⟩ =
      .ok ({ pointerField := (ptr : Int),
             sections := delivered t ssi priv (some sh) { eit := some { d with serviceID := sh.tableIDExtension } }
               (sectionBody t (some sh) { eit := some d }) :: stopSections stuffing },
        ⟨Spec.unitEncode ptr [Spec.sectionEncode (siSection t ssi priv (some sh) { eit := some d })] stuffing,
          ((1 + ptr + (Spec.sectionEncode (siSection t ssi priv (some sh) { eit := some d })).length + stopBytes stuffing : Nat) : Int)⟩) := by
  have := eit_parse_of writeDescriptor encWF_writer ptr stuffing t ht ssi priv sh hsh d hd
  rw [sectionEncodeE_writer, sectionBodyE_writer] at this
  exact this

theorem eit_parse_spec (ptr stuffing t : Nat) (ht : 0x4e ≤ t ∧ t ≤ 0x6f) (ssi priv : Bool)
    (sh : PSISectionSyntaxHeader) (hsh : SyntaxHeaderOk sh) (d : EITData) (hd : EITWF d) :
    parsePSIData ⟨Spec.unitEncode ptr [sectionEncodeE Spec.descEncode t ssi priv (some sh) { eit := some d }] stuffing, 0⟩ =
      .ok ({ pointerField := (ptr : Int),
             sections := delivered t ssi priv (some sh) { eit := some { d with serviceID := sh.tableIDExtension } }
               (sectionBodyE Spec.descEncode t (some sh) { eit := some d }) :: stopSections stuffing },
        ⟨Spec.unitEncode ptr [sectionEncodeE Spec.descEncode t ssi priv (some sh) { eit := some d }] stuffing,
          ((1 + ptr + (sectionEncodeE Spec.descEncode t ssi priv (some sh) { eit := some d }).length + stopBytes stuffing : Nat) : Int)⟩) :=
  eit_parse_of Spec.descEncode encWF_spec ptr stuffing t ht ssi priv sh hsh d hd

theorem eit_parse_mkSection (ptr stuffing t : Nat) (ht : 0x4e ≤ t ∧ t ≤ 0x6f) (priv : Bool)
    (sh : PSISectionSyntaxHeader) (hsh : SyntaxHeaderOk sh) (d : EITData) (hd : EITWF d) (hext : sh.tableIDExtension = d.serviceID) :
    parsePSIData ⟨Spec.unitEncode ptr [(mkSection t priv (some sh) { eit := some d }).2] stuffing, 0⟩ =
      .ok ({ pointerField := (ptr : Int), sections := (mkSection t priv (some sh) { eit := some d }).1 :: stopSections stuffing },
        ⟨Spec.unitEncode ptr [(mkSection t priv (some sh) { eit := some d }).2] stuffing,
          ((1 + ptr + (mkSection t priv (some sh) { eit := some d }).2.length + stopBytes stuffing : Nat) : Int)⟩) :=
  parse_mkSection ptr stuffing t priv (some sh) _ _ (by rw [hext]) (eit_parse ptr stuffing t ht true priv sh hsh d hd)

/-! ### several sections in one unit -/

/-- **any sequence of sections that each parse wherever they stand** (`SIRT.SecAt`: the `*_secAt` lemmas give it for TOT,
SDT, NIT, EIT) in one PSI unit: delivered one by one, then the stop section of the stuffing -/
theorem si_unit_parse (ptr stuffing : Nat) (secs : List (Bytes × PSISection)) (h : ∀ p ∈ secs, SecAt p) :
    parsePSIData ⟨Spec.unitEncode ptr (secs.map (·.1)) stuffing, 0⟩ =
      .ok ({ pointerField := (ptr : Int), sections := secs.map (·.2) ++ stopSections stuffing },
        ⟨Spec.unitEncode ptr (secs.map (·.1)) stuffing,
          ((1 + ptr + (secs.map (·.1)).flatten.length + stopBytes stuffing : Nat) : Int)⟩) :=
  parsePSIData_unit ptr stuffing secs h

/-! ### non-vacuity: concrete, non-trivial tables that satisfy the hypotheses -/

/-- 1993-10-13 12:45:00 UTC (MJD 49273, the example of EN 300 468 Annex C) with a local time offset descriptor -/
def exTOT : TOTData :=
  { utcTime := 750516300
    descriptors := [ofLocalTimeOffset { items := [{ countryCode := [0x46, 0x52, 0x41], countryRegionID := 1, localTimeOffsetPolarity := false, localTimeOffset := 3600000000000, timeOfChange := 751510800, nextTimeOffset := 7200000000000 }] }] }

theorem exTOT_wf : TOTWF exTOT := by
  refine ⟨by decide, ?_, by decide⟩
  intro x hx
  simp [exTOT] at hx; subst hx
  refine .typed _ (.local_time_offset _ ⟨?_, by decide, by decide⟩)
  intro a ha; simp at ha; subst ha
  exact ⟨by decide, by decide, by decide, by decide, by decide⟩

/-- pointer_field 3, two stuffing bytes: the TOT and the "Null" stop section come back -/
example : ∃ i, parsePSIData ⟨Spec.unitEncode 3 [Spec.sectionEncode (siSection 0x73 false true none { tot := some exTOT })] 2, 0⟩ =
    .ok ({ pointerField := 3, sections := [delivered 0x73 false true none { tot := some exTOT } (sectionBody 0x73 none { tot := some exTOT }),
      stopSection] }, i) := ⟨_, tot_parse 3 2 false true exTOT exTOT_wf⟩

example : (delivered 0x73 false true none { tot := some exTOT } (sectionBody 0x73 none { tot := some exTOT })).header.map
    (fun h => (h.privateBit, h.sectionLength, h.sectionSyntaxIndicator, h.tableID, h.tableType)) = some (true, 26, false, 0x73, "TOT") := by
  decide +kernel

def exSyntaxHeader (ext : Nat) : PSISectionSyntaxHeader :=
  { currentNextIndicator := true, tableIDExtension := ext, versionNumber := 17, sectionNumber := 1, lastSectionNumber := 2 }

theorem exSyntaxHeader_ok (ext : Nat) (h : ext < 65536) : SyntaxHeaderOk (exSyntaxHeader ext) :=
  ⟨h, by simp [exSyntaxHeader], by simp [exSyntaxHeader], by simp [exSyntaxHeader]⟩

def exSDT : SDTData :=
  { originalNetworkID := 0x2222, transportStreamID := 7
    services := [
      { serviceID := 0x1234, hasEITSchedule := true, hasEITPresentFollowing := false, runningStatus := 4, hasFreeCSAMode := false,
        descriptors := [ofService { type := 1, provider := [0x70, 0x72], name := [0x6e, 0x61, 0x6d] }] },
      { serviceID := 65535, hasEITSchedule := false, hasEITPresentFollowing := true, runningStatus := 7, hasFreeCSAMode := true }] }

theorem exSDT_wf : SDTWF exSDT := by
  refine ⟨by decide, ?_, by decide⟩
  intro s hs
  simp [exSDT] at hs
  rcases hs with rfl | rfl
  · refine ⟨by decide, by decide, ?_, by decide⟩
    intro x hx; simp at hx; subst hx
    exact .typed _ (.service _ ⟨by decide, by decide⟩)
  · refine ⟨by decide, by decide, ?_, by decide⟩
    intro x hx; cases hx

example : ∃ i, parsePSIData ⟨Spec.unitEncode 0 [Spec.sectionEncode (siSection 0x46 true false (some (exSyntaxHeader 7)) { sdt := some exSDT })] 0, 0⟩ =
    .ok ({ pointerField := 0, sections := [delivered 0x46 true false (some (exSyntaxHeader 7)) { sdt := some exSDT }
      (sectionBody 0x46 (some (exSyntaxHeader 7)) { sdt := some exSDT })] }, i) :=
  ⟨_, sdt_parse 0 0 0x46 (.inr rfl) true false (exSyntaxHeader 7) (exSyntaxHeader_ok 7 (by decide)) exSDT exSDT_wf⟩

def exNIT : NITData :=
  { networkID := 0x3001
    networkDescriptors := [ofNetworkName { name := [0x6e, 0x65, 0x74] }]
    transportStreams := [
      { transportStreamID := 1, originalNetworkID := 0x2222, transportDescriptors := [userDescriptor 0x83 [1, 2, 3, 4]] },
      { transportStreamID := 65535, originalNetworkID := 0 }] }

theorem exNIT_wf : NITWF exNIT := by
  refine ⟨?_, ?_, by decide⟩
  · intro x hx; simp [exNIT] at hx; subst hx
    exact .typed _ (.network_name _ ⟨by decide, by decide⟩)
  · intro t ht
    simp [exNIT] at ht
    rcases ht with rfl | rfl
    · refine ⟨by decide, by decide, ?_, by decide⟩
      intro x hx; simp at hx; subst hx
      exact .user 0x83 [1, 2, 3, 4] (by decide) (by decide)
    · refine ⟨by decide, by decide, ?_, by decide⟩
      intro x hx; cases hx

example : ∃ i, parsePSIData ⟨Spec.unitEncode 255 [sectionEncodeE Spec.descEncode 0x40 true true (some (exSyntaxHeader 0x3001)) { nit := some exNIT }] 100, 0⟩ =
    .ok ({ pointerField := 255, sections := [delivered 0x40 true true (some (exSyntaxHeader 0x3001)) { nit := some exNIT }
      (sectionBodyE Spec.descEncode 0x40 (some (exSyntaxHeader 0x3001)) { nit := some exNIT }), stopSection] }, i) :=
  ⟨_, nit_parse_spec 255 100 0x40 (.inl rfl) true true (exSyntaxHeader 0x3001) (exSyntaxHeader_ok _ (by decide)) exNIT exNIT_wf⟩

/-- an event of 1 h 30 min 15 s with a short event descriptor and an AC-3 descriptor (the kind on which reference and
library bytes differ), and an event without descriptors in the last second of the MJD range with the longest duration (159:59:59) -/
def exEIT : EITData :=
  { transportStreamID := 7, originalNetworkID := 0x2222, segmentLastSectionNumber := 8, lastTableID := 0x5f, serviceID := 0x1234
    events := [
      { eventID := 0x10, startTime := 750516300, duration := 5415000000000, runningStatus := 4, hasFreeCSAMode := true,
        descriptors := [ofShortEvent { language := [0x65, 0x6e, 0x67], eventName := [0x4e, 0x65, 0x77, 0x73], text := [0x2e] },
          ofAC3 { hasComponentType := true, componentType := 0x42, additionalInfo := [9] }] },
      { eventID := 65535, startTime := 2155593599, duration := 575999000000000, runningStatus := 0, hasFreeCSAMode := false }] }

theorem exEIT_wf : EITWF exEIT := by
  refine ⟨by decide, by decide, by decide, by decide, ?_, by decide⟩
  intro e he
  simp [exEIT] at he
  rcases he with rfl | rfl
  · refine ⟨by decide, by decide, by decide, by decide, ?_, by decide⟩
    intro x hx; simp at hx
    rcases hx with rfl | rfl
    · exact .typed _ (.short_event _ ⟨by decide, by decide⟩)
    · exact .typed _ (.ac3 _ ⟨by decide, by decide, by decide, by decide, by decide⟩)
  · refine ⟨by decide, by decide, by decide, by decide, ?_, by decide⟩
    intro x hx; cases hx

example : ∃ i, parsePSIData ⟨Spec.unitEncode 1 [sectionEncodeE Spec.descEncode 0x4e true false (some (exSyntaxHeader 0x1234)) { eit := some exEIT }] 1, 0⟩ =
    .ok ({ pointerField := 1, sections := [delivered 0x4e true false (some (exSyntaxHeader 0x1234)) { eit := some exEIT }
      (sectionBodyE Spec.descEncode 0x4e (some (exSyntaxHeader 0x1234)) { eit := some exEIT }), stopSection] }, i) :=
  ⟨_, eit_parse_spec 1 1 0x4e (by decide) true false (exSyntaxHeader 0x1234) (exSyntaxHeader_ok _ (by decide)) exEIT exEIT_wf⟩

/-- the generators' form for the same EIT: `exSyntaxHeader 0x1234` carries the service id of `exEIT` -/
example : ∃ i, parsePSIData ⟨Spec.unitEncode 0 [(mkSection 0x6f false (some (exSyntaxHeader 0x1234)) { eit := some exEIT }).2] 0, 0⟩ =
    .ok ({ pointerField := 0, sections := [(mkSection 0x6f false (some (exSyntaxHeader 0x1234)) { eit := some exEIT }).1] }, i) :=
  ⟨_, eit_parse_mkSection 0 0 0x6f (by decide) false (exSyntaxHeader 0x1234) (exSyntaxHeader_ok _ (by decide)) exEIT exEIT_wf rfl⟩

/-- the first bytes of the reference EIT section of `exEIT`: table id, section_length 0x038 = 56, service id, version 17 + current -/
example : (Spec.sectionEncode (siSection 0x4e true false (some (exSyntaxHeader 0x1234)) { eit := some exEIT })).take 8
    = [0x4e, 0xb0, 0x38, 0x12, 0x34, 0xe3, 1, 2] := by decide +kernel

end SITables

/-! ## W3 — the PSI writers emit exactly the standard's layout: `writePSISection` / `writePSIData` = the independent
reference encoder `Spec.sectionEncode` / `Spec.unitEncode` (Astits/Spec/PSI.lean: tables 2-30 / 2-33 and the generic
section syntax transcribed with `Spec.enc`, CRC_32 from the bit-serial `Spec.crc`).  Helper development:
Astits/Proofs/SpecEq/{Enc,PSI}.lean.  The section value the reference encoder expects is the section itself (it reads
table id, flags, syntax header and table data; `SectionLength` and `CRC32` are recomputed), so `s' = s`. -/

section WriterEqSpec
open Astits.SpecEq

/-- **one section** (PAT or PMT, `SpecEq.SecAgree`): all sub-structures present, `Header.SectionLength > 0`, and — PMT —
every descriptor written on the number of bytes its length byte announces.  No range condition on any field and no
bound on the section size: over-wide values and an over-long section_length are masked identically by both sides. -/
theorem writePSISection_eq_sectionEncode (s : PSISection) (h : SecAgree s) :
    writePSISection s = .ok (Spec.sectionEncode s) := writePSISection_eq_spec s h

/-- **W3**, several sections per unit, any pointer_field that is a byte -/
theorem writePSIData_eq_unitEncode (pf : Nat) (hpf : pf < 256) (ss : List PSISection) (h : ∀ s ∈ ss, SecAgree s) :
    writePSIData { pointerField := (pf : Int), sections := ss } = .ok (Spec.unitEncode pf (ss.map Spec.sectionEncode) 0) :=
  writePSIData_eq_spec pf hpf ss h

/-- **W3** as stated: one section behind pointer_field 0 -/
theorem writePSIData_eq_unitEncode_one (s : PSISection) (h : SecAgree s) :
    writePSIData { pointerField := 0, sections := [s] } = .ok (Spec.unitEncode 0 [Spec.sectionEncode s] 0) :=
  writePSIData_eq_spec 0 (by decide) [s] (fun x hx => by simp at hx; subst hx; exact h)

/-- every PAT: ANY `PATData` (no hypothesis on the programs) -/
theorem pat_secAgree (crc : Nat) (h : PSISectionHeader) (sh : PSISectionSyntaxHeader) (d : PATData)
    (ht : h.tableID = 0) (hsl : h.sectionLength > 0) : SecAgree (mkPATSection crc h sh d) :=
  ⟨⟨h, _, _, sh, rfl, rfl, rfl, rfl, hsl, .inl ⟨ht, rfl⟩⟩⟩

theorem pmt_secAgree (crc : Nat) (h : PSISectionHeader) (sh : PSISectionSyntaxHeader) (d : PMTData)
    (ht : h.tableID = 2) (hsl : h.sectionLength > 0) (hfit : PMTFits d) : SecAgree (mkPMTSection crc h sh d) :=
  ⟨⟨h, _, _, sh, rfl, rfl, rfl, rfl, hsl, .inr ⟨ht, d, rfl, hfit⟩⟩⟩

/-- the hypothesis of `pmt_roundtrip` is (much) stronger than what the writer/reference equality needs -/
theorem pmtFits_of_ok (d : PMTData) (h : PMTOk d) : PMTFits d :=
  ⟨fun x hx => (h.descs x hx).len, fun es hes x hx => ((h.streams es hes).descs x hx).len⟩

theorem pmtFits_of_bodyFits (d : PMTData) (h1 : ∀ x ∈ d.programDescriptors, C14.BodyFits x)
    (h2 : ∀ es ∈ d.elementaryStreams, ∀ x ∈ es.elementaryStreamDescriptors, C14.BodyFits x) : PMTFits d :=
  ⟨descsFit_of_bodyFits _ h1, fun es hes => descsFit_of_bodyFits _ (h2 es hes)⟩

/-- PAT, in the form of `pat_roundtrip` -/
theorem pat_written_eq_spec (pf crc : Nat) (h : PSISectionHeader) (sh : PSISectionSyntaxHeader) (d : PATData)
    (hpf : pf < 256) (ht : h.tableID = 0) (hsl : h.sectionLength > 0) :
    writePSIData { pointerField := (pf : Int), sections := [mkPATSection crc h sh d] }
      = .ok (Spec.unitEncode pf [Spec.sectionEncode (mkPATSection crc h sh d)] 0) :=
  writePSIData_eq_spec pf hpf [_] (fun x hx => by simp at hx; subst hx; exact pat_secAgree crc h sh d ht hsl)

/-- PMT, in the form of `pmt_roundtrip` -/
theorem pmt_written_eq_spec (pf crc : Nat) (h : PSISectionHeader) (sh : PSISectionSyntaxHeader) (d : PMTData)
    (hpf : pf < 256) (ht : h.tableID = 2) (hsl : h.sectionLength > 0) (hfit : PMTFits d) :
    writePSIData { pointerField := (pf : Int), sections := [mkPMTSection crc h sh d] }
      = .ok (Spec.unitEncode pf [Spec.sectionEncode (mkPMTSection crc h sh d)] 0) :=
  writePSIData_eq_spec pf hpf [_] (fun x hx => by simp at hx; subst hx; exact pmt_secAgree crc h sh d ht hsl hfit)

/-- the generators' pairs (`Gen/PSI.lean` `mkSection`: section in delivered form, reference bytes): the writer applied to
the value emits the reference bytes — the statement the correspondence run checks case by case -/
theorem mkSection_pat_written (priv : Bool) (sh : PSISectionSyntaxHeader) (d : PATData) :
    writePSIData { pointerField := 0, sections := [(mkSection 0 priv (some sh) { pat := some d }).1] }
      = .ok (Spec.unitEncode 0 [(mkSection 0 priv (some sh) { pat := some d }).2] 0) := by
  have hl := sectionEncode_length (mkSection 0 priv (some sh) { pat := some d }).1
  have e : Spec.sectionEncode (mkSection 0 priv (some sh) { pat := some d }).1 = (mkSection 0 priv (some sh) { pat := some d }).2 := rfl
  rw [← e]
  refine writePSIData_eq_unitEncode_one _ ⟨⟨_, _, _, sh, rfl, rfl, rfl, rfl, ?_, .inl ⟨rfl, rfl⟩⟩⟩
  show (mkSection 0 priv (some sh) { pat := some d }).2.length - 3 > 0
  rw [e] at hl
  omega

theorem mkSection_pmt_written (priv : Bool) (sh : PSISectionSyntaxHeader) (d : PMTData) (hfit : PMTFits d) :
    writePSIData { pointerField := 0, sections := [(mkSection 2 priv (some sh) { pmt := some d }).1] }
      = .ok (Spec.unitEncode 0 [(mkSection 2 priv (some sh) { pmt := some d }).2] 0) := by
  have hl := sectionEncode_length (mkSection 2 priv (some sh) { pmt := some d }).1
  have e : Spec.sectionEncode (mkSection 2 priv (some sh) { pmt := some d }).1 = (mkSection 2 priv (some sh) { pmt := some d }).2 := rfl
  rw [← e]
  refine writePSIData_eq_unitEncode_one _ ⟨⟨_, _, _, sh, rfl, rfl, rfl, rfl, ?_, .inr ⟨rfl, d, rfl, hfit⟩⟩⟩
  show (mkSection 2 priv (some sh) { pmt := some d }).2.length - 3 > 0
  rw [e] at hl
  omega

/-! ### non-vacuity, and the excluded points evaluated -/

def exHdr (t sl : Nat) : PSISectionHeader :=
  { privateBit := false, sectionLength := sl, sectionSyntaxIndicator := true, tableID := t, tableType := tableType t }
def exSH : PSISectionSyntaxHeader :=
  { currentNextIndicator := true, tableIDExtension := 1, versionNumber := 31, sectionNumber := 0, lastSectionNumber := 255 }

theorem exPMTTyped_fits : PMTFits exPMTTyped := by
  refine ⟨?_, ?_⟩
  · intro x hx
    simp [exPMTTyped] at hx; subst hx; decide +kernel
  · intro es hes
    simp [exPMTTyped] at hes
    rcases hes with rfl | rfl | rfl
    · intro x hx; simp at hx; rcases hx with rfl | rfl <;> decide +kernel
    · intro x hx; simp at hx; rcases hx with rfl | rfl | rfl <;> decide +kernel
    · intro x hx; simp at hx; subst hx; decide +kernel

/-- a unit with pointer_field 3 carrying the realistic PMT `exPMTTyped` (registration, AVC video, stream identifier,
ISO 639, AC-3, user-defined and subtitling descriptors) followed by the PAT `exPAT` -/
example : writePSIData { pointerField := 3, sections := [mkPMTSection 0 (exHdr 2 1) exSH exPMTTyped, mkPATSection 0 (exHdr 0 17) exSH exPAT] }
    = .ok (Spec.unitEncode 3 [Spec.sectionEncode (mkPMTSection 0 (exHdr 2 1) exSH exPMTTyped),
        Spec.sectionEncode (mkPATSection 0 (exHdr 0 17) exSH exPAT)] 0) :=
  writePSIData_eq_unitEncode 3 (by decide) _ (fun x hx => by
    simp at hx
    rcases hx with rfl | rfl
    · exact pmt_secAgree _ _ _ _ rfl (by decide) exPMTTyped_fits
    · exact pat_secAgree _ _ _ _ rfl (by decide))

/-- the reference bytes of that PAT: table id 0, section_length 0x011, ts id 1, version 31 + current, two programs, CRC_32 -/
example : Spec.unitEncode 0 [Spec.sectionEncode (mkPATSection 0 (exHdr 0 17) exSH exPAT)] 0
    = [0, 0, 0xb0, 0x11, 0, 1, 0xff, 0, 0xff, 0, 1, 0xf0, 0, 0xff, 0xff, 0xff, 0xff, 0xed, 0xfd, 0x14, 0xd3] := by
  decide +kernel

/-- over-wide values are NOT excluded (program number 65545 ↦ 9, PID 8197 ↦ 5, version 33 ↦ 1, extension 65537 ↦ 1):
both sides mask -/
example : writePSIData { pointerField := 0, sections := [mkPATSection 0 (exHdr 0 1) { exSH with versionNumber := 33, tableIDExtension := 65537 }
      { programs := [{ programMapID := 8197, programNumber := 65545 }] }] }
    = .ok (Spec.unitEncode 0 [Spec.sectionEncode (mkPATSection 0 (exHdr 0 1) { exSH with versionNumber := 33, tableIDExtension := 65537 }
      { programs := [{ programMapID := 8197, programNumber := 65545 }] })] 0) :=
  pat_written_eq_spec 0 0 _ _ _ (by decide) rfl (by decide)

def differsB (r : Res Bytes) (bs : Bytes) : Bool := match r with | .ok b => decide (b ≠ bs) | _ => true

/-- excluded point 1: `Header.SectionLength = 0` (a section value built by hand without filling the derived field): the
writer emits the three header bytes — announcing section_length 17 — and NOTHING else (Go: `if s.Header.SectionLength > 0`
guards the syntax section and the CRC), the reference encoder emits the whole section -/
example : (match writePSIData { pointerField := 0, sections := [mkPATSection 0 (exHdr 0 0) exSH exPAT] } with
    | .ok b => decide (b = [0, 0, 0xb0, 0x11]) | _ => false) = true := by decide +kernel

/-- excluded point 2: a descriptor whose body exceeds 255 bytes (`PMTFits` fails: the 8-bit descriptor_length wraps to 1
while 257 bytes are written): the writer's loop length and section_length are computed from the wrapped value
(0x003 / 0x010), the reference's from the bytes actually present (0x103 / 0x110) -/
def exBigPMT : PMTData := { pcrPID := 0x100, programDescriptors := [userDescriptor 0x90 (List.replicate 257 7)] }
example : (match writePSIData { pointerField := 0, sections := [mkPMTSection 0 (exHdr 2 1) exSH exBigPMT] } with
    | .ok b => decide (b.take 13 = [0, 2, 0xb0, 0x10, 0, 1, 0xff, 0, 0xff, 0xe1, 0, 0xf0, 3]) | _ => false) = true
  ∧ (Spec.unitEncode 0 [Spec.sectionEncode (mkPMTSection 0 (exHdr 2 1) exSH exBigPMT)] 0).take 13
      = [0, 2, 0xb1, 0x10, 0, 1, 0xff, 0, 0xff, 0xe1, 0, 0xf1, 3] := by
  constructor <;> decide +kernel

/-- excluded point 3: a pointer field that is not a byte (Go `int`): the writer emits `uint8(256) = 0`, then 256 filler
bytes; the reference would write the number itself -/
example : differsB (writePSIData { pointerField := 256, sections := [] }) (Spec.unitEncode 256 [] 0) = true := by decide +kernel

end WriterEqSpec

end Astits.C13
