/-
C01 — mux → demux round trip returns every PES and table exactly once, unaltered.
The round trip is the composition of: the muxer refines the abstract specification `Spec.step` (tied to the code by
byte-for-byte comparison on every run; properties of the specification in C04/C05/C17), the specification's output
is a well-formed stream of the reference multiplexer (one unit per PES / table, cut in 184-byte pieces), the
demuxer delivers the units of such a stream (C02, C07), and the codecs round-trip (C11–C14).
The theorems here are about the specification side: what a receiver is owed for each call.
-/
import Astits.Spec.Mux
import Astits.Props.C02
namespace Astits.C01
open Spec

/-- a WriteData on an unknown PID, and every other rejected call, owes the receiver nothing -/
theorem rejected_owes_nothing (s : MuxSpec) (d : MuxerData) (h : s.streams.any (·.elementaryPID == d.pid) = false) :
    (step s (.data d)).1.delivered = [] := by
  simp [step, h]

/-- a table emission owes the receiver exactly one PAT and one PMT, the PMT listing exactly the current streams in
insertion order with the current PCR PID, the PAT mapping program 1 to the PMT PID -/
theorem tables_delivered (s : MuxSpec) :
    (tablesDelivered s).length = 2 ∧
    ((tablesDelivered s).getD 0 default).pat = some { programs := [{ programMapID := 0x1000, programNumber := 1 }], transportStreamID := 0 } ∧
    ((tablesDelivered s).getD 1 default).pmt = some { elementaryStreams := s.streams, pcrPID := s.pcrPID, programDescriptors := [], programNumber := 1 } ∧
    ((tablesDelivered s).getD 0 default).pid = 0 ∧ ((tablesDelivered s).getD 1 default).pid = 0x1000 := by
  simp [tablesDelivered]

/-- the pieces a PES is cut into concatenate to the PES packet: nothing is lost, duplicated or reordered
(packing of the first piece: whatever fits behind the adaptation field; then 184 bytes each) -/
theorem chunk184_flatten (fuel : Nat) (bs : Bytes) (h : bs.length ≤ fuel * 184) : (chunk184 fuel bs).flatten = bs := by
  induction fuel generalizing bs with
  | zero =>
    have : bs.length = 0 := by omega
    simp [chunk184, List.length_eq_zero_iff.mp this]
  | succ n ih =>
    unfold chunk184
    by_cases he : bs.isEmpty = true
    · simp [he, List.isEmpty_iff.mp he]
    · simp only [he, Bool.false_eq_true, if_false, List.flatten_cons]
      rw [ih (bs.drop 184) (by simp; omega), List.take_append_drop]

theorem pieces_concat (pes : Bytes) (firstCap : Nat) :
    (pes.take firstCap :: chunk184 (pes.length + 1) (pes.drop firstCap)).flatten = pes := by
  simp only [List.flatten_cons]
  rw [chunk184_flatten _ _ (by simp; omega), List.take_append_drop]

/-- every piece fits one packet payload -/
theorem chunk184_sizes (fuel : Nat) (bs : Bytes) : ∀ c ∈ chunk184 fuel bs, c.length ≤ 184 ∧ 0 < c.length := by
  induction fuel generalizing bs with
  | zero => simp [chunk184]
  | succ n ih =>
    unfold chunk184
    by_cases he : bs.isEmpty = true
    · simp [he]
    · simp only [he, Bool.false_eq_true, if_false, List.mem_cons]
      intro c hc
      rcases hc with rfl | hc
      · have : 0 < bs.length := by
          cases bs with
          | nil => simp at he
          | cons _ _ => simp
        simp only [List.length_take]
        omega
      · exact ih _ c hc

example : (chunk184 3 (List.replicate 200 7)).map List.length = [184, 16] := by decide +kernel

end Astits.C01
