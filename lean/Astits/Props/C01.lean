/-
C01 — mux → demux round trip returns every PES and table exactly once, unaltered.
The round trip is the composition of: the muxer refines the abstract specification `Spec.step` (tied to the code by
byte-for-byte comparison on every run; properties of the specification in C04/C05/C17), the specification's output
is a well-formed stream of the reference multiplexer (one unit per PES / table, cut in 184-byte pieces), the
demuxer delivers the units of such a stream (C02, C07), and the codecs round-trip (C11–C14).
The theorems here are about the specification side: what a receiver is owed for each call.
-/
import Astits.Spec.Mux
import Astits.Props.C02
import Astits.Props.C12
import Astits.Proofs.MuxDemux
import Astits.Proofs.MuxDemuxNext
import Astits.Proofs.MuxSafe
import Astits.Props.C14
namespace Astits.C01
open Spec

/-- a WriteData on an unknown PID, and every other rejected call, owes the receiver nothing -/
theorem rejected_owes_nothing (s : MuxSpec) (d : MuxerData) (h : s.streams.any (·.elementaryPID == d.pid) = false) :
    (step s (.data d)).1.delivered = [] := by
  simp [step, h]

/-- a table emission owes the receiver exactly one PAT and one PMT, the PMT listing exactly the current streams in
insertion order with the current PCR PID, the PAT mapping program 1 to the PMT PID -/
theorem tables_delivered (s : MuxSpec) :
    (tablesDelivered s).length = 2 ∧
    ((tablesDelivered s).getD 0 default).pat = some { programs := [{ programMapID := 0x1000, programNumber := 1 }], transportStreamID := 0 } ∧
    ((tablesDelivered s).getD 1 default).pmt = some { elementaryStreams := s.streams, pcrPID := s.pcrPID, programDescriptors := [], programNumber := 1 } ∧
    ((tablesDelivered s).getD 0 default).pid = 0 ∧ ((tablesDelivered s).getD 1 default).pid = 0x1000 := by
  simp [tablesDelivered]

/-- the pieces a PES is cut into concatenate to the PES packet: nothing is lost, duplicated or reordered
(packing of the first piece: whatever fits behind the adaptation field; then 184 bytes each) -/
theorem chunk184_flatten (fuel : Nat) (bs : Bytes) (h : bs.length ≤ fuel * 184) : (chunk184 fuel bs).flatten = bs := by
  induction fuel generalizing bs with
  | zero =>
    have : bs.length = 0 := by omega
    simp [chunk184, List.length_eq_zero_iff.mp this]
  | succ n ih =>
    unfold chunk184
    by_cases he : bs.isEmpty = true
    · simp [he, List.isEmpty_iff.mp he]
    · simp only [he, Bool.false_eq_true, if_false, List.flatten_cons]
      rw [ih (bs.drop 184) (by simp; omega), List.take_append_drop]

theorem pieces_concat (pes : Bytes) (firstCap : Nat) :
    (pes.take firstCap :: chunk184 (pes.length + 1) (pes.drop firstCap)).flatten = pes := by
  simp only [List.flatten_cons]
  rw [chunk184_flatten _ _ (by simp; omega), List.take_append_drop]

/-- every piece fits one packet payload -/
theorem chunk184_sizes (fuel : Nat) (bs : Bytes) : ∀ c ∈ chunk184 fuel bs, c.length ≤ 184 ∧ 0 < c.length := by
  induction fuel generalizing bs with
  | zero => simp [chunk184]
  | succ n ih =>
    unfold chunk184
    by_cases he : bs.isEmpty = true
    · simp [he]
    · simp only [he, Bool.false_eq_true, if_false, List.mem_cons]
      intro c hc
      rcases hc with rfl | hc
      · have : 0 < bs.length := by
          cases bs with
          | nil => simp at he
          | cons _ _ => simp
        simp only [List.length_take]
        omega
      · exact ih _ c hc

example : (chunk184 3 (List.replicate 200 7)).map List.length = [184, 16] := by decide +kernel

/-! ## C01 on the MODEL: mux → demux end to end, one elementary PID (proofs: `Astits/Proofs/MuxDemux.lean`)

Composition of C05 (continuity counters of `writeDataLoop`), C11 (`parsePacket ∘ writePacket = normalise`), C02/C07
(the pool hands over exactly the units of a PID, whatever is interleaved) and C12 (`parsePESData` of a written PES
packet).  Vocabulary (namespace `Astits.MuxDemux`):

* `loopPkts pid hdr fuel data ps waf af cc` — the packets `writeDataLoop` builds (same recursion);
  `Written pks cs` — `cs` are the `writePacket _ 188` images of `pks`, one each, in order;
  `payloadOnly` — the payload-carrying ones; `Chain ps v pks` — first packet has PUSI = `ps`, counters are the
  successors of `v`, no other packet has PUSI, none announces a discontinuity;
* `CallerAF a` — the caller's adaptation field: not the one-byte form, `AFWF`, `stuffingLength = 0`,
  `discontinuityIndicator = false`; `GoodData m d` — `PESHeaderOk` effective header, `CallerAF`, non-empty payload;
* `ParsesTo cs s` — `s` is the demuxer's packet sequence for the chunks `cs` (`parsePacket none` of each);
* `ESPid pid pm` — `pid ≠ 1` and not a PSI PID (`isPSIPayload pid pm = false`);
* `groupsOn pm pid s` / `deliveredOn pm pid s` — the groups of `pid` the pool flushes while `s` is read plus the one
  the end-of-stream drain hands over, and `parseData` of each;
* `MuxCounters.run m ops` — a history of API calls (`Op`), `HistOK pid` — every call admissible, every `WriteData`
  succeeded (no error, no panic), those on `pid` with `GoodData`; `writesOn pid m ops` — the PES written on `pid`. -/

open Astits.MuxDemux Astits.MuxCounters Astits.PacketRT Astits.PESRT

/-- **M1a — what one successful run of the packetisation loop writes.**  The chunks appended are the `writePacket`
images of `loopPkts`, one each and in order; the payloads of the payload-carrying packets, concatenated, are the PES
header followed by *all* the data (every byte once, in order); the returned counter is that of the last
payload-carrying packet. -/
theorem loop_written (pid : Nat) (hdr : PESHeader) (fuel : Nat) (data : Bytes) (ps waf : Bool)
    (af : Option PacketAdaptationField) (cc : WrappingCounter) (acc l : List Bytes) (cc' : WrappingCounter)
    (af' : Option PacketAdaptationField) (acc' : List Bytes)
    (h : writeDataLoop pid hdr fuel data ps waf af cc acc = (.ok l, cc', af', acc')) :
    ∃ cs, l = acc ++ cs ∧ acc' = acc ++ cs ∧ Written (loopPkts pid hdr fuel data ps waf af cc) cs ∧
      ((ps = true → data ≠ []) →
        concatPayload (payloadOnly (loopPkts pid hdr fuel data ps waf af cc))
          = (if ps then pesHeaderBytes hdr data.length else []) ++ data) ∧
      cc'.value = (lastCC (payloadOnly (loopPkts pid hdr fuel data ps waf af cc))).getD cc.value :=
  MuxDemux.loop_written pid hdr fuel data ps waf af cc acc l cc' af' acc' h

/-- **M1b — shape.**  The payload-carrying packets are p₀ … pₖ with PUSI on p₀ only (when the PES header is still to
be written), counters consecutive from the successor of `cc`, no announced discontinuity (`Chain`). -/
theorem loop_chain (pid : Nat) (hdr : PESHeader) (fuel : Nat) (data : Bytes) (ps waf : Bool)
    (af : Option PacketAdaptationField) (cc : WrappingCounter) (hcc : CCInv cc) (haf : AFHyp waf af) :
    Chain ps cc.value (payloadOnly (loopPkts pid hdr fuel data ps waf af cc)) :=
  MuxDemux.loop_chain pid hdr fuel data ps waf af cc hcc haf

/-- **M1c — every packet is well-formed (`PacketWF`), fills its 188 bytes exactly (`PacketFull`: no 0xff padding
enters the payload) and is on `pid`.** -/
theorem loop_good (pid : Nat) (hdr : PESHeader) (hpid : pid < 8192) (fuel : Nat) (data : Bytes) (ps waf : Bool)
    (af : Option PacketAdaptationField) (cc : WrappingCounter) (hcc : CCInv cc) (haf : AFHyp waf af) :
    ∀ p ∈ loopPkts pid hdr fuel data ps waf af cc, PacketWF p ∧ C11.PacketFull p ∧ p.header.pid = pid :=
  MuxDemux.loop_good pid hdr hpid fuel data ps waf af cc hcc haf

/-- **M1d — the adaptation field.**  When the PES header fits behind it (or there is none), the first packet carries
PUSI, the PES header, the first payload bytes and the caller's adaptation field — as is when the payload fills the
packet, with `stuffingLength := left` when `left` bytes are spare (`stuffPair_some`); without a caller's adaptation
field the packet has none, or the stuffing-only `newStuffingAF left` (`stuffPair_none`). -/
theorem first_packet_fits (pid : Nat) (hdr : PESHeader) (fuel : Nat) (data : Bytes) (waf : Bool)
    (af : Option PacketAdaptationField) (cc : WrappingCounter) (payload : Bytes) (ntot np : Nat) (hd : data ≠ [])
    (hfit : ¬ bytesAvail waf af < 6 + (calcPESOptionalHeaderLength hdr.optionalHeader : Int))
    (hw : writePESData hdr data true (bytesAvail waf af) = .ok (payload, ntot, np)) :
    loopPkts pid hdr (fuel + 1) data true waf af cc =
      payloadPkt pid true cc.inc.get payload (stuffPair (bytesAvail waf af - ntot) (if waf then af else none) af).1 ::
        loopPkts pid hdr fuel (data.drop np) false false
          (stuffPair (bytesAvail waf af - ntot) (if waf then af else none) af).2 cc.inc :=
  loopPkts_fits pid hdr fuel data waf af cc payload ntot np hd hfit hw

/-- **M1e — the adaptation field when the PES header does not fit behind it**: it travels alone in a payload-less
packet carrying the *current* counter value, stuffed to 188 bytes; the loop goes on without it, so the first
payload-carrying packet has no adaptation field of the caller's.  The demuxer's pool ignores payload-less packets:
in this case the caller's adaptation field does **not** reach `DemuxerData.FirstPacket`. -/
theorem first_packet_nofit (pid : Nat) (hdr : PESHeader) (fuel : Nat) (data : Bytes) (a : PacketAdaptationField)
    (cc : WrappingCounter) (hd : data ≠ [])
    (hnofit : bytesAvail true (some a) < 6 + (calcPESOptionalHeaderLength hdr.optionalHeader : Int)) :
    loopPkts pid hdr (fuel + 1) data true true (some a) cc =
      afOnlyPkt pid (cc.get % 16) { a with stuffingLength := 183 - afSize a } ::
        loopPkts pid hdr fuel data true false (some { a with stuffingLength := 0 }) cc :=
  loopPkts_nofit pid hdr fuel data a cc hd hnofit

/-- **M2 — parse back.**  The chunks written for well-formed packets that fill their 188 bytes parse, one by one, to
the normalised packets: the demuxer's packet sequence is exactly the muxer's. -/
theorem written_parses {pks : List Packet} {cs : List Bytes} (hw : Written pks cs)
    (hg : ∀ p ∈ pks, PacketWF p ∧ C11.PacketFull p) : ParsesTo cs (pks.map normalise) :=
  MuxDemux.written_parses hw hg

/-- **M3 — one unit through `parseData`.** -/
theorem parseData_pes_unit (pm : ProgramMap) (first : Packet) (rest : List Packet) (hdr : PESHeader) (data : Bytes)
    (hpid : ESPid first.header.pid pm) (hok : PESHeaderOk hdr)
    (hc : concatPayload (first :: rest) = pesHeaderBytes hdr data.length ++ data) :
    parseData (first :: rest) .none pm =
      .ok [{ firstPacket := some { first with payload := [] },
             pes := some { data := data, header := { hdr with packetLength := pesPacketLengthFor hdr data.length } },
             pid := first.header.pid }] :=
  MuxDemux.parseData_pes_unit pm first rest hdr data hpid hok hc

/-- **M4 (pool + `parseData` level, any multiplexer).**  If the payload-carrying packets of `pid` are, in stream order,
the packets of units `ws` (`ChainOK`: PUSI on each first packet only, counters running on within and across units, no
announced discontinuity) each carrying a written PES packet, then — whatever is interleaved on other PIDs, wherever
payload-less packets of `pid` stand — the demuxer delivers for `pid` exactly one PES per unit, in order: the first
units when the next unit starts, the last at the end-of-stream drain. -/
theorem units_delivered (pm : ProgramMap) (pid : Nat) (hes : ESPid pid pm) (s : List Packet) (ws : List PESUnit)
    (hf : (s.filter fun p => p.header.pid == pid && p.header.hasPayload) = ws.flatMap (·.unit.packets))
    (hon : ∀ w ∈ ws, C02.unitOnPID pid w.unit) (hc : ChainOK [] (ws.map (·.unit)))
    (hw : ∀ w ∈ ws, PESHeaderOk w.hdr ∧
      concatPayload w.unit.packets = pesHeaderBytes w.hdr w.data.length ++ w.data) :
    deliveredOn pm pid s = ws.map fun w => .ok [pesDelivered pid w.hdr w.data w.unit.first] :=
  MuxDemux.units_delivered pm pid hes s ws hf hon hc hw

/-- **C01 (model; pool + `parseData` level).**  Take a muxer state satisfying the invariant (e.g. a new muxer) and any
history of calls — `AddElementaryStream` (explicit PIDs), `RemoveElementaryStream`, `SetPCRPID`, `WriteTables`,
`WriteData` on any PID — in which every `WriteData` succeeded and those on `pid` had `GoodData` input.  Let `s` be
the packets the demuxer parses from the emitted chunks.  Then, for an elementary-stream PID `pid` (not 0x1000), what
the demuxer delivers for `pid` is exactly one PES per `WriteData` call on `pid`, in call order, each `.ok` with
* `data` = the payload written,
* `header` = the header written (stream id defaulted from the stream type, `PacketLength` as computed by the writer),
* `firstPacket` = the first payload-carrying packet as parsed back (header with PUSI and the call's first counter,
  adaptation field as described by M1d/M1e, payload removed),
* `pid`.
Nothing is lost, duplicated, reordered or reported as an error. -/
theorem mux_demux_pid (pm : ProgramMap) (pid : Nat) (hes : ESPid pid pm) (hpmt : pid ≠ 4096)
    (m : Mux) (ops : List Op) (hinv : MuxInv m) (hok : RunAll (HistOK pid) m ops)
    (s : List Packet) (hs : ParsesTo (run m ops).1 s) :
    deliveredOn pm pid s =
      (writesOn pid m ops).map fun w => .ok [pesDelivered pid w.hdr w.data w.unit.first] :=
  history_delivered pm pid hes hpmt m ops hinv hok s hs

/-- the packets of one successful, well-formed `WriteData`, as the demuxer sees them: one unit -/
theorem call_unit (m : Mux) (d : MuxerData) (hinv : MuxInv m) (hs : Succeeded m d) (hg : GoodData m d) :
    (unitOfCall m d).packets = (payloadOnly (callPkts m d)).map normalise ∧ UnitOK (unitOfCall m d) ∧
    (unitOfCall m d).first.header.continuityCounter = next (stored m d.pid) ∧
    stored (m.writeData d).2.1 d.pid = lastOf (unitOfCall m d) ∧
    C02.unitOnPID d.pid (unitOfCall m d) ∧
    concatPayload (unitOfCall m d).packets = pesHeaderBytes (dataHdr m d) d.pes.data.length ++ d.pes.data :=
  MuxDemux.call_unit m d hinv hs hg

/-! ### non-vacuity: a history with three `WriteData` calls on PID 256 (adaptation field with PCR that fits; no
adaptation field, short payload; adaptation field too large for the PES header to fit behind it), tables in between -/

def exStream : PMTElementaryStream := { elementaryPID := 256, streamType := 0x0f }

def exAF : PacketAdaptationField :=
  { hasPCR := true, pcr := some { base := 123456, extension := 7 }, randomAccessIndicator := true }

/-- 175 bytes of private data: 177 bytes behind the length byte, 6 bytes left — the 14-byte PES header does not fit -/
def exAF3 : PacketAdaptationField :=
  { hasTransportPrivateData := true, transportPrivateData := List.replicate 175 0x11, transportPrivateDataLength := 175 }

/-- 300 payload bytes behind an adaptation field with a PCR: two packets; stream id defaulted to 0xc0 -/
def exD1 : MuxerData :=
  { pid := 256, adaptationField := some exAF,
    pes := { data := List.replicate 300 0xab, header := { optionalHeader := some C12.exAudioOpt } } }

/-- 10 payload bytes, no adaptation field: one stuffed packet -/
def exD2 : MuxerData :=
  { pid := 256, pes := { data := List.replicate 10 0xcd, header := { optionalHeader := some C12.exAudioOpt, streamID := 0xc0 } } }

/-- 200 payload bytes, the large adaptation field: an adaptation-field-only packet and two payload packets -/
def exD3 : MuxerData :=
  { pid := 256, adaptationField := some exAF3,
    pes := { data := List.replicate 200 0xef, header := { optionalHeader := some C12.exAudioOpt, streamID := 0xc0 } } }

def exOps : List Op := [.add exStream, .setPCR 256, .data exD1, .tables, .data exD2, .data exD3]

def exM0 : Mux := newMux 40
def exM2 : Mux := (run exM0 [.add exStream, .setPCR 256]).2
def exM3 : Mux := (step exM2 (.data exD1)).2
def exM4 : Mux := (step exM3 .tables).2
def exM5 : Mux := (step exM4 (.data exD2)).2

def exHdr : PESHeader := { optionalHeader := some C12.exAudioOpt, streamID := 0xc0 }

theorem exHdr_ok : PESHeaderOk exHdr := by
  refine ⟨by decide, ?_⟩
  rw [if_pos (by decide)]
  exact ⟨C12.exAudioOpt, rfl, C12.exAudioOpt_ok⟩

theorem exAF_caller : CallerAF exAF :=
  ⟨rfl, ⟨fun _ => by decide, fun h => absurd h (by decide), fun h => absurd h (by decide), fun h => absurd h (by decide),
    fun h => absurd h (by decide)⟩, rfl, rfl⟩

theorem exAF3_caller : CallerAF exAF3 :=
  ⟨rfl, ⟨fun h => absurd h (by decide), fun h => absurd h (by decide), fun h => absurd h (by decide),
    fun _ => ⟨by decide +kernel, by decide +kernel⟩, fun h => absurd h (by decide)⟩, rfl, rfl⟩

theorem ex_hdr1 : dataHdr exM2 exD1 = exHdr := by decide +kernel
theorem ex_hdr2 : dataHdr exM4 exD2 = exHdr := by decide +kernel
theorem ex_hdr3 : dataHdr exM5 exD3 = exHdr := by decide +kernel

theorem exGood1 : GoodData exM2 exD1 :=
  ⟨by rw [ex_hdr1]; exact exHdr_ok, fun a h => (by cases h; exact exAF_caller), by decide +kernel⟩
theorem exGood2 : GoodData exM4 exD2 :=
  ⟨by rw [ex_hdr2]; exact exHdr_ok, fun a h => (by cases h), by decide +kernel⟩
theorem exGood3 : GoodData exM5 exD3 :=
  ⟨by rw [ex_hdr3]; exact exHdr_ok, fun a h => (by cases h; exact exAF3_caller), by decide +kernel⟩

/-- the hypotheses of `mux_demux_pid` hold for the example history -/
theorem exHist : RunAll (HistOK 256) exM0 exOps := by
  refine ⟨⟨⟨by decide, by decide, by decide⟩, fun d h => (by cases h)⟩, ⟨trivial, fun d h => (by cases h)⟩, ⟨trivial, ?_⟩,
    ⟨trivial, fun d h => (by cases h)⟩, ⟨trivial, ?_⟩, ⟨trivial, ?_⟩, trivial⟩
  · intro d h
    cases h
    exact ⟨by unfold Succeeded; decide +kernel, fun _ => exGood1⟩
  · intro d h
    cases h
    exact ⟨by unfold Succeeded; decide +kernel, fun _ => exGood2⟩
  · intro d h
    cases h
    exact ⟨by unfold Succeeded; decide +kernel, fun _ => exGood3⟩

theorem exESPid : ESPid 256 [(4096, 1)] := ⟨by decide +kernel, by decide +kernel⟩

/-- executable form of `ParsesTo` -/
def parseAll : List Bytes → Option (List Packet)
  | [] => some []
  | c :: cs =>
    match (parsePacket none).val c, parseAll cs with
    | .ok p, some ps => some (p :: ps)
    | _, _ => none

theorem parsesTo_of_parseAll {cs : List Bytes} {s : List Packet} (h : parseAll cs = some s) : ParsesTo cs s := by
  induction cs generalizing s with
  | nil => simp only [parseAll, Option.some.injEq] at h; subst h; trivial
  | cons c cs ih =>
    unfold parseAll at h
    split at h
    · rename_i p ps h1 h2
      simp only [Option.some.injEq] at h; subst h
      exact ⟨h1, ih h2⟩
    · cases h

/-- the demuxer's packet sequence exists for the example history: 2 table packets (first `WriteData`), 2 PES packets,
2 table packets (`WriteTables`), 1 PES packet, 1 adaptation-field-only packet and 2 PES packets -/
theorem exStream_exists : ∃ s, ParsesTo (run exM0 exOps).1 s ∧ s.length = 10 := by
  have h : ((parseAll (run exM0 exOps).1).map List.length) = some 10 := by decide +kernel
  revert h
  generalize (run exM0 exOps).1 = cs
  intro h
  cases hp : parseAll cs with
  | none => rw [hp] at h; cases h
  | some s =>
    rw [hp] at h
    simp only [Option.map_some, Option.some.injEq] at h
    exact ⟨s, parsesTo_of_parseAll hp, h⟩

theorem ex_writes : writesOn 256 exM0 exOps = [writeOf exM2 exD1, writeOf exM4 exD2, writeOf exM5 exD3] := rfl

set_option maxRecDepth 8000 in
/-- the example history through `mux_demux_pid`: three PES, in order, each once, no error -/
theorem ex_delivered (s : List Packet) (hs : ParsesTo (run exM0 exOps).1 s) :
    deliveredOn [(4096, 1)] 256 s =
      [.ok [pesDelivered 256 exHdr (List.replicate 300 0xab) (unitOfCall exM2 exD1).first],
       .ok [pesDelivered 256 exHdr (List.replicate 10 0xcd) (unitOfCall exM4 exD2).first],
       .ok [pesDelivered 256 exHdr (List.replicate 200 0xef) (unitOfCall exM5 exD3).first]] := by
  have hne : (256 : Nat) ≠ 4096 := by decide +kernel
  rw [mux_demux_pid [(4096, 1)] 256 exESPid hne exM0 exOps (muxInv_new 40) exHist s hs, ex_writes]
  simp only [List.map_cons, List.map_nil, writeOf, ex_hdr1, ex_hdr2, ex_hdr3]
  rfl

/-- M1: the hypotheses of `loop_written`, `loop_chain`, `loop_good` hold for the loop run of the first example call
(fresh counter, adaptation field with PCR, 300 payload bytes) -/
example : (writeDataLoop 256 exHdr 302 (List.replicate 300 0xab) true true (some exAF) (newWrappingCounter 15) []).1.isOk = true
    ∧ CCInv (newWrappingCounter 15) ∧ AFHyp true (some exAF) ∧ 256 < 8192 :=
  ⟨by decide +kernel, ccInv_fresh, fun _ => ⟨exAF, rfl, exAF_caller⟩, by decide⟩

/-- M2: the hypotheses of `written_parses` hold for the packet of C11's example (PCR, private data, extension, stuffing) -/
example : Written [C11.exPkt] [C11.exBytes] ∧ ∀ p ∈ [C11.exPkt], PacketWF p ∧ C11.PacketFull p :=
  ⟨⟨C11.exPkt_written, trivial⟩, fun p hp => by
    simp only [List.mem_cons, List.not_mem_nil, or_false] at hp
    subst hp
    exact ⟨C11.exPkt_wf, C11.exPkt_full⟩⟩

/-- M3: the hypotheses of `parseData_pes_unit` hold for the unit of the second example call -/
example : ESPid (unitOfCall exM4 exD2).first.header.pid [(4096, 1)] ∧ PESHeaderOk exHdr ∧
    concatPayload ((unitOfCall exM4 exD2).first :: (unitOfCall exM4 exD2).rest)
      = pesHeaderBytes exHdr (List.replicate 10 0xcd).length ++ List.replicate 10 0xcd :=
  ⟨⟨by decide +kernel, by decide +kernel⟩, exHdr_ok, by decide +kernel⟩

/-- packets built: 2, 1, and 3 (the first of which is the adaptation-field-only packet) -/
example : (callPkts exM2 exD1).length = 2 ∧ (callPkts exM4 exD2).length = 1 ∧
    (callPkts exM5 exD3).map (·.header.hasPayload) = [false, true, true] := by decide +kernel

/-- first delivered packet of the first PES: the caller's adaptation field (PCR), `length` recomputed; counter 0 -/
example : { (unitOfCall exM2 exD1).first with payload := [] } =
    { adaptationField := some { exAF with length := 7 },
      header := { continuityCounter := 0, hasAdaptationField := true, hasPayload := true, payloadUnitStartIndicator := true,
                  pid := 256, transportErrorIndicator := false, transportPriority := false, transportScramblingControl := 0 },
      payload := [] } := by decide +kernel

/-- second PES: stuffing-only adaptation field (158 stuffing bytes); counter 2 -/
example : { (unitOfCall exM4 exD2).first with payload := [] } =
    { adaptationField := some { length := 159, stuffingLength := 158 },
      header := { continuityCounter := 2, hasAdaptationField := true, hasPayload := true, payloadUnitStartIndicator := true,
                  pid := 256, transportErrorIndicator := false, transportPriority := false, transportScramblingControl := 0 },
      payload := [] } := by decide +kernel

/-- third PES: the caller's adaptation field went out alone; the delivered first packet has none; counter 3 -/
example : { (unitOfCall exM5 exD3).first with payload := [] } =
    { adaptationField := none,
      header := { continuityCounter := 3, hasAdaptationField := false, hasPayload := true, payloadUnitStartIndicator := true,
                  pid := 256, transportErrorIndicator := false, transportPriority := false, transportScramblingControl := 0 },
      payload := [] } := by decide +kernel

/-! ## Final step, labelled separately: sequences of `Demux.NextData` calls (proofs: `Astits/Proofs/MuxDemuxNext.lean`)

The demuxer model itself — reader, packet buffer (`DemuxerOptPacketSize(188)`), packet loop, data buffer, program
map updates, end-of-stream drain — instead of the pool-level functions `flushesOf` / `queueAfter`.

* `demuxOf bytes` — a fresh demuxer on `bytes`; `collect n d` — the results of up to `n` calls of `NextData`, stopping
  at `ErrNoMorePackets`, and whether that end was reached; `after k d` — the demuxer after `k` calls;
* `pidOut pid rs` — the `DemuxerData` with PID `pid` among the results `rs` (errors carry no PID);
* `accepted pid p` — `p` is on `pid`, has payload and no transport error; `groupsFrom pid q l` — the groups the
  accumulator of `pid` flushes from queue `q` while the accepted packets `l` arrive, then its last queue. -/

/-- **`NextData` sequences, any stream.**  For any byte stream made of whole 188-byte chunks that parse (`ParsesTo`),
read by a fresh demuxer until `NextData` reports the end (`hend`), and any PID that the program map never turns into
a PSI PID during these calls (`hsafe`): the data returned for that PID are exactly the `parseData` results of the
groups its accumulator hands over — in order, each once; the data buffer, the other PIDs' units (whatever they are:
tables, other streams, parse errors) and the drain order do not interfere. -/
theorem nextData_delivers (pid : Nat) (cs : List Bytes) (s : List Packet) (hs : ParsesTo cs s)
    (hlen : ∀ c ∈ cs, c.length = 188)
    (n : Nat) (hsafe : ∀ k, k < n → ESPid pid (after k (demuxOf cs.flatten)).programMap)
    (hend : (collect n (demuxOf cs.flatten)).2 = true) :
    pidOut pid (collect n (demuxOf cs.flatten)).1 =
      okAll ((groupsFrom pid [] (s.filter (accepted pid))).map (parseData · .none [])) :=
  MuxDemux.nextData_delivers pid cs s hs hlen n hsafe hend

/-- **the call sequence terminates**: on a stream of whole, parseable 188-byte chunks, finitely many calls of
`NextData` reach `ErrNoMorePackets` (each call consumes a packet, empties a pool entry or pops the data buffer) -/
theorem nextData_terminates (cs : List Bytes) (s : List Packet) (hs : ParsesTo cs s) (hlen : ∀ c ∈ cs, c.length = 188) :
    ∃ n, (collect n (demuxOf cs.flatten)).2 = true :=
  MuxDemux.nextData_terminates cs s hs hlen

/-- **C01 on the model through `Demux.NextData` (partial).**  The history hypotheses of `mux_demux_pid`; the bytes
the muxer produced are read by a fresh demuxer with `n` calls of `NextData`, the last of which reported the end of the
stream (`hend`; such an `n` exists: `nextData_terminates`, and see `mux_demux_nextData_all_partial`).  Then the
`DemuxerData` returned for `pid` are exactly the PES written on `pid`, in call order, each once, each with payload,
header, first packet and PID as in `mux_demux_pid`.

`_partial`: one hypothesis about the run is *assumed* rather than derived from the muxer side —
`hsafe`: during these calls the demuxer's program map never turns `pid` into a PSI PID (it is `[]`, then
`[(0x1000, 1)]` once the muxer's PAT has been parsed).  Deriving this needs the PAT/PMT section round trips (C13) with
the 0xff padding of the table packets, taken through the accumulator's early-flush path, plus the side conditions
under which the written PMT is well-formed (descriptor lengths) and no elementary PID in the DVB SI range
0x10–0x14, 0x1e, 0x1f (whose PES units the demuxer would parse as PSI) — not done here.  The hypothesis is decidable
and is discharged by evaluation for the example history below. -/
theorem mux_demux_nextData_partial (pid : Nat) (hpmt : pid ≠ 4096) (m : Mux) (ops : List Op) (hinv : MuxInv m)
    (hok : RunAll (HistOK pid) m ops) (s : List Packet) (hs : ParsesTo (run m ops).1 s)
    (n : Nat) (hsafe : ∀ k, k < n → ESPid pid (after k (demuxOf (run m ops).1.flatten)).programMap)
    (hend : (collect n (demuxOf (run m ops).1.flatten)).2 = true) :
    pidOut pid (collect n (demuxOf (run m ops).1.flatten)).1 =
      (writesOn pid m ops).map fun w => pesDelivered pid w.hdr w.data w.unit.first :=
  history_nextData_partial pid hpmt m ops hinv hok s hs n hsafe hend

/-- the same with termination made explicit: some number of calls reaches the end of the stream, and from then on the
data collected for `pid` are exactly the PES written (`hsafe` as above, for all calls) -/
theorem mux_demux_nextData_all_partial (pid : Nat) (hpmt : pid ≠ 4096) (m : Mux) (ops : List Op) (hinv : MuxInv m)
    (hok : RunAll (HistOK pid) m ops) (s : List Packet) (hs : ParsesTo (run m ops).1 s)
    (hsafe : ∀ k, ESPid pid (after k (demuxOf (run m ops).1.flatten)).programMap) :
    ∃ n, (collect n (demuxOf (run m ops).1.flatten)).2 = true ∧
      ∀ k, pidOut pid (collect (n + k) (demuxOf (run m ops).1.flatten)).1 =
        (writesOn pid m ops).map fun w => pesDelivered pid w.hdr w.data w.unit.first :=
  history_nextData_all_partial pid hpmt m ops hinv hok s hs hsafe

/-! ### non-vacuity: the example history through `NextData` — 8 calls: PAT, PMT, PES 1, PAT, PMT, PES 2, PES 3, end -/

theorem ex_end : (collect 8 (demuxOf (run exM0 exOps).1.flatten)).2 = true := by decide +kernel

theorem ex_safe : ∀ k, k < 8 → ESPid 256 (after k (demuxOf (run exM0 exOps).1.flatten)).programMap := by
  decide +kernel

example : (collect 8 (demuxOf (run exM0 exOps).1.flatten)).1.length = 7 := by decide +kernel

set_option maxRecDepth 8000 in
/-- the seven results of the eight calls contain, on PID 256, exactly the three PES written -/
theorem ex_nextData (s : List Packet) (hs : ParsesTo (run exM0 exOps).1 s) :
    pidOut 256 (collect 8 (demuxOf (run exM0 exOps).1.flatten)).1 =
      [pesDelivered 256 exHdr (List.replicate 300 0xab) (unitOfCall exM2 exD1).first,
       pesDelivered 256 exHdr (List.replicate 10 0xcd) (unitOfCall exM4 exD2).first,
       pesDelivered 256 exHdr (List.replicate 200 0xef) (unitOfCall exM5 exD3).first] := by
  have hne : (256 : Nat) ≠ 4096 := by decide +kernel
  rw [mux_demux_nextData_partial 256 hne exM0 exOps (muxInv_new 40) exHist s hs 8 ex_safe ex_end, ex_writes]
  simp only [List.map_cons, List.map_nil, writeOf, ex_hdr1, ex_hdr2, ex_hdr3]
  rfl

/-! ## C01 with AUTOMATIC PIDs, the TABLE half, and `hsafe` discharged
(proofs: `Astits/Proofs/MuxAutoDemux.lean`, `MuxTablesDemux.lean`, `DemuxSafePM.lean`, `MuxSafe.lean`)

`mux_demux_pid` above requires `OpOK`: every `AddElementaryStream` names its PID.  Here admissibility is
`MuxTables.StepOK'` (an explicit PID is 13-bit and not 0x1000; PID 0 asks for an automatic PID, only while fewer than
7934 streams exist) and the invariant is `MuxTables.Reach` (`PidInv` + version invariant), which holds of a new muxer.

* `HistOKA pid m op` — `StepOK' m op`; every `WriteData` succeeded; those on `pid` have `GoodData` input;
* `Emits m op` — the call hands PAT and PMT to the writer; `emissions m ops` — the states in which the calls of the
  history did so, in order; `TablesHyp m op` — if the call emits, the streams of `m` are `StreamOk` (8-bit stream type,
  descriptors that round-trip, descriptor loop < 4096 bytes) and the PMT section fits its 12-bit length;
* `patDatum cc` / `pmtDatum cc streams pcr` — the `DemuxerData` owed for a PAT / PMT whose packet carried counter `cc`;
* `SI pid` — the DVB SI PIDs 0x10–0x14, 0x1e, 0x1f, whose units the demuxer parses as PSI whatever the program map. -/

namespace Auto
open Astits.MuxTables Astits.MuxAutoDemux Astits.MuxTablesDemux Astits.MuxSafe Astits.DemuxSafePM

/-- **C01, PES half, automatic PIDs included (pool + `parseData` level).**  As `mux_demux_pid`, for histories in which
streams may be added with PID 0 (automatic assignment). -/
theorem mux_demux_pid_auto (pm : ProgramMap) (pid : Nat) (hes : ESPid pid pm) (hpmt : pid ≠ 4096)
    (m : Mux) (ops : List Op) (hinv : PidInv m) (hok : RunAll (HistOKA pid) m ops)
    (s : List Packet) (hs : ParsesTo (run m ops).1 s) :
    deliveredOn pm pid s =
      (writesOn pid m ops).map fun w => .ok [pesDelivered pid w.hdr w.data w.unit.first] :=
  history_delivered' pm pid hes hpmt m ops hinv hok s hs

/-- **C01, TABLE half (pool + `parseData` level).**  Take a reachable muxer state (e.g. a new muxer) and any history of
calls — adds with explicit or automatic PIDs, removes, `SetPCRPID`, `WriteTables`, `WriteData`, succeeding or failing —
such that whenever a call emits the tables the streams satisfy `TablesHyp`.  Let `s` be the packets the demuxer parses
from the emitted chunks and `pm` a program map that knows PID 0x1000 (as the demuxer's does once it has seen the first
PAT).  Then what the demuxer delivers
* on PID 0 is exactly one PAT per emission, in order, each `.ok`, mapping program 1 to PID 0x1000
  (`patData`), with the emitting packet's header (counter = successor of the stored PAT counter) as first packet;
* on PID 0x1000 is exactly one PMT per emission, in order, each `.ok`, for program 1, listing exactly the streams
  present *at that emission* (insertion order, automatic PIDs filled in) with the PCR PID current at that emission.
Each table packet is flushed by the accumulator at once, alone (early flush of a complete unit), so nothing is left
for the end-of-stream drain; nothing is lost, duplicated, reordered or reported as an error. -/
theorem mux_demux_tables (pm : ProgramMap) (hpm : pm.has 4096 = true) (m : Mux) (ops : List Op) (h : Reach m)
    (hok : RunAll (fun m op => StepOK' m op ∧ TablesHyp m op) m ops) (s : List Packet) (hs : ParsesTo (run m ops).1 s) :
    deliveredOn pm 0 s = (emissions m ops).map (fun m' => .ok [patDatum (next m'.patCC.value)]) ∧
    deliveredOn pm 4096 s =
      (emissions m ops).map (fun m' => .ok [pmtDatum (next m'.pmtCC.value) m'.streams m'.pcrPID]) :=
  MuxTablesDemux.tables_delivered pm hpm m ops h hok s hs

/-- what is delivered, spelled out -/
theorem patDatum_eq (cc : Nat) : patDatum cc =
    { firstPacket := some (tablePacket 0 cc []), pid := 0,
      pat := some { programs := [{ programMapID := 0x1000, programNumber := 1 }], transportStreamID := 0 } } := rfl
theorem pmtDatum_eq (cc : Nat) (streams : List PMTElementaryStream) (pcr : Nat) : pmtDatum cc streams pcr =
    { firstPacket := some (tablePacket 0x1000 cc []), pid := 0x1000,
      pmt := some { elementaryStreams := streams, pcrPID := pcr, programDescriptors := [], programNumber := 1 } } := rfl

/-- `emissions`, spelled out: the state of every call that emits, in call order -/
theorem emissions_cons (m : Mux) (op : Op) (ops : List Op) :
    emissions m (op :: ops) = (if Emits m op then [m] else []) ++ emissions (step m op).2 ops := rfl

/-- streams without descriptors, or with descriptors well-formed in the sense of C14 (`C14.DescWF`: any typed
descriptor satisfying its kind's predicate, or a user-defined one), satisfy `StreamOk` -/
theorem streamOk_of_wf (es : PMTElementaryStream) (ht : es.streamType < 256)
    (hd : ∀ d ∈ es.elementaryStreamDescriptors, C14.DescWF d)
    (hfit : descriptorsSize es.elementaryStreamDescriptors < 4096) : StreamOk es :=
  ⟨ht, fun d h => C14.desc_ok_wf d (hd d h), hfit⟩

theorem streamOk_no_descriptors (es : PMTElementaryStream) (ht : es.streamType < 256)
    (hd : es.elementaryStreamDescriptors = []) : StreamOk es :=
  ⟨ht, (by rw [hd]; intro d h; cases h), (by rw [hd]; decide)⟩

/-- **"the PMT fits one packet" is enforced by the muxer**: in a reachable state whose streams are `StreamOk`, a call
that emits the tables can only do so if the PMT body is at most 171 bytes (1 pointer byte + 3 + 5 + body + 4 CRC bytes
≤ 184) — provided the body does not overflow the 16-bit length computation of `calcPMTSectionLength` (at 65536 bytes
the Go code's `uint16` wraps to 0 and a header-only section is written).  So `TablesHyp` reduces to `StreamOk`. -/
theorem emitted_pmt_fits (m : Mux) (op : Op) (h : Reach m) (he : Emits m op) (hs : ∀ es ∈ m.streams, StreamOk es)
    (hlt : PSIRT.pmtBodySize m.pmtData < 65536) : PSIRT.pmtBodySize m.pmtData ≤ 171 :=
  emits_pmt_fits m op h he hs hlt

theorem tablesHyp_from_streams (m : Mux) (op : Op) (h : Reach m) (hs : ∀ es ∈ m.streams, StreamOk es)
    (hlt : PSIRT.pmtBodySize m.pmtData < 65536) : TablesHyp m op :=
  tablesHyp_of_streams m op h hs hlt

/-- **the demuxer's program map, from the history.**  If moreover no stream is ever added on a DVB SI PID, then after
any number of `NextData` calls on the muxer's output the program map holds no key but 0x1000: the only PATs the
demuxer ever parses are the muxer's own. -/
theorem program_map_only_pmt_pid (m : Mux) (ops : List Op) (h : Reach m) (hn : StreamsNoSI m)
    (hok : RunAll (fun m op => StepOK' m op ∧ TablesHyp m op ∧ OpNoSI op) m ops)
    (s : List Packet) (hs : ParsesTo (run m ops).1 s) (k : Nat) :
    ∀ e ∈ (after k (demuxOf (run m ops).1.flatten)).programMap, e.1 = 4096 :=
  programMap_of_history m ops h hn hok s hs k

/-- **`hsafe` discharged**: the hypothesis of `mux_demux_nextData_partial`, from the history, for every PID that is an
elementary-stream PID to begin with (`ESPid pid []`: not 0, not 1, not a DVB SI PID) other than 0x1000 -/
theorem hsafe_from_history (pid : Nat) (hes : ESPid pid []) (hpmt : pid ≠ 4096) (m : Mux) (ops : List Op) (h : Reach m)
    (hn : StreamsNoSI m) (hok : RunAll (fun m op => StepOK' m op ∧ TablesHyp m op ∧ OpNoSI op) m ops)
    (s : List Packet) (hs : ParsesTo (run m ops).1 s) (k : Nat) :
    ESPid pid (after k (demuxOf (run m ops).1.flatten)).programMap :=
  hsafe_of_history pid hes hpmt m ops h hn hok s hs k

/-- the demuxer-side invariant behind it, for ANY stream of whole chunks (not only the muxer's): if every parsed packet
is `SP` (not on a DVB SI PID; on PID 0 / 0x1000 only unit-start packets without announced discontinuity that, alone,
parse to data whose PATs list PMT PID 0x1000 only), the program map never knows another PMT PID -/
theorem program_map_invariant (cs : List Bytes) (s : List Packet) (hs : ParsesTo cs s) (hlen : ∀ c ∈ cs, c.length = 188)
    (hsp : ∀ p ∈ s, SP p) (k : Nat) : ∀ e ∈ (after k (demuxOf cs.flatten)).programMap, e.1 = 4096 :=
  programMap_safe cs s hs hlen hsp k

/-- **C01 on the model through `Demux.NextData` — no longer partial.**  History hypotheses: `HistN pid` = `HistOKA pid`
(admissible with automatic PIDs, every `WriteData` succeeded, `GoodData` on `pid`) ∧ `TablesHyp` ∧ `OpNoSI`.  The bytes
the muxer produced are read by a fresh demuxer with `n` calls of `NextData`, the last of which reported the end of the
stream.  Then the `DemuxerData` returned for `pid` are exactly the PES written on `pid`, in call order, each once. -/
theorem mux_demux_nextData (pid : Nat) (hes : ESPid pid []) (hpmt : pid ≠ 4096) (m : Mux) (ops : List Op) (h : Reach m)
    (hn : StreamsNoSI m) (hok : RunAll (fun m op => HistOKA pid m op ∧ TablesHyp m op ∧ OpNoSI op) m ops)
    (s : List Packet) (hs : ParsesTo (run m ops).1 s)
    (n : Nat) (hend : (collect n (demuxOf (run m ops).1.flatten)).2 = true) :
    pidOut pid (collect n (demuxOf (run m ops).1.flatten)).1 =
      (writesOn pid m ops).map fun w => pesDelivered pid w.hdr w.data w.unit.first :=
  history_nextData pid hes hpmt m ops h hn hok s hs n hend

/-- the same with termination made explicit -/
theorem mux_demux_nextData_all (pid : Nat) (hes : ESPid pid []) (hpmt : pid ≠ 4096) (m : Mux) (ops : List Op) (h : Reach m)
    (hn : StreamsNoSI m) (hok : RunAll (fun m op => HistOKA pid m op ∧ TablesHyp m op ∧ OpNoSI op) m ops)
    (s : List Packet) (hs : ParsesTo (run m ops).1 s) :
    ∃ n, (collect n (demuxOf (run m ops).1.flatten)).2 = true ∧
      ∀ k, pidOut pid (collect (n + k) (demuxOf (run m ops).1.flatten)).1 =
        (writesOn pid m ops).map fun w => pesDelivered pid w.hdr w.data w.unit.first :=
  history_nextData_all pid hes hpmt m ops h hn hok s hs

/-- **static sufficient condition** for the table / program-map hypotheses, from a new muxer: every call is `OpOK'`,
every added stream is `StreamOk` and, if its PID is explicit, off the DVB SI range, and the streams added fit the PMT
budget `addsCost ops ≤ 4082` (5 bytes + descriptor bytes per added stream; this also keeps the number of streams far
below the 7934 assignable PIDs) -/
theorem static_tables_hyp (period : Nat) (ops : List Op) (hcost : addsCost ops ≤ 4082)
    (h : ∀ op ∈ ops, OpOK' op ∧ AddsOk op ∧ OpNoSI op) :
    RunAll (fun m op => StepOK' m op ∧ TablesHyp m op ∧ OpNoSI op) (newMux period) ops :=
  runAll_histS_static _ ops (reach_new period) (budget_new period ops hcost) h

theorem new_mux_ok (period : Nat) : Reach (newMux period) ∧ StreamsNoSI (newMux period) :=
  ⟨reach_new period, streamsNoSI_new period⟩

/-! ### non-vacuity: two streams with automatic PIDs (the first with a user-defined descriptor), three `WriteData` on
the first, an explicit `WriteTables` -/

def exDesc : Descriptor := PSIRT.userDescriptor 0x80 [1, 2, 3]
def exS1 : PMTElementaryStream := { elementaryPID := 0, streamType := 0x0f, elementaryStreamDescriptors := [exDesc] }
def exS2 : PMTElementaryStream := { elementaryPID := 0, streamType := 0x1b }
def exOpsA : List Op := [.add exS1, .add exS2, .setPCR 256, .data exD1, .tables, .data exD2, .data exD3]

def exA3 : Mux := (run exM0 [.add exS1, .add exS2, .setPCR 256]).2
def exA4 : Mux := (step exA3 (.data exD1)).2
def exA5 : Mux := (step exA4 .tables).2
def exA6 : Mux := (step exA5 (.data exD2)).2

/-- the automatic PIDs are 256 and 257 -/
example : exA3.streams.map (·.elementaryPID) = [256, 257] := by decide +kernel

theorem exA_hdr1 : dataHdr exA3 exD1 = exHdr := by decide +kernel
theorem exA_hdr2 : dataHdr exA5 exD2 = exHdr := by decide +kernel
theorem exA_hdr3 : dataHdr exA6 exD3 = exHdr := by decide +kernel

theorem exA_good1 : GoodData exA3 exD1 :=
  ⟨by rw [exA_hdr1]; exact exHdr_ok, fun a h => (by cases h; exact exAF_caller), by decide +kernel⟩
theorem exA_good2 : GoodData exA5 exD2 :=
  ⟨by rw [exA_hdr2]; exact exHdr_ok, fun a h => (by cases h), by decide +kernel⟩
theorem exA_good3 : GoodData exA6 exD3 :=
  ⟨by rw [exA_hdr3]; exact exHdr_ok, fun a h => (by cases h; exact exAF3_caller), by decide +kernel⟩

theorem exS1_ok : StreamOk exS1 :=
  streamOk_of_wf exS1 (by decide) (fun d h => by
    simp only [exS1, List.mem_cons, List.not_mem_nil, or_false] at h
    subst h
    exact C14.DescWF.user 0x80 [1, 2, 3] (by decide) (by decide)) (by decide +kernel)
theorem exS2_ok : StreamOk exS2 := streamOk_no_descriptors exS2 (by decide) rfl

theorem exOpsA_static : ∀ op ∈ exOpsA, OpOK' op ∧ AddsOk op ∧ OpNoSI op := by
  intro op hop
  simp only [exOpsA, List.mem_cons, List.mem_nil_iff, or_false] at hop
  rcases hop with rfl | rfl | rfl | rfl | rfl | rfl | rfl
  · exact ⟨⟨by decide, by decide⟩, exS1_ok, by show ¬ SI 0; decide⟩
  · exact ⟨⟨by decide, by decide⟩, exS2_ok, by show ¬ SI 0; decide⟩
  all_goals exact ⟨trivial, trivial, trivial⟩

/-- the hypotheses of `mux_demux_tables` / `hsafe_from_history` hold for the example history -/
theorem exHistS : RunAll (fun m op => StepOK' m op ∧ TablesHyp m op ∧ OpNoSI op) exM0 exOpsA :=
  static_tables_hyp 40 exOpsA (by decide +kernel) exOpsA_static

theorem exHistT : RunAll (fun m op => StepOK' m op ∧ TablesHyp m op) exM0 exOpsA :=
  histT_of_histS exM0 exOpsA exHistS

/-- the hypotheses of `mux_demux_pid_auto` hold for the example history -/
theorem exHistA : RunAll (HistOKA 256) exM0 exOpsA := by
  have hst := exHistS
  refine ⟨⟨hst.1.1, fun d h => (by cases h)⟩, ⟨hst.2.1.1, fun d h => (by cases h)⟩, ⟨hst.2.2.1.1, fun d h => (by cases h)⟩,
    ⟨hst.2.2.2.1.1, ?_⟩, ⟨hst.2.2.2.2.1.1, fun d h => (by cases h)⟩, ⟨hst.2.2.2.2.2.1.1, ?_⟩, ⟨hst.2.2.2.2.2.2.1.1, ?_⟩, trivial⟩
  · intro d h
    cases h
    exact ⟨by unfold Succeeded; decide +kernel, fun _ => exA_good1⟩
  · intro d h
    cases h
    exact ⟨by unfold Succeeded; decide +kernel, fun _ => exA_good2⟩
  · intro d h
    cases h
    exact ⟨by unfold Succeeded; decide +kernel, fun _ => exA_good3⟩

theorem exHistN : RunAll (fun m op => HistOKA 256 m op ∧ TablesHyp m op ∧ OpNoSI op) exM0 exOpsA := by
  have a := exHistA
  have b := exHistS
  exact ⟨⟨a.1, b.1.2⟩, ⟨a.2.1, b.2.1.2⟩, ⟨a.2.2.1, b.2.2.1.2⟩, ⟨a.2.2.2.1, b.2.2.2.1.2⟩, ⟨a.2.2.2.2.1, b.2.2.2.2.1.2⟩,
    ⟨a.2.2.2.2.2.1, b.2.2.2.2.2.1.2⟩, ⟨a.2.2.2.2.2.2.1, b.2.2.2.2.2.2.1.2⟩, trivial⟩

theorem exStreamA_exists : ∃ s, ParsesTo (run exM0 exOpsA).1 s ∧ s.length = 10 := by
  have h : ((parseAll (run exM0 exOpsA).1).map List.length) = some 10 := by decide +kernel
  revert h
  generalize (run exM0 exOpsA).1 = cs
  intro h
  cases hp : parseAll cs with
  | none => rw [hp] at h; cases h
  | some s =>
    rw [hp] at h
    simp only [Option.map_some, Option.some.injEq] at h
    exact ⟨s, parsesTo_of_parseAll hp, h⟩

/-- two emissions (first `WriteData`, explicit `WriteTables`), both in states with streams 256 and 257 and PCR PID 256;
PAT / PMT counters 0 and 1 -/
theorem exA_emissions : (emissions exM0 exOpsA).map (fun m => (m.streams.map (·.elementaryPID), m.pcrPID,
    next m.patCC.value, next m.pmtCC.value)) = [([256, 257], 256, 0, 0), ([256, 257], 256, 1, 1)] := by
  decide +kernel

set_option maxRecDepth 8000 in
/-- the example history through `mux_demux_tables`: two PATs on PID 0, two PMTs on PID 0x1000, each the datum of the
corresponding entry of `emissions` (whose streams, PCR PID and counters are computed in `exA_emissions`) -/
theorem exA_tables (s : List Packet) (hs : ParsesTo (run exM0 exOpsA).1 s) :
    (deliveredOn [(4096, 1)] 0 s).length = 2 ∧ (deliveredOn [(4096, 1)] 4096 s).length = 2 ∧
    deliveredOn [(4096, 1)] 4096 s =
      (emissions exM0 exOpsA).map (fun m' => .ok [pmtDatum (next m'.pmtCC.value) m'.streams m'.pcrPID]) := by
  obtain ⟨h0, h1⟩ := mux_demux_tables [(4096, 1)] (by decide) exM0 exOpsA (reach_new 40) exHistT s hs
  have hl : (emissions exM0 exOpsA).length = 2 := by decide +kernel
  rw [h0, h1]
  exact ⟨by rw [List.length_map, hl], by rw [List.length_map, hl], rfl⟩

/-- the streams listed by the first PMT: the automatic PIDs are filled in, the descriptor is there -/
example : ((emissions exM0 exOpsA).head?.map fun m => m.streams.map fun es =>
    (es.elementaryPID, es.streamType, es.elementaryStreamDescriptors.map (·.tag))) =
    some [(256, 0x0f, [0x80]), (257, 0x1b, [])] := by decide +kernel

set_option maxRecDepth 8000 in
/-- `hsafe` for the example, now a consequence of the history (cf. `ex_safe`, proved by evaluation) -/
theorem exA_safe (s : List Packet) (hs : ParsesTo (run exM0 exOpsA).1 s) (k : Nat) :
    ESPid 256 (after k (demuxOf (run exM0 exOpsA).1.flatten)).programMap :=
  hsafe_from_history 256 (by decide +kernel) (by decide) exM0 exOpsA (reach_new 40) (streamsNoSI_new 40) exHistS s hs k

theorem exA_end : (collect 8 (demuxOf (run exM0 exOpsA).1.flatten)).2 = true := by decide +kernel

theorem exA_writes : writesOn 256 exM0 exOpsA = [writeOf exA3 exD1, writeOf exA5 exD2, writeOf exA6 exD3] := rfl

set_option maxRecDepth 8000 in
/-- the example history through `mux_demux_nextData`: three PES on the automatically assigned PID 256 -/
theorem exA_nextData (s : List Packet) (hs : ParsesTo (run exM0 exOpsA).1 s) :
    pidOut 256 (collect 8 (demuxOf (run exM0 exOpsA).1.flatten)).1 =
      [pesDelivered 256 exHdr (List.replicate 300 0xab) (unitOfCall exA3 exD1).first,
       pesDelivered 256 exHdr (List.replicate 10 0xcd) (unitOfCall exA5 exD2).first,
       pesDelivered 256 exHdr (List.replicate 200 0xef) (unitOfCall exA6 exD3).first] := by
  rw [mux_demux_nextData 256 (by decide +kernel) (by decide) exM0 exOpsA (reach_new 40) (streamsNoSI_new 40) exHistN s hs 8
    exA_end, exA_writes]
  simp only [List.map_cons, List.map_nil, writeOf, exA_hdr1, exA_hdr2, exA_hdr3]
  rfl

/-! ### the point excluded by `OpNoSI`, evaluated: an elementary stream on a DVB SI PID

The muxer accepts any PID for an elementary stream (Go: `AddElementaryStream` only rejects duplicates); the demuxer
parses every unit on PIDs 0x10–0x14, 0x1e, 0x1f as PSI whatever the program map says (`isPSIPayload`).  Hence
(a) an ordinary PES written on PID 0x11 is silently lost by the demuxer (no data, no error), and
(b) a PES on PID 0x11 whose bytes happen to read as a PAT section with a valid CRC_32 (stream id 0xbe: the start code
`00 00 01 be` reads as pointer_field 0, table_id 0, section_length 0x1be) is delivered as a **PAT on PID 0x11** and
enters the program map: below it maps program 5 to PID 0x100, after which the demuxer treats the muxer's elementary
stream on PID 0x100 as a table PID and loses its PES.  This is why `hsafe` cannot be derived without `OpNoSI`. -/

def siStream (pid : Nat) : List Op :=
  [.add { elementaryPID := pid, streamType := 0x06 }, .add { elementaryPID := 0x100, streamType := 0x0f }, .setPCR 0x100]
def siData (pid : Nat) (data : Bytes) : Op := .data { pid := pid, pes := { data := data, header := { streamID := 0xbe } } }

/-- bytes 1.. of the unit as the PSI parser reads it: table_id 0, section_length 0x1be, the PES length (= table id
extension), version byte, section numbers, one program entry `5 ↦ 0x100`, zero entries; then the matching CRC_32 -/
def siPre : Bytes := [0, 1, 0xbe, 444 / 256, 444 % 256]
def siBody : Bytes := [0xc1, 0, 0] ++ ([0, 5, 0xe1, 0x00] ++ List.replicate 433 0)
def siCRC : Nat := (computeCRC32 (siPre ++ siBody)).toNat
def siCrafted : Bytes := siBody ++ [siCRC / 16777216 % 256, siCRC / 65536 % 256, siCRC / 256 % 256, siCRC % 256]

def siOps (pid : Nat) (data : Bytes) : List Op := siStream pid ++ [siData pid data, .data exD2]

def pesCount (pid : Nat) (rs : List (Res DemuxerData)) : Nat := (pidOut pid rs).length

/-- (a) 20 ordinary bytes: on PID 0x101 both PES come back; on PID 0x11 the PES written there is lost -/
example : pesCount 0x101 (collect 8 (demuxOf (run exM0 (siOps 0x101 (List.replicate 20 0xaa))).1.flatten)).1 = 1 ∧
    pesCount 0x11 (collect 8 (demuxOf (run exM0 (siOps 0x11 (List.replicate 20 0xaa))).1.flatten)).1 = 0 ∧
    pesCount 0x100 (collect 8 (demuxOf (run exM0 (siOps 0x11 (List.replicate 20 0xaa))).1.flatten)).1 = 1 := by
  decide +kernel

/-- (b) the crafted bytes: on PID 0x101 nothing special happens; on PID 0x11 they pollute the program map
(`[(0x1000, 1), (0x100, 5), (1193, 236)]`), `ESPid 0x100` fails, and the PES written on PID 0x100 is lost -/
example : (after 8 (demuxOf (run exM0 (siOps 0x101 siCrafted)).1.flatten)).programMap = [(4096, 1)] ∧
    pesCount 0x100 (collect 8 (demuxOf (run exM0 (siOps 0x101 siCrafted)).1.flatten)).1 = 1 ∧
    (after 8 (demuxOf (run exM0 (siOps 0x11 siCrafted)).1.flatten)).programMap = [(4096, 1), (256, 5), (1193, 236)] ∧
    ¬ ESPid 0x100 (after 8 (demuxOf (run exM0 (siOps 0x11 siCrafted)).1.flatten)).programMap ∧
    pesCount 0x11 (collect 8 (demuxOf (run exM0 (siOps 0x11 siCrafted)).1.flatten)).1 = 1 ∧
    pesCount 0x100 (collect 8 (demuxOf (run exM0 (siOps 0x11 siCrafted)).1.flatten)).1 = 0 := by
  decide +kernel

end Auto

end Astits.C01
