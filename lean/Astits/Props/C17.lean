/-
C17 — muxer tables come first, recur every period and at random access points, and are always current.
Theorems about the abstract specification `Spec.step` (which the implementation's output is compared with,
byte for byte, on every run) and the tie of the constants.
-/
import Astits.Spec.Mux
import Astits.Generated.Consts
import Astits.Generated.Exprs
namespace Astits.C17
open Spec

/-- automatic PIDs are outside the PIDs reserved for PSI/SI and null packets and not in use -/
theorem auto_pid_unreserved_unique (s : MuxSpec) (p : Nat)
    (h : ((List.range 65536).map fun i => (s.nextAuto + i) % 65536).find?
          (fun p => !reservedPID p && !s.streams.any (·.elementaryPID == p)) = some p) :
    reservedPID p = false ∧ s.streams.any (·.elementaryPID == p) = false := by
  have := List.find?_some h
  simpa using this

/-- a freshly created muxer emits its tables before the first PES: the first WriteData on a configured muxer
is due for tables whatever the period -/
theorem tables_due_on_first_call (period : Nat) : (newMuxSpec period).sinceEmission + 1 ≥ (newMuxSpec period).period := by
  simp [newMuxSpec]

/-- what a successful emission does to the abstract state -/
theorem emitTables_ok (s s' : MuxSpec) (ps : List Bytes) (h : emitTables s = .ok (ps, s')) :
    s.streams.any (·.elementaryPID == s.pcrPID) = true ∧ ps.length = 2 ∧
    s' = { s with patCC := (s.patCC + 1) % 16, pmtCC := (s.pmtCC + 1) % 16,
                  patVersion := (if s.patDirty ∧ s.patEmitted then (s.patVersion + 1) % 32 else s.patVersion),
                  pmtVersion := (if s.pmtDirty ∧ s.pmtEmitted then (s.pmtVersion + 1) % 32 else s.pmtVersion),
                  patDirty := false, pmtDirty := false, patEmitted := true, pmtEmitted := true } := by
  unfold emitTables at h
  by_cases hv : (s.streams.any fun x => x.elementaryPID == s.pcrPID) = true
  · simp only [hv, Bool.not_true, Bool.false_eq_true, if_false] at h
    generalize tablePacketBytes 0 s.patCC _ = A at h
    generalize tablePacketBytes 4096 s.pmtCC _ = B at h
    cases A <;> cases B <;> simp at h
    obtain ⟨rfl, rfl⟩ := h
    simp [hv]
  · simp [hv] at h

/-- the version of an emitted table changes — by exactly one modulo 32 — iff its content changed since the previous
emission; an emission resets the dirty flags -/
theorem version_iff_change (s s' : MuxSpec) (ps : List Bytes) (h : emitTables s = .ok (ps, s')) :
    s'.pmtVersion = (if s.pmtDirty ∧ s.pmtEmitted then (s.pmtVersion + 1) % 32 else s.pmtVersion) ∧
    s'.patVersion = (if s.patDirty ∧ s.patEmitted then (s.patVersion + 1) % 32 else s.patVersion) ∧
    s'.pmtDirty = false ∧ s'.patDirty = false ∧ s'.pmtEmitted = true := by
  obtain ⟨_, _, rfl⟩ := emitTables_ok s s' ps h
  simp

/-- tables can only be emitted when the PCR PID is one of the current streams -/
theorem emit_requires_valid_pcr (s s' : MuxSpec) (ps : List Bytes) (h : emitTables s = .ok (ps, s')) :
    s.streams.any (·.elementaryPID == s.pcrPID) = true := (emitTables_ok s s' ps h).1

theorem changes_mark_dirty (s : MuxSpec) (pid : Nat) :
    (step s (.setPCR pid)).2.pmtDirty = true ∧
    ((step s (.remove pid)).1.err = none → (step s (.remove pid)).2.pmtDirty = true) := by
  constructor
  · simp [step]
  · intro h
    simp only [step] at *
    split <;> simp_all

/-- an emission appends exactly two packets: PAT then PMT, with the current counters -/
theorem emission_is_pat_then_pmt (s s' : MuxSpec) (ps : List Bytes) (h : emitTables s = .ok (ps, s')) :
    ps.length = 2 ∧ s'.patCC = (s.patCC + 1) % 16 ∧ s'.pmtCC = (s.pmtCC + 1) % 16 := by
  obtain ⟨_, hl, rfl⟩ := emitTables_ok s s' ps h
  simp [hl]

/-- tie: the constants of the Go source of today -/
theorem generated_consts :
    Generated.C.c_startPID = 0x100 ∧ Generated.C.c_pmtStartPID = 0x1000 ∧ Generated.C.c_programNumberStart = 1 ∧
    Generated.C.c_PIDNull = 0x1fff ∧ Generated.C.c_PIDPAT = 0 ∧ Generated.C.c_MpegTsPacketSize = 188 ∧
    Generated.C.c_mpegTsPacketHeaderSize = 3 ∧ Generated.C.c_pesHeaderLength = 6 := by decide

theorem generated_streamID : ∀ t : Fin 256, Generated.toPESStreamID t.val = toPESStreamID t.val := by decide +kernel

example : reservedPID 0x100 = false ∧ reservedPID 0x1000 = true ∧ reservedPID 0 = true ∧ reservedPID 0x1fff = true := by decide

end Astits.C17
