/-
C17 — muxer tables come first, recur every period and at random access points, and are always current.
Theorems about the abstract specification `Spec.step` (which the implementation's output is compared with,
byte for byte, on every run) and the tie of the constants.
-/
import Astits.Spec.Mux
import Astits.Generated.Consts
import Astits.Generated.Exprs
import Astits.Proofs.MuxTables
import Astits.Proofs.MuxTablesRT
namespace Astits.C17
open Spec

/-- automatic PIDs are outside the PIDs reserved for PSI/SI and null packets and not in use -/
theorem auto_pid_unreserved_unique (s : MuxSpec) (p : Nat)
    (h : ((List.range 65536).map fun i => (s.nextAuto + i) % 65536).find?
          (fun p => !reservedPID p && !s.streams.any (·.elementaryPID == p)) = some p) :
    reservedPID p = false ∧ s.streams.any (·.elementaryPID == p) = false := by
  have := List.find?_some h
  simpa using this

/-- a freshly created muxer emits its tables before the first PES: the first WriteData on a configured muxer
is due for tables whatever the period -/
theorem tables_due_on_first_call (period : Nat) : (newMuxSpec period).sinceEmission + 1 ≥ (newMuxSpec period).period := by
  simp [newMuxSpec]

/-- what a successful emission does to the abstract state -/
theorem emitTables_ok (s s' : MuxSpec) (ps : List Bytes) (h : emitTables s = .ok (ps, s')) :
    s.streams.any (·.elementaryPID == s.pcrPID) = true ∧ ps.length = 2 ∧
    s' = { s with patCC := (s.patCC + 1) % 16, pmtCC := (s.pmtCC + 1) % 16,
                  patVersion := (if s.patDirty ∧ s.patEmitted then (s.patVersion + 1) % 32 else s.patVersion),
                  pmtVersion := (if s.pmtDirty ∧ s.pmtEmitted then (s.pmtVersion + 1) % 32 else s.pmtVersion),
                  patDirty := false, pmtDirty := false, patEmitted := true, pmtEmitted := true } := by
  unfold emitTables at h
  by_cases hv : (s.streams.any fun x => x.elementaryPID == s.pcrPID) = true
  · simp only [hv, Bool.not_true, Bool.false_eq_true, if_false] at h
    generalize tablePacketBytes 0 s.patCC _ = A at h
    generalize tablePacketBytes 4096 s.pmtCC _ = B at h
    cases A <;> cases B <;> simp at h
    obtain ⟨rfl, rfl⟩ := h
    simp [hv]
  · simp [hv] at h

/-- the version of an emitted table changes — by exactly one modulo 32 — iff its content changed since the previous
emission; an emission resets the dirty flags -/
theorem version_iff_change (s s' : MuxSpec) (ps : List Bytes) (h : emitTables s = .ok (ps, s')) :
    s'.pmtVersion = (if s.pmtDirty ∧ s.pmtEmitted then (s.pmtVersion + 1) % 32 else s.pmtVersion) ∧
    s'.patVersion = (if s.patDirty ∧ s.patEmitted then (s.patVersion + 1) % 32 else s.patVersion) ∧
    s'.pmtDirty = false ∧ s'.patDirty = false ∧ s'.pmtEmitted = true := by
  obtain ⟨_, _, rfl⟩ := emitTables_ok s s' ps h
  simp

/-- tables can only be emitted when the PCR PID is one of the current streams -/
theorem emit_requires_valid_pcr (s s' : MuxSpec) (ps : List Bytes) (h : emitTables s = .ok (ps, s')) :
    s.streams.any (·.elementaryPID == s.pcrPID) = true := (emitTables_ok s s' ps h).1

theorem changes_mark_dirty (s : MuxSpec) (pid : Nat) :
    (step s (.setPCR pid)).2.pmtDirty = true ∧
    ((step s (.remove pid)).1.err = none → (step s (.remove pid)).2.pmtDirty = true) := by
  constructor
  · simp [step]
  · intro h
    simp only [step] at *
    split <;> simp_all

/-- an emission appends exactly two packets: PAT then PMT, with the current counters -/
theorem emission_is_pat_then_pmt (s s' : MuxSpec) (ps : List Bytes) (h : emitTables s = .ok (ps, s')) :
    ps.length = 2 ∧ s'.patCC = (s.patCC + 1) % 16 ∧ s'.pmtCC = (s.pmtCC + 1) % 16 := by
  obtain ⟨_, hl, rfl⟩ := emitTables_ok s s' ps h
  simp [hl]

/-- tie: the constants of the Go source of today -/
theorem generated_consts :
    Generated.C.c_startPID = 0x100 ∧ Generated.C.c_pmtStartPID = 0x1000 ∧ Generated.C.c_programNumberStart = 1 ∧
    Generated.C.c_PIDNull = 0x1fff ∧ Generated.C.c_PIDPAT = 0 ∧ Generated.C.c_MpegTsPacketSize = 188 ∧
    Generated.C.c_mpegTsPacketHeaderSize = 3 ∧ Generated.C.c_pesHeaderLength = 6 := by decide

theorem generated_streamID : ∀ t : Fin 256, Generated.toPESStreamID t.val = toPESStreamID t.val := by decide +kernel

example : reservedPID 0x100 = false ∧ reservedPID 0x1000 = true ∧ reservedPID 0 = true ∧ reservedPID 0x1fff = true := by decide

end Astits.C17

/-! # C17 for the MODEL of the real muxer (`Astits/Model/Mux.lean`), over all histories of API calls

Histories are lists of `MuxCounters.Op` (`add` — PID 0 asks for an automatic PID —, `remove`, `setPCR`, `tables` =
manual `WriteTables`, `data` = `WriteData`) run by `MuxCounters.run` from `newMux period`; failed calls are part of
the histories.  Admissible histories (`StepOK'`): explicitly chosen PIDs are 13-bit and not 0x1000, and an automatic
PID is only asked for while fewer than 7934 streams exist (`runAll_room`: at most 7934 adds suffice).
Proofs: `Astits/Proofs/MuxTables.lean`, `Astits/Proofs/MuxTablesRT.lean`. -/
namespace Astits.C17.Model
open MuxCounters MuxTables

/-! ## T1 — tables first, every period, and before a random access point on the PCR PID -/

/-- **T1a** (every `WriteData` of every history).  For a successful `WriteData` made in state `m` (err = nil, no panic):
its chunks start with PAT (PID 0) and PMT (PID 0x1000) iff the call is forced (random access indicator on the PCR
PID) or, counting this call, the retransmit counter reaches the period; every chunk is on PID 0, 0x1000 or `d.pid`;
afterwards the counter is 0 (tables emitted) or one more than before, and below the period (period ≥ 1). -/
theorem tables_iff_due (period : Nat) (ops : List Op) (hok : RunAll StepOK' (newMux period) ops) :
    RunAll (fun m op => ∀ d, op = .data d → DataSuccess m d →
      (StartsWithTables (m.writeData d).1.chunks ↔ (dataForce m d = true ∨ m.period ≤ m.retransmitCounter + 1)) ∧
      (∀ c ∈ (m.writeData d).1.chunks, pktPID c = 0 ∨ pktPID c = 4096 ∨ pktPID c = d.pid) ∧
      (m.writeData d).2.1.retransmitCounter =
        (if dataForce m d = true ∨ m.period ≤ m.retransmitCounter + 1 then 0 else m.retransmitCounter + 1) ∧
      (1 ≤ m.period → (m.writeData d).2.1.retransmitCounter < m.period)) (newMux period) ops :=
  history_t1 period ops hok

/-- the period of every state of a history is the configured one -/
theorem period_constant (period : Nat) (ops : List Op) : (run (newMux period) ops).2.period = period :=
  run_period _ ops

/-- **T1b** (tables first, output level): the first two chunks a muxer ever hands to the writer are a PAT and a PMT —
no PES packet precedes the tables, whatever the calls and the period -/
theorem tables_first (period : Nat) (ops : List Op) (hok : RunAll StepOK' (newMux period) ops) :
    (run (newMux period) ops).1 = [] ∨ StartsWithTables (run (newMux period) ops).1 :=
  history_tables_first period ops hok

/-- **T1c** (first `WriteData`): if no earlier `WriteData` handed anything to the writer, a `WriteData` that succeeds
starts with PAT and PMT (a fresh muxer's counter equals the period); more generally it emits nothing or starts
with them.  (An earlier `WriteData` that emitted the tables and then failed has reset the counter: then the tables
were already sent.) -/
theorem first_writeData (period : Nat) (pre : List Op) (d : MuxerData)
    (hok : RunAll StepOK' (newMux period) pre) (hq : RunAll NoDataOutput (newMux period) pre) :
    (((run (newMux period) pre).2.writeData d).1.chunks = [] ∨
      StartsWithTables ((run (newMux period) pre).2.writeData d).1.chunks) ∧
    (DataSuccess (run (newMux period) pre).2 d →
      StartsWithTables ((run (newMux period) pre).2.writeData d).1.chunks) :=
  ⟨first_writeData_has_tables period pre d hok hq, first_success_has_tables period pre d hok hq⟩

/-- **T1d** (at most one period): after any history `pre`, a stretch `ops` of calls in which no `WriteData` emits the
tables contains fewer than `period` successful `WriteData` calls (period ≥ 1); with the counter `c` reached after
`pre`, even `c + succCount < period` unless there is no successful call at all -/
theorem at_most_one_period (period : Nat) (pre ops : List Op) (hok : RunAll StepOK' (newMux period) (pre ++ ops))
    (hq : RunAll Quiet (run (newMux period) pre).2 ops) (hp : 1 ≤ period) :
    succCount (run (newMux period) pre).2 ops < period ∧
    (succCount (run (newMux period) pre).2 ops = 0 ∨
      (run (newMux period) pre).2.retransmitCounter + succCount (run (newMux period) pre).2 ops < period) := by
  obtain ⟨h1, h2⟩ := (runAll_append _ _ pre ops).1 hok
  have hI := run_pidInv _ pre (pidInv_new period) h1
  have hper := run_period (newMux period) pre
  have e : (newMux period).period = period := rfl
  rw [e] at hper
  have b := quiet_bound _ ops hI h2 hq
  have c := quiet_stretch_lt_period _ ops hI h2 hq (by rw [hper]; exact hp)
  rw [hper] at b c
  exact ⟨c, b⟩

/-- **T1e** (the counting invariant, exactly).  `retransmitCounter` starts at `period`; a `WriteData` that emits the
tables resets it to 0; any other *accepted* `WriteData` (known PID, PES header that can fit — also one whose due
tables could not be generated, e.g. invalid PCR PID) adds one; rejected `WriteData` calls, the manual `WriteTables`,
adds, removes and `SetPCRPID` do not touch it.  `autoEmitB` is observable: `autoEmitB_iff`. -/
theorem counter_counts (period : Nat) (ops : List Op) :
    (run (newMux period) ops).2.retransmitCounter = counterSpec period (newMux period) ops ∧
    (∀ c m d, counterStep c m (.data d) = if autoEmitB m d then 0 else if acceptedB m d then c + 1 else c) ∧
    (∀ c m op, (∀ d, op ≠ .data d) → counterStep c m op = c) := by
  refine ⟨run_counter _ ops, fun _ _ _ => rfl, ?_⟩
  intro c m op h
  cases op with
  | data d => exact absurd rfl (h d)
  | _ => rfl

/-! ## T2 — version numbers -/

/-- **T2a**: the first tables a muxer emits carry version 0 (PAT and PMT) -/
theorem first_versions (period : Nat) (pre : List Op) (op : Op)
    (hok : RunAll StepOK' (newMux period) pre) (hq : RunAll NoEmit (newMux period) pre)
    (he : Emits (run (newMux period) pre).2 op) :
    wPAT (run (newMux period) pre).2 = 0 ∧ wPMT (run (newMux period) pre).2 = 0 :=
  first_emission_versions period pre op hok hq he

/-- **T2b** (two consecutive emissions).  After any history `pre` (state `m0`), `op0` emits the tables; then come calls
`mid`, none of which emits the tables, leading to state `m2`.  The version field of the PMT emitted next (`wPMT m2`)
equals the one emitted by `op0` (`wPMT m0`) iff no call of `mid` was a successful add or remove or a `SetPCRPID`
(`anyModifies`), and is `wPMT m0 + 1` modulo 32 otherwise; without such a call the content (streams, PCR PID) is
unchanged.  The PAT version is 0 at both.  (`SetPCRPID` with the current value, or an add followed by the removal of
the same stream, do advance the version although the content is the same: the model — like the library — tracks
calls, not content.) -/
theorem consecutive_versions (period : Nat) (pre : List Op) (op0 : Op) (mid : List Op)
    (hok : RunAll StepOK' (newMux period) (pre ++ op0 :: mid))
    (he0 : Emits (run (newMux period) pre).2 op0)
    (hq : RunAll NoEmit (step (run (newMux period) pre).2 op0).2 mid) :
    wPMT (run (newMux period) pre).2 < 32 ∧
    wPMT (run (step (run (newMux period) pre).2 op0).2 mid).2 =
      (if anyModifies (step (run (newMux period) pre).2 op0).2 mid then (wPMT (run (newMux period) pre).2 + 1) % 32
       else wPMT (run (newMux period) pre).2) ∧
    (wPMT (run (step (run (newMux period) pre).2 op0).2 mid).2 = wPMT (run (newMux period) pre).2 ↔
      anyModifies (step (run (newMux period) pre).2 op0).2 mid = false) ∧
    (anyModifies (step (run (newMux period) pre).2 op0).2 mid = false →
      content (run (step (run (newMux period) pre).2 op0).2 mid).2 = content (run (newMux period) pre).2) ∧
    wPAT (run (newMux period) pre).2 = 0 ∧ wPAT (run (step (run (newMux period) pre).2 op0).2 mid).2 = 0 := by
  obtain ⟨h1, h2, h3⟩ := (runAll_append _ _ pre (op0 :: mid)).1 hok
  have hr := run_reach _ pre (reach_new period) h1
  obtain ⟨a, b, c, d⟩ := versions_between _ op0 mid hr h2 he0 h3 hq
  obtain ⟨e, f⟩ := versions_equal_iff _ op0 mid hr h2 he0 h3 hq
  exact ⟨a, b, e, f, c, d⟩

/-- **T2c**: `wPMT m` / `wPAT m` are the version fields of what an emitting call serialises and what the muxer then
stores; the emission clears both "updated" flags and does not touch the content -/
theorem emission_versions (period : Nat) (pre : List Op) (op : Op) (hok : RunAll StepOK' (newMux period) pre)
    (he : Emits (run (newMux period) pre).2 op) :
    (step (run (newMux period) pre).2 op).2.pmtVersion.value = wPMT (run (newMux period) pre).2 ∧
    (step (run (newMux period) pre).2 op).2.patVersion.value = 0 ∧
    (step (run (newMux period) pre).2 op).2.pmtUpdated = false ∧
    (step (run (newMux period) pre).2 op).2.pmUpdated = false ∧
    content (step (run (newMux period) pre).2 op).2 = content (run (newMux period) pre).2 := by
  have hr := run_reach _ pre (reach_new period) hok
  obtain ⟨⟨tcs, _, ht, _⟩, e1, e2, e3, e4, e5, e6, _⟩ := step_emits _ op hr.pid.inv he
  generalize (run (newMux period) pre).2 = m at *
  have hne : m.streams ≠ [] := by
    intro hh
    have := ht.pcrValid
    rw [hh] at this
    cases this
  have hv0 : m.pmtVersion.value ≤ 31 ∨ m.pmtUpdated = true := by
    cases hu : m.pmtUpdated
    · left
      have := hr.ver.pmtLe
      have : m.pmtVersion.value ≠ 32 := fun hv => hne (hr.ver.pmtFresh hv hu)
      omega
    · exact Or.inr rfl
  refine ⟨by rw [e1]; exact (wPMT_eq m hr.ver hv0).2.2, by rw [e2]; exact (wPAT_zero m hr.ver).2.1, e3, e4, ?_⟩
  unfold content
  rw [e5, e6]

/-- **T2d**: the PAT never changes, so its version field is 0 in every reachable state (`pmUpdated` is true only until
the first emission) -/
theorem pat_version_zero (period : Nat) (ops : List Op) (hok : RunAll StepOK' (newMux period) ops) :
    wPAT (run (newMux period) ops).2 = 0 :=
  (wPAT_zero _ (run_reach _ ops (reach_new period) hok).ver).1

/-! ## T3 — content -/

/-- **T3a** (what is serialised): a call that emits the tables hands to `writePacket`, on PID 0 and then on PID 0x1000,
the `writePSIData` serialisations of the PAT `program 1 ↦ PID 0x1000` and of the PMT of program 1 whose
`elementaryStreams` are exactly `m.streams`, in this order, and whose `pcrPID` is `m.pcrPID` — and that PCR PID is
the PID of one of the streams -/
theorem emitted_content (period : Nat) (pre : List Op) (op : Op) (hok : RunAll StepOK' (newMux period) pre)
    (he : Emits (run (newMux period) pre).2 op) :
    ∃ pat pmt rest patPayload pmtPayload, (step (run (newMux period) pre).2 op).1 = pat :: pmt :: rest ∧
      writePSIData (tablePSI 0 (calcPATSectionLength patData) 0 (wPAT (run (newMux period) pre).2) { pat := some patData })
        = .ok patPayload ∧
      writePacket (tablePacket 0 (run (newMux period) pre).2.patCC.inc.get patPayload) 188 = .ok pat ∧
      writePSIData (tablePSI 2 (calcPMTSectionLength (run (newMux period) pre).2.pmtData) 1 (wPMT (run (newMux period) pre).2)
        { pmt := some (run (newMux period) pre).2.pmtData }) = .ok pmtPayload ∧
      writePacket (tablePacket 4096 (run (newMux period) pre).2.pmtCC.inc.get pmtPayload) 188 = .ok pmt ∧
      (run (newMux period) pre).2.pmtData =
        { elementaryStreams := (run (newMux period) pre).2.streams, pcrPID := (run (newMux period) pre).2.pcrPID,
          programDescriptors := [], programNumber := 1 } ∧
      patData = { programs := [{ programMapID := 4096, programNumber := 1 }], transportStreamID := 0 } ∧
      (run (newMux period) pre).2.streams.any (·.elementaryPID == (run (newMux period) pre).2.pcrPID) = true := by
  have hr := run_reach _ pre (reach_new period) hok
  obtain ⟨pat, pmt, rest, p1, p2, a0, a1, a2, a3, a4, a5⟩ := emits_payloads _ op hr.pid.inv he
  exact ⟨pat, pmt, rest, p1, p2, a0, a1, a2, a3, a4, rfl, rfl, a5⟩

/-- **T3b** (how the content evolves): in any state, after a call the streams and PCR PID are `nextContent`: an add appends
the stream (with the automatic PID if it came with PID 0; an explicit PID already present is refused and nothing
changes), a remove filters the PID out, `SetPCRPID` replaces the PCR PID, `WriteTables` / `WriteData` change neither -/
theorem content_evolution (m : Mux) (op : Op) : content (step m op).2 = nextContent m op ∧
    (∀ es, nextContent m (.add es) =
      if es.elementaryPID = 0 then (m.streams ++ [{ es with elementaryPID := autoPID m }], m.pcrPID)
      else if m.streams.any (·.elementaryPID == es.elementaryPID) then (m.streams, m.pcrPID)
      else (m.streams ++ [es], m.pcrPID)) ∧
    (∀ pid, nextContent m (.remove pid) = (m.streams.filter (·.elementaryPID != pid), m.pcrPID)) ∧
    (∀ pid, nextContent m (.setPCR pid) = (m.streams, pid)) ∧
    nextContent m .tables = (m.streams, m.pcrPID) ∧ (∀ d, nextContent m (.data d) = (m.streams, m.pcrPID)) :=
  ⟨step_content m op, fun _ => rfl, fun _ => rfl, fun _ => rfl, rfl, fun _ => rfl⟩

/-- **T3c** (read back with the model's parsers; composes C11 whole-packet and C13 whole-section round trips).  For
streams with 8-bit stream types and descriptors satisfying C13's `DescOk` (none, or user-defined ones), and a PMT
section that fits 12 bits: the first emitted packet parses (`parsePacket`) as a PID-0 packet with payload-unit-start
and no adaptation field whose payload parses (`parsePSIData`) as the PAT `program 1 ↦ 0x1000`, version `wPAT m`;
the second as a PID-0x1000 packet whose payload parses as the PMT of program 1 with `elementaryStreams = m.streams`
and `pcrPID = m.pcrPID`, version `wPMT m`.  (`FirstSectionIs`: pointer field 0, that section first, followed by
nothing or by the stop marker for the 0xff stuffing.) -/
theorem emitted_tables_read_back (period : Nat) (pre : List Op) (op : Op) (hok : RunAll StepOK' (newMux period) pre)
    (he : Emits (run (newMux period) pre).2 op)
    (hs : ∀ es ∈ (run (newMux period) pre).2.streams, StreamOk es)
    (hfit : 9 + PSIRT.pmtBodySize (run (newMux period) pre).2.pmtData < 4096) :
    ∃ pat pmt rest patPkt pmtPkt, (step (run (newMux period) pre).2 op).1 = pat :: pmt :: rest ∧
      (parsePacket none).val pat = .ok patPkt ∧ patPkt.header.pid = 0 ∧
      patPkt.header.payloadUnitStartIndicator = true ∧ patPkt.adaptationField = none ∧
      FirstSectionIs patPkt.payload 0 (wPAT (run (newMux period) pre).2) { pat := some patData } ∧
      (parsePacket none).val pmt = .ok pmtPkt ∧ pmtPkt.header.pid = 4096 ∧
      pmtPkt.header.payloadUnitStartIndicator = true ∧ pmtPkt.adaptationField = none ∧
      FirstSectionIs pmtPkt.payload 1 (wPMT (run (newMux period) pre).2)
        { pmt := some { elementaryStreams := (run (newMux period) pre).2.streams,
                        pcrPID := (run (newMux period) pre).2.pcrPID, programDescriptors := [], programNumber := 1 } } :=
  emitted_tables_parse _ op (run_reach _ pre (reach_new period) hok) he hs hfit

/-! ## T4 — automatic PIDs -/

/-- **T4a**: along any admissible history, every stream added with PID 0 is accepted and appended with a PID in
0x100..0x1ffe, other than 0x1000, and different from the PID of every stream present at that moment -/
theorem auto_pids (period : Nat) (ops : List Op) (hok : RunAll StepOK' (newMux period) ops) :
    RunAll (fun m op => ∀ es, op = .add es → es.elementaryPID = 0 →
      (m.addElementaryStream es).1.isOk = true ∧
      (m.addElementaryStream es).2.streams = m.streams ++ [{ es with elementaryPID := autoPID m }] ∧
      256 ≤ autoPID m ∧ autoPID m ≠ 4096 ∧ autoPID m < 8191 ∧ autoPID m ∉ m.streams.map (·.elementaryPID))
      (newMux period) ops :=
  (history_auto_pids period ops hok).1

/-- **T4b** (invariant): at all times the PIDs of the streams are pairwise distinct, none is 0 or 0x1000, all are 13-bit
(an explicit add of a PID already present is refused with `pidExists`: `add_result`) -/
theorem pids_distinct (period : Nat) (ops : List Op) (hok : RunAll StepOK' (newMux period) ops) :
    ((run (newMux period) ops).2.streams.map (·.elementaryPID)).Nodup ∧
    ∀ es ∈ (run (newMux period) ops).2.streams, es.elementaryPID ≠ 0 ∧ es.elementaryPID ≠ 4096 ∧ es.elementaryPID < 8192 :=
  history_pids_distinct period ops hok

/-- **T4c** (`nextFree`, exactly): the automatic PID (search from `nextPID` with fuel 65536 = the whole uint16 space) is
free iff any PID is free at all; fewer than 7934 stream contexts guarantee it; otherwise — all 7934 assignable
PIDs in use — the search runs out of fuel and returns a PID that is in use -/
theorem nextFree_exact (m : Mux) (hn : m.nextPID < 65536) :
    (m.pidInUse (autoPID m) = false ↔ ∃ p, m.pidInUse p = false) ∧
    (m.esCC.length < 7934 → m.pidInUse (autoPID m) = false) ∧
    (∀ p, m.pidInUse p = false ↔ 256 ≤ p ∧ p ≠ 4096 ∧ p < 8191 ∧ p ∉ m.esCC.map (·.1)) :=
  ⟨autoPID_free_iff m hn, fun h => (autoPID_free_iff m hn).2 (exists_free m h), pidInUse_false_iff m⟩

/-- **T4d**: a history of admissible calls with at most 7934 adds is admissible (there is always room) -/
theorem few_adds_admissible (period : Nat) (ops : List Op) (hok : ∀ op ∈ ops, OpOK' op)
    (hn : (ops.filter isAdd).length ≤ 7934) : RunAll StepOK' (newMux period) ops :=
  runAll_room _ ops hok (by simpa [newMux] using hn)

/-! ## non-vacuity: a concrete history -/

/-- period 2; a video stream with automatic PID (gets 0x100), PCR PID 0x100, three `WriteData`, an audio stream
with automatic PID (gets 0x101) before the third, a failed add (duplicate), a failed `WriteData` (unknown PID) -/
def exPre : List Op :=
  [.add { elementaryPID := 0, streamType := 0x1b }, .setPCR 256]
def exData (bs : Bytes) : MuxerData := { pid := 256, pes := { data := bs } }
def exMid : List Op :=
  [.data (exData [4]), .add { elementaryPID := 0, streamType := 0x0f }, .add { elementaryPID := 256 },
   .data { pid := 999, pes := { data := [9] } }]
def exOps : List Op := exPre ++ .data (exData [1, 2, 3]) :: exMid ++ [.data (exData [5])]

example : RunAll StepOK' (newMux 2) exOps := by decide +kernel
example : RunAll StepOK' (newMux 2) exOps := few_adds_admissible 2 exOps (by decide) (by decide)
/-- the output: tables, PES, PES, tables (period 2), PES -/
example : (run (newMux 2) exOps).1.map pktPID = [0, 4096, 256, 256, 0, 4096, 256] := by decide +kernel
example : (run (newMux 2) exOps).2.streams.map (·.elementaryPID) = [256, 257] := by decide +kernel
-- T1c / T2a hypotheses
example : RunAll NoDataOutput (newMux 2) exPre ∧ RunAll NoEmit (newMux 2) exPre ∧
    DataSuccess (run (newMux 2) exPre).2 (exData [1, 2, 3]) ∧ Emits (run (newMux 2) exPre).2 (.data (exData [1, 2, 3])) := by
  decide +kernel
-- T1d hypotheses: a stretch without tables (one successful `WriteData`, period 2)
example : RunAll StepOK' (newMux 2) ((exPre ++ [.data (exData [1, 2, 3])]) ++ exMid) ∧
    RunAll Quiet (run (newMux 2) (exPre ++ [.data (exData [1, 2, 3])])).2 exMid ∧
    succCount (run (newMux 2) (exPre ++ [.data (exData [1, 2, 3])])).2 exMid = 1 := by decide +kernel
-- T2b hypotheses: `exMid` lies between two emissions and modifies the content (an add): version 0, then 1
example : RunAll StepOK' (newMux 2) (exPre ++ .data (exData [1, 2, 3]) :: exMid) ∧
    Emits (run (newMux 2) exPre).2 (.data (exData [1, 2, 3])) ∧
    RunAll NoEmit (step (run (newMux 2) exPre).2 (.data (exData [1, 2, 3]))).2 exMid ∧
    anyModifies (step (run (newMux 2) exPre).2 (.data (exData [1, 2, 3]))).2 exMid = true ∧
    Emits (run (newMux 2) (exPre ++ .data (exData [1, 2, 3]) :: exMid)).2 (.data (exData [5])) ∧
    wPMT (run (newMux 2) exPre).2 = 0 ∧ wPMT (run (newMux 2) (exPre ++ .data (exData [1, 2, 3]) :: exMid)).2 = 1 := by
  decide +kernel
-- … and a stretch that does not modify it (a `WriteData` and a refused add): same version
example : Emits (run (newMux 3) exPre).2 (.data (exData [1])) ∧
    RunAll NoEmit (step (run (newMux 3) exPre).2 (.data (exData [1]))).2 [.data (exData [2]), .add { elementaryPID := 256 }] ∧
    anyModifies (step (run (newMux 3) exPre).2 (.data (exData [1]))).2 [.data (exData [2]), .add { elementaryPID := 256 }] = false ∧
    wPMT (run (newMux 3) (exPre ++ [.data (exData [1]), .data (exData [2]), .add { elementaryPID := 256 }])).2 = 0 := by
  decide +kernel
-- T3c hypotheses: streams without descriptors
example : ∀ es ∈ (run (newMux 2) (exPre ++ .data (exData [1, 2, 3]) :: exMid)).2.streams, StreamOk es := by
  have h : (run (newMux 2) (exPre ++ .data (exData [1, 2, 3]) :: exMid)).2.streams.all
      (fun es => decide (es.streamType < 256) && es.elementaryStreamDescriptors.isEmpty) = true := by decide +kernel
  intro es hes
  have := List.all_eq_true.1 h es hes
  simp only [Bool.and_eq_true, decide_eq_true_eq, List.isEmpty_iff] at this
  exact ⟨this.1, (by rw [this.2]; intro d hd; cases hd), (by rw [this.2]; decide)⟩
example : 9 + PSIRT.pmtBodySize (run (newMux 2) (exPre ++ .data (exData [1, 2, 3]) :: exMid)).2.pmtData < 4096 := by
  decide +kernel
-- T4c: a state with room
example : (newMux 2).nextPID < 65536 ∧ (newMux 2).esCC.length < 7934 := by decide
-- a forced emission: random access indicator on the PCR PID, although the counter (1) is below the period (5)
example : (run (newMux 5) (exPre ++ [.data (exData [1])])).2.retransmitCounter = 0 ∧
    dataForce (run (newMux 5) (exPre ++ [.data (exData [1])])).2
      { pid := 256, adaptationField := some { randomAccessIndicator := true }, pes := { data := [7] } } = true ∧
    Emits (run (newMux 5) (exPre ++ [.data (exData [1])])).2
      (.data { pid := 256, adaptationField := some { randomAccessIndicator := true }, pes := { data := [7] } }) := by
  decide +kernel

end Astits.C17.Model
