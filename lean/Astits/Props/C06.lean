/-
C06 — duplicate packets are harmless; packet loss never yields spliced data.
Theorems about the accumulator / pool model; the regenerated Go predicates are tied below.
-/
import Astits.Proofs.Pool
import Astits.Generated.Exprs
import Astits.Generated.Facts
namespace Astits.C06

/-! #### tie: the Go predicates of today are the model's -/

def ccOr0 (q : List Packet) : Nat := (lastCC q).getD 0

theorem lastCC_none_iff (q : List Packet) : lastCC q = none ↔ q.length = 0 := by
  unfold lastCC
  cases q with
  | nil => simp
  | cons a r => simp [List.getLast?_cons]

theorem hasDiscontinuity_eq_generated (q : List Packet) (p : Packet) :
    hasDiscontinuity q p = Generated.hasDiscontinuity q.length p.header.hasAdaptationField
      ((p.adaptationField.map (·.discontinuityIndicator)).getD false) p.header.hasPayload
      p.header.continuityCounter (ccOr0 q) := by
  unfold hasDiscontinuity Generated.hasDiscontinuity pktDI ccOr0
  cases h : lastCC q with
  | none =>
    have : q.length = 0 := (lastCC_none_iff q).mp h
    simp [this]
  | some l =>
    have : q.length ≠ 0 := fun h0 => by
      have := (lastCC_none_iff q).mpr h0; rw [h] at this; cases this
    have hpos : q.length > 0 := Nat.pos_of_ne_zero this
    simp [hpos]

theorem isSameAsPrevious_eq_generated (q : List Packet) (p : Packet) :
    isSameAsPrevious q p = Generated.isSameAsPrevious q.length p.header.hasPayload p.header.continuityCounter (ccOr0 q) := by
  unfold isSameAsPrevious Generated.isSameAsPrevious ccOr0
  cases h : lastCC q with
  | none =>
    have : q.length = 0 := (lastCC_none_iff q).mp h
    simp [this]
  | some l =>
    have : q.length ≠ 0 := fun h0 => by
      have := (lastCC_none_iff q).mpr h0; rw [h] at this; cases this
    have hpos : q.length > 0 := Nat.pos_of_ne_zero this
    simp [hpos]

/-- the order of the tests in `packetAccumulator.add` as found in the source today:
duplicate test before discontinuity test (whose reset is waived for a discontinuity announced on a unit start), then the
flush on unit start, then the PSI completeness test -/
theorem add_order_in_source :
    Generated.Facts.accumulatorAddOrder = ["isSameAsPrevious", "hasDiscontinuity", "isSameAsPrevious",
      "p.Header.PayloadUnitStartIndicator", "p.Header.PayloadUnitStartIndicator", "isPSIComplete"] := by
  decide

/-- a unit start that announces a discontinuity hands over everything accumulated so far (it is not discarded) and
starts the new unit — whatever the queue holds, provided the packet does not repeat the counter of the last one -/
theorem announced_discontinuity_on_unit_start_flushes (pm : ProgramMap) (pid : Nat) (q : List Packet) (p : Packet)
    (hnp : (pid == 0 || pm.has pid) = false) (hpusi : p.header.payloadUnitStartIndicator = true) (hdi : pktDI p = true)
    (hnd : isSameAsPrevious q p = false) :
    accAdd pm pid q p = (q, [p]) := by
  unfold accAdd
  simp [hdi, hpusi, hnp, hnd]

/-! #### duplicates -/

/-- a duplicate (same counter as the last queued packet, no discontinuity indicator) changes nothing -/
theorem dup_dropped (pm : ProgramMap) (pid : Nat) (q : List Packet) (p : Packet)
    (hs : isSameAsPrevious q p = true) (hd : pktDI p = false) : accAdd pm pid q p = ([], q) := by
  unfold accAdd; simp [hs, hd]

/-- on a PID that is not flushed early (neither the PAT PID nor a known PMT PID), right after a payload
packet has been queued, the same packet again is a duplicate -/
theorem queued_packet_is_last (pm : ProgramMap) (pid : Nat) (q : List Packet) (p : Packet)
    (hnp : (pid == 0 || pm.has pid) = false) (hns : (isSameAsPrevious q p && !pktDI p) = false) :
    ∃ q', (accAdd pm pid q p).2 = q' ++ [p] := by
  unfold accAdd
  simp only [hns, hnp, Bool.false_and]
  by_cases hpusi : p.header.payloadUnitStartIndicator = true
  · exact ⟨[], by simp [hpusi]⟩
  · exact ⟨if hasDiscontinuity q p then [] else q, by simp [hpusi]⟩

/-- **duplicates are harmless on PES PIDs**: feeding a payload packet (no transport error, no
discontinuity indicator) twice in a row flushes nothing the second time and leaves the pool as it was
after the first copy — hence the rest of the run is identical -/
theorem dup_harmless_pes (pm : ProgramMap) (pool : Pool) (p : Packet)
    (hpay : p.header.hasPayload = true) (htei : p.header.transportErrorIndicator = false) (hdi : pktDI p = false)
    (hnp : (p.header.pid == 0 || pm.has p.header.pid) = false) :
    poolAdd pm (poolAdd pm pool p).2 p = ([], (poolAdd pm pool p).2) := by
  by_cases hs : (isSameAsPrevious (pool.get p.header.pid) p && !pktDI p) = true
  · -- the first copy is itself a duplicate of what is queued: both copies are dropped
    have h1 : poolAdd pm pool p = ([], pool.put p.header.pid (pool.get p.header.pid)) := by
      unfold poolAdd accAdd
      simp [htei, hpay, hs]
    rw [h1]
    unfold poolAdd accAdd
    simp [htei, hpay, hs, Pool.put_put]
  · -- otherwise the first copy is queued last, so the second one has the counter of the last queued packet
    have hs' : (isSameAsPrevious (pool.get p.header.pid) p && !pktDI p) = false := by simpa using hs
    obtain ⟨q', hq'⟩ := queued_packet_is_last pm p.header.pid (pool.get p.header.pid) p hnp hs'
    have h1 : (poolAdd pm pool p).2 = pool.put p.header.pid (q' ++ [p]) := by
      unfold poolAdd
      simp [htei, hpay, hq']
    rw [h1]
    unfold poolAdd
    simp only [htei, hpay, Bool.not_true, Bool.false_eq_true, if_false, Pool.get_put_same]
    have hdup : accAdd pm p.header.pid (q' ++ [p]) p = ([], q' ++ [p]) :=
      dup_dropped pm _ _ _ (isSame_after_append q' p hpay) hdi
    rw [hdup]
    simp [Pool.put_put]

/-- feeding a list of packets to the pool with a fixed program map: what each packet flushed, the pool afterwards -/
def poolRun (pm : ProgramMap) : Pool → List Packet → List (List Packet) × Pool
  | pool, [] => ([], pool)
  | pool, p :: r =>
    let fs := poolRun pm (poolAdd pm pool p).2 r
    ((poolAdd pm pool p).1 :: fs.1, fs.2)

theorem poolRun_append (pm : ProgramMap) (pool : Pool) (a b : List Packet) :
    poolRun pm pool (a ++ b) = ((poolRun pm pool a).1 ++ (poolRun pm (poolRun pm pool a).2 b).1,
                                 (poolRun pm (poolRun pm pool a).2 b).2) := by
  induction a generalizing pool with
  | nil => simp [poolRun]
  | cons p r ih => simp [poolRun, ih]

/-- **stream form**: a duplicate inserted immediately after a payload packet of a PES PID adds one empty
flush and changes nothing else — every group flushed later, and the final pool (hence the EOF drain), are
the same as without the duplicate -/
theorem dup_stream_pes (pm : ProgramMap) (pool : Pool) (pre post : List Packet) (p : Packet)
    (hpay : p.header.hasPayload = true) (htei : p.header.transportErrorIndicator = false) (hdi : pktDI p = false)
    (hnp : (p.header.pid == 0 || pm.has p.header.pid) = false) :
    poolRun pm pool (pre ++ p :: p :: post) =
      ((poolRun pm pool pre).1 ++ (poolAdd pm (poolRun pm pool pre).2 p).1 :: [] ::
          (poolRun pm (poolAdd pm (poolRun pm pool pre).2 p).2 post).1,
       (poolRun pm pool (pre ++ p :: post)).2)
    ∧ (poolRun pm pool (pre ++ p :: post)).1 =
      (poolRun pm pool pre).1 ++ (poolAdd pm (poolRun pm pool pre).2 p).1 ::
          (poolRun pm (poolAdd pm (poolRun pm pool pre).2 p).2 post).1 := by
  have hd := dup_harmless_pes pm (poolRun pm pool pre).2 p hpay htei hdi hnp
  constructor
  · rw [poolRun_append, poolRun_append]
    simp only [poolRun, hd]
  · rw [poolRun_append]
    simp only [poolRun]

/-! #### non-vacuity -/
def pkt (cc : Nat) (pusi : Bool) : Packet :=
  { header := { continuityCounter := cc, hasAdaptationField := false, hasPayload := true, payloadUnitStartIndicator := pusi,
                pid := 256, transportErrorIndicator := false, transportPriority := false, transportScramblingControl := 0 },
    payload := [1, 2, 3] }

example : (pkt 3 true).header.hasPayload = true ∧ pktDI (pkt 3 true) = false
    ∧ ((pkt 3 true).header.pid == 0 || ProgramMap.has [] (pkt 3 true).header.pid) = false := by decide
example : (poolRun [] [] [pkt 3 true, pkt 4 false, pkt 4 false, pkt 5 true]).1 = [[], [], [], [pkt 3 true, pkt 4 false]] := by decide

end Astits.C06
